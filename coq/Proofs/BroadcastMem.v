(* Byte-memory lemmas for Model/Broadcast.v: reads after writes, frame rules,
   little-endian encode/decode, hex injectivity. *)
From Coq Require Import FMapPositive String Ascii.
Require Import V.Base.MachineInt.
Require Import V.Generated.GenConsts.
Require Import V.Model.Broadcast.
Require Import V.Model.BroadcastShow.
From Coq Require Import ZifyBool.
Open Scope Z_scope.

Lemma key_inj a b : key a = key b -> a = b.
Proof. destruct a, b; simpl; intros H; try discriminate; try congruence. Qed.

Lemma rd_add m k v a : rd (PositiveMap.add (key k) v m) a = if a =? k then v else rd m a.
Proof.
  unfold rd. destruct (Z.eqb_spec a k) as [->|N].
  - now rewrite PositiveMap.gss.
  - rewrite PositiveMap.gso; auto. intros E. apply key_inj in E. congruence.
Qed.

Lemma rd_put_bytes bs : forall m off a,
  rd (put_bytes m off bs) a =
  if (off <=? a) && (a <? off + Z.of_nat (length bs)) then nth (Z.to_nat (a - off)) bs 0 else rd m a.
Proof.
  induction bs as [|b r IH]; intros m off a.
  - cbn [put_bytes length]. destruct ((off <=? a) && (a <? off + Z.of_nat 0)) eqn:E; auto. lia.
  - cbn [put_bytes]. rewrite IH, rd_add. cbn [length]. rewrite Nat2Z.inj_succ.
    destruct (Z.eqb_spec a off) as [->|N].
    + replace (off + 1 <=? off) with false by lia. cbn [andb].
      replace ((off <=? off) && (off <? off + Z.succ (Z.of_nat (length r)))) with true by lia.
      now rewrite Z.sub_diag.
    + destruct ((off + 1 <=? a) && (a <? off + 1 + Z.of_nat (length r))) eqn:E1;
      destruct ((off <=? a) && (a <? off + Z.succ (Z.of_nat (length r)))) eqn:E2; try lia; auto.
      replace (Z.to_nat (a - off)) with (S (Z.to_nat (a - (off + 1)))) by lia. reflexivity.
Qed.

Lemma rd_put_bytes_out m off bs a :
  a < off \/ off + Z.of_nat (length bs) <= a -> rd (put_bytes m off bs) a = rd m a.
Proof. intros H. rewrite rd_put_bytes. destruct ((off <=? a) && (a <? off + Z.of_nat (length bs))) eqn:E; auto. lia. Qed.

Lemma get_bytes_length m o n : length (get_bytes m o n) = n.
Proof. revert o; induction n; intros; cbn; auto. Qed.

Lemma get_bytes_ext m m' : forall n o,
  (forall a, o <= a < o + Z.of_nat n -> rd m a = rd m' a) -> get_bytes m o n = get_bytes m' o n.
Proof.
  induction n; intros o H; cbn [get_bytes]; auto.
  rewrite H by lia. f_equal. apply IHn. intros a Ha. apply H. lia.
Qed.

Lemma get_bytes_eq_list : forall bs m o,
  (forall i, (i < length bs)%nat -> rd m (o + Z.of_nat i) = nth i bs 0) -> get_bytes m o (length bs) = bs.
Proof.
  induction bs as [|b r IH]; intros m o H; cbn [length get_bytes]; auto.
  f_equal.
  - specialize (H 0%nat). cbn in H. rewrite Z.add_0_r in H. apply H. lia.
  - apply IH. intros i Hi. specialize (H (S i)). cbn [nth length] in H.
    replace (o + 1 + Z.of_nat i) with (o + Z.of_nat (S i)) by lia. apply H. lia.
Qed.

Lemma get_put_same m o bs : get_bytes (put_bytes m o bs) o (length bs) = bs.
Proof.
  apply get_bytes_eq_list. intros i Hi. rewrite rd_put_bytes.
  replace ((o <=? o + Z.of_nat i) && (o + Z.of_nat i <? o + Z.of_nat (length bs))) with true by lia.
  f_equal. lia.
Qed.

Lemma get_put_other m o bs o' n :
  o' + Z.of_nat n <= o \/ o + Z.of_nat (length bs) <= o' ->
  get_bytes (put_bytes m o bs) o' n = get_bytes m o' n.
Proof. intros H. apply get_bytes_ext. intros a Ha. apply rd_put_bytes_out. lia. Qed.

(* ---- little endian ---- *)
Lemma le_bytes_length n : forall v, length (le_bytes n v) = n.
Proof. induction n; intros; cbn; auto. Qed.

Lemma le_val_le_bytes n : forall v, le_val (le_bytes n v) = v mod 256 ^ Z.of_nat n.
Proof.
  induction n; intros v.
  - cbn. now rewrite Z.mod_1_r.
  - cbn [le_bytes le_val]. rewrite IHn, Nat2Z.inj_succ, Z.pow_succ_r by lia.
    rewrite Z.rem_mul_r by lia. reflexivity.
Qed.

Lemma wrap32_mod v : in_i32 v = true -> wrap32 (v mod 256 ^ 4) = v.
Proof.
  intros H. unfold wrap32. change (256 ^ 4) with two32.
  rewrite Zplus_mod_idemp_l. unfold in_i32, two31, two32 in *. rewrite Z.mod_small; lia.
Qed.
Lemma wrap64_mod v : in_i64 v = true -> wrap64 (v mod 256 ^ 8) = v.
Proof.
  intros H. unfold wrap64. change (256 ^ 8) with two64.
  rewrite Zplus_mod_idemp_l. unfold in_i64, two63, two64 in *. rewrite Z.mod_small; lia.
Qed.

Lemma get32_put32 m o v : in_i32 v = true -> get32 (put32 m o v) o = v.
Proof.
  intros H. unfold get32, put32.
  pose proof (get_put_same m o (le_bytes 4 v)) as E. rewrite le_bytes_length in E. rewrite E.
  rewrite le_val_le_bytes. now apply wrap32_mod.
Qed.
Lemma get64_put64 m o v : in_i64 v = true -> get64 (put64 m o v) o = v.
Proof.
  intros H. unfold get64, put64.
  pose proof (get_put_same m o (le_bytes 8 v)) as E. rewrite le_bytes_length in E. rewrite E.
  rewrite le_val_le_bytes. now apply wrap64_mod.
Qed.

Lemma get32_put_other m o bs o' :
  o' + 4 <= o \/ o + Z.of_nat (length bs) <= o' -> get32 (put_bytes m o bs) o' = get32 m o'.
Proof. intros H. unfold get32. rewrite get_put_other; auto. Qed.
Lemma get64_put_other m o bs o' :
  o' + 8 <= o \/ o + Z.of_nat (length bs) <= o' -> get64 (put_bytes m o bs) o' = get64 m o'.
Proof. intros H. unfold get64. rewrite get_put_other; auto. Qed.

Lemma get32_put32_other m o v o' : o' + 4 <= o \/ o + 4 <= o' -> get32 (put32 m o v) o' = get32 m o'.
Proof. intros H. unfold put32. apply get32_put_other. now rewrite le_bytes_length. Qed.
Lemma get32_put64_other m o v o' : o' + 4 <= o \/ o + 8 <= o' -> get32 (put64 m o v) o' = get32 m o'.
Proof. intros H. unfold put64. apply get32_put_other. now rewrite le_bytes_length. Qed.
Lemma get64_put32_other m o v o' : o' + 8 <= o \/ o + 4 <= o' -> get64 (put32 m o v) o' = get64 m o'.
Proof. intros H. unfold put32. apply get64_put_other. now rewrite le_bytes_length. Qed.
Lemma get64_put64_other m o v o' : o' + 8 <= o \/ o + 8 <= o' -> get64 (put64 m o v) o' = get64 m o'.
Proof. intros H. unfold put64. apply get64_put_other. now rewrite le_bytes_length. Qed.
Lemma get_bytes_put32_other m o v o' n : o' + Z.of_nat n <= o \/ o + 4 <= o' -> get_bytes (put32 m o v) o' n = get_bytes m o' n.
Proof. intros H. unfold put32. apply get_put_other. now rewrite le_bytes_length. Qed.
Lemma get_bytes_put64_other m o v o' n : o' + Z.of_nat n <= o \/ o + 8 <= o' -> get_bytes (put64 m o v) o' n = get_bytes m o' n.
Proof. intros H. unfold put64. apply get_put_other. now rewrite le_bytes_length. Qed.

Lemma get32_ext m m' o : (forall a, o <= a < o + 4 -> rd m a = rd m' a) -> get32 m o = get32 m' o.
Proof. intros H. unfold get32. f_equal. f_equal. now apply get_bytes_ext. Qed.

(* ---- masks and alignment ---- *)
Lemma land_mask x k : 0 <= k -> Z.land x (2 ^ k - 1) = x mod 2 ^ k.
Proof. intros Hk. rewrite <- Z.land_ones by lia. f_equal. rewrite Z.ones_equiv. lia. Qed.

Lemma wrap32_mod_pow x k : 0 <= k <= 32 -> wrap32 x mod 2 ^ k = x mod 2 ^ k.
Proof.
  intros Hk. destruct (wrap32_eqm x) as [j ->].
  replace two32 with (2 ^ (32 - k) * 2 ^ k).
  - rewrite Z.mul_assoc. apply Z.mod_add. apply Z.pow_nonzero; lia.
  - rewrite <- Z.pow_add_r by lia. replace (32 - k + k) with 32 by lia. reflexivity.
Qed.

Lemma align_land x : Z.land x (Z.lnot (8 - 1)) = x / 8 * 8.
Proof.
  change (8 - 1) with (Z.ones 3). rewrite <- Z.ldiff_land, Z.ldiff_ones_r by lia.
  rewrite Z.shiftr_div_pow2, Z.shiftl_mul_pow2 by lia. reflexivity.
Qed.

Lemma align8_spec v : align v 8 = (v + 7) / 8 * 8.
Proof. reflexivity. Qed.

Lemma align8_bounds v : v <= align v 8 < v + 8 /\ align v 8 mod 8 = 0.
Proof.
  unfold align. change (8 - 1) with 7. split.
  - pose proof (Z.div_mod (v + 7) 8 ltac:(lia)). pose proof (Z.mod_pos_bound (v + 7) 8 ltac:(lia)). lia.
  - apply Z.mod_mul. lia.
Qed.

Lemma align8_id v : v mod 8 = 0 -> align v 8 = v.
Proof.
  intros H. unfold align. change (8 - 1) with 7.
  pose proof (Z.div_mod v 8 ltac:(lia)). rewrite H in *.
  replace (v + 7) with (7 + (v / 8) * 8) by lia. rewrite Z.div_add by lia.
  change (7 / 8) with 0. lia.
Qed.

(* ---- hex is injective on byte lists ---- *)
Lemma hexd_inj a b : 0 <= a < 16 -> 0 <= b < 16 -> hexd a = hexd b -> a = b.
Proof.
  intros Ha Hb.
  assert (A : a = 0 \/ a = 1 \/ a = 2 \/ a = 3 \/ a = 4 \/ a = 5 \/ a = 6 \/ a = 7 \/ a = 8 \/ a = 9 \/ a = 10 \/ a = 11 \/ a = 12 \/ a = 13 \/ a = 14 \/ a = 15) by lia.
  assert (B : b = 0 \/ b = 1 \/ b = 2 \/ b = 3 \/ b = 4 \/ b = 5 \/ b = 6 \/ b = 7 \/ b = 8 \/ b = 9 \/ b = 10 \/ b = 11 \/ b = 12 \/ b = 13 \/ b = 14 \/ b = 15) by lia.
  repeat (destruct A as [->|A]); try subst a; repeat (destruct B as [->|B]); try subst b; cbn; intros E; try reflexivity; discriminate E.
Qed.

Definition bytes_ok (bs : list Z) : Prop := Forall (fun b => 0 <= b < 256) bs.

Lemma hex_inj : forall a b, bytes_ok a -> bytes_ok b -> hex a = hex b -> a = b.
Proof.
  induction a as [|x a IH]; destruct b as [|y b]; intros Ha Hb E; cbn in E; try discriminate; auto.
  inversion Ha; inversion Hb; subst. injection E as E1 E2 E3.
  apply hexd_inj in E1; [|apply Z.div_lt_upper_bound + split; try apply Z.div_pos; try apply Z.div_lt_upper_bound; lia ..].
  apply hexd_inj in E2; [|apply Z.mod_pos_bound; lia ..].
  f_equal; [|now apply IH].
  pose proof (Z.div_mod x 16 ltac:(lia)). pose proof (Z.div_mod y 16 ltac:(lia)). lia.
Qed.
