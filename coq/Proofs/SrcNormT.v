(* Normalising lemmas and tactics for the functions produced by the general source translator
   (tools/props/src_translate.py): the width-generic operators of Base/MachineIntT.v, the result shapes
   (sres, do_, qbind), and a few bit-level facts the translated helper functions need.
   Extends Proofs/SrcNorm.v (i32 / i64 operators). *)
Require Import V.Base.MachineInt V.Base.MachineInt2 V.Base.MachineIntT V.Proofs.SrcNorm.
From Coq Require Import ZifyBool String.
Open Scope Z_scope.

(* ---- generic checked operators ---- *)
Lemma chkT_ok m t z : inT t z = true -> chkT m t z = Ok z.
Proof. intros H. unfold chkT. rewrite H. reflexivity. Qed.

Lemma wrapT_range t z : t <> TBool -> inT t (wrapT t z) = true.
Proof. intros Ht. unfold inT, wrapT.
  assert (H : 0 < 2 ^ bitsT t) by (destruct t; reflexivity).
  pose proof (Z.mod_pos_bound (z - loT t) (2 ^ bitsT t) H).
  assert (hiT t = loT t + 2 ^ bitsT t) by (destruct t; try reflexivity; congruence). lia. Qed.

Lemma wrapT_id t z : inT t z = true -> wrapT t z = z.
Proof. unfold inT, wrapT. intros H.
  assert (hiT t = loT t + 2 ^ bitsT t) by (destruct t; reflexivity).
  rewrite Z.mod_small; lia. Qed.

Lemma chkT_range m t z a : t <> TBool -> chkT m t z = Ok a -> inT t a = true.
Proof. intros Ht. unfold chkT. destruct (inT t z) eqn:E.
  - intros H; inversion H; subst; assumption.
  - destruct m; intros H; inversion H. apply wrapT_range; assumption. Qed.

(* the i32 / i64 instances are the operators of Base/MachineInt.v *)
Lemma wrapT_i32 z : wrapT TI32 z = wrap32 z.
Proof. unfold wrapT, wrap32, two31, two32. change (loT TI32) with (-2147483648).
  change (2 ^ bitsT TI32) with 4294967296. replace (z - -2147483648) with (z + 2147483648) by lia. lia. Qed.
Lemma wrapT_i64 z : wrapT TI64 z = wrap64 z.
Proof. unfold wrapT, wrap64, two63, two64. change (loT TI64) with (-9223372036854775808).
  change (2 ^ bitsT TI64) with 18446744073709551616.
  replace (z - -9223372036854775808) with (z + 9223372036854775808) by lia. lia. Qed.
Lemma inT_i32 z : inT TI32 z = in_i32 z. Proof. reflexivity. Qed.
Lemma inT_i64 z : inT TI64 z = in_i64 z. Proof. reflexivity. Qed.
Lemma inT_u64 z : inT TU64 z = in_u64 z. Proof. reflexivity. Qed.
Lemma wrapT_u64 z : wrapT TU64 z = wrapu64 z.
Proof. unfold wrapT, wrapu64, two64. change (loT TU64) with 0. rewrite Z.sub_0_r, Z.add_0_r. reflexivity. Qed.
Lemma wrapT_u32 z : wrapT TU32 z = wrapu32 z.
Proof. unfold wrapT, wrapu32, two32. change (loT TU32) with 0. rewrite Z.sub_0_r, Z.add_0_r. reflexivity. Qed.

Lemma castT_id t z : inT t z = true -> castT t z = z.
Proof. exact (wrapT_id t z). Qed.

Lemma shlT_ok m t a n : 0 <= n < bitsT t -> shlT m t a n = Ok (wrapT t (a * 2 ^ n)).
Proof. intros H. unfold shlT. rewrite shamt_ok by assumption. reflexivity. Qed.
Lemma shrT_ok m t a n : 0 <= n < bitsT t -> shrT m t a n = Ok (a / 2 ^ n).
Proof. intros H. unfold shrT. rewrite shamt_ok by assumption. reflexivity. Qed.

Lemma divT_ok t a b : 0 < b -> divT t a b = Ok (Z.quot a b).
Proof. intros H. unfold divT. replace (b =? 0) with false by lia. replace (b =? -1) with false by lia.
  rewrite Bool.andb_false_r. reflexivity. Qed.
Lemma remT_ok t a b : 0 < b -> remT t a b = Ok (Z.rem a b).
Proof. intros H. unfold remT. replace (b =? 0) with false by lia. replace (b =? -1) with false by lia.
  rewrite Bool.andb_false_r. reflexivity. Qed.

Lemma clampT_ok x lo hi : lo <= hi -> clampT x lo hi = Ok (Z.max lo (Z.min hi x)).
Proof. intros H. unfold clampT. replace (hi <? lo) with false by lia. reflexivity. Qed.

(* ---- results ---- *)
Lemma do_ok n a r : do_ n a (Ok r) = Ok (RDo n a r).
Proof. reflexivity. Qed.
Lemma qbind_ok v k : qbind (ROk v) k = k v.
Proof. reflexivity. Qed.
Lemma qbind_err n a k : qbind (RErr n a) k = Ok (RErr n a).
Proof. reflexivity. Qed.

(* ---- bits ---- *)
(* x | b where the k low bits of x are clear and b has only those *)
Lemma land_disjoint x b k : 0 <= k -> x mod 2 ^ k = 0 -> 0 <= b < 2 ^ k -> Z.land x b = 0.
Proof. intros Hk Hx Hb. apply Z.bits_inj'. intros n Hn. rewrite Z.land_spec, Z.bits_0.
  destruct (Z.lt_ge_cases n k) as [L|G].
  - assert (E : x = 2 ^ k * (x / 2 ^ k)).
    { pose proof (Z.div_mod x (2 ^ k) ltac:(apply Z.pow_nonzero; lia)). lia. }
    rewrite E, Z.mul_comm, Z.mul_pow2_bits_low by lia. reflexivity.
  - rewrite <- (Z.mod_small b (2 ^ k)) by lia. rewrite Z.mod_pow2_bits_high by lia.
    apply Bool.andb_false_r. Qed.

Lemma lor_disjoint x b k : 0 <= k -> x mod 2 ^ k = 0 -> 0 <= b < 2 ^ k -> Z.lor x b = x + b.
Proof. intros Hk Hx Hb. pose proof (land_disjoint x b k Hk Hx Hb) as L.
  rewrite <- Z.lxor_lor by assumption. symmetry. apply Z.add_nocarry_lxor. assumption. Qed.

(* the high and the low half of a 64-bit word packed with `(hi & mask) << 32 | (lo & mask)` *)
Lemma pack64 a b : 0 <= a < two32 -> 0 <= b < two32 ->
  Z.lor (shl64 a 32) b = wrap64 (a * two32 + b).
Proof. intros Ha Hb. unfold shl64. change (2 ^ 32) with two32.
  assert (D : wrap64 (a * two32) mod 2 ^ 32 = 0).
  { unfold wrap64, two63, two64, two32.
    replace (a * 4294967296 + 9223372036854775808) with ((a + 2147483648) * 4294967296) by lia.
    change 18446744073709551616 with (4294967296 * 4294967296).
    rewrite (Z.mul_comm (a + 2147483648)), Z.mul_mod_distr_l by lia.
    change (2 ^ 32) with 4294967296.
    replace (4294967296 * ((a + 2147483648) mod 4294967296) - 9223372036854775808)
      with ((((a + 2147483648) mod 4294967296) - 2147483648) * 4294967296) by lia.
    apply Z_mod_mult. }
  rewrite (lor_disjoint _ b 32) by (try assumption; unfold two32 in *; lia).
  unfold wrap64, two63, two64, two32 in *.
  replace (a * 4294967296 + b + 9223372036854775808) with (b + (a + 2147483648) * 4294967296) by lia.
  replace (a * 4294967296 + 9223372036854775808) with ((a + 2147483648) * 4294967296) by lia.
  change 18446744073709551616 with (4294967296 * 4294967296).
  rewrite (Z.mul_comm (a + 2147483648)), Z.mul_mod_distr_l by lia.
  pose proof (Z.mod_pos_bound (a + 2147483648) 4294967296 ltac:(lia)) as Hm.
  set (u := (a + 2147483648) mod 4294967296) in *.
  pose proof (Z.div_mod (a + 2147483648) 4294967296 ltac:(lia)) as Hd. fold u in Hd.
  replace (b + 4294967296 * (a + 2147483648))
    with ((b + 4294967296 * u) + ((a + 2147483648) / 4294967296) * (4294967296 * 4294967296)) by lia.
  rewrite Z_mod_plus_full. rewrite Z.mod_small by nia. lia. Qed.

(* ---- tactics ---- *)
Ltac srcT_side :=
  first [ reflexivity | lia
        | unfold inT, in_i32, in_i64, in_u64, two31, two32, two63, two64 in *; cbn [loT hiT signedT bitsT] in *; lia ].

Ltac srcT_norm1 :=
  match goal with
  | |- context [chkT ?m ?t ?z] => rewrite (chkT_ok m t z) by srcT_side
  | |- context [shlT ?m ?t ?a ?n] => rewrite (shlT_ok m t a n) by srcT_side
  | |- context [shrT ?m ?t ?a ?n] => rewrite (shrT_ok m t a n) by srcT_side
  | |- context [divT ?t ?a ?b] => rewrite (divT_ok t a b) by srcT_side
  | |- context [remT ?t ?a ?b] => rewrite (remT_ok t a b) by srcT_side
  | |- context [clampT ?x ?lo ?hi] => rewrite (clampT_ok x lo hi) by srcT_side
  | |- context [castT ?t ?z] => rewrite (castT_id t z) by srcT_side
  | |- context [do_ ?n ?a (Ok ?r)] => rewrite (do_ok n a r)
  | |- context [qbind (ROk ?v) ?k] => rewrite (qbind_ok v k)
  | |- context [qbind (RErr ?n ?a) ?k] => rewrite (qbind_err n a k)
  end.

Ltac srcT_unfold_ops := unfold addT, subT, mulT, negT in *; src_unfold_ops.

Ltac srcT_norm :=
  repeat first [ progress cbn [bind] | progress cbv zeta | rewrite bind_assoc | src_norm1 | srcT_norm1 ].

(* split the first checked generic operation of a bind chain *)
Ltac srcT_case :=
  match goal with
  | |- context [bind (chkT ?m ?t ?z) _] =>
      let a := fresh "a" in let E := fresh "E" in let R := fresh "R" in
      destruct (chkT m t z) as [a| | | |] eqn:E; cbn [bind]; try reflexivity;
      [ pose proof (chkT_range _ _ _ _ ltac:(discriminate) E) as R ]
  | _ => src_case
  end.

Ltac srcT_auto :=
  srcT_unfold_ops; srcT_norm; repeat (try src_match_args; srcT_case; srcT_norm); src_close.

(* ---- robust case analysis: proofs that do not depend on the shape of the translated text ----
   src_robust: unfold the checked operators, orient every comparison the same way, make the arguments of the checked
   operations on both sides syntactically equal where they are equal as integers, split every checked operation into
   "fits" / "overflows" (with the range fact), split every `if`, and close the leaves by linear arithmetic
   (contradictory branches included).  A commuted operand, a flipped comparison, an extra `let`, `return` versus a
   trailing expression or a literal instead of a named constant leave such a proof valid. *)
Lemma chk32_dec m z :
  (in_i32 z = true /\ chk32 m z = Ok z) \/
  (in_i32 z = false /\ chk32 m z = match m with Debug => Panic | Release => Ok (wrap32 z) end).
Proof. unfold chk32. destruct (in_i32 z); [left|right]; split; reflexivity. Qed.
Lemma chk64_dec m z :
  (in_i64 z = true /\ chk64 m z = Ok z) \/
  (in_i64 z = false /\ chk64 m z = match m with Debug => Panic | Release => Ok (wrap64 z) end).
Proof. unfold chk64. destruct (in_i64 z); [left|right]; split; reflexivity. Qed.
Lemma chkT_dec m t z :
  (inT t z = true /\ chkT m t z = Ok z) \/
  (inT t z = false /\ chkT m t z = match m with Debug => Panic | Release => Ok (wrapT t z) end).
Proof. unfold chkT. destruct (inT t z); [left|right]; split; reflexivity. Qed.

Ltac cmp_norm := rewrite ?Z.gtb_ltb, ?Z.geb_leb in *.

Ltac src_lia :=
  unfold inT, in_i32, in_i64, in_u64, two31, two32, two63, two64 in *; cbn [loT hiT signedT bitsT] in *; lia.

(* the argument of a checked operation that occurs twice in two spellings: one spelling *)
Ltac unify_chk :=
  match goal with
  | |- context [chk32 ?m ?z1] =>
      match goal with |- context [chk32 m ?z2] => tryif constr_eq z1 z2 then fail else (replace z2 with z1 by lia) end
  | |- context [chk64 ?m ?z1] =>
      match goal with |- context [chk64 m ?z2] => tryif constr_eq z1 z2 then fail else (replace z2 with z1 by lia) end
  | |- context [chkT ?m ?t ?z1] =>
      match goal with |- context [chkT m t ?z2] => tryif constr_eq z1 z2 then fail else (replace z2 with z1 by lia) end
  end.

Ltac split_mode m := first [ is_var m; destruct m | idtac ].

Ltac split_chk1 :=
  match goal with
  | |- context [chk32 ?m ?z] =>
      let R := fresh "R" in let E := fresh "E" in
      destruct (chk32_dec m z) as [[R E]|[R E]]; rewrite E; clear E; [| split_mode m]; cbn [bind]
  | |- context [chk64 ?m ?z] =>
      let R := fresh "R" in let E := fresh "E" in
      destruct (chk64_dec m z) as [[R E]|[R E]]; rewrite E; clear E; [| split_mode m]; cbn [bind]
  | |- context [chkT ?m ?t ?z] =>
      let R := fresh "R" in let E := fresh "E" in
      destruct (chkT_dec m t z) as [[R E]|[R E]]; rewrite E; clear E; [| split_mode m]; cbn [bind]
  end.

Ltac if_split :=
  repeat match goal with
  | |- context [if ?c then _ else _] =>
      lazymatch type of c with bool => destruct c eqn:? end
  end.

(* strip the constructors two results share, down to the integers / booleans they carry *)
Ltac peel :=
  repeat match goal with
  | |- Ok _ = Ok _ => f_equal
  | |- ROk _ = ROk _ => f_equal
  | |- RErr _ _ = RErr _ _ => f_equal
  | |- RDo _ _ _ = RDo _ _ _ => f_equal
  | |- RStruct _ = RStruct _ => f_equal
  | |- cons _ _ = cons _ _ => f_equal
  | |- pair _ _ = pair _ _ => f_equal
  | |- Some _ = Some _ => f_equal
  | |- wrap32 _ = wrap32 _ => f_equal
  | |- wrap64 _ = wrap64 _ => f_equal
  end.

(* a proofs file may extend the simplification of leaves (interpreters of sres) with `Ltac src_simpl_hook ::= ...` *)
Ltac src_simpl_hook := idtac.

(* wrapped values are inside their type *)
Ltac wrap_ranges :=
  repeat match goal with
  | |- context [wrap64 ?z] =>
      lazymatch goal with H : in_i64 (wrap64 z) = true |- _ => fail | _ => pose proof (wrap64_range z) end
  | |- context [wrap32 ?z] =>
      lazymatch goal with H : in_i32 (wrap32 z) = true |- _ => fail | _ => pose proof (wrap32_range z) end
  end.

Ltac src_leaf :=
  cbn [bind do_ qbind negb andb orb] in *; src_simpl_hook; cmp_norm; wrap_ranges;
  repeat match goal with |- context [castT ?t ?z] => rewrite (castT_id t z) by src_lia end;
  first [ reflexivity | exfalso; src_lia | solve [ peel; first [ reflexivity | src_lia ] ] | congruence ].

Ltac src_robust :=
  cbv zeta; srcT_unfold_ops; cbn [bind]; cmp_norm; repeat (first [ src_norm1 | srcT_norm1 ]; cbn [bind]); repeat unify_chk;
  repeat (split_chk1; cmp_norm; repeat unify_chk); if_split; src_leaf.
