(* C14: the listener adapter's decoding of every event, applied to the protocol-side encoding,
   yields the callback the property demands, for all field values and strings of any length
   that fit the receiver's 4096-byte record limit. *)
Require Import V.Base.MachineInt V.Generated.GenConsts V.Generated.GenLayout.
Require Import V.Model.WireBytes V.Model.WireCodes V.Model.WireEvents V.Proofs.WireBytesProofs.
From Coq Require Import ZifyBool.
Open Scope Z_scope.

Lemma get_string_field fs k s :
  nth_error fs k = Some (FStr s) -> fsizes fs <= SCRATCH_CAPACITY ->
  get_string (fencs fs) (foff fs k) = Ok s.
Proof. intros H Hfit. pose proof (field_fits _ _ _ H) as Hf. cbn [fsize] in Hf.
  pose proof (foff_nonneg fs k) as H0. pose proof (Zlength_nonneg s) as Hs.
  unfold SCRATCH_CAPACITY in *. unfold get_string, SCRATCH_CAPACITY.
  assert (Hi : in_i32 (Zlength s) = true) by (unfold in_i32, two31; lia).
  rewrite (fencs_get_strlen _ _ _ H Hi).
  replace (foff fs k + 4 <=? 4096) with true by lia.
  replace (foff fs k + 4 + Zlength s <=? 4096) with true by lia.
  replace (0 <=? Zlength s) with true by lia.
  rewrite slice_pad_exact; rewrite (fencs_get_strbody _ _ _ H); reflexivity. Qed.

Lemma in_i32_andb a b : a && b = true -> a = true /\ b = true.
Proof. apply andb_prop. Qed.

Ltac split_wf H :=
  repeat match type of H with
  | _ && _ = true => let H1 := fresh "W" in let H2 := fresh "W" in
      apply andb_prop in H; destruct H as [H1 H2]; try split_wf H1; try split_wf H2
  end.

(* reads of the fixed-position integer fields of a field list *)
Ltac rd := repeat first
  [ erewrite fencs_get_i64 by (first [reflexivity | eassumption])
  | erewrite fencs_get_i32 by (first [reflexivity | eassumption]) ].

Lemma decode_publication_ready m excl corr reg session stream limit status log :
  let e := EvPublicationReady excl corr reg session stream limit status log in
  wf_event e = true -> Zlength (encode_event_spec e) <= SCRATCH_CAPACITY ->
  decode_event m (event_cmd e) (encode_event_spec e) = Ok (expected_callback e).
Proof. intros e W L. unfold e in *. unfold encode_event_spec in *. rewrite Zlength_fencs in L.
  cbn [wf_event] in W. split_wf W. cbn [event_fields] in *.
  set (fs := [FI64 corr; FI64 reg; FI32 session; FI32 stream; FI32 limit; FI32 status; FStr log]) in *.
  assert (Hlog : get_string (fencs fs) (foff fs 6) = Ok log) by (apply get_string_field; [reflexivity | exact L]).
  assert (H0 : get_i64 (fencs fs) (foff fs 0) = corr) by (apply fencs_get_i64; [reflexivity | assumption]).
  assert (H1 : get_i64 (fencs fs) (foff fs 1) = reg) by (apply fencs_get_i64; [reflexivity | assumption]).
  assert (H2 : get_i32 (fencs fs) (foff fs 2) = session) by (apply fencs_get_i32; [reflexivity | assumption]).
  assert (H3 : get_i32 (fencs fs) (foff fs 3) = stream) by (apply fencs_get_i32; [reflexivity | assumption]).
  assert (H4 : get_i32 (fencs fs) (foff fs 4) = limit) by (apply fencs_get_i32; [reflexivity | assumption]).
  assert (H5 : get_i32 (fencs fs) (foff fs 5) = status) by (apply fencs_get_i32; [reflexivity | assumption]).
  destruct excl; cbn [event_cmd decode_event expected_callback];
    change OFF_PublicationBuffersReadyDefn_log_file_length with (foff fs 6);
    change OFF_PublicationBuffersReadyDefn_correlation_id with (foff fs 0);
    change OFF_PublicationBuffersReadyDefn_registration_id with (foff fs 1);
    change OFF_PublicationBuffersReadyDefn_session_id with (foff fs 2);
    change OFF_PublicationBuffersReadyDefn_stream_id with (foff fs 3);
    change OFF_PublicationBuffersReadyDefn_position_limit_counter_id with (foff fs 4);
    change OFF_PublicationBuffersReadyDefn_channel_status_indicator_id with (foff fs 5);
    rewrite Hlog, H0, H1, H2, H3, H4, H5; reflexivity. Qed.

Lemma decode_subscription_ready m corr status :
  let e := EvSubscriptionReady corr status in
  wf_event e = true ->
  decode_event m (event_cmd e) (encode_event_spec e) = Ok (expected_callback e).
Proof. intros e W. unfold e in *. unfold encode_event_spec.
  cbn [wf_event] in W. split_wf W. cbn [event_fields].
  set (fs := [FI64 corr; FI32 status]).
  assert (H0 : get_i64 (fencs fs) (foff fs 0) = corr) by (apply fencs_get_i64; [reflexivity | assumption]).
  assert (H1 : get_i32 (fencs fs) (foff fs 1) = status) by (apply fencs_get_i32; [reflexivity | assumption]).
  cbn [event_cmd decode_event expected_callback].
  change OFF_SubscriptionReadyDefn_correlation_id with (foff fs 0).
  change OFF_SubscriptionReadyDefn_channel_status_indicator_id with (foff fs 1).
  rewrite H0, H1. reflexivity. Qed.

Lemma source_identity_offset_spec m fs log :
  nth_error fs 5 = Some (FStr log) -> foff fs 5 = IMAGE_BUFFERS_READY_LENGTH ->
  fsizes fs <= SCRATCH_CAPACITY ->
  source_identity_offset m (fencs fs) = Ok (IMAGE_BUFFERS_READY_LENGTH + 4 + align4 (Zlength log)).
Proof. intros H Ho Hfit. pose proof (field_fits _ _ _ H) as Hf. cbn [fsize] in Hf. rewrite Ho in Hf.
  pose proof (Zlength_nonneg log) as Hs. unfold SCRATCH_CAPACITY in *.
  assert (Hi : in_i32 (Zlength log) = true) by (change IMAGE_BUFFERS_READY_LENGTH with 28 in Hf; unfold in_i32, two31; lia).
  unfold source_identity_offset, get_string_length, SCRATCH_CAPACITY. rewrite <- Ho.
  rewrite (fencs_get_strlen _ _ _ H Hi). rewrite Ho.
  change IMAGE_BUFFERS_READY_LENGTH with 28 in *.
  replace (28 + 4 <=? 4096) with true by lia. cbn [bind].
  unfold add32, chk32. replace (in_i32 (Zlength log + 3)) with true by (unfold in_i32, two31; lia). cbn [bind].
  change (in_i32 (28 + 4)) with true. cbn [bind].
  assert (A : (Zlength log + 3) / 4 * 4 = align4 (Zlength log)) by (unfold align4, align; f_equal; f_equal; lia).
  rewrite A. pose proof (align4_pad (Zlength log) Hs). pose proof (pad4_range (Zlength log)).
  replace (in_i32 (28 + 4 + align4 (Zlength log))) with true by (unfold in_i32, two31; lia).
  reflexivity. Qed.

Lemma decode_available_image m corr session stream subreg subpos log src :
  let e := EvAvailableImage corr session stream subreg subpos log src in
  wf_event e = true -> Zlength (encode_event_spec e) <= SCRATCH_CAPACITY ->
  decode_event m (event_cmd e) (encode_event_spec e) = Ok (expected_callback e).
Proof. intros e W L. unfold e in *. unfold encode_event_spec in *. rewrite Zlength_fencs in L.
  cbn [wf_event] in W. split_wf W. cbn [event_fields] in *.
  set (fs := [FI64 corr; FI32 session; FI32 stream; FI64 subreg; FI32 subpos; FStr log;
              FPad (pad4 (Zlength log)); FStr src]) in *.
  assert (Hlog : get_string (fencs fs) (foff fs 5) = Ok log) by (apply get_string_field; [reflexivity | exact L]).
  assert (Hsrc : get_string (fencs fs) (foff fs 7) = Ok src) by (apply get_string_field; [reflexivity | exact L]).
  assert (Hso : source_identity_offset m (fencs fs) = Ok (foff fs 7)).
  { rewrite (source_identity_offset_spec m fs log) by (first [reflexivity | exact L]).
    f_equal. unfold fs. cbn [foff fsize]. pose proof (pad4_range (Zlength log)).
    rewrite align4_pad by apply Zlength_nonneg. change IMAGE_BUFFERS_READY_LENGTH with 28. lia. }
  assert (H0 : get_i64 (fencs fs) (foff fs 0) = corr) by (apply fencs_get_i64; [reflexivity | assumption]).
  assert (H1 : get_i32 (fencs fs) (foff fs 1) = session) by (apply fencs_get_i32; [reflexivity | assumption]).
  assert (H3 : get_i64 (fencs fs) (foff fs 3) = subreg) by (apply fencs_get_i64; [reflexivity | assumption]).
  assert (H4 : get_i32 (fencs fs) (foff fs 4) = subpos) by (apply fencs_get_i32; [reflexivity | assumption]).
  cbn [event_cmd decode_event expected_callback].
  change IMAGE_BUFFERS_READY_LENGTH with (foff fs 5) at 1.
  rewrite Hlog. cbn [bind]. rewrite Hso. cbn [bind]. rewrite Hsrc. cbn [bind].
  change OFF_ImageBuffersReadyDefn_correlation_id with (foff fs 0).
  change OFF_ImageBuffersReadyDefn_session_id with (foff fs 1).
  change OFF_ImageBuffersReadyDefn_subscription_registration_id with (foff fs 3).
  change OFF_ImageBuffersReadyDefn_subscriber_position_id with (foff fs 4).
  rewrite H0, H1, H3, H4. reflexivity. Qed.

Lemma decode_operation_success m corr :
  let e := EvOperationSuccess corr in
  wf_event e = true -> decode_event m (event_cmd e) (encode_event_spec e) = Ok (expected_callback e).
Proof. intros e W. unfold e in *. unfold encode_event_spec. cbn [wf_event] in W. cbn [event_fields].
  set (fs := [FI64 corr]).
  assert (H0 : get_i64 (fencs fs) (foff fs 0) = corr) by (apply fencs_get_i64; [reflexivity | assumption]).
  cbn [event_cmd decode_event expected_callback].
  change OFF_OperationSucceededDefn_correlation_id with (foff fs 0). rewrite H0. reflexivity. Qed.

Lemma decode_unavailable_image m corr subreg stream channel :
  let e := EvUnavailableImage corr subreg stream channel in
  wf_event e = true -> decode_event m (event_cmd e) (encode_event_spec e) = Ok (expected_callback e).
Proof. intros e W. unfold e in *. unfold encode_event_spec. cbn [wf_event] in W. split_wf W. cbn [event_fields].
  set (fs := [FI64 corr; FI64 subreg; FI32 stream; FStr channel]).
  assert (H0 : get_i64 (fencs fs) (foff fs 0) = corr) by (apply fencs_get_i64; [reflexivity | assumption]).
  assert (H1 : get_i64 (fencs fs) (foff fs 1) = subreg) by (apply fencs_get_i64; [reflexivity | assumption]).
  cbn [event_cmd decode_event expected_callback].
  change OFF_ImageMessageDefn_correlation_id with (foff fs 0).
  change OFF_ImageMessageDefn_subscription_registration_id with (foff fs 1).
  rewrite H0, H1. reflexivity. Qed.

Lemma decode_error m off code msg :
  let e := EvError off code msg in
  wf_event e = true -> Zlength (encode_event_spec e) <= SCRATCH_CAPACITY ->
  decode_event m (event_cmd e) (encode_event_spec e) = Ok (expected_callback e).
Proof. intros e W L. unfold e in *. unfold encode_event_spec in *. rewrite Zlength_fencs in L.
  cbn [wf_event] in W. split_wf W. cbn [event_fields] in *.
  set (fs := [FI64 off; FI32 code; FStr msg]) in *.
  assert (Hmsg : get_string (fencs fs) (foff fs 2) = Ok msg) by (apply get_string_field; [reflexivity | exact L]).
  assert (H0 : get_i64 (fencs fs) (foff fs 0) = off) by (apply fencs_get_i64; [reflexivity | assumption]).
  assert (H1 : get_i32 (fencs fs) (foff fs 1) = code) by (apply fencs_get_i32; [reflexivity | assumption]).
  cbn [event_cmd decode_event expected_callback].
  change OFF_ErrorResponseDefn_error_message_length with (foff fs 2).
  change OFF_ErrorResponseDefn_error_code with (foff fs 1).
  change OFF_ErrorResponseDefn_offending_command_correlation_id with (foff fs 0).
  rewrite Hmsg, H0, H1. cbn [bind].
  change ERROR_CODE_CHANNEL_ENDPOINT_ERROR with 4. unfold CHANNEL_ENDPOINT_ERROR_SPEC.
  rewrite (Z.eqb_sym 4 code). destruct (code =? 4); reflexivity. Qed.

Lemma decode_counter m (un : bool) corr id :
  let e := if un then EvUnavailableCounter corr id else EvCounterReady corr id in
  wf_event e = true -> decode_event m (event_cmd e) (encode_event_spec e) = Ok (expected_callback e).
Proof. intros e W. unfold e in *. clear e.
  assert (W' : in_i64 corr && in_i32 id = true) by (destruct un; exact W). split_wf W'.
  set (fs := [FI64 corr; FI32 id]).
  assert (H0 : get_i64 (fencs fs) (foff fs 0) = corr) by (apply fencs_get_i64; [reflexivity | assumption]).
  assert (H1 : get_i32 (fencs fs) (foff fs 1) = id) by (apply fencs_get_i32; [reflexivity | assumption]).
  destruct un; unfold encode_event_spec; cbn [event_fields event_cmd decode_event expected_callback]; fold fs;
    change OFF_CounterUpdateDefn_correlation_id with (foff fs 0);
    change OFF_CounterUpdateDefn_counter_id with (foff fs 1);
    rewrite H0, H1; reflexivity. Qed.

Lemma decode_client_timeout m id :
  let e := EvClientTimeout id in
  wf_event e = true -> decode_event m (event_cmd e) (encode_event_spec e) = Ok (expected_callback e).
Proof. intros e W. unfold e in *. unfold encode_event_spec. cbn [wf_event] in W. cbn [event_fields].
  set (fs := [FI64 id]).
  assert (H0 : get_i64 (fencs fs) (foff fs 0) = id) by (apply fencs_get_i64; [reflexivity | assumption]).
  cbn [event_cmd decode_event expected_callback].
  change OFF_ClientTimeoutDefn_client_id with (foff fs 0). rewrite H0. reflexivity. Qed.

Theorem decode_encode_event m e :
  wf_event e = true -> Zlength (encode_event_spec e) <= SCRATCH_CAPACITY ->
  decode_event m (event_cmd e) (encode_event_spec e) = Ok (expected_callback e).
Proof. intros W L. destruct e.
  - apply decode_publication_ready; assumption.
  - apply decode_subscription_ready; assumption.
  - apply decode_available_image; assumption.
  - apply decode_operation_success; assumption.
  - apply decode_unavailable_image; assumption.
  - apply decode_error; assumption.
  - apply (decode_counter m false); assumption.
  - apply (decode_counter m true); assumption.
  - apply decode_client_timeout; assumption. Qed.

(* the driver sends the protocol's code of the event's type; from_command_id maps it back *)
Lemma from_id_event_code e : from_id (protocol_code (event_cmd e)) = Ok (event_cmd e).
Proof. destruct e; try destruct exclusive; vm_compute; reflexivity. Qed.

Theorem receive_encode_event m e :
  wf_event e = true -> Zlength (encode_event_spec e) <= SCRATCH_CAPACITY ->
  adapter_receive m (protocol_code (event_cmd e)) (encode_event_spec e) = Ok (expected_callback e).
Proof. intros W L. unfold adapter_receive.
  replace (Zlength (encode_event_spec e) >? SCRATCH_CAPACITY) with false by lia.
  rewrite from_id_event_code. cbn [bind]. apply decode_encode_event; assumption. Qed.

(* an event longer than the receiver's scratch buffer is refused, never decoded wrongly *)
Theorem receive_oversize m t bs : SCRATCH_CAPACITY < Zlength bs -> adapter_receive m t bs = Err TooLong.
Proof. intros H. unfold adapter_receive. replace (Zlength bs >? SCRATCH_CAPACITY) with true by lia. reflexivity. Qed.

(* ---- the protocol-side encoder does put every field at the protocol's literal offset ---- *)
Lemma spec_offsets_publication_ready excl corr reg session stream limit status log :
  let fs := event_fields (EvPublicationReady excl corr reg session stream limit status log) in
  foff fs 0 = 0 /\ foff fs 1 = 8 /\ foff fs 2 = 16 /\ foff fs 3 = 20 /\ foff fs 4 = 24 /\ foff fs 5 = 28 /\ foff fs 6 = 32.
Proof. repeat split. Qed.
Lemma spec_offsets_available_image corr session stream subreg subpos log src :
  let fs := event_fields (EvAvailableImage corr session stream subreg subpos log src) in
  foff fs 0 = 0 /\ foff fs 1 = 8 /\ foff fs 2 = 12 /\ foff fs 3 = 16 /\ foff fs 4 = 24 /\ foff fs 5 = 28 /\
  foff fs 7 = 28 + 4 + align4 (Zlength log) /\ (foff fs 7) mod 4 = 0.
Proof. cbn zeta. cbn [event_fields foff fsize]. pose proof (pad4_range (Zlength log)).
  pose proof (align4_pad (Zlength log) (Zlength_nonneg log)) as A.
  pose proof (align4_mod (Zlength log) (Zlength_nonneg log)) as M.
  repeat split.
  - lia.
  - replace (8 + (4 + (4 + (8 + (4 + (4 + Zlength log + (Z.max 0 (pad4 (Zlength log)) + 0)))))))
      with (align4 (Zlength log) + 8 * 4) by lia.
    rewrite Z.mod_add by lia. exact M. Qed.
Lemma spec_offsets_others :
  (forall corr status, let fs := event_fields (EvSubscriptionReady corr status) in foff fs 0 = 0 /\ foff fs 1 = 8) /\
  (forall corr subreg stream ch, let fs := event_fields (EvUnavailableImage corr subreg stream ch) in
      foff fs 0 = 0 /\ foff fs 1 = 8 /\ foff fs 2 = 16 /\ foff fs 3 = 20) /\
  (forall off code msg, let fs := event_fields (EvError off code msg) in foff fs 0 = 0 /\ foff fs 1 = 8 /\ foff fs 2 = 12) /\
  (forall corr id, let fs := event_fields (EvCounterReady corr id) in foff fs 0 = 0 /\ foff fs 1 = 8) /\
  (forall corr id, let fs := event_fields (EvUnavailableCounter corr id) in foff fs 0 = 0 /\ foff fs 1 = 8).
Proof. repeat split. Qed.

Lemma visible_id own cb : (forall id, cb <> OnClientTimeout id) -> visible own cb = cb.
Proof. intros H. destruct cb; try reflexivity. exfalso. eapply H. reflexivity. Qed.
