(* Proofs about Generated/GenSrcSub.v: the rotation of the starting image and the shared fragment budget of
   Subscription::poll_inner (src/subscription.rs) as they are in the source today (tools/props/src_translate.py),
   against Model/Subscription.v. *)
Require Import V.Base.MachineInt V.Base.MachineInt2 V.Base.MachineIntT V.Model.Subscription
               V.Proofs.SrcNorm V.Proofs.SrcNormT V.Generated.GenSrcSub.
From Coq Require Import ZifyBool.
Open Scope Z_scope.

(* ---- Subscription::poll_inner: which image is polled first, and the shared fragment budget ---- *)
Theorem src_sub_rotation_eq m len rr : 0 <= rr -> in_i32 (rr + 1) = true ->
  (s <- src_sub_starting_index m rr ;; n <- src_sub_next_round_robin m rr ;; w <- src_sub_wraps m len s ;;
   Ok (if w : bool then (0, 0) else (s, n))) = Ok (rr_next len rr).
Proof. intros H0 H1. unfold src_sub_starting_index, src_sub_next_round_robin, src_sub_wraps, rr_next.
  rewrite castT_id by (unfold inT, in_i32, two31 in *; cbn [loT hiT signedT bitsT]; change (2 ^ 64) with 18446744073709551616; lia).
  src_robust. Qed.

Lemma src_sub_budget_eq m read limit : in_i32 (limit - read) = true ->
  src_sub_has_budget m read limit = Ok (read <? limit) /\ src_sub_budget_left m limit read = Ok (limit - read).
Proof. intros H. unfold src_sub_has_budget, src_sub_budget_left. split; src_robust. Qed.

