(* C04 stated for every state a history can reach from a handed-over log (shared and exclusive publication). *)
Require Import V.Base.MachineInt.
Require Import V.Generated.GenConsts.
Require Import V.Model.Descriptor.
Require Import V.Model.LogBase.
Require Import V.Model.Appender.
Require Import V.Model.ExclAppender.
Require Import V.Model.Publication.
Require Import V.Model.ExclPublication.
Require Import V.Proofs.DescriptorProofs.
Require Import V.Proofs.AppenderProofs.
Require Import V.Proofs.PublicationProofs.
Require Import V.Proofs.BulkProofs.
Require Import V.Proofs.C04Proofs.
Require Import V.Proofs.ExclPublicationProofs.
From Coq Require Import ZifyBool.
Open Scope Z_scope.

(* a log as a driver hands it over: legal geometry, any initial term id, any term count, any tail offset in the term *)
Record handover := mkHandover { h_init : Z; h_tlen : Z; h_mtu : Z; h_session : Z; h_stream : Z; h_n0 : Z; h_off0 : Z }.
Definition handover_ok (h : handover) : Prop :=
  geometry_ok (h_init h) (h_tlen h) (h_mtu h) /\ 0 <= h_n0 h < two31 /\ 0 <= h_off0 h <= h_tlen h.
Definition handover_log (h : handover) : log :=
  handed_over (h_init h) (h_tlen h) (h_mtu h) (h_session h) (h_stream h) (h_n0 h) (h_off0 h).

(* states of a shared publication reachable by a history *)
Definition reachable (m : mode) (rv : Z -> Z -> list Z -> Z) (s : pubstate) : Prop :=
  exists h ops, handover_ok h /\ hist_ok (handover_log h) ops /\ s = pub_run m rv (pub_init (handover_log h)) ops.

(* states of an exclusive publication created on a handed-over log and driven by a history *)
Definition xreachable (m : mode) (rv : Z -> Z -> list Z -> Z) (x : xpub) : Prop :=
  exists h ops x0, handover_ok h /\ hist_ok (handover_log h) ops /\ xpub_new (handover_log h) = Ok x0 /\ x = xpub_run m rv x0 ops.

Lemma reachable_inv m rv s : reachable m rv s -> exists n off, pub_inv n off s.
Proof. intros (h & ops & (Hg & Hn & Ho) & Hok & ->).
  destruct (pub_run_inv m rv ops (pub_init (handover_log h)) (h_n0 h) (h_off0 h)) as (n & off & Hinv & _).
  - apply handed_over_inv; assumption.
  - exact Hok.
  - exists n, off. exact Hinv. Qed.

Lemma xreachable_inv m rv x : xreachable m rv x -> exists n, xpub_inv n x.
Proof. intros (h & ops & x0 & (Hg & Hn & Ho) & Hok & Hnew & ->).
  destruct (xpub_new_handed_over (h_init h) (h_tlen h) (h_mtu h) (h_session h) (h_stream h) (h_n0 h) (h_off0 h) Hg Hn Ho)
    as (x1 & Hnew1 & Hinv1 & Hlog1 & _).
  unfold handover_log in Hnew. rewrite Hnew1 in Hnew. inversion Hnew; subst x1.
  destruct (xpub_run_inv m rv ops x0 (h_n0 h) Hinv1) as (n & Hinv & _).
  - rewrite Hlog1. exact Hok.
  - exists n. exact Hinv. Qed.

Lemma reachable_step m rv s o : reachable m rv s -> op_ok (ps_log s) o -> reachable m rv (fst (pub_step m rv s o)).
Proof. intros (h & ops & Hh & Hok & ->) Ho. exists h, (ops ++ [o]). split; [assumption|]. split.
  - apply Forall_app. split; [assumption|]. constructor; [|constructor].
    destruct Hh as (Hg & Hn & Hoff).
    destruct (pub_run_inv m rv ops (pub_init (handover_log h)) (h_n0 h) (h_off0 h)) as (n & off & _ & (_ & G2 & _)).
    + apply handed_over_inv; assumption.
    + exact Hok.
    + eapply op_ok_same; [|exact Ho]. symmetry. exact G2.
  - clear. generalize (pub_init (handover_log h)). induction ops as [|a r IH]; intros s0; [reflexivity|]. cbn [pub_run app]. apply IH. Qed.

Section Shared.
Variables (m : mode) (rv : Z -> Z -> list Z -> Z) (s : pubstate).
Hypothesis Hr : reachable m rv s.

Theorem c04_accept o s' p : op_ok (ps_log s) o -> is_append o = true -> pub_step m rv s o = (s', Ok p) ->
  exists b, pub_position m s = Ok b /\ b < l_limit (ps_log s) /\ ps_closed s = false /\ op_too_long (ps_log s) o = false /\
            p = b + op_required (ps_log s) o /\ pub_position m s' = Ok p /\ 0 <= p <= l_tlen (ps_log s) * two31.
Proof. intros Hok Ha Hs. destruct (reachable_inv m rv s Hr) as (n & off & Hinv).
  destruct (pub_accept m rv s n off o s' p Hinv Hok Ha Hs) as (H1 & H2 & H3 & H4 & H5 & H6 & H7 & _).
  exists (spec_pos (ps_log s) n off). pose proof (spec_pos_range s n off Hinv).
  assert (0 < op_required (ps_log s) o) by (apply (required_ok s n off o Hinv Hok Ha H2)).
  repeat split; auto; lia. Qed.

Theorem c04_refuse_pure o s' e : op_ok (ps_log s) o -> is_append o = true -> pub_step m rv s o = (s', Err e) ->
  (e = BackPressured \/ e = NotConnected \/ e = Closed \/ e = TooLong) -> s' = s.
Proof. intros Hok Ha Hs He. destruct (reachable_inv m rv s Hr) as (n & off & Hinv).
  eapply pub_refuse_pure; eassumption. Qed.

Theorem c04_refuse_at_limit o b : op_ok (ps_log s) o -> is_append o = true -> ps_closed s = false ->
  pub_position m s = Ok b -> l_limit (ps_log s) <= b ->
  pub_step m rv s o =
    (s, Err (match o with
             | Claim len => if max_payload_length (ps_log s) <? len then TooLong else status_of (ps_log s) b len
             | _ => status_of (ps_log s) b (op_len o) end)).
Proof. intros Hok Ha Hc Hp Hl. destruct (reachable_inv m rv s Hr) as (n & off & Hinv).
  rewrite (pub_position_spec m s n off Hinv Hc) in Hp. inversion Hp; subst b.
  apply pub_refuse_at_limit; assumption. Qed.

Theorem c04_closed o : op_ok (ps_log s) o -> is_append o = true -> ps_closed s = true ->
  pub_step m rv s o = (s, Err Closed) \/ (exists len, o = Claim len /\ max_payload_length (ps_log s) < len /\ pub_step m rv s o = (s, Err TooLong)).
Proof. intros Hok Ha Hc. destruct (reachable_inv m rv s Hr) as (n & off & Hinv). eapply pub_closed; eassumption. Qed.

Theorem c04_too_long o : op_ok (ps_log s) o -> is_append o = true -> op_too_long (ps_log s) o = true ->
  exists e, pub_step m rv s o = (s, Err e).
Proof. intros Hok Ha Htl. destruct (reachable_inv m rv s Hr) as (n & off & Hinv).
  destruct (pub_too_long m rv s n off o Hinv Hok Ha Htl) as (e & He & _). exists e. exact He. Qed.

Theorem c04_max : ps_closed s = false -> exists p, pub_position m s = Ok p /\ 0 <= p <= l_tlen (ps_log s) * two31.
Proof. intros Hc. destruct (reachable_inv m rv s Hr) as (n & off & Hinv).
  exists (spec_pos (ps_log s) n off). split; [apply pub_position_spec; assumption|apply spec_pos_range; assumption]. Qed.

Theorem c04_trip o s' e : op_ok (ps_log s) o -> is_append o = true -> pub_step m rv s o = (s', Err e) -> s' <> s ->
  exists n off, pub_inv n off s /\ ps_closed s = false /\ ps_closed s' = false /\ ps_claim s' = ps_claim s /\
    n * l_tlen (ps_log s) + off < l_limit (ps_log s) /\ l_tlen (ps_log s) < off + op_required (ps_log s) o /\
    ((e = AdminAction /\ n < two31 - 1 /\ ps_log s' = rotated (bumped (ps_log s) n off (op_required (ps_log s) o)) n) \/
     (e = MaxPositionExceeded /\ n = two31 - 1 /\ ps_log s' = bumped (ps_log s) n off (op_required (ps_log s) o))).
Proof. intros Hok Ha Hs Hne. destruct (reachable_inv m rv s Hr) as (n & off & Hinv).
  destruct (pub_trip m rv s n off o s' e Hinv Hok Ha Hs Hne) as (H1 & H2 & H3 & H4 & H5 & H6 & H7).
  exists n, off. do 6 (split; [assumption|]).
  destruct H7 as [(A & B & C & _) | (A & B & C)]; [left|right]; auto. Qed.

Theorem c04_total o : op_ok (ps_log s) o -> is_append o = true ->
  match snd (pub_step m rv s o) with
  | Ok _ | Err BackPressured | Err NotConnected | Err AdminAction | Err MaxPositionExceeded | Err Closed | Err TooLong => True
  | _ => False
  end.
Proof. intros Hok Ha. destruct (reachable_inv m rv s Hr) as (n & off & Hinv). eapply pub_total; eassumption. Qed.
End Shared.

Section Exclusive.
Variables (m : mode) (rv : Z -> Z -> list Z -> Z) (x : xpub).
Hypothesis Hr : xreachable m rv x.

Theorem c04x_accept o x' p : op_ok (xlog x) o -> is_xappend o = true -> xpub_step m rv x o = (x', Ok p) ->
  exists b, xpub_position m x = Ok b /\ b < l_limit (xlog x) /\ ps_closed (x_pub x) = false /\ op_too_long (xlog x) o = false /\
            p = b + op_required (xlog x) o /\ xpub_position m x' = Ok p /\ 0 <= p <= l_tlen (xlog x) * two31.
Proof. intros Hok Ha Hs. destruct (xreachable_inv m rv x Hr) as (n & Hinv).
  destruct (xpub_accept m rv x n o x' p Hinv Hok Ha Hs) as (H1 & H2 & H3 & H4 & H5 & H6 & H7 & _).
  exists (xspec_pos x). pose proof (xspec_pos_range x n Hinv).
  assert (0 < op_required (xlog x) o).
  { pose proof (xi_legal _ _ Hinv) as Hleg. pose proof (legal_mpl _ Hleg) as (Hm1 & Hm2 & Hm3 & Hm4).
    unfold op_required. destruct o; try discriminate; cbn [op_len op_too_long op_ok] in *.
    - apply required_half_term; auto; [apply zlen_nonneg|right; lia].
    - apply required_half_term; auto; [lia|left; lia]. }
  repeat split; auto; lia. Qed.

Theorem c04x_refuse_pure o x' e : op_ok (xlog x) o -> is_xappend o = true -> xpub_step m rv x o = (x', Err e) ->
  (e = BackPressured \/ e = NotConnected \/ e = Closed \/ e = TooLong) -> x' = x.
Proof. intros Hok Ha Hs He. destruct (xreachable_inv m rv x Hr) as (n & Hinv). eapply xpub_refuse_pure; eassumption. Qed.

Theorem c04x_refuse_at_limit o b : op_ok (xlog x) o -> is_xappend o = true -> ps_closed (x_pub x) = false ->
  xpub_position m x = Ok b -> l_limit (xlog x) <= b ->
  xpub_step m rv x o =
    (x, Err (match o with
             | Claim len => if max_payload_length (xlog x) <? len then TooLong else status_of (xlog x) b len
             | _ => status_of (xlog x) b (op_len o) end)).
Proof. intros Hok Ha Hc Hp Hl. destruct (xreachable_inv m rv x Hr) as (n & Hinv).
  rewrite (xpub_position_spec m x n Hinv Hc) in Hp. inversion Hp; subst b.
  apply (xpub_refuse_at_limit m rv x n); assumption. Qed.

Theorem c04x_closed o : op_ok (xlog x) o -> is_xappend o = true -> ps_closed (x_pub x) = true ->
  xpub_step m rv x o = (x, Err Closed) \/ (exists len, o = Claim len /\ max_payload_length (xlog x) < len /\ xpub_step m rv x o = (x, Err TooLong)).
Proof. intros Hok Ha Hc. destruct (xreachable_inv m rv x Hr) as (n & Hinv). eapply xpub_closed; eassumption. Qed.

Theorem c04x_too_long o : op_ok (xlog x) o -> is_xappend o = true -> op_too_long (xlog x) o = true ->
  exists e, xpub_step m rv x o = (x, Err e).
Proof. intros Hok Ha Htl. destruct (xreachable_inv m rv x Hr) as (n & Hinv). eapply xpub_too_long; eassumption. Qed.

Theorem c04x_max : ps_closed (x_pub x) = false -> exists p, xpub_position m x = Ok p /\ 0 <= p <= l_tlen (xlog x) * two31.
Proof. intros Hc. destruct (xreachable_inv m rv x Hr) as (n & Hinv).
  exists (xspec_pos x). split; [apply (xpub_position_spec m x n); assumption|apply (xspec_pos_range x n); assumption]. Qed.

Theorem c04x_trip o x' e : op_ok (xlog x) o -> is_xappend o = true -> xpub_step m rv x o = (x', Err e) -> x' <> x ->
  exists n, xpub_inv n x /\ ps_closed (x_pub x) = false /\ xspec_pos x < l_limit (xlog x) /\
    l_tlen (xlog x) < x_off x + op_required (xlog x) o /\
    ((e = AdminAction /\ n < two31 - 1 /\
      xlog x' = rotated (xbumped (xlog x) (x_idx x) (x_tid x) (x_off x) (op_required (xlog x) o)) n /\
      xspec_pos x' = (n + 1) * l_tlen (xlog x)) \/
     (e = MaxPositionExceeded /\ n = two31 - 1 /\
      xlog x' = xbumped (xlog x) (x_idx x) (x_tid x) (x_off x) (op_required (xlog x) o) /\ xspec_pos x' = xspec_pos x)).
Proof. intros Hok Ha Hs Hne. destruct (xreachable_inv m rv x Hr) as (n & Hinv).
  destruct (xpub_trip m rv x n o x' e Hinv Hok Ha Hs Hne) as (H1 & H2 & H3 & H4 & H5).
  exists n. do 4 (split; [assumption|]).
  destruct H5 as [(A & B & ->) | (A & B & ->)]; [left|right]; repeat split; auto.
  unfold xspec_pos. cbn [x_begin x_off]. rewrite (xi_begin _ _ Hinv). ring. Qed.

Theorem c04x_total o : op_ok (xlog x) o -> is_xappend o = true ->
  match snd (xpub_step m rv x o) with
  | Ok _ | Err BackPressured | Err NotConnected | Err AdminAction | Err MaxPositionExceeded | Err Closed | Err TooLong => True
  | _ => False
  end.
Proof. intros Hok Ha. destruct (xreachable_inv m rv x Hr) as (n & Hinv). eapply xpub_total; eassumption. Qed.
End Exclusive.
