(* The oracle on the executable run of the model (Sched.run: schedule, then every thread drained in thread-id order), as
   evaluated for every case of the correspondence check: when every step taken is admissible and all threads end done,
   holds_C02 is true on run_case's own observation. *)
Require Import V.Base.MachineInt.
Require Import V.Generated.GenConsts.
Require Import V.Model.LogBase.
Require Import V.Model.Descriptor.
Require Import V.Model.Sched.
Require Import V.Model.AppenderThreads.
Require Import V.Oracle.C02Oracle.
Require Import V.Proofs.TailArith.
Require Import V.Proofs.FragArith.
Require Import V.Proofs.AppenderInv.
Require Import V.Proofs.C02Proofs.
Require Import V.Proofs.AppenderMsgs.
Require Import V.Proofs.C02OracleProofs.
Require Import V.Proofs.C02Words.
Require Import V.Proofs.C02Trace.
Require Import V.Proofs.C02OracleFull.
Open Scope Z_scope.

Section Run.
  Variable c : cfg.
  Hypothesis W : wf_cfg c.
  Variable orig : nat -> list (list Z).
  Variable stop : nat -> option nat.

  Definition rst_ok (r : @rstate shared thread) : Prop :=
    let '(s, th, g, tr) := r in exists gh, reacht c orig s th gh (rev tr).

  Definition adm_grant (t : nat) (r : @rstate shared thread) : Prop :=
    match grant (tstep c) stop t r with
    | Some _ => let '(s, th, g, tr) := r in sys_adm c s th t
    | None => True
    end.

  (* admissibility of every step the executable run takes: schedule phase ... *)
  Fixpoint adm_sched_t (sched : list nat) (r : @rstate shared thread) : Prop :=
    match sched with
    | [] => True
    | t :: rest => adm_grant t r /\ adm_sched_t rest (match grant (tstep c) stop t r with Some r' => r' | None => r end)
    end.
  (* ... one thread run to completion ... *)
  Fixpoint adm_thread (fuel : nat) (t : nat) (r : @rstate shared thread) : Prop :=
    match fuel with
    | O => True
    | S f => adm_grant t r /\ match grant (tstep c) stop t r with Some r' => adm_thread f t r' | None => True end
    end.
  (* ... and the drain phase *)
  Fixpoint adm_drain (fuel : nat) (ts : list nat) (r : @rstate shared thread) : Prop :=
    match ts with
    | [] => True
    | t :: rest => adm_thread fuel t r /\ adm_drain fuel rest (run_thread (tstep c) stop fuel t r)
    end.

  Lemma grant_ok t r r' : rst_ok r -> adm_grant t r -> grant (tstep c) stop t r = Some r' -> rst_ok r'.
  Proof. unfold adm_grant. intros H Ha Hg. rewrite Hg in Ha. destruct r as [[[s th] g] tr]. unfold grant, step_cfg in Hg. cbn [fst snd] in Hg.
    destruct (stopped stop g t); [discriminate|]. destruct (tstep c t s (th t)) as [[[s1 x1] e1]|] eqn:E; [|discriminate].
    inversion Hg; subst r'. destruct H as (gh & R). eexists. cbn [rev]. eapply reacht_step; eauto. Qed.

  Lemma sched_ok : forall sched r, rst_ok r -> adm_sched_t sched r -> rst_ok (run_sched (tstep c) stop sched r).
  Proof. induction sched as [|t rest IH]; intros r H Ha; cbn [run_sched adm_sched_t] in *; [assumption|].
    destruct Ha as (A1 & A2). destruct (grant (tstep c) stop t r) as [r'|] eqn:E; apply IH; try assumption.
    eapply grant_ok; eauto. Qed.

  Lemma thread_ok : forall fuel t r, rst_ok r -> adm_thread fuel t r -> rst_ok (run_thread (tstep c) stop fuel t r).
  Proof. induction fuel as [|f IH]; intros t r H Ha; cbn [run_thread adm_thread] in *; [assumption|].
    destruct Ha as (A1 & A2). destruct (grant (tstep c) stop t r) as [r'|] eqn:E; [|assumption].
    apply IH; [eapply grant_ok; eauto | assumption]. Qed.

  Lemma drain_ok fuel : forall ts r, rst_ok r -> adm_drain fuel ts r -> rst_ok (drain (tstep c) stop fuel ts r).
  Proof. induction ts as [|t rest IH]; intros r H Ha; cbn [drain adm_drain] in *; [assumption|].
    destruct Ha as (A1 & A2). apply IH; [apply thread_ok; assumption | assumption]. Qed.

  (* a thread keeps its kind *)
  Definition is_pub (x : thread) : bool := match x with TPub _ => true | _ => false end.
  Definition kinds (r r' : @rstate shared thread) : Prop := forall t, is_pub (snd (fst (fst r')) t) = is_pub (snd (fst (fst r)) t).

  Lemma kinds_refl r : kinds r r. Proof. intros t. reflexivity. Qed.
  Lemma kinds_trans a b d : kinds a b -> kinds b d -> kinds a d.
  Proof. intros H1 H2 t. rewrite H2, H1. reflexivity. Qed.

  Lemma grant_kinds t r r' : grant (tstep c) stop t r = Some r' -> kinds r r'.
  Proof. destruct r as [[[s th] g] tr]. unfold grant, step_cfg. cbn [fst snd]. destruct (stopped stop g t); [discriminate|].
    destruct (tstep c t s (th t)) as [[[s1 x1] e1]|] eqn:E; [|discriminate]. intros H. inversion H; subst r'. intros t0. cbn [fst snd].
    unfold upd_thread. destruct (Nat.eqb t0 t) eqn:E0; [|reflexivity]. apply Nat.eqb_eq in E0. subst t0.
    unfold tstep in E. destruct (th t) as [l | l |]; [| |discriminate].
    - destruct (pstep c t s l) as [[[? ?] ?]|]; [|discriminate]. inversion E; reflexivity.
    - destruct (estep c t s l) as [[[? ?] ?]|]; [|discriminate]. inversion E; reflexivity. Qed.

  Lemma sched_kinds : forall sched r, kinds r (run_sched (tstep c) stop sched r).
  Proof. induction sched as [|t rest IH]; intros r; cbn [run_sched]; [apply kinds_refl|].
    destruct (grant (tstep c) stop t r) as [r'|] eqn:E; [|apply IH]. eapply kinds_trans; [eapply grant_kinds; eauto | apply IH]. Qed.
  Lemma thread_kinds : forall fuel t r, kinds r (run_thread (tstep c) stop fuel t r).
  Proof. induction fuel as [|f IH]; intros t r; cbn [run_thread]; [apply kinds_refl|].
    destruct (grant (tstep c) stop t r) as [r'|] eqn:E; [|apply kinds_refl]. eapply kinds_trans; [eapply grant_kinds; eauto | apply IH]. Qed.
  Lemma drain_kinds fuel : forall ts r, kinds r (drain (tstep c) stop fuel ts r).
  Proof. induction ts as [|t rest IH]; intros r; cbn [drain]; [apply kinds_refl|].
    eapply kinds_trans; [apply thread_kinds | apply IH]. Qed.
End Run.

(* the case as the correspondence check runs it *)
Theorem oracle_run c (W : wf_cfg c) (limit : Z) (ths : list thread) (sched : list nat) (stops : list (option nat))
  (orig : nat -> list (list Z)) (offers : list (list (list Z))) :
  (forall t m, In m (orig t) -> Forall byte m) ->
  (forall t, match threads_of ths t with TPub l => exists b, l = p_start (orig t) b [] | _ => True end) ->
  length offers = length ths ->
  (forall t l, threads_of ths t = TPub l -> nth t offers [] = orig t) ->
  let r0 := (init_shared c limit, threads_of ths, (fun _ : nat => O), @nil event) in
  adm_sched_t c (stop_of stops) sched r0 ->
  adm_drain c (stop_of stops) (Z.to_nat 20000) (seq 0 (length ths)) (run_sched (tstep c) (stop_of stops) sched r0) ->
  (let '(s, th, g, tr) := run (tstep c) (length ths) (Z.to_nat 20000) (stop_of stops) sched (init_shared c limit, threads_of ths) in all_done th) ->
  holds_C02 c offers (run_case c limit ths sched stops) = true.
Proof. intros OB Hinit Hlen Hoff r0 A1 A2 Hd. unfold run_case. unfold run in *. cbn [fst snd] in *. fold r0 in Hd. fold r0.
  assert (H0 : rst_ok c orig r0) by (exists ghost0; apply reacht_init; assumption).
  pose proof (drain_ok c orig (stop_of stops) (Z.to_nat 20000) _ _ (sched_ok c orig (stop_of stops) sched r0 H0 A1) A2) as H.
  pose proof (kinds_trans _ _ _ (sched_kinds c (stop_of stops) sched r0)
                (drain_kinds c (stop_of stops) (Z.to_nat 20000) (seq 0 (length ths)) (run_sched (tstep c) (stop_of stops) sched r0))) as K.
  destruct (drain (tstep c) (stop_of stops) (Z.to_nat 20000) (seq 0 (length ths)) (run_sched (tstep c) (stop_of stops) sched r0)) as [[[s th] g] tr].
  destruct H as (gh & R).
  (* publishers keep their index: a thread that is a publisher at the end was one at the start *)
  assert (Hpub : forall t l, th t = TPub l -> (t < length ths)%nat /\ nth t offers [] = orig t).
  { intros t l Ht. specialize (K t). unfold r0 in K. cbn [fst snd] in K. rewrite Ht in K. cbn [is_pub] in K.
    destruct (threads_of ths t) as [l0 | |] eqn:E0; try discriminate. split; [|eapply Hoff; eauto].
    unfold threads_of in E0. destruct (Nat.lt_ge_cases t (length ths)) as [Hlt | Hge]; [assumption|].
    rewrite nth_overflow in E0 by assumption. discriminate. }
  apply (oracle_full c W orig OB s th gh (rev tr) R Hd (length ths) (stop_of stops) g offers Hlen Hpub). Qed.
