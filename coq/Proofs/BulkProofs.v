(* C18: the vectored ("bulk") appends, as repaired, build exactly the frames the contiguous appends build for the
   concatenation of the buffers; every copy they issue lies inside the payload area of the frame it belongs to.
   The loops of the unrepaired repository are shown to write outside the claimed range / ask for a negative copy. *)
Require Import V.Base.MachineInt.
Require Import V.Generated.GenConsts.
Require Import V.Model.Descriptor.
Require Import V.Model.LogBase.
Require Import V.Model.Appender.
Require Import V.Model.ExclAppender.
Require Import V.Model.Publication.
Require Import V.Proofs.DescriptorProofs.
Require Import V.Proofs.AppenderProofs.
From Coq Require Import ZifyBool.
Open Scope Z_scope.

(* ---- lists indexed by Z ---- *)
Lemma zlen_nonneg {A} (l : list A) : 0 <= zlen l. Proof. unfold zlen. lia. Qed.
Lemma zlen_app {A} (a b : list A) : zlen (a ++ b) = zlen a + zlen b.
Proof. unfold zlen. rewrite app_length. lia. Qed.
Lemma zlen_nil {A} : zlen (@nil A) = 0. Proof. reflexivity. Qed.
Lemma zlen_cons {A} (x : A) l : zlen (x :: l) = 1 + zlen l.
Proof. unfold zlen. cbn [length]. lia. Qed.
Lemma to_nat_zlen {A} (l : list A) : Z.to_nat (zlen l) = length l.
Proof. unfold zlen. apply Nat2Z.id. Qed.

Definition total (bufs : list (list Z)) : Z := zlen (concat bufs).
Lemma total_cons b r : total (b :: r) = zlen b + total r.
Proof. unfold total. cbn [concat]. apply zlen_app. Qed.
Lemma total_nonneg bufs : 0 <= total bufs. Proof. apply zlen_nonneg. Qed.

Lemma zlen_zero_nil {A} (l : list A) : zlen l = 0 -> l = [].
Proof. destruct l; [reflexivity|]. rewrite zlen_cons. pose proof (zlen_nonneg l). lia. Qed.

Lemma firstn_zapp {A} (a r : list A) k :
  firstn (Z.to_nat k) (a ++ r) = firstn (Z.to_nat k) a ++ firstn (Z.to_nat (k - zlen a)) r.
Proof. rewrite firstn_app. f_equal. f_equal. unfold zlen. lia. Qed.
Lemma skipn_zapp {A} (a r : list A) k :
  skipn (Z.to_nat k) (a ++ r) = skipn (Z.to_nat k) a ++ skipn (Z.to_nat (k - zlen a)) r.
Proof. rewrite skipn_app. f_equal. f_equal. unfold zlen. lia. Qed.
Lemma firstn_zall {A} (a : list A) k : zlen a <= k -> firstn (Z.to_nat k) a = a.
Proof. intros H. apply firstn_all2. unfold zlen in H. lia. Qed.
Lemma skipn_zall {A} (a : list A) k : zlen a <= k -> skipn (Z.to_nat k) a = [].
Proof. intros H. apply skipn_all2. unfold zlen in H. lia. Qed.
Lemma zlen_firstn {A} (a : list A) k : 0 <= k <= zlen a -> zlen (firstn (Z.to_nat k) a) = k.
Proof. intros H. unfold zlen in *. rewrite firstn_length. lia. Qed.
Lemma zlen_skipn {A} (a : list A) k : 0 <= k <= zlen a -> zlen (skipn (Z.to_nat k) a) = zlen a - k.
Proof. intros H. unfold zlen in *. rewrite skipn_length. lia. Qed.
Lemma skipn_skipn_nat {A} (l : list A) : forall j k, skipn k (skipn j l) = skipn (j + k) l.
Proof. intros j. revert l. induction j as [|j IH]; intros l k; [reflexivity|].
  destruct l; [rewrite !skipn_nil; reflexivity|]. cbn [skipn Nat.add]. apply IH. Qed.
Lemma skipn_zadd {A} (a : list A) j k : 0 <= j -> 0 <= k -> skipn (Z.to_nat k) (skipn (Z.to_nat j) a) = skipn (Z.to_nat (j + k)) a.
Proof. intros Hj Hk. rewrite skipn_skipn_nat. f_equal. lia. Qed.

(* ---- sum of the capacities ---- *)
Lemma sum_caps_from m bufs acc : 0 <= acc -> acc + total bufs <= 1073741824 ->
  fold_left (fun a b => x <- a ;; add32 m x (zlen b)) bufs (Ok acc) = Ok (acc + total bufs).
Proof. revert acc. induction bufs as [|b r IH]; intros acc Ha Hs.
  - cbn [fold_left]. unfold total. cbn [concat]. rewrite zlen_nil. f_equal. lia.
  - cbn [fold_left bind]. rewrite total_cons in Hs. pose proof (zlen_nonneg b). pose proof (total_nonneg r).
    rewrite add32_ok by (unfold in_i32, two31; lia).
    rewrite IH by lia. f_equal. rewrite total_cons. ring. Qed.
Lemma sum_caps_ok m bufs : total bufs <= 1073741824 -> sum_caps m bufs = Ok (total bufs).
Proof. intros H. unfold sum_caps. rewrite sum_caps_from by lia. reflexivity. Qed.

(* ---- unfragmented walk ---- *)
Lemma walk_tile bufs : forall base ending, ending = base + total bufs ->
  tile base (bulk_unfrag_walk bufs base ending) = Some (concat bufs).
Proof. induction bufs as [|b r IH]; intros base ending He.
  - reflexivity.
  - cbn [bulk_unfrag_walk]. rewrite total_cons in He. pose proof (zlen_nonneg b). pose proof (total_nonneg r).
    destruct (ending <=? base) eqn:E.
    + assert (Hb : zlen b = 0) by lia. assert (Hr : total r = 0) by lia.
      cbn [tile concat]. rewrite (zlen_zero_nil b Hb). rewrite (zlen_zero_nil (concat r) Hr). reflexivity.
    + cbn [tile cp_dst cp_n cp_bytes]. rewrite Z.eqb_refl.
      assert (E1 : (0 <=? zlen b) = true) by lia. rewrite E1. cbn [andb].
      rewrite Z.eqb_refl. rewrite (IH (base + zlen b) ending) by lia. reflexivity. Qed.

(* every copy of the walk lies inside [base, ending) *)
Lemma walk_inside bufs : forall base ending, ending = base + total bufs ->
  Forall (fun c => base <= cp_dst c /\ 0 <= cp_n c /\ cp_dst c + cp_n c <= ending) (bulk_unfrag_walk bufs base ending).
Proof. induction bufs as [|b r IH]; intros base ending He; [constructor|].
  cbn [bulk_unfrag_walk]. rewrite total_cons in He. pose proof (zlen_nonneg b). pose proof (total_nonneg r).
  destruct (ending <=? base); [constructor|]. constructor.
  - cbn. lia.
  - eapply Forall_impl; [|apply (IH (base + zlen b) ending); lia]. cbn. intros c Hc. lia. Qed.

(* ---- the buffer cursor of the fragmented walk ---- *)
Definition cursor_data (cu : cursor) : list Z := skipn (Z.to_nat (cu_off cu)) (cu_buf cu) ++ concat (cu_rest cu).
Definition cursor_ok (cu : cursor) : Prop := 0 <= cu_off cu <= zlen (cu_buf cu).

Lemma tile_one po n bs : 0 <= n -> n = zlen bs -> tile po [mkCopy po n bs] = Some (bs ++ []).
Proof. intros H0 Hn. cbn [tile cp_dst cp_n cp_bytes]. rewrite Z.eqb_refl.
  assert (E1 : (0 <=? n) = true) by lia. assert (E2 : (n =? zlen bs) = true) by lia. rewrite E1, E2. reflexivity. Qed.
Lemma tile_cons po n bs cs r : 0 <= n -> n = zlen bs -> tile (po + n) cs = Some r ->
  tile po (mkCopy po n bs :: cs) = Some (bs ++ r).
Proof. intros H0 Hn Hr. cbn [tile cp_dst cp_n cp_bytes]. rewrite Z.eqb_refl.
  assert (E1 : (0 <=? n) = true) by lia. assert (E2 : (n =? zlen bs) = true) by lia. rewrite E1, E2. cbn [andb].
  rewrite Hr. reflexivity. Qed.

Definition copies_inside (lo hi : Z) (cs : list copyop) : Prop :=
  Forall (fun c => lo <= cp_dst c /\ 0 <= cp_n c /\ cp_dst c + cp_n c <= hi) cs.

Lemma bulk_inner_spec : forall fuel btw written po cu,
  (length (cu_rest cu) < fuel)%nat -> 0 <= written < btw -> cursor_ok cu -> btw - written <= zlen (cursor_data cu) ->
  tile po (fst (bulk_inner fuel btw written po cu)) = Some (firstn (Z.to_nat (btw - written)) (cursor_data cu)) /\
  cursor_data (snd (bulk_inner fuel btw written po cu)) = skipn (Z.to_nat (btw - written)) (cursor_data cu) /\
  cursor_ok (snd (bulk_inner fuel btw written po cu)) /\
  copies_inside po (po + (btw - written)) (fst (bulk_inner fuel btw written po cu)).
Proof.
  induction fuel as [|f IH]; intros btw written po cu Hf Hw Hok Hd; [inversion Hf|].
  destruct cu as [buf cbo rest]. unfold cursor_ok in Hok. cbn [cu_buf cu_off cu_rest] in *.
  set (A := skipn (Z.to_nat cbo) buf).
  assert (HA : zlen A = zlen buf - cbo) by (apply zlen_skipn; lia).
  unfold cursor_data in Hd |- *. cbn [cu_buf cu_off cu_rest] in Hd |- *. fold A in Hd |- *.
  rewrite zlen_app in Hd. fold (total rest) in Hd. pose proof (total_nonneg rest) as Hr0.
  cbn [bulk_inner cu_buf cu_off cu_rest].
  remember (btw - written) as need eqn:Eneed.
  assert (Hslice : forall k, slice buf cbo k = firstn (Z.to_nat k) A) by reflexivity.
  destruct (zlen buf - cbo <=? Z.min need (zlen buf - cbo)) eqn:Ecase.
  - (* the rest of the current buffer is consumed *)
    assert (Hn : Z.min need (zlen buf - cbo) = zlen buf - cbo) by lia. rewrite Hn. rewrite Hslice.
    rewrite firstn_zall by lia.
    destruct rest as [|nb rest'].
    + (* no further buffer: break *)
      cbn [concat] in *. unfold total in Hd. cbn [concat] in Hd. rewrite zlen_nil in Hd.
      assert (Hneed : need = zlen buf - cbo) by lia.
      cbn [fst snd cu_buf cu_off cu_rest]. rewrite !app_nil_r. repeat split.
      * rewrite tile_one by lia. rewrite app_nil_r. rewrite firstn_zall by lia. reflexivity.
      * rewrite skipn_zall by lia. rewrite skipn_zall by lia. reflexivity.
      * cbn. lia.
      * cbn. lia.
      * constructor; [cbn; lia|constructor].
    + rewrite total_cons in Hd. cbn [concat].
      destruct (btw <=? written + (zlen buf - cbo)) eqn:Edone.
      * assert (Hneed : need = zlen buf - cbo) by lia.
        cbn [fst snd cu_buf cu_off cu_rest]. repeat split.
        -- rewrite tile_one by lia. rewrite app_nil_r. rewrite firstn_zapp. rewrite (firstn_zall A need) by lia.
           replace (need - zlen A) with 0 by lia. cbn [Z.to_nat firstn]. rewrite app_nil_r. reflexivity.
        -- cbn [Z.to_nat skipn]. rewrite skipn_zapp. rewrite (skipn_zall A need) by lia.
           replace (need - zlen A) with 0 by lia. reflexivity.
        -- pose proof (zlen_nonneg nb). cbn. lia.
        -- pose proof (zlen_nonneg nb). cbn. lia.
        -- constructor; [cbn; lia|constructor].
      * specialize (IH btw (written + (zlen buf - cbo)) (po + (zlen buf - cbo)) (mkCursor nb 0 rest')).
        cbn [cu_rest cu_buf cu_off length] in IH, Hf.
        destruct IH as (I1 & I2 & I3 & I4).
        { lia. } { lia. } { unfold cursor_ok. cbn. pose proof (zlen_nonneg nb). lia. }
        { unfold cursor_data. cbn [cu_buf cu_off cu_rest Z.to_nat skipn]. rewrite zlen_app. fold (total rest'). lia. }
        unfold cursor_data in I1, I2. cbn [cu_buf cu_off cu_rest Z.to_nat skipn] in I1, I2.
        destruct (bulk_inner f btw (written + (zlen buf - cbo)) (po + (zlen buf - cbo)) (mkCursor nb 0 rest')) as [cs cu2] eqn:Erec.
        cbn [fst snd] in *. repeat split.
        -- rewrite (tile_cons po (zlen buf - cbo) A cs _ ltac:(lia) ltac:(lia) I1).
           rewrite (firstn_zapp A (nb ++ concat rest') need). rewrite (firstn_zall A need) by lia. f_equal. f_equal. f_equal. f_equal. lia.
        -- rewrite I2. rewrite (skipn_zapp A (nb ++ concat rest') need). rewrite (skipn_zall A need) by lia. cbn [app]. f_equal. f_equal. lia.
        -- apply I3. -- apply I3.
        -- constructor; [cbn; lia|]. eapply Forall_impl; [|exact I4]. cbn. intros c Hc. lia.
  - (* the fragment is completed inside the current buffer *)
    assert (Hn : Z.min need (zlen buf - cbo) = need) by lia. rewrite Hn. rewrite Hslice.
    assert (Edone : (btw <=? written + need) = true) by lia. rewrite Edone.
    cbn [fst snd cu_buf cu_off cu_rest]. repeat split.
    + rewrite tile_one; [| lia | rewrite zlen_firstn; lia]. rewrite app_nil_r. rewrite firstn_zapp.
      replace (Z.to_nat (need - zlen A)) with 0%nat by lia. cbn [firstn]. rewrite app_nil_r. reflexivity.
    + rewrite skipn_zapp. replace (Z.to_nat (need - zlen A)) with 0%nat by lia. cbn [skipn].
      f_equal. unfold A. rewrite skipn_zadd by lia. reflexivity.
    + cbn. lia. + cbn. lia.
    + constructor; [cbn; lia|constructor].
Qed.

(* ---- the fragment loops agree, and every copy lies inside the bytes the frames occupy ---- *)
Lemma copies_inside_weaken lo hi lo' hi' cs : lo' <= lo -> hi <= hi' -> copies_inside lo hi cs -> copies_inside lo' hi' cs.
Proof. intros H1 H2 H. eapply Forall_impl; [|exact H]. cbn. intros c Hc. lia. Qed.

Lemma frag_span_nonneg fuel mpl : 0 < mpl -> forall remaining, 0 < remaining -> 0 <= frag_span fuel mpl remaining.
Proof. intros Hm. induction fuel as [|f IH]; intros remaining Hr; cbn [frag_span]; [lia|].
  rewrite HDR_eq, FA_eq. pose proof (align_bounds (Z.min remaining mpl + 32) ltac:(lia)) as [Ha _].
  destruct (remaining - Z.min remaining mpl <=? 0) eqn:E; [lia|].
  pose proof (IH (remaining - Z.min remaining mpl) ltac:(lia)). lia. Qed.

Lemma bulk_frag_loop_eq l rv tid mpl length msg : 0 < mpl -> zlen msg = length ->
  forall fuel flags remaining frame_offset cu,
  0 < remaining <= length -> cursor_ok cu -> cursor_data cu = skipn (Z.to_nat (length - remaining)) msg ->
  exists cs, bulk_frag_loop fuel l rv tid mpl flags remaining frame_offset cu
             = Ok (frag_loop fuel l rv tid mpl length msg flags remaining frame_offset, cs) /\
             copies_inside frame_offset (frame_offset + frag_span fuel mpl remaining) cs.
Proof.
  intros Hmpl Hlen. induction fuel as [|f IH]; intros flags remaining frame_offset cu Hrem Hok Hdata.
  { exists []. split; [reflexivity|constructor]. }
  cbn [bulk_frag_loop frag_loop frag_span].
  set (btw := Z.min remaining mpl).
  assert (Hbtw : 0 < btw <= remaining) by lia.
  assert (Hz : zlen (cursor_data cu) = remaining).
  { rewrite Hdata. rewrite zlen_skipn by lia. lia. }
  pose proof (bulk_inner_spec (inner_fuel cu) btw 0 (frame_offset + HDR) cu) as Hin.
  destruct Hin as (I1 & I2 & I3 & I4).
  { unfold inner_fuel. lia. } { lia. } { exact Hok. } { lia. }
  destruct (bulk_inner (inner_fuel cu) btw 0 (frame_offset + HDR) cu) as [cs cu'] eqn:Ein.
  cbn [fst snd] in *. rewrite I1. rewrite Z.sub_0_r in *.
  assert (Hbody : firstn (Z.to_nat btw) (cursor_data cu) = slice msg (length - remaining) btw).
  { unfold slice. rewrite Hdata. reflexivity. }
  rewrite Hbody.
  pose proof (align_bounds (btw + 32) ltac:(lia)) as [Ha _]. rewrite HDR_eq, FA_eq in *.
  destruct (remaining - btw <=? 0) eqn:Eend.
  - exists cs. split; [reflexivity|]. eapply copies_inside_weaken; [| |exact I4]; lia.
  - destruct (IH 0 (remaining - btw) (frame_offset + align (btw + 32) 32) cu') as (cs2 & E2 & In2).
    + lia.
    + exact I3.
    + rewrite I2, Hdata. rewrite skipn_zadd by lia. f_equal. lia.
    + rewrite E2. cbn [bind fst snd]. exists (cs ++ cs2). split; [reflexivity|].
      pose proof (frag_span_nonneg f mpl Hmpl (remaining - btw) ltac:(lia)) as Hsp.
      apply Forall_app. split.
      * eapply copies_inside_weaken; [| |exact I4]; lia.
      * eapply copies_inside_weaken; [| |exact In2]; lia.
Qed.

(* with an MTU that is a multiple of the frame alignment the frames of the loop occupy exactly required_length bytes *)
Lemma align_exact v : v mod 32 = 0 -> align v 32 = v.
Proof. intros H. unfold align. pose proof (Z.div_mod v 32 ltac:(lia)).
  replace (v + (32 - 1)) with (31 + (v / 32) * 32) by lia. rewrite Z.div_add by lia.
  replace (31 / 32) with 0 by reflexivity. lia. Qed.

Lemma frag_span_required mpl : 0 < mpl -> mpl mod 32 = 0 ->
  forall fuel remaining, 0 < remaining -> (Z.to_nat (remaining / mpl) < fuel)%nat ->
  frag_span fuel mpl remaining = frag_required_spec remaining mpl.
Proof. intros Hm Hm32. induction fuel as [|f IH]; intros remaining Hr Hf; [inversion Hf|].
  cbn [frag_span]. unfold frag_required_spec. rewrite HDR_eq, FA_eq.
  assert (Hfull : align (mpl + 32) 32 = mpl + 32).
  { apply align_exact. rewrite <- Zplus_mod_idemp_l. rewrite Hm32. reflexivity. }
  destruct (Z.le_gt_cases remaining mpl) as [Hle | Hgt].
  - rewrite Z.min_l by assumption. replace (remaining - remaining) with 0 by ring. cbn [Z.leb Z.compare].
    destruct (Z.eq_dec remaining mpl) as [-> | Hne].
    + rewrite Z_div_same_full by lia. rewrite Z_mod_same_full. cbn [Z.ltb Z.compare]. lia.
    + rewrite Z.div_small by lia. rewrite Z.mod_small by lia.
      assert (E : (0 <? remaining) = true) by lia. rewrite E. lia.
  - rewrite Z.min_r by lia. assert (E : (remaining - mpl <=? 0) = false) by lia. rewrite E.
    assert (Hd : (remaining - mpl) / mpl = remaining / mpl - 1).
    { replace (remaining - mpl) with (remaining + (-1) * mpl) by ring. rewrite Z.div_add by lia. ring. }
    assert (Hmod : (remaining - mpl) mod mpl = remaining mod mpl).
    { replace (remaining - mpl) with (remaining + (-1) * mpl) by ring. apply Z_mod_plus_full. }
    assert (Hq : 1 <= remaining / mpl) by (apply Z.div_le_lower_bound; lia).
    rewrite IH; [|lia|rewrite Hd; lia].
    unfold frag_required_spec. rewrite HDR_eq, FA_eq. rewrite Hd, Hmod, Hfull. ring.
Qed.

(* the copies of every fragment stay inside that fragment's payload area: the statement about one iteration *)
Lemma bulk_fragment_inside btw frame_offset cu :
  0 < btw -> cursor_ok cu -> btw <= zlen (cursor_data cu) ->
  copies_inside (frame_offset + HDR) (frame_offset + HDR + btw) (fst (bulk_inner (inner_fuel cu) btw 0 (frame_offset + HDR) cu)).
Proof. intros Hb Hok Hd.
  pose proof (bulk_inner_spec (inner_fuel cu) btw 0 (frame_offset + HDR) cu) as (_ & _ & _ & I4).
  { unfold inner_fuel. lia. } { lia. } { exact Hok. } { lia. }
  rewrite Z.sub_0_r in I4. exact I4. Qed.

(* ---- appender level ---- *)
Lemma ta_unfrag_bulk_eq m rv l idx bufs tid :
  ta_append_unfragmented_bulk m rv l idx bufs (total bufs) tid = ta_append_unfragmented m rv l idx (concat bufs) tid.
Proof. unfold ta_append_unfragmented_bulk, ta_append_unfragmented. fold (total bufs).
  destruct (unfrag_lengths m (total bufs)) as [[fl al]| | | |]; cbn [bind]; try reflexivity.
  destruct (tail_claim l idx al tid) as [c| | | |]; cbn [bind]; try reflexivity.
  destruct (l_tlen l <? c_off c + al); [reflexivity|].
  rewrite walk_tile by ring. fold (total bufs). rewrite Z.eqb_refl. reflexivity. Qed.

Lemma ta_frag_bulk_eq m rv l idx bufs mpl tid : 0 < mpl -> mpl < total bufs ->
  ta_append_fragmented_bulk m rv l idx bufs (total bufs) mpl tid = ta_append_fragmented m rv l idx (concat bufs) mpl tid.
Proof. intros Hm Hlen. unfold ta_append_fragmented_bulk, ta_append_fragmented. fold (total bufs).
  destruct (frag_required m (total bufs) mpl) as [req| | | |]; cbn [bind]; try reflexivity.
  destruct (tail_claim l idx req tid) as [c| | | |]; cbn [bind]; try reflexivity.
  destruct (l_tlen l <? c_off c + req); [reflexivity|].
  destruct bufs as [|b r].
  - unfold total in Hlen. cbn in Hlen. lia.
  - destruct (bulk_frag_loop_eq (c_log c) rv (c_tid c) mpl (total (b :: r)) (concat (b :: r)) Hm eq_refl
                (frag_fuel (total (b :: r)) mpl) F_BEGIN (total (b :: r)) (c_off c) (mkCursor b 0 r)) as (cs & E & _).
    + lia.
    + unfold cursor_ok. cbn [cu_off cu_buf]. pose proof (zlen_nonneg b). lia.
    + unfold cursor_data. cbn [cu_buf cu_off cu_rest Z.to_nat skipn]. rewrite Z.sub_diag. reflexivity.
    + rewrite E. reflexivity. Qed.

Lemma eta_unfrag_bulk_eq m rv l idx tid off bufs :
  eta_append_unfragmented_bulk m rv l idx tid off bufs (total bufs) = eta_append_unfragmented m rv l idx tid off (concat bufs).
Proof. unfold eta_append_unfragmented_bulk, eta_append_unfragmented. fold (total bufs).
  destruct (unfrag_lengths m (total bufs)) as [[fl al]| | | |]; cbn [bind]; try reflexivity.
  destruct (add32 m off al) as [res| | | |]; cbn [bind]; try reflexivity.
  destruct (l_tlen l <? res); [reflexivity|].
  rewrite walk_tile by ring. fold (total bufs). rewrite Z.eqb_refl. reflexivity. Qed.

(* ---- publication level: offer_bulk bufs = offer (concat bufs) ---- *)
Lemma pub_try_ext m s len act1 act2 :
  (forall i t, act1 (ps_log s) i t = act2 (ps_log s) i t) -> pub_try m s len act1 = pub_try m s len act2.
Proof. intros H. unfold pub_try. destruct (ps_closed s); [reflexivity|].
  destruct (index_by_term_count (l_count (ps_log s)) <? 0); [reflexivity|].
  destruct (add64 m _ _); try reflexivity.
  destruct (negb _); [reflexivity|]. destruct (_ <? l_limit _); [|reflexivity]. rewrite H. reflexivity. Qed.

Theorem pub_bulk_eq_offer m rv s bufs :
  0 < max_payload_length (ps_log s) -> total bufs <= 1073741824 ->
  pub_bulk m rv s bufs = pub_offer m rv s (concat bufs).
Proof. intros Hm Ht. unfold pub_bulk, pub_offer. rewrite sum_caps_ok by assumption.
  assert (E : (total bufs =? 2147483647) = false) by lia. rewrite E. fold (total bufs).
  apply pub_try_ext. intros i t.
  destruct (total bufs <=? max_payload_length (ps_log s)) eqn:E1.
  - apply ta_unfrag_bulk_eq.
  - destruct (max_message_length (ps_log s) <? total bufs); [reflexivity|].
    apply ta_frag_bulk_eq; lia.
Qed.
