(* C05 in plain terms: what every poll flavour of the model does, stated without the oracle. *)
Require Import V.Base.MachineInt.
Require Import V.Generated.GenConsts.
Require Import V.Model.LogBase.
Require Import V.Model.Descriptor.
Require Import V.Model.Reader.
Require Import V.Model.Image.
Require Import V.Oracle.C05Cases.
Require Import V.Oracle.C05Oracle.
Require Import V.Proofs.DescriptorProofs.
Require Import V.Proofs.ReaderProofs.
Require Import V.Proofs.ImageProofs.
Require Import V.Proofs.C05OracleProofs.
From Coq Require Import ZifyBool.
Open Scope Z_scope.

Inductive flavour :=
| FPoll | FBounded (B : Z) | FControlled (sc : list action) | FBControlled (B : Z) (sc : list action).

Definition fl_bound (fl : flavour) : option Z :=
  match fl with FBounded B | FBControlled B _ => Some B | _ => None end.
Definition fl_script (fl : flavour) : list action :=
  match fl with FControlled sc | FBControlled _ sc => sc | _ => [] end.
Definition run_poll (l : log) (im : image) (limit : Z) (fl : flavour) : outcome call_result :=
  match fl with
  | FPoll => image_poll l im limit
  | FBounded B => image_bounded_poll l im B limit
  | FControlled sc => image_controlled_poll l im limit sc
  | FBControlled B sc => image_bounded_controlled_poll l im B limit sc
  end.

Lemma adm_true_lt P : forall k fs sc off budget, adm P fs sc off budget k true = true -> (k < length fs)%nat.
Proof. induction k; intros gs s o b Ha; cbn [adm] in Ha.
  - destruct gs; [discriminate|cbn; lia].
  - destruct gs as [|g r]; [discriminate|]. cbn [length]. destruct (is_pad g).
    + apply IHk in Ha. lia.
    + repeat (apply andb_prop in Ha as [Ha ?]). apply IHk in H. lia. Qed.

Lemma commit_offs_in : forall D i sc o f, nth_error D i = Some (o, f) -> is_commit (nth i sc Continue) = true ->
  In (o + span f) (commit_offs D sc).
Proof. induction D as [|[o' f'] D IH]; intros i s o f Hn Hcm.
  - destruct i; discriminate.
  - cbn [commit_offs]. destruct i.
    + cbn [nth_error] in Hn. inversion Hn; subst. assert (is_commit (hd Continue s) = true) by (destruct s; exact Hcm).
      rewrite H. left. reflexivity.
    + apply in_or_app. right. apply (IH i (tl s)); [exact Hn|]. destruct s; [destruct i; exact Hcm|exact Hcm]. Qed.

Section Poll.
Variables (bits init : Z) (l : log) (im : image) (fs : list frame).
Hypothesis Hctx : ctx bits init (im_pos im) l fs.
Hypothesis Hopen : im_closed im = false.
Let pos := im_pos im.
Let off := pos mod 2 ^ bits.
Let base := pos - off.

(* every poll is an admissible run with exactly the result of that run *)
Theorem poll_run limit fl :
  exists k ab, (k <= length fs)%nat /\
    adm (below (fl_bound fl) base) fs (fl_script fl) off limit k ab = true /\
    run_poll l im limit fl =
      Ok (Ok (Z.of_nat (length (frags off fs k))), frags off fs k ++ aborted off fs k ab,
          run_writes base off fs (fl_script fl) k, after_writes im (run_writes base off fs (fl_script fl) k)).
Proof.
  pose proof Hctx as [Htl Hi Hwf _].
  destruct (wf_call_facts _ _ _ _ Hwf) as (Hb & Hii & Hp & Hn & Ho & Hal & Hf & Hbase).
  pose proof (wf_frames_pos _ _ _ _ Hf) as Hfp. fold pos in Hp, Hn, Ho, Hal, Hf, Hbase. fold off in Ho, Hal, Hf, Hbase.
  assert (H30 : 2 ^ bits <= 2 ^ 30) by (apply Z.pow_le_mono_r; lia). change (2 ^ 30) with 1073741824 in H30.
  assert (Hsel : sel l (im_pos im) = Ok (fs, off)) by (apply (ctx_sel _ _ _ _ _ Hctx)).
  assert (Hc : forall limit sc, exists k ab, (k <= length fs)%nat /\
            adm (below None base) fs sc off limit k ab = true /\
            image_controlled_poll l im limit sc =
            Ok (Ok (Z.of_nat (length (frags off fs k))), frags off fs k ++ aborted off fs k ab,
                run_writes base off fs sc k, after_writes im (run_writes base off fs sc k))).
  { intros lim sc. unfold image_controlled_poll. rewrite Hopen, Hsel. cbn [bind].
    destruct (cloop_spec (l_tlen l) lim base fs sc off 0 off) as (k & ab & Hk & Ha & He).
    replace (base + off) with (im_pos im) in He by (unfold base, pos; lia). rewrite Z.sub_0_r in Ha.
    exists k, ab. split; [assumption|]. split.
    - eapply adm_weaken; [exact Hfp| |exact Ha]. reflexivity.
    - rewrite He, cfinish_cres. reflexivity. }
  assert (Hbc : forall B limit sc, exists k ab, (k <= length fs)%nat /\
            adm (below (Some B) base) fs sc off limit k ab = true /\
            image_bounded_controlled_poll l im B limit sc =
            Ok (Ok (Z.of_nat (length (frags off fs k))), frags off fs k ++ aborted off fs k ab,
                run_writes base off fs sc k, after_writes im (run_writes base off fs sc k))).
  { intros B lim sc. unfold image_bounded_controlled_poll. rewrite Hopen, Hsel. cbn [bind].
    destruct (cloop_spec (limit_offset (l_tlen l) B (im_pos im) off) lim base fs sc off 0 off) as (k & ab & Hk & Ha & He).
    replace (base + off) with (im_pos im) in He by (unfold base, pos; lia). rewrite Z.sub_0_r in Ha.
    exists k, ab. split; [assumption|]. split.
    - eapply adm_weaken; [exact Hfp| |exact Ha]. intros o Hoo Hlt. cbn [below]. rewrite Htl in Hlt.
      pose proof (limit_offset_below (2 ^ bits) B pos off o ltac:(lia) ltac:(unfold two31; lia) ltac:(lia) ltac:(unfold pos; lia)).
      unfold base. lia.
    - rewrite He, cfinish_cres. reflexivity. }
  destruct fl; cbn [run_poll fl_bound fl_script].
  - rewrite poll_as_controlled. apply Hc.
  - rewrite bounded_as_controlled. apply Hbc.
  - apply Hc.
  - apply Hbc.
Qed.

Lemma pos_after_writes sc k : frames_pos fs ->
  im_pos (after_writes im (run_writes base off fs sc k)) = pos + span_sum (consumed fs k).
Proof. intros Hfp. unfold after_writes, set_pos. cbn [im_pos].
  pose proof (run_writes_ok base off fs sc k Hfp) as Hw. cbv zeta in Hw.
  replace (base + off) with pos in Hw by (unfold base; lia). fold pos.
  unfold writes_ok in Hw. repeat (apply andb_prop in Hw as [Hw ?]). unfold reached in *. unfold base in *. lia. Qed.

Lemma fs_pos : frames_pos fs.
Proof. pose proof Hctx as [_ _ Hwf _]. destruct (wf_call_facts _ _ _ _ Hwf) as (_ & _ & _ & _ & _ & _ & Hf & _).
  eapply wf_frames_pos; eauto. Qed.

Lemma wf_frames_fit tid cap : forall gs o, wf_frames tid cap o gs = true -> o <= cap -> o + span_sum gs <= cap.
Proof. induction gs as [|f r IH]; intros o H Ho; cbn [span_sum]; [lia|]. cbn [wf_frames] in H.
  repeat (apply andb_prop in H as [H ?]). specialize (IH _ H0 ltac:(lia)). lia. Qed.

(* C05_advance: the position moves forward by exactly the aligned lengths of the first k visible frames, whose data
   frames are the fragments consumed; it never moves backwards, never beyond the visible (committed) frames and
   never beyond the end of the term *)
Theorem advance limit fl ret ds ws im' :
  run_poll l im limit fl = Ok (ret, ds, ws, im') ->
  exists k ab, (k <= length fs)%nat /\
    im_pos im' = pos + span_sum (consumed fs k) /\
    ret = Ok (Z.of_nat (length (frags off fs k))) /\
    ds = frags off fs k ++ aborted off fs k ab /\
    pos <= im_pos im' <= pos + span_sum fs /\ off + span_sum fs <= 2 ^ bits.
Proof. intros H. destruct (poll_run limit fl) as (k & ab & Hk & Ha & He). rewrite He in H. inversion H; subst.
  pose proof fs_pos as Hfp. exists k, ab. rewrite pos_after_writes by assumption.
  pose proof (span_sum_nonneg _ (frames_pos_firstn k fs Hfp)). pose proof (span_sum_firstn_le k fs Hfp).
  pose proof Hctx as [_ _ Hwf _]. destruct (wf_call_facts _ _ _ _ Hwf) as (_ & _ & _ & _ & Ho & _ & Hf & _).
  pose proof (wf_frames_fit _ _ _ _ Hf ltac:(lia)). unfold consumed in *. fold pos off in H2.
  repeat split; try assumption; try reflexivity; lia. Qed.

(* C05_limit: the handler is given at most fragment_limit fragments (none when the limit is <= 0) *)
Theorem limit_respected limit fl ret ds ws im' :
  run_poll l im limit fl = Ok (ret, ds, ws, im') -> Z.of_nat (length ds) <= Z.max 0 limit.
Proof. intros H. destruct (poll_run limit fl) as (k & ab & Hk & Ha & He). rewrite He in H. inversion H; subst.
  eapply adm_budget; eauto. Qed.

(* C05_bound: every fragment given to the handler starts strictly below the caller's position bound *)
Theorem bound_respected limit fl B ret ds ws im' :
  fl_bound fl = Some B -> run_poll l im limit fl = Ok (ret, ds, ws, im') ->
  forall o f, In (o, f) ds -> base + o < B.
Proof. intros HB H o f Hin. destruct (poll_run limit fl) as (k & ab & Hk & Ha & He). rewrite He in H. inversion H; subst.
  rewrite HB in Ha. pose proof (adm_bound _ _ _ _ _ _ _ Ha o f Hin) as Hb. cbn [below] in Hb. lia. Qed.

(* C05_args: what the handler can read of each fragment: data offset, payload length, flags,
   Header::position() = position just after the frame, session id, payload *)
Theorem args_right m limit fl ret ds ws im' :
  run_poll l im limit fl = Ok (ret, ds, ws, im') ->
  forall d, In d ds -> frag_obs m l d = exp_frag base d.
Proof. intros H d Hin. destruct (poll_run limit fl) as (k & ab & Hk & Ha & He). rewrite He in H. inversion H; subst.
  unfold base, off, pos. eapply handed_exp; eauto. Qed.

(* C05_actions *)
Theorem actions limit fl ret ds ws im' :
  run_poll l im limit fl = Ok (ret, ds, ws, im') ->
  let sc := fl_script fl in
  exists k ab, ds = frags off fs k ++ aborted off fs k ab /\
    (* no consumed fragment was answered Abort *)
    (forall i, (i < length (frags off fs k))%nat -> is_abort (nth i sc Continue) = false) /\
    (* Abort: the fragment is handed over but not consumed; the position is left at its start *)
    (ab = true -> is_abort (nth (length (frags off fs k)) sc Continue) = true /\
                  exists f, aborted off fs k ab = [(reached off fs k, f)] /\ im_pos im' = base + reached off fs k) /\
    (* Break: nothing is handed over afterwards and the position published is the end of that fragment *)
    (forall i, (i < length (frags off fs k))%nat -> is_break (nth i sc Continue) = true ->
       S i = length (frags off fs k) /\ ab = false /\
       exists o f, nth_error (frags off fs k) i = Some (o, f) /\ im_pos im' = base + o + span f) /\
    (* Commit: the position just after that fragment has been written to the counter *)
    (forall i o f, nth_error (frags off fs k) i = Some (o, f) -> is_commit (nth i sc Continue) = true ->
       In (base + o + span f) ws) /\
    (* the counter is written with non-decreasing values and ends at the position reached *)
    nondecr pos ws = true /\ im_pos im' = last ws pos.
Proof. intros H sc. subst sc. destruct (poll_run limit fl) as (k & ab & Hk & Ha & He). rewrite He in H. inversion H; subst.
  set (sc := fl_script fl) in *. pose proof fs_pos as Hfp. exists k, ab. split; [reflexivity|].
  assert (Hpos : im_pos (after_writes im (run_writes base off fs sc k)) = base + reached off fs k).
  { rewrite pos_after_writes by assumption. unfold reached, base. lia. }
  split; [eapply adm_consumed_not_abort; eauto|]. split.
  { intros ->. split; [eapply adm_aborted_is_abort; eauto|].
    assert (Hlt : (k < length fs)%nat) by (eapply adm_true_lt; eauto).
    destruct (nth_error fs k) as [f|] eqn:En; [|apply nth_error_None in En; lia].
    exists f. unfold aborted. rewrite En. split; [reflexivity|exact Hpos]. }
  split.
  { intros i Hi Hbr. destruct (adm_break_last _ _ _ _ _ _ _ Ha i Hi Hbr) as (A & B & o & f & C & D).
    split; [assumption|]. split; [assumption|]. exists o, f. split; [assumption|]. rewrite Hpos. lia. }
  split.
  { intros i o f Hn Hcm. unfold run_writes. apply in_or_app. left. apply in_map_iff. exists (o + span f). split; [lia|].
    eapply commit_offs_in; eauto. }
  pose proof (run_writes_ok base off fs sc k Hfp) as Hw. cbv zeta in Hw.
  replace (base + off) with pos in Hw by (unfold base; lia).
  unfold writes_ok in Hw. repeat (apply andb_prop in Hw as [Hw ?]). split; [assumption|].
  unfold after_writes, set_pos. cbn [im_pos]. reflexivity. Qed.

End Poll.

(* C05_peek: controlled_peek never writes the counter and does not change the image; from a valid initial position
   it scans an admissible run and returns the end of the last complete message scanned *)
Theorem peek_pure l im ip lp sc ret ds ws im' :
  image_controlled_peek l im ip lp sc = Ok (ret, ds, ws, im') -> ws = [] /\ im' = im.
Proof. unfold image_controlled_peek. destruct (im_closed im); [intros H; inversion H; auto|].
  destruct (negb (validate_position (l_tlen l) (im_pos im) ip)); [intros H; inversion H; auto|].
  destruct (sel l ip) as [[fs off]| | | |]; cbn [bind]; try discriminate.
  destruct (ploop (l_tlen l) lp fs sc off ip off ip) as [rp d]. intros H; inversion H; auto. Qed.

Theorem peek_run bits init l im fs ip lp sc :
  ctx bits init ip l fs -> im_closed im = false -> valid_new_position (2 ^ bits) (im_pos im) ip = true ->
  let off := ip mod 2 ^ bits in let base := ip - off in
  exists k ab, (k <= length fs)%nat /\ padm (below (Some lp) base) fs sc off k ab = true /\
    image_controlled_peek l im ip lp sc
    = Ok (Ok (last_complete base fs off k ip), frags off fs k ++ aborted off fs k ab, [], im).
Proof. intros Hc Hcl Hv off base. unfold image_controlled_peek. pose proof Hc as [Htl Hi Hwf _].
  destruct (wf_call_facts _ _ _ _ Hwf) as (Hb & Hii & Hp & Hn & Ho & Hal & Hf & Hbase).
  rewrite Hcl, Htl, validate_spec, Hv by lia. cbn [negb]. rewrite (ctx_sel _ _ _ _ _ Hc). cbn [bind]. fold off.
  destruct (ploop_spec (2 ^ bits) lp base fs sc off ip) as (k & ab & Hk & Ha & He).
  replace (base + off) with ip in He by (unfold base; lia). rewrite He. exists k, ab. repeat split; assumption. Qed.

Theorem peek_invalid bits l im ip lp sc :
  l_tlen l = 2 ^ bits -> 0 <= bits -> im_closed im = false -> valid_new_position (2 ^ bits) (im_pos im) ip = false ->
  image_controlled_peek l im ip lp sc = Ok (Err IllegalArg, [], [], im).
Proof. intros Htl Hb Hcl Hv. unfold image_controlled_peek. rewrite Hcl, Htl, validate_spec, Hv by lia. reflexivity. Qed.

(* C05_block: block_poll returns new position - old position; the block is [old, new) and consists of whole frames:
   either one padding frame, or data frames only, of total length at most the block length limit *)
Lemma block_lo off blimit cap : 0 <= off -> cap < two31 -> in_i32 (off + blimit) = true \/ in_i32 blimit = true ->
  Z.min (sat_add32 off blimit) cap = Z.min (off + blimit) cap.
Proof. unfold sat_add32, in_i32, two31. intros Ho Hc H. lia. Qed.

Theorem block_run_all m bits init l im fs blimit :
  ctx bits init (im_pos im) l fs -> im_closed im = false ->
  in_i32 (im_pos im mod 2 ^ bits + blimit) = true \/ in_i32 blimit = true ->
  exists k ds ws im', (k <= length fs)%nat /\ badm blimit fs k = true /\
    image_block_poll m l im blimit = Ok (Ok (span_sum (consumed fs k)), ds, ws, im') /\
    im_pos im' = im_pos im + span_sum (consumed fs k) /\
    (0 < span_sum (consumed fs k) -> exists f, nth_error fs 0 = Some f /\ ds = [(im_pos im mod 2 ^ bits, f)]
                                              /\ ws = [im_pos im + span_sum (consumed fs k)]) /\
    (span_sum (consumed fs k) = 0 -> ds = [] /\ ws = []).
Proof. intros Hc Hcl Hi32. pose proof Hc as [Htl Hi Hwf _].
  destruct (wf_call_facts _ _ _ _ Hwf) as (Hb & Hii & Hp & Hn & Ho & Hal & Hf & Hbase).
  pose proof (wf_frames_pos _ _ _ _ Hf) as Hfp. set (off := im_pos im mod 2 ^ bits) in *.
  assert (H30 : 2 ^ bits <= 2 ^ 30) by (apply Z.pow_le_mono_r; lia). change (2 ^ 30) with 1073741824 in H30.
  unfold image_block_poll. rewrite Hcl, (ctx_sel _ _ _ _ _ Hc). cbn [bind]. fold off.
  rewrite Htl. rewrite (block_lo off blimit (2 ^ bits)) by (unfold two31; lia || assumption).
  destruct (term_scan_spec (Z.min (off + blimit) (2 ^ bits)) fs off Hfp) as (k & Hk & Hcase & He).
  rewrite He. unfold consumed. set (len := span_sum (firstn k fs)) in *.
  replace (off + len - off) with len by lia.
  pose proof (span_sum_nonneg _ (frames_pos_firstn k fs Hfp)) as Hlen. fold len in Hlen.
  assert (Hbadm : badm blimit fs k = true).
  { eapply (badm_of_scan blimit off (Z.min (off + blimit) (2 ^ bits))); eauto. lia. }
  destruct (off + len >? off) eqn:Eg.
  - exists k. do 3 eexists. split; [assumption|]. split; [assumption|]. split; [reflexivity|].
    unfold after_writes, set_pos. cbn [last im_pos]. split; [reflexivity|]. split.
    + intros _. destruct fs as [|f r].
      * destruct k; unfold len in Eg; cbn [firstn span_sum] in Eg; lia.
      * exists f. repeat split.
    + intros; lia.
  - exists k. do 3 eexists. split; [assumption|]. split; [assumption|]. split; [reflexivity|].
    split; [lia|]. split; [intros; lia|]. intros _. split; reflexivity. Qed.

(* the statement as it stood before the fix brought every i32 limit inside: limits whose sum with the offset fits an i32 *)
Theorem block_run m bits init l im fs blimit :
  ctx bits init (im_pos im) l fs -> im_closed im = false -> in_i32 (im_pos im mod 2 ^ bits + blimit) = true ->
  exists k ds ws im', (k <= length fs)%nat /\ badm blimit fs k = true /\
    image_block_poll m l im blimit = Ok (Ok (span_sum (consumed fs k)), ds, ws, im') /\
    im_pos im' = im_pos im + span_sum (consumed fs k) /\
    (0 < span_sum (consumed fs k) -> exists f, nth_error fs 0 = Some f /\ ds = [(im_pos im mod 2 ^ bits, f)]
                                              /\ ws = [im_pos im + span_sum (consumed fs k)]) /\
    (span_sum (consumed fs k) = 0 -> ds = [] /\ ws = []).
Proof. intros Hc Hcl Hi. apply (block_run_all m bits init l im fs blimit Hc Hcl). left. exact Hi. Qed.

(* progress of block_poll with "no limit": the first visible frame is never left behind *)
Lemma scan_loop_ge start limit : forall fs off, frames_pos fs -> off <= scan_loop start limit fs off.
Proof. induction fs as [|f r IH]; intros off Hp; rewrite scan_loop_eq.
  - destruct (off <? limit); lia.
  - apply frames_pos_inv in Hp as [Hf Hr]. pose proof (span_bounds f Hf).
    destruct (off <? limit); [|lia]. destruct (is_pad f); [destruct (start =? off); lia|].
    destruct (off + span f >? limit); [lia|]. specialize (IH (off + span f) Hr). lia. Qed.

Theorem block_progress m bits init l im f r blimit :
  ctx bits init (im_pos im) l (f :: r) -> im_closed im = false -> in_i32 blimit = true -> 2 ^ bits <= blimit ->
  exists ret ds ws im', image_block_poll m l im blimit = Ok (ret, ds, ws, im') /\ im_pos im + span f <= im_pos im'.
Proof. intros Hc Hcl Hbl Hbig. pose proof Hc as [Htl Hi Hwf _].
  destruct (wf_call_facts _ _ _ _ Hwf) as (Hb & Hii & Hp & Hn & Ho & Hal & Hf & Hbase).
  pose proof (wf_frames_pos _ _ _ _ Hf) as Hfp. set (off := im_pos im mod 2 ^ bits) in *.
  assert (H30 : 2 ^ bits <= 2 ^ 30) by (apply Z.pow_le_mono_r; lia). change (2 ^ 30) with 1073741824 in H30.
  pose proof (wf_frames_fit bits im Hcl _ _ _ _ Hf ltac:(lia)) as Hfit. cbn [span_sum] in Hfit.
  apply frames_pos_inv in Hfp as [Hf1 Hr]. pose proof (span_bounds f Hf1) as Hsp. pose proof (span_sum_nonneg r Hr) as Hrs.
  unfold image_block_poll. rewrite Hcl, (ctx_sel _ _ _ _ _ Hc). cbn [bind]. fold off.
  rewrite Htl. rewrite (block_lo off blimit (2 ^ bits)) by (unfold two31; lia || (right; assumption)).
  replace (Z.min (off + blimit) (2 ^ bits)) with (2 ^ bits) by lia.
  unfold term_scan. rewrite scan_loop_eq.
  assert (E1 : off <? 2 ^ bits = true) by lia. rewrite E1.
  assert (Hge : off + span f <= (if is_pad f then (if off =? off then off + span f else off)
                                 else if off + span f >? 2 ^ bits then off else scan_loop off (2 ^ bits) r (off + span f))).
  { destruct (is_pad f); [rewrite Z.eqb_refl; lia|]. assert (E2 : off + span f >? 2 ^ bits = false) by lia. rewrite E2.
    apply scan_loop_ge. assumption. }
  set (ro := if is_pad f then (if off =? off then off + span f else off)
             else if off + span f >? 2 ^ bits then off else scan_loop off (2 ^ bits) r (off + span f)) in *.
  assert (E3 : ro >? off = true) by lia. rewrite E3. do 4 eexists. split; [reflexivity|].
  unfold after_writes, set_pos. cbn [last im_pos]. lia. Qed.

(* closed-image short circuits *)
Theorem closed_polls m l im : im_closed im = true ->
  (forall limit, image_poll l im limit = Ok (Ok 0, [], [], im)) /\
  (forall B limit, image_bounded_poll l im B limit = Ok (Ok 0, [], [], im)) /\
  (forall limit sc, image_controlled_poll l im limit sc = Ok (Ok 0, [], [], im)) /\
  (forall B limit sc, image_bounded_controlled_poll l im B limit sc = Ok (Ok 0, [], [], im)) /\
  (forall ip lp sc, image_controlled_peek l im ip lp sc = Ok (Ok ip, [], [], im)) /\
  (forall bl, image_block_poll m l im bl = Ok (Ok 0, [], [], im)) /\
  (forall p, image_set_position l im p = (Ok 0, [], [], im)) /\
  image_position im = im_final im.
Proof. intros H. unfold image_poll, image_bounded_poll, image_controlled_poll, image_bounded_controlled_poll,
  image_controlled_peek, image_block_poll, image_set_position, image_position. rewrite H. repeat split. Qed.

(* set_position: accepted exactly for frame-aligned positions from the current one to the end of its term *)
Theorem set_position_spec bits l im p : l_tlen l = 2 ^ bits -> 0 <= bits -> im_closed im = false ->
  image_set_position l im p =
  if valid_new_position (2 ^ bits) (im_pos im) p then (Ok 0, [], [p], set_pos im p) else (Err IllegalArg, [], [], im).
Proof. intros Htl Hb Hcl. unfold image_set_position. rewrite Hcl, Htl, validate_spec by lia. reflexivity. Qed.
