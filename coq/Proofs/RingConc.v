(* Interleavings of any number of producers with one consumer (Model/RingThreads.v):
   the inductive invariant.  Every statement is for an arbitrary list of producers and an
   arbitrary thread chosen at each step. *)
Require Import V.Base.MachineInt.
Require Import V.Generated.GenConsts.
Require Import V.Model.LogBase.
Require Import V.Model.Ring.
Require Import V.Model.RingThreads.
Require Import V.Spec.Fifo.
Require Import V.Proofs.RingArith.
Require Import V.Proofs.RingSeq.
Require Import V.Proofs.RingRender.
From Coq Require Import ZifyBool Lia.
Open Scope Z_scope.

Definition two61 : Z := 2305843009213693952.

Definition rl_of (body : list Z) : Z := Z.of_nat (length body) + 8.
Definition rq_of (body : list Z) : Z := align (rl_of body) 8.

Lemma rq_of_bounds body : 8 <= rq_of body /\ rl_of body <= rq_of body < rl_of body + 8 /\ rq_of body mod 8 = 0.
Proof. unfold rq_of, rl_of. pose proof (align8_bounds (Z.of_nat (length body) + 8)).
  pose proof (align8_mod (Z.of_nat (length body) + 8)). lia. Qed.

(* ---- programs ---- *)
Definition wreq_ok (w : wreq) : Prop := fst w < 1 \/ valid_cmd (fst w) = true.

Definition at_write (cp : Z) (ps : pstate) (typ : Z) (body : list Z) : Prop :=
  nth_error (p_prog ps) (p_k ps) = Some (typ, body) /\ valid_cmd typ = true /\
  Z.of_nat (length body) <= cp / 8.

Lemma len_small cp (body : list Z) : cap_ok cp -> Z.of_nat (length body) <= cp / 8 -> Z.of_nat (length body) <= 134217728.
Proof. intros Hc H. pose proof (cap_ok_range _ Hc).
  pose proof (Z.div_le_mono cp two30 8 ltac:(lia) ltac:(lia)) as Hd.
  change (two30 / 8) with 134217728 in Hd. lia. Qed.

Lemma cur_at_write m cp ps typ body : cap_ok cp -> at_write cp ps typ body ->
  cur m ps = Some (typ, body, rl_of body, rq_of body).
Proof. intros Hc (E & _ & Hl). pose proof (len_small _ _ Hc Hl). unfold cur. rewrite E.
  unfold add32. rewrite chk32_ok by (apply in_i32_small; unfold two31, HL, GenConsts.RB_HEADER_LENGTH; lia).
  cbn [bind]. rewrite HL_eq. rewrite ralign_ok by (unfold two30; lia). reflexivity. Qed.

(* entering the next write: either all done, or parked at the first access of a checked write *)
Lemma enter_spec cp : forall fuel ps, Forall wreq_ok (p_prog ps) -> (length (p_prog ps) - p_k ps < fuel)%nat ->
  let ps' := enter cp fuel ps in
  p_prog ps' = p_prog ps /\ (p_k ps <= p_k ps')%nat /\
  ((p_pc ps' = PDone) \/
   (p_pc ps' = PReadHC /\ exists typ body, at_write cp ps' typ body)) /\
  (exists errs, p_res ps' = p_res ps ++ errs /\ Forall (fun r => r <> Ok 0) errs /\
                (length errs = p_k ps' - p_k ps)%nat).
Proof. induction fuel as [| f IH]; intros ps Hok Hf; [lia |]. cbn [enter].
  destruct (nth_error (p_prog ps) (p_k ps)) as [[typ body] |] eqn:E.
  - assert (Hw : wreq_ok (typ, body)). { rewrite Forall_forall in Hok. apply Hok. eapply nth_error_In; eassumption. }
    assert (Hlt : (p_k ps < length (p_prog ps))%nat) by (apply nth_error_Some; congruence).
    destruct (typ <? 1) eqn:T1.
    + specialize (IH (next_write ps (Err IllegalArg)) Hok ltac:(cbn [next_write p_prog p_k]; lia)).
      cbn zeta in *. destruct IH as (A & B & C & errs & D1 & D2 & D3).
      cbn [next_write p_prog p_k p_res] in *. repeat split; auto; try lia.
      exists (Err IllegalArg :: errs). rewrite D1, <- app_assoc. repeat split; auto.
      * constructor; [discriminate | assumption].
      * cbn [length]. lia.
    + destruct (Z.of_nat (length body) >? cp / 8) eqn:T2.
      * specialize (IH (next_write ps (Err TooLong)) Hok ltac:(cbn [next_write p_prog p_k]; lia)).
        cbn zeta in *. destruct IH as (A & B & C & errs & D1 & D2 & D3).
        cbn [next_write p_prog p_k p_res] in *. repeat split; auto; try lia.
        exists (Err TooLong :: errs). rewrite D1, <- app_assoc. repeat split; auto.
        -- constructor; [discriminate | assumption].
        -- cbn [length]. lia.
      * cbn zeta. cbn [set_pc p_prog p_k p_pc p_res]. repeat split; auto.
        -- right. split; [reflexivity |]. exists typ, body. unfold at_write. cbn [set_pc p_prog p_k].
           destruct Hw as [Hw | Hw]; cbn [fst] in Hw; [lia |]. repeat split; auto; lia.
        -- exists []. rewrite app_nil_r. repeat split; auto. cbn [length]. lia.
  - cbn zeta. cbn [set_pc p_prog p_k p_pc p_res]. repeat split; auto.
    exists []. rewrite app_nil_r. repeat split; auto. cbn [length]. lia.
Qed.

Lemma finish_spec cp ps r : Forall wreq_ok (p_prog ps) ->
  let ps' := finish cp ps r in
  p_prog ps' = p_prog ps /\ (p_k ps < p_k ps')%nat /\
  ((p_pc ps' = PDone) \/ (p_pc ps' = PReadHC /\ exists typ body, at_write cp ps' typ body)) /\
  (exists errs, p_res ps' = p_res ps ++ r :: errs /\ Forall (fun r => r <> Ok 0) errs /\
                (S (length errs) = p_k ps' - p_k ps)%nat).
Proof. intros Hok. unfold finish.
  pose proof (enter_spec cp (S (length (p_prog ps))) (next_write ps r)) as H.
  cbn [next_write p_prog p_k p_res] in H. specialize (H Hok ltac:(lia)). cbn zeta in *.
  destruct H as (A & B & C & errs & D1 & D2 & D3). repeat split; auto; try lia.
  exists errs. rewrite D1, <- app_assoc. repeat split; auto. lia. Qed.

(* ---- the slots a producer owns while it is between its compare-and-set and its commit ---- *)
Definition expect (tid : Z) (ps : pstate) : list slot :=
  match nth_error (p_prog ps) (p_k ps) with
  | Some (typ, body) =>
      let k := Z.of_nat (p_k ps) in
      match p_pc ps with
      | PPadHdr tl pd => [mkSlot tl pd 0 0 [] tid (- 1 - k); mkSlot (tl + pd) (rq_of body) 0 0 [] tid k]
      | PHdr p => [mkSlot p (rq_of body) 0 0 [] tid k]
      | PCopy p => [mkSlot p (rq_of body) (- rl_of body) typ [] tid k]
      | PCommit p => [mkSlot p (rq_of body) (- rl_of body) typ body tid k]
      | _ => []
      end
  | None => []
  end.

Lemma expect_owner tid ps s : In s (expect tid ps) -> s_owner s = tid /\ s_len s <= 0.
Proof. unfold expect. destruct (nth_error (p_prog ps) (p_k ps)) as [[typ body] |]; [| intros []].
  destruct (p_pc ps); cbn [In]; try tauto; intros H;
    repeat destruct H as [H | H]; try contradiction; subst s; cbn [s_owner s_len]; unfold rl_of; split; try reflexivity; lia. Qed.

(* ---- stores into a tiling ---- *)
Lemma upd_slot_other sl p f s : In s sl -> s_pos s <> p -> In s (upd_slot sl p f).
Proof. induction sl as [| x sl IH]; intros Hin Hp; [inversion Hin |]. cbn [upd_slot].
  destruct (s_pos x =? p) eqn:E.
  - destruct Hin as [-> | Hin]; [lia | right; assumption].
  - destruct Hin as [-> | Hin]; [left; reflexivity | right; apply IH; assumption]. Qed.

Lemma upd_slot_in sl p f s : In s (upd_slot sl p f) -> In s sl \/ (exists s0, In s0 sl /\ s_pos s0 = p /\ s = f s0).
Proof. induction sl as [| x sl IH]; intros Hin; [inversion Hin |]. cbn [upd_slot] in Hin.
  destruct (s_pos x =? p) eqn:E.
  - destruct Hin as [<- | Hin]; [right; exists x; repeat split; [left; reflexivity | lia] | left; right; assumption].
  - destruct Hin as [<- | Hin]; [left; left; reflexivity |].
    destruct (IH Hin) as [H | (s0 & A & B & C)]; [left; right; assumption | right; exists s0; repeat split; auto; right; assumption]. Qed.

(* positions in a tiling are strictly increasing, hence unique *)
Lemma tiled_pos_unique cp h t sl a b : tiled cp h t sl -> In a sl -> In b sl -> s_pos a = s_pos b -> a = b.
Proof. induction 1 as [| h t s sl Hp G T IH]; intros Ha Hb E; [inversion Ha |].
  pose proof (tiled_range _ _ _ _ T) as R. rewrite Forall_forall in R. destruct G as (_ & _ & Gs & _).
  destruct Ha as [<- | Ha], Hb as [<- | Hb]; auto.
  - specialize (R b Hb). lia.
  - specialize (R a Ha). lia. Qed.

Lemma upd_slot_split cp h t sl p f : tiled cp h t sl -> forall s, In s sl -> s_pos s = p ->
  exists pre suf, sl = pre ++ s :: suf /\ upd_slot sl p f = pre ++ f s :: suf.
Proof. induction 1 as [| h t x sl Hp G T IH]; intros s Hin Hs; [inversion Hin |]. cbn [upd_slot].
  destruct Hin as [<- | Hin].
  - replace (s_pos x =? p) with true by lia. exists [], sl. split; reflexivity.
  - pose proof (tiled_range _ _ _ _ T) as R. rewrite Forall_forall in R. specialize (R s Hin).
    destruct G as (_ & _ & Gs & _). replace (s_pos x =? p) with false by lia.
    destruct (IH s Hin Hs) as (pre & suf & E1 & E2). exists (x :: pre), suf. cbn [app]. rewrite E1 at 1. rewrite E2. split; reflexivity. Qed.

Lemma tiled_replace cp h t pre s s' suf : tiled cp h t (pre ++ s :: suf) ->
  s_pos s' = s_pos s -> s_span s' = s_span s -> geo cp s' -> tiled cp h t (pre ++ s' :: suf).
Proof. intros T Hp Hs G. destruct (tiled_app_inv _ _ _ _ _ T) as (q & T1 & T2).
  inversion T2 as [| h0 t0 s0 sl0 Hp0 G0 T3]; subst.
  eapply tiled_app; [exact T1 |]. constructor; [lia | assumption |]. rewrite Hs. exact T3. Qed.

(* ---- lists of producers ---- *)
Lemma nth_set_nth_eq {A} (l : list A) i x y : nth_error l i = Some y -> nth_error (set_nth l i x) i = Some x.
Proof. revert i. induction l as [| a l IH]; intros [| i] H; cbn in *; try discriminate; auto. Qed.
Lemma nth_set_nth_neq {A} (l : list A) i j x : i <> j -> nth_error (set_nth l i x) j = nth_error l j.
Proof. revert i j. induction l as [| a l IH]; intros [| i] [| j] H; cbn; auto; try congruence. Qed.

(* ================================================================== the invariant *)
Section Invariant.
Variable lo : Z.          (* a lower bound of every head value ever read, e.g. the initial head cache *)

(* a slot whose positive length word has been written *)
Definition committed (cp : Z) (prods : list pstate) (s : slot) : Prop :=
  0 < s_len s /\
  ((* a padding record (written by a wrapping claim, or by unblock over dead claims) *)
   (s_type s = PAD /\ s_span s = align (s_len s) 8 /\ s_seq s < 0) \/
   (* a command written before the threads were started (owner 0) *)
   (s_owner s = 0 /\ s_seq s = 0 /\ valid_cmd (s_type s) = true /\ s_len s = rl_of (s_body s) /\ s_span s = rq_of (s_body s)) \/
   (exists i ps, s_owner s = Z.of_nat (S i) /\ nth_error prods i = Some ps /\ 0 <= s_seq s /\
      nth_error (p_prog ps) (Z.to_nat (s_seq s)) = Some (s_type s, s_body s) /\
      valid_cmd (s_type s) = true /\ s_len s = rl_of (s_body s) /\ s_span s = rq_of (s_body s) /\
      (Z.to_nat (s_seq s) < p_k ps)%nat)).

(* a slot owned by a producer that is between its compare-and-set and its commit *)
Definition inflight (prods : list pstate) (s : slot) : Prop :=
  exists i ps, nth_error prods i = Some ps /\ In s (expect (Z.of_nat (S i)) ps).

Definition fits (cp rq hd tl pd : Z) : Prop := hd <= tl -> tl + rq + pd <= hd + cp.

Definition pc_ok (R : ring) (ps : pstate) : Prop :=
  let cp := r_cap R in
  match p_pc ps with
  | PDone => True
  | PPanic => False
  | pc => exists typ body, at_write cp ps typ body /\
      let rq := rq_of body in
      match pc with
      | PReadTail hd => lo <= hd <= r_head R
      | PReadHead1 tl => lo <= tl <= r_tail R /\ tl mod 8 = 0
      | PWriteHC1 hd tl => lo <= hd <= r_head R /\ lo <= tl <= r_tail R /\ tl mod 8 = 0 /\ fits cp rq hd tl 0
      | PReadHead2 tl => lo <= tl <= r_tail R /\ tl mod 8 = 0 /\ rq > cp - tl mod cp /\
                         exists hd0, hd0 <= r_head R /\ fits cp rq hd0 tl 0
      | PWriteHC2 hd tl => lo <= hd <= r_head R /\ lo <= tl <= r_tail R /\ tl mod 8 = 0 /\
                           rq > cp - tl mod cp /\ fits cp rq hd tl (cp - tl mod cp)
      | PCas hd tl pd => lo <= hd <= r_head R /\ lo <= tl <= r_tail R /\ tl mod 8 = 0 /\
                         pd = pad_of cp tl rq /\ fits cp rq hd tl pd
      | PPadHdr tl pd => 0 < pd /\ pd = cp - tl mod cp /\ tl mod 8 = 0
      | _ => True
      end
  end.

Definition prod_ok (R : ring) (tid : Z) (ps : pstate) : Prop :=
  pc_ok R ps /\ Forall wreq_ok (p_prog ps) /\ (forall s, In s (expect tid ps) -> In s (r_slots R)).

(* ---- the consumer ---- *)
Definition is_rec (s : slot) : bool := 0 <=? s_seq s.
Definition tag_of (s : slot) : tmsg := (s_owner s, s_seq s, s_type s, s_body s).
Definition msgs_of (sl : list slot) : list tmsg := map tag_of (filter is_rec sl).
Fixpoint span_sum (sl : list slot) : Z := match sl with [] => 0 | s :: r => s_span s + span_sum r end.

Definition used_ok (R : ring) (prods : list pstate) (bytes : Z) (used : list slot) : Prop :=
  (exists rest, r_slots R = used ++ rest) /\ Forall (committed (r_cap R) prods) used /\ span_sum used = bytes.

Definition has_limit (cs : cstate) : Prop := exists limit, nth_error (c_limits cs) (c_k cs) = Some limit.

Definition cons_ok (R : ring) (prods : list pstate) (cs : cstate) : Prop :=
  match c_pc cs with
  | CDone => True
  | CPanic => False
  | CReadHead => has_limit cs
  | CReadHdr hd bytes msgs acc =>
      has_limit cs /\ hd = r_head R /\
      exists used, used_ok R prods bytes used /\ acc = msgs_of used /\ msgs = Z.of_nat (length acc)
  | CHandler hd bytes msgs acc p len ty ri =>
      has_limit cs /\ hd = r_head R /\
      exists used s, used_ok R prods bytes (used ++ [s]) /\ acc = msgs_of used /\
        msgs = Z.of_nat (length acc) + 1 /\ s_pos s = p /\ s_len s = len /\ s_type s = ty /\
        is_rec s = true
  | CZero hd bytes msgs acc =>
      has_limit cs /\ hd = r_head R /\ 0 < bytes /\
      exists used, used_ok R prods bytes used /\ acc = msgs_of used
  | CPutHead hd bytes msgs acc => has_limit cs /\ hd = r_head R /\ 0 < bytes
  end.

(* where the slots start: the consumer zeroes before it publishes the new head *)
Definition head' (R : ring) (cs : cstate) : Z :=
  match c_pc cs with CPutHead hd bytes _ _ => hd + bytes | _ => r_head R end.

Record Inv (cfg : config) : Prop := mkInv {
  i_cap : cap_ok (r_cap (g_ring cfg));
  i_lo : 0 <= lo;
  i_hc : lo <= r_hc (g_ring cfg) <= r_head (g_ring cfg);
  i_h8 : r_head (g_ring cfg) mod 8 = 0;
  i_t8 : r_tail (g_ring cfg) mod 8 = 0;
  i_hh : r_head (g_ring cfg) <= head' (g_ring cfg) (g_cons cfg);
  i_tiled : tiled (r_cap (g_ring cfg)) (head' (g_ring cfg) (g_cons cfg)) (r_tail (g_ring cfg)) (r_slots (g_ring cfg));
  i_size : r_tail (g_ring cfg) - r_head (g_ring cfg) <= r_cap (g_ring cfg);
  i_win : r_tail (g_ring cfg) + 2 * r_cap (g_ring cfg) <= two62;
  i_slots : Forall (fun s => committed (r_cap (g_ring cfg)) (g_prods cfg) s \/ inflight (g_prods cfg) s)
                   (r_slots (g_ring cfg));
  i_prods : forall i ps, nth_error (g_prods cfg) i = Some ps -> prod_ok (g_ring cfg) (Z.of_nat (S i)) ps;
  i_cons : cons_ok (g_ring cfg) (g_prods cfg) (g_cons cfg)
}.

(* ---- frame lemmas ---- *)
(* producers only ever move forward in their programs *)
Definition ext (prods prods' : list pstate) : Prop :=
  forall i ps, nth_error prods i = Some ps ->
    exists ps', nth_error prods' i = Some ps' /\ p_prog ps' = p_prog ps /\ (p_k ps <= p_k ps')%nat.

Lemma ext_set_nth prods i ps ps' : nth_error prods i = Some ps -> p_prog ps' = p_prog ps -> (p_k ps <= p_k ps')%nat ->
  ext prods (set_nth prods i ps').
Proof. intros E Hp Hk j q Hj. destruct (Nat.eq_dec i j) as [<- | Hne].
  - rewrite (nth_set_nth_eq _ _ _ _ E). rewrite E in Hj. inversion Hj; subst. exists ps'. auto.
  - rewrite nth_set_nth_neq by assumption. exists q. auto. Qed.

Lemma committed_ext cp prods prods' s : ext prods prods' -> committed cp prods s -> committed cp prods' s.
Proof. intros X (Hl & [P | [Q | (i & ps & A & B & C & D & E & F & G & H)]]); split; auto.
  right. right. destruct (X i ps B) as (ps' & B' & Ep & Ek). exists i, ps'. rewrite Ep. repeat split; auto. lia. Qed.

Lemma pc_ok_mono R R' ps : r_cap R' = r_cap R -> r_head R <= r_head R' -> r_tail R <= r_tail R' ->
  pc_ok R ps -> pc_ok R' ps.
Proof. intros Ec Hh Ht. unfold pc_ok. rewrite Ec.
  destruct (p_pc ps); auto; intros (typ & body & A & B); exists typ, body; (split; [exact A |]); cbn zeta in *;
    repeat match goal with H : _ /\ _ |- _ => destruct H end;
    repeat match goal with H : exists _, _ |- _ => destruct H end;
    repeat match goal with H : _ /\ _ |- _ => destruct H end;
    repeat match goal with |- _ /\ _ => split end; try assumption; try lia.
  eexists. split; [| eassumption]. lia. Qed.

Lemma inflight_other prods i ps' s j q : nth_error prods j = Some q -> i <> j -> In s (expect (Z.of_nat (S j)) q) ->
  inflight (set_nth prods i ps') s.
Proof. intros Hj Hne Hin. exists j, q. rewrite nth_set_nth_neq by assumption. auto. Qed.


Lemma used_ok_frame R R' prods prods' bytes used :
  r_cap R' = r_cap R -> ext prods prods' ->
  (forall u, (exists rest, r_slots R = u ++ rest) -> Forall (committed (r_cap R) prods) u -> exists rest', r_slots R' = u ++ rest') ->
  used_ok R prods bytes used -> used_ok R' prods' bytes used.
Proof. intros Ec X Hs (A & B & C). split; [apply Hs; assumption |]. split; [| assumption].
  rewrite Ec. eapply Forall_impl; [| exact B]. intros a Ha. eapply committed_ext; eassumption. Qed.

Lemma cons_ok_frame R R' prods prods' cs :
  r_cap R' = r_cap R -> r_head R' = r_head R -> ext prods prods' ->
  (forall u, (exists rest, r_slots R = u ++ rest) -> Forall (committed (r_cap R) prods) u -> exists rest', r_slots R' = u ++ rest') ->
  cons_ok R prods cs -> cons_ok R' prods' cs.
Proof. intros Ec Eh X Hs. unfold cons_ok. rewrite ?Ec, ?Eh. destruct (c_pc cs); auto.
  - intros (L & Hh & used & U & A & B). split; [assumption |]. split; [assumption |]. exists used.
    split; [eapply used_ok_frame; eassumption | auto].
  - intros (L & Hh & used & s & U & A). split; [assumption |]. split; [assumption |]. exists used, s.
    split; [eapply used_ok_frame; eassumption | auto].
  - intros (L & Hh & Hb & used & U & A). split; [assumption |]. split; [assumption |]. split; [assumption |]. exists used.
    split; [eapply used_ok_frame; eassumption | auto]. Qed.

Lemma head'_frame R R' cs : r_head R' = r_head R -> head' R' cs = head' R cs.
Proof. intros E. unfold head'. destruct (c_pc cs); auto. Qed.

(* ---- rebuilding the invariant after a producer step ---- *)
(* (A) the step touched neither the slots nor head / tail; it may have refreshed the head cache *)
Lemma inv_pure R R' cs prods i ps ps' :
  Inv (mkCfg R cs prods) -> nth_error prods i = Some ps ->
  expect (Z.of_nat (S i)) ps = [] -> expect (Z.of_nat (S i)) ps' = [] ->
  p_prog ps' = p_prog ps -> (p_k ps <= p_k ps')%nat ->
  r_cap R' = r_cap R -> r_head R' = r_head R -> r_tail R' = r_tail R -> r_slots R' = r_slots R ->
  lo <= r_hc R' <= r_head R -> pc_ok R' ps' ->
  Inv (mkCfg R' cs (set_nth prods i ps')).
Proof. intros [Icap Ilo Ihc Ih8 It8 Ihh Itl Isz Iwin Isl Ipr Ics] Hi E0 E1 Hp Hk Ec Eh Et Es Hhc Hpc.
  cbn [g_ring g_cons g_prods] in *.
  pose proof (ext_set_nth prods i ps ps' Hi Hp Hk) as X.
  constructor; cbn [g_ring g_cons g_prods]; rewrite ?Ec, ?Eh, ?Et, ?Es, ?(head'_frame R R' cs Eh); auto; try lia.
  - eapply Forall_impl; [| exact Isl]. intros s [C | (j & q & Hj & Hin)].
    + left. eapply committed_ext; eassumption.
    + right. destruct (Nat.eq_dec i j) as [<- | Hne].
      * rewrite Hi in Hj. inversion Hj; subst q. rewrite E0 in Hin. inversion Hin.
      * eapply inflight_other; eassumption.
  - intros j q Hj. destruct (Nat.eq_dec i j) as [<- | Hne].
    + rewrite (nth_set_nth_eq _ _ _ _ Hi) in Hj. inversion Hj; subst q.
      split; [assumption |]. split; [rewrite Hp; apply (Ipr i ps Hi) |]. rewrite E1. intros s [].
    + rewrite nth_set_nth_neq in Hj by assumption. destruct (Ipr j q Hj) as (A & B & C).
      split; [eapply pc_ok_mono; [exact Ec | lia | lia | exact A] |]. split; [assumption |]. rewrite Es. assumption.
  - eapply cons_ok_frame; [exact Ec | exact Eh | exact X | | exact Ics]. intros u Hu _. rewrite Es. assumption.
Qed.


(* (B) a successful compare-and-set: new blank slots appended, tail advanced *)
Lemma inv_cas R cs prods i ps ps' t2 new :
  Inv (mkCfg R cs prods) -> nth_error prods i = Some ps ->
  expect (Z.of_nat (S i)) ps = [] ->
  p_prog ps' = p_prog ps -> p_k ps' = p_k ps ->
  tiled (r_cap R) (r_tail R) t2 new -> new <> [] ->
  (forall s, In s (expect (Z.of_nat (S i)) ps') <-> In s new) ->
  t2 - r_head R <= r_cap R -> t2 + 2 * r_cap R <= two62 -> t2 mod 8 = 0 ->
  pc_ok (set_slots (set_tail R t2) (r_slots R ++ new)) ps' ->
  Inv (mkCfg (set_slots (set_tail R t2) (r_slots R ++ new)) cs (set_nth prods i ps')).
Proof. intros [Icap Ilo Ihc Ih8 It8 Ihh Itl Isz Iwin Isl Ipr Ics] Hi E0 Hp Hk Tn Hne Hex Hsz Hwin Ht8 Hpc.
  cbn [g_ring g_cons g_prods] in *.
  pose proof (ext_set_nth prods i ps ps' Hi Hp ltac:(lia)) as X.
  pose proof (tiled_le _ _ _ _ Tn) as Hle.
  set (R' := set_slots (set_tail R t2) (r_slots R ++ new)).
  assert (Eh' : head' R' cs = head' R cs) by (apply head'_frame; reflexivity).
  constructor; cbn [g_ring g_cons g_prods]; rewrite ?Eh'; cbn [R' set_slots set_tail r_cap r_head r_tail r_hc r_slots]; auto; try lia.
  - eapply tiled_app; eassumption.
  - apply Forall_app. split.
    + eapply Forall_impl; [| exact Isl]. intros s [C | (j & q & Hj & Hin)].
      * left. eapply committed_ext; eassumption.
      * right. destruct (Nat.eq_dec i j) as [<- | Hn].
        -- rewrite Hi in Hj. inversion Hj; subst q. rewrite E0 in Hin. inversion Hin.
        -- eapply inflight_other; eassumption.
    + apply Forall_forall. intros s Hs. right. exists i, ps'. split; [apply (nth_set_nth_eq _ _ _ _ Hi) | apply Hex; assumption].
  - intros j q Hj. destruct (Nat.eq_dec i j) as [<- | Hn].
    + rewrite (nth_set_nth_eq _ _ _ _ Hi) in Hj. inversion Hj; subst q.
      split; [exact Hpc |]. split; [rewrite Hp; apply (Ipr i ps Hi) |].
      intros s Hs. apply in_or_app. right. apply Hex. assumption.
    + rewrite nth_set_nth_neq in Hj by assumption. destruct (Ipr j q Hj) as (A & B & C).
      split; [eapply pc_ok_mono; [| | | exact A]; cbn [R' set_slots set_tail r_cap r_head r_tail]; lia |].
      split; [assumption |]. intros s Hs. apply in_or_app. left. apply C. assumption.
  - eapply cons_ok_frame; [| | exact X | | exact Ics]; try reflexivity.
    intros u (rest & Hu) _. cbn [R' set_slots r_slots]. exists (rest ++ new). rewrite Hu, app_assoc. reflexivity.
Qed.

Lemma upd_slot_prefix used rest p f : Forall (fun x => s_pos x <> p) used ->
  upd_slot (used ++ rest) p f = used ++ upd_slot rest p f.
Proof. induction 1 as [| x used Hx F IH]; cbn [app upd_slot]; [reflexivity |].
  replace (s_pos x =? p) with false by lia. f_equal. assumption. Qed.

Lemma committed_len cp prods s : committed cp prods s -> 0 < s_len s.
Proof. intros (H & _). assumption. Qed.

(* (C) a store into the slot s0 the producer owns *)
Lemma inv_store R cs prods i ps ps' s0 f :
  Inv (mkCfg R cs prods) -> nth_error prods i = Some ps ->
  In s0 (expect (Z.of_nat (S i)) ps) ->
  s_pos (f s0) = s_pos s0 -> s_span (f s0) = s_span s0 -> geo (r_cap R) (f s0) ->
  p_prog ps' = p_prog ps -> (p_k ps <= p_k ps')%nat ->
  (forall s, In s (expect (Z.of_nat (S i)) ps') -> s = f s0 \/ (In s (expect (Z.of_nat (S i)) ps) /\ s <> s0)) ->
  (forall s, In s (expect (Z.of_nat (S i)) ps) -> s <> s0 -> In s (expect (Z.of_nat (S i)) ps')) ->
  (committed (r_cap R) (set_nth prods i ps') (f s0) \/ In (f s0) (expect (Z.of_nat (S i)) ps')) ->
  pc_ok (set_slots R (upd_slot (r_slots R) (s_pos s0) f)) ps' ->
  Inv (mkCfg (set_slots R (upd_slot (r_slots R) (s_pos s0) f)) cs (set_nth prods i ps')).
Proof. intros I Hi Hin0 Fp Fs Fg Hp Hk Hnew Hold Hs1 Hpc.
  pose proof I as [Icap Ilo Ihc Ih8 It8 Ihh Itl Isz Iwin Isl Ipr Ics].
  cbn [g_ring g_cons g_prods] in *.
  pose proof (ext_set_nth prods i ps ps' Hi Hp Hk) as X.
  destruct (Ipr i ps Hi) as (Pc & Pw & Pex).
  pose proof (Pex s0 Hin0) as Hin0s.
  destruct (upd_slot_split _ _ _ _ (s_pos s0) f Itl s0 Hin0s eq_refl) as (pre & suf & Esl & Eup).
  set (R' := set_slots R (upd_slot (r_slots R) (s_pos s0) f)).
  assert (Eh' : head' R' cs = head' R cs) by (apply head'_frame; reflexivity).
  (* every other slot sits at another position *)
  assert (Hpos : forall x, In x (r_slots R) -> x <> s0 -> s_pos x <> s_pos s0).
  { intros x Hx Hne E. apply Hne. eapply tiled_pos_unique; eassumption. }
  assert (Hothers : forall x, In x (pre ++ suf) -> In x (r_slots R) /\ x <> s0).
  { intros x Hx. assert (In x (r_slots R)) by (rewrite Esl; apply in_app_or in Hx; apply in_or_app; destruct Hx; [left | right; right]; assumption).
    split; [assumption |]. intro Eq; subst x.
    rewrite Esl in Itl. destruct (tiled_app_inv _ _ _ _ _ Itl) as (q & T1 & T2).
    inversion T2 as [| h0 t0 s1 sl0 Hp0 G0 T3]; subst.
    pose proof (tiled_range _ _ _ _ T1) as R1. pose proof (tiled_range _ _ _ _ T3) as R3.
    rewrite Forall_forall in R1, R3. destruct G0 as (_ & _ & Gs & _).
    apply in_app_or in Hx. destruct Hx as [Hx | Hx]; [specialize (R1 _ Hx) | specialize (R3 _ Hx)]; lia. }
  constructor; cbn [g_ring g_cons g_prods]; rewrite ?Eh'; cbn [R' set_slots r_cap r_head r_tail r_hc r_slots]; auto; try lia.
  - rewrite Eup. rewrite Esl in Itl. eapply tiled_replace; eassumption.
  - rewrite Eup. rewrite Esl in Isl. apply Forall_app in Isl. destruct Isl as (Is1 & Is2). inversion Is2 as [| a l Ha Is3]; subst.
    assert (Hrest : forall x, In x (pre ++ suf) -> (committed (r_cap R) prods x \/ inflight prods x) ->
              committed (r_cap R) (set_nth prods i ps') x \/ inflight (set_nth prods i ps') x).
    { intros x Hx [C | (j & q & Hj & Hin)].
      - left. eapply committed_ext; eassumption.
      - right. destruct (Nat.eq_dec i j) as [<- | Hn].
        + rewrite Hi in Hj. inversion Hj; subst q. exists i, ps'. split; [apply (nth_set_nth_eq _ _ _ _ Hi) |].
          apply Hold; [assumption | apply (Hothers x Hx)].
        + eapply inflight_other; eassumption. }
    apply Forall_app. split.
    + rewrite Forall_forall in Is1 |- *. intros x Hx. apply Hrest; [apply in_or_app; left; assumption | auto].
    + constructor.
      * destruct Hs1 as [C | Hin]; [left; assumption | right; exists i, ps'; split; [apply (nth_set_nth_eq _ _ _ _ Hi) | assumption]].
      * rewrite Forall_forall in Is3 |- *. intros x Hx. apply Hrest; [apply in_or_app; right; assumption | auto].
  - intros j q Hj. destruct (Nat.eq_dec i j) as [<- | Hn].
    + rewrite (nth_set_nth_eq _ _ _ _ Hi) in Hj. inversion Hj; subst q.
      split; [exact Hpc |]. split; [rewrite Hp; assumption |].
      intros s Hs. unfold R'. cbn [set_slots r_slots]. destruct (Hnew s Hs) as [-> | (Hs' & Hne)].
      * rewrite Eup. apply in_or_app. right. left. reflexivity.
      * apply upd_slot_other; [apply Pex; assumption | apply Hpos; [apply Pex; assumption | assumption]].
    + rewrite nth_set_nth_neq in Hj by assumption. destruct (Ipr j q Hj) as (A & B & C).
      split; [eapply pc_ok_mono; [| | | exact A]; cbn [R' set_slots r_cap r_head r_tail]; lia |].
      split; [assumption |]. intros s Hs. unfold R'. cbn [set_slots r_slots]. apply upd_slot_other; [apply C; assumption |].
      apply Hpos; [apply C; assumption |]. intro Eq; subst s.
      destruct (expect_owner _ _ _ Hs) as (O1 & _). destruct (expect_owner _ _ _ Hin0) as (O2 & _). lia.
  - eapply cons_ok_frame; [| | exact X | | exact Ics]; try reflexivity.
    intros u (rest & Hu) Hc. cbn [R' set_slots r_slots]. exists (upd_slot rest (s_pos s0) f).
    rewrite Hu. apply upd_slot_prefix. rewrite Forall_forall in Hc |- *. intros x Hx.
    apply Hpos; [rewrite Hu; apply in_or_app; left; assumption |]. intro Eq; subst x.
    pose proof (committed_len _ _ _ (Hc _ Hx)). destruct (expect_owner _ _ _ Hin0) as (_ & ?). lia.
Qed.


(* ---- the local computations of claim under the window ---- *)
Lemma expect_set_pc_nil tid ps pc :
  match pc with PPadHdr _ _ | PHdr _ | PCopy _ | PCommit _ => False | _ => True end ->
  expect tid (set_pc ps pc) = [].
Proof. intros H. unfold expect. cbn [set_pc p_prog p_k p_pc].
  destruct (nth_error (p_prog ps) (p_k ps)) as [[typ body] |]; [| reflexivity]. destruct pc; try reflexivity; contradiction. Qed.

Lemma expect_nil_pc tid ps :
  match p_pc ps with PPadHdr _ _ | PHdr _ | PCopy _ | PCommit _ => False | _ => True end -> expect tid ps = [].
Proof. intros H. unfold expect. destruct (nth_error (p_prog ps) (p_k ps)) as [[typ body] |]; [| reflexivity].
  destruct (p_pc ps); try reflexivity; contradiction. Qed.

Lemma at_write_set_pc cp ps pc typ body : at_write cp ps typ body -> at_write cp (set_pc ps pc) typ body.
Proof. unfold at_write. cbn [set_pc p_prog p_k]. auto. Qed.

(* what the thread decides after the first capacity check succeeded with head value hd *)
Lemma after_check1_ok m R ps typ body hd tl :
  cap_ok (r_cap R) -> at_write (r_cap R) ps typ body ->
  lo <= hd <= r_head R -> lo <= tl <= r_tail R -> tl mod 8 = 0 -> fits (r_cap R) (rq_of body) hd tl 0 ->
  let ps' := after_check1 m (r_cap R) (rq_of body) hd tl ps in
  pc_ok R ps' /\ p_prog ps' = p_prog ps /\ p_k ps' = p_k ps /\ (forall tid, expect tid ps' = []).
Proof. intros Hc Aw Hh Ht T8 F. cbn zeta. unfold after_check1.
  rewrite wrap_needed_ok by assumption. rewrite lacks_front_ok by assumption.
  pose proof (mod_range (r_cap R) tl Hc) as Htm. pose proof (cap_ok_range _ Hc) as Hcr.
  destruct (rq_of body >? r_cap R - tl mod r_cap R) eqn:W.
  - destruct (rq_of body >? hd mod r_cap R) eqn:Fr.
    + split; [| split; [reflexivity | split; [reflexivity | intros; apply expect_set_pc_nil; exact I]]].
      unfold pc_ok. cbn [set_pc p_pc]. exists typ, body. split; [apply at_write_set_pc; assumption |]. cbn zeta.
      repeat split; auto; try lia. exists hd. split; [lia | assumption].
    + split; [| split; [reflexivity | split; [reflexivity | intros; apply expect_set_pc_nil; exact I]]].
      unfold pc_ok. cbn [set_pc p_pc]. exists typ, body. split; [apply at_write_set_pc; assumption |]. cbn zeta.
      repeat split; auto; try lia.
      * unfold pad_of. rewrite W. reflexivity.
      * intros Hle. specialize (F Hle).
        assert (FI : hd mod r_cap R = hd - (tl - tl mod r_cap R)) by (apply front_index; lia). lia.
  - split; [| split; [reflexivity | split; [reflexivity | intros; apply expect_set_pc_nil; exact I]]].
    unfold pc_ok. cbn [set_pc p_pc]. exists typ, body. split; [apply at_write_set_pc; assumption |]. cbn zeta.
    repeat split; auto; try lia. unfold pad_of. rewrite W. reflexivity. Qed.

Lemma finish_ok R ps r : Forall wreq_ok (p_prog ps) ->
  let ps' := finish (r_cap R) ps r in
  pc_ok R ps' /\ p_prog ps' = p_prog ps /\ (p_k ps < p_k ps')%nat /\ (forall tid, expect tid ps' = []).
Proof. intros Hok. destruct (finish_spec (r_cap R) ps r Hok) as (A & B & C & _). cbn zeta.
  split; [| split; [assumption | split; [assumption |]]].
  - unfold pc_ok. destruct C as [-> | (-> & typ & body & Aw)]; [exact I |]. exists typ, body. split; [assumption | exact I].
  - intros tid. apply expect_nil_pc. destruct C as [-> | (-> & _)]; exact I. Qed.


Lemma geo_same_shape cp s s' : geo cp s -> s_pos s' = s_pos s -> s_span s' = s_span s ->
  8 + Z.of_nat (length (s_body s')) <= s_span s' -> geo cp s'.
Proof. intros (A & B & C & D & E & F) Hp Hs Hb. unfold geo. rewrite Hp, Hs in *. repeat split; auto. Qed.

Lemma claim_slots_tiled cp tl pd rq tid k : cap_ok cp -> 0 <= tl -> tl mod 8 = 0 -> 8 <= rq -> rq mod 8 = 0 ->
  pd = pad_of cp tl rq -> rq + pd <= cp ->
  tiled cp tl (tl + rq + pd) (claim_slots tl pd rq tid k).
Proof. intros Hc H0 H8 Hr Hr8 Hpd Hfit. pose proof (mod_range cp tl Hc) as Htm. pose proof (cap_ok_range _ Hc) as Hcr.
  pose proof (cap_ok_mod8 _ Hc) as Hc8. pose proof (idx_mod8 _ _ Hc H8) as Hi8.
  unfold claim_slots, pad_of in *.
  destruct (rq >? cp - tl mod cp) eqn:W.
  - assert (P8 : (cp - tl mod cp) mod 8 = 0) by (rewrite Zminus_mod, Hc8, Hi8; reflexivity).
    assert (Ppos : 8 <= pd).
    { subst pd. pose proof (Z.div_mod (cp - tl mod cp) 8 ltac:(lia)). lia. }
    replace (pd =? 0) with false by lia. cbn [app].
    constructor; [reflexivity | |].
    + unfold geo. cbn [s_pos s_span s_body length]. subst pd. repeat split; auto; lia.
    + cbn [s_span]. replace (tl + rq + pd) with (tl + pd + rq) by lia.
      assert (Z0 : (tl + pd) mod cp = 0).
      { subst pd. pose proof (Z.div_mod tl cp ltac:(lia)).
        replace (tl + (cp - tl mod cp)) with ((tl / cp + 1) * cp) by lia. apply Z_mod_mult. }
      constructor; [reflexivity | | constructor].
      unfold geo. cbn [s_pos s_span s_body length]. rewrite Z0. repeat split; auto; try lia.
      rewrite Z.add_mod by lia. subst pd. rewrite H8, P8. reflexivity.
  - subst pd. cbn [Z.eqb app]. replace (tl + rq + 0) with (tl + rq) by lia.
    constructor; [cbn [s_pos]; lia | | cbn [s_span]; constructor].
    unfold geo. cbn [s_pos s_span s_body length]. rewrite Z.add_0_r. repeat split; auto; lia. Qed.

Lemma pstep_inv m cfg i ps R' ps' e :
  Inv cfg -> nth_error (g_prods cfg) i = Some ps ->
  pstep m (g_ring cfg) (Z.of_nat (S i)) ps = (R', ps', Some e) ->
  r_tail R' + 2 * r_cap R' <= two62 ->
  Inv (mkCfg R' (g_cons cfg) (set_nth (g_prods cfg) i ps')).
Proof.
  intros HI Hi Hstep Hwin'. destruct cfg as [R cs prods]. cbn [g_ring g_cons g_prods] in *.
  pose proof HI as [Icap Ilo Ihc Ih8 It8 Ihh Itl Isz Iwin Isl Ipr Ics]. cbn [g_ring g_cons g_prods] in *.
  destruct (Ipr i ps Hi) as (Pc & Pw & Pex).
  pose proof (cap_ok_range _ Icap) as Hcr.
  pose proof (tiled_le _ _ _ _ Itl) as Hle.
  assert (HT : r_head R <= r_tail R) by lia.
  unfold pstep in Hstep. unfold pc_ok in Pc.
  destruct (p_pc ps) eqn:Epc; try (inversion Hstep; fail); try contradiction;
    destruct Pc as (typ & body & Aw & Pc); cbn zeta in Pc;
    rewrite (cur_at_write m _ _ _ _ Icap Aw) in Hstep;
    pose proof (rq_of_bounds body) as (Rq8 & Rqb & Rqm);
    pose proof Aw as (Aw1 & Aw2 & Aw3);
    pose proof (len_small _ _ Icap Aw3) as Hls; unfold rl_of in Rqb.
  - (* PReadHC *)
    inversion Hstep; subst. eapply inv_pure; try eassumption; try reflexivity; try lia.
    + apply expect_nil_pc. rewrite Epc. exact I.
    + apply expect_set_pc_nil. exact I.
    + unfold pc_ok. cbn [set_pc p_pc]. exists typ, body. split; [apply at_write_set_pc; assumption | lia].
  - (* PReadTail *)
    rewrite (lacks_ok m (r_cap R) (rq_of body) (r_tail R) hd) in Hstep by (unfold two62, two30 in *; lia).
    destruct (rq_of body >? r_cap R - (r_tail R - hd)) eqn:L.
    + inversion Hstep; subst. eapply inv_pure; try eassumption; try reflexivity; try lia.
      * apply expect_nil_pc. rewrite Epc. exact I.
      * apply expect_set_pc_nil. exact I.
      * unfold pc_ok. cbn [set_pc p_pc]. exists typ, body. split; [apply at_write_set_pc; assumption |]. cbn zeta. repeat split; auto; lia.
    + inversion Hstep; subst.
      destruct (after_check1_ok m R' ps typ body hd (r_tail R') Icap Aw Pc ltac:(lia) It8 ltac:(unfold fits; lia)) as (A & B & C & D).
      eapply inv_pure; try eassumption; try reflexivity; try lia.
      * apply expect_nil_pc. rewrite Epc. exact I.
      * apply D.
  - (* PReadHead1 *)
    destruct Pc as (Pt & Pt8).
    rewrite (lacks_ok m (r_cap R) (rq_of body) tl (r_head R)) in Hstep by (unfold two62, two30 in *; lia).
    destruct (rq_of body >? r_cap R - (tl - r_head R)) eqn:L.
    + inversion Hstep; subst.
      destruct (finish_ok R' ps (Err InsufficientCapacity) Pw) as (A & B & C & D).
      eapply inv_pure; try eassumption; try reflexivity; try lia.
      * apply expect_nil_pc. rewrite Epc. exact I.
      * apply D.
    + inversion Hstep; subst. eapply inv_pure; try eassumption; try reflexivity; try lia.
      * apply expect_nil_pc. rewrite Epc. exact I.
      * apply expect_set_pc_nil. exact I.
      * unfold pc_ok. cbn [set_pc p_pc]. exists typ, body. split; [apply at_write_set_pc; assumption |]. cbn zeta.
        repeat split; auto; try lia. unfold fits. lia.
  - (* PWriteHC1 *)
    destruct Pc as (Ph & Pt & Pt8 & Pf).
    inversion Hstep; subst.
    destruct (after_check1_ok m R ps typ body hd tl Icap Aw Ph Pt Pt8 Pf) as (A & B & C & D).
    eapply inv_pure; try eassumption; try reflexivity; cbn [set_hc r_hc r_head]; try lia;
      try (apply expect_nil_pc; rewrite Epc; exact I); try apply D.
  - (* PReadHead2 *)
    destruct Pc as (Pt & Pt8 & Pw2 & hd0 & Ph0 & Pf0).
    rewrite lacks_front_ok in Hstep by assumption.
    destruct (rq_of body >? r_head R mod r_cap R) eqn:Fr.
    + inversion Hstep; subst.
      destruct (finish_ok R' ps (Err InsufficientCapacity) Pw) as (A & B & C & D).
      eapply inv_pure; try eassumption; try reflexivity; try lia.
      * apply expect_nil_pc. rewrite Epc. exact I.
      * apply D.
    + inversion Hstep; subst. eapply inv_pure; try eassumption; try reflexivity; try lia.
      * apply expect_nil_pc. rewrite Epc. exact I.
      * apply expect_set_pc_nil. exact I.
      * unfold pc_ok. cbn [set_pc p_pc]. exists typ, body. split; [apply at_write_set_pc; assumption |]. cbn zeta.
        repeat split; auto; try lia.
        intros Hl. pose proof (mod_range (r_cap R') tl Icap) as Htm.
        assert (F0 : tl + rq_of body <= r_head R' + r_cap R').
        { destruct (Z_le_dec hd0 tl) as [Y | N]; [specialize (Pf0 Y); lia | lia]. }
        assert (FI : r_head R' mod r_cap R' = r_head R' - (tl - tl mod r_cap R')) by (apply front_index; lia). lia.
  - (* PWriteHC2 *)
    destruct Pc as (Ph & Pt & Pt8 & Pw2 & Pf).
    rewrite wrap_needed_ok in Hstep by assumption.
    replace (rq_of body >? r_cap R - tl mod r_cap R) with true in Hstep by lia.
    inversion Hstep; subst.
    eapply inv_pure; try eassumption; try reflexivity; cbn [set_hc r_hc r_head]; try lia.
    + apply expect_nil_pc. rewrite Epc. exact I.
    + apply expect_set_pc_nil. exact I.
    + unfold pc_ok. cbn [set_pc p_pc set_hc r_cap r_head r_tail]. exists typ, body. split; [apply at_write_set_pc; assumption |]. cbn zeta.
      repeat split; auto; try lia. unfold pad_of. replace (rq_of body >? r_cap R - tl mod r_cap R) with true by lia. reflexivity.
  - (* PCas *)
    destruct Pc as (Ph & Pt & Pt8 & Ppd & Pf).
    pose proof (mod_range (r_cap R) tl Icap) as Htm.
    assert (Hpd0 : 0 <= padding <= r_cap R) by (subst padding; unfold pad_of; destruct (rq_of body >? r_cap R - tl mod r_cap R); lia).
    rewrite new_tail_ok in Hstep by (unfold two62, two61, two31, two30 in *; lia).
    destruct (r_tail R =? tl) eqn:Et.
    + (* success *)
      assert (Etl : r_tail R = tl) by lia. inversion Hstep; subst R' ps' e. clear Hstep.
      assert (Hfit : tl + rq_of body + padding <= hd + r_cap R) by (apply Pf; lia).
      assert (P8 : padding mod 8 = 0).
      { subst padding. unfold pad_of. destruct (rq_of body >? r_cap R - tl mod r_cap R); [| reflexivity].
        rewrite Zminus_mod, (cap_ok_mod8 _ Icap), (idx_mod8 _ _ Icap Pt8). reflexivity. }
      cbn [set_slots set_tail r_tail r_cap] in Hwin'.
      eapply (inv_cas R cs prods i ps _ (tl + rq_of body + padding) (claim_slots tl padding (rq_of body) (Z.of_nat (S i)) (Z.of_nat (p_k ps)))); try eassumption.
      * apply expect_nil_pc. rewrite Epc. exact I.
      * destruct (padding =? 0); reflexivity.
      * destruct (padding =? 0); reflexivity.
      * rewrite Etl. apply claim_slots_tiled; auto; lia.
      * unfold claim_slots. destruct (padding =? 0); discriminate.
      * intros s. unfold expect, claim_slots.
        destruct (padding =? 0) eqn:P0; cbn [set_pc p_prog p_k p_pc]; rewrite Aw1; cbn [app In].
        -- assert (padding = 0) by lia. subst padding. rewrite H. rewrite Z.add_0_r. tauto.
        -- tauto.
      * lia.
      * rewrite Z.add_mod by lia. rewrite (Z.add_mod tl) by lia. rewrite Pt8, Rqm, P8. reflexivity.
      * unfold pc_ok. destruct (padding =? 0) eqn:P0; cbn [set_pc p_pc]; exists typ, body; (split; [apply at_write_set_pc; assumption |]); cbn zeta; auto.
        cbn [set_slots set_tail r_cap]. subst padding. unfold pad_of in *.
        destruct (rq_of body >? r_cap R - tl mod r_cap R); [repeat split; auto; lia | lia].
    + inversion Hstep; subst. eapply inv_pure; try eassumption; try reflexivity; try lia.
      * apply expect_nil_pc. rewrite Epc. exact I.
      * apply expect_set_pc_nil. exact I.
      * unfold pc_ok. cbn [set_pc p_pc]. exists typ, body. split; [apply at_write_set_pc; assumption |]. cbn zeta. lia.
  - (* PPadHdr *)
    destruct Pc as (Pp0 & Ppd & Pt8).
    inversion Hstep; subst R' ps' e. clear Hstep.
    set (s0 := mkSlot tl padding 0 0 [] (Z.of_nat (S i)) (- 1 - Z.of_nat (p_k ps))).
    assert (Hin0 : In s0 (expect (Z.of_nat (S i)) ps)) by (unfold expect; rewrite Aw1, Epc; left; reflexivity).
    pose proof (tiled_range _ _ _ _ Itl) as Rg. rewrite Forall_forall in Rg. destruct (Rg s0 (Pex s0 Hin0)) as (_ & _ & G0).
    assert (G1 : geo (r_cap R) (set_hdr padding PAD s0)) by exact G0.
    apply (inv_store R cs prods i ps (set_pc ps (PHdr (tl + padding))) s0 (set_hdr padding PAD) HI Hi Hin0 eq_refl eq_refl G1 eq_refl (le_n _)).
    + intros s. unfold expect. cbn [set_pc p_prog p_k p_pc]. rewrite Aw1, Epc. cbn [In]. intros [<- | []].
      right. split; [right; left; reflexivity |]. unfold s0. intro Eq. inversion Eq. lia.
    + intros s. unfold expect at 1. rewrite Aw1, Epc. cbn [In]. intros [<- | [<- | []]] Hne; [exfalso; apply Hne; reflexivity |].
      unfold expect. cbn [set_pc p_prog p_k p_pc]. rewrite Aw1. left. reflexivity.
    + left. unfold committed, set_hdr, s0. cbn [s_pos s_span s_len s_type s_body s_seq s_owner].
      split; [lia |]. left. split; [reflexivity |]. split; [| lia].
      symmetry. apply align8_id. destruct G0 as (_ & _ & _ & G08 & _). exact G08.
    + unfold pc_ok. cbn [set_pc p_pc]. exists typ, body. split; [apply at_write_set_pc; assumption | exact I].
  - (* PHdr *)
    inversion Hstep; subst R' ps' e. clear Hstep.
    set (s0 := mkSlot p (rq_of body) 0 0 [] (Z.of_nat (S i)) (Z.of_nat (p_k ps))).
    assert (Hin0 : In s0 (expect (Z.of_nat (S i)) ps)) by (unfold expect; rewrite Aw1, Epc; left; reflexivity).
    pose proof (tiled_range _ _ _ _ Itl) as Rg. rewrite Forall_forall in Rg. destruct (Rg s0 (Pex s0 Hin0)) as (_ & _ & G0).
    assert (G1 : geo (r_cap R) (set_hdr (- rl_of body) typ s0)) by exact G0.
    apply (inv_store R cs prods i ps (set_pc ps (PCopy p)) s0 (set_hdr (- rl_of body) typ) HI Hi Hin0 eq_refl eq_refl G1 eq_refl (le_n _)).
    + intros s. unfold expect. cbn [set_pc p_prog p_k p_pc]. rewrite Aw1. cbn [In]. intros [<- | []]. left. reflexivity.
    + intros s. unfold expect at 1. rewrite Aw1, Epc. cbn [In]. intros [<- | []] Hne. exfalso; apply Hne; reflexivity.
    + right. unfold expect. cbn [set_pc p_prog p_k p_pc]. rewrite Aw1. left. reflexivity.
    + unfold pc_ok. cbn [set_pc p_pc]. exists typ, body. split; [apply at_write_set_pc; assumption | exact I].
  - (* PCopy *)
    inversion Hstep; subst R' ps' e. clear Hstep.
    set (s0 := mkSlot p (rq_of body) (- rl_of body) typ [] (Z.of_nat (S i)) (Z.of_nat (p_k ps))).
    assert (Hin0 : In s0 (expect (Z.of_nat (S i)) ps)) by (unfold expect; rewrite Aw1, Epc; left; reflexivity).
    pose proof (tiled_range _ _ _ _ Itl) as Rg. rewrite Forall_forall in Rg. destruct (Rg s0 (Pex s0 Hin0)) as (_ & _ & G0).
    assert (G1 : geo (r_cap R) (set_body body s0)).
    { eapply geo_same_shape; [exact G0 | reflexivity | reflexivity |]. cbn [set_body s0 s_body s_span]. lia. }
    apply (inv_store R cs prods i ps (set_pc ps (PCommit p)) s0 (set_body body) HI Hi Hin0 eq_refl eq_refl G1 eq_refl (le_n _)).
    + intros s. unfold expect. cbn [set_pc p_prog p_k p_pc]. rewrite Aw1. cbn [In]. intros [<- | []]. left. reflexivity.
    + intros s. unfold expect at 1. rewrite Aw1, Epc. cbn [In]. intros [<- | []] Hne. exfalso; apply Hne; reflexivity.
    + right. unfold expect. cbn [set_pc p_prog p_k p_pc]. rewrite Aw1. left. reflexivity.
    + unfold pc_ok. cbn [set_pc p_pc]. exists typ, body. split; [apply at_write_set_pc; assumption | exact I].
  - (* PCommit *)
    inversion Hstep; subst R' ps' e. clear Hstep.
    set (s0 := mkSlot p (rq_of body) (- rl_of body) typ body (Z.of_nat (S i)) (Z.of_nat (p_k ps))).
    assert (Hin0 : In s0 (expect (Z.of_nat (S i)) ps)) by (unfold expect; rewrite Aw1, Epc; left; reflexivity).
    pose proof (tiled_range _ _ _ _ Itl) as Rg. rewrite Forall_forall in Rg. destruct (Rg s0 (Pex s0 Hin0)) as (_ & _ & G0).
    assert (G1 : geo (r_cap R) (set_len (rl_of body) s0)) by exact G0.
    destruct (finish_ok R ps (Ok 0) Pw) as (A & B & C & D).
    apply (inv_store R cs prods i ps (finish (r_cap R) ps (Ok 0)) s0 (set_len (rl_of body)) HI Hi Hin0 eq_refl eq_refl G1 B ltac:(lia)).
    + intros s. rewrite D. intros [].
    + intros s. unfold expect at 1. rewrite Aw1, Epc. cbn [In]. intros [<- | []] Hne. exfalso; apply Hne; reflexivity.
    + left. unfold committed, set_len, s0. cbn [s_pos s_span s_len s_type s_body s_seq s_owner].
      split; [unfold rl_of; lia |]. right. right. exists i, (finish (r_cap R) ps (Ok 0)).
      rewrite (nth_set_nth_eq _ _ _ _ Hi). rewrite B. rewrite Nat2Z.id. repeat split; auto; lia.
    + eapply pc_ok_mono; [| | | exact A]; cbn [set_slots r_cap r_head r_tail]; lia.
Qed.


(* ================================================================== consumer steps *)
Lemma span_sum_app a b : span_sum (a ++ b) = span_sum a + span_sum b.
Proof. induction a; cbn [app span_sum]; lia. Qed.

Lemma msgs_of_app a b : msgs_of (a ++ b) = msgs_of a ++ msgs_of b.
Proof. unfold msgs_of. rewrite filter_app, map_app. reflexivity. Qed.

Lemma tiled_split_sum cp h t a b : tiled cp h t (a ++ b) -> tiled cp h (h + span_sum a) a /\ tiled cp (h + span_sum a) t b.
Proof. revert h. induction a as [| s a IH]; intros h T; cbn [app span_sum] in *.
  - rewrite Z.add_0_r. split; [constructor | assumption].
  - inversion T as [| h0 t0 s0 sl0 Hp G T2]; subst. destruct (IH _ T2) as (A & B).
    replace (s_pos s + (s_span s + span_sum a)) with (s_pos s + s_span s + span_sum a) by lia.
    split; [constructor; auto | assumption]. Qed.

Lemma tiled_start_mod8 cp h t sl : tiled cp h t sl -> t mod 8 = 0 -> h mod 8 = 0.
Proof. destruct 1 as [| h t s sl Hp G T]; intros; [assumption |]. destruct G as (_ & G8 & _). congruence. Qed.

Lemma committed_shape cp prods s : geo cp s -> committed cp prods s ->
  0 < s_len s /\ s_span s = align (s_len s) 8 /\
  ((s_type s = PAD /\ is_rec s = false) \/
   (valid_cmd (s_type s) = true /\ is_rec s = true /\ s_len s = Z.of_nat (length (s_body s)) + 8)).
Proof. intros (_ & _ & _ & Gs8 & _) (Hl & [(A & B & E) | [(A & B & C & F & G) | (i & ps & A & B & C & D & E & F & G & H)]]).
  - split; [assumption |]. split; [assumption |].
    left. split; [assumption |]. unfold is_rec. lia.
  - split; [assumption |]. split; [rewrite G, F; reflexivity |]. right. split; [assumption |]. split; [unfold is_rec; lia |].
    rewrite F. reflexivity.
  - split; [assumption |]. split; [rewrite G, F; reflexivity |]. right. split; [assumption |]. split; [unfold is_rec; lia |].
    rewrite F. reflexivity. Qed.

(* looking up the slot in front of the consumer *)
Lemma used_below cp h t used rest : tiled cp h t (used ++ rest) ->
  Forall (fun x => s_pos x + s_span x <= h + span_sum used) used.
Proof. intros T. destruct (tiled_split_sum _ _ _ _ _ T) as (A & _).
  pose proof (tiled_range _ _ _ _ A) as R. eapply Forall_impl; [| exact R]. cbn. intros a (_ & Ha & _). lia. Qed.

Lemma front_none cp h t used : tiled cp h t (used ++ []) -> pos_word (used ++ []) (h + span_sum used) = 0.
Proof. intros T. unfold pos_word. rewrite find_slot_none; [reflexivity |].
  pose proof (used_below _ _ _ _ _ T) as F. rewrite app_nil_r. exact F. Qed.

Lemma front_some cp h t used s rest : tiled cp h t (used ++ s :: rest) ->
  s_pos s = h + span_sum used /\
  pos_word (used ++ s :: rest) (h + span_sum used) = s_len s /\
  pos_word (used ++ s :: rest) (h + span_sum used + 4) = s_type s /\
  find_slot (used ++ s :: rest) (h + span_sum used) = Some s.
Proof. intros T. destruct (tiled_split_sum _ _ _ _ _ T) as (_ & B).
  inversion B as [| h0 t0 s0 sl0 Hp G T2]; subst. pose proof (used_below _ _ _ _ _ T) as F.
  destruct G as (_ & _ & Gs & _). rewrite <- Hp in F |- *.
  split; [reflexivity |]. split; [apply pos_word_len; [assumption | lia] |].
  split; [apply pos_word_type; [assumption | lia] |]. apply find_slot_skip; [assumption | lia]. Qed.


Lemma inv_cons_pure R cs cs' prods :
  Inv (mkCfg R cs prods) -> head' R cs' = head' R cs -> cons_ok R prods cs' -> Inv (mkCfg R cs' prods).
Proof. intros [Icap Ilo Ihc Ih8 It8 Ihh Itl Isz Iwin Isl Ipr Ics] Eh Hc. cbn [g_ring g_cons g_prods] in *.
  constructor; cbn [g_ring g_cons g_prods]; rewrite ?Eh; auto. Qed.

Lemma finish_read_ok R prods cs n acc : cons_ok R prods (finish_read cs n acc) /\ head' R (finish_read cs n acc) = r_head R.
Proof. unfold finish_read, cons_ok, head', has_limit. cbn [c_pc c_limits c_k].
  destruct (nth_error (c_limits cs) (S (c_k cs))) as [z |] eqn:E; split; auto. exists z. reflexivity. Qed.

Lemma has_limit_set cs pc : has_limit cs -> has_limit (cset_pc cs pc).
Proof. unfold has_limit. cbn [cset_pc c_limits c_k]. auto. Qed.

(* the loop test after `used` has been walked over *)
Lemma after_loop_ok m R prods cs limit bytes used :
  cap_ok (r_cap R) -> has_limit cs -> used_ok R prods bytes used -> 0 <= bytes ->
  let acc := msgs_of used in
  let msgs := Z.of_nat (length acc) in
  forall cs', (cs' = loop_check m (r_cap R) limit cs (r_head R) bytes msgs acc \/ cs' = loop_exit cs (r_head R) bytes msgs acc) ->
  cons_ok R prods cs' /\ head' R cs' = r_head R.
Proof. intros Hc Hl U Hb acc msgs cs' Hcs.
  assert (X : cons_ok R prods (loop_exit cs (r_head R) bytes msgs acc) /\ head' R (loop_exit cs (r_head R) bytes msgs acc) = r_head R).
  { unfold loop_exit. destruct (bytes =? 0) eqn:B; [apply finish_read_ok |].
    unfold cons_ok, head'. cbn [cset_pc c_pc]. split; [| reflexivity].
    split; [apply has_limit_set; assumption |]. split; [reflexivity |]. split; [lia |]. exists used. auto. }
  destruct Hcs as [-> | ->]; [| exact X].
  unfold loop_check. rewrite mask_idx_mod by assumption.
  pose proof (mod_range (r_cap R) (r_head R) Hc). pose proof (cap_ok_range _ Hc).
  unfold sub32. rewrite chk32_ok by (apply in_i32_small; unfold two31, two30 in *; lia).
  destruct ((bytes <? r_cap R - r_head R mod r_cap R) && (msgs <? limit)); [| exact X].
  unfold cons_ok, head'. cbn [cset_pc c_pc]. split; [| reflexivity].
  split; [apply has_limit_set; assumption |]. split; [reflexivity |]. exists used. auto. Qed.

Lemma span_sum_nonneg cp h t sl : tiled cp h t sl -> 0 <= span_sum sl.
Proof. induction 1; cbn [span_sum]; [lia |]. destruct H0 as (_ & _ & ? & _). lia. Qed.

Lemma pos_bytes_committed pre s suf : Forall (fun x => s_pos x + s_span x <= s_pos s) pre ->
  s_len s = Z.of_nat (length (s_body s)) + 8 -> s_span s = align (s_len s) 8 ->
  pos_bytes (pre ++ s :: suf) (s_pos s + HL) (s_len s - HL) = s_body s.
Proof. intros F Hlen Hs. rewrite HL_eq. rewrite Hlen.
  replace (Z.of_nat (length (s_body s)) + 8 - 8) with (Z.of_nat (length (s_body s))) by lia.
  unfold pos_bytes. rewrite !Nat2Z.id.
  destruct (s_body s) as [| b bs] eqn:B.
  - cbn [length firstn]. destruct (find_slot (pre ++ s :: suf) (s_pos s + 8)); reflexivity.
  - rewrite find_slot_skip; auto.
    + rewrite HL_eq. replace (s_pos s + 8 - s_pos s - 8) with 0 by lia. cbn [Z.to_nat skipn].
      rewrite B. rewrite firstn_app. rewrite Nat.sub_diag. cbn [firstn]. rewrite app_nil_r. apply firstn_all.
    + pose proof (align8_bounds (s_len s)). rewrite Hlen in *. cbn [length] in *. lia. Qed.

Lemma filter_len_le {A} (f : A -> bool) (l : list A) : (length (filter f l) <= length l)%nat.
Proof. induction l as [| a l IH]; cbn [filter length]; [lia |]. destruct (f a); cbn [length]; lia. Qed.

Lemma tiled_len8 cp h t sl : tiled cp h t sl -> 8 * Z.of_nat (length sl) <= span_sum sl.
Proof. induction 1; cbn [length span_sum]; [lia |]. destruct H0 as (_ & _ & ? & _). lia. Qed.

Lemma cstep_inv m cfg R' cs' e :
  Inv cfg -> cstep m (g_ring cfg) (g_cons cfg) = (R', cs', Some e) ->
  Inv (mkCfg R' cs' (g_prods cfg)).
Proof.
  intros HI Hstep. destruct cfg as [R cs prods]. cbn [g_ring g_cons g_prods] in *.
  pose proof HI as [Icap Ilo Ihc Ih8 It8 Ihh Itl Isz Iwin Isl Ipr Ics]. cbn [g_ring g_cons g_prods] in *.
  pose proof (cap_ok_range _ Icap) as Hcr.
  unfold cstep in Hstep. unfold cons_ok in Ics.
  destruct (c_pc cs) eqn:Epc; try (inversion Hstep; fail); try contradiction.
  - (* CReadHead *)
    destruct Ics as (limit & El). rewrite El in Hstep. inversion Hstep; subst R' cs' e. clear Hstep.
    assert (U : used_ok R prods 0 []) by (split; [exists (r_slots R); reflexivity | split; [constructor | reflexivity]]).
    destruct (after_loop_ok m R prods cs limit 0 [] Icap ltac:(exists limit; assumption) U ltac:(lia) _ (or_introl eq_refl)) as (A & B).
    apply (inv_cons_pure R cs _ prods HI); [transitivity (r_head R); [exact B | unfold head'; rewrite Epc; reflexivity] | exact A].
  - (* CReadHdr *)
    destruct Ics as ((limit & El) & Ehd & used & U & Eacc & Emsgs). rewrite El in Hstep. subst hd.
    pose proof U as ((rest & Es) & Uc & Us).
    assert (Hh' : head' R cs = r_head R) by (unfold head'; rewrite Epc; reflexivity).
    rewrite Hh' in Itl, Ihh. rewrite Es in Itl.
    pose proof (span_sum_nonneg _ _ _ _ (proj1 (tiled_split_sum _ _ _ _ _ Itl))) as Hb0. rewrite Us in Hb0.
    assert (EXIT : forall cs0, cs0 = loop_exit cs (r_head R) bytes msgs acc -> Inv (mkCfg R cs0 prods)).
    { intros cs0 ->. subst acc msgs.
      destruct (after_loop_ok m R prods cs limit bytes used Icap ltac:(exists limit; assumption) U Hb0 _ (or_intror eq_refl)) as (A & B).
      apply (inv_cons_pure R cs _ prods HI); [transitivity (r_head R); [exact B | symmetry; exact Hh'] | exact A]. }
    destruct rest as [| s rest].
    + (* nothing in front of the consumer: the header word is zero *)
      rewrite Es in Hstep. rewrite <- Us in Hstep. rewrite (front_none _ _ _ _ Itl) in Hstep.
      cbn [Z.leb Z.compare] in Hstep. inversion Hstep; subst R' cs' e. apply EXIT. rewrite Us. reflexivity.
    + destruct (front_some _ _ _ _ _ _ Itl) as (Hp & Hlen & Hty & Hfind).
      rewrite Es in Hstep. rewrite <- Us in Hstep. rewrite Hlen, Hty in Hstep.
      rewrite Es in Isl. apply Forall_app in Isl. destruct Isl as (_ & Isl2). inversion Isl2 as [| a l Hs _]; subst a l.
      pose proof (tiled_range _ _ _ _ Itl) as Rg. rewrite Forall_forall in Rg.
      destruct (Rg s ltac:(apply in_or_app; right; left; reflexivity)) as (Rs1 & Rs2 & Gs).
      destruct Hs as [Cm | (j & q & Hj & Hin)].
      * (* committed *)
        destruct (committed_shape _ _ _ Gs Cm) as (Hl & Hsp & Hk).
        replace (s_len s <=? 0) with false in Hstep by lia.
        assert (Hlb : s_len s <= s_span s) by (rewrite Hsp; apply align8_bounds).
        pose proof Gs as (_ & _ & Gs8 & _ & Gstr & _). pose proof (mod_range (r_cap R) (s_pos s) Icap).
        rewrite ralign_ok in Hstep by (unfold two30 in *; lia). cbn [bind] in Hstep. rewrite <- Hsp in Hstep.
        unfold add32 in Hstep at 1. rewrite chk32_ok in Hstep by (apply in_i32_small; unfold two31, two30 in *; lia).
        assert (U2 : used_ok R prods (bytes + s_span s) (used ++ [s])).
        { split; [exists rest; rewrite Es, <- app_assoc; reflexivity |]. split; [apply Forall_app; split; [assumption | constructor; [assumption | constructor]] |].
          rewrite span_sum_app. cbn [span_sum]. lia. }
        destruct Hk as [(Kt & Kr) | (Kv & Kr & Kl)].
        -- (* padding *)
           rewrite Kt in Hstep. rewrite Z.eqb_refl in Hstep. inversion Hstep; subst R' cs' e. clear Hstep.
           assert (Eacc2 : msgs_of (used ++ [s]) = acc).
           { rewrite msgs_of_app. unfold msgs_of at 2. cbn [filter]. rewrite Kr. cbn [map]. rewrite app_nil_r. auto. }
           assert (Em : msgs = Z.of_nat (length (msgs_of (used ++ [s])))) by (rewrite Eacc2; assumption).
           rewrite Em. rewrite <- Eacc2.
           destruct (after_loop_ok m R prods cs limit (span_sum used + s_span s) (used ++ [s]) Icap ltac:(exists limit; assumption)
                       ltac:(rewrite Us; exact U2) ltac:(lia) _ (or_introl eq_refl)) as (A & B).
           apply (inv_cons_pure R cs _ prods HI); [transitivity (r_head R); [exact B | symmetry; exact Hh'] | exact A].
        -- (* a command *)
           rewrite (valid_cmd_not_pad _ Kv) in Hstep. rewrite Kv in Hstep.
           assert (Hmsg : 0 <= msgs <= two30).
           { subst msgs acc. unfold msgs_of. rewrite map_length.
             pose proof (filter_len_le is_rec used).
             pose proof (tiled_len8 _ _ _ _ (proj1 (tiled_split_sum _ _ _ _ _ Itl))).
             unfold two30 in *. lia. }
           unfold add32 in Hstep. rewrite chk32_ok in Hstep by (apply in_i32_small; unfold two31, two30 in *; lia).
           inversion Hstep; subst R' cs' e. clear Hstep.
           apply (inv_cons_pure R cs _ prods HI); [rewrite Hh'; unfold head'; cbn [cset_pc c_pc]; reflexivity |].
           unfold cons_ok. cbn [cset_pc c_pc]. split; [apply has_limit_set; exists limit; assumption |]. split; [reflexivity |].
           exists used, s. rewrite Us. split; [exact U2 |]. repeat split; auto; lia.
      * (* still being written: the length word is not positive *)
        destruct (expect_owner _ _ _ Hin) as (_ & Hl0).
        replace (s_len s <=? 0) with true in Hstep by lia.
        inversion Hstep; subst R' cs' e. apply EXIT. rewrite Us. reflexivity.
  - (* CHandler *)
    destruct Ics as ((limit & El) & Ehd & used & s & U & Eacc & Emsgs & Hp & Hlen & Hty & Hrec). rewrite El in Hstep. subst hd.
    pose proof U as ((rest & Es) & Uc & Us).
    assert (Hh' : head' R cs = r_head R) by (unfold head'; rewrite Epc; reflexivity).
    rewrite Hh' in Itl, Ihh. rewrite Es in Itl. rewrite <- app_assoc in Itl. cbn [app] in Itl.
    destruct (front_some _ _ _ _ _ _ Itl) as (Hp2 & _ & _ & Hfind).
    apply Forall_app in Uc. destruct Uc as (Uc1 & Uc2). inversion Uc2 as [| a l Cm _]; subst a l.
    pose proof (tiled_range _ _ _ _ Itl) as Rg. rewrite Forall_forall in Rg.
    destruct (Rg s ltac:(apply in_or_app; right; left; reflexivity)) as (_ & _ & Gs).
    destruct (committed_shape _ _ _ Gs Cm) as (Hl & Hsp & [(_ & Kr) | (Kv & _ & Kl)]); [congruence |].
    unfold tag_at in Hstep. rewrite Es in Hstep. rewrite <- app_assoc in Hstep. cbn [app] in Hstep.
    rewrite <- Hp, Hp2 in Hstep. rewrite Hfind in Hstep.
    rewrite <- Hp2 in Hstep. rewrite <- Hlen in Hstep.
    rewrite (pos_bytes_committed used s rest) in Hstep; auto.
    2: { pose proof (used_below _ _ _ _ _ Itl) as F. rewrite <- Hp2 in F. exact F. }
    inversion Hstep; subst R' cs' e. clear Hstep.
    assert (Eacc2 : msgs_of (used ++ [s]) = acc ++ [(s_owner s, s_seq s, s_type s, s_body s)]).
    { rewrite msgs_of_app. unfold msgs_of at 2. cbn [filter]. rewrite Hrec. cbn [map]. subst acc. reflexivity. }
    assert (Hb0 : 0 <= bytes).
    { rewrite <- Us. rewrite <- (app_nil_r (used ++ [s])). eapply span_sum_nonneg.
      rewrite app_nil_r. rewrite Es in *. 
      destruct (tiled_split_sum (r_cap R) (r_head R) (r_tail R) (used ++ [s]) rest) as (A & _); [rewrite <- app_assoc; exact Itl | exact A]. }
    rewrite <- Hty. rewrite <- Eacc2.
    assert (Em2 : msgs = Z.of_nat (length (msgs_of (used ++ [s])))) by (rewrite Eacc2, app_length; cbn [length]; lia).
    rewrite Em2.
    destruct (after_loop_ok m R prods cs limit bytes (used ++ [s]) Icap ltac:(exists limit; assumption) U Hb0 _ (or_introl eq_refl)) as (A & B).
    apply (inv_cons_pure R cs _ prods HI); [transitivity (r_head R); [exact B | symmetry; exact Hh'] | exact A].
  - (* CZero *)
    destruct Ics as ((limit & El) & Ehd & Hb & used & U & Eacc). rewrite El in Hstep. subst hd.
    pose proof U as ((rest & Es) & Uc & Us).
    assert (Hh' : head' R cs = r_head R) by (unfold head'; rewrite Epc; reflexivity).
    rewrite Hh' in Itl, Ihh.
    inversion Hstep; subst R' cs' e. clear Hstep.
    rewrite Es in Itl. destruct (tiled_split_sum _ _ _ _ _ Itl) as (T1 & T2). rewrite Us in T1, T2.
    assert (Ef : filter (fun s => negb (consumed (r_head R) bytes s)) (r_slots R) = rest).
    { rewrite Es. apply filter_consumed.
      - pose proof (tiled_range _ _ _ _ T1) as R1. eapply Forall_impl; [| exact R1]. cbn. intros a (A1 & A2 & (_ & _ & A3 & _)). lia.
      - pose proof (tiled_range _ _ _ _ T2) as R2. eapply Forall_impl; [| exact R2]. cbn. intros a (A1 & _). lia. }
    rewrite Ef.
    constructor; cbn [g_ring g_cons g_prods set_slots r_cap r_head r_tail r_hc r_slots]; auto;
      try (unfold head'; cbn [cset_pc c_pc]); try lia; auto.
    + rewrite Es in Isl. apply Forall_app in Isl. tauto.
    + intros j q Hj. destruct (Ipr j q Hj) as (A & B & C). split; [| split; [assumption |]].
      * eapply pc_ok_mono; [| | | exact A]; cbn [set_slots r_cap r_head r_tail]; lia.
      * intros x Hx. cbn [set_slots r_slots]. specialize (C x Hx). rewrite Es in C. apply in_app_or in C. destruct C as [C | C]; [| assumption].
        rewrite Forall_forall in Uc. pose proof (committed_len _ _ _ (Uc x C)). destruct (expect_owner _ _ _ Hx). lia.
    + unfold cons_ok. cbn [cset_pc c_pc set_slots r_head]. split; [apply has_limit_set; exists limit; assumption |]. split; [reflexivity | lia].
  - (* CPutHead *)
    destruct Ics as ((limit & El) & Ehd & Hb). rewrite El in Hstep. subst hd.
    assert (Hh' : head' R cs = r_head R + bytes) by (unfold head'; rewrite Epc; reflexivity).
    rewrite Hh' in Itl, Ihh.
    inversion Hstep; subst R' cs' e. clear Hstep.
    destruct (finish_read_ok (set_head R (r_head R + bytes)) prods cs msgs acc) as (A & B).
    pose proof (tiled_le _ _ _ _ Itl) as Hle.
    constructor; cbn [g_ring g_cons g_prods]; rewrite ?B; cbn [set_head r_cap r_head r_tail r_hc r_slots]; auto; try lia.
    + eapply tiled_start_mod8; eassumption.
    + intros j q Hj. destruct (Ipr j q Hj) as (A1 & B1 & C1). split; [| split; [assumption | exact C1]].
      eapply pc_ok_mono; [| | | exact A1]; cbn [set_head r_cap r_head r_tail]; lia.
Qed.

End Invariant.
