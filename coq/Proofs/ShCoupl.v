(* C03, shared publishers + Image::poll subscriber: the coupling between the ghost state of the frame discipline and the
   invariant Inv3, and what is known about a publisher that is writing a frame. *)
Require Import V.Base.MachineInt.
Require Import V.Generated.GenConsts.
Require Import V.Generated.GenOrdering.
Require Import V.Model.LogBase.
Require Import V.Model.Descriptor.
Require Import V.Proofs.DescriptorProofs.
Require Import V.Model.Sched.
Require Import V.Model.AppenderThreads.
Require Import V.Model.ReaderThreads.
Require Import V.Oracle.C03Oracle.
Require Import V.Proofs.OrderingProofs.
Require Import V.Proofs.TailArith.
Require Import V.Proofs.FragArith.
Require Import V.Proofs.AppenderInv.
Require Import V.Proofs.AppenderLemmas.
Require Import V.Proofs.AppenderFrame.
Require Import V.Proofs.AppenderSteps.
Require Import V.Proofs.AppenderFaa.
Require Import V.Proofs.AppenderRotate.
Require Import V.Proofs.AppenderSystem.
Require Import V.Proofs.C02Proofs.
Require Import V.Proofs.C02Quiescent.
Require Import V.Proofs.ReaderInv.
Require Import V.Proofs.C03Proofs.
Require Import V.Proofs.ReaderHb.
Require Import V.Proofs.RaceFold V.Proofs.RaceDisc V.Proofs.RaceFree.
Require Import V.Proofs.ExclDefs V.Proofs.ExclPub1 V.Proofs.ExclEv.
Require Import V.Proofs.ShGeom V.Proofs.ShEv.
From Coq Require Import ZifyBool.
Open Scope Z_scope.

Section SC.
  Variable c : cfg.
  Hypothesis W : wf_cfg c.

  (* the runs covered: no partition is used by two generations (the driver has cleaned nothing, so nothing may be reused) *)
  Definition gens_ok (s : shared) : Prop := forall p, 0 <= p < 3 -> tg c s p <= c_n0 c + 2.

  Inductive reach3t : shared -> (nat -> rthread) -> ghost -> list event -> Prop :=
  | reach3t_init limit th :
      (forall t, init_thread3 (th t)) -> (forall t t' l l', th t = RRd l -> th t' = RRd l' -> t = t') ->
      reach3t (init_shared c limit) th ghost0 []
  | reach3t_step s th gh tr t s' x' e :
      reach3t s th gh tr -> adm3 c s gh th t -> no_clean (th t) -> gens_ok s -> rtstep c t s (th t) = Some (s', x', e) ->
      reach3t s' (upd_thread th t x') (gstep3 c t s (th t) gh) (tr ++ [e]).

  Lemma reach3t_reach3 s th gh tr : reach3t s th gh tr -> reach3 c s th gh.
  Proof. induction 1; [apply reach3_init; assumption | eapply reach3_step; eauto]. Qed.

  Lemma reach3t_nc s th gh tr : reach3t s th gh tr -> forall g, g_cleaned gh g = false.
  Proof. induction 1 as [| s th gh tr t s' x' e Hr IH Ha Hn Hg Hs]; [reflexivity|]. intros g. unfold gstep3.
    destruct (th t) as [[l | l |] | l]; try apply IH.
    - unfold sys_gstep, gstep_pub. destruct (p_pc l); apply IH.
    - unfold sys_gstep. cbn in Hn. destruct (e_ops l) as [|[v | p] r]; try apply IH. destruct Hn. Qed.

  Definition wfront (l : plocal) : Z := if padding (p_pc l) then f_off l else p_foff l.

  Lemma pa_front l k p o : pub_access l = (k, p, o) -> k <> WNone ->
    p = AppenderThreads.r_idx l /\ o = wfront l /\ (writing (p_pc l) = true \/ padding (p_pc l) = true).
  Proof. unfold pub_access, wfront. destruct (p_pc l); intros H Hk; inversion H; subst; try congruence; cbn; auto. Qed.

  Lemma pa_kind l : (writing (p_pc l) = true \/ padding (p_pc l) = true) ->
    exists k, pub_access l = (k, AppenderThreads.r_idx l, wfront l) /\ k <> WNone.
  Proof. unfold pub_access, wfront. destruct (p_pc l); intros [H | H]; try discriminate H; cbn; eexists; (split; [reflexivity | discriminate]). Qed.

  (* what the invariant says about a publisher inside a frame *)
  Lemma writer_facts s gh P t l : AppInv c s gh P -> P t = Some l -> (writing (p_pc l) = true \/ padding (p_pc l) = true) ->
    live c s gh (p_count l) /\ AppenderThreads.r_idx l = p_count l mod 3 /\ 0 <= p_count l mod 3 < 3 /\ c_n0 c <= p_count l /\
    In (my_entry c t l) (g_claims gh (p_count l)) /\
    (exists sl, In (wfront l, sl) (efrags c (p_count l) (my_entry c t l)) /\ s_len sl = slot_len c l) /\
    (writing (p_pc l) = true -> 0 <= p_rem l) /\ (padding (p_pc l) = true -> 32 <= TL c - f_off l).
  Proof. intros I HP Hwp. pose proof (iv_thr c s gh P I t l HP) as HT. pose proof (iv_A c s gh P I) as A.
    assert (A1 : after_count (p_pc l) = true) by (destruct Hwp as [H | H]; destruct (p_pc l); try discriminate; reflexivity).
    destruct (idx_of_count c W s gh t l A HT A1) as (Hidx & Hr & _).
    unfold wfront, slot_len. destruct (writing (p_pc l)) eqn:Ew.
    - assert (Ep : padding (p_pc l) = false) by (destruct (p_pc l); try discriminate; reflexivity). rewrite Ep.
      destruct (wr_clauses c s gh t l HT Ew) as (C1 & _ & (_ & _ & _ & Hin) & L & _ & Wr).
      split; [assumption|]. split; [assumption|]. split; [assumption|]. split; [lia|]. split; [assumption|].
      destruct Wr as (R0 & done & Hsplit & _). destruct (rest_frags_cons c W l) as (r & Hrest).
      split; [|split; [intros _; assumption | intros; discriminate]].
      eexists. split; [rewrite Hsplit, Hrest; apply in_or_app; right; left; reflexivity | reflexivity].
    - destruct Hwp as [H | Ep]; [discriminate|]. rewrite Ep.
      destruct (pad_clauses c s gh t l HT Ep) as (C1 & _ & (_ & _ & _ & Hin) & L & B & _).
      pose proof (pad_efrags c t l B) as Hef.
      split; [assumption|]. split; [assumption|]. split; [assumption|]. split; [lia|]. split; [assumption|].
      assert (Hx : In (f_off l, pd4 c (tid_of c (p_count l)) (f_off l)) (efrags c (p_count l) (my_entry c t l))) by (rewrite Hef; left; reflexivity).
      split; [eexists; split; [exact Hx | reflexivity]|]. split; [intros; discriminate|]. intros _.
      destruct (iv_ent c s gh P I _ _ Hin) as (_ & Ha & Ham & _). pose proof (efrags_len c W _ _ _ _ Ha Ham Hx) as Hl. cbn in Hl. exact Hl. Qed.

  (* the discipline's ghost state vs. the invariant's *)
  Record SCoupl (dg : dghost) (s : shared) (gh : ghost) (th : nat -> rthread) : Prop := {
    k_slot : forall p o d, dg_slot dg p o = Some d -> 0 <= p < 3 /\
               exists e sl, In e (g_claims gh (pgen c p)) /\ In (o, sl) (efrags c (pgen c p) e) /\ ds_ext d = align (s_len sl) FA /\
                            ds_ow d = e_t e /\ (ds_com d = true <-> 0 < s_len (sh_mem s p o));
    k_nz : forall p o d, dg_slot dg p o = Some d -> s_len (sh_mem s p o) <> 0;
    k_com : forall p o, 0 <= p < 3 -> 0 < s_len (sh_mem s p o) -> dg_slot dg p o <> None;
    k_wr : forall t l k p o, th t = RApp (TPub l) -> pub_access l = (k, p, o) -> k = WBurst \/ k = WCommit ->
               exists d, dg_slot dg p o = Some d /\ ds_ow d = t /\ ds_com d = false;
    k_acq : forall p oa, dg_acq dg p oa = true -> 0 <= p < 3 /\ 0 <= oa /\
               (forall hi, chain (base c (pgen c p)) (g_claims gh (pgen c p)) hi -> oa <= hi) /\
               (forall e o sl, In e (g_claims gh (pgen c p)) -> In (o, sl) (efrags c (pgen c p) e) -> ~ (o < oa < o + align (s_len sl) FA));
    k_seen : forall t l, th t = RRd l -> on_frame (r_pc l) = true -> dg_seen dg t (rd_gen c l mod 3) (r_foff l) = true
  }.

  (* a live generation within the covered range is the generation of its partition *)
  Lemma live_pgen s gh g : gens_ok s -> live c s gh g -> c_n0 c <= g -> pgen c (g mod 3) = g.
  Proof. intros Hg (L1 & _) Hn0. apply pgen_mod. assert (Hp : 0 <= g mod 3 < 3) by (apply Z.mod_pos_bound; lia).
    specialize (Hg _ Hp). lia. Qed.
End SC.
