(* Proofs about Generated/GenSrcRing.v and Generated/GenSrcBits.v: what src/concurrent/ring_buffer.rs (and
   is_power_of_two of bit_utils.rs) says today, translated on every run by tools/props/src_translate.py.
   Each generated function / fragment is proved equal to the definition the hand-written model Model/Ring.v uses
   at that place, on the whole typed domain (stated in src_signatures).  The proofs normalise both sides
   (Proofs/SrcNorm.v, SrcNormT.v); they do not depend on how the Rust text is parenthesised or named. *)
Require Import V.Base.MachineInt V.Base.MachineInt2 V.Base.MachineIntT V.Generated.GenConsts
               V.Model.LogBase V.Model.Ring V.Proofs.SrcNorm V.Proofs.SrcNormT V.Proofs.RingArith
               V.Generated.GenDescriptor V.Proofs.GenDescriptorProofs V.Generated.GenSrcBits V.Generated.GenSrcRing.
From Coq Require Import ZifyBool String.
Open Scope Z_scope.

Ltac rconsts :=
  unfold HL, AL, PAD, TAIL_OFF, HC_OFF, HEAD_OFF, CORR_OFF, HB_OFF, TRAILER,
         GenConsts.RB_HEADER_LENGTH, GenConsts.RB_ALIGNMENT, GenConsts.RB_TRAILER_LENGTH, GenConsts.I32_SIZE,
         GenConsts.RB_TAIL_POSITION_OFFSET, GenConsts.RB_HEAD_CACHE_POSITION_OFFSET, GenConsts.RB_HEAD_POSITION_OFFSET,
         GenConsts.RB_CORRELATION_COUNTER_OFFSET, GenConsts.RB_CONSUMER_HEARTBEAT_OFFSET, GenConsts.CMD_Padding in *.

Ltac rauto := rconsts; first [ solve [srcT_auto] | solve [src_robust] ].

(* ---- record descriptor ---- *)
Lemma src_rb_length_offset_eq m o : src_rb_length_offset m o = Ok o.
Proof. reflexivity. Qed.
Lemma src_rb_type_offset_eq m o : src_rb_type_offset m o = add32 m o 4.
Proof. unfold src_rb_type_offset. rauto. Qed.
Lemma src_rb_encoded_msg_offset_eq m o : src_rb_encoded_msg_offset m o = add32 m o HL.
Proof. unfold src_rb_encoded_msg_offset. rauto. Qed.

Lemma mod32_range z : 0 <= z mod two32 < two32.
Proof. apply Z.mod_pos_bound. reflexivity. Qed.

(* make_header packs the low 32 bits of the type over the low 32 bits of the length *)
Lemma src_rb_make_header_eq m len ty : src_rb_make_header m len ty = Ok (make_header len ty).
Proof. unfold src_rb_make_header, make_header, wrapu32. srcT_norm.
  first [ rewrite pack64 by apply mod32_range | rewrite Z.lor_comm, pack64 by apply mod32_range ]. reflexivity. Qed.

Lemma src_rb_record_length_eq m h : src_rb_record_length m h = Ok (wrap32 (h mod two32)).
Proof. unfold src_rb_record_length. srcT_norm. reflexivity. Qed.

Lemma src_rb_message_type_id_eq m h : src_rb_message_type_id m h = Ok (wrap32 (h / two32)).
Proof. unfold src_rb_message_type_id. srcT_norm. reflexivity. Qed.

Lemma wrap32_mod32 z : wrap32 (z mod two32) = wrap32 z.
Proof. unfold wrap32, two31, two32.
  rewrite <- (Zplus_mod_idemp_l z). reflexivity. Qed.

Lemma wrap64_mod32 z : wrap64 z mod two32 = z mod two32.
Proof. destruct (wrap64_eqm z) as (k & ->). unfold two64, two32.
  replace (z + k * 18446744073709551616) with (z + (k * 4294967296) * 4294967296) by lia.
  apply Z_mod_plus_full. Qed.

(* what a reader decodes from a header word is what the writer packed *)
Lemma header_roundtrip m len ty : in_i32 len = true -> in_i32 ty = true ->
  (h <- src_rb_make_header m len ty ;; src_rb_record_length m h) = Ok len /\
  (h <- src_rb_make_header m len ty ;; src_rb_message_type_id m h) = Ok ty.
Proof. intros Hl Ht. rewrite src_rb_make_header_eq. cbn [bind].
  rewrite src_rb_record_length_eq, src_rb_message_type_id_eq. unfold make_header, wrapu32. split; f_equal.
  - rewrite wrap64_mod32. rewrite Z.add_comm, Z_mod_plus_full, Z.mod_mod by (unfold two32; lia).
    rewrite wrap32_mod32. apply wrap32_id; assumption.
  - pose proof (mod32_range ty) as A. pose proof (mod32_range len) as B.
    destruct (wrap64_eqm (ty mod two32 * two32 + len mod two32)) as (k & ->).
    unfold two64. replace (ty mod two32 * two32 + len mod two32 + k * 18446744073709551616)
      with (len mod two32 + (ty mod two32 + k * two32) * two32) by (unfold two32; lia).
    rewrite Z_div_plus by (unfold two32; lia). rewrite (Z.div_small (len mod two32)) by lia.
    rewrite Z.add_0_l. unfold wrap32 at 1, two31.
    replace (ty mod two32 + k * two32 + 2147483648) with ((ty mod two32 + 2147483648) + k * two32) by lia.
    rewrite Z_mod_plus_full. rewrite Zplus_mod_idemp_l. fold two31. fold (wrap32 ty). apply wrap32_id; assumption. Qed.

(* ---- checks ---- *)
Definition ok_res (r : outcome sres) : bool := match r with Ok (ROk _) => true | _ => false end.

Lemma src_rb_check_msg_type_id_eq m t :
  src_rb_check_msg_type_id m t =
  Ok (if t <? 1 then RErr "RingBufferError::NonPositiveMessageTypeId" [t] else ROk 0).
Proof. unfold src_rb_check_msg_type_id. src_robust. Qed.

Lemma src_rb_check_msg_length_eq m maxl len :
  src_rb_check_msg_length m maxl len =
  Ok (if len >? maxl then RErr "RingBufferError::MessageTooLong" [maxl; len] else ROk 0).
Proof. unfold src_rb_check_msg_length. src_robust. Qed.

(* ---- write: record length and required capacity ---- *)
Lemma src_rb_write_record_len_eq m len : src_rb_write_record_len m len = add32 m len HL.
Proof. unfold src_rb_write_record_len. rauto. Qed.

Lemma src_rb_write_required_capacity_eq m rl : src_rb_write_required_capacity m rl = ralign m rl.
Proof. unfold src_rb_write_required_capacity, ralign. rconsts.
  change (src_align m rl 8) with (src_align m rl (2 ^ 3)).
  rewrite (src_align_pow2 m rl 3) by lia. reflexivity. Qed.

(* ---- claim ---- *)
Lemma src_rb_claim_available_capacity_eq m cp tl hd :
  src_rb_claim_available_capacity m cp tl hd = avail m cp tl hd.
Proof. unfold src_rb_claim_available_capacity, avail. src_robust. Qed.

Lemma src_rb_claim_lacks_eq m cp required tl hd :
  (a <- src_rb_claim_available_capacity m cp tl hd ;; src_rb_claim_lacks m required a) = lacks m cp required tl hd.
Proof. rewrite src_rb_claim_available_capacity_eq. unfold lacks, src_rb_claim_lacks, avail. src_robust. Qed.

Lemma src_rb_claim_lacks_fresh_eq m cp required tl hd :
  src_rb_claim_lacks_fresh m cp required tl hd = lacks m cp required tl hd.
Proof. unfold src_rb_claim_lacks_fresh, lacks, avail. src_robust. Qed.

(* mask = (capacity - 1) as i64 never overflows for a capacity above i32::MIN *)
Lemma src_rb_claim_mask_eq m cp : in_i32 (cp - 1) = true -> src_rb_claim_mask m cp = Ok (cp - 1).
Proof. intros H. unfold src_rb_claim_mask. src_robust. Qed.

Lemma src_rb_claim_tail_index_eq m cp tl : in_i32 (cp - 1) = true ->
  (k <- src_rb_claim_mask m cp ;; src_rb_claim_tail_index m tl k) = Ok (mask_idx cp tl).
Proof. intros H. rewrite src_rb_claim_mask_eq by assumption. cbn [bind]. unfold src_rb_claim_tail_index, mask_idx. src_robust. Qed.

Lemma src_rb_claim_head_index_eq m cp hd : in_i32 (cp - 1) = true ->
  (k <- src_rb_claim_mask m cp ;; src_rb_claim_head_index m hd k) = Ok (mask_idx cp hd).
Proof. intros H. rewrite src_rb_claim_mask_eq by assumption. cbn [bind]. unfold src_rb_claim_head_index, mask_idx. src_robust. Qed.

Lemma src_rb_claim_wrap_needed_eq m cp required tl : in_i32 (cp - 1) = true ->
  (k <- src_rb_claim_mask m cp ;; i <- src_rb_claim_tail_index m tl k ;;
   e <- src_rb_claim_len_to_buffer_end m cp i ;; w <- src_rb_claim_wrap_needed m required e ;;
   Ok (if w : bool then Some e else None)) = wrap_needed m cp required tl.
Proof. intros H. rewrite src_rb_claim_mask_eq by assumption. cbn [bind].
  unfold src_rb_claim_tail_index, src_rb_claim_len_to_buffer_end, src_rb_claim_wrap_needed, wrap_needed, mask_idx.
  cbn [bind]. src_robust. Qed.

Lemma src_rb_claim_lacks_front_eq m cp required hd : in_i32 (cp - 1) = true ->
  (k <- src_rb_claim_mask m cp ;; i <- src_rb_claim_head_index m hd k ;; src_rb_claim_lacks_front m required i)
  = Ok (lacks_front cp required hd).
Proof. intros H. rewrite src_rb_claim_mask_eq by assumption. cbn [bind].
  unfold src_rb_claim_head_index, src_rb_claim_lacks_front, lacks_front, mask_idx. src_robust. Qed.

Lemma src_rb_claim_new_tail_eq m tl required padding :
  src_rb_claim_new_tail m tl required padding = new_tail m tl required padding.
Proof. unfold src_rb_claim_new_tail, new_tail. src_robust. Qed.

(* ---- read ---- *)
Lemma src_rb_read_head_index_eq m cp hd : in_i32 (cp - 1) = true ->
  src_rb_read_head_index m cp hd = Ok (mask_idx cp hd).
Proof. intros H. unfold src_rb_read_head_index, mask_idx. src_robust. Qed.

Lemma src_rb_read_contiguous_eq m cp hd : in_i32 (cp - 1) = true ->
  (i <- src_rb_read_head_index m cp hd ;; src_rb_read_contiguous_block_len m cp i) = sub32 m cp (mask_idx cp hd).
Proof. intros H. rewrite src_rb_read_head_index_eq by assumption. cbn [bind]. unfold src_rb_read_contiguous_block_len. src_robust. Qed.

Lemma src_rb_read_continue_eq m bytes contiguous msgs limit :
  src_rb_read_continue m bytes contiguous msgs limit = Ok ((bytes <? contiguous) && (msgs <? limit)).
Proof. unfold src_rb_read_continue. src_robust. Qed.

Lemma src_rb_read_record_index_eq m i bytes : src_rb_read_record_index m i bytes = add32 m i bytes.
Proof. unfold src_rb_read_record_index. src_robust. Qed.

Lemma src_rb_read_stop_eq m len : src_rb_read_stop m len = Ok (len <=? 0).
Proof. unfold src_rb_read_stop. src_robust. Qed.

Lemma src_rb_read_advance_eq m bytes len :
  src_rb_read_advance m bytes len = (al <- ralign m len ;; add32 m bytes al).
Proof. unfold src_rb_read_advance. rewrite <- src_rb_write_required_capacity_eq. unfold src_rb_write_required_capacity.
  apply bind_ext; intros al _. src_robust. Qed.

(* ---- size, unblock ---- *)
Lemma src_rb_size_eq m st : src_rb_size m (r_tail st) (r_head st) = size m st.
Proof. unfold src_rb_size, size. src_robust. Qed.

Lemma src_rb_unblock_indices_eq m cp hd tl : in_i32 (cp - 1) = true ->
  (k <- src_rb_claim_mask m cp ;; src_rb_unblock_consumer_index m hd k) = Ok (mask_idx cp hd) /\
  (k <- src_rb_claim_mask m cp ;; src_rb_unblock_producer_index m tl k) = Ok (mask_idx cp tl).
Proof. intros H. rewrite !src_rb_claim_mask_eq by assumption. cbn [bind].
  unfold src_rb_unblock_consumer_index, src_rb_unblock_producer_index, mask_idx. split; src_robust. Qed.

Lemma src_rb_unblock_limit_eq m cp pi ci :
  src_rb_unblock_limit m cp pi ci = Ok (if pi >? ci then pi else cp).
Proof. unfold src_rb_unblock_limit. src_robust. Qed.

(* ---- is_power_of_two, check_capacity, new ---- *)
(* x & (!x + 1) = x & -x isolates the lowest set bit *)
Lemma lnot_succ x : Z.lnot x + 1 = - x.
Proof. unfold Z.lnot. lia. Qed.

Lemma land_neg_odd u : Z.odd u = true -> Z.land u (- u) = 1.
Proof. intros Ho. apply Z.bits_inj'. intros n Hn. rewrite Z.land_spec.
  replace (- u) with (Z.lnot (u - 1)) by (unfold Z.lnot; lia).
  destruct (Z.eq_dec n 0) as [->|Hn0].
  - rewrite Z.bit0_odd, Ho. rewrite Z.lnot_spec by lia. rewrite Z.bit0_odd.
    replace (u - 1) with (Z.pred u) by lia. rewrite Z.odd_pred.
    rewrite <- Z.negb_odd, Ho. reflexivity.
  - rewrite Z.lnot_spec by lia.
    assert (E : Z.testbit (u - 1) n = Z.testbit u n).
    { assert (Hu : u = 2 * (u / 2) + 1).
      { pose proof (Z.div_mod u 2 ltac:(lia)). rewrite Zmod_odd, Ho in H. lia. }
      rewrite Hu at 1. replace (2 * (u / 2) + 1 - 1) with (2 * (u / 2)) by lia.
      rewrite Hu at 2. replace n with (Z.succ (n - 1)) by lia.
      rewrite Z.testbit_even_succ, Z.testbit_odd_succ by lia. reflexivity. }
    rewrite E, Bool.andb_negb_r. change 1 with (2 ^ 0). rewrite Z.pow2_bits_eqb by lia.
    symmetry. apply Z.eqb_neq. lia. Qed.

Lemma land_neg_pow2 k u : 0 <= k -> Z.odd u = true -> Z.land (2 ^ k * u) (- (2 ^ k * u)) = 2 ^ k.
Proof. intros Hk Ho. replace (- (2 ^ k * u)) with (2 ^ k * (- u)) by lia.
  rewrite !(Z.mul_comm (2 ^ k)), <- !Z.shiftl_mul_pow2 by assumption.
  rewrite <- Z.shiftl_land, land_neg_odd by assumption. rewrite Z.shiftl_mul_pow2 by assumption. lia. Qed.

(* every positive number is an odd number times a power of two *)
Lemma pos_odd_pow2 p : exists k u, 0 <= k /\ Z.odd u = true /\ 0 < u /\ Zpos p = 2 ^ k * u.
Proof. induction p as [p IH|p IH|].
  - exists 0, (Zpos p~1). repeat split; lia.
  - destruct IH as (k & u & Hk & Ho & Hu & E). exists (k + 1), u. repeat split; try lia; try assumption.
    rewrite Z.pow_add_r by lia. change (Zpos p~0) with (2 * Zpos p). rewrite E. change (2 ^ 1) with 2. lia.
  - exists 0, 1. repeat split; lia. Qed.

Lemma pow2_odd_unique k u j : 0 <= k -> 0 <= j -> 0 < u -> Z.odd u = true -> 2 ^ k * u = 2 ^ j -> u = 1.
Proof. intros Hk Hj Hu Ho E.
  destruct (Z.lt_trichotomy j k) as [L|[->|G]].
  - exfalso. assert (P : 2 ^ k = 2 ^ j * 2 ^ (k - j)) by (rewrite <- Z.pow_add_r by lia; f_equal; lia).
    assert (A : 0 < 2 ^ j) by (apply Z.pow_pos_nonneg; lia).
    assert (B : 2 <= 2 ^ (k - j)) by (change 2 with (2 ^ 1) at 1; apply Z.pow_le_mono_r; lia).
    rewrite P in E. set (a := 2 ^ j) in *. set (b := 2 ^ (k - j)) in *.
    assert (a * (b * u) = a * 1) by lia. apply Z.mul_reg_l in H; nia.
  - assert (A : 0 < 2 ^ k) by (apply Z.pow_pos_nonneg; lia).
    assert (2 ^ k * u = 2 ^ k * 1) by lia. apply Z.mul_reg_l in H; lia.
  - exfalso. assert (P : 2 ^ j = 2 ^ k * 2 ^ (j - k)) by (rewrite <- Z.pow_add_r by lia; f_equal; lia).
    assert (A : 0 < 2 ^ k) by (apply Z.pow_pos_nonneg; lia).
    rewrite P in E. apply Z.mul_reg_l in E; [|lia].
    replace (j - k) with (Z.succ (j - k - 1)) in E by lia. rewrite Z.pow_succ_r in E by lia.
    rewrite E, Z.odd_mul in Ho. discriminate. Qed.

Lemma lowbit_pow2 v : 0 < v -> (Z.land v (- v) = v <-> exists k, 0 <= k /\ v = 2 ^ k).
Proof. intros Hv. destruct v as [|p|p]; try lia.
  destruct (pos_odd_pow2 p) as (k & u & Hk & Ho & Hu & E). generalize dependent (Zpos p). intros v Hv E. subst v.
  rewrite land_neg_pow2 by assumption. split.
  - intros H. assert (P : 0 < 2 ^ k) by (apply Z.pow_pos_nonneg; lia).
    assert (2 ^ k * u = 2 ^ k * 1) by lia. apply Z.mul_reg_l in H0; [|lia]. subst u. exists k. split; [assumption|lia].
  - intros (j & Hj & Ej). rewrite (pow2_odd_unique k u j) by assumption. lia. Qed.

Theorem src_is_power_of_two_spec m v : in_i32 v = true ->
  exists b, src_is_power_of_two m v = Ok b /\ (b = true <-> exists k, 0 <= k <= 30 /\ v = 2 ^ k).
Proof. intros Hv. unfold src_is_power_of_two.
  destruct (v >? 0) eqn:Hpos.
  - assert (Hc : chk32 m (Z.lnot v + 1) = Ok (- v)).
    { rewrite lnot_succ. apply chk32_ok. unfold in_i32, two31 in *. lia. }
    unfold add32. rewrite Hc. cbn [bind]. eexists. split; [reflexivity|].
    rewrite Z.eqb_eq. rewrite lowbit_pow2 by lia. split.
    + intros (k & Hk & E). exists k. split; [|assumption]. split; [assumption|].
      destruct (Z.le_gt_cases k 30) as [L|G]; [assumption|exfalso].
      assert (P : 2 ^ 31 <= 2 ^ k) by (apply Z.pow_le_mono_r; lia). rewrite <- E in P.
      assert (Q : 2 ^ 31 = 2147483648) by reflexivity. rewrite Q in P.
      unfold in_i32, two31 in Hv. clear - P Hv. lia.
    + intros (k & Hk & E). exists k. split; [lia|assumption].
  - exists false. split; [reflexivity|]. split; [discriminate|].
    intros (k & Hk & E). assert (P : 0 < 2 ^ k) by (apply Z.pow_pos_nonneg; lia). rewrite <- E in P. clear - P Hpos. lia. Qed.

Lemma src_rb_check_capacity_eq m c : in_i32 c = true ->
  exists b, src_is_power_of_two m c = Ok b /\
    src_rb_check_capacity m c = Ok (if b then ROk 0 else RErr "RingBufferError::CapacityIsNotTwoPower" [c]).
Proof. intros Hc. destruct (src_is_power_of_two_spec m c Hc) as (b & E & _). exists b. split; [assumption|].
  unfold src_rb_check_capacity. rewrite E. cbn [bind]. destruct b; reflexivity. Qed.

(* a ring buffer over a buffer of 2^k + TRAILER bytes: the capacity, the longest message and the five counters
   are where Model/Ring.v has them *)
Theorem src_rb_new_spec m cp : cap_ok cp ->
  src_rb_new m (cp + TRAILER) =
  Ok (RStruct [("capacity", cp); ("consumer_heartbeat", cp + HB_OFF); ("correlation_id_counter", cp + CORR_OFF);
               ("head_cache_position", cp + HC_OFF); ("head_position", cp + HEAD_OFF); ("max_msg_len", cp / 8);
               ("tail_position", cp + TAIL_OFF)]%string).
Proof. intros Hcap. pose proof (cap_ok_range cp Hcap) as R. unfold two30 in R.
  assert (Hi : in_i32 cp = true) by (unfold in_i32, two31; lia).
  destruct (src_rb_check_capacity_eq m cp Hi) as (b & Eb & Ec).
  destruct (src_is_power_of_two_spec m cp Hi) as (b' & Eb' & Sp). rewrite Eb in Eb'. inversion Eb'; subst b'.
  assert (b = true).
  { apply Sp. destruct Hcap as (k & Hk & ->). exists k. split; [lia|reflexivity]. }
  subst b. unfold src_rb_new. rconsts. srcT_unfold_ops.
  rewrite chk32_ok by srcT_side. cbn [bind]. replace (cp + 768 - 768) with cp by lia.
  rewrite Ec. cbn [bind qbind]. srcT_norm.
  rewrite quot_nonneg by lia. reflexivity. Qed.

(* a capacity that is not a power of two is refused with the capacity it computed *)
Theorem src_rb_new_refuses m bc : in_i32 bc = true -> in_i32 (bc - TRAILER) = true ->
  (~ exists k, 0 <= k <= 30 /\ bc - TRAILER = 2 ^ k) ->
  src_rb_new m bc = Ok (RErr "RingBufferError::CapacityIsNotTwoPower" [bc - TRAILER]).
Proof. intros Hb Hc Hn.
  destruct (src_rb_check_capacity_eq m _ Hc) as (b & Eb & Ec).
  destruct (src_is_power_of_two_spec m _ Hc) as (b' & Eb' & Sp). rewrite Eb in Eb'. inversion Eb'; subst b'.
  destruct b; [exfalso; apply Hn; apply Sp; reflexivity|].
  unfold src_rb_new. unfold TRAILER in *. unfold sub32. rewrite chk32_ok by assumption. cbn [bind].
  rewrite Ec. reflexivity. Qed.
