(* Second layer of the C02 invariant (proved on top of AppInv): nobody panics, every accepted offer has a claim,
   refused offers get one of the retry / back-pressure answers, a rotation in progress and a tripped active
   term both have a thread that will finish the rotation, no claim exists beyond the active term, and the
   accepted positions of one publisher increase in its offer order. *)
Require Import V.Base.MachineInt.
Require Import V.Generated.GenConsts.
Require Import V.Model.LogBase.
Require Import V.Model.Descriptor.
Require Import V.Proofs.DescriptorProofs.
Require Import V.Model.Sched.
Require Import V.Model.AppenderThreads.
Require Import V.Proofs.TailArith.
Require Import V.Proofs.FragArith.
Require Import V.Proofs.AppenderInv.
Require Import V.Proofs.AppenderLemmas.
Require Import V.Proofs.AppenderFrame.
Require Import V.Proofs.AppenderSteps.
Require Import V.Proofs.AppenderFaa.
Require Import V.Proofs.AppenderRotate.
Require Import V.Proofs.AppenderSystem.
From Coq Require Import ZifyBool.
Open Scope Z_scope.

Definition res_okP (r : outcome Z) : Prop :=
  match r with
  | Ok _ | Err AdminAction | Err BackPressured | Err NotConnected | Err MaxPositionExceeded | Err TooLong => True
  | _ => False
  end.

Section Inv2.
  Variable c : cfg.
  Hypothesis W : wf_cfg c.

  Record AppInv2 (s : shared) (gh : ghost) (P : nat -> option plocal) : Prop := {
    r_nopanic : forall t l, P t = Some l -> p_pc l <> PPanicked;
    r_okent : forall t l j pos, P t = Some l -> nth_error (p_res l) j = Some (Ok pos) ->
        exists g e, In e (g_claims gh g) /\ e_t e = t /\ e_j e = j;
    r_resok : forall t l r, P t = Some l -> In r (p_res l) -> res_okP r;
    r_rot : tg c s ((sh_count s + 1) mod 3) = sh_count s + 1 ->
        exists t l, P t = Some l /\ p_pc l = RCasCount /\ p_count l = sh_count s;
    r_trip : tripped c gh (sh_count s) ->
        exists t l, P t = Some l /\ p_count l = sh_count s /\ (padding (p_pc l) = true \/ rotating (p_pc l) = true);
    r_future : forall g, sh_count s < g -> g_claims gh g = [];
    r_order : forall g g' e e', In e (g_claims gh g) -> In e' (g_claims gh g') -> e_t e = e_t e' ->
        (e_j e < e_j e')%nat -> e_b e <= TL c -> e_b e' <= TL c -> g * TL c + e_b e < g' * TL c + e_b e'
  }.

  Lemma finish_pc r l : p_pc (finish r l) <> PPanicked.
  Proof. unfold finish, p_start. destruct (match r with Ok _ => _ | _ => _ end); destruct (p_budget l); cbn; discriminate. Qed.
  Lemma finish_flags r l : padding (p_pc (finish r l)) = false /\ rotating (p_pc (finish r l)) = false /\ p_pc (finish r l) <> RCasCount.
  Proof. unfold finish, p_start. destruct (match r with Ok _ => _ | _ => _ end); destruct (p_budget l); cbn; repeat split; discriminate. Qed.

  (* a step of thread t that changes neither the tails, nor the count, nor the ghost state *)
  Lemma inv2_nochange s s' gh P t l l' :
    AppInv2 s gh P -> P t = Some l -> sh_tail s' = sh_tail s -> sh_count s' = sh_count s ->
    p_pc l' <> PPanicked ->
    (p_res l' = p_res l \/
     exists r, p_res l' = p_res l ++ [r] /\ res_okP r /\
       (forall pos, r = Ok pos -> exists g e, In e (g_claims gh g) /\ e_t e = t /\ e_j e = length (p_res l))) ->
    (p_count l = sh_count s -> p_pc l = RCasCount -> p_pc l' = RCasCount /\ p_count l' = p_count l) ->
    (p_count l = sh_count s -> (padding (p_pc l) = true \/ rotating (p_pc l) = true) ->
       (padding (p_pc l') = true \/ rotating (p_pc l') = true) /\ p_count l' = p_count l) ->
    AppInv2 s' gh (pupd P t l').
  Proof. intros [R1 R2 R3 R4 R5 R6 R7] HP Ht Hc Hnp Hres Hrc Hpr.
    assert (Htg : forall p, tg c s' p = tg c s p) by (intros; unfold tg; rewrite Ht; reflexivity).
    constructor; rewrite ?Hc, ?Htg.
    - intros t' l0 H. unfold pupd in H. destruct (Nat.eqb t' t) eqn:E; [inversion H; subst; assumption | eapply R1; eauto].
    - intros t' l0 j pos H Hn. unfold pupd in H. destruct (Nat.eqb t' t) eqn:E; [|eapply R2; eauto].
      apply Nat.eqb_eq in E. subst t'. inversion H; subst l0. clear H.
      destruct Hres as [Hres | (r & Hres & Hok & Hent)]; rewrite Hres in Hn; [eapply R2; eauto|].
      destruct (Nat.lt_ge_cases j (length (p_res l))) as [Hlt | Hge].
      + rewrite nth_error_app1 in Hn by assumption. eapply R2; eauto.
      + rewrite nth_error_app2 in Hn by assumption. destruct (j - length (p_res l))%nat as [|k] eqn:Ek.
        * cbn in Hn. inversion Hn; subst r. assert (j = length (p_res l)) by lia. subst j. eapply Hent; eauto.
        * cbn in Hn. destruct k; discriminate.
    - intros t' l0 r H Hin. unfold pupd in H. destruct (Nat.eqb t' t) eqn:E; [|eapply R3; eauto].
      inversion H; subst l0. clear H. destruct Hres as [Hres | (r0 & Hres & Hok & _)]; rewrite Hres in Hin; [eapply R3; eauto|].
      apply in_app_or in Hin. destruct Hin as [Hin | [<- | []]]; [eapply R3; eauto | assumption].
    - intros X. destruct (R4 X) as (t0 & l0 & H0 & Hp0 & Hc0). destruct (Nat.eq_dec t0 t) as [-> | Hne].
      + rewrite HP in H0. inversion H0; subst l0. destruct (Hrc Hc0 Hp0) as (Y1 & Y2).
        exists t, l'. unfold pupd. rewrite Nat.eqb_refl. repeat split; congruence.
      + exists t0, l0. unfold pupd. replace (Nat.eqb t0 t) with false by (symmetry; apply Nat.eqb_neq; assumption). auto.
    - intros X. destruct (R5 X) as (t0 & l0 & H0 & Hc0 & Hp0). destruct (Nat.eq_dec t0 t) as [-> | Hne].
      + rewrite HP in H0. inversion H0; subst l0. destruct (Hpr Hc0 Hp0) as (Y1 & Y2).
        exists t, l'. unfold pupd. rewrite Nat.eqb_refl. repeat split; try congruence; try assumption.
      + exists t0, l0. unfold pupd. replace (Nat.eqb t0 t) with false by (symmetry; apply Nat.eqb_neq; assumption). auto.
    - assumption.
    - assumption. Qed.

  (* same state for every thread, only the shared memory / limit changed *)
  Lemma inv2_env s s' gh gh' P :
    AppInv2 s gh P -> sh_tail s' = sh_tail s -> sh_count s' = sh_count s -> g_claims gh' = g_claims gh -> AppInv2 s' gh' P.
  Proof. intros [R1 R2 R3 R4 R5 R6 R7] Ht Hc Hg.
    assert (Htg : forall p, tg c s' p = tg c s p) by (intros; unfold tg; rewrite Ht; reflexivity).
    constructor; rewrite ?Hc, ?Htg, ?Hg; auto.
    intros (e & He & Hb). apply R5. exists e. rewrite <- Hg. auto. Qed.

  Lemma chain_last b0 l hi : chain b0 l hi -> b0 < hi -> exists e, In e l /\ e_b e = hi.
  Proof. revert b0. induction l as [|x r IH]; intros b0 H Hlt; cbn [chain] in H; [lia|].
    destruct H as (H1 & H2 & H3). destruct r as [|y r'].
    - cbn [chain] in H3. exists x. split; [left; reflexivity | congruence].
    - destruct (IH _ H3) as (e & He & Hb).
      + cbn [chain] in H3. destruct H3 as (Y1 & Y2 & Y3). pose proof (chain_le _ _ _ Y3). lia.
      + exists e. split; [right; assumption | assumption]. Qed.

  (* the result recorded for a finished attempt of a thread that was in flight *)
  Lemma finished_result s gh P t l l' : AppInv c s gh (pupd P t l') -> inflight (p_pc l) = true ->
    In (my_entry c t l) (g_claims gh (p_count l)) -> (length (p_res l) < length (p_res l'))%nat ->
    nth (length (p_res l)) (p_res l') Panic =
      (if f_off l + required c (mlen l) <=? TL c then Ok (p_count l * TL c + (f_off l + required c (mlen l))) else Err AdminAction).
  Proof. intros I' Hi Hin Hlt. destruct (iv_ent c _ _ _ I' _ _ Hin) as (_ & _ & _ & _ & l0 & HP0 & _ & _ & Hdone).
    cbn [my_entry e_t] in HP0. unfold pupd in HP0. rewrite Nat.eqb_refl in HP0. inversion HP0; subst l0.
    cbn [my_entry e_j e_b] in Hdone. destruct (Hdone Hlt) as (D & _). exact D. Qed.

  Theorem pub_step_inv2 s gh P t l s' l' e :
    AppInv c s gh P -> AppInv2 s gh P -> P t = Some l -> adm_pub c s P l -> pstep c t s l = Some (s', l', e) ->
    AppInv2 s' (gstep_pub c t s l gh) (pupd P t l').
  Proof. intros I J HP Hadm Hstep. pose proof (pub_step_inv c W s gh P t l s' l' e I HP Hadm Hstep) as I'.
    pose proof (iv_thr c s gh P I t l HP) as HT. pose proof (iv_A c s gh P I) as A.
    unfold pstep in Hstep. unfold gstep_pub in *.
    (* steps that keep tails, count and ghost, do not finish the attempt and keep the thread's phase *)
    assert (Keep : forall s1 l1, sh_tail s1 = sh_tail s -> sh_count s1 = sh_count s -> p_res l1 = p_res l ->
              p_pc l1 <> PPanicked ->
              (p_pc l = RCasCount -> False) ->
              ((padding (p_pc l) = true \/ rotating (p_pc l) = true) ->
                 (padding (p_pc l1) = true \/ rotating (p_pc l1) = true) /\ p_count l1 = p_count l) ->
              AppInv2 s1 gh (pupd P t l1)).
    { intros s1 l1 E1 E2 E3 E5 E6 E7. apply (inv2_nochange s s1 gh P t l l1); auto.
      all: try (intros _ X; exfalso; apply (E6 X)). }
    (* steps that finish an attempt that made no claim *)
    assert (Fin0 : forall s1 r, sh_tail s1 = sh_tail s -> sh_count s1 = sh_count s -> inflight (p_pc l) = false ->
              res_okP r -> (forall pos, r <> Ok pos) -> AppInv2 s1 gh (pupd P t (finish r l))).
    { intros s1 r E1 E2 E3 E4 E5. apply (inv2_nochange s s1 gh P t l (finish r l)); auto.
      all: try apply finish_pc.
      all: try (right; exists r; split; [apply p_res_finish|]; split; [assumption|]; intros pos X; destruct (E5 pos X)).
      all: try (intros _ X; rewrite X in E3; discriminate).
      all: try (intros _ [X | X]; destruct (p_pc l); discriminate). }
    destruct (p_pc l) eqn:Hpc; try discriminate Hstep; inversion Hstep; subst s' l' e; clear Hstep.
    - apply Keep; auto; try discriminate; try (intros [X | X]; discriminate).
    - apply Keep; auto; try discriminate; try (intros [X | X]; discriminate).
    - (* PReadTail *)
      set (l1 := pl_raw l (sh_tail s (r_idx l))) in *.
      assert (F : forall r, res_okP r -> (forall pos, r <> Ok pos) -> AppInv2 s gh (pupd P t (finish r l1))).
      { intros r X1 X2. replace (finish r l1) with (finish r l) by (destruct l; reflexivity). apply Fin0; auto. }
      assert (K : forall pc, pc <> PPanicked -> padding pc = false -> rotating pc = false -> AppInv2 s gh (pupd P t (pl_pc l1 pc))).
      { intros pc X1 X2 X3. apply Keep; auto; try discriminate; try (intros [X | X]; discriminate). }
      unfold after_read_tail. destruct (negb _); [apply F; [exact Logic.I | discriminate]|].
      destruct (_ <? _).
      + destruct (_ && _); [apply F; [exact Logic.I | discriminate] | apply K; [discriminate | reflexivity | reflexivity]].
      + destruct (_ <=? _); [apply F; [exact Logic.I | discriminate] | apply K; [discriminate | reflexivity | reflexivity]].
    - (* PBackPressure *) apply Fin0; auto; [destruct (_ =? 1); exact Logic.I | destruct (_ =? 1); discriminate].
    - (* PFaa *)
      destruct (faa_facts c W s gh P t l I HP Hpc Hadm) as (Hidx & Hp & Hg & Hgok & Htg & Hraw & Ha & Hroom & Ham & Hd & Hdm & Hlo & Hgen & Hnew & (o & Ho1 & Ho2) & Htid).
      rewrite (after_faa_eq c W s gh P t l I HP Hpc Hadm) in *.
      destruct (faa_next_facts c W s gh P t l I HP Hpc Hadm) as (F1 & F2 & F3 & F4 & _).
      rewrite Hgen, Hlo in *.
      set (l2 := faa_next c s l) in *. set (g := p_count l) in *. set (a := toff s (g mod 3)) in *. set (d := required c (mlen l)) in *.
      set (enew := mkE a (a + d) t (length (p_res l)) (cur_msg l)) in *.
      set (s1 := with_tail s (r_idx l) (wrap64 (sh_tail s (r_idx l) + d))) in *.
      set (gh1 := add_claim gh g enew) in *.
      assert (Htg' : forall p', tg c s1 p' = tg c s p') by (intros; apply (faa_tg c W s gh P t l I HP Hpc Hadm)).
      destruct J as [R1 R2 R3 R4 R5 R6 R7].
      assert (Hpcs : (TL c < a + d -> padding (p_pc l2) = true \/ rotating (p_pc l2) = true) /\ p_pc l2 <> PPanicked /\ p_pc l2 <> RCasCount).
      { unfold l2, faa_next. change (p_count l) with g. change (toff s (g mod 3)) with a. change (required c (mlen l)) with d. destruct (TL c <? a + d) eqn:E1; [destruct (a <? TL c)|]; cbn; repeat split; try discriminate; auto; intros; lia. }
      destruct Hpcs as (Hpc1 & Hpc2 & Hpc3).
      constructor; change (sh_count s1) with (sh_count s); rewrite ?Htg'.
      + intros t' l0 H. unfold pupd in H. destruct (Nat.eqb t' t) eqn:E; [inversion H; subst; assumption | eapply R1; eauto].
      + intros t' l0 j pos H Hn. unfold pupd in H. destruct (Nat.eqb t' t) eqn:E.
        * apply Nat.eqb_eq in E. subst t'. inversion H; subst l0. rewrite F1 in Hn.
          destruct (R2 t l j pos HP Hn) as (g0 & e0 & X1 & X2 & X3). exists g0, e0. split; [apply claims_add_mono; assumption | auto].
        * destruct (R2 t' l0 j pos H Hn) as (g0 & e0 & X1 & X2 & X3). exists g0, e0. split; [apply claims_add_mono; assumption | auto].
      + intros t' l0 r H Hin. unfold pupd in H. destruct (Nat.eqb t' t) eqn:E; [|eapply R3; eauto].
        inversion H; subst l0. rewrite F1 in Hin. eapply R3; eauto.
      + intros X. destruct (R4 X) as (t0 & l0 & H0 & Hp0 & Hc0). exists t0, l0. unfold pupd.
        destruct (Nat.eqb t0 t) eqn:E; [|auto]. apply Nat.eqb_eq in E. subst t0. rewrite HP in H0. inversion H0; subst l0. congruence.
      + intros (e0 & He0 & Hb0). unfold gh1 in He0. apply claims_add_inv in He0. destruct He0 as [He0 | (Eg & Ee)].
        * destruct (R5 (ex_intro _ e0 (conj He0 Hb0))) as (t0 & l0 & H0 & Hc0 & Hp0). exists t0, l0. unfold pupd.
          destruct (Nat.eqb t0 t) eqn:E; [|auto]. apply Nat.eqb_eq in E. subst t0. rewrite HP in H0. inversion H0; subst l0.
          rewrite Hpc in Hp0. destruct Hp0; discriminate.
        * exists t, l2. unfold pupd. rewrite Nat.eqb_refl. split; [reflexivity|]. split; [rewrite F4; congruence|].
          apply Hpc1. rewrite Ee in Hb0. cbn [enew e_b] in Hb0. exact Hb0.
      + intros g0 Hg0. unfold gh1. rewrite claims_add_other; [apply R6; assumption | lia].
      + intros g0 g0' e0 e0' He0 He0' Ht0 Hj0 Hb0 Hb0'. unfold gh1 in He0, He0'.
        apply claims_add_inv in He0. apply claims_add_inv in He0'.
        destruct He0 as [He0 | (Eg & Ee)]; destruct He0' as [He0' | (Eg' & Ee')].
        * eapply R7; eauto.
        * (* the new claim is later in the stream than every earlier data claim of the same thread *)
          subst g0' e0'. cbn [enew e_b e_t e_j] in *.
          destruct (TL_bounds c W) as (TB & _).
          assert (Hgn : g = sh_count s).
          { destruct (Z.eq_dec g (sh_count s)); [assumption|]. exfalso.
            destruct (iv_trip c s gh A g ltac:(lia)) as (x & Hx & Hbx).
            pose proof (iv_chain c s gh A (g mod 3) Hp) as Hc. rewrite Htg in Hc. specialize (Hc ltac:(lia)).
            destruct (chain_le _ _ _ Hc) as (_ & L). destruct (L x Hx) as (_ & _ & L3). lia. }
          assert (Hg0 : g0 <= sh_count s).
          { destruct (Z_le_gt_dec g0 (sh_count s)); [assumption|]. rewrite (R6 g0) in He0 by lia. destruct He0. }
          destruct (iv_ent c s gh P I g0 e0 He0) as (Hn0 & Ha0 & _).
          destruct (Z.eq_dec g0 g) as [-> | Hne].
          -- pose proof (iv_chain c s gh A (g mod 3) Hp) as Hc. rewrite Htg in Hc. specialize (Hc ltac:(lia)).
             destruct (chain_le _ _ _ Hc) as (_ & L). destruct (L e0 He0) as (_ & _ & L3). lia.
          -- nia.
        * exfalso. subst g0 e0. cbn [enew e_t e_j] in *.
          destruct (iv_ent c s gh P I g0' e0' He0') as (_ & _ & _ & _ & l0 & HP0 & Hj1 & Hin1 & _).
          rewrite <- Ht0, HP in HP0. inversion HP0; subst l0.
          assert (e_j e0' = length (p_res l)) by lia. destruct (Hin1 H) as (X & _). rewrite Hpc in X. discriminate.
        * subst. lia.
    - apply Keep; auto; try discriminate; try (intros [X | X]; discriminate).
    - apply Keep; auto; try discriminate; try (intros [X | X]; discriminate).
    - apply Keep; auto; try discriminate; try (destruct (is_fragmented c (mlen l)); discriminate); try (intros [X | X]; discriminate).
    - apply Keep; auto; try discriminate; try (intros [X | X]; discriminate).
    - apply Keep; auto; try discriminate; try (intros [X | X]; discriminate).
    - (* PPosLen *)
      unfold after_commit in *. destruct (p_rem l - frag_bytes c l <=? 0).
      + set (s1 := with_mem s _) in *.
        assert (Hi : inflight (p_pc l) = true) by (rewrite Hpc; reflexivity).
        destruct HT as (_ & _ & H3 & H4 & _). rewrite Hpc in H3, H4. destruct (H3 eq_refl) as (_ & _ & _ & Hin). destruct (H4 eq_refl) as (_ & Hb & _).
        pose proof (finished_result s1 gh P t l _ I' Hi Hin ltac:(rewrite p_res_finish, app_length; cbn; lia)) as Hr.
        rewrite p_res_finish, nth_middle in Hr. replace (f_off l + required c (mlen l) <=? TL c) with true in Hr by lia.
        apply (inv2_nochange s s1 gh P t l (finish (ok_position c l) l)); auto.
        * apply finish_pc.
        * right. exists (ok_position c l). split; [apply p_res_finish|]. rewrite Hr. split; [exact Logic.I|].
          intros pos _. exists (p_count l), (my_entry c t l). auto.
        * intros _ X. rewrite X in Hpc. discriminate.
        * intros _ [X | X]; rewrite Hpc in X; discriminate.
      + apply Keep; auto; try discriminate; try (intros [X | X]; discriminate).
    - apply Keep; auto; try discriminate; try (intros _; split; [left; reflexivity | reflexivity]).
    - apply Keep; auto; try discriminate; try (intros _; split; [left; reflexivity | reflexivity]).
    - apply Keep; auto; try discriminate; try (intros _; split; [left; reflexivity | reflexivity]).
    - (* EPosLen *)
      assert (Hw : padding (p_pc l) = true) by (rewrite Hpc; reflexivity).
      destruct (pad_clauses c s gh t l HT Hw) as (C1 & (o & Hraw & Ho & _) & _).
      rewrite (after_eol_rot c W l (p_count l) o); [| pose proof (wf_n0 c W); pose proof (iv_count c s gh A); lia | assumption | assumption].
      apply Keep; auto; try discriminate; try (intros _; split; [right; reflexivity | reflexivity]).
    - (* RReadNext *)
      apply Keep; auto; try discriminate; try (destruct (_ =? _); discriminate); try (intros _; split; [right; destruct (_ =? _); reflexivity | reflexivity]).
    - (* RCasTail *)
      destruct (sh_tail s (next_index l) =? p_next l) eqn:Ecas.
      + apply Z.eqb_eq in Ecas.
        destruct (castail_facts c W s gh P t l I HP Hpc Hadm Ecas) as (Hg & Hq & Hqr & Htgq & Hnew & Htrip & Hz & Hnl & Hb & Hn0).
        set (s1 := with_tail s (next_index l) (raw_tail_of_term (next_tid l))) in *.
        destruct J as [R1 R2 R3 R4 R5 R6 R7].
        constructor; change (sh_count s1) with (sh_count s); auto.
        * intros t' l0 H. unfold pupd in H. destruct (Nat.eqb t' t) eqn:E; [inversion H; subst; discriminate | eapply R1; eauto].
        * intros t' l0 j pos H Hn. unfold pupd in H. destruct (Nat.eqb t' t) eqn:E; [|eapply R2; eauto].
          apply Nat.eqb_eq in E. subst t'. inversion H; subst l0. eapply R2; eauto.
        * intros t' l0 r H Hin. unfold pupd in H. destruct (Nat.eqb t' t) eqn:E; [|eapply R3; eauto].
          inversion H; subst l0. eapply R3; eauto.
        * intros _. exists t, (pl_pc l RCasCount). unfold pupd. rewrite Nat.eqb_refl. repeat split; auto.
        * intros X. destruct (R5 X) as (t0 & l0 & H0 & Hc0 & Hp0). destruct (Nat.eq_dec t0 t) as [-> | Hne].
          -- exists t, (pl_pc l RCasCount). unfold pupd. rewrite Nat.eqb_refl. repeat split; auto.
          -- exists t0, l0. unfold pupd. replace (Nat.eqb t0 t) with false by (symmetry; apply Nat.eqb_neq; assumption). auto.
      + apply Keep; auto; try discriminate; try (intros _; split; [right; reflexivity | reflexivity]).
    - (* RCasCount *)
      assert (Hi : inflight (p_pc l) = true) by (rewrite Hpc; reflexivity).
      pose proof HT as (_ & _ & H3 & _ & _ & H6 & _). rewrite Hpc in H3, H6. destruct (H3 eq_refl) as (_ & _ & _ & Hin). destruct (H6 eq_refl) as (Hb & _).
      assert (Hr : forall s1, AppInv c s1 gh (pupd P t (finish (Err AdminAction) l)) -> True) by auto.
      destruct (sh_count s =? p_count l) eqn:Ecas.
      + apply Z.eqb_eq in Ecas. set (s1 := with_count s (p_count l + 1)) in *.
        destruct J as [R1 R2 R3 R4 R5 R6 R7].
        assert (Hs1 : sh_count s1 = sh_count s + 1) by (unfold s1; cbn; lia).
        constructor; rewrite ?Hs1; change (tg c s1) with (tg c s); auto.
        * intros t' l0 H. unfold pupd in H. destruct (Nat.eqb t' t) eqn:E; [inversion H; subst; apply finish_pc | eapply R1; eauto].
        * intros t' l0 j pos H Hn. unfold pupd in H. destruct (Nat.eqb t' t) eqn:E; [|eapply R2; eauto].
          apply Nat.eqb_eq in E. subst t'. inversion H; subst l0. rewrite p_res_finish in Hn.
          destruct (Nat.lt_ge_cases j (length (p_res l))) as [Hlt | Hge].
          -- rewrite nth_error_app1 in Hn by assumption. eapply R2; eauto.
          -- rewrite nth_error_app2 in Hn by assumption. destruct (j - length (p_res l))%nat as [|k]; cbn in Hn; [discriminate | destruct k; discriminate].
        * intros t' l0 r H Hin0. unfold pupd in H. destruct (Nat.eqb t' t) eqn:E; [|eapply R3; eauto].
          inversion H; subst l0. rewrite p_res_finish in Hin0. apply in_app_or in Hin0. destruct Hin0 as [X | [<- | []]]; [eapply R3; eauto | exact Logic.I].
        * intros X. exfalso. replace (sh_count s + 1 + 1) with (sh_count s + 2) in X by ring. pose proof (iv_prev c s gh A). lia.
        * intros (e0 & He0 & _). rewrite (R6 (sh_count s + 1)) in He0 by lia. destruct He0.
        * intros g0 Hg0. apply R6. lia.
      + apply (inv2_nochange s s gh P t l (finish (Err AdminAction) l)); auto.
        * apply finish_pc.
        * right. exists (Err AdminAction). split; [apply p_res_finish|]. split; [exact Logic.I | intros; discriminate].
        * intros X. lia.
        * intros X. lia. Qed.

  Theorem env_step_inv2 s gh P op :
    AppInv2 s gh P ->
    AppInv2 (match op with SetLimit v => with_limit s v | Clean p => with_mem s (mclean (sh_mem s) p) end) (gstep_env c s op gh) P.
  Proof. intros J. destruct op as [v | p]; apply (inv2_env s _ gh _ P J); try reflexivity.
    unfold gstep_env. destruct (_ <=? _); reflexivity. Qed.

End Inv2.
