(* The seqlock argument for one transmitter || one copying receiver (Model/BroadcastThreads.v).
   Transmitter side: in every reachable state the completed records whose position p satisfies
   intent <= p + cap are intact in memory, the tail-intent counter only grows, and running the
   transmitter machine through one message is BroadcastTransmitter::transmit of Model/Broadcast.v
   (collapse).  Receiver side: what a receive hands to the handler after its last validate is the
   record its cursor points to. *)
From Coq Require Import FMapPositive.
Require Import V.Base.MachineInt.
Require Import V.Generated.GenConsts.
Require Import V.Model.Broadcast.
Require Import V.Model.BroadcastThreads.
Require Import V.Spec.Lossy.
Require Import V.Proofs.BroadcastMem.
Require Import V.Proofs.BroadcastInv.
Require Import V.Proofs.BroadcastRefine.
Require Import V.Proofs.LossyProofs.
From Coq Require Import ZifyBool.
Open Scope Z_scope.

Section Threads.
Variables (cap k : Z).
Hypothesis Hcap : cap = 2 ^ k.
Hypothesis Hk : 5 <= k <= 30.

Let CB := cap_bounds cap k Hcap Hk.
Let C8 := cap_mod8 cap k Hcap Hk.

Definition pc_rank (pc : tpc) : Z :=
  match pc with
  | TIdle => 0 | TIntent _ => 1 | TPadLen _ => 2 | TPadType _ => 3 | TLen _ _ => 4
  | TType _ _ => 5 | TBody _ _ => 6 | TLatest _ _ => 7 | TTail _ _ => 8
  end.

(* memory and private variables of the transmitter at each pc of one transmit that started in memory mm0 *)
Section OneTransmit.
Variables (mm0 : mem) (ty : Z) (bs : list Z).
Let T := get64 mm0 (tail_idx cap).
Let len := Z.of_nat (length bs).
Let rl := len + 8.
Let al := align rl 8.
Let ro := T mod cap.
Let te := cap - ro.
Let pad := te <? al.
Let I1 := if pad then T + al + te else T + al.
Let tail1 := if pad then T + te else T.
Let ro1 := if pad then 0 else ro.
Let m1 := put64 mm0 (intent_idx cap) I1.
Let m2 := if pad then put32 m1 ro te else m1.
Let m3 := if pad then put32 m2 (ro + 4) PADDING else m2.
Let m4 := put32 m3 ro1 rl.
Let m5 := put32 m4 (ro1 + 4) ty.
Let m6 := put_bytes m5 (ro1 + 8) bs.
Let m7 := put64 m6 (latest_idx cap) tail1.
Definition tx_final : mem := put64 m7 (tail_idx cap) (tail1 + al).

Definition tx_mem_at (pc : tpc) : mem :=
  match pc with
  | TIdle | TIntent _ => mm0
  | TPadLen _ => m1
  | TPadType _ => m2
  | TLen _ _ => m3
  | TType _ _ => m4
  | TBody _ _ => m5
  | TLatest _ _ => m6
  | TTail _ _ => m7
  end.

Definition tx_pc_ok (pc : tpc) : Prop :=
  match pc with
  | TIdle => True
  | TIntent t => t = T
  | TPadLen t | TPadType t => t = T /\ pad = true
  | TLen a b | TType a b | TBody a b | TLatest a b | TTail a b => a = tail1 /\ b = ro1
  end.

(* the intent the receiver can observe at this pc *)
Definition tx_intent_at (pc : tpc) : Z :=
  match pc with TIdle | TIntent _ => get64 mm0 (intent_idx cap) | _ => I1 end.

Hypothesis HT : 0 <= T /\ T mod 8 = 0 /\ T + 2 * cap < 2 ^ 62.
Hypothesis Hlen : len <= cap / 8.
Hypothesis Hty : in_i32 ty = true.

Lemma tx_arith :
  0 <= ro < cap /\ ro mod 8 = 0 /\ ro + 8 <= cap /\ len + 8 <= al /\ al <= cap / 8 + 15 /\ al mod 8 = 0 /\
  cap / 8 * 8 = cap /\ 0 <= len /\ (pad = true -> 8 + len <= ro) /\ ro1 + 8 + len <= cap /\ 0 <= ro1 /\
  8 <= te <= cap.
Proof.
  pose proof CB. pose proof C8.
  assert (Hc8 : cap / 8 * 8 = cap) by (pose proof (Z.div_mod cap 8 ltac:(lia)); lia).
  pose proof (Z.mod_pos_bound T cap ltac:(lia)) as Ho. fold ro in Ho.
  pose proof (mod_cap_mod8 cap k Hcap Hk T) as Ho8. fold ro in Ho8. destruct HT as (T0 & T8 & _). rewrite T8 in Ho8.
  pose proof (align8_bounds rl) as AB. fold al in AB. unfold rl in AB.
  assert (0 <= len) by (unfold len; lia).
  assert (ro + 8 <= cap) by (pose proof (Z.div_mod ro 8 ltac:(lia)); pose proof (Z.div_mod cap 8 ltac:(lia)); lia).
  repeat split; try lia.
Qed.

Ltac offs := unfold intent_idx, tail_idx, latest_idx, buf_len, HL, RA, PADDING, CMD_Padding,
  BC_TAIL_INTENT_COUNTER_OFFSET, BC_TAIL_COUNTER_OFFSET, BC_LATEST_COUNTER_OFFSET, BC_TRAILER_LENGTH,
  BC_HEADER_LENGTH, BC_RECORD_ALIGNMENT in *.

(* the tail counter is untouched until the last step; the intent is I1 from the first write on *)
Lemma tx_tail_at pc : get64 (tx_mem_at pc) (tail_idx cap) = T.
Proof.
  destruct tx_arith as (A1 & A2 & A3 & A4 & A5 & A6 & A7 & A8 & A9 & A10 & A11 & A12). pose proof CB.
  unfold tx_mem_at, m7, m6, m5, m4, m3, m2, m1. offs.
  destruct pc; auto; destruct pad eqn:P; try specialize (A9 eq_refl);
    repeat first [ rewrite get64_put64_other by lia | rewrite get64_put32_other by lia
                 | rewrite get64_put_other by lia ]; reflexivity.
Qed.

Lemma tx_intent_at_ok pc : get64 (tx_mem_at pc) (intent_idx cap) = tx_intent_at pc.
Proof.
  destruct tx_arith as (A1 & A2 & A3 & A4 & A5 & A6 & A7 & A8 & A9 & A10 & A11 & A12). pose proof CB.
  destruct HT as (T0 & T8 & TB).
  assert (in_i64 I1 = true) by (unfold I1, in_i64, two63; destruct pad; lia).
  unfold tx_mem_at, tx_intent_at, m7, m6, m5, m4, m3, m2, m1. offs.
  destruct pc; auto; destruct pad eqn:P; try specialize (A9 eq_refl);
    repeat first [ rewrite get64_put64_other by lia | rewrite get64_put32_other by lia
                 | rewrite get64_put_other by lia ]; rewrite get64_put64 by auto; reflexivity.
Qed.

(* the latest counter is written once, just before the tail is published *)
Lemma tx_latest_at pc :
  get64 (tx_mem_at pc) (latest_idx cap) = match pc with TTail _ _ => tail1 | _ => get64 mm0 (latest_idx cap) end.
Proof.
  destruct tx_arith as (A1 & A2 & A3 & A4 & A5 & A6 & A7 & A8 & A9 & A10 & A11 & A12). pose proof CB.
  destruct HT as (T0 & T8 & TB).
  assert (in_i64 tail1 = true) by (unfold tail1, in_i64, two63; destruct pad; lia).
  unfold tx_mem_at, m7, m6, m5, m4, m3, m2, m1. offs.
  destruct pc; auto; destruct pad eqn:P; try specialize (A9 eq_refl);
    try (rewrite get64_put64 by auto; reflexivity);
    repeat first [ rewrite get64_put64_other by lia | rewrite get64_put32_other by lia
                 | rewrite get64_put_other by lia ]; reflexivity.
Qed.

(* frame: only the padding header (if any) and the record's own bytes are written in the data area *)
Lemma tx_frame pc a :
  0 <= a < cap ->
  (pad = true -> a < ro \/ ro + 8 <= a) -> (a < ro1 \/ ro1 + 8 + len <= a) ->
  rd (tx_mem_at pc) a = rd mm0 a.
Proof.
  intros Ha Hp Hr.
  destruct tx_arith as (A1 & A2 & A3 & A4 & A5 & A6 & A7 & A8 & A9 & A10 & A11 & A12). pose proof CB.
  unfold tx_mem_at, m7, m6, m5, m4, m3, m2, m1, put64, put32. offs. fold len in Hr.
  destruct pc; auto; destruct pad eqn:P; try specialize (A9 eq_refl); try specialize (Hp eq_refl);
    repeat (rewrite rd_put_bytes_out by (rewrite ?le_bytes_length; cbn [Z.of_nat]; unfold len in *; lia)); reflexivity.
Qed.

Lemma tx_final_frame a : 0 <= a < cap -> rd tx_final a = rd (tx_mem_at (TTail tail1 ro1)) a.
Proof.
  intros Ha. pose proof CB. unfold tx_final, put64. cbn [tx_mem_at]. offs.
  rewrite rd_put_bytes_out by (rewrite ?le_bytes_length; cbn [Z.of_nat]; lia). reflexivity.
Qed.

(* collapse: stepping the machine through the message is the sequential transmit *)
Lemma transmit_eq m : (ty <? 1) = false -> transmit m cap mm0 ty bs = Ok tx_final.
Proof.
  intros Hty1.
  destruct tx_arith as (A1 & A2 & A3 & A4 & A5 & A6 & A7 & A8 & A9 & A10 & A11 & A12). pose proof CB.
  destruct HT as (T0 & T8 & TB).
  unfold transmit. fold len. rewrite Hty1. unfold max_msg. replace (len >? cap / 8) with false by lia.
  fold T. rewrite (land_cap cap k Hcap Hk). fold ro.
  rewrite (wrap32_id ro) by (unfold in_i32, two31; lia).
  rewrite add32_ok by (unfold in_i32, two31, HL, BC_HEADER_LENGTH; lia). cbn [bind].
  change (len + HL) with rl.
  rewrite align32_ok by (unfold in_i32, two31, rl; lia). cbn [bind]. fold al.
  rewrite add64_ok by (unfold in_i64, two63; lia). cbn [bind].
  rewrite sub32_ok by (unfold in_i32, two31; lia). cbn [bind]. fold te. fold pad.
  unfold tx_final, m7, m6, m5, m4, m3, m2, m1, I1, tail1, ro1.
  destruct pad eqn:P.
  - rewrite add64_ok by (unfold in_i64, two63; lia). cbn [bind].
    rewrite add64_ok by (unfold in_i64, two63; lia). cbn [bind]. cbv beta iota zeta.
    rewrite add64_ok by (unfold in_i64, two63; lia). cbn [bind]. reflexivity.
  - cbn [bind]. cbv beta iota zeta.
    rewrite add64_ok by (unfold in_i64, two63; lia). cbn [bind]. reflexivity.
Qed.

(* every step of the machine moves to the next pc of this table *)
Lemma tx_step_at pc rest done :
  tx_pc_ok pc ->
  match tx_step cap (tx_mem_at pc) {| t_pc := pc; t_todo := (ty, bs) :: rest; t_done := done |} with
  | Some (t', mm', _) =>
      match pc with
      | TTail _ _ => t' = {| t_pc := TIdle; t_todo := rest; t_done := done + 1 |} /\ mm' = tx_final
      | _ => t_todo t' = (ty, bs) :: rest /\ t_done t' = done /\ pc_rank pc < pc_rank (t_pc t') /\
             tx_pc_ok (t_pc t') /\ mm' = tx_mem_at (t_pc t')
      end
  | None => False
  end.
Proof.
  intros OK. pose proof (land_cap cap k Hcap Hk) as LC.
  unfold tx_step. cbn [t_todo t_pc t_done]. fold len.
  change (len + HL) with rl. change (align rl RA) with al.
  destruct pc; cbn [tx_pc_ok] in OK.
  - cbn [t_todo t_done t_pc tx_pc_ok tx_mem_at]. repeat split; auto; try (cbn; lia).
  - rewrite OK. rewrite LC. fold ro. fold te. fold pad. cbn [tx_mem_at].
    assert (PP : pad = true \/ pad = false) by (destruct pad; auto).
    destruct PP as [P|P]; rewrite P; cbn [t_todo t_done t_pc tx_pc_ok tx_mem_at]; repeat split; auto; try (cbn; lia);
      unfold m3, m2, m1, I1, tail1, ro1; rewrite ?P; try reflexivity; try (f_equal; lia).
  - destruct OK as [-> P]. rewrite LC. fold ro. fold te. cbn [t_todo t_done t_pc tx_pc_ok tx_mem_at].
    repeat split; auto; try (cbn; lia); unfold m3, m2, tail1, ro1; rewrite ?P; reflexivity.
  - destruct OK as [-> P]. rewrite LC. fold ro. fold te. cbn [t_todo t_done t_pc tx_pc_ok tx_mem_at].
    repeat split; auto; try (cbn; lia); unfold m3, m2, tail1, ro1; rewrite ?P; reflexivity.
  - destruct OK as [-> ->]. cbn [t_todo t_done t_pc tx_pc_ok tx_mem_at]. repeat split; auto; try (cbn; lia).
  - destruct OK as [-> ->]. cbn [t_todo t_done t_pc tx_pc_ok tx_mem_at]. repeat split; auto; try (cbn; lia).
  - destruct OK as [-> ->]. cbn [t_todo t_done t_pc tx_pc_ok tx_mem_at]. repeat split; auto; try (cbn; lia).
  - destruct OK as [-> ->]. cbn [t_todo t_done t_pc tx_pc_ok tx_mem_at]. repeat split; auto; try (cbn; lia).
  - destruct OK as [-> ->]. cbn [tx_mem_at]. split; reflexivity.
Qed.

End OneTransmit.

(* ================================================================ transmitter-side invariant *)
Definition msg_ok (p : Z * list Z) : Prop := accepted cap (fst p) (snd p) = true /\ in_i32 (fst p) = true.

(* ch: the channel made of the transmits that have completed (tail published); mm0: memory when the current one began *)
Definition tinv (c0 : Z) (mm : mem) (t : tstate) (ch : chan) : Prop :=
  exists mm0, inv cap c0 mm0 ch /\ Forall msg_ok (t_todo t) /\
    c_tail ch + 2 * cap * Z.of_nat (length (t_todo t)) < 2 ^ 62 /\
    match t_todo t with
    | [] => t_pc t = TIdle /\ mm = mm0
    | (ty, bs) :: _ => tx_pc_ok mm0 bs (t_pc t) /\ mm = tx_mem_at mm0 ty bs (t_pc t)
    end.

Lemma one_tx_hyps c0 mm0 ch ty bs rest :
  inv cap c0 mm0 ch -> msg_ok (ty, bs) -> c_tail ch + 2 * cap * Z.of_nat (length ((ty, bs) :: rest)) < 2 ^ 62 ->
  (0 <= get64 mm0 (tail_idx cap) /\ get64 mm0 (tail_idx cap) mod 8 = 0 /\ get64 mm0 (tail_idx cap) + 2 * cap < 2 ^ 62) /\
  Z.of_nat (length bs) <= cap / 8 /\ in_i32 ty = true /\ (ty <? 1) = false.
Proof.
  intros I [A Ty] Bd. cbn [fst snd] in *. pose proof CB.
  destruct (inv_tail_props cap k Hcap Hk _ _ _ I) as [T0 T8]. pose proof (inv_c0 _ _ _ _ I) as [C0 _].
  rewrite (inv_tail _ _ _ _ I). cbn [length] in Bd. rewrite Nat2Z.inj_succ in Bd.
  unfold accepted in A. apply andb_prop in A. destruct A as [A1 A2].
  apply negb_true_iff in A1. apply negb_true_iff in A2. repeat split; auto; try lia; nia.
Qed.

(* what the receiver may rely on, whatever the transmitter is in the middle of *)
Lemma tinv_facts c0 mm t ch :
  tinv c0 mm t ch ->
  get64 mm (tail_idx cap) = c_tail ch /\ c_tail ch <= get64 mm (intent_idx cap) /\
  (forall e, In e (c_log ch) -> get64 mm (intent_idx cap) <= e_pos e + cap -> intact cap mm e).
Proof.
  intros (mm0 & I & Ok & Bd & M). pose proof CB.
  destruct (t_todo t) as [|[ty bs] rest] eqn:Td.
  - destruct M as [_ ->]. rewrite (inv_tail _ _ _ _ I), (inv_intent _ _ _ _ I). split; [lia|split; [lia|]].
    intros e In Lv. apply (inv_live _ _ _ _ I); auto.
  - destruct M as [PcOk ->]. apply Forall_cons_iff in Ok. destruct Ok as [Ok1 _].
    destruct (one_tx_hyps c0 mm0 ch ty bs rest I Ok1 Bd) as (HT & Hl & Hty & Hty1).
    rewrite (tx_tail_at mm0 ty bs HT Hl Hty), (tx_intent_at_ok mm0 ty bs HT Hl Hty).
    pose proof (tx_arith mm0 ty bs HT Hl Hty) as (A1 & A2 & A3 & A4 & A5 & A6 & A7 & A8 & A9 & A10 & A11 & A12).
    pose proof (inv_tail _ _ _ _ I) as ET. rewrite ET in A1, A2, A3, A9, A10, A11, A12 |- *. set (T := c_tail ch) in *.
    assert (IE : tx_intent_at mm0 bs (t_pc t) = T \/
                 (tx_intent_at mm0 bs (t_pc t) =
                    (if cap - T mod cap <? align (Z.of_nat (length bs) + 8) 8
                     then T + align (Z.of_nat (length bs) + 8) 8 + (cap - T mod cap)
                     else T + align (Z.of_nat (length bs) + 8) 8))).
    { unfold tx_intent_at. rewrite (inv_intent _ _ _ _ I), (inv_tail _ _ _ _ I). fold T. destruct (t_pc t); auto. }
    split; [reflexivity|]. split.
    + destruct IE as [->| ->]; [lia|]. destruct (cap - T mod cap <? align (Z.of_nat (length bs) + 8) 8); lia.
    + intros e In Lv.
      destruct (chain_bounds cap k Hcap Hk _ _ _ (inv_wf _ _ _ _ I) (inv_chain _ _ _ _ I)) as [_ F].
      rewrite Forall_forall in F. specialize (F e In). fold T in F.
      pose proof (inv_wf _ _ _ _ I) as WF. rewrite Forall_forall in WF. specialize (WF e In).
      destruct WF as (P0 & P8 & Ln & Cr & Ex & _).
      pose proof (align8_bounds (e_len e)) as AB.
      assert (Old : intact cap mm0 e).
      { apply (inv_live _ _ _ _ I); auto. fold T. destruct IE as [E|E]; rewrite E in Lv; [lia|].
        destruct (cap - T mod cap <? align (Z.of_nat (length bs) + 8) 8); lia. }
      destruct IE as [E|E]; rewrite E in Lv.
      * (* nothing published yet: nothing written yet *)
        apply (intact_ext cap k Hk mm0 _ e); [|exact Old]. intros a Ha. unfold tx_intent_at in E.
        destruct (t_pc t); try reflexivity;
          exfalso; rewrite (inv_tail _ _ _ _ I) in E; fold T in E;
          destruct (cap - T mod cap <? align (Z.of_nat (length bs) + 8) 8); lia.
      * apply (intact_ext cap k Hk mm0 _ e); [|exact Old]. intros a Ha.
        pose proof (Z.mod_pos_bound (e_pos e) cap ltac:(lia)).
        apply (tx_frame mm0 ty bs HT Hl Hty); try lia; rewrite (inv_tail _ _ _ _ I); fold T.
        -- intros P. rewrite P in Lv. unfold e_end in F.
           destruct (mod_disjoint cap (e_pos e) (align (e_len e) 8) T 8) as [D|D]; try lia.
        -- unfold e_end in F. destruct (cap - T mod cap <? align (Z.of_nat (length bs) + 8) 8) eqn:P.
           ++ assert (Tte : (T + (cap - T mod cap)) mod cap = 0).
              { replace (T + (cap - T mod cap)) with (cap * (T / cap + 1)).
                - rewrite Z.mul_comm. apply Z.mod_mul. lia.
                - pose proof (Z.div_mod T cap ltac:(lia)). lia. }
              destruct (mod_disjoint cap (e_pos e) (align (e_len e) 8) (T + (cap - T mod cap)) (8 + Z.of_nat (length bs))) as [D|D];
                try lia; rewrite Tte in *; lia.
           ++ destruct (mod_disjoint cap (e_pos e) (align (e_len e) 8) T (8 + Z.of_nat (length bs))) as [D|D]; try lia.
Qed.

(* one step of the transmitter: the invariant is kept, the channel only grows, the intent only grows *)
Definition next_ch (ch : chan) (t : tstate) : chan :=
  match t_pc t, t_todo t with
  | TTail _ _, (ty, bs) :: _ => fst (spec_transmit cap ch ty bs)
  | _, _ => ch
  end.

Lemma tinv_step c0 mm t ch t' mm' ev :
  tinv c0 mm t ch -> tx_step cap mm t = Some (t', mm', ev) ->
  tinv c0 mm' t' (next_ch ch t) /\ (exists es, c_log (next_ch ch t) = c_log ch ++ es) /\
  get64 mm (intent_idx cap) <= get64 mm' (intent_idx cap).
Proof.
  intros TI St. pose proof TI as (mm0 & I & Ok & Bd & M). pose proof CB.
  destruct (t_todo t) as [|[ty bs] rest] eqn:Td.
  { unfold tx_step in St. rewrite Td in St. discriminate St. }
  destruct M as [PcOk Emm]. pose proof Ok as Ok'. apply Forall_cons_iff in Ok'. destruct Ok' as [Ok1 Ok2].
  destruct (one_tx_hyps c0 mm0 ch ty bs rest I Ok1 Bd) as (HT & Hl & Hty & Hty1).
  pose proof (tx_step_at mm0 ty bs Hty (t_pc t) rest (t_done t) PcOk) as SA.
  assert (Et : t = {| t_pc := t_pc t; t_todo := (ty, bs) :: rest; t_done := t_done t |}) by (destruct t; cbn in *; congruence).
  rewrite <- Et, <- Emm, St in SA.
  assert (IntRank : forall p q, pc_rank p < pc_rank q -> tx_intent_at mm0 bs p <= tx_intent_at mm0 bs q).
  { intros p q R. pose proof (tx_arith mm0 ty bs HT Hl Hty) as (A1 & A2 & A3 & A4 & A5 & A6 & A7 & A8 & A9 & A10 & A11 & A12).
    unfold tx_intent_at. rewrite (inv_intent _ _ _ _ I), (inv_tail _ _ _ _ I). rewrite (inv_tail _ _ _ _ I) in A1, A12.
    destruct p, q; cbn in R; try lia;
      destruct (cap - c_tail ch mod cap <? align (Z.of_nat (length bs) + 8) 8); lia. }
  unfold next_ch. rewrite Td. destruct (t_pc t) eqn:Pc.
  9:{ (* the tail is published: the transmit is complete *)
      destruct SA as [-> ->].
      assert (Acc : accepted cap ty bs = true) by apply Ok1.
      cbn [length] in Bd. rewrite Nat2Z.inj_succ in Bd.
      destruct (transmit_refines cap k Hcap Hk Release c0 mm0 ch ty bs I ltac:(nia) Acc Hty) as (mmf & E & I' & _ & Bd').
      rewrite (transmit_eq mm0 ty bs HT Hl Hty Release Hty1) in E. injection E as <-.
      split; [|split].
      - exists (tx_final mm0 ty bs). cbn [t_todo t_pc]. split; [exact I'|]. split; [exact Ok2|]. split; [nia|].
        destruct rest as [|[ty2 bs2] rest2]; [split; reflexivity|]. cbn [tx_pc_ok tx_mem_at]. split; [exact Logic.I|reflexivity].
      - apply (spec_transmit_log cap).
      - rewrite (inv_intent _ _ _ _ I'). destruct (tinv_facts c0 mm t ch TI) as (F1 & F2 & _).
        (* intent before the last step = the new tail *)
        rewrite Emm, (tx_intent_at_ok mm0 ty bs HT Hl Hty). unfold tx_intent_at.
        clear - Acc Hty1 I Hl. unfold spec_transmit. unfold accepted in Acc. apply andb_prop in Acc. destruct Acc as [A1 A2].
        apply negb_true_iff in A1. apply negb_true_iff in A2. rewrite A1, A2. cbn [fst c_tail]. unfold new_ents.
        rewrite (inv_tail _ _ _ _ I).
        destruct (cap - c_tail ch mod cap <? align (Z.of_nat (length bs) + 8) 8) eqn:P; cbn [last]; unfold e_end; cbn [e_pos e_len]; lia. }
  all: destruct SA as (Td' & Dn' & Rk & PcOk' & Emm');
    split; [|split; [exists []; now rewrite app_nil_r|]];
    [ exists mm0; rewrite Td'; split; [exact I|]; split; [exact Ok|]; split; [exact Bd|]; split; [exact PcOk'|exact Emm']
    | rewrite Emm' at 1; rewrite Emm, !(tx_intent_at_ok mm0 ty bs HT Hl Hty); apply IntRank; exact Rk ].
Qed.

(* ================================================================ receiver side: the seqlock read *)
Variables (m : mode) (hv : bool).
(* the version of the receiver: W64 (the code with the first two fixes) or W64R (receive_next validates again) *)
Variable w : vwidth.
Hypothesis Hw : w <> W32.

Definition position_of (ch : chan) (x : rx) (e : ent) : Prop :=
  In e (c_log ch) /\ is_pad e = false /\ cursor x = e_pos e /\ record_offset x = e_pos e mod cap.

Definition genuineb (ch : chan) (x : rx) : bool :=
  existsb (fun e => negb (is_pad e) && (cursor x =? e_pos e) && (record_offset x =? e_pos e mod cap)) (c_log ch).

Lemma genuineb_spec ch x : genuineb ch x = true -> exists e, position_of ch x e.
Proof.
  unfold genuineb. rewrite existsb_exists. intros (e & In & H). exists e.
  apply andb_prop in H. destruct H as [H H3]. apply andb_prop in H. destruct H as [H1 H2].
  apply negb_true_iff in H1. repeat split; auto; lia.
Qed.

(* in the copy phase of a receive (after receive_next) *)
Definition in_copy (pc : rpc) : bool :=
  match pc with RHLen | RHType _ | RValH _ _ | RCopy _ _ | RVal2 _ _ => true | _ => false end.

(* what the receiver has read so far is the record under its cursor, as long as that record cannot have been overwritten *)
Definition reads_ok (pc : rpc) (e : ent) : Prop :=
  match pc with
  | RHType len => len = e_len e - 8
  | RValH len ty | RCopy len ty => len = e_len e - 8 /\ ty = e_ty e
  | RVal2 ty bytes => ty = e_ty e /\ bytes = e_bs e
  | _ => True
  end.

Definition allmsgs (ch : chan) : list (Z * list Z) := map msg (filter (fun e => negb (is_pad e)) (c_log ch)).

Definition res_ok (ch : chan) (res : rres) : Prop :=
  match res with RMsg ty bs => In (ty, bs) (allmsgs ch) | _ => True end.

(* ok: every receive_next so far left the cursor on a record of the stream *)
Definition rinv (mm : mem) (r : rstate) (ch : chan) (ok : bool) : Prop :=
  ok = true ->
  Forall (res_ok ch) (r_out r) /\
  (in_copy (r_pc r) = true ->
   exists e, position_of ch (r_rx r) e /\ (get64 mm (intent_idx cap) <= e_pos e + cap -> reads_ok (r_pc r) e)).

Lemma allmsgs_in ch e : In e (c_log ch) -> is_pad e = false -> In (msg e) (allmsgs ch).
Proof. intros I P. unfold allmsgs. apply in_map. apply filter_In. split; auto. now rewrite P. Qed.

Lemma allmsgs_grow ch ch' p : (exists es, c_log ch' = c_log ch ++ es) -> In p (allmsgs ch) -> In p (allmsgs ch').
Proof. intros [es E] H. unfold allmsgs in *. rewrite E, filter_app, map_app. apply in_or_app. now left. Qed.

(* ghost-instrumented step of the two threads *)
Record gstate := mkG { g_s : cstate; g_ch : chan; g_ok : bool }.

Definition gstep (g : gstate) (tid : Z) : option gstate :=
  match step_thread m w hv cap (g_s g) tid with
  | None => None
  | Some s' =>
      if tid =? 0 then
        let t := c_tx (g_s g) in
        let ch' := match t_pc t, t_todo t with
                   | TTail _ _, (ty, bs) :: _ => fst (spec_transmit cap (g_ch g) ty bs)
                   | _, _ => g_ch g
                   end in
        Some {| g_s := s'; g_ch := ch'; g_ok := g_ok g |}
      else
        let commit := match r_pc (c_rx s'), r_pc (c_rx (g_s g)) with
                      | RHLen, RHLen => false | RHLen, _ => true | _, _ => false end in
        Some {| g_s := s'; g_ch := g_ch g; g_ok := g_ok g && (if commit then genuineb (g_ch g) (r_rx (c_rx s')) else true) |}
  end.

Definition ginv (c0 : Z) (g : gstate) : Prop :=
  tinv c0 (c_mem (g_s g)) (c_tx (g_s g)) (g_ch g) /\
  rinv (c_mem (g_s g)) (c_rx (g_s g)) (g_ch g) (g_ok g).

Lemma validate_cmp_true c it b : validate_cmp m w cap c it = Ok b -> 0 <= c < 2 ^ 62 -> b = (c + cap >? it).
Proof.
  intros H Hc. pose proof CB. unfold validate_cmp in H. destruct w; [contradiction|..];
  rewrite add64_ok in H by (unfold in_i64, two63; lia); cbn in H; congruence.
Qed.

Lemma of_outcome_ind {A} (P : rstate -> Prop) r (o : outcome A) kk :
  P (r_die r RPanicked) -> P (r_die r RCrashed) -> (forall a, o = Ok a -> P (kk a)) -> P (of_outcome r o kk).
Proof. intros H1 H2 H3. destruct o; cbn; auto. Qed.

Definition commit_of (pc' pc : rpc) : bool :=
  match pc', pc with RHLen, RHLen => false | RHLen, _ => true | _, _ => false end.

(* states that are not in the copy phase and whose new results are not deliveries *)
Lemma rinv_plain mm r r' ch ok :
  rinv mm r ch ok -> in_copy (r_pc r') = false ->
  (r_out r' = r_out r \/ exists res, r_out r' = res :: r_out r /\ res_ok ch res) ->
  rinv mm r' ch (ok && true).
Proof.
  intros RI NC Out Hok. rewrite andb_true_r in Hok. destruct (RI Hok) as [Fo _]. split.
  - destruct Out as [->|(res & -> & R)]; auto.
  - rewrite NC. discriminate.
Qed.

Lemma rinv_die mm r ch ok e : rinv mm r ch ok -> rinv mm (r_die r e) ch (ok && true).
Proof. intros RI Hok. rewrite andb_true_r in Hok. exact (RI Hok). Qed.

(* receive_next has just committed x1 *)
Lemma rinv_commit mm r x1 ch ok :
  rinv mm r ch ok -> in_copy (r_pc r) = false ->
  rinv mm (after_next r x1) ch (ok && (if commit_of (r_pc (after_next r x1)) (r_pc r) then genuineb ch (r_rx (after_next r x1)) else true)).
Proof.
  intros RI NC. unfold after_next. destruct (negb (lapped (r_rx r) =? lapped x1)).
  - cbn [r_finish r_pc commit_of]. apply (rinv_plain mm r); auto; try (left; reflexivity); try (right; eexists; split; [reflexivity|exact Logic.I]).
  - cbn [r_pc r_rx]. assert (C : commit_of RHLen (r_pc r) = true) by (destruct (r_pc r); auto; discriminate NC).
    rewrite C. intros Hok. apply andb_prop in Hok. destruct Hok as [Hok G]. destruct (RI Hok) as [Fo _].
    split; auto. intros _. destruct (genuineb_spec _ _ G) as [e Pe]. exists e. split; auto. intros _. exact Logic.I.
Qed.

Definition quiet_out (r r' : rstate) : Prop :=
  r_rx r' = r_rx r /\
  (r_out r' = r_out r \/ exists res, r_out r' = res :: r_out r /\ (forall ty bs, res <> RMsg ty bs)).

Lemma rinv_copy_step mm r r' ch ok :
  rinv mm r ch ok -> in_copy (r_pc r) = true -> quiet_out r r' ->
  (forall e, position_of ch (r_rx r) e -> get64 mm (intent_idx cap) <= e_pos e + cap ->
             reads_ok (r_pc r) e -> reads_ok (r_pc r') e) ->
  rinv mm r' ch (ok && true).
Proof.
  intros RI IC [Erx Out] Step Hok. rewrite andb_true_r in Hok. destruct (RI Hok) as [Fo Cp].
  destruct (Cp IC) as (e & Pe & Rd). split.
  - destruct Out as [->|(res & -> & NM)]; auto. constructor; auto. destruct res; cbn; auto. exfalso. eapply NM; eauto.
  - intros _. exists e. rewrite Erx. split; auto.
Qed.

Lemma quiet_set r pc : quiet_out r (r_set r pc).
Proof. split; [reflexivity|left; reflexivity]. Qed.
Lemma quiet_die r e : quiet_out r (r_die r e).
Proof. split; [reflexivity|left; reflexivity]. Qed.
Lemma quiet_finish_err r e : quiet_out r (r_finish r (r_rx r) (RErr e)).
Proof. split; [reflexivity|right; eexists; split; [reflexivity|intros; discriminate]]. Qed.

Lemma ginv_step c0 g tid g' : ginv c0 g -> gstep g tid = Some g' -> ginv c0 g'.
Proof.
  intros [TI RI] St. unfold gstep in St.
  destruct (step_thread m w hv cap (g_s g) tid) as [s'|] eqn:E; [|discriminate St].
  unfold step_thread in E. destruct (tid =? 0) eqn:T0.
  - (* a step of the transmitter *)
    destruct (tx_step cap (c_mem (g_s g)) (c_tx (g_s g))) as [[[t' mm'] ev]|] eqn:TS; [|discriminate E].
    injection E as <-. injection St as <-. unfold ginv. cbn [g_s g_ch g_ok c_mem c_tx c_rx].
    destruct (tinv_step c0 _ _ _ _ _ _ TI TS) as (TI' & Gr & Mono). split; [exact TI'|].
    fold (next_ch (g_ch g) (c_tx (g_s g))).
    intros Hok. destruct (RI Hok) as [Fo Cp]. split.
    + eapply Forall_impl; [|exact Fo]. intros res R. destruct res; cbn in *; auto. eapply allmsgs_grow; eauto.
    + intros IC. destruct (Cp IC) as (e & (In & Np & Cu & Ro) & Rd). exists e. split.
      * repeat split; auto. destruct Gr as [es ->]. apply in_or_app. now left.
      * intros Lv. apply Rd. lia.
  - destruct (tid =? 1) eqn:T1; [|discriminate E].
    destruct (rx_step m w hv cap (c_mem (g_s g)) (c_rx (g_s g))) as [[r' ev]|] eqn:RS; [|discriminate E].
    injection E as <-. injection St as <-. unfold ginv. cbn [g_s g_ch g_ok c_mem c_tx c_rx]. split; [exact TI|].
    fold (commit_of (r_pc r') (r_pc (c_rx (g_s g)))).
    set (mm := c_mem (g_s g)) in *. set (r := c_rx (g_s g)) in *. set (ch := g_ch g) in *. set (ok := g_ok g) in *.
    destruct (tinv_facts c0 mm _ ch TI) as (FT & FI & Live).
    pose proof TI as (mm0 & Inv0 & _). pose proof (inv_wf _ _ _ _ Inv0) as WF. rewrite Forall_forall in WF.
    unfold rx_step in RS. destruct (r_finished r); [discriminate RS|]. injection RS as <- _.
    unfold rx_next. destruct (r_pc r) eqn:Pc; cbv zeta.
    + (* RIdle *)
      destruct (get64 mm (tail_idx cap) >? next_record (r_rx r)); cbn [r_set r_finish r_pc commit_of].
      * apply (rinv_plain mm r); auto; try (left; reflexivity); try (right; eexists; split; [reflexivity|exact Logic.I]).
      * apply (rinv_plain mm r); auto; try (left; reflexivity); try (right; eexists; split; [reflexivity|exact Logic.I]).
    + (* RVal1 *)
      apply (of_outcome_ind (fun r' => rinv mm r' ch (ok && (if commit_of (r_pc r') RVal1 then genuineb ch (r_rx r') else true)))).
      * cbn [r_die r_pc commit_of]. rewrite Pc. cbn [commit_of]. now apply rinv_die.
      * cbn [r_die r_pc commit_of]. rewrite Pc. cbn [commit_of]. now apply rinv_die.
      * intros v _. destruct v; cbn [r_set r_pc commit_of]; apply (rinv_plain mm r); auto; try (left; reflexivity); try (right; eexists; split; [reflexivity|exact Logic.I]).
    + (* RLatest *)
      cbn [r_set r_pc commit_of]. apply (rinv_plain mm r); auto; try (left; reflexivity); try (right; eexists; split; [reflexivity|exact Logic.I]).
    + (* RLen *)
      destruct (revalidates w).
      { cbn [r_set r_pc commit_of]. apply (rinv_plain mm r); auto; left; reflexivity. }
      apply (of_outcome_ind (fun r' => rinv mm r' ch (ok && (if commit_of (r_pc r') (RLen c lp) then genuineb ch (r_rx r') else true)))).
      * cbn [r_die r_pc commit_of]. rewrite Pc. cbn [commit_of]. now apply rinv_die.
      * cbn [r_die r_pc commit_of]. rewrite Pc. cbn [commit_of]. now apply rinv_die.
      * intros v _. cbn [r_set r_pc commit_of]. apply (rinv_plain mm r); auto; try (left; reflexivity); try (right; eexists; split; [reflexivity|exact Logic.I]).
    + (* RType *)
      destruct (get32 mm (Z.land (wrap32 c) (cap - 1) + 4) =? PADDING).
      * cbn [r_set r_pc commit_of]. apply (rinv_plain mm r); auto; try (left; reflexivity); try (right; eexists; split; [reflexivity|exact Logic.I]).
      * rewrite <- Pc. apply rinv_commit; auto. now rewrite Pc.
    + (* RLen0 *)
      apply (of_outcome_ind (fun r' => rinv mm r' ch (ok && (if commit_of (r_pc r') (RLen0 c lp nr) then genuineb ch (r_rx r') else true)))).
      * cbn [r_die r_pc commit_of]. rewrite Pc. cbn [commit_of]. now apply rinv_die.
      * cbn [r_die r_pc commit_of]. rewrite Pc. cbn [commit_of]. now apply rinv_die.
      * intros v _. rewrite <- Pc. apply rinv_commit; auto. now rewrite Pc.
    + (* RTypeR *)
      destruct (get32 mm (Z.land (wrap32 c) (cap - 1) + 4) =? PADDING);
        cbn [r_set r_pc commit_of]; apply (rinv_plain mm r); auto; left; reflexivity.
    + (* RLen0R *)
      cbn [r_set r_pc commit_of]. apply (rinv_plain mm r); auto; left; reflexivity.
    + (* RVal3: the repaired receive_next validates again, then uses the words it read *)
      apply (of_outcome_ind (fun r' => rinv mm r' ch (ok && (if commit_of (r_pc r') (RVal3 c lp l1 pad l0) then genuineb ch (r_rx r') else true)))).
      * cbn [r_die r_pc commit_of]. rewrite Pc. cbn [commit_of]. now apply rinv_die.
      * cbn [r_die r_pc commit_of]. rewrite Pc. cbn [commit_of]. now apply rinv_die.
      * intros v _. destruct v.
        2:{ cbn [r_set r_pc commit_of]. apply (rinv_plain mm r); auto; left; reflexivity. }
        apply (of_outcome_ind (fun r' => rinv mm r' ch (ok && (if commit_of (r_pc r') (RVal3 c lp l1 pad l0) then genuineb ch (r_rx r') else true)))).
        -- cbn [r_die r_pc commit_of]. rewrite Pc. cbn [commit_of]. now apply rinv_die.
        -- cbn [r_die r_pc commit_of]. rewrite Pc. cbn [commit_of]. now apply rinv_die.
        -- intros nr _. destruct pad.
           ++ apply (of_outcome_ind (fun r' => rinv mm r' ch (ok && (if commit_of (r_pc r') (RVal3 c lp l1 true l0) then genuineb ch (r_rx r') else true)))).
              ** cbn [r_die r_pc commit_of]. rewrite Pc. cbn [commit_of]. now apply rinv_die.
              ** cbn [r_die r_pc commit_of]. rewrite Pc. cbn [commit_of]. now apply rinv_die.
              ** intros nr2 _. rewrite <- Pc. apply rinv_commit; auto. now rewrite Pc.
           ++ rewrite <- Pc. apply rinv_commit; auto. now rewrite Pc.
    + (* RLatest3 *)
      rewrite <- Pc. apply rinv_commit; auto. now rewrite Pc.
    + (* RHLen: receiver.length() *)
      set (r' := of_outcome r _ _).
      assert (C : commit_of (r_pc r') RHLen = false) by (destruct (r_pc r'); reflexivity). rewrite C.
      apply (rinv_copy_step mm r); auto; [now rewrite Pc| |].
      * subst r'. apply (of_outcome_ind (quiet_out r)); try apply quiet_die.
        intros len _. destruct hv; [apply quiet_set|]. destruct (len >? SCRATCH); [apply quiet_finish_err|apply quiet_set].
      * intros e (In & Np & Cu & Ro) Lv _. destruct (Live e In Lv) as (I1 & I2 & I3).
        destruct (WF e In) as (P0 & P8 & Ln & Crs & Ex & Ty & NP & _).
        subst r'. rewrite Ro, I1. rewrite sub32_ok by (unfold in_i32, two31, HL, BC_HEADER_LENGTH; pose proof CB; lia).
        cbn [of_outcome]. change HL with 8.
        destruct hv; [reflexivity|]. destruct (e_len e - 8 >? SCRATCH); [exact Logic.I|reflexivity].
    + (* RHType: receiver.type_id() *)
      match goal with |- rinv _ ?x _ _ => set (r' := x) end.
      assert (C : commit_of (r_pc r') (RHType len) = false).
      { subst r'. destruct hv; [reflexivity|]. destruct (negb _); cbn [r_die r_set r_pc]; [rewrite Pc|]; reflexivity. }
      rewrite C. apply (rinv_copy_step mm r); auto; [now rewrite Pc| |].
      * subst r'. destruct hv; [apply quiet_set|]. destruct (negb _); [apply quiet_die|apply quiet_set].
      * intros e (In & Np & Cu & Ro) Lv Rd. rewrite Pc in Rd. cbn [reads_ok] in Rd.
        destruct (Live e In Lv) as (I1 & I2 & I3). subst r'. rewrite Ro, I2.
        destruct hv; [cbn; auto|]. destruct (negb (known_type (e_ty e))); cbn [r_die r_set r_pc reads_ok]; [rewrite Pc; exact Rd|auto].
    + (* RValH: repaired code, validate before the header words are used *)
      set (r' := of_outcome r _ _).
      assert (Q : quiet_out r r' /\ (r_pc r' = RValH len ty \/ r_pc r' = RIdle \/ r_pc r' = RCopy len ty)).
      { subst r'. apply (of_outcome_ind (fun r' => quiet_out r r' /\ (r_pc r' = RValH len ty \/ r_pc r' = RIdle \/ r_pc r' = RCopy len ty))).
        - split; [apply quiet_die|left; exact Pc]. - split; [apply quiet_die|left; exact Pc].
        - intros v _. destruct (negb v); [split; [apply quiet_finish_err|right; left; reflexivity]|].
          destruct (len >? SCRATCH); [split; [apply quiet_finish_err|right; left; reflexivity]|].
          destruct (negb (known_type ty)); [split; [apply quiet_die|left; exact Pc]|split; [apply quiet_set|right; right; reflexivity]]. }
      destruct Q as [Q Pcs].
      assert (C : commit_of (r_pc r') (RValH len ty) = false) by (destruct Pcs as [->|[->| ->]]; reflexivity).
      rewrite C. apply (rinv_copy_step mm r); auto; [now rewrite Pc|].
      intros e _ _ Rd. rewrite Pc in Rd. destruct Pcs as [->|[->| ->]]; cbn [reads_ok] in *; auto.
    + (* RCopy: the scratch copy *)
      match goal with |- rinv _ ?x _ _ => set (r' := x) end.
      assert (C : commit_of (r_pc r') (RCopy len ty) = false).
      { subst r'. destruct (_ || _); cbn [r_die r_set r_pc]; [rewrite Pc|]; reflexivity. }
      rewrite C. apply (rinv_copy_step mm r); auto; [now rewrite Pc| |].
      * subst r'. destruct (_ || _); [apply quiet_die|apply quiet_set].
      * intros e (In & Np & Cu & Ro) Lv Rd. rewrite Pc in Rd. cbn [reads_ok] in Rd. destruct Rd as [Rl Rt].
        destruct (Live e In Lv) as (I1 & I2 & I3).
        destruct (WF e In) as (P0 & P8 & Ln & Crs & Ex & Ty & NP & _). specialize (NP Np).
        subst r'. destruct (_ || _); cbn [r_die r_set r_pc reads_ok]; [rewrite Pc; cbn; auto|].
        split; auto. rewrite Ro. change HL with 8. rewrite Rl, NP.
        replace (Z.to_nat (8 + Z.of_nat (length (e_bs e)) - 8)) with (length (e_bs e)) by lia. exact I3.
    + (* RVal2: the last validate; the handler runs only if it succeeds *)
      apply (of_outcome_ind (fun r' => rinv mm r' ch (ok && (if commit_of (r_pc r') (RVal2 ty bytes) then genuineb ch (r_rx r') else true)))).
      * cbn [r_die r_pc]. rewrite Pc. cbn [commit_of]. now apply rinv_die.
      * cbn [r_die r_pc]. rewrite Pc. cbn [commit_of]. now apply rinv_die.
      * intros v Ev. cbn [r_finish r_pc commit_of]. intros Hok. rewrite andb_true_r in Hok.
        destruct (RI Hok) as [Fo Cp]. rewrite Pc in Cp. destruct (Cp eq_refl) as (e & (In & Np & Cu & Ro) & Rd).
        split; [|cbn [in_copy]; discriminate]. cbn [r_finish r_out]. constructor; auto.
        destruct v; [|exact Logic.I]. cbn [res_ok].
        destruct (WF e In) as (P0 & _).
        destruct (chain_bounds cap k Hcap Hk _ _ _ (inv_wf _ _ _ _ Inv0) (inv_chain _ _ _ _ Inv0)) as [_ F].
        rewrite Forall_forall in F. specialize (F e In).
        assert (Bd62 : c_tail ch < 2 ^ 62).
        { destruct TI as (mm1 & _ & _ & B & _). pose proof CB. nia. }
        pose proof (e_end_gt cap k Hcap Hk e (WF e In)) as Eg.
        apply validate_cmp_true in Ev; [|rewrite Cu; lia].
        assert (Lv : get64 mm (intent_idx cap) <= e_pos e + cap) by (rewrite Cu in Ev; lia).
        destruct (Rd Lv) as [-> ->]. apply (allmsgs_in ch e In Np).
Qed.


(* ================================================================ every interleaving *)
Fixpoint grun (g : gstate) (sched : list Z) : gstate :=
  match sched with
  | [] => g
  | t :: rest => match gstep g t with Some g' => grun g' rest | None => grun g rest end
  end.

Lemma grun_inv c0 sched : forall g, ginv c0 g -> ginv c0 (grun g sched).
Proof.
  induction sched as [|t rest IH]; intros g G; cbn [grun]; auto.
  destruct (gstep g t) as [g'|] eqn:E; auto. apply IH. eapply ginv_step; eauto.
Qed.

(* the ghost components do not influence the machine *)
Lemma grun_erase sched : forall g, g_s (grun g sched) = run_schedule m w hv cap (g_s g) sched.
Proof.
  induction sched as [|t rest IH]; intros g; cbn [grun run_schedule]; auto.
  unfold gstep. destruct (step_thread m w hv cap (g_s g) t) as [s'|] eqn:E; [|apply IH].
  destruct (t =? 0); rewrite IH; reflexivity.
Qed.

(* the messages of the completed transmits plus the ones still to do are the ones handed to the transmitter *)
Lemma allmsgs_transmit ch ty bs :
  accepted cap ty bs = true -> allmsgs (fst (spec_transmit cap ch ty bs)) = allmsgs ch ++ [(ty, bs)].
Proof.
  intros Acc. unfold accepted in Acc. apply andb_prop in Acc. destruct Acc as [A1 A2].
  apply negb_true_iff in A1. apply negb_true_iff in A2.
  unfold spec_transmit. rewrite A1, A2. cbn [fst]. unfold allmsgs. cbn [c_log]. rewrite filter_app, map_app. f_equal.
  unfold new_ents. assert (N : (ty =? -1) = false) by lia.
  destruct (cap - c_tail ch mod cap <? align (Z.of_nat (length bs) + 8) 8); cbn [filter]; unfold is_pad; cbn [e_ty];
    rewrite N; cbn [negb map]; try replace (-1 =? -1) with true by reflexivity; cbn [negb map]; reflexivity.
Qed.

Lemma allmsgs_pre pre : forall ch, allmsgs (spec_pre cap ch pre) = allmsgs ch ++ transmitted_pre cap pre.
Proof.
  induction pre as [|[ty bs] pre IH]; intros ch; cbn [spec_pre transmitted_pre filter fst snd].
  - now rewrite app_nil_r.
  - destruct (accepted cap ty bs) eqn:Acc.
    + rewrite IH, allmsgs_transmit by auto. now rewrite <- app_assoc.
    + destruct (spec_transmit_rejected cap ch ty bs Acc) as (E & _). rewrite E. apply IH.
Qed.

Definition sent_inv (all : list (Z * list Z)) (g : gstate) : Prop :=
  allmsgs (g_ch g) ++ t_todo (c_tx (g_s g)) = all /\ Forall msg_ok (t_todo (c_tx (g_s g))).

Lemma tx_step_todo mm t t' mm' ev :
  tx_step cap mm t = Some (t', mm', ev) ->
  match t_pc t, t_todo t with
  | TTail _ _, _ :: rest => t_todo t' = rest
  | _, _ => t_todo t' = t_todo t
  end.
Proof.
  unfold tx_step. destruct (t_todo t) as [|[ty bs] rest]; [discriminate|].
  destruct (t_pc t); try destruct (_ <? _); intros H; injection H as <- _ _; reflexivity.
Qed.

Lemma sent_step all g tid g' : sent_inv all g -> gstep g tid = Some g' -> sent_inv all g'.
Proof.
  intros [S Ok] St. unfold gstep in St.
  destruct (step_thread m w hv cap (g_s g) tid) as [s'|] eqn:E; [|discriminate St].
  unfold step_thread in E. destruct (tid =? 0) eqn:T0.
  - destruct (tx_step cap (c_mem (g_s g)) (c_tx (g_s g))) as [[[t' mm'] ev]|] eqn:TS; [|discriminate E].
    injection E as <-. injection St as <-. unfold sent_inv. cbn [g_s g_ch c_tx].
    pose proof (tx_step_todo _ _ _ _ _ TS) as TD.
    destruct (t_todo (c_tx (g_s g))) as [|[ty bs] rest] eqn:Td.
    + destruct (t_pc (c_tx (g_s g))); rewrite TD; split; auto.
    + apply Forall_cons_iff in Ok. destruct Ok as [[Acc Ty] Ok2]. cbn [fst snd] in Acc.
      destruct (t_pc (c_tx (g_s g))); rewrite TD; try (split; [exact S|constructor; [split; auto|auto]]).
      split; auto. rewrite allmsgs_transmit by auto. rewrite <- app_assoc. exact S.
  - destruct (tid =? 1); [|discriminate E].
    destruct (rx_step m w hv cap (c_mem (g_s g)) (c_rx (g_s g))) as [[r' ev]|]; [|discriminate E].
    injection E as <-. injection St as <-. split; assumption.
Qed.

Lemma grun_sent all sched : forall g, sent_inv all g -> sent_inv all (grun g sched).
Proof.
  induction sched as [|t rest IH]; intros g G; cbn [grun]; auto.
  destruct (gstep g t) as [g'|] eqn:E; auto. apply IH. eapply sent_step; eauto.
Qed.

Definition ginit (c0 : Z) (pre msgs : list (Z * list Z)) (nrecv : nat) : gstate :=
  {| g_s := init_cstate cap c0 pre msgs nrecv; g_ch := spec_pre cap (chan_init c0) pre; g_ok := true |}.

Definition conc_ok (c0 : Z) (pre msgs : list (Z * list Z)) : Prop :=
  0 <= c0 /\ c0 mod 8 = 0 /\ Forall (fun p => in_i32 (fst p) = true) pre /\ Forall msg_ok msgs /\
  c0 + 2 * cap * (Z.of_nat (length pre) + Z.of_nat (length msgs)) < 2 ^ 62.

Lemma ginit_inv c0 pre msgs nrecv :
  conc_ok c0 pre msgs ->
  ginv c0 (ginit c0 pre msgs nrecv) /\ sent_inv (transmitted_pre cap pre ++ msgs) (ginit c0 pre msgs nrecv).
Proof.
  intros (H0 & H8 & Op & Om & Bd). pose proof CB.
  assert (I0 : inv cap c0 (init_mem cap c0) (chan_init c0)) by (apply (inv_init cap k Hcap Hk); auto; nia).
  destruct (pre_refines cap k Hcap Hk Release c0 pre _ _ I0 Op) as [I1 B1]; [cbn [chan_init c_tail]; nia|].
  cbn [chan_init c_tail] in B1.
  unfold ginit, ginv, sent_inv, init_cstate. cbn [g_s g_ch g_ok c_mem c_tx c_rx t_todo]. split; [split|split].
  - exists (pre_run Release cap (init_mem cap c0) pre). split; [exact I1|]. cbn [t_todo t_pc]. split; [exact Om|]. split; [nia|].
    destruct msgs as [|[ty bs] rest]; [split; reflexivity|]. cbn [tx_pc_ok tx_mem_at]. split; [exact Logic.I|reflexivity].
  - intros _. cbn [r_out r_pc in_copy]. split; [constructor|discriminate].
  - rewrite allmsgs_pre. reflexivity.
  - exact Om.
Qed.

(* C08_seqlock (see Props/C08.v) *)
Theorem seqlock_delivery c0 pre msgs nrecv sched :
  conc_ok c0 pre msgs ->
  let g := grun (ginit c0 pre msgs nrecv) sched in
  g_s g = run_schedule m w hv cap (init_cstate cap c0 pre msgs nrecv) sched /\
  (g_ok g = true ->
   Forall (fun res => match res with RMsg ty bs => In (ty, bs) (transmitted_pre cap pre ++ msgs) | _ => True end)
          (r_out (c_rx (g_s g)))).
Proof.
  intros OK g. destruct (ginit_inv c0 pre msgs nrecv OK) as [GI SI].
  split; [apply grun_erase|]. intros Hok.
  destruct (grun_inv c0 sched _ GI) as [_ RI]. fold g in RI. destruct (RI Hok) as [Fo _].
  destruct (grun_sent _ sched _ SI) as [S _]. fold g in S.
  eapply Forall_impl; [|exact Fo]. intros res R. destruct res; auto. cbn [res_ok] in R.
  rewrite <- S. apply in_or_app. now left.
Qed.

End Threads.
