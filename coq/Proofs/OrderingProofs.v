(* K1 for C03: the ordering class every hooked accessor gets from the regenerated fence / atomic-operation table. *)
Require Import V.Base.MachineInt.
Require Import V.Generated.GenConsts.
Require Import V.Generated.GenOrdering.
Require Import V.Model.Sched.
Require Import V.Oracle.C03Oracle.
Require Coq.Strings.String.
Open Scope Z_scope.

Definition aclass_eqb (a b : aclass) : bool :=
  match a, b with
  | CPlainR, CPlainR | CPlainW, CPlainW | CAcqR, CAcqR | CRelW, CRelW | CScW, CScW | CRmw, CRmw | CNone, CNone
  | CUnknown, CUnknown => true
  | _, _ => false
  end.

Lemma get_volatile_is_acquire : cls GetVolatile = CAcqR. Proof. reflexivity. Qed.
Lemma put_ordered_is_release : cls PutOrdered = CRelW. Proof. reflexivity. Qed.
Lemma add_ordered_is_release : cls AddI64Ordered = CRelW. Proof. reflexivity. Qed.
Lemma put_atomic_is_sc : cls PutAtomicI64 = CScW. Proof. reflexivity. Qed.
Lemma cas_faa_are_rmw : cls CompareAndSetI32 = CRmw /\ cls CompareAndSetI64 = CRmw /\ cls GetAndAddI64 = CRmw.
Proof. repeat split; reflexivity. Qed.
Lemma plain_accessors :
  cls Get = CPlainR /\ cls GetBytes = CPlainR /\ cls RegionRead = CPlainR /\
  cls Put = CPlainW /\ cls PutBytes = CPlainW /\ cls CopyFrom = CPlainW /\ cls SetMemory = CPlainW /\ cls RegionWrite = CPlainW.
Proof. repeat split; reflexivity. Qed.
Lemma exclusive_tail_accessors : cls ExclRawTail = CPlainR /\ cls ExclPutRawTailOrdered = CRelW.
Proof. split; reflexivity. Qed.

(* every other function that reports one of the kinds has the class of the kind it reports *)
Lemma secondary_consistent :
  forallb (fun x => aclass_eqb (class_of_ops (inline ordering_table 3 (snd x))) (cls (snd (fst x)))) secondary_table = true.
Proof. reflexivity. Qed.

(* the header burst never touches the length word: the frame stays uncommitted (negative length) while it is written *)
Lemma header_burst_skips_length : GenConsts.DFH_FRAME_LENGTH_FIELD_OFFSET + 4 <= burst_lo /\ burst_hi <= GenConsts.DFH_RESERVED_VALUE_FIELD_OFFSET.
Proof. vm_compute. split; discriminate. Qed.

(* the fence helpers of atomics.rs *)
Module Helpers.
Import Coq.Strings.String.
Lemma atomics_helpers :
  atomics_table = [("thread_fence"%string, [Fence AcqRel]); ("fence"%string, [Fence SeqCst]);
                   ("acquire"%string, [Fence Acquire]); ("release"%string, [Fence Release])].
Proof. reflexivity. Qed.
End Helpers.
