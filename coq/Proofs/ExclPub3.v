(* C03, exclusive publisher: three ways to establish the publisher invariant; a step inside a frame. *)
Require Import V.Base.MachineInt.
Require Import V.Generated.GenConsts.
Require Import V.Model.LogBase.
Require Import V.Model.Descriptor.
Require Import V.Model.Sched.
Require Import V.Model.AppenderThreads.
Require Import V.Model.ReaderThreads.
Require Import V.Model.ExclThreads.
Require Import V.Model.PollThreads.
Require Import V.Model.ClaimThreads.
Require Import V.Proofs.TailArith.
Require Import V.Proofs.FragArith.
Require Import V.Proofs.ExclDefs V.Proofs.ExclPub1 V.Proofs.ExclPub2.
From Coq Require Import ZifyBool.
Open Scope Z_scope.

Section P.
  Variable c : cfg.
  Hypothesis W : wf_cfg c.

  Lemma front_frame l : in_frame (x_pc l) = true -> front l = x_foff l.
  Proof. unfold front. destruct (x_pc l); intros; try discriminate; reflexivity. Qed.

  Lemma in_frame_not_pad pc : in_frame pc = true -> in_pad pc = false.
  Proof. destruct pc; intros; try discriminate; reflexivity. Qed.

  (* the slot at the front of the publisher's partition is not a committed one *)
  Lemma front_free gh l : XPInv c gh l -> laidinv c gh -> lookup (front l) (xg_fr gh (x_idx l)) = None.
  Proof. intros I L. destruct (L (x_idx l)) as (L1 & _). rewrite <- (xp_front c gh l I). eapply laid_lookup_end. eassumption. Qed.

  (* three ways to establish the publisher's invariant *)
  Lemma idle_like gh l : xgeom c gh (x_tbp l) (x_idx l) (x_tid l) -> 0 <= x_toff l <= TL c -> x_toff l mod 32 = 0 ->
    xg_hi gh (x_idx l) = x_toff l -> in_frame (x_pc l) = false -> in_pad (x_pc l) = false ->
    (x_pc l = XTail -> x_resoff l = x_toff l + required c (x_len l) /\
                       (is_claim (x_item l) = false -> is_fragmented c (x_len l) = true -> x_len l <= max_msg c)) ->
    (is_claim (x_item l) = true -> x_pc l <> XDone -> x_len l <= max_payload c) ->
    XPInv c gh l.
  Proof. intros G T1 T2 Hh F P Ht Hc. constructor; try assumption; try (split; assumption).
    - rewrite Hh. unfold front. destruct (x_pc l); try discriminate; reflexivity.
    - rewrite F. intros; discriminate.
    - intros X Y. split; [auto | rewrite F; intros; discriminate].
    - intros _. destruct (x_pc l); try discriminate; reflexivity.
    - intros _. destruct (x_pc l); try discriminate; reflexivity.
    - intros X. rewrite X in F. discriminate.
    - split; intros X; rewrite X in F; discriminate.
    - rewrite P. intros; discriminate.
    - destruct (x_pc l); try discriminate; intros; discriminate. Qed.

  Lemma pad_like gh l : xgeom c gh (x_tbp l) (x_idx l) (x_tid l) -> 0 <= x_toff l < TL c -> x_toff l mod 32 = 0 ->
    xg_hi gh (x_idx l) = x_toff l -> in_pad (x_pc l) = true ->
    (is_claim (x_item l) = true -> x_len l <= max_payload c) ->
    XPInv c gh l.
  Proof. intros G T1 T2 Hh P Hc.
    assert (F : in_frame (x_pc l) = false) by (destruct (x_pc l); try discriminate; reflexivity).
    constructor; try assumption; try (split; [lia | assumption]).
    - rewrite Hh. unfold front. destruct (x_pc l); try discriminate; reflexivity.
    - intros X. rewrite X in P. discriminate.
    - rewrite F. intros; discriminate.
    - intros X Y. split; [auto | rewrite F; intros; discriminate].
    - intros _. destruct (x_pc l); try discriminate; reflexivity.
    - intros _. destruct (x_pc l); try discriminate; reflexivity.
    - intros X. rewrite X in F. discriminate.
    - split; intros X; rewrite X in F; discriminate.
    - intros _. lia.
    - destruct (x_pc l); try discriminate; intros; discriminate. Qed.

  Lemma frame_like gh l : xgeom c gh (x_tbp l) (x_idx l) (x_tid l) -> 0 <= x_toff l <= TL c -> x_toff l mod 32 = 0 ->
    xg_hi gh (x_idx l) = x_foff l -> in_frame (x_pc l) = true ->
    (0 <= x_rem l <= x_len l /\ x_foff l + span c (Z.to_nat (x_rem l)) (x_rem l) = x_resoff l /\ x_resoff l <= TL c /\
     0 <= x_foff l /\ x_foff l mod 32 = 0) ->
    (is_claim (x_item l) = true -> x_len l <= max_payload c /\ x_rem l = x_len l) ->
    (is_claim (x_item l) = false -> in_claim (x_pc l) = false) -> (is_claim (x_item l) = true -> in_offer (x_pc l) = false) ->
    (x_pc l = XFlags -> is_fragmented c (x_len l) = true) ->
    (x_pc l = XCSet -> item_sets (x_item l) = x_done l ++ x_sets l /\ x_sets l <> []) -> (x_pc l = XCAbort -> item_abort (x_item l) = true) ->
    (in_claim (x_pc l) = true -> x_toff l = x_resoff l) ->
    XPInv c gh l.
  Proof. intros G T1 T2 Hh F Hfit Hc S1 S2 S3 S4 S5 S6. constructor; try assumption; try (split; assumption).
    - rewrite Hh. symmetry. apply front_frame. assumption.
    - intros X. rewrite X in F. discriminate.
    - intros _. assumption.
    - intros X _. destruct (Hc X). split; [assumption | intros _; assumption].
    - rewrite in_frame_not_pad by assumption. intros; discriminate. Qed.

  (* a step inside a frame: the program counter moves (and the setters still to call, the stored term offset of a claim),
     one field of the frame is written *)
  Lemma stage_step gh l l' s v :
    XPInv c gh l -> memok c s gh (Some l) -> laidinv c gh ->
    in_frame (x_pc l) = true -> in_frame (x_pc l') = true ->
    x_todo l' = x_todo l -> 0 <= x_toff l' <= TL c -> x_toff l' mod 32 = 0 -> x_tid l' = x_tid l -> x_idx l' = x_idx l ->
    x_tbp l' = x_tbp l -> x_resoff l' = x_resoff l -> x_foff l' = x_foff l -> x_rem l' = x_rem l ->
    cur c l' = Some (x_foff l, v) -> (cur c l = None \/ exists sl, cur c l = Some (x_foff l, sl)) ->
    (is_claim (x_item l) = false -> in_claim (x_pc l') = false) -> (is_claim (x_item l) = true -> in_offer (x_pc l') = false) ->
    (x_pc l' = XFlags -> is_fragmented c (x_len l) = true) ->
    (x_pc l' = XCSet -> item_sets (x_item l) = x_done l' ++ x_sets l' /\ x_sets l' <> []) ->
    (x_pc l' = XCAbort -> item_abort (x_item l) = true) ->
    (in_claim (x_pc l') = true -> x_toff l' = x_resoff l) ->
    XPInv c gh l' /\ memok c (with_mem s (mupd (sh_mem s) (x_idx l) (x_foff l) v)) gh (Some l').
  Proof. intros I M L F F' E1 E2a E2b E3 E4 E5 E6 E7 E8 Hc' Hc S1 S2 S3 S4 S5 S6.
    assert (Ei : x_item l' = x_item l) by (unfold x_item; rewrite E1; reflexivity).
    assert (El : x_len l' = x_len l) by (unfold x_len; rewrite Ei; reflexivity).
    split.
    - destruct I as [I1 I2 I3 I4 I5 I6 I7 I8 I9 I10 I11 I12].
      apply frame_like; rewrite ?Ei, ?El, ?E3, ?E4, ?E5, ?E6, ?E7, ?E8; try assumption.
      + rewrite I3. apply front_frame. assumption.
      + apply I5. assumption.
      + intros X. assert (Y : x_pc l <> XDone) by (intros E; rewrite E in F; discriminate). destruct (I6 X Y) as (A & B). auto.
    - apply (mem_stage c s gh l l' (x_foff l) v M E4); try assumption.
      rewrite <- (front_frame l F). apply front_free; assumption. Qed.

  Lemma cur_toff l v : in_frame (x_pc l) = true -> cur c (xl_toff l v) = cur c l.
  Proof. unfold cur. cbn. destruct (x_pc l); intros; try discriminate; reflexivity. Qed.
End P.
