(* C03, the prefix part: invariant of the polling subscriber running against any number of publishers (any of
   which may be stopped for ever: a stopped thread is one that is never scheduled again).

   - a frame whose length word the subscriber saw positive is a committed, complete frame of some claim:
     header and payload exactly as the publisher's message dictates (committed_is_complete);
   - everything between the start of the term and the subscriber's cursor is committed frames (gen_upto);
   - the subscriber position counter obeys the same (cursor_ok), so it never passes a frame that is claimed
     but not committed. *)
Require Import V.Base.MachineInt.
Require Import V.Generated.GenConsts.
Require Import V.Model.LogBase.
Require Import V.Model.Descriptor.
Require Import V.Proofs.DescriptorProofs.
Require Import V.Model.Sched.
Require Import V.Model.AppenderThreads.
Require Import V.Model.ReaderThreads.
Require Import V.Proofs.TailArith.
Require Import V.Proofs.FragArith.
Require Import V.Proofs.AppenderInv.
Require Import V.Proofs.AppenderLemmas.
Require Import V.Proofs.AppenderFrame.
Require Import V.Proofs.AppenderSteps.
Require Import V.Proofs.AppenderFaa.
Require Import V.Proofs.AppenderRotate.
Require Import V.Proofs.AppenderSystem.
Require Import V.Proofs.C02Quiescent.
From Coq Require Import ZifyBool.
Open Scope Z_scope.

Section Rd.
  Variable c : cfg.
  Hypothesis W : wf_cfg c.

  (* a positive length word in a live partition belongs to a completely written frame of a claim *)
  Theorem committed_is_complete s gh P g o : AppInv c s gh P -> live c s gh g -> c_n0 c <= g ->
    0 < s_len (sh_mem s (g mod 3) o) ->
    exists e, In e (g_claims gh g) /\ In (o, sh_mem s (g mod 3) o) (efrags c g e).
  Proof. intros I L Hn0 Hlen. pose proof (iv_A c s gh P I) as A. destruct L as (L1 & L2).
    assert (Hp : 0 <= g mod 3 < 3) by (apply Z.mod_pos_bound; lia).
    destruct (iv_mem c s gh P I _ Hp) as (_ & M2). rewrite L1 in M2.
    assert (Hnz : sh_mem s (g mod 3) o <> zslot) by (intros E; rewrite E in Hlen; cbn in Hlen; lia).
    destruct (M2 Hn0 L2 o Hnz) as (e & He & Hin). exists e. split; [assumption|].
    apply in_map_iff in Hin. destruct Hin as ([o1 sl] & E1 & Hin). cbn in E1. subst o1.
    assert (L : live c s gh g) by (split; assumption).
    destruct (iv_ent c s gh P I g e He) as (_ & Ha & Ham & Hb & l0 & HP0 & Hj & Hinf & Hdone).
    destruct (Nat.eq_dec (e_j e) (length (p_res l0))) as [Ej | Ej].
    - (* the claim is in flight *)
      destruct (Hinf Ej) as (Hi & Hme & Hcnt). pose proof (iv_thr c s gh P I _ _ HP0) as HT.
      destruct (writing (p_pc l0)) eqn:Ew; [|destruct (padding (p_pc l0)) eqn:Ep].
      + destruct (wr_clauses c s gh _ l0 HT Ew) as (_ & _ & _ & _ & B & (R0 & done & Hsplit & Hd & Hc & Hr)).
        rewrite Hcnt, Hme in *. destruct (rest_frags_cons c W l0) as (r & Hrest). rewrite Hrest in *. cbn [tl] in Hr.
        rewrite Hsplit in Hin. apply in_app_or in Hin. destruct Hin as [Hin | [Hin | Hin]].
        * rewrite (Hd o sl Hin). rewrite Hsplit. apply in_or_app. left. assumption.
        * inversion Hin; subst o sl. exfalso. rewrite Hc in Hlen. unfold stage in Hlen.
          pose proof (mp_pos c W) as [Hmp _].
          destruct (p_pc l0); try discriminate Ew; cbn in Hlen; unfold st4 in Hlen; try destruct (is_fragmented c _);
            cbn in Hlen; unfold flen, fbytes in Hlen; rewrite ?HDR_32 in Hlen; lia.
        * exfalso. rewrite (Hr o sl Hin) in Hlen. cbn in Hlen. lia.
      + destruct (pad_clauses c s gh _ l0 HT Ep) as (_ & _ & _ & _ & B & Hc).
        rewrite Hcnt in *. pose proof (pad_efrags c (e_t e) l0 B) as Hef. rewrite Hcnt, Hme in Hef. rewrite Hef in Hin.
        destruct Hin as [Hin | []]. inversion Hin; subst o sl. exfalso. rewrite Hc in Hlen. unfold stage in Hlen.
        destruct (p_pc l0); try discriminate Ep; cbn in Hlen; lia.
      + assert (Er : rotating (p_pc l0) = true) by (destruct (p_pc l0); try discriminate; reflexivity).
        destruct HT as (_ & _ & _ & _ & _ & H6 & _). destruct (H6 Er) as (_ & Hm). rewrite Hcnt, Hme in Hm.
        rewrite (Hm L o sl Hin). assumption.
    - assert (Hlt : (e_j e < length (p_res l0))%nat) by lia. destruct (Hdone Hlt) as (_ & Hm).
      rewrite (Hm L o sl Hin). assumption. Qed.

  (* tiles only looks at committed slots, which publishers never change *)
  Lemma tiles_stable m m' tid a b : tiles c m tid a b -> (forall o, 0 < s_len (m o) -> m' o = m o) -> tiles c m' tid a b.
  Proof. induction 1 as [o | o e Hw Ht IH]; intros H; [constructor|].
    assert (E : m' o = m o) by (apply H; destruct Hw; assumption).
    econstructor; rewrite E; [assumption | apply IH; assumption]. Qed.

  (* ---- the subscriber's view ---- *)
  (* generation g is committed frames from its base up to offset o *)
  Definition gen_upto (s : shared) (gh : ghost) (g o : Z) : Prop :=
    c_n0 c <= g <= GB + 2 /\ base c g <= o <= TL c /\ o mod 32 = 0 /\
    (base c g < o -> live c s gh g) /\
    (live c s gh g -> tiles c (sh_mem s (g mod 3)) (tid_of c g) (base c g) o).

  (* a stream position: every frame of its generation before it is committed *)
  Definition cursor_ok (s : shared) (gh : ghost) (pos : Z) : Prop :=
    0 <= pos /\ pos mod TL c < TL c /\ gen_upto s gh (pos / TL c) (pos mod TL c).

  Definition rd_gen (l : rlocal) : Z := r_pos l / TL c.

  Definition in_poll (pc : rpc) : bool := match pc with RPos | RDone => false | _ => true end.
  Definition on_frame (pc : rpc) : bool := match pc with RType | RFlags | RBody => true | _ => false end.

  Definition rd_ok (s : shared) (gh : ghost) (l : rlocal) : Prop :=
    let g := rd_gen l in let p := g mod 3 in
    (in_poll (r_pc l) = true ->
       sh_subpos s = r_pos l /\ 0 <= r_pos l /\ r_idx c l = p /\ r_toff0 l = r_pos l mod TL c /\
       base c g <= r_toff0 l <= r_off l /\
       gen_upto s gh g (if on_frame (r_pc l) then r_foff l else r_off l)) /\
    (on_frame (r_pc l) = true ->
       let sl := sh_mem s p (r_foff l) in
       live c s gh g /\ 0 < r_flen l /\ s_len sl = r_flen l /\ r_off l = r_foff l + align (r_flen l) FA /\ r_off l <= TL c /\
       wf_slot c (tid_of c g) (r_foff l) sl /\
       exists e, In e (g_claims gh g) /\ In (r_foff l, sl) (efrags c g e)) /\
    (r_pc l = RBody -> r_flags l = s_flags (sh_mem s p (r_foff l))) /\
    (r_pc l = RSet -> r_pos l < r_new_pos l).

  (* what the subscriber and the driver side must respect (media driver contract for the consumer side):
     the partition ahead of the reader is either the generation it expects, not zeroed, or still clean *)
  Definition adm_rd (s : shared) (gh : ghost) (l : rlocal) : Prop :=
    match r_pc l with
    | RLen => let g := rd_gen l in
              (tg c s (g mod 3) = g /\ g_cleaned gh g = false) \/ sh_mem s (g mod 3) (r_off l) = zslot
    | _ => True
    end.

  (* no subscriber is inside generation g (needed when the partition of g is rotated into or zeroed) *)
  Definition rd_clear (s : shared) (R : nat -> option rlocal) (g : Z) : Prop :=
    sh_subpos s / TL c <> g /\ forall t l, R t = Some l -> in_poll (r_pc l) = true -> rd_gen l <> g.

  Lemma land_mask pos : 0 <= pos -> Z.land (wrap32 pos) (TL c - 1) = pos mod TL c.
  Proof. intros Hp. pose proof (wf_bits c W) as Hb. unfold TL.
    replace (2 ^ c_bits c - 1) with (Z.ones (c_bits c)) by (rewrite Z.ones_equiv; lia).
    rewrite Z.land_ones by lia. destruct (wrap32_eqm pos) as (k & ->).
    replace (two32) with (2 ^ (32 - c_bits c) * 2 ^ c_bits c) by (rewrite <- Z.pow_add_r by lia; replace (32 - c_bits c + c_bits c) with 32 by ring; reflexivity).
    rewrite Z.mul_assoc. apply Z_mod_plus_full. Qed.

  Lemma idx_pos pos : 0 <= pos -> pos / TL c < two31 -> index_by_position pos (c_bits c) = (pos / TL c) mod 3.
  Proof. intros Hp Hlt. unfold index_by_position, shr64, PARTITION_COUNT, GenConsts.PARTITION_COUNT. fold (TL c).
    destruct (TL_bounds c W) as (TB & _).
    assert (0 <= pos / TL c) by (apply Z.div_pos; lia).
    rewrite rem3_nonneg by assumption. apply wrap32_id.
    pose proof (Z.mod_pos_bound (pos / TL c) 3 ltac:(lia)). unfold in_i32, two31. lia. Qed.

  (* ---- frame: a step of somebody else that keeps committed slots, the liveness of the generation and the claims ---- *)
  Lemma gen_upto_frame s gh s' gh' g o :
    gen_upto s gh g o ->
    (forall p x, 0 < s_len (sh_mem s p x) -> sh_mem s' p x = sh_mem s p x) ->
    (live c s gh g -> live c s' gh' g) ->
    gen_upto s' gh' g o.
  Proof. intros (G1 & G2 & G3 & G4 & G5) F1 F2. split; [assumption|]. split; [assumption|]. split; [assumption|]. split.
    - intros X. apply F2. apply G4. assumption.
    - intros L'. destruct (Z_lt_ge_dec (base c g) o) as [Hlt | Hge].
      + apply (tiles_stable (sh_mem s (g mod 3))); [apply G5; apply G4; assumption | intros x; apply F1].
      + replace o with (base c g) by lia. constructor. Qed.

  Lemma on_frame_in_poll pc : on_frame pc = true -> in_poll pc = true.
  Proof. destruct pc; intros; try discriminate; reflexivity. Qed.

  Lemma rd_ok_frame s gh s' gh' l :
    rd_ok s gh l -> sh_subpos s' = sh_subpos s ->
    (forall p x, 0 < s_len (sh_mem s p x) -> sh_mem s' p x = sh_mem s p x) ->
    (in_poll (r_pc l) = true -> live c s gh (rd_gen l) -> live c s' gh' (rd_gen l)) ->
    (forall g e, In e (g_claims gh g) -> In e (g_claims gh' g)) ->
    rd_ok s' gh' l.
  Proof. intros (R1 & R2 & R3 & R4) Hs F1 F2 F4. unfold rd_ok in *. rewrite Hs.
    split; [|split; [|split; [|exact R4]]].
    - intros X. destruct (R1 X) as (A1 & A2 & A3 & A4 & A5 & A6). repeat (split; [assumption|]).
      eapply gen_upto_frame; eauto.
    - intros X. destruct (R2 X) as (B1 & B2 & B3 & B4 & B5 & B6 & e & He & Hin).
      assert (E : sh_mem s' (rd_gen l mod 3) (r_foff l) = sh_mem s (rd_gen l mod 3) (r_foff l)) by (apply F1; lia).
      cbn zeta. rewrite E. split; [apply F2; [apply on_frame_in_poll|]; assumption|]. repeat (split; [assumption|]).
      exists e. split; [apply F4; assumption | assumption].
    - intros X. rewrite (R3 X). symmetry. f_equal. apply F1.
      assert (Y : on_frame (r_pc l) = true) by (rewrite X; reflexivity). destruct (R2 Y) as (_ & B2 & B3 & _). lia. Qed.

  Lemma cursor_ok_frame s gh s' gh' pos :
    cursor_ok s gh pos ->
    (forall p x, 0 < s_len (sh_mem s p x) -> sh_mem s' p x = sh_mem s p x) ->
    (live c s gh (pos / TL c) -> live c s' gh' (pos / TL c)) ->
    cursor_ok s' gh' pos.
  Proof. intros (C1 & C2 & C3) F1 F2. split; [assumption|]. split; [assumption|]. eapply gen_upto_frame; eauto. Qed.

  (* the driver zeroes partition p, which holds a generation no subscriber is in *)
  Lemma gen_upto_clean s gh g o p : 0 <= p < 3 ->
    gen_upto s gh g o -> g <> tg c s p ->
    gen_upto (with_mem s (mclean (sh_mem s) p)) (gstep_env c s (Clean p) gh) g o.
  Proof. intros Hp (G1 & G2 & G3 & G4 & G5) Hne.
    set (s' := with_mem s (mclean (sh_mem s) p)). set (gh' := gstep_env c s (Clean p) gh).
    assert (Hl : live c s' gh' g <-> live c s gh g).
    { unfold live. change (tg c s' (g mod 3)) with (tg c s (g mod 3)). unfold gh', gstep_env.
      destruct (c_n0 c <=? tg c s p); [|tauto]. cbn. destruct (g =? tg c s p) eqn:E; [lia | tauto]. }
    split; [assumption|]. split; [assumption|]. split; [assumption|]. split.
    - intros X. apply Hl. apply G4. assumption.
    - intros L'. apply Hl in L'. pose proof L' as (L1 & _).
      assert (Hpp : g mod 3 <> p) by (intros E; rewrite E in L1; lia).
      apply (tiles_stable (sh_mem s (g mod 3))); [apply G5; assumption|].
      intros x _. unfold s', mclean. cbn. destruct (g mod 3 =? p) eqn:E; [lia | reflexivity]. Qed.
End Rd.
