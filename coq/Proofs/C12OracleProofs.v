(* The C12 monitor (Oracle/C12Oracle.v) accepts every history of the model: simulation between monitor and model state. *)
Require Import V.Base.MachineInt V.Generated.GenConsts V.Model.CondTimers V.Model.ImageLife V.Oracle.C12Oracle.
Require Import V.Proofs.ImageLifeProofs.
From Coq Require Import ZifyBool.
Open Scope Z_scope.

(* ================= the monitor accepts the model ================= *)
Definition msub_of (o : sobj) : msub := mkMsub (so_reg o) (so_inmap o) (map i_corr (so_imgs o)).

Definition KeysOK (lg : Z) (mo : mon) (s : st) : Prop :=
  NoDup (map mk_key (mo_keys mo)) /\
  (forall e, In e (registry s) -> exists mk, In mk (mo_keys mo) /\ mk_key mk = e_key e /\ mk_file mk = e_file e) /\
  (forall mk, In mk (mo_keys mo) -> zmem (mk_file mk) FILES = true) /\
  (forall mk, In mk (mo_keys mo) ->
     match mk_gone mk with
     | None => has_handle mo (mk_key mk) = true
     | Some t => t <= mo_now mo /\ (mo_now mo <= t + lg -> fresh_since t (mk_key mk) s)
     end).

Definition Sim (lg : Z) (mo : mon) (s : st) : Prop :=
  mo_closed mo = cclosed s /\
  mo_subs mo = map msub_of (subs s) /\
  mo_pubs mo = map (fun p => (p_reg p, p_key p)) (filter p_held (pubs s)) /\
  mo_clones mo = map i_corr (clones s) /\
  (forall o, In o (subs s) -> NoDup (map i_corr (so_imgs o))) /\
  KeysOK lg mo s.

Lemma zmem_iff x l : zmem x l = true <-> In x l.
Proof. unfold zmem. rewrite existsb_exists. split; [intros (y & A & B); replace x with y by lia; assumption|intros H; exists x; split; [assumption|lia]]. Qed.

(* handles the monitor sees are references the model counts *)
Lemma handle_in_use mo s : mo_subs mo = map msub_of (subs s) -> mo_pubs mo = map (fun p => (p_reg p, p_key p)) (filter p_held (pubs s)) ->
  mo_clones mo = map i_corr (clones s) -> forall k, has_handle mo k = true -> in_use_P s k.
Proof.
  intros Hs Hp Hc k. unfold has_handle. rewrite Hs, Hp, Hc. rewrite !orb_true_iff, zmem_iff, !existsb_exists.
  intros [[(ms & A & B)|A]|(p & A & B)].
  - apply in_map_iff in A. destruct A as (o & Ho & Hin). subst ms. cbn in B. apply zmem_iff in B. apply in_map_iff in B.
    destruct B as (i & Hi & Hin'). left. exists o. split; [assumption|]. exists i. auto.
  - apply in_map_iff in A. destruct A as (i & Hi & Hin). right. right. left. exists i. auto.
  - apply in_map_iff in A. destruct A as (q & Hq & Hin). subst p. cbn in B. apply filter_In in Hin. right. right. right. exists q. split; [tauto|lia].
Qed.

Lemma find_msub_map reg l : find_msub reg (map msub_of l) = option_map msub_of (find_sub reg l).
Proof. unfold find_msub, find_sub. induction l as [|a l IH]; [reflexivity|]. cbn. destruct (so_reg a =? reg); [reflexivity|assumption]. Qed.

Lemma set_msub_map o' l : set_msub (msub_of o') (map msub_of l) = map msub_of (set_sub o' l).
Proof. unfold set_msub, set_sub. rewrite !map_map. apply map_ext. intros a. cbn. destruct (so_reg a =? so_reg o'); reflexivity. Qed.

Lemma filter_msub_map reg l : filter (fun x => negb (ms_reg x =? reg)) (map msub_of l) = map msub_of (filter (fun x => negb (so_reg x =? reg)) l).
Proof. induction l as [|a l IH]; [reflexivity|]. cbn. destruct (negb (so_reg a =? reg)); cbn; rewrite IH; reflexivity. Qed.

Lemma remove_first_remove1 corr : forall l i rest, remove_first corr l = Some (i, rest) ->
  map i_corr rest = remove1 corr (map i_corr l) /\ zmem corr (map i_corr l) = true.
Proof.
  induction l as [|a l IH]; intros i rest H; cbn in H; [discriminate|]. cbn [map remove1 zmem existsb]. destruct (i_corr a =? corr) eqn:E.
  - inversion H; subst. split; [reflexivity|]. replace (corr =? i_corr i) with true by lia. reflexivity.
  - destruct (remove_first corr l) as [[y r]|] eqn:Er; [|discriminate]. inversion H; subst. destruct (IH _ _ eq_refl) as [A B].
    cbn [map]. rewrite A. split; [reflexivity|]. unfold zmem in B. rewrite B. apply orb_true_r.
Qed.

Lemma remove_first_none_zmem corr l : remove_first corr l = None -> zmem corr (map i_corr l) = false.
Proof. intros H. apply remove_first_none in H. destruct (zmem corr (map i_corr l)) eqn:E; [|reflexivity]. apply zmem_iff in E. contradiction. Qed.

Lemma skipn_app_len {A} (l x : list A) : skipn (length l) (l ++ x) = x.
Proof. induction l; cbn; auto. Qed.
Lemma skipn_same {A} (l : list A) : skipn (length l) l = [].
Proof. induction l; cbn; auto. Qed.

Lemma cbs_eqb_refl l : cbs_eqb l l = true.
Proof. unfold cbs_eqb. rewrite Nat.eqb_refl. cbn [andb]. induction l as [|[[[a b] c] d] l IH]; [reflexivity|]. cbn. rewrite !Z.eqb_refl. cbn. assumption. Qed.
Lemma zlist_eqb_refl l : zlist_eqb l l = true.
Proof. induction l; cbn; [reflexivity|]. rewrite Z.eqb_refl. assumption. Qed.

Lemma unavail_view reg imgs : map cb_view (unavail_cbs reg imgs) = unavail_of reg (map i_corr imgs).
Proof. unfold unavail_cbs, unavail_of. rewrite !map_map. reflexivity. Qed.

Lemma in_live_oids s o i : In o (subs s) -> In i (so_imgs o) -> In (i_oid i) (live_oids s).
Proof. intros Ho Hi. unfold live_oids, loids. apply in_flat_map. exists o. split; [assumption|]. unfold oids. apply in_map. assumption. Qed.

Lemma live_closed_zero s o i : Inv s -> In o (subs s) -> In i (so_imgs o) -> is_closed_img s i = 0.
Proof.
  intros HI Ho Hi. destruct (live_image_not_closed s (i_oid i) HI (in_live_oids s o i Ho Hi)) as (_ & Hn & _).
  unfold is_closed_img. destruct (existsb (Z.eqb (i_oid i)) (closed_oids s)) eqn:E; [|reflexivity].
  exfalso. apply Hn. apply existsb_exists in E. destruct E as (y & A & B). replace (i_oid i) with y by lia. assumption.
Qed.

Lemma views_ok s mo : Inv s -> mo_subs mo = map msub_of (subs s) ->
  views_eqb (map (sub_view s) (subs s)) (expect_views mo) = true.
Proof.
  intros HI Hs. unfold expect_views. rewrite Hs. rewrite map_map.
  assert (G : forall l, (forall o, In o l -> In o (subs s)) ->
     views_eqb (map (sub_view s) l) (map (fun x => (ms_reg (msub_of x), map (fun c => (c, 0)) (ms_imgs (msub_of x)))) l) = true).
  { induction l as [|o l IH]; intros Hl; [reflexivity|]. cbn [map views_eqb sub_view msub_of ms_reg ms_imgs].
    rewrite Z.eqb_refl. rewrite !map_map. cbn [fst snd].
    rewrite zlist_eqb_refl. cbn [andb].
    replace (map (fun x => is_closed_img s x) (so_imgs o)) with (map (fun _ : img => 0) (so_imgs o)).
    - rewrite zlist_eqb_refl. cbn [andb]. apply IH. intros; apply Hl; right; assumption.
    - apply map_ext_in. intros i Hi. symmetry. apply (live_closed_zero s o i HI); [apply Hl; left; reflexivity|assumption]. }
  apply G. auto.
Qed.

(* ---- keys ---- *)
Lemma bind_key_spec k f ks ks' : bind_key k f ks = Some ks' ->
  (forall mk, In mk ks -> In mk ks') /\
  (exists mk, In mk ks' /\ mk_key mk = k /\ mk_file mk = f) /\
  (forall mk, In mk ks' -> In mk ks \/ (mk = mkMkey k f None /\ ~ In k (map mk_key ks))) /\
  (NoDup (map mk_key ks) -> NoDup (map mk_key ks')).
Proof.
  unfold bind_key. destruct (find (fun e => mk_key e =? k) ks) as [e|] eqn:Ef.
  - destruct (mk_file e =? f) eqn:E; [|discriminate]. intros H; inversion H; subst. apply find_some in Ef. destruct Ef as [Hin Hk].
    split; [auto|]. split; [exists e; split; [assumption|split; lia]|]. split; auto.
  - intros H; inversion H; subst. assert (Hn : ~ In k (map mk_key ks)).
    { intro Hi. apply in_map_iff in Hi. destruct Hi as (e & He & Hin). pose proof (find_none _ _ Ef e Hin) as Hf. cbn in Hf. lia. }
    split; [intros; apply in_or_app; auto|]. split; [exists (mkMkey k f None); split; [apply in_or_app; right; left; reflexivity|auto]|].
    split.
    + intros mk Hm. apply in_app_or in Hm. destruct Hm as [Hm|[Hm|[]]]; [auto|subst; auto].
    + intros Hnd. rewrite map_app. cbn. apply NoDup_snoc; assumption.
Qed.

Definition acq (s : st) (o : op) : option (Z * Z) :=
  match o with
  | Publish _ share file => if cclosed s || ringfull s then None else Some (pub_key s share, file)
  | Avail _ corr reg file => match find_sub reg (subs s) with
                             | Some a => if live a then Some (corr, file) else None
                             | None => None
                             end
  | _ => None
  end.

Lemma acquire_kf r k f e : In e (acquire r k f) -> (exists e0, In e0 r /\ e_key e = e_key e0 /\ e_file e = e_file e0) \/ (e_key e = k /\ e_file e = f).
Proof.
  unfold acquire. destruct (has_key k r).
  - rewrite in_map_iff. intros (a & Ha & Hin). left. exists a. split; [assumption|]. destruct (e_key a =? k); subst; auto.
  - intros Hin. apply in_app_or in Hin. destruct Hin as [Hin|[Hin|[]]]; [left; exists e; auto|subst; right; auto].
Qed.

Lemma check_registry_kf lg now s : forall r e', In e' (check_registry_p lg now s r) ->
  exists e, In e r /\ e_key e' = e_key e /\ e_file e' = e_file e.
Proof.
  induction r as [|e r IH]; intros e' H; cbn in H; [destruct H|].
  assert (G : forall x, check_entry_p lg now s e = Some x -> e_key x = e_key e /\ e_file x = e_file e).
  { unfold check_entry_p. intros x. destruct (in_use s (e_key e)); [intros Hx; inversion Hx; auto|].
    destruct (e_time e =? MAX_MOMENT); [intros Hx; inversion Hx; auto|]. destruct (stale lg now (e_time e)); intros Hx; inversion Hx; auto. }
  destruct (check_entry_p lg now s e) as [x|].
  - destruct H as [H|H]; [subst; destruct (G e' eq_refl); exists e; split; [left; reflexivity|auto]|].
    destruct (IH _ H) as (a & A & B). exists a. split; [right; assumption|assumption].
  - destruct (IH _ H) as (a & A & B). exists a. split; [right; assumption|assumption].
Qed.

Lemma timers_kf lg now s e' : In e' (registry (timers_p lg now s)) -> exists e, In e (registry s) /\ e_key e' = e_key e /\ e_file e' = e_file e.
Proof. unfold timers_p. destruct (due now s); [|intros; exists e'; auto]. cbn. apply check_registry_kf. Qed.

Lemma registry_step lg s o e' : In e' (registry (fst (step_p lg s o))) ->
  (exists e, In e (registry s) /\ e_key e' = e_key e /\ e_file e' = e_file e) \/ acq s o = Some (e_key e', e_file e').
Proof.
  destruct o; cbn [step_p acq].
  - destruct (cclosed s); cbn [fst]; [intros; left; exists e'; auto|]. destruct (ringfull s); cbn [fst]; [intros; left; exists e'; auto|].
    intros H. apply timers_kf in H. left. exact H.
  - destruct (cclosed s); cbn [fst orb]; [intros; left; exists e'; auto|]. destruct (ringfull s); cbn [fst]; [intros; left; exists e'; auto|].
    intros H. apply timers_kf in H. destruct H as (e & A & B & C).
    unfold publish_ev in A. cbn [registry upd_registry] in A. apply acquire_kf in A. destruct A as [(e0 & A0 & A1 & A2)|[A1 A2]].
    + left. exists e0. split; [assumption|]. split; congruence.
    + right. f_equal. f_equal; congruence.
  - cbn [fst]. intros H. apply timers_kf in H. destruct H as (e & A & B & C). unfold on_available in A.
    destruct (find_sub reg (subs s)) as [a|]; [|left; exists e; auto]. destruct (live a); [|left; exists e; auto].
    cbn [registry linger upd_lingering] in A. apply acquire_kf in A. destruct A as [(e0 & A0 & A1 & A2)|[A1 A2]].
    + left. exists e0. split; [assumption|]. split; congruence.
    + right. f_equal. f_equal; congruence.
  - cbn [fst]. intros H. apply timers_kf in H. destruct H as (e & A & B & C). left. exists e. split; [|auto].
    unfold on_unavailable in A. destruct (find_sub _ _) as [a|]; [|assumption]. destruct (live a); [|assumption].
    destruct (remove_first _ _) as [[i rest]|]; assumption.
  - cbn [fst]. intros H. apply timers_kf in H. left. exact H.
  - cbn [fst]. intros H. left. exists e'. split; [|auto]. unfold drop_sub in H. destruct (find_sub _ _) as [a|]; [|assumption]. destruct (so_inmap a); assumption.
  - cbn [fst]. intros H. left. exists e'. split; [|auto]. unfold drop_pub in H. destruct (find _ _) as [p|]; [|assumption]. destruct (p_inmap p); [destruct (ringfull s)|]; assumption.
  - cbn [fst]. intros H. left. exists e'. split; [|auto]. unfold hold in H. destruct (find_sub _ _) as [a|]; [|assumption]. destruct (if idx <? 0 then None else _); assumption.
  - cbn [fst]. intros H. left. exists e'. split; [|auto]. unfold unhold in H. destruct (j <? 0); assumption.
  - cbn [fst]. intros H. left. exists e'. split; [|auto]. unfold close_client in H. destruct (cclosed s); assumption.
  - cbn [fst]. intros H. left. exists e'. auto.
  - cbn [fst]. intros H. left. exists e'. auto.
  - cbn [fst]. intros H. apply timers_kf in H. left. exact H.
Qed.

Lemma has_handle_keys mo now c ks k :
  has_handle (mkMon now c (mo_subs mo) (mo_pubs mo) (mo_clones mo) ks) k = has_handle mo k.
Proof. reflexivity. Qed.

Lemma op_within mo o t lg : t <= op_now mo o -> op_now mo o <= t + lg -> within t lg o.
Proof. unfold within. destruct o; cbn; lia. Qed.

Lemma keysok_step lg mo s o mo1 :
  0 <= lg -> KeysOK lg mo s -> RInv s ->
  (forall k, has_handle mo k = true -> in_use_P s k) ->
  mo_now mo <= op_now mo o ->
  ((mo_keys mo1 = mo_keys mo /\ acq s o = None) \/
   (exists k f, acq s o = Some (k, f) /\ bind_key k f (mo_keys mo) = Some (mo_keys mo1) /\ zmem f FILES = true /\ has_handle mo1 k = true)) ->
  let now := op_now mo o in
  let mo2 := mkMon now (mo_closed mo1) (mo_subs mo1) (mo_pubs mo1) (mo_clones mo1) (mo_keys mo1) in
  let mo3 := mkMon now (mo_closed mo2) (mo_subs mo2) (mo_pubs mo2) (mo_clones mo2) (refresh_keys mo2 now) in
  KeysOK lg mo3 (fst (step_p lg s o)).
Proof.
  intros Hlg (K1 & K2 & K3 & K4) RI Hpre Hnow Hks. cbv zeta. set (now := op_now mo o). set (s' := fst (step_p lg s o)).
  assert (Hold : forall mk, In mk (mo_keys mo) -> In mk (mo_keys mo1)).
  { destruct Hks as [[E _]|(k & f & _ & B & _)]; [rewrite E; auto|]. apply (bind_key_spec _ _ _ _ B). }
  assert (Hnd1 : NoDup (map mk_key (mo_keys mo1))).
  { destruct Hks as [[E _]|(k & f & _ & B & _)]; [rewrite E; auto|]. apply (bind_key_spec _ _ _ _ B). assumption. }
  assert (Hnew : forall mk, In mk (mo_keys mo1) -> In mk (mo_keys mo) \/ (mk_gone mk = None /\ has_handle mo1 (mk_key mk) = true /\ zmem (mk_file mk) FILES = true)).
  { destruct Hks as [[E _]|(k & f & _ & B & C & D)]; [rewrite E; auto|]. intros mk Hm.
    destruct (bind_key_spec _ _ _ _ B) as (_ & _ & G & _). destruct (G mk Hm) as [G1|[G1 _]]; [auto|subst; right; auto]. }
  unfold KeysOK. cbn [mo_keys mo_now]. unfold refresh_keys. cbn [mo_keys].
  split; [|split; [|split]].
  - rewrite map_map. replace (map _ (mo_keys mo1)) with (map mk_key (mo_keys mo1)); [assumption|].
    apply map_ext. intros mk. destruct (has_handle _ _); [reflexivity|]. destruct (mk_gone mk); reflexivity.
  - intros e' He'. apply registry_step in He'.
    assert (G : exists mk, In mk (mo_keys mo1) /\ mk_key mk = e_key e' /\ mk_file mk = e_file e').
    { destruct He' as [(e & A & B & C)|A].
      - destruct (K2 e A) as (mk & M1 & M2 & M3). exists mk. split; [auto|]. split; congruence.
      - destruct Hks as [[_ E]|(k & f & E & B & _)]; [congruence|]. rewrite E in A. inversion A; subst.
        destruct (bind_key_spec _ _ _ _ B) as (_ & (mk & M1 & M2 & M3) & _). exists mk. auto. }
    destruct G as (mk & M1 & M2 & M3).
    exists (if has_handle (mkMon now (mo_closed mo1) (mo_subs mo1) (mo_pubs mo1) (mo_clones mo1) (mo_keys mo1)) (mk_key mk)
            then mkMkey (mk_key mk) (mk_file mk) None
            else match mk_gone mk with None => mkMkey (mk_key mk) (mk_file mk) (Some now) | Some _ => mk end).
    split; [apply in_map_iff; exists mk; auto|]. destruct (has_handle _ _); [cbn; auto|]. destruct (mk_gone mk); cbn; auto.
  - intros mk3 H3. apply in_map_iff in H3. destruct H3 as (mk & E & Hm). 
    assert (zmem (mk_file mk) FILES = true) by (destruct (Hnew mk Hm) as [G|(_ & _ & G)]; auto).
    subst mk3. destruct (has_handle _ _); [cbn; assumption|]. destruct (mk_gone mk); cbn; assumption.
  - intros mk3 H3. apply in_map_iff in H3. destruct H3 as (mk & E & Hm). subst mk3.
    rewrite has_handle_keys. destruct (has_handle mo1 (mk_key mk)) eqn:Eh.
    + cbn [mk_gone mk_key]. exact Eh.
    + destruct (Hnew mk Hm) as [Ho|(_ & G & _)]; [|congruence]. specialize (K4 mk Ho).
      destruct (mk_gone mk) as [t|] eqn:Eg.
      * rewrite Eg. destruct K4 as [Ht Hf]. split; [lia|]. intros Hle. apply fresh_step.
        -- apply (op_within mo o t lg); unfold now in *; lia.
        -- apply Hf. lia.
      * cbn [mk_gone mk_key]. split; [lia|]. intros _. apply fresh_step.
        -- apply (op_within mo o now lg); unfold now; lia.
        -- destruct RI as (A & B & _). pose proof (Hpre _ K4) as Hu. pose proof (A _ Hu) as Hh.
           apply has_key_iff in Hh. apply in_map_iff in Hh. destruct Hh as (e & Hk & Hin).
           exists e. split; [assumption|]. split; [assumption|]. left. apply B; [assumption|]. rewrite Hk. assumption.
Qed.

Lemma nodup_key_eq (ks : list mkey) a b : NoDup (map mk_key ks) -> In a ks -> In b ks -> mk_key a = mk_key b -> a = b.
Proof.
  induction ks as [|x ks IH]; intros Hnd Ha Hb Hk; [destruct Ha|]. cbn [map] in Hnd. inversion Hnd; subst.
  destruct Ha as [Ha|Ha], Hb as [Hb|Hb]; subst; auto.
  - exfalso. apply H1. apply in_map_iff. exists b. auto.
  - exfalso. apply H1. apply in_map_iff. exists a. auto.
Qed.

Lemma mapped_in s f : In f (mapped s) <-> In f FILES /\ exists e, In e (registry s) /\ e_file e = f.
Proof. unfold mapped. rewrite filter_In, existsb_exists. split; intros [A (e & B & C)]; (split; [assumption|exists e; split; [assumption|lia]]). Qed.

Lemma maps_ok_model lg mo s : KeysOK lg mo s -> RInv s -> (forall k, has_handle mo k = true -> in_use_P s k) ->
  maps_ok lg (mo_now mo) mo (mapped s) = true.
Proof.
  intros (K1 & K2 & K3 & K4) (R1 & _ & _) Hh. unfold maps_ok. apply andb_true_iff. split.
  - apply forallb_forall. intros mk Hm.
    assert (G : has_key (mk_key mk) (registry s) = true -> zmem (mk_file mk) (mapped s) = true).
    { intros Hk. apply has_key_iff in Hk. apply in_map_iff in Hk. destruct Hk as (e & Hk & Hin).
      destruct (K2 e Hin) as (mk' & M1 & M2 & M3). assert (mk' = mk) by (apply (nodup_key_eq (mo_keys mo)); auto; congruence). subst mk'.
      apply zmem_iff. apply mapped_in. split; [apply zmem_iff; apply K3; assumption|]. exists e. auto. }
    specialize (K4 mk Hm). destruct (mk_gone mk) as [t|].
    + destruct K4 as [_ Hf]. destruct (mo_now mo <=? t + lg) eqn:E; [|reflexivity]. apply G. apply (fresh_has_key t). apply Hf. lia.
    + apply G. apply R1. apply Hh. assumption.
  - apply forallb_forall. intros f Hf. apply mapped_in in Hf. destruct Hf as [_ (e & Hin & He)].
    destruct (K2 e Hin) as (mk & M1 & M2 & M3). apply existsb_exists. exists mk. split; [assumption|lia].
Qed.

Definition finish (now : Z) (mo1 : mon) : mon :=
  let mo2 := mkMon now (mo_closed mo1) (mo_subs mo1) (mo_pubs mo1) (mo_clones mo1) (mo_keys mo1) in
  mkMon now (mo_closed mo2) (mo_subs mo2) (mo_pubs mo2) (mo_clones mo2) (refresh_keys mo2 now).

Lemma sim_finish lg mo s o mo1 ecbs newcbs :
  time_ok lg -> wf s -> Inv s -> RInv s -> Sim lg mo s -> op_ok o -> mo_now mo <= op_now mo o ->
  let s' := fst (step_p lg s o) in
  cblog s' = cblog s ++ newcbs -> map cb_view newcbs = ecbs ->
  mo_closed mo1 = cclosed s' -> mo_subs mo1 = map msub_of (subs s') ->
  mo_pubs mo1 = map (fun p => (p_reg p, p_key p)) (filter p_held (pubs s')) -> mo_clones mo1 = map i_corr (clones s') ->
  (forall a, In a (subs s') -> NoDup (map i_corr (so_imgs a))) ->
  ((mo_keys mo1 = mo_keys mo /\ acq s o = None) \/
   (exists k f, acq s o = Some (k, f) /\ bind_key k f (mo_keys mo) = Some (mo_keys mo1) /\ zmem f FILES = true /\ has_handle mo1 k = true)) ->
  let mo3 := finish (op_now mo o) mo1 in
  cbs_eqb (map cb_view (skipn (length (cblog s)) (cblog s'))) ecbs && views_eqb (map (sub_view s') (subs s')) (expect_views mo3)
    && maps_ok lg (op_now mo o) mo3 (mapped s') = true /\ Sim lg mo3 s'.
Proof.
  intros Hlg Hwf HI HR (S1 & S2 & S3 & S4 & S5 & S6) Hop Hnow s' Hcb Hecb A B C D E F mo3.
  assert (HI' : Inv s') by (apply Inv_step; assumption).
  assert (HR' : RInv s') by (apply RInv_step; assumption).
  assert (Hpre : forall k, has_handle mo k = true -> in_use_P s k) by (apply handle_in_use; assumption).
  assert (HK : KeysOK lg mo3 s').
  { apply keysok_step; try assumption. destruct Hlg; lia. }
  assert (Hpost : forall k, has_handle mo3 k = true -> in_use_P s' k).
  { apply handle_in_use; cbn; assumption. }
  split.
  - rewrite Hcb, skipn_app_len, Hecb, cbs_eqb_refl. cbn [andb].
    rewrite (views_ok s' mo3 HI') by (cbn; assumption). cbn [andb].
    apply (maps_ok_model lg mo3 s' HK HR' Hpost).
  - unfold Sim. cbn [mo_closed mo_subs mo_pubs mo_clones finish]. repeat (split; [assumption|]). exact HK.
Qed.

Definition Post (mo : mon) (s : st) (o : op) (s' : st) (ecbs : list (Z * Z * Z * Z)) (mo1 : mon) : Prop :=
  exists newcbs,
  cblog s' = cblog s ++ newcbs /\ map cb_view newcbs = ecbs /\
  mo_closed mo1 = cclosed s' /\ mo_subs mo1 = map msub_of (subs s') /\
  mo_pubs mo1 = map (fun p => (p_reg p, p_key p)) (filter p_held (pubs s')) /\ mo_clones mo1 = map i_corr (clones s') /\
  (forall a, In a (subs s') -> NoDup (map i_corr (so_imgs a))) /\
  ((mo_keys mo1 = mo_keys mo /\ acq s o = None) \/
   (exists k f, acq s o = Some (k, f) /\ bind_key k f (mo_keys mo) = Some (mo_keys mo1) /\ zmem f FILES = true /\ has_handle mo1 k = true)).

(* the timers change none of the fields Post looks at *)
Lemma Post_timers lg now mo s o s1 ecbs mo1 : Post mo s o s1 ecbs mo1 -> Post mo s o (timers_p lg now s1) ecbs mo1.
Proof.
  intros (n & A & B & C & D & E & F & G & H). destruct (timers_p_fields lg now s1) as (T1 & _ & _ & T2 & T3 & T4 & _ & T5).
  exists n. rewrite T1, T2, T3, T4, T5. auto 10.
Qed.

Lemma Post_keep mo s o lg : Sim lg mo s -> acq s o = None -> Post mo s o s [] mo.
Proof. intros (S1 & S2 & S3 & S4 & S5 & S6) Ha. exists []. rewrite app_nil_r. auto 12. Qed.

Lemma Post_same mo s o lg s' : Sim lg mo s -> acq s o = None ->
  cblog s' = cblog s -> cclosed s' = cclosed s -> subs s' = subs s -> pubs s' = pubs s -> clones s' = clones s -> Post mo s o s' [] mo.
Proof. intros (S1 & S2 & S3 & S4 & S5 & S6) Ha E1 E2 E3 E4 E5. exists []. rewrite E1, E2, E3, E4, E5, app_nil_r. auto 12. Qed.

Lemma regs_fresh s : Inv s -> existsb (fun x => ms_reg x =? nid s) (map msub_of (subs s)) = false.
Proof.
  intros (_ & _ & _ & _ & _ & F & _). destruct (existsb _ _) eqn:E; [|reflexivity]. apply existsb_exists in E.
  destruct E as (ms & A & B). apply in_map_iff in A. destruct A as (a & Ha & Hin). subst. cbn in B. specialize (F a Hin). lia.
Qed.

Lemma expect_subscribe lg mo s now : Inv s -> Sim lg mo s ->
  exists ecbs mo1, expect mo (Subscribe now) (snd (step_p lg s (Subscribe now))) = Some (ecbs, mo1) /\
                   Post mo s (Subscribe now) (fst (step_p lg s (Subscribe now))) ecbs mo1.
Proof.
  intros HI HS. pose proof HS as (S1 & S2 & S3 & S4 & S5 & S6). cbn [step_p expect]. rewrite S1.
  destruct (cclosed s) eqn:Ec; cbn [fst snd].
  - exists [], mo. split; [reflexivity|]. apply (Post_keep mo s _ lg HS). reflexivity.
  - destruct (ringfull s) eqn:Er; cbn [fst snd]; [exists [], mo; split; [reflexivity|]; apply (Post_same mo s _ lg _ HS); reflexivity|].
    rewrite S2, (regs_fresh s HI). eexists _, _. split; [reflexivity|]. apply Post_timers.
    exists []. unfold subscribe_ev. cbn [cblog cclosed subs pubs clones upd_subs upd_nid mo_closed mo_subs mo_pubs mo_clones mo_keys].
    split; [rewrite app_nil_r; reflexivity|]. split; [reflexivity|]. split; [congruence|].
    split; [rewrite map_app; reflexivity|]. split; [assumption|]. split; [assumption|].
    split; [|left; auto]. intros a Ha. apply in_app_or in Ha. destruct Ha as [Ha|[Ha|[]]]; [auto|subst; constructor].
Qed.

Lemma expect_publish lg mo s now share file : Sim lg mo s ->
  op_in_domain mo (Publish now share file) (snd (step_p lg s (Publish now share file))) = true ->
  exists ecbs mo1, expect mo (Publish now share file) (snd (step_p lg s (Publish now share file))) = Some (ecbs, mo1) /\
                   Post mo s (Publish now share file) (fst (step_p lg s (Publish now share file))) ecbs mo1.
Proof.
  intros HS Hd. pose proof HS as (S1 & S2 & S3 & S4 & S5 & S6). unfold op_in_domain in Hd. cbn [step_p expect acq file_ok] in *. rewrite S1 in *.
  destruct (cclosed s) eqn:Ec; cbn [fst snd] in *.
  - exists [], mo. split; [reflexivity|]. apply (Post_keep mo s _ lg HS). cbn. rewrite Ec. reflexivity.
  - destruct (ringfull s) eqn:Er; cbn [fst snd] in *;
      [exists [], mo; split; [reflexivity|]; apply (Post_same mo s _ lg _ HS); try reflexivity; cbn; rewrite Ec, Er; reflexivity|].
    rewrite !andb_true_iff in Hd. destruct Hd as [[_ Hf] Hb]. fold (pub_key s share) in *.
    destruct (bind_key (pub_key s share) file (mo_keys mo)) as [ks|] eqn:Eb; [|discriminate].
    eexists _, _. split; [reflexivity|]. apply Post_timers.
    exists []. unfold publish_ev. cbn [cblog cclosed subs pubs clones upd_subs upd_nid upd_pubs upd_registry mo_closed mo_subs mo_pubs mo_clones mo_keys].
    split; [rewrite app_nil_r; reflexivity|]. split; [reflexivity|]. split; [congruence|]. split; [assumption|].
    split; [rewrite S3, filter_app, map_app; reflexivity|]. split; [assumption|]. split; [assumption|].
    right. exists (pub_key s share), file. split; [cbn [acq]; rewrite Ec, Er; reflexivity|]. split; [assumption|]. split; [assumption|].
    unfold has_handle. cbn [mo_pubs]. rewrite existsb_app. cbn. rewrite Z.eqb_refl. rewrite !orb_true_r. reflexivity.
Qed.

Lemma NoDup_snocZ (l : list Z) x : NoDup l -> ~ In x l -> NoDup (l ++ [x]).
Proof. apply NoDup_snoc. Qed.

Lemma expect_avail lg mo s now corr reg file : Sim lg mo s ->
  op_in_domain mo (Avail now corr reg file) (Ok 0) = true ->
  exists ecbs mo1, expect mo (Avail now corr reg file) (Ok 0) = Some (ecbs, mo1) /\
                   Post mo s (Avail now corr reg file) (fst (step_p lg s (Avail now corr reg file))) ecbs mo1.
Proof.
  intros HS Hd. pose proof HS as (S1 & S2 & S3 & S4 & S5 & S6). unfold op_in_domain in Hd. cbn [step_p expect acq file_ok fst] in *.
  rewrite S2, find_msub_map in *. unfold on_available.
  destruct (find_sub reg (subs s)) as [a|] eqn:Ef; cbn [option_map] in *.
  - cbn [ms_live msub_of] in *. change (so_inmap a) with (live a) in *. destruct (live a) eqn:El.
    + rewrite !andb_true_iff in Hd. destruct Hd as [[_ Hf] [Hn Hb]]. cbn [ms_imgs] in Hn.
      destruct (bind_key corr file (mo_keys mo)) as [ks|] eqn:Eb; [|discriminate].
      destruct (find_sub_in _ _ _ Ef) as [Hin Hreg].
      eexists _, _. split; [reflexivity|]. apply Post_timers.
      exists [mkCb CB_AVAIL reg corr 0 (noid s)]. unfold linger, log_cb.
      cbn [cblog cclosed subs pubs clones upd_subs upd_registry upd_lingering mo_closed mo_subs mo_pubs mo_clones mo_keys].
      split; [reflexivity|]. split; [reflexivity|]. split; [assumption|].
      split.
      { replace (mkMsub reg true (ms_imgs (msub_of a) ++ [corr])) with (msub_of (mkSobj reg (so_imgs a ++ [mkImg corr (noid s)]) (so_closed a) true)).
        - apply set_msub_map.
        - unfold msub_of. cbn. rewrite map_app. reflexivity. }
      split; [assumption|]. split; [assumption|]. split.
      { intros b Hb'. apply in_set_sub in Hb'. destruct Hb' as [Hb'|[Hb' _]]; [|auto]. subst b. cbn [so_imgs]. rewrite map_app. cbn [map i_corr].
        apply NoDup_snocZ; [auto|]. intro Hi. apply zmem_iff in Hi. cbn [ms_imgs msub_of] in Hn. rewrite Hi in Hn. discriminate. }
      right. exists corr, file. split; [cbn [acq]; rewrite Ef, El; reflexivity|]. split; [assumption|]. split; [assumption|].
      unfold has_handle. cbn [mo_subs]. apply orb_true_iff. left. apply orb_true_iff. left. apply existsb_exists.
      exists (mkMsub reg true (ms_imgs (msub_of a) ++ [corr])). split.
      * unfold set_msub. apply in_map_iff. exists (msub_of a). split; [cbn; replace (so_reg a =? reg) with true by lia; reflexivity|].
        apply in_map. assumption.
      * cbn. apply zmem_iff. apply in_or_app. right. left. reflexivity.
    + exists [], mo. split; [reflexivity|]. apply Post_timers. apply (Post_keep mo s _ lg HS). cbn. rewrite Ef, El. reflexivity.
  - exists [], mo. split; [reflexivity|]. apply Post_timers. apply (Post_keep mo s _ lg HS). cbn. rewrite Ef. reflexivity.
Qed.

Lemma nodup_remove_first corr : forall l i rest, NoDup (map i_corr l) -> remove_first corr l = Some (i, rest) -> NoDup (map i_corr rest).
Proof.
  induction l as [|a l IH]; intros i rest Hnd H; cbn in H; [discriminate|]. cbn [map] in Hnd.
  pose proof (NoDup_cons_iff (i_corr a) (map i_corr l)) as Hc. apply Hc in Hnd. destruct Hnd as [Hna Hnd].
  destruct (i_corr a =? corr); [inversion H; subst; assumption|].
  destruct (remove_first corr l) as [[y r]|] eqn:Er; [|discriminate]. inversion H; subst. cbn [map]. constructor; [|eapply IH; eauto].
  intro Hi. apply Hna. apply in_map_iff in Hi. destruct Hi as (x & Hx & Hin). apply in_map_iff. exists x. split; [assumption|].
  apply (proj2 (remove_first_incl _ _ _ _ Er)). assumption.
Qed.

Lemma expect_unavail lg mo s now corr reg : Sim lg mo s ->
  exists ecbs mo1, expect mo (Unavail now corr reg) (Ok 0) = Some (ecbs, mo1) /\
                   Post mo s (Unavail now corr reg) (fst (step_p lg s (Unavail now corr reg))) ecbs mo1.
Proof.
  intros HS. pose proof HS as (S1 & S2 & S3 & S4 & S5 & S6). cbn [step_p expect acq fst] in *.
  rewrite S2, find_msub_map. unfold on_unavailable.
  destruct (find_sub reg (subs s)) as [a|] eqn:Ef; cbn [option_map].
  - cbn [ms_live msub_of ms_imgs]. change (so_inmap a) with (live a). destruct (live a) eqn:El; cbn [andb].
    + destruct (remove_first corr (so_imgs a)) as [[i rest]|] eqn:Er.
      * destruct (remove_first_remove1 _ _ _ _ Er) as [Hrm Hz]. rewrite Hz. destruct (find_sub_in _ _ _ Ef) as [Hin Hreg].
        eexists _, _. split; [reflexivity|]. apply Post_timers.
        exists [mkCb CB_UNAVAIL reg corr 1 (i_oid i)]. unfold linger, log_cb, close_imgs.
        cbn [cblog cclosed subs pubs clones upd_subs upd_lingering mo_closed mo_subs mo_pubs mo_clones mo_keys].
        split; [reflexivity|]. split; [reflexivity|]. split; [assumption|].
        split.
        { replace (mkMsub reg true (remove1 corr (map i_corr (so_imgs a)))) with (msub_of (mkSobj reg rest (so_closed a) true)).
          - apply set_msub_map.
          - unfold msub_of. cbn. rewrite Hrm. reflexivity. }
        split; [assumption|]. split; [assumption|]. split; [|left; auto].
        intros b Hb'. apply in_set_sub in Hb'. destruct Hb' as [Hb'|[Hb' _]]; [|auto]. subst b. cbn [so_imgs].
        eapply nodup_remove_first; [apply (S5 a Hin)|exact Er].
      * rewrite (remove_first_none_zmem _ _ Er). exists [], mo. split; [reflexivity|]. apply Post_timers. apply (Post_keep mo s _ lg HS). reflexivity.
    + exists [], mo. split; [reflexivity|]. apply Post_timers. apply (Post_keep mo s _ lg HS). reflexivity.
  - exists [], mo. split; [reflexivity|]. apply Post_timers. apply (Post_keep mo s _ lg HS). reflexivity.
Qed.

Lemma expect_dropsub lg mo s now reg : Sim lg mo s ->
  exists ecbs mo1, expect mo (DropSub now reg) (Ok 0) = Some (ecbs, mo1) /\
                   Post mo s (DropSub now reg) (fst (step_p lg s (DropSub now reg))) ecbs mo1.
Proof.
  intros HS. pose proof HS as (S1 & S2 & S3 & S4 & S5 & S6). cbn [step_p expect acq fst] in *.
  rewrite S2, find_msub_map. unfold drop_sub.
  destruct (find_sub reg (subs s)) as [a|] eqn:Ef; cbn [option_map].
  - cbn [ms_live msub_of ms_imgs]. rewrite filter_msub_map.
    assert (Hsub : forall b, In b (filter (fun x => negb (so_reg x =? reg)) (subs s)) -> In b (subs s)) by (intros b Hb; apply filter_In in Hb; tauto).
    destruct (so_inmap a) eqn:Ei.
    + eexists _, _. split; [reflexivity|]. exists (unavail_cbs reg (so_imgs a)). unfold linger, log_cb, close_imgs.
      cbn [cblog cclosed subs pubs clones upd_subs upd_lingering upd_nid mo_closed mo_subs mo_pubs mo_clones mo_keys].
      split; [reflexivity|]. split; [apply unavail_view|]. split; [assumption|]. split; [reflexivity|]. split; [assumption|]. split; [assumption|].
      split; [auto|left; auto].
    + eexists _, _. split; [reflexivity|]. exists []. cbn [cblog cclosed subs pubs clones upd_subs mo_closed mo_subs mo_pubs mo_clones mo_keys].
      split; [rewrite app_nil_r; reflexivity|]. split; [reflexivity|]. split; [assumption|]. split; [reflexivity|]. split; [assumption|]. split; [assumption|].
      split; [auto|left; auto].
  - exists [], mo. split; [reflexivity|]. apply (Post_keep mo s _ lg HS). reflexivity.
Qed.

Lemma filter_none_id {A} (f : A -> bool) (l : list A) : find f l = None -> filter (fun x => negb (f x)) l = l.
Proof. induction l as [|a l IH]; cbn; [reflexivity|]. destruct (f a); [discriminate|]. cbn. intros H. rewrite IH; auto. Qed.

Definition pub_view (p : pobj) : Z * Z := (p_reg p, p_key p).
Definition orphan reg (x : pobj) := if is_held_pub reg x then mkPobj (p_reg x) (p_key x) true false else x.
Lemma droppub_views reg : forall l,
  let lhs := filter (fun p : Z * Z => negb (fst p =? reg)) (map pub_view (filter p_held l)) in
  lhs = map pub_view (filter p_held (filter (fun x => negb (is_held_pub reg x)) l)) /\
  lhs = map pub_view (filter p_held (map (orphan reg) l)) /\
  (find (is_held_pub reg) l = None -> lhs = map pub_view (filter p_held l)).
Proof.
  cbv zeta. induction l as [|a l (IH1 & IH2 & IH3)]; [repeat split; reflexivity|].
  cbn [filter map find].
  destruct (p_held a) eqn:Eh; destruct (p_reg a =? reg) eqn:Er;
    (assert (Hh : is_held_pub reg a = (p_reg a =? reg) && p_held a) by reflexivity; rewrite Er, Eh in Hh; cbn [andb] in Hh);
    (assert (Ho : orphan reg a = if is_held_pub reg a then mkPobj (p_reg a) (p_key a) true false else a) by reflexivity; rewrite Hh in Ho);
    rewrite ?Ho, !Hh; cbn [negb filter map fst pub_view p_held]; rewrite ?Eh, ?Er; cbn [negb filter map].
  - split; [exact IH1|]. split; [exact IH2|]. discriminate.
  - fold (pub_view a). split; [f_equal; exact IH1|]. split; [f_equal; exact IH2|]. intros H. f_equal. auto.
  - split; [exact IH1|]. split; [exact IH2|]. exact IH3.
  - split; [exact IH1|]. split; [exact IH2|]. exact IH3.
Qed.

Lemma expect_droppub lg mo s now reg : Sim lg mo s ->
  exists ecbs mo1, expect mo (DropPub now reg) (Ok 0) = Some (ecbs, mo1) /\
                   Post mo s (DropPub now reg) (fst (step_p lg s (DropPub now reg))) ecbs mo1.
Proof.
  intros HS. pose proof HS as (S1 & S2 & S3 & S4 & S5 & S6). cbn [step_p expect acq fst] in *.
  eexists _, _. split; [reflexivity|]. exists []. cbn [mo_closed mo_subs mo_pubs mo_clones mo_keys]. rewrite app_nil_r.
  destruct (droppub_views reg (pubs s)) as (H1 & H2 & H3). fold pub_view in S3. rewrite <- S3 in H1, H2, H3. fold pub_view.
  unfold drop_pub. fold (orphan reg). destruct (find (is_held_pub reg) (pubs s)) as [p|] eqn:Ef.
  - destruct (p_inmap p); [destruct (ringfull s)|]; cbn [cblog cclosed subs pubs clones upd_pubs upd_nid];
      (split; [reflexivity|]; split; [reflexivity|]; split; [assumption|];
       split; [assumption|]; split; [first [exact H1|exact H2]|]; split; [assumption|]; split; [assumption|left; auto]).
  - split; [reflexivity|]. split; [reflexivity|]. split; [assumption|]. split; [assumption|].
    split; [rewrite (H3 eq_refl); exact S3|]. split; [assumption|]. split; [assumption|left; auto].
Qed.

Lemma expect_hold lg mo s reg idx : Sim lg mo s ->
  exists ecbs mo1, expect mo (Hold reg idx) (Ok 0) = Some (ecbs, mo1) /\
                   Post mo s (Hold reg idx) (fst (step_p lg s (Hold reg idx))) ecbs mo1.
Proof.
  intros HS. pose proof HS as (S1 & S2 & S3 & S4 & S5 & S6). cbn [step_p expect acq fst] in *.
  rewrite S2, find_msub_map. unfold hold.
  destruct (find_sub reg (subs s)) as [a|] eqn:Ef; cbn [option_map].
  - cbn [ms_imgs msub_of]. destruct (idx <? 0).
    + exists [], mo. split; [reflexivity|]. apply (Post_keep mo s _ lg HS). reflexivity.
    + rewrite nth_error_map. destruct (nth_error (so_imgs a) (Z.to_nat idx)) as [i|]; cbn [option_map].
      * eexists _, _. split; [reflexivity|]. exists []. cbn [cblog cclosed subs pubs clones upd_clones mo_closed mo_subs mo_pubs mo_clones mo_keys].
        split; [rewrite app_nil_r; reflexivity|]. split; [reflexivity|]. split; [assumption|]. split; [reflexivity|]. split; [assumption|].
        split; [rewrite S4, map_app; reflexivity|]. split; [assumption|left; auto].
      * exists [], mo. split; [reflexivity|]. apply (Post_keep mo s _ lg HS). reflexivity.
  - exists [], mo. split; [reflexivity|]. apply (Post_keep mo s _ lg HS). reflexivity.
Qed.

Lemma remove_nth_map {A B} (f : A -> B) : forall n (l : list A), remove_nth n (map f l) = map f (remove_nth n l).
Proof. induction n as [|n IH]; intros [|a l]; cbn; auto. rewrite IH. reflexivity. Qed.

Lemma expect_unhold lg mo s j : Sim lg mo s ->
  exists ecbs mo1, expect mo (Unhold j) (Ok 0) = Some (ecbs, mo1) /\
                   Post mo s (Unhold j) (fst (step_p lg s (Unhold j))) ecbs mo1.
Proof.
  intros HS. pose proof HS as (S1 & S2 & S3 & S4 & S5 & S6). cbn [step_p expect acq fst] in *. unfold unhold.
  eexists _, _. split; [reflexivity|]. destruct (j <? 0); [apply (Post_keep mo s _ lg HS); reflexivity|].
  exists []. cbn [cblog cclosed subs pubs clones upd_clones mo_closed mo_subs mo_pubs mo_clones mo_keys].
  split; [rewrite app_nil_r; reflexivity|]. split; [reflexivity|]. split; [assumption|]. split; [assumption|]. split; [assumption|].
  split; [rewrite S4, remove_nth_map; reflexivity|]. split; [assumption|left; auto].
Qed.

Lemma closing_eq s a : Inv s -> In a (subs s) -> closing a = so_inmap a.
Proof. intros (_ & _ & _ & D & _) Ha. unfold closing. destruct (so_inmap a) eqn:Ei; [|reflexivity]. cbn.
  destruct (so_closed a) eqn:Ec; [|reflexivity]. rewrite (D a Ha Ec) in Ei. discriminate. Qed.

Lemma expect_close lg mo s now : Inv s -> Sim lg mo s ->
  exists ecbs mo1, expect mo (CloseClient now) (Ok 0) = Some (ecbs, mo1) /\
                   Post mo s (CloseClient now) (fst (step_p lg s (CloseClient now))) ecbs mo1.
Proof.
  intros HI HS. pose proof HS as (S1 & S2 & S3 & S4 & S5 & S6). cbn [step_p expect acq fst] in *. unfold close_client. rewrite S1.
  destruct (cclosed s) eqn:Ec.
  - exists [], mo. split; [reflexivity|]. apply (Post_keep mo s _ lg HS). reflexivity.
  - eexists _, _. split; [reflexivity|]. exists (closing_cbs (subs s)). cbn [cblog cclosed subs pubs clones mo_closed mo_subs mo_pubs mo_clones mo_keys].
    split; [reflexivity|]. split.
    { rewrite S2. unfold closing_cbs, close_cbs.
      assert (G : forall l, (forall a, In a l -> In a (subs s)) ->
                  map cb_view (flat_map (fun o => if closing o then unavail_cbs (so_reg o) (so_imgs o) else []) l) =
                  flat_map (fun m => if ms_live m then unavail_of (ms_reg m) (ms_imgs m) else []) (map msub_of l)).
      { induction l as [|a l IH]; intros Hl; [reflexivity|]. cbn [flat_map map]. rewrite map_app, IH by (intros; apply Hl; right; assumption).
        rewrite (closing_eq s a HI) by (apply Hl; left; reflexivity). cbn [ms_live msub_of ms_reg ms_imgs].
        destruct (so_inmap a); [rewrite unavail_view|]; reflexivity. }
      apply G. auto. }
    split; [reflexivity|]. split.
    { rewrite S2, !map_map. apply map_ext_in. intros a Ha. unfold close_msub, closed_sub. rewrite (closing_eq s a HI Ha).
      cbn [ms_live msub_of]. destruct (so_inmap a) eqn:Ei; unfold msub_of; cbn; [reflexivity|]. rewrite Ei. reflexivity. }
    split; [rewrite S3; clear; induction (filter p_held (pubs s)) as [|q l IHl]; [reflexivity|]; cbn; f_equal; exact IHl|]. split; [assumption|]. split; [|left; auto].
    intros a Ha. apply in_map_iff in Ha. destruct Ha as (b & Hb & Hin). subst. unfold closed_sub. destruct (closing b); cbn [so_imgs]; [constructor|auto].
Qed.

Lemma expect_chan lg mo s now : Inv s -> Sim lg mo s ->
  exists ecbs mo1, expect mo (ChanErr now) (Ok 0) = Some (ecbs, mo1) /\
                   Post mo s (ChanErr now) (fst (step_p lg s (ChanErr now))) ecbs mo1.
Proof.
  intros HI HS. pose proof HS as (S1 & S2 & S3 & S4 & S5 & S6). cbn [step_p expect acq fst] in *.
  eexists _, _. split; [reflexivity|]. apply Post_timers. unfold chan_err. rewrite (chan_sub_closed_sub s HI).
  exists (closing_cbs (subs s)). cbn [cblog cclosed subs pubs clones mo_closed mo_subs mo_pubs mo_clones mo_keys].
  split; [reflexivity|]. split.
  { rewrite S2. unfold closing_cbs, close_cbs.
    assert (G : forall l, (forall a, In a l -> In a (subs s)) ->
                map cb_view (flat_map (fun o => if closing o then unavail_cbs (so_reg o) (so_imgs o) else []) l) =
                flat_map (fun m => if ms_live m then unavail_of (ms_reg m) (ms_imgs m) else []) (map msub_of l)).
    { induction l as [|a l IH]; intros Hl; [reflexivity|]. cbn [flat_map map]. rewrite map_app, IH by (intros; apply Hl; right; assumption).
      rewrite (closing_eq s a HI) by (apply Hl; left; reflexivity). cbn [ms_live msub_of ms_reg ms_imgs].
      destruct (so_inmap a); [rewrite unavail_view|]; reflexivity. }
    apply G. auto. }
  split; [exact S1|]. split.
  { rewrite S2, !map_map. apply map_ext_in. intros a Ha. unfold close_msub, closed_sub. rewrite (closing_eq s a HI Ha).
    cbn [ms_live msub_of]. destruct (so_inmap a) eqn:Ei; unfold msub_of; cbn; [reflexivity|]. rewrite Ei. reflexivity. }
  split; [exact S3|]. split; [assumption|]. split; [|left; auto].
  intros a Ha. apply in_map_iff in Ha. destruct Ha as (b & Hb & Hin). subst. unfold closed_sub. destruct (closing b); cbn [so_imgs]; [constructor|auto].
Qed.

Lemma expect_all lg mo s o : time_ok lg -> Inv s -> Sim lg mo s ->
  op_in_domain mo o (snd (step_p lg s o)) = true ->
  exists ecbs mo1, expect mo o (snd (step_p lg s o)) = Some (ecbs, mo1) /\ Post mo s o (fst (step_p lg s o)) ecbs mo1.
Proof.
  intros Hlg HI HS Hd. destruct o.
  - apply expect_subscribe; assumption.
  - apply expect_publish; assumption.
  - apply expect_avail; assumption.
  - apply expect_unavail; assumption.
  - cbn [step_p snd fst expect]. exists [], mo. split; [reflexivity|]. apply Post_timers. apply (Post_keep mo s _ lg HS). reflexivity.
  - apply expect_dropsub; assumption.
  - apply expect_droppub; assumption.
  - apply expect_hold; assumption.
  - apply expect_unhold; assumption.
  - apply expect_close; assumption.
  - cbn [step_p snd fst expect]. exists [], mo. split; [reflexivity|]. apply (Post_same mo s _ lg _ HS); reflexivity.
  - cbn [step_p snd fst expect]. exists [], mo. split; [reflexivity|]. apply (Post_same mo s _ lg _ HS); reflexivity.
  - apply expect_chan; assumption.
Qed.

Lemma clones_ok_model s l : clones_ok (map (is_closed_img s) l) = true.
Proof. unfold clones_ok. apply forallb_forall. intros v Hv. apply in_map_iff in Hv. destruct Hv as (i & <- & _).
  unfold is_closed_img. destruct (existsb (Z.eqb (i_oid i)) (closed_oids s)); reflexivity. Qed.

Lemma sim_step lg mo s o : time_ok lg -> wf s -> Inv s -> RInv s -> Sim lg mo s -> op_ok o ->
  match mon_step lg mo o (observe s (fst (step_p lg s o)) (snd (step_p lg s o))) with
  | Bad => False
  | Outside => True
  | Next mo' => Sim lg mo' (fst (step_p lg s o))
  end.
Proof.
  intros Hlg Hwf HI HR HS Hop. unfold mon_step, observe.
  destruct (op_in_domain mo o (snd (step_p lg s o))) eqn:Ed; cbn [negb]; [|exact I].
  destruct (expect_all lg mo s o Hlg HI HS Ed) as (ecbs & mo1 & He & (newcbs & P1 & P2 & P3 & P4 & P5 & P6 & P7 & P8)).
  rewrite He.
  assert (Hnow : mo_now mo <= op_now mo o).
  { unfold op_in_domain in Ed. rewrite !andb_true_iff in Ed. destruct Ed as [[[_ Ed] _] _]. lia. }
  destruct (sim_finish lg mo s o mo1 ecbs newcbs Hlg Hwf HI HR HS Hop Hnow P1 P2 P3 P4 P5 P6 P7 P8) as [Hc Hs].
  unfold finish in Hc, Hs. cbv zeta in Hc, Hs. cbv zeta. rewrite Hc. rewrite clones_ok_model. exact Hs.
Qed.

Lemma sim_init lg t0 cid : Sim lg (mon_init t0) (init t0 cid).
Proof. unfold Sim, mon_init, init, KeysOK. cbn. repeat split; try constructor; try contradiction. Qed.

Lemma sim_run m lg : time_ok lg -> forall ops mo s, wf s -> Inv s -> RInv s -> Sim lg mo s -> Forall op_ok ops ->
  mon_run lg mo ops (run m lg s ops) = true.
Proof.
  intros Hlg. induction ops as [|o ops IH]; intros mo s Hwf HI HR HS Hok; [reflexivity|].
  inversion Hok; subst. cbn [run]. rewrite step_eq by assumption.
  pose proof (sim_step lg mo s o Hlg Hwf HI HR HS H1) as Hst.
  destruct (step_p lg s o) as [s' r] eqn:E. cbn [fst snd] in Hst. cbn [mon_run].
  destruct (mon_step lg mo o (observe s s' r)) as [| |mo']; [contradiction|reflexivity|].
  apply IH; try assumption.
  - change s' with (fst (s', r)). rewrite <- E. apply step_p_wf; assumption.
  - change s' with (fst (s', r)). rewrite <- E. apply Inv_step; assumption.
  - change s' with (fst (s', r)). rewrite <- E. apply RInv_step; assumption.
Qed.

Lemma op_ok_of_lim mo o : in_lim (op_now mo o) = true -> time_ok (mo_now mo) -> op_ok o.
Proof. intros H Hm. apply in_lim_iff in H. destruct o; cbn in *; auto. Qed.

Lemma mon_step_outside lg mo o ob : in_lim (op_now mo o) = false -> mon_step lg mo o ob = Outside.
Proof. intros H. unfold mon_step. destruct ob; [|rewrite H; reflexivity]. unfold op_in_domain. rewrite H. reflexivity. Qed.

Lemma sim_run_all m lg : time_ok lg -> forall ops mo s, wf s -> Inv s -> RInv s -> Sim lg mo s -> time_ok (mo_now mo) ->
  mon_run lg mo ops (run m lg s ops) = true.
Proof.
  intros Hlg. induction ops as [|o ops IH]; intros mo s Hwf HI HR HS Hm; [reflexivity|].
  destruct (in_lim (op_now mo o)) eqn:El.
  - pose proof (op_ok_of_lim mo o El Hm) as Hop. cbn [run]. rewrite step_eq by assumption.
    pose proof (sim_step lg mo s o Hlg Hwf HI HR HS Hop) as Hst.
    destruct (step_p lg s o) as [s' r] eqn:E. cbn [fst snd] in Hst. cbn [mon_run].
    destruct (mon_step lg mo o (observe s s' r)) as [| |mo'] eqn:Em; [contradiction|reflexivity|].
    apply IH; try assumption.
    + change s' with (fst (s', r)). rewrite <- E. apply step_p_wf; assumption.
    + change s' with (fst (s', r)). rewrite <- E. apply Inv_step; assumption.
    + change s' with (fst (s', r)). rewrite <- E. apply RInv_step; assumption.
    + (* the monitor's clock after the step is the operation's clock *)
      unfold mon_step, observe in Em. destruct (negb (op_in_domain mo o r)); [discriminate|].
      destruct (expect mo o r) as [[ecbs mo1]|]; [|discriminate]. cbv zeta in Em.
      match type of Em with (if ?c then _ else _) = _ => destruct c end; [|discriminate]. inversion Em; subst. cbn [mo_now].
      apply in_lim_iff. assumption.
  - cbn [run]. destruct (step m lg s o) as [[s' r]| | | |]; cbn [mon_run]; rewrite mon_step_outside by assumption; reflexivity.
Qed.

Theorem oracle_run_model m lg t0 cid ops : holds_run lg t0 ops (run m lg (init t0 cid) ops) = true.
Proof.
  unfold holds_run. destruct (in_lim lg && in_lim t0) eqn:E; [|reflexivity]. apply andb_true_iff in E. destruct E as [E1 E2].
  apply in_lim_iff in E1. apply in_lim_iff in E2.
  apply sim_run_all; try assumption.
  - apply init_wf. assumption.
  - apply Inv_init.
  - apply RInv_init.
  - apply sim_init.
Qed.
