(* C08, sequential part: the theorems about the lossy channel transported to the byte-level model
   through the refinement (Proofs/BroadcastRefine.v), and the oracle on the model's own results. *)
From Coq Require Import String.
Require Import V.Base.MachineInt.
Require Import V.Generated.GenConsts.
Require Import V.Model.Broadcast.
Require Import V.Model.BroadcastShow.
Require Import V.Spec.Lossy.
Require Import V.Oracle.C08Oracle.
Require Import V.Proofs.BroadcastMem.
Require Import V.Proofs.BroadcastInv.
Require Import V.Proofs.BroadcastRefine.
Require Import V.Proofs.LossyProofs.
From Coq Require Import ZifyBool.
Open Scope Z_scope.

Section Top.
Variables (cap k : Z).
Hypothesis Hcap : cap = 2 ^ k.
Hypothesis Hk : 5 <= k <= 30.

Let CB := cap_bounds cap k Hcap Hk.
Let C8 := cap_mod8 cap k Hcap Hk.
Lemma cap_pos : 0 < cap. Proof. pose proof CB. lia. Qed.

(* a history the theorems speak about: counters start at a record boundary c0 >= 0 and stay in range *)
Definition hist_ok (w : vwidth) (c0 : Z) (pre : list (Z * list Z)) (h : list op) : Prop :=
  0 <= c0 /\ c0 mod 8 = 0 /\
  Forall (fun p => in_i32 (fst p) = true) pre /\ Forall op_ok h /\
  c0 + 2 * cap * (Z.of_nat (length pre) + Z.of_nat (length h)) < lim cap w.

Lemma delivered_erase' os : delivered (map erase os) = delivered os.
Proof. induction os as [|o os IH]; cbn; auto. destruct o; cbn; auto. destruct r; cbn; auto. now rewrite IH. Qed.

Lemma clean_erase os : Forall clean (map erase os) -> Forall clean os.
Proof.
  induction os as [|o os IH]; cbn; intros H; constructor; inversion H; subst; auto.
  destruct o; cbn in *; auto.
Qed.

(* what the late-joining receiver may still see of the transmits that preceded it *)
Lemma spec_pre_pending pre : forall ch n0, sinv ch -> n0 <= c_tail ch ->
  pending (spec_pre cap ch pre) n0 = pending ch n0 ++ transmitted_pre cap pre.
Proof.
  induction pre as [|[ty bs] pre IH]; intros ch n0 SI Le; cbn [spec_pre transmitted_pre filter fst snd].
  - now rewrite app_nil_r.
  - destruct (accepted cap ty bs) eqn:Acc.
    + destruct (spec_transmit_accepted cap cap_pos C8 ch ty bs SI Acc) as (_ & SI' & LeT & Pn).
      rewrite IH by (auto; lia). rewrite Pn by lia. now rewrite <- app_assoc.
    + destruct (spec_transmit_rejected cap ch ty bs Acc) as (E & _). rewrite E. now apply IH.
Qed.

Lemma spec_pre_latest_lb pre : forall ch lb, sinv ch -> lb <= c_latest ch -> c_latest ch <= c_tail ch ->
  lb <= c_latest (spec_pre cap ch pre).
Proof.
  induction pre as [|[ty bs] pre IH]; intros ch lb SI L1 L2; cbn [spec_pre]; auto.
  destruct (accepted cap ty bs) eqn:Acc.
  - destruct (spec_transmit_accepted cap cap_pos C8 ch ty bs SI Acc) as (_ & SI' & LeT & _).
    assert (X : c_tail ch <= c_latest (fst (spec_transmit cap ch ty bs)) /\
                c_latest (fst (spec_transmit cap ch ty bs)) <= c_tail (fst (spec_transmit cap ch ty bs))).
    { clear IH. unfold spec_transmit, accepted in *. apply andb_prop in Acc. destruct Acc as [A1 A2].
      apply negb_true_iff in A1. apply negb_true_iff in A2. rewrite A1, A2. cbn [fst c_latest c_tail]. unfold e_end.
      pose proof (Z.mod_pos_bound (c_tail ch) cap cap_pos).
      pose proof (align8_bounds (e_len (last (new_ents cap (c_tail ch) ty bs) {| e_pos := 0; e_len := 0; e_ty := 0; e_bs := [] |}))).
      unfold new_ents in *. destruct (cap - c_tail ch mod cap <? align (Z.of_nat (length bs) + 8) 8); cbn [last e_len e_pos] in *; lia. }
    apply IH; auto; lia.
  - destruct (spec_transmit_rejected cap ch ty bs Acc) as (E & _). rewrite E. auto.
Qed.

Lemma init_pending_sub c0 pre : c0 mod 8 = 0 ->
  subseq (pending (s_ch (spec_init cap c0 pre)) (s_next (s_rx (spec_init cap c0 pre)))) (transmitted_pre cap pre).
Proof.
  intros H8. unfold spec_init. cbn [s_ch s_rx s_next].
  pose proof (spec_pre_pending pre (chan_init c0) c0 (sinv_init c0 H8) ltac:(cbn; lia)) as P.
  replace (pending (chan_init c0) c0) with (@nil (Z * list Z)) in P by reflexivity. cbn [app] in P. rewrite <- P.
  apply pending_mono. apply spec_pre_latest_lb; cbn; try lia. exact (sinv_init c0 H8).
Qed.

(* ---------------------------------------------------------------- order *)
Theorem model_order m w hv c0 pre h :
  hist_ok w c0 pre h ->
  subseq (delivered (run_history m w hv cap c0 pre h)) (transmitted_pre cap pre ++ transmitted cap h).
Proof.
  intros (H0 & H8 & Op & Oh & Bd).
  rewrite <- delivered_erase', (history_refines cap k Hcap Hk m w hv c0 pre h) by auto.
  eapply subseq_trans.
  - apply (spec_order cap cap_pos C8). apply (spec_init_ok cap cap_pos C8); auto.
  - apply subseq_app; [|apply subseq_refl]. now apply init_pending_sub.
Qed.

(* ---------------------------------------------------------------- completeness *)
Theorem model_complete m w hv c0 pre h :
  hist_ok w c0 pre h ->
  never_lapped cap (spec_init cap c0 pre) h ->
  Forall deliverable (transmitted_pre cap pre) -> Forall deliverable (transmitted cap h) ->
  let s0 := spec_init cap c0 pre in
  let sf := spec_final cap s0 h in
  Forall clean (run_history m w hv cap c0 pre h) /\
  delivered (run_history m w hv cap c0 pre h) ++ pending (s_ch sf) (s_next (s_rx sf))
    = pending (s_ch s0) (s_next (s_rx s0)) ++ transmitted cap h /\
  s_lapped (s_rx sf) = 0.
Proof.
  intros (H0 & H8 & Op & Oh & Bd) NL Dp Dt s0 sf.
  assert (Dp' : Forall deliverable (pending (s_ch s0) (s_next (s_rx s0)))).
  { pose proof (init_pending_sub c0 pre H8) as S. fold s0 in S. clear - S Dp.
    induction S; [constructor| |]; inversion Dp; subst; auto. }
  destruct (spec_complete cap cap_pos C8 h s0 (spec_init_ok cap cap_pos C8 c0 pre H8) NL Dp' Dt) as (A & B & C).
  pose proof (history_refines cap k Hcap Hk m w hv c0 pre h H0 H8 Op Oh Bd) as R. unfold spec_history in R. fold s0 in R.
  rewrite <- R in A, B.
  rewrite delivered_erase' in B. split; [now apply clean_erase|]. split; auto.
Qed.

(* with a receiver that exists from the start: nothing lost, nothing duplicated, nothing reordered *)
Corollary model_complete_from_start m w hv c0 h :
  hist_ok w c0 [] h -> never_lapped cap (spec_init cap c0 []) h -> Forall deliverable (transmitted cap h) ->
  let sf := spec_final cap (spec_init cap c0 []) h in
  Forall clean (run_history m w hv cap c0 [] h) /\
  delivered (run_history m w hv cap c0 [] h) ++ pending (s_ch sf) (s_next (s_rx sf)) = transmitted cap h.
Proof.
  intros H NL D sf. destruct (model_complete m w hv c0 [] h H NL ltac:(constructor) D) as (A & B & _).
  split; auto.
Qed.

(* ---------------------------------------------------------------- overrun *)
Lemma spec_step_ok s o s' ob : rx_ok s -> spec_step cap s o = (Some s', ob) -> rx_ok s'.
Proof.
  intros [SI Le] E. destruct s as [ch r]. cbn [s_ch s_rx] in *. destruct o as [ty bs| |]; unfold spec_step in E; cbn [s_ch s_rx] in E.
  - destruct (accepted cap ty bs) eqn:Acc.
    + destruct (spec_transmit_accepted cap cap_pos C8 ch ty bs SI Acc) as (_ & SI' & LeT & _).
      destruct (spec_transmit cap ch ty bs) as [ch' ob']. injection E as <- <-. cbn [fst] in *. split; cbn [s_ch s_rx]; auto. lia.
    + destruct (spec_transmit_rejected cap ch ty bs Acc) as (E' & _).
      destruct (spec_transmit cap ch ty bs) as [ch' ob']. injection E as <- <-. cbn [fst] in *. subst. split; auto.
  - destruct (spec_receive_cases cap ch r SI Le) as [(B & E' & Pn)|[(B & E')|(B & [(E' & Pn)|(e & In & Np & Pe & Ee & Pn & E')])]];
      rewrite E' in E.
    + injection E as <- <-. split; auto.
    + injection E as <- <-. split; cbn; auto. lia.
    + injection E as <- <-. split; auto.
    + cbn zeta in E. destruct (Z.of_nat (length (e_bs e)) >? SCRATCH).
      * injection E as <- <-. split; cbn; auto.
      * destruct (negb (known_type (e_ty e))); [discriminate E|]. injection E as <- <-. split; cbn; auto.
  - injection E as <- <-. split; auto.
Qed.

Lemma spec_run_app h1 : forall s h2, rx_ok s ->
  Forall (fun o => o <> OPanic) (spec_run cap s h1) ->
  spec_run cap s (h1 ++ h2) = spec_run cap s h1 ++ spec_run cap (spec_final cap s h1) h2 /\
  rx_ok (spec_final cap s h1) /\ length (spec_run cap s h1) = length h1.
Proof.
  induction h1 as [|o h1 IH]; intros s h2 R NP; cbn [app spec_run spec_final length]; auto.
  cbn [spec_run] in NP. destruct (spec_step cap s o) as [[s'|] ob] eqn:E.
  - apply Forall_cons_iff in NP. destruct NP as [_ NP].
    destruct (IH s' h2 (spec_step_ok _ _ _ _ R E) NP) as (A & B & C). cbn [app length]. rewrite A, C. auto.
  - exfalso. apply Forall_cons_iff in NP. destruct NP as [N _]. apply N.
    destruct o as [ty bs| |]; unfold spec_step in E.
    + destruct (spec_transmit cap (s_ch s) ty bs). discriminate E.
    + destruct (spec_receive cap (s_ch s) (s_rx s)) as [[? ?]|]; [discriminate E|]. injection E as <-. reflexivity.
    + discriminate E.
Qed.

Theorem model_overrun m w hv c0 pre h1 h2 :
  hist_ok w c0 pre (h1 ++ Receive :: h2) ->
  let s0 := spec_init cap c0 pre in
  let s1 := spec_final cap s0 h1 in
  Forall (fun o => o <> OPanic) (spec_run cap s0 h1) ->
  cap <= backlog (s_ch s1) (s_rx s1) ->
  let os := run_history m w hv cap c0 pre (h1 ++ Receive :: h2) in
  nth_error os (length h1) = Some (Rx (s_lapped (s_rx s1) + 1) (RErr UnableToKeepUp)) /\
  subseq (delivered (skipn (S (length h1)) os)) (transmitted cap h2).
Proof.
  intros (H0 & H8 & Op & Oh & Bd) s0 s1 NP Lap os.
  pose proof (history_refines cap k Hcap Hk m w hv c0 pre (h1 ++ Receive :: h2) H0 H8 Op Oh Bd) as R.
  fold os in R. unfold spec_history in R. fold s0 in R.
  destruct (spec_run_app h1 s0 (Receive :: h2) (spec_init_ok cap cap_pos C8 c0 pre H8) NP) as (A & [SI Le] & Len).
  fold s1 in A, SI, Le. rewrite A in R. cbn [spec_run] in R. unfold spec_step at 1 in R.
  destruct (spec_overrun cap cap_pos C8 (s_ch s1) (s_rx s1) h2 SI Le Lap) as (E & _ & Sub).
  cbn zeta in E. rewrite E in R. cbn [s_lapped] in R.
  split.
  - assert (N : nth_error (map erase os) (length h1) = Some (Rx (s_lapped (s_rx s1) + 1) (RErr UnableToKeepUp))).
    { rewrite R, nth_error_app2 by lia. rewrite Len, Nat.sub_diag. reflexivity. }
    rewrite nth_error_map in N. destruct (nth_error os (length h1)) as [o|]; [|discriminate N].
    cbn in N. destruct o; cbn in N; try discriminate N; auto.
  - rewrite <- delivered_erase', <- skipn_map, R.
    rewrite skipn_app, Len. rewrite skipn_all2 by lia.
    replace (S (length h1) - length h1)%nat with 1%nat by lia. cbn [skipn app]. exact Sub.
Qed.

(* ---------------------------------------------------------------- the oracle on the model's own results *)
Lemma err_eqb_refl e : err_eqb e e = true.
Proof. unfold err_eqb. now rewrite !Z.eqb_refl. Qed.
Lemma sres_eqb_refl r : sres_eqb r r = true.
Proof. destruct r; cbn; auto. - now rewrite Z.eqb_refl, String.eqb_refl. - apply err_eqb_refl. Qed.
Lemma obs_match_erase o : o <> OCrash -> obs_match (show_obs o) (show_obs (erase o)) = true.
Proof.
  intros N. destruct o; cbn; auto; try congruence.
  - apply err_eqb_refl.
  - now rewrite Z.eqb_refl, sres_eqb_refl.
Qed.
Lemma all_match_erase os : Forall (fun o => o <> OCrash) os -> all_match (map show_obs os) (map show_obs (map erase os)) = true.
Proof.
  induction os as [|o os IH]; intros H; cbn [map all_match]; auto.
  apply Forall_cons_iff in H. destruct H as [H1 H2]. rewrite IH by auto. rewrite andb_true_r.
  now apply obs_match_erase.
Qed.

Theorem oracle_seq_model m w hv c0 pre h :
  hist_ok w c0 pre h ->
  holds_seq cap c0 pre h (map show_obs (run_history m w hv cap c0 pre h)) = true.
Proof.
  intros (H0 & H8 & Op & Oh & Bd). unfold holds_seq.
  pose proof (history_refines cap k Hcap Hk m w hv c0 pre h H0 H8 Op Oh Bd) as R. rewrite <- R.
  apply all_match_erase.
  (* the specification never crashes, hence neither does the model *)
  assert (NC : Forall (fun o => o <> OCrash) (map erase (run_history m w hv cap c0 pre h))).
  { rewrite R. unfold spec_history. generalize (spec_init cap c0 pre). clear.
    induction h as [|o h IH]; intros s; cbn [spec_run]; [constructor|].
    destruct (spec_step cap s o) as [[s'|] ob] eqn:E.
    - constructor; auto. destruct o as [ty bs| |]; unfold spec_step in E.
      + destruct (spec_transmit cap (s_ch s) ty bs) as [ch' ob'] eqn:T. injection E as E1 E2. rewrite <- E2.
        unfold spec_transmit in T. destruct (ty <? 1); [injection T as T1 T2; rewrite <- T2; discriminate|].
        destruct (Z.of_nat (length bs) >? cap / 8); injection T as T1 T2; rewrite <- T2; discriminate.
      + destruct (spec_receive cap (s_ch s) (s_rx s)) as [[? ?]|]; injection E as E1 E2; rewrite <- E2; discriminate.
      + injection E as E1 E2. rewrite <- E2. discriminate.
    - constructor; [|constructor]. destruct o as [ty bs| |]; unfold spec_step in E.
      + destruct (spec_transmit cap (s_ch s) ty bs). discriminate E.
      + destruct (spec_receive cap (s_ch s) (s_rx s)) as [[? ?]|]; [discriminate E|]. injection E as E2. rewrite <- E2. discriminate.
      + discriminate E. }
  clear - NC. induction (run_history m w hv cap c0 pre h) as [|o os IH]; [constructor|].
  cbn [map] in NC. apply Forall_cons_iff in NC. destruct NC as [N1 N2]. constructor; auto.
  destruct o; cbn in N1; congruence.
Qed.

End Top.
