(* Proofs about the polling loops of Model/Image.v and Model/Reader.v:
   every run of a loop is an admissible run (k frames consumed, optional abort) in the sense of
   Oracle/C05Oracle.v, with exactly the result the run prescribes. *)
Require Import V.Base.MachineInt.
Require Import V.Generated.GenConsts.
Require Import V.Model.LogBase.
Require Import V.Model.Descriptor.
Require Import V.Model.Reader.
Require Import V.Model.Image.
Require Import V.Oracle.C05Cases.
Require Import V.Oracle.C05Oracle.
Require Import V.Proofs.DescriptorProofs.
Require Import V.Proofs.ReaderProofs.
From Coq Require Import ZifyBool.
Open Scope Z_scope.

(* ---- unfolding equations ---- *)
Lemma cloop_eq endo limit fs sc off n ipos ioff :
  cloop endo limit fs sc off n ipos ioff =
  if (n <? limit) && (off <? endo) then
    match fs with
    | [] => ((off, n, ipos, ioff), [], [])
    | f :: r =>
        let off' := off + span f in
        if is_pad f then cloop endo limit r sc off' n ipos ioff
        else match hd Continue sc with
             | Abort => ((off' - span f, n, ipos, ioff), [(off, f)], [])
             | Break => ((off', n + 1, ipos, ioff), [(off, f)], [])
             | Commit =>
                 let ipos' := ipos + (off' - ioff) in
                 let '(st, ds, ws) := cloop endo limit r (tl sc) off' (n + 1) ipos' off' in
                 (st, (off, f) :: ds, ipos' :: ws)
             | Continue =>
                 let '(st, ds, ws) := cloop endo limit r (tl sc) off' (n + 1) ipos ioff in
                 (st, (off, f) :: ds, ws)
             end
    end
  else ((off, n, ipos, ioff), [], []).
Proof. destruct fs; reflexivity. Qed.

Lemma ploop_eq cap limitpos fs sc off pos ioff rpos :
  ploop cap limitpos fs sc off pos ioff rpos =
  if (pos <? limitpos) && (off <? cap) then
    match fs with
    | [] => (rpos, [])
    | f :: r =>
        let off' := off + span f in
        if is_pad f then
          let pos' := pos + (off' - ioff) in ploop cap limitpos r sc off' pos' off' pos'
        else match hd Continue sc with
             | Abort => (rpos, [(off, f)])
             | a =>
                 let pos' := pos + (off' - ioff) in
                 let rpos' := if Z.land (f_flags f) F_END =? 0 then rpos else pos' in
                 match a with
                 | Break => (rpos', [(off, f)])
                 | _ => let '(x, ds) := ploop cap limitpos r (tl sc) off' pos' off' rpos' in (x, (off, f) :: ds)
                 end
             end
    end
  else (rpos, []).
Proof. destruct fs; reflexivity. Qed.

(* ---- the run vocabulary under cons ---- *)
Lemma frags_0 off fs : frags off fs 0 = [].
Proof. reflexivity. Qed.
Lemma reached_0 off fs : reached off fs 0 = off.
Proof. unfold reached, consumed. cbn [firstn span_sum]. lia. Qed.
Lemma frags_cons_pad off f r k : is_pad f = true -> frags off (f :: r) (S k) = frags (off + span f) r k.
Proof. intros H. unfold frags, consumed. cbn [firstn place data_of filter snd]. rewrite H. reflexivity. Qed.
Lemma frags_cons_data off f r k : is_pad f = false -> frags off (f :: r) (S k) = (off, f) :: frags (off + span f) r k.
Proof. intros H. unfold frags, consumed. cbn [firstn place data_of filter snd]. rewrite H. reflexivity. Qed.
Lemma reached_cons off f r k : reached off (f :: r) (S k) = reached (off + span f) r k.
Proof. unfold reached, consumed. cbn [firstn span_sum]. lia. Qed.
Lemma aborted_cons off f r k ab : aborted off (f :: r) (S k) ab = aborted (off + span f) r k ab.
Proof. unfold aborted. rewrite reached_cons. reflexivity. Qed.
Lemma aborted_false off fs k : aborted off fs k false = [].
Proof. reflexivity. Qed.
Lemma aborted_0_true off f r : aborted off (f :: r) 0 true = [(off, f)].
Proof. unfold aborted. rewrite reached_0. reflexivity. Qed.

Lemma last_cons {A} (a : A) l d : last (a :: l) d = last l a.
Proof. revert a d. induction l as [|b l IH]; intros a d; [reflexivity|].
  change (last (a :: b :: l) d) with (last (b :: l) d). rewrite (IH b d). rewrite (IH b a). reflexivity. Qed.

Ltac tup_eq := repeat match goal with |- (_, _) = (_, _) => apply f_equal2 end;
  try reflexivity; try (cbn [length app]; rewrite ?Nat2Z.inj_succ; change (Z.of_nat 0) with 0; lia).

(* ---- the controlled loop ---- *)
(* exact result of a run (k, ab) of the loop started with `n` fragments read, initial_offset = ioff and
   initial_position = base + ioff *)
Definition cres (fs : list frame) (sc : list action) (off n ioff base : Z) (k : nat) (ab : bool)
  : (Z * Z * Z * Z) * list dlv * list Z :=
  let D := frags off fs k in
  let co := commit_offs D sc in
  ((reached off fs k, n + Z.of_nat (length D), base + last co ioff, last co ioff),
   D ++ aborted off fs k ab, map (Z.add base) co).

Lemma cloop_spec endo limit base : forall fs sc off n ioff,
  exists k ab, (k <= length fs)%nat /\
    adm (fun o => o <? endo) fs sc off (limit - n) k ab = true /\
    cloop endo limit fs sc off n (base + ioff) ioff = cres fs sc off n ioff base k ab.
Proof.
  induction fs as [|f r IH]; intros sc off n ioff; rewrite cloop_eq.
  - exists 0%nat, false. split; [cbn; lia|]. split; [reflexivity|].
    unfold cres. rewrite frags_0, reached_0. cbn [commit_offs last length map app aborted].
    destruct ((n <? limit) && (off <? endo)); tup_eq.
  - destruct ((n <? limit) && (off <? endo)) eqn:Ec.
    2:{ exists 0%nat, false. split; [cbn; lia|]. split; [reflexivity|].
        unfold cres. rewrite frags_0, reached_0. cbn [commit_offs last length map app aborted].
        tup_eq. }
    apply andb_prop in Ec as [Ecn Eco]. cbv zeta.
    destruct (is_pad f) eqn:Ep.
    + destruct (IH sc (off + span f) n ioff) as (k & ab & Hk & Ha & He).
      exists (S k), ab. split; [cbn [length]; lia|]. split.
      * cbn [adm]. rewrite Ep. exact Ha.
      * rewrite He. unfold cres. rewrite frags_cons_pad, reached_cons, aborted_cons by assumption. reflexivity.
    + destruct (hd Continue sc) eqn:Ea.
      * (* Abort *)
        exists 0%nat, true. split; [cbn [length]; lia|]. split.
        -- cbn [adm]. rewrite Ep, Ea, Eco. cbn [negb andb is_abort]. lia.
        -- unfold cres. rewrite frags_0, reached_0, aborted_0_true.
           cbn [commit_offs last length map app]. tup_eq.
      * (* Break *)
        exists 1%nat, false. split; [cbn [length]; lia|]. split.
        -- cbn [adm]. rewrite Ep, Ea, Eco. cbn [negb andb is_abort is_break adm]. lia.
        -- unfold cres. rewrite frags_cons_data, reached_cons, aborted_false by assumption.
           rewrite frags_0, reached_0. cbn [commit_offs]. rewrite Ea. cbn [is_commit app last length map].
           tup_eq.
      * (* Commit *)
        destruct (IH (tl sc) (off + span f) (n + 1) (off + span f)) as (k & ab & Hk & Ha & He).
        exists (S k), ab. split; [cbn [length]; lia|]. split.
        -- cbn [adm]. rewrite Ep, Ea, Eco. cbn [negb andb is_abort is_break].
           replace (limit - n - 1) with (limit - (n + 1)) by lia. rewrite Ha.
           assert (0 <? limit - n = true) by lia. rewrite H. reflexivity.
        -- replace (base + ioff + (off + span f - ioff)) with (base + (off + span f)) by lia.
           rewrite He. unfold cres. rewrite frags_cons_data, reached_cons, aborted_cons by assumption.
           cbn [commit_offs]. rewrite Ea. cbn [is_commit app length map]. rewrite last_cons. tup_eq.
      * (* Continue *)
        destruct (IH (tl sc) (off + span f) (n + 1) ioff) as (k & ab & Hk & Ha & He).
        exists (S k), ab. split; [cbn [length]; lia|]. split.
        -- cbn [adm]. rewrite Ep, Ea, Eco. cbn [negb andb is_abort is_break].
           replace (limit - n - 1) with (limit - (n + 1)) by lia. rewrite Ha.
           assert (0 <? limit - n = true) by lia. rewrite H. reflexivity.
        -- rewrite He. unfold cres. rewrite frags_cons_data, reached_cons, aborted_cons by assumption.
           cbn [commit_offs]. rewrite Ea. cbn [is_commit app length map]. tup_eq.
Qed.

(* the uncontrolled loop is the controlled loop with a handler that always continues *)
Lemma read_loop_cloop endo limit : forall fs off n ipos ioff,
  cloop endo limit fs [] off n ipos ioff =
  let '(o, c, ds) := read_loop endo limit fs off n in ((o, c, ipos, ioff), ds, []).
Proof. induction fs as [|f r IH]; intros; rewrite cloop_eq, read_loop_eq.
  - destruct ((n <? limit) && (off <? endo)); reflexivity.
  - destruct ((n <? limit) && (off <? endo)); [|reflexivity]. cbv zeta.
    destruct (is_pad f); [apply IH|]. cbn [hd tl]. rewrite IH.
    destruct (read_loop endo limit r (off + span f) (n + 1)) as [[o c] ds]. reflexivity. Qed.

(* ---- facts every admissible run has (the readable half of C05) ---- *)
Lemma adm_le_length P : forall k fs sc off budget ab, adm P fs sc off budget k ab = true -> (k <= length fs)%nat.
Proof. induction k; intros fs sc off budget ab H; [lia|]. cbn [adm] in H. destruct fs as [|f r]; [discriminate|].
  cbn [length]. destruct (is_pad f).
  - apply IHk in H. lia.
  - repeat (apply andb_prop in H as [H ?]). apply IHk in H0. lia. Qed.

(* fragments handed to the handler (consumed ones and the aborted one) never exceed the budget *)
Lemma adm_budget P : forall k fs sc off budget ab, adm P fs sc off budget k ab = true ->
  Z.of_nat (length (frags off fs k ++ aborted off fs k ab)) <= Z.max 0 budget.
Proof. induction k; intros fs sc off budget ab H.
  - rewrite frags_0. cbn [app]. cbn [adm] in H. destruct ab; [|rewrite aborted_false; cbn; lia].
    destruct fs as [|f r]; [discriminate|]. rewrite aborted_0_true. cbn [length].
    repeat (apply andb_prop in H as [H ?]). lia.
  - cbn [adm] in H. destruct fs as [|f r]; [discriminate|]. destruct (is_pad f) eqn:Ep.
    + rewrite frags_cons_pad, aborted_cons by assumption. apply IHk in H. exact H.
    + rewrite frags_cons_data, aborted_cons by assumption. repeat (apply andb_prop in H as [H ?]).
      apply IHk in H0. cbn [app length]. rewrite Nat2Z.inj_succ. lia. Qed.

(* every fragment handed to the handler satisfies the bound predicate *)
Lemma adm_bound P : forall k fs sc off budget ab, adm P fs sc off budget k ab = true ->
  forall o f, In (o, f) (frags off fs k ++ aborted off fs k ab) -> P o = true.
Proof. induction k; intros fs sc off budget ab H o g Hin.
  - rewrite frags_0 in Hin. cbn [app] in Hin. cbn [adm] in H. destruct ab; [|rewrite aborted_false in Hin; destruct Hin].
    destruct fs as [|f r]; [discriminate|]. rewrite aborted_0_true in Hin. destruct Hin as [E|[]]. inversion E; subst.
    repeat (apply andb_prop in H as [H ?]). assumption.
  - cbn [adm] in H. destruct fs as [|f r]; [discriminate|]. destruct (is_pad f) eqn:Ep.
    + rewrite frags_cons_pad, aborted_cons in Hin by assumption. eapply IHk; eauto.
    + rewrite frags_cons_data, aborted_cons in Hin by assumption. repeat (apply andb_prop in H as [H ?]).
      cbn [app] in Hin. destruct Hin as [E|Hin]; [inversion E; subst; assumption|]. eapply IHk; eauto. Qed.

(* a weaker bound predicate admits the same run, provided it is weaker on the offsets that matter *)
Lemma adm_weaken (P Q : Z -> bool) : forall k fs sc off budget ab,
  frames_pos fs -> (forall o, off <= o -> P o = true -> Q o = true) ->
  adm P fs sc off budget k ab = true -> adm Q fs sc off budget k ab = true.
Proof. induction k; intros fs sc off budget ab Hp HPQ H.
  - cbn [adm] in *. destruct ab; [|reflexivity]. destruct fs as [|f r]; [discriminate|].
    repeat (apply andb_prop in H as [H ?]). rewrite H, H1, H0. rewrite (HPQ off); [reflexivity|lia|assumption].
  - cbn [adm] in *. destruct fs as [|f r]; [discriminate|]. apply frames_pos_inv in Hp as [Hf Hr].
    pose proof (span_bounds f Hf) as Hs.
    assert (HPQ' : forall o, off + span f <= o -> P o = true -> Q o = true) by (intros; apply HPQ; [lia|assumption]).
    destruct (is_pad f).
    + apply IHk; assumption.
    + repeat (apply andb_prop in H as [H ?]). rewrite (HPQ off) by (lia || assumption).
      rewrite H3, H2, H1. cbn [andb]. apply IHk; assumption. Qed.

(* script discipline: a consumed fragment was never answered Abort; the aborted one was; Break ends the run *)
Lemma adm_aborted_is_abort P : forall k fs sc off budget, adm P fs sc off budget k true = true ->
  is_abort (nth (length (frags off fs k)) sc Continue) = true.
Proof. induction k; intros fs sc off budget H.
  - rewrite frags_0. cbn [length]. cbn [adm] in H. destruct fs as [|f r]; [discriminate|].
    repeat (apply andb_prop in H as [H ?]). destruct sc; assumption.
  - cbn [adm] in H. destruct fs as [|f r]; [discriminate|]. destruct (is_pad f) eqn:Ep.
    + rewrite frags_cons_pad by assumption. eapply IHk; eauto.
    + rewrite frags_cons_data by assumption. repeat (apply andb_prop in H as [H ?]). cbn [length].
      apply IHk in H0. destruct sc; [destruct (length (frags (off + span f) r k)); exact H0|exact H0]. Qed.

Lemma adm_consumed_not_abort P : forall k fs sc off budget ab, adm P fs sc off budget k ab = true ->
  forall i, (i < length (frags off fs k))%nat -> is_abort (nth i sc Continue) = false.
Proof. induction k; intros fs sc off budget ab H i Hi.
  - rewrite frags_0 in Hi. cbn in Hi. lia.
  - cbn [adm] in H. destruct fs as [|f r]; [discriminate|]. destruct (is_pad f) eqn:Ep.
    + rewrite frags_cons_pad in Hi by assumption. eapply IHk; eauto.
    + rewrite frags_cons_data in Hi by assumption. repeat (apply andb_prop in H as [H ?]). cbn [length] in Hi.
      destruct i.
      * destruct sc; [reflexivity|]. cbn [hd] in H2. cbn [nth]. destruct (is_abort a); [discriminate|reflexivity].
      * destruct sc; [destruct i; reflexivity|]. cbn [nth]. eapply IHk; [exact H0|lia]. Qed.

Lemma adm_break_last P : forall k fs sc off budget ab, adm P fs sc off budget k ab = true ->
  forall i, (i < length (frags off fs k))%nat -> is_break (nth i sc Continue) = true ->
  S i = length (frags off fs k) /\ ab = false /\
  (* the position reached is the end of that fragment *)
  exists o f, nth_error (frags off fs k) i = Some (o, f) /\ reached off fs k = o + span f.
Proof. induction k; intros fs sc off budget ab H i Hi Hb.
  - rewrite frags_0 in Hi. cbn in Hi. lia.
  - cbn [adm] in H. destruct fs as [|f r]; [discriminate|]. destruct (is_pad f) eqn:Ep.
    + rewrite frags_cons_pad in * by assumption. rewrite reached_cons. eapply IHk; eauto.
    + rewrite frags_cons_data in * by assumption. rewrite reached_cons.
      repeat (apply andb_prop in H as [H ?]). cbn [length] in Hi |- *.
      destruct i.
      * assert (Hbr : is_break (hd Continue sc) = true) by (destruct sc; exact Hb).
        rewrite Hbr in H1. apply andb_prop in H1 as [Hk0 Hab]. destruct k; [|discriminate].
        rewrite frags_0, reached_0. cbn [length nth_error]. split; [reflexivity|]. split; [destruct ab; [discriminate|reflexivity]|].
        exists off, f. split; reflexivity.
      * assert (Hb' : is_break (nth i (tl sc) Continue) = true) by (destruct sc; [destruct i; exact Hb|exact Hb]).
        destruct (IHk _ _ _ _ _ H0 i ltac:(lia) Hb') as (A & B & o & g & C & D).
        split; [lia|]. split; [assumption|]. exists o, g. split; assumption. Qed.

(* ---- the peek loop ---- *)
Lemma lc_0 base fs off acc : last_complete base fs off 0 acc = acc.
Proof. reflexivity. Qed.
Lemma lc_cons base f r off k acc :
  last_complete base (f :: r) off (S k) acc
  = last_complete base r (off + span f) k (if is_pad f || has_end f then base + (off + span f) else acc).
Proof. reflexivity. Qed.

Lemma ploop_spec cap lp base : forall fs sc off rpos,
  exists k ab, (k <= length fs)%nat /\
    padm (fun o => base + o <? lp) fs sc off k ab = true /\
    ploop cap lp fs sc off (base + off) off rpos
    = (last_complete base fs off k rpos, frags off fs k ++ aborted off fs k ab).
Proof.
  induction fs as [|f r IH]; intros sc off rpos; rewrite ploop_eq.
  - exists 0%nat, false. split; [cbn; lia|]. split; [reflexivity|].
    rewrite lc_0, frags_0, aborted_false. destruct ((base + off <? lp) && (off <? cap)); reflexivity.
  - destruct ((base + off <? lp) && (off <? cap)) eqn:Ec.
    2:{ exists 0%nat, false. split; [cbn; lia|]. split; [reflexivity|]. rewrite lc_0, frags_0, aborted_false. reflexivity. }
    apply andb_prop in Ec as [Ecp Eco]. cbv zeta.
    replace (base + off + (off + span f - off)) with (base + (off + span f)) by lia.
    destruct (is_pad f) eqn:Ep.
    + destruct (IH sc (off + span f) (base + (off + span f))) as (k & ab & Hk & Ha & He).
      exists (S k), ab. split; [cbn [length]; lia|]. split.
      * cbn [padm]. rewrite Ep. exact Ha.
      * rewrite He, lc_cons, Ep, frags_cons_pad, aborted_cons by assumption. reflexivity.
    + destruct (hd Continue sc) eqn:Ea.
      * exists 0%nat, true. split; [cbn [length]; lia|]. split.
        -- cbn [padm]. rewrite Ep, Ea, Ecp. reflexivity.
        -- rewrite lc_0, frags_0, aborted_0_true. reflexivity.
      * exists 1%nat, false. split; [cbn [length]; lia|]. split.
        -- cbn [padm]. rewrite Ep, Ea, Ecp. reflexivity.
        -- rewrite lc_cons, lc_0, Ep, frags_cons_data, frags_0, aborted_false by assumption.
           unfold has_end. cbn [orb]. destruct (Z.land (f_flags f) F_END =? 0); reflexivity.
      * destruct (IH (tl sc) (off + span f)
                    (if Z.land (f_flags f) F_END =? 0 then rpos else base + (off + span f))) as (k & ab & Hk & Ha & He).
        exists (S k), ab. split; [cbn [length]; lia|]. split.
        -- cbn [padm]. rewrite Ep, Ea, Ecp. cbn [negb andb is_abort is_break]. exact Ha.
        -- rewrite He, lc_cons, Ep, frags_cons_data, aborted_cons by assumption.
           unfold has_end. cbn [orb]. destruct (Z.land (f_flags f) F_END =? 0); reflexivity.
      * destruct (IH (tl sc) (off + span f)
                    (if Z.land (f_flags f) F_END =? 0 then rpos else base + (off + span f))) as (k & ab & Hk & Ha & He).
        exists (S k), ab. split; [cbn [length]; lia|]. split.
        -- cbn [padm]. rewrite Ep, Ea, Ecp. cbn [negb andb is_abort is_break]. exact Ha.
        -- rewrite He, lc_cons, Ep, frags_cons_data, aborted_cons by assumption.
           unfold has_end. cbn [orb]. destruct (Z.land (f_flags f) F_END =? 0); reflexivity.
Qed.

(* ---- the block scan ---- *)
Lemma scan_loop_later start limit : forall fs off, frames_pos fs -> start < off ->
  exists k, (k <= length fs)%nat /\ forallb (fun f => negb (is_pad f)) (firstn k fs) = true /\
    (off + span_sum (firstn k fs) <= Z.max off limit) /\
    scan_loop start limit fs off = off + span_sum (firstn k fs).
Proof. induction fs as [|f r IH]; intros off Hp Hne; rewrite scan_loop_eq.
  - exists 0%nat. cbn [firstn span_sum forallb length]. repeat split; try lia. destruct (off <? limit); lia.
  - destruct (off <? limit) eqn:El.
    2:{ exists 0%nat. cbn [firstn span_sum forallb length]. repeat split; lia. }
    apply frames_pos_inv in Hp as [Hf Hr]. pose proof (span_bounds f Hf) as Hs.
    destruct (is_pad f) eqn:Ep.
    + assert (start =? off = false) by lia. rewrite H.
      exists 0%nat. cbn [firstn span_sum forallb length]. repeat split; lia.
    + destruct (off + span f >? limit) eqn:Eg.
      * exists 0%nat. cbn [firstn span_sum forallb length]. repeat split; lia.
      * destruct (IH (off + span f) Hr ltac:(lia)) as (k & Hk & Hd & Hle & He).
        exists (S k). cbn [firstn span_sum forallb length]. rewrite Ep, Hd, He. cbn [negb andb].
        repeat split; lia. Qed.

Lemma term_scan_spec limit fs off : frames_pos fs ->
  exists k, (k <= length fs)%nat /\
    ((k = 0)%nat \/ (k = 1%nat /\ exists f r, fs = f :: r /\ is_pad f = true)
     \/ (forallb (fun f => negb (is_pad f)) (firstn k fs) = true /\ off + span_sum (firstn k fs) <= limit)) /\
    term_scan fs off limit = off + span_sum (firstn k fs).
Proof. intros Hp. unfold term_scan. rewrite scan_loop_eq.
  destruct (off <? limit) eqn:El.
  2:{ exists 0%nat. cbn [firstn span_sum]. repeat split; try lia. }
  destruct fs as [|f r].
  { exists 0%nat. cbn [firstn span_sum]. repeat split; try lia. }
  apply frames_pos_inv in Hp as [Hf Hr]. pose proof (span_bounds f Hf) as Hs.
  destruct (is_pad f) eqn:Ep.
  - rewrite Z.eqb_refl. exists 1%nat. cbn [firstn span_sum length]. repeat split; try lia.
    right. left. split; [reflexivity|]. exists f, r. auto.
  - destruct (off + span f >? limit) eqn:Eg.
    + exists 0%nat. cbn [firstn span_sum]. repeat split; try lia.
    + destruct (scan_loop_later off limit r (off + span f) Hr ltac:(lia)) as (k & Hk & Hd & Hle & He).
      exists (S k). cbn [firstn span_sum forallb length]. rewrite Ep, Hd, He. cbn [negb andb].
      repeat split; try lia; try (right; right; split; [reflexivity|lia]). Qed.
