(* The bytes part of the C04 oracle on the shared Publication model: what an accepted offer / claim / bulk offer writes
   (the frames, as entries appended to the active partition), the content invariant of histories under the cleaning
   contract, and `words_append` / `holds_append` on the model's own observations for every append. *)
Require Import V.Base.MachineInt.
Require Import V.Generated.GenConsts.
Require Import V.Model.Descriptor.
Require Import V.Model.LogBase.
Require Import V.Model.LogDelta.
Require Import V.Model.Appender.
Require Import V.Model.Publication.
Require Import V.Proofs.DescriptorProofs.
Require Import V.Proofs.AppenderProofs.
Require Import V.Proofs.PublicationProofs.
Require Import V.Proofs.BulkProofs.
Require Import V.Proofs.C04Proofs.
Require Import V.Oracle.C04Oracle.
Require Import V.Proofs.C04OracleProofs.
Require Import V.Proofs.RenderWords.
From Coq Require Import ZifyBool.
Open Scope Z_scope.

(* ---- the frames of the fragment loop ---- *)
Lemma zlen_slice_le {A} (l : list A) off n : 0 <= n -> zlen (slice l off n) <= n.
Proof. intros Hn. unfold slice, zlen. rewrite firstn_length. lia. Qed.

Lemma frag_loop_wf l rv tid mpl length msg : 0 < mpl ->
  forall fuel flags remaining fo, 0 < remaining ->
  Forall entry_wf (frag_loop fuel l rv tid mpl length msg flags remaining fo) /\
  term_end (frag_loop fuel l rv tid mpl length msg flags remaining fo) = frag_span fuel mpl remaining.
Proof. intros Hm. induction fuel as [|f IH]; intros flags remaining fo Hr; [split; [constructor|reflexivity]|].
  cbn [frag_loop frag_span]. set (btw := Z.min remaining mpl). assert (Hb : 0 < btw) by lia.
  assert (Hwf : entry_wf (Committed (data_frame l fo (btw + HDR) tid (if remaining <=? mpl then Z.lor flags F_END else flags) T_DATA
                                      (rv fo (btw + HDR) (slice msg (length - remaining) btw)) (slice msg (length - remaining) btw)))).
  { cbn [entry_wf data_frame f_len f_body]. split; [lia|]. pose proof (zlen_slice_le msg (length - remaining) btw ltac:(lia)). lia. }
  destruct (remaining - btw <=? 0) eqn:E.
  - split; [constructor; [exact Hwf|constructor]|]. cbn [term_end entry_span data_frame f_len]. lia.
  - destruct (IH 0 (remaining - btw) (fo + align (btw + HDR) FA) ltac:(lia)) as [I1 I2].
    split; [constructor; [exact Hwf|exact I1]|]. cbn [term_end entry_span data_frame f_len]. rewrite I2. reflexivity. Qed.

(* ---- geometry facts the byte statements need: term length and required lengths are multiples of the frame alignment ---- *)
Definition mtu_aligned (l : log) : Prop := l_mtu l mod 32 = 0.

Lemma legal_tlen32 l : legal l -> l_tlen l mod 32 = 0.
Proof. intros (bits & Hb & Ht & _). rewrite Ht. replace bits with (5 + (bits - 5)) by lia. rewrite Z.pow_add_r by lia.
  change (2 ^ 5) with 32. rewrite Z.mul_comm. apply Z_mod_mult. Qed.

Lemma mpl_aligned l : mtu_aligned l -> max_payload_length l mod 32 = 0.
Proof. unfold mtu_aligned, max_payload_length. rewrite HDR_eq. intros H.
  replace (l_mtu l - 32) with (l_mtu l + (-1) * 32) by ring. rewrite Z_mod_plus_full. exact H. Qed.

Lemma required_spec_aligned len mpl : 0 <= len -> 32 <= mpl -> mpl mod 32 = 0 -> required_spec len mpl mod 32 = 0.
Proof. intros Hl Hm Hm32. unfold required_spec, unfrag_required_spec, frag_required_spec. rewrite HDR_eq, FA_eq.
  destruct (len <=? mpl).
  - apply align_bounds. lia.
  - assert (H1 : (mpl + 32) mod 32 = 0) by (rewrite <- Zplus_mod_idemp_l; rewrite Hm32; reflexivity).
    assert (H2 : (len / mpl * (mpl + 32)) mod 32 = 0).
    { rewrite <- Zmult_mod_idemp_r. rewrite H1. rewrite Z.mul_0_r. reflexivity. }
    pose proof (Z.mod_pos_bound len mpl ltac:(lia)) as Hr.
    destruct (0 <? len mod mpl).
    + rewrite Z.add_mod by lia. rewrite H2. pose proof (align_bounds (len mod mpl + 32) ltac:(lia)) as [_ Ha]. rewrite Ha. reflexivity.
    + rewrite Z.add_0_r. exact H2. Qed.

(* ---- what pub_try hands back when the answer is a position ---- *)
Lemma pub_new_position_ok m l tc toff tid pos res l2 p : pub_new_position m l tc toff tid pos res = (l2, Ok p) -> l2 = l.
Proof. unfold pub_new_position. destruct (0 <? res).
  - destruct (a <- sub64 m pos toff;; add64 m a res) as [np| | | |]; intros H; inversion H; reflexivity.
  - destruct (add64 m pos toff) as [v| | | |]; try (intros H; inversion H; fail).
    destruct (max_possible_position l <? v); [intros H; inversion H|].
    destruct (rotate_log m (meta_of l) tc tid); intros H; inversion H. Qed.

Lemma pub_try_ok_log m s len act s' p : pub_try m s len act = (s', Ok p) ->
  exists a, act (ps_log s) (index_by_term_count (l_count (ps_log s)))
                (term_id_of (tail (ps_log s) (index_by_term_count (l_count (ps_log s))))) = Ok a /\ ps_log s' = a_log a.
Proof. unfold pub_try. destruct (ps_closed s); [discriminate|].
  destruct (index_by_term_count (l_count (ps_log s)) <? 0); [discriminate|].
  destruct (add64 m _ _) as [position| | | |]; try discriminate.
  destruct (negb _); [discriminate|].
  destruct (position <? l_limit (ps_log s)).
  - destruct (act _ _ _) as [a|e| | |]; try discriminate.
    + destruct (pub_new_position m (a_log a) _ _ _ _ _) as [l2 r] eqn:En. intros H. inversion H; subst.
      apply pub_new_position_ok in En. subst l2. exists a. split; reflexivity.
    + destruct e; discriminate.
  - destruct (back_pressure_status m (ps_log s) position len) as [v|e| | |]; discriminate. Qed.

(* ---- the frames each flavour lays down when the message fits ---- *)
Section Frames.
Variables (m : mode) (rv : Z -> Z -> list Z -> Z) (l : log) (idx tid off : Z).
Hypothesis Hl : legal l.
Hypothesis Hi : 0 <= idx < 3.
Hypothesis Ht : in_i32 tid = true.
Hypothesis Ho : 0 <= off < 2147483648.
Hypothesis Htail : tail l idx = tid * two32 + off.

Definition wrote (req : Z) (r : outcome appended) : Prop :=
  exists a es, r = Ok a /\ Forall entry_wf es /\ term_end es = req /\
    a_log a = set_part (set_tail l idx (tid * two32 + (off + req))) idx (term_put (part l idx) off es).

Lemma ta_claim_frames len : 0 <= len <= max_payload_length l -> off + align (len + 32) 32 <= l_tlen l ->
  wrote (align (len + 32) 32) (ta_claim m l idx len tid).
Proof. intros Hlen Hfit. pose proof (legal_mpl l Hl) as (Hm1 & Hm2 & Hm3 & Hm4). pose proof (legal_tlen l Hl) as [Htl _].
  assert (Hd : l_tlen l / 8 <= l_tlen l) by (apply Z.div_le_upper_bound; lia).
  unfold ta_claim. rewrite unfrag_lengths_ok by lia. cbn [bind].
  pose proof (align_bounds (len + 32) ltac:(lia)) as [Ha _].
  rewrite (tail_claim_ok l idx tid off) by (auto; unfold two32; lia). cbn [bind c_off c_log c_tid].
  change (l_tlen (set_tail l idx (tid * two32 + (off + align (len + 32) 32)))) with (l_tlen l).
  assert (E2 : (l_tlen l <? off + align (len + 32) 32) = false) by lia. rewrite E2.
  assert (E3 : (off + (len + 32) <=? l_tlen l) = true) by lia. rewrite E3.
  eexists. eexists. split; [reflexivity|]. cbn [a_log]. rewrite part_set_tail.
  split; [|split; [|reflexivity]].
  - constructor; [|constructor]. cbn [entry_wf data_frame f_len f_body]. rewrite HDR_eq. rewrite zlen_nil. lia.
  - cbn [term_end entry_span data_frame f_len]. rewrite FA_eq. lia. Qed.

Lemma ta_unfrag_frames msg : zlen msg <= max_payload_length l -> off + align (zlen msg + 32) 32 <= l_tlen l ->
  wrote (align (zlen msg + 32) 32) (ta_append_unfragmented m rv l idx msg tid).
Proof. intros Hlen Hfit. pose proof (zlen_nonneg msg) as H0.
  pose proof (legal_mpl l Hl) as (Hm1 & Hm2 & Hm3 & Hm4). pose proof (legal_tlen l Hl) as [Htl _].
  assert (Hd : l_tlen l / 8 <= l_tlen l) by (apply Z.div_le_upper_bound; lia).
  unfold ta_append_unfragmented. rewrite unfrag_lengths_ok by lia. cbn [bind].
  pose proof (align_bounds (zlen msg + 32) ltac:(lia)) as [Ha _].
  rewrite (tail_claim_ok l idx tid off) by (auto; unfold two32; lia). cbn [bind c_off c_log c_tid].
  change (l_tlen (set_tail l idx (tid * two32 + (off + align (zlen msg + 32) 32)))) with (l_tlen l).
  assert (E2 : (l_tlen l <? off + align (zlen msg + 32) 32) = false) by lia. rewrite E2.
  eexists. eexists. split; [reflexivity|]. cbn [a_log]. rewrite part_set_tail.
  split; [|split; [|reflexivity]].
  - constructor; [|constructor]. cbn [entry_wf data_frame f_len f_body]. rewrite HDR_eq. lia.
  - cbn [term_end entry_span data_frame f_len]. rewrite FA_eq. lia. Qed.

Lemma ta_frag_frames msg : mtu_aligned l -> max_payload_length l < zlen msg <= max_message_length l ->
  off + frag_required_spec (zlen msg) (max_payload_length l) <= l_tlen l ->
  wrote (frag_required_spec (zlen msg) (max_payload_length l)) (ta_append_fragmented m rv l idx msg (max_payload_length l) tid).
Proof. intros Hal Hlen Hfit.
  pose proof (legal_mpl l Hl) as (Hm1 & Hm2 & Hm3 & Hm4). pose proof (legal_tlen l Hl) as [Htl _].
  assert (Hd : l_tlen l / 8 <= l_tlen l) by (apply Z.div_le_upper_bound; lia).
  unfold ta_append_fragmented. rewrite frag_required_ok by lia. cbn [bind].
  pose proof (frag_required_bounds (zlen msg) (max_payload_length l) Hm1 ltac:(lia)) as Hb.
  rewrite (tail_claim_ok l idx tid off) by (auto; unfold two32; lia). cbn [bind c_off c_log c_tid].
  change (l_tlen (set_tail l idx (tid * two32 + (off + frag_required_spec (zlen msg) (max_payload_length l))))) with (l_tlen l).
  assert (E2 : (l_tlen l <? off + frag_required_spec (zlen msg) (max_payload_length l)) = false) by lia. rewrite E2.
  eexists. eexists. split; [reflexivity|]. cbn [a_log]. rewrite part_set_tail.
  match goal with |- context [frag_loop ?fu ?lg rv tid ?mp ?le msg ?fl ?re off] =>
    destruct (frag_loop_wf lg rv tid mp le msg ltac:(lia) fu fl re off ltac:(lia)) as [W1 W2] end.
  split; [exact W1|]. split; [|reflexivity]. rewrite W2.
  apply frag_span_required; [lia|apply mpl_aligned; assumption|lia|]. unfold frag_fuel. lia. Qed.
End Frames.

(* ---- an accepted offer / claim / bulk offer appends well-formed entries occupying exactly the required bytes ---- *)
Definition content_inv (l : log) (n off : Z) : Prop :=
  off mod 32 = 0 /\ term_end (part l (n mod 3)) = Z.min off (l_tlen l) /\ spans_nonneg (part l (n mod 3)).

Lemma pub_offer_wrote m rv s n off msg s' p :
  pub_inv n off s -> mtu_aligned (ps_log s) -> zlen msg <= 1073741824 -> pub_offer m rv s msg = (s', Ok p) ->
  exists es, Forall entry_wf es /\ term_end es = op_required (ps_log s) (Offer msg) /\
    ps_log s' = set_part (set_tail (ps_log s) (n mod 3) (wrap32 (l_init (ps_log s) + n) * two32 + (off + op_required (ps_log s) (Offer msg))))
                         (n mod 3) (term_put (part (ps_log s) (n mod 3)) off es) /\
    off + op_required (ps_log s) (Offer msg) <= l_tlen (ps_log s).
Proof. intros Hinv Hal Hlen Hs. pose proof (pub_offer_cases m rv s n off Hinv msg Hlen) as T. rewrite Hs in T.
  pose proof (pi_legal _ _ _ Hinv) as Hleg. pose proof (legal_mpl _ Hleg) as (Hm1 & Hm2 & Hm3 & Hm4).
  pose proof (inv_off_bound s n off Hinv) as [Hob _]. pose proof (mod3_range n) as Hm3r. pose proof (inv_tid_i32 s n) as Htid.
  pose proof (pi_tail _ _ _ Hinv) as Htail. pose proof (pi_count _ _ _ Hinv) as Hcount. pose proof (pi_n _ _ _ Hinv) as Hn.
  pose proof (zlen_nonneg msg) as H0.
  assert (Hfit : off + op_required (ps_log s) (Offer msg) <= l_tlen (ps_log s) /\ op_too_long (ps_log s) (Offer msg) = false).
  { inversion T; subst. split; [assumption|congruence]. }
  destruct Hfit as [Hfit Htl]. cbn [op_too_long op_len] in Htl.
  unfold pub_offer in Hs. apply pub_try_ok_log in Hs. destruct Hs as (a & Hact & Hlog).
  rewrite Hcount in Hact. rewrite index_by_term_count_nonneg in Hact by assumption. rewrite Htail in Hact.
  rewrite raw_tid in Hact by (auto; unfold two32; lia).
  unfold op_required, op_len, required_spec in *.
  destruct (zlen msg <=? max_payload_length (ps_log s)) eqn:E1.
  - unfold unfrag_required_spec in *. rewrite HDR_eq, FA_eq in *.
    destruct (ta_unfrag_frames m rv (ps_log s) (n mod 3) _ off Hleg Hm3r Htid Hob Htail msg ltac:(lia) Hfit) as (a2 & es & Ha2 & W1 & W2 & W3).
    rewrite Ha2 in Hact. inversion Hact; subst a2. exists es. rewrite Hlog. auto.
  - assert (E2 : (max_message_length (ps_log s) <? zlen msg) = false) by lia. rewrite E2 in Hact.
    destruct (ta_frag_frames m rv (ps_log s) (n mod 3) _ off Hleg Hm3r Htid Hob Htail msg Hal ltac:(lia) Hfit) as (a2 & es & Ha2 & W1 & W2 & W3).
    rewrite Ha2 in Hact. inversion Hact; subst a2. exists es. rewrite Hlog. auto. Qed.

Lemma pub_claim_wrote m s n off len s' p :
  pub_inv n off s -> 0 <= len <= 1073741824 -> pub_claim m s len = (s', Ok p) ->
  exists es, Forall entry_wf es /\ term_end es = op_required (ps_log s) (Claim len) /\
    ps_log s' = set_part (set_tail (ps_log s) (n mod 3) (wrap32 (l_init (ps_log s) + n) * two32 + (off + op_required (ps_log s) (Claim len))))
                         (n mod 3) (term_put (part (ps_log s) (n mod 3)) off es) /\
    off + op_required (ps_log s) (Claim len) <= l_tlen (ps_log s).
Proof. intros Hinv Hlen Hs. pose proof (pub_claim_cases m s n off Hinv len Hlen) as T.
  pose proof (pi_legal _ _ _ Hinv) as Hleg. pose proof (legal_mpl _ Hleg) as (Hm1 & Hm2 & Hm3 & Hm4).
  pose proof (inv_off_bound s n off Hinv) as [Hob _]. pose proof (mod3_range n) as Hm3r. pose proof (inv_tid_i32 s n) as Htid.
  pose proof (pi_tail _ _ _ Hinv) as Htail. pose proof (pi_count _ _ _ Hinv) as Hcount. pose proof (pi_n _ _ _ Hinv) as Hn.
  destruct (max_payload_length (ps_log s) <? len) eqn:E1; [rewrite T in Hs; discriminate|].
  rewrite Hs in T.
  assert (Hfit : off + op_required (ps_log s) (Claim len) <= l_tlen (ps_log s)) by (inversion T; subst; assumption).
  unfold pub_claim in Hs. rewrite E1 in Hs. apply pub_try_ok_log in Hs. destruct Hs as (a & Hact & Hlog).
  rewrite Hcount in Hact. rewrite index_by_term_count_nonneg in Hact by assumption. rewrite Htail in Hact.
  rewrite raw_tid in Hact by (auto; unfold two32; lia).
  unfold op_required, op_len, required_spec in *.
  assert (E1' : (len <=? max_payload_length (ps_log s)) = true) by lia. rewrite E1' in *.
  unfold unfrag_required_spec in *. rewrite HDR_eq, FA_eq in *.
  destruct (ta_claim_frames m (ps_log s) (n mod 3) _ off Hleg Hm3r Htid Hob Htail len ltac:(lia) Hfit) as (a2 & es & Ha2 & W1 & W2 & W3).
  rewrite Ha2 in Hact. inversion Hact; subst a2. exists es. rewrite Hlog. auto. Qed.

Theorem pub_step_wrote m rv s n off o s' p :
  pub_inv n off s -> mtu_aligned (ps_log s) -> op_ok (ps_log s) o -> is_append o = true -> pub_step m rv s o = (s', Ok p) ->
  exists es, Forall entry_wf es /\ term_end es = op_required (ps_log s) o /\
    ps_log s' = set_part (set_tail (ps_log s) (n mod 3) (wrap32 (l_init (ps_log s) + n) * two32 + (off + op_required (ps_log s) o)))
                         (n mod 3) (term_put (part (ps_log s) (n mod 3)) off es) /\
    off + op_required (ps_log s) o <= l_tlen (ps_log s).
Proof. intros Hinv Hal Hok Ha Hs. destruct o; try discriminate; cbn [pub_step op_ok] in *.
  - eapply pub_offer_wrote; eassumption.
  - eapply pub_claim_wrote; eassumption.
  - pose proof (pi_legal _ _ _ Hinv) as Hleg. pose proof (legal_mpl _ Hleg) as (Hm1 & _).
    rewrite pub_bulk_eq_offer in Hs by (auto; lia).
    destruct (pub_offer_wrote m rv s n off (concat bufs) s' p Hinv Hal Hok Hs) as (es & W). exists es. exact W. Qed.

(* ---- words_append on the model's observations ---- *)
Lemma words_eqb_nil_same w : words_eqb (words_diff w w) [] = true.
Proof. rewrite words_diff_same. reflexivity. Qed.

Lemma list3_eqb_diff a0 a1 a2 b0 b1 b2 : (a0 <> b0 \/ a1 <> b1 \/ a2 <> b2) -> list_eqb Z.eqb [a0; a1; a2] [b0; b1; b2] = false.
Proof. intros H. cbn [list_eqb]. destruct (a0 =? b0) eqn:E0; [|reflexivity]. destruct (a1 =? b1) eqn:E1; [|reflexivity].
  destruct (a2 =? b2) eqn:E2; [|reflexivity]. lia. Qed.

Lemma tails_differ l l' i : 0 <= i < 3 -> tail l i <> tail l' i ->
  list_eqb Z.eqb [l_t0 l; l_t1 l; l_t2 l] [l_t0 l'; l_t1 l'; l_t2 l'] = false.
Proof. intros Hi Hne. apply list3_eqb_diff. assert (Hc : i = 0 \/ i = 1 \/ i = 2) by lia.
  destruct Hc as [-> | [-> | ->]]; cbn in Hne; auto. Qed.

Lemma content_inv_ok l n off : content_inv l n off -> off <= l_tlen l -> content_ok l n off.
Proof. intros (_ & He & Hs) Ho. split; [rewrite He; lia|exact Hs]. Qed.

(* accepted: only words of the new frames, all of them in [off, off + required) of the active partition *)
Theorem oracle_words_accept m rv s n off o s0 r0 n0 off0 s' p :
  pub_inv n off s -> content_inv (ps_log s) n off -> mtu_aligned (ps_log s) -> op_ok (ps_log s) o -> is_append o = true ->
  pub_step m rv s o = (s', Ok p) ->
  words_append (geom_of (ps_log s) n0 off0) (kind_of o) (op_len o) (pub_obs m s0 s r0) (pub_obs m s s' (Ok p)) = true.
Proof. intros Hinv Hc Hal Hok Ha Hs.
  destruct (pub_step_wrote m rv s n off o s' p Hinv Hal Hok Ha Hs) as (es & W1 & W2 & W3 & Hfit).
  destruct (pub_accept m rv s n off o s' p Hinv Hok Ha Hs) as (Hcl & Htl & Hpos & _).
  pose proof (pi_n _ _ _ Hinv) as Hn. pose proof (inv_off_bound s n off Hinv) as [Hob Htlen].
  assert (Hreq := required_ok s n off o Hinv Hok Ha Htl).
  pose proof (mod3_range n) as M0. pose proof (mod3_range (n+1)) as M1. pose proof (mod3_range (n+2)) as M2.
  pose proof (mod3_distinct n) as (D1 & D2 & D3). destruct (mod3_succ n) as [S1 S2].
  unfold words_append. rewrite c_res.
  assert (Hp : o_pos (pub_obs m s0 s r0) = Ok (spec_pos (ps_log s) n off)) by (unfold pub_obs, o_pos; cbn [snd]; exact Hpos).
  rewrite Hp. unfold appended_words. rewrite (p_active m s n off Hinv).
  unfold pos_off. rewrite (p_count m s n off Hinv). rewrite S1, S2.
  unfold pub_obs, o_dump. cbn [fst snd]. rewrite !d_part_delta by assumption.
  rewrite W3. rewrite part_set_part_same by assumption. rewrite !part_set_part_other by auto. rewrite !part_set_tail.
  rewrite !words_eqb_nil_same. rewrite !Bool.andb_true_r.
  destruct Hc as (Hoff32 & Hend & Hsp).
  assert (Hend' : term_end (part (ps_log s) (n mod 3)) = off) by (rewrite Hend; lia).
  destruct (appended_render _ off es Hend' Hsp W1) as [E1 E2]. rewrite E1.
  rewrite required_geom. fold (op_required (ps_log s) o). rewrite <- W2.
  unfold spec_pos, geom_of. cbn [g_tlen]. rewrite Z.min_l by lia.
  replace (n * l_tlen (ps_log s) + off - n * l_tlen (ps_log s)) with off by ring.
  apply offs_in_forallb. exact E2. Qed.

(* the end-of-term trips, from the content invariant *)
Theorem oracle_words_trip2 m rv s n off o s0 r0 n0 off0 e :
  pub_inv n off s -> content_inv (ps_log s) n off -> op_ok (ps_log s) o -> is_append o = true ->
  snd (pub_step m rv s o) = Err e -> fst (pub_step m rv s o) <> s ->
  tripped_words (geom_of (ps_log s) n0 off0) (o_dump (pub_obs m s0 s r0))
                (o_dump (pub_obs m s (fst (pub_step m rv s o)) (snd (pub_step m rv s o)))) = true.
Proof. intros Hinv Hc Hok Ha Hr Hne.
  destruct (Z.le_gt_cases off (l_tlen (ps_log s))) as [Hle | Hgt].
  { apply (oracle_words_trip m rv s n off o s0 r0 n0 off0 e); auto. apply content_inv_ok; assumption. }
  destruct (pub_step m rv s o) as [s' r] eqn:Es. cbn [fst snd] in *. subst r.
  destruct (pub_trip m rv s n off o s' e Hinv Hok Ha Es Hne) as (_ & _ & _ & _ & _ & _ & Hcase).
  pose proof (pi_n _ _ _ Hinv) as Hn. pose proof (pi_off _ _ _ Hinv) as Hoff.
  pose proof (mod3_range n) as M0. pose proof (mod3_range (n+1)) as M1. pose proof (mod3_range (n+2)) as M2.
  destruct (mod3_succ n) as [S1 S2].
  destruct (bumped_spec (ps_log s) n off (op_required (ps_log s) o) ltac:(lia)) as (_ & _ & _ & _ & B1 & B2 & B0).
  assert (Hlog : ps_log s' = bumped (ps_log s) n off (op_required (ps_log s) o)).
  { destruct Hcase as [(_ & Hlt & _) | (_ & _ & Hlog)]; [lia|exact Hlog]. }
  unfold tripped_words. rewrite (p_active m s n off Hinv), (p_tail_off m s n off Hinv). rewrite S1, S2.
  unfold geom_of at 1. cbn [g_tlen].
  assert (E : (off <? l_tlen (ps_log s)) = false) by lia. rewrite E.
  unfold pub_obs, o_dump. cbn [fst snd]. rewrite !d_part_delta by assumption.
  rewrite Hlog, B0, B1, B2. rewrite E.
  rewrite !words_eqb_nil_same. reflexivity. Qed.

(* every offer / claim / bulk offer: the bytes part of the per-step predicate *)
Lemma trip_changes s n off req s' : pub_inv n off s -> 0 < req ->
  (ps_log s' = rotated (bumped (ps_log s) n off req) n \/ ps_log s' = bumped (ps_log s) n off req) -> s' <> s.
Proof. intros Hinv Hreq Hlog Heq. subst s'. pose proof (mod3_range n) as M0. destruct Hlog as [Hlog | Hlog].
  - pose proof (f_equal l_count Hlog) as Hcnt.
    destruct (rotated_fields (bumped (ps_log s) n off req) n) as (Rc & _). rewrite Rc in Hcnt.
    pose proof (pi_count _ _ _ Hinv). lia.
  - pose proof (f_equal (fun x => tail x (n mod 3)) Hlog) as Hc. cbn beta in Hc.
    rewrite tail_bumped in Hc by assumption. rewrite Z.eqb_refl in Hc. rewrite (pi_tail _ _ _ Hinv) in Hc. lia. Qed.

Theorem oracle_words_shared m rv s n off o s0 r0 n0 off0 :
  pub_inv n off s -> content_inv (ps_log s) n off -> mtu_aligned (ps_log s) -> op_ok (ps_log s) o -> is_append o = true ->
  words_append (geom_of (ps_log s) n0 off0) (kind_of o) (op_len o)
               (pub_obs m s0 s r0) (pub_obs m s (fst (pub_step m rv s o)) (snd (pub_step m rv s o))) = true.
Proof. intros Hinv Hc Hal Hok Ha.
  assert (Hsame : forall e, (e <> AdminAction) ->
            words_append (geom_of (ps_log s) n0 off0) (kind_of o) (op_len o) (pub_obs m s0 s r0) (pub_obs m s s (Err e)) = true).
  { intros e He. unfold words_append. rewrite c_res.
    unfold pub_obs at 2 3 4 5. unfold o_dump. cbn [fst snd]. rewrite !tails_delta. rewrite list3_eqb_refl.
    destruct e; try apply no_words_same. exfalso. apply He. reflexivity. }
  destruct (pub_step_cases m rv s n off o Hinv Hok Ha) as [(len & _ & _ & E) | T].
  { rewrite E. cbn [fst snd]. apply Hsame. discriminate. }
  destruct (pub_step m rv s o) as [s' r] eqn:Es. cbn [fst snd].
  inversion T; subst.
  - apply Hsame. discriminate.
  - apply Hsame. unfold status_of. destruct (_ <=? _); [discriminate|]. destruct (l_connected _); discriminate.
  - apply Hsame. discriminate.
  - eapply oracle_words_accept; eassumption.
  - (* rotation *)
    match goal with H : op_too_long _ _ = false |- _ => rename H into Htl end.
    assert (Hreq := required_ok s n off o Hinv Hok Ha Htl).
    assert (Hne : s' <> s) by (eapply trip_changes; [exact Hinv| |left; eassumption]; lia).
    pose proof (oracle_words_trip2 m rv s n off o s0 r0 n0 off0 AdminAction Hinv Hc Hok Ha) as Htw.
    rewrite Es in Htw. cbn [fst snd] in Htw. specialize (Htw eq_refl Hne).
    unfold words_append. rewrite c_res. exact Htw.
  - (* last term *)
    match goal with H : op_too_long _ _ = false |- _ => rename H into Htl end.
    match goal with H : ps_log s' = bumped _ _ _ _ |- _ => rename H into Hlog end.
    assert (Hreq := required_ok s n off o Hinv Hok Ha Htl).
    assert (Hne : s' <> s) by (eapply trip_changes; [exact Hinv| |right; eassumption]; lia).
    pose proof (oracle_words_trip2 m rv s n off o s0 r0 n0 off0 MaxPositionExceeded Hinv Hc Hok Ha) as Htw.
    rewrite Es in Htw. cbn [fst snd] in Htw. specialize (Htw eq_refl Hne).
    unfold words_append. rewrite c_res. pose proof (mod3_range n) as M0.
    change (snd (fst (o_dump (pub_obs m s0 s r0)))) with [l_t0 (ps_log s); l_t1 (ps_log s); l_t2 (ps_log s)].
    change (snd (fst (o_dump (pub_obs m s s' (Err MaxPositionExceeded))))) with [l_t0 (ps_log s'); l_t1 (ps_log s'); l_t2 (ps_log s')].
    rewrite (tails_differ (ps_log s) (ps_log s') (n mod 3) M0); [exact Htw|].
    rewrite Hlog. rewrite tail_bumped by assumption. rewrite Z.eqb_refl. rewrite (pi_tail _ _ _ Hinv). lia.
Qed.

(* the complete per-step predicate on every offer / claim / bulk offer *)
Theorem oracle_step_shared m rv s n off o s0 r0 n0 off0 :
  pub_inv n off s -> content_inv (ps_log s) n off -> mtu_aligned (ps_log s) -> op_ok (ps_log s) o -> is_append o = true ->
  holds_append (geom_of (ps_log s) n0 off0) (env_of s) (kind_of o) (op_len o)
               (pub_obs m s0 s r0) (pub_obs m s (fst (pub_step m rv s o)) (snd (pub_step m rv s o))) = true.
Proof. intros Hinv Hc Hal Hok Ha. unfold holds_append.
  rewrite (oracle_flow_shared m rv s n off o s0 r0 n0 off0 Hinv Hok Ha).
  rewrite (oracle_words_shared m rv s n off o s0 r0 n0 off0 Hinv Hc Hal Hok Ha). reflexivity. Qed.
