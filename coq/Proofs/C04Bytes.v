(* The bytes part of the C04 oracle on the shared Publication model: what an accepted offer / claim / bulk offer writes
   (the frames, as entries appended to the active partition), the content invariant of histories under the cleaning
   contract, and `words_append` / `holds_append` on the model's own observations for every append. *)
Require Import V.Base.MachineInt.
Require Import V.Generated.GenConsts.
Require Import V.Model.Descriptor.
Require Import V.Model.LogBase.
Require Import V.Model.LogDelta.
Require Import V.Model.Appender.
Require Import V.Model.Publication.
Require Import V.Proofs.DescriptorProofs.
Require Import V.Proofs.AppenderProofs.
Require Import V.Proofs.PublicationProofs.
Require Import V.Proofs.BulkProofs.
Require Import V.Proofs.C04Proofs.
Require Import V.Oracle.C04Oracle.
Require Import V.Proofs.C04OracleProofs.
Require Import V.Proofs.C04Statements.
Require Import V.Proofs.RenderWords.
From Coq Require Import ZifyBool.
Open Scope Z_scope.

(* ---- the frames of the fragment loop ---- *)
Lemma zlen_slice_le {A} (l : list A) off n : 0 <= n -> zlen (slice l off n) <= n.
Proof. intros Hn. unfold slice, zlen. rewrite firstn_length. lia. Qed.

Lemma frag_loop_wf l rv tid mpl length msg : 0 < mpl ->
  forall fuel flags remaining fo, 0 < remaining ->
  Forall entry_wf (frag_loop fuel l rv tid mpl length msg flags remaining fo) /\
  term_end (frag_loop fuel l rv tid mpl length msg flags remaining fo) = frag_span fuel mpl remaining.
Proof. intros Hm. induction fuel as [|f IH]; intros flags remaining fo Hr; [split; [constructor|reflexivity]|].
  cbn [frag_loop frag_span]. set (btw := Z.min remaining mpl). assert (Hb : 0 < btw) by lia.
  assert (Hwf : entry_wf (Committed (data_frame l fo (btw + HDR) tid (if remaining <=? mpl then Z.lor flags F_END else flags) T_DATA
                                      (rv fo (btw + HDR) (slice msg (length - remaining) btw)) (slice msg (length - remaining) btw)))).
  { cbn [entry_wf data_frame f_len f_body]. split; [lia|]. pose proof (zlen_slice_le msg (length - remaining) btw ltac:(lia)). lia. }
  destruct (remaining - btw <=? 0) eqn:E.
  - split; [constructor; [exact Hwf|constructor]|]. cbn [term_end entry_span data_frame f_len]. lia.
  - destruct (IH 0 (remaining - btw) (fo + align (btw + HDR) FA) ltac:(lia)) as [I1 I2].
    split; [constructor; [exact Hwf|exact I1]|]. cbn [term_end entry_span data_frame f_len]. rewrite I2. reflexivity. Qed.

(* ---- geometry facts the byte statements need: term length and required lengths are multiples of the frame alignment ---- *)
Definition mtu_aligned (l : log) : Prop := l_mtu l mod 32 = 0.

Lemma legal_tlen32 l : legal l -> l_tlen l mod 32 = 0.
Proof. intros (bits & Hb & Ht & _). rewrite Ht. replace bits with (5 + (bits - 5)) by lia. rewrite Z.pow_add_r by lia.
  change (2 ^ 5) with 32. rewrite Z.mul_comm. apply Z_mod_mult. Qed.

Lemma mpl_aligned l : mtu_aligned l -> max_payload_length l mod 32 = 0.
Proof. unfold mtu_aligned, max_payload_length. rewrite HDR_eq. intros H.
  replace (l_mtu l - 32) with (l_mtu l + (-1) * 32) by ring. rewrite Z_mod_plus_full. exact H. Qed.

Lemma required_spec_aligned len mpl : 0 <= len -> 32 <= mpl -> mpl mod 32 = 0 -> required_spec len mpl mod 32 = 0.
Proof. intros Hl Hm Hm32. unfold required_spec, unfrag_required_spec, frag_required_spec. rewrite HDR_eq, FA_eq.
  destruct (len <=? mpl).
  - apply align_bounds. lia.
  - assert (H1 : (mpl + 32) mod 32 = 0) by (rewrite <- Zplus_mod_idemp_l; rewrite Hm32; reflexivity).
    assert (H2 : (len / mpl * (mpl + 32)) mod 32 = 0).
    { rewrite <- Zmult_mod_idemp_r. rewrite H1. rewrite Z.mul_0_r. reflexivity. }
    pose proof (Z.mod_pos_bound len mpl ltac:(lia)) as Hr.
    destruct (0 <? len mod mpl).
    + rewrite Z.add_mod by lia. rewrite H2. pose proof (align_bounds (len mod mpl + 32) ltac:(lia)) as [_ Ha]. rewrite Ha. reflexivity.
    + rewrite Z.add_0_r. exact H2. Qed.

(* ---- what pub_try hands back when the answer is a position ---- *)
Lemma pub_new_position_ok m l tc toff tid pos res l2 p : pub_new_position m l tc toff tid pos res = (l2, Ok p) -> l2 = l.
Proof. unfold pub_new_position. destruct (0 <? res).
  - destruct (a <- sub64 m pos toff;; add64 m a res) as [np| | | |]; intros H; inversion H; reflexivity.
  - destruct (add64 m pos toff) as [v| | | |]; try (intros H; inversion H; fail).
    destruct (max_possible_position l <? v); [intros H; inversion H|].
    destruct (rotate_log m (meta_of l) tc tid); intros H; inversion H. Qed.

Lemma pub_try_ok_log m s len act s' p : pub_try m s len act = (s', Ok p) ->
  exists a, act (ps_log s) (index_by_term_count (l_count (ps_log s)))
                (term_id_of (tail (ps_log s) (index_by_term_count (l_count (ps_log s))))) = Ok a /\ ps_log s' = a_log a.
Proof. unfold pub_try. destruct (ps_closed s); [discriminate|].
  destruct (index_by_term_count (l_count (ps_log s)) <? 0); [discriminate|].
  destruct (add64 m _ _) as [position| | | |]; try discriminate.
  destruct (negb _); [discriminate|].
  destruct (position <? l_limit (ps_log s)).
  - destruct (act _ _ _) as [a|e| | |]; try discriminate.
    + destruct (pub_new_position m (a_log a) _ _ _ _ _) as [l2 r] eqn:En. intros H. inversion H; subst.
      apply pub_new_position_ok in En. subst l2. exists a. split; reflexivity.
    + destruct e; discriminate.
  - destruct (back_pressure_status m (ps_log s) position len) as [v|e| | |]; discriminate. Qed.

(* ---- the frames each flavour lays down when the message fits ---- *)
Section Frames.
Variables (m : mode) (rv : Z -> Z -> list Z -> Z) (l : log) (idx tid off : Z).
Hypothesis Hl : legal l.
Hypothesis Hi : 0 <= idx < 3.
Hypothesis Ht : in_i32 tid = true.
Hypothesis Ho : 0 <= off < 2147483648.
Hypothesis Htail : tail l idx = tid * two32 + off.

Definition wrote (req : Z) (r : outcome appended) : Prop :=
  exists a es, r = Ok a /\ Forall entry_wf es /\ term_end es = req /\
    a_log a = set_part (set_tail l idx (tid * two32 + (off + req))) idx (term_put (part l idx) off es).

Lemma ta_claim_frames len : 0 <= len <= max_payload_length l -> off + align (len + 32) 32 <= l_tlen l ->
  wrote (align (len + 32) 32) (ta_claim m l idx len tid).
Proof. intros Hlen Hfit. pose proof (legal_mpl l Hl) as (Hm1 & Hm2 & Hm3 & Hm4). pose proof (legal_tlen l Hl) as [Htl _].
  assert (Hd : l_tlen l / 8 <= l_tlen l) by (apply Z.div_le_upper_bound; lia).
  unfold ta_claim. rewrite unfrag_lengths_ok by lia. cbn [bind].
  pose proof (align_bounds (len + 32) ltac:(lia)) as [Ha _].
  rewrite (tail_claim_ok l idx tid off) by (auto; unfold two32; lia). cbn [bind c_off c_log c_tid].
  change (l_tlen (set_tail l idx (tid * two32 + (off + align (len + 32) 32)))) with (l_tlen l).
  assert (E2 : (l_tlen l <? off + align (len + 32) 32) = false) by lia. rewrite E2.
  assert (E3 : (off + (len + 32) <=? l_tlen l) = true) by lia. rewrite E3.
  eexists. eexists. split; [reflexivity|]. cbn [a_log]. rewrite part_set_tail.
  split; [|split; [|reflexivity]].
  - constructor; [|constructor]. cbn [entry_wf data_frame f_len f_body]. rewrite HDR_eq. rewrite zlen_nil. lia.
  - cbn [term_end entry_span data_frame f_len]. rewrite FA_eq. lia. Qed.

Lemma ta_unfrag_frames msg : zlen msg <= max_payload_length l -> off + align (zlen msg + 32) 32 <= l_tlen l ->
  wrote (align (zlen msg + 32) 32) (ta_append_unfragmented m rv l idx msg tid).
Proof. intros Hlen Hfit. pose proof (zlen_nonneg msg) as H0.
  pose proof (legal_mpl l Hl) as (Hm1 & Hm2 & Hm3 & Hm4). pose proof (legal_tlen l Hl) as [Htl _].
  assert (Hd : l_tlen l / 8 <= l_tlen l) by (apply Z.div_le_upper_bound; lia).
  unfold ta_append_unfragmented. rewrite unfrag_lengths_ok by lia. cbn [bind].
  pose proof (align_bounds (zlen msg + 32) ltac:(lia)) as [Ha _].
  rewrite (tail_claim_ok l idx tid off) by (auto; unfold two32; lia). cbn [bind c_off c_log c_tid].
  change (l_tlen (set_tail l idx (tid * two32 + (off + align (zlen msg + 32) 32)))) with (l_tlen l).
  assert (E2 : (l_tlen l <? off + align (zlen msg + 32) 32) = false) by lia. rewrite E2.
  eexists. eexists. split; [reflexivity|]. cbn [a_log]. rewrite part_set_tail.
  split; [|split; [|reflexivity]].
  - constructor; [|constructor]. cbn [entry_wf data_frame f_len f_body]. rewrite HDR_eq. lia.
  - cbn [term_end entry_span data_frame f_len]. rewrite FA_eq. lia. Qed.

Lemma ta_frag_frames msg : mtu_aligned l -> max_payload_length l < zlen msg <= max_message_length l ->
  off + frag_required_spec (zlen msg) (max_payload_length l) <= l_tlen l ->
  wrote (frag_required_spec (zlen msg) (max_payload_length l)) (ta_append_fragmented m rv l idx msg (max_payload_length l) tid).
Proof. intros Hal Hlen Hfit.
  pose proof (legal_mpl l Hl) as (Hm1 & Hm2 & Hm3 & Hm4). pose proof (legal_tlen l Hl) as [Htl _].
  assert (Hd : l_tlen l / 8 <= l_tlen l) by (apply Z.div_le_upper_bound; lia).
  unfold ta_append_fragmented. rewrite frag_required_ok by lia. cbn [bind].
  pose proof (frag_required_bounds (zlen msg) (max_payload_length l) Hm1 ltac:(lia)) as Hb.
  rewrite (tail_claim_ok l idx tid off) by (auto; unfold two32; lia). cbn [bind c_off c_log c_tid].
  change (l_tlen (set_tail l idx (tid * two32 + (off + frag_required_spec (zlen msg) (max_payload_length l))))) with (l_tlen l).
  assert (E2 : (l_tlen l <? off + frag_required_spec (zlen msg) (max_payload_length l)) = false) by lia. rewrite E2.
  eexists. eexists. split; [reflexivity|]. cbn [a_log]. rewrite part_set_tail.
  match goal with |- context [frag_loop ?fu ?lg rv tid ?mp ?le msg ?fl ?re off] =>
    destruct (frag_loop_wf lg rv tid mp le msg ltac:(lia) fu fl re off ltac:(lia)) as [W1 W2] end.
  split; [exact W1|]. split; [|reflexivity]. rewrite W2.
  apply frag_span_required; [lia|apply mpl_aligned; assumption|lia|]. unfold frag_fuel. lia. Qed.
End Frames.

(* ---- an accepted offer / claim / bulk offer appends well-formed entries occupying exactly the required bytes ---- *)
Definition content_inv (l : log) (n off : Z) : Prop :=
  off mod 32 = 0 /\ term_end (part l (n mod 3)) = Z.min off (l_tlen l) /\ spans_nonneg (part l (n mod 3)).

Lemma pub_offer_wrote m rv s n off msg s' p :
  pub_inv n off s -> mtu_aligned (ps_log s) -> zlen msg <= 1073741824 -> pub_offer m rv s msg = (s', Ok p) ->
  exists es, Forall entry_wf es /\ term_end es = op_required (ps_log s) (Offer msg) /\
    ps_log s' = set_part (set_tail (ps_log s) (n mod 3) (wrap32 (l_init (ps_log s) + n) * two32 + (off + op_required (ps_log s) (Offer msg))))
                         (n mod 3) (term_put (part (ps_log s) (n mod 3)) off es) /\
    off + op_required (ps_log s) (Offer msg) <= l_tlen (ps_log s).
Proof. intros Hinv Hal Hlen Hs. pose proof (pub_offer_cases m rv s n off Hinv msg Hlen) as T. rewrite Hs in T.
  pose proof (pi_legal _ _ _ Hinv) as Hleg. pose proof (legal_mpl _ Hleg) as (Hm1 & Hm2 & Hm3 & Hm4).
  pose proof (inv_off_bound s n off Hinv) as [Hob _]. pose proof (mod3_range n) as Hm3r. pose proof (inv_tid_i32 s n) as Htid.
  pose proof (pi_tail _ _ _ Hinv) as Htail. pose proof (pi_count _ _ _ Hinv) as Hcount. pose proof (pi_n _ _ _ Hinv) as Hn.
  pose proof (zlen_nonneg msg) as H0.
  assert (Hfit : off + op_required (ps_log s) (Offer msg) <= l_tlen (ps_log s) /\ op_too_long (ps_log s) (Offer msg) = false).
  { inversion T; subst. split; [assumption|congruence]. }
  destruct Hfit as [Hfit Htl]. cbn [op_too_long op_len] in Htl.
  unfold pub_offer in Hs. apply pub_try_ok_log in Hs. destruct Hs as (a & Hact & Hlog).
  rewrite Hcount in Hact. rewrite index_by_term_count_nonneg in Hact by assumption. rewrite Htail in Hact.
  rewrite raw_tid in Hact by (auto; unfold two32; lia).
  unfold op_required, op_len, required_spec in *.
  destruct (zlen msg <=? max_payload_length (ps_log s)) eqn:E1.
  - unfold unfrag_required_spec in *. rewrite HDR_eq, FA_eq in *.
    destruct (ta_unfrag_frames m rv (ps_log s) (n mod 3) _ off Hleg Hm3r Htid Hob Htail msg ltac:(lia) Hfit) as (a2 & es & Ha2 & W1 & W2 & W3).
    rewrite Ha2 in Hact. inversion Hact; subst a2. exists es. rewrite Hlog. auto.
  - assert (E2 : (max_message_length (ps_log s) <? zlen msg) = false) by lia. rewrite E2 in Hact.
    destruct (ta_frag_frames m rv (ps_log s) (n mod 3) _ off Hleg Hm3r Htid Hob Htail msg Hal ltac:(lia) Hfit) as (a2 & es & Ha2 & W1 & W2 & W3).
    rewrite Ha2 in Hact. inversion Hact; subst a2. exists es. rewrite Hlog. auto. Qed.

Lemma pub_claim_wrote m s n off len s' p :
  pub_inv n off s -> 0 <= len <= 1073741824 -> pub_claim m s len = (s', Ok p) ->
  exists es, Forall entry_wf es /\ term_end es = op_required (ps_log s) (Claim len) /\
    ps_log s' = set_part (set_tail (ps_log s) (n mod 3) (wrap32 (l_init (ps_log s) + n) * two32 + (off + op_required (ps_log s) (Claim len))))
                         (n mod 3) (term_put (part (ps_log s) (n mod 3)) off es) /\
    off + op_required (ps_log s) (Claim len) <= l_tlen (ps_log s).
Proof. intros Hinv Hlen Hs. pose proof (pub_claim_cases m s n off Hinv len Hlen) as T.
  pose proof (pi_legal _ _ _ Hinv) as Hleg. pose proof (legal_mpl _ Hleg) as (Hm1 & Hm2 & Hm3 & Hm4).
  pose proof (inv_off_bound s n off Hinv) as [Hob _]. pose proof (mod3_range n) as Hm3r. pose proof (inv_tid_i32 s n) as Htid.
  pose proof (pi_tail _ _ _ Hinv) as Htail. pose proof (pi_count _ _ _ Hinv) as Hcount. pose proof (pi_n _ _ _ Hinv) as Hn.
  destruct (max_payload_length (ps_log s) <? len) eqn:E1; [rewrite T in Hs; discriminate|].
  rewrite Hs in T.
  assert (Hfit : off + op_required (ps_log s) (Claim len) <= l_tlen (ps_log s)) by (inversion T; subst; assumption).
  unfold pub_claim in Hs. rewrite E1 in Hs. apply pub_try_ok_log in Hs. destruct Hs as (a & Hact & Hlog).
  rewrite Hcount in Hact. rewrite index_by_term_count_nonneg in Hact by assumption. rewrite Htail in Hact.
  rewrite raw_tid in Hact by (auto; unfold two32; lia).
  unfold op_required, op_len, required_spec in *.
  assert (E1' : (len <=? max_payload_length (ps_log s)) = true) by lia. rewrite E1' in *.
  unfold unfrag_required_spec in *. rewrite HDR_eq, FA_eq in *.
  destruct (ta_claim_frames m (ps_log s) (n mod 3) _ off Hleg Hm3r Htid Hob Htail len ltac:(lia) Hfit) as (a2 & es & Ha2 & W1 & W2 & W3).
  rewrite Ha2 in Hact. inversion Hact; subst a2. exists es. rewrite Hlog. auto. Qed.

Theorem pub_step_wrote m rv s n off o s' p :
  pub_inv n off s -> mtu_aligned (ps_log s) -> op_ok (ps_log s) o -> is_append o = true -> pub_step m rv s o = (s', Ok p) ->
  exists es, Forall entry_wf es /\ term_end es = op_required (ps_log s) o /\
    ps_log s' = set_part (set_tail (ps_log s) (n mod 3) (wrap32 (l_init (ps_log s) + n) * two32 + (off + op_required (ps_log s) o)))
                         (n mod 3) (term_put (part (ps_log s) (n mod 3)) off es) /\
    off + op_required (ps_log s) o <= l_tlen (ps_log s).
Proof. intros Hinv Hal Hok Ha Hs. destruct o; try discriminate; cbn [pub_step op_ok] in *.
  - eapply pub_offer_wrote; eassumption.
  - eapply pub_claim_wrote; eassumption.
  - pose proof (pi_legal _ _ _ Hinv) as Hleg. pose proof (legal_mpl _ Hleg) as (Hm1 & _).
    rewrite pub_bulk_eq_offer in Hs by (auto; lia).
    destruct (pub_offer_wrote m rv s n off (concat bufs) s' p Hinv Hal Hok Hs) as (es & W). exists es. exact W. Qed.

(* ---- words_append on the model's observations ---- *)
Lemma words_eqb_nil_same w : words_eqb (words_diff w w) [] = true.
Proof. rewrite words_diff_same. reflexivity. Qed.

Lemma list3_eqb_diff a0 a1 a2 b0 b1 b2 : (a0 <> b0 \/ a1 <> b1 \/ a2 <> b2) -> list_eqb Z.eqb [a0; a1; a2] [b0; b1; b2] = false.
Proof. intros H. cbn [list_eqb]. destruct (a0 =? b0) eqn:E0; [|reflexivity]. destruct (a1 =? b1) eqn:E1; [|reflexivity].
  destruct (a2 =? b2) eqn:E2; [|reflexivity]. lia. Qed.

Lemma tails_differ l l' i : 0 <= i < 3 -> tail l i <> tail l' i ->
  list_eqb Z.eqb [l_t0 l; l_t1 l; l_t2 l] [l_t0 l'; l_t1 l'; l_t2 l'] = false.
Proof. intros Hi Hne. apply list3_eqb_diff. assert (Hc : i = 0 \/ i = 1 \/ i = 2) by lia.
  destruct Hc as [-> | [-> | ->]]; cbn in Hne; auto. Qed.

Lemma content_inv_ok l n off : content_inv l n off -> off <= l_tlen l -> content_ok l n off.
Proof. intros (_ & He & Hs) Ho. split; [rewrite He; lia|exact Hs]. Qed.

(* accepted: only words of the new frames, all of them in [off, off + required) of the active partition *)
Theorem oracle_words_accept m rv s n off o s0 r0 n0 off0 s' p :
  pub_inv n off s -> content_inv (ps_log s) n off -> mtu_aligned (ps_log s) -> op_ok (ps_log s) o -> is_append o = true ->
  pub_step m rv s o = (s', Ok p) ->
  words_append (geom_of (ps_log s) n0 off0) (kind_of o) (op_len o) (pub_obs m s0 s r0) (pub_obs m s s' (Ok p)) = true.
Proof. intros Hinv Hc Hal Hok Ha Hs.
  destruct (pub_step_wrote m rv s n off o s' p Hinv Hal Hok Ha Hs) as (es & W1 & W2 & W3 & Hfit).
  destruct (pub_accept m rv s n off o s' p Hinv Hok Ha Hs) as (Hcl & Htl & Hpos & _).
  pose proof (pi_n _ _ _ Hinv) as Hn. pose proof (inv_off_bound s n off Hinv) as [Hob Htlen].
  assert (Hreq := required_ok s n off o Hinv Hok Ha Htl).
  pose proof (mod3_range n) as M0. pose proof (mod3_range (n+1)) as M1. pose proof (mod3_range (n+2)) as M2.
  pose proof (mod3_distinct n) as (D1 & D2 & D3). destruct (mod3_succ n) as [S1 S2].
  unfold words_append. rewrite c_res.
  assert (Hp : o_pos (pub_obs m s0 s r0) = Ok (spec_pos (ps_log s) n off)) by (unfold pub_obs, o_pos; cbn [snd]; exact Hpos).
  rewrite Hp. unfold appended_words. rewrite (p_active m s n off Hinv).
  unfold pos_off. rewrite (p_count m s n off Hinv). rewrite S1, S2.
  unfold pub_obs, o_dump. cbn [fst snd]. rewrite !d_part_delta by assumption.
  rewrite W3. rewrite part_set_part_same by assumption. rewrite !part_set_part_other by auto. rewrite !part_set_tail.
  rewrite !words_eqb_nil_same. rewrite !Bool.andb_true_r.
  destruct Hc as (Hoff32 & Hend & Hsp).
  assert (Hend' : term_end (part (ps_log s) (n mod 3)) = off) by (rewrite Hend; lia).
  destruct (appended_render _ off es Hend' Hsp W1) as [E1 E2]. rewrite E1.
  rewrite required_geom. fold (op_required (ps_log s) o). rewrite <- W2.
  unfold spec_pos, geom_of. cbn [g_tlen]. rewrite Z.min_l by lia.
  replace (n * l_tlen (ps_log s) + off - n * l_tlen (ps_log s)) with off by ring.
  apply offs_in_forallb. exact E2. Qed.

(* the end-of-term trips, from the content invariant *)
Theorem oracle_words_trip2 m rv s n off o s0 r0 n0 off0 e :
  pub_inv n off s -> content_inv (ps_log s) n off -> op_ok (ps_log s) o -> is_append o = true ->
  snd (pub_step m rv s o) = Err e -> fst (pub_step m rv s o) <> s ->
  tripped_words (geom_of (ps_log s) n0 off0) (o_dump (pub_obs m s0 s r0))
                (o_dump (pub_obs m s (fst (pub_step m rv s o)) (snd (pub_step m rv s o)))) = true.
Proof. intros Hinv Hc Hok Ha Hr Hne.
  destruct (Z.le_gt_cases off (l_tlen (ps_log s))) as [Hle | Hgt].
  { apply (oracle_words_trip m rv s n off o s0 r0 n0 off0 e); auto. apply content_inv_ok; assumption. }
  destruct (pub_step m rv s o) as [s' r] eqn:Es. cbn [fst snd] in *. subst r.
  destruct (pub_trip m rv s n off o s' e Hinv Hok Ha Es Hne) as (_ & _ & _ & _ & _ & _ & Hcase).
  pose proof (pi_n _ _ _ Hinv) as Hn. pose proof (pi_off _ _ _ Hinv) as Hoff.
  pose proof (mod3_range n) as M0. pose proof (mod3_range (n+1)) as M1. pose proof (mod3_range (n+2)) as M2.
  destruct (mod3_succ n) as [S1 S2].
  destruct (bumped_spec (ps_log s) n off (op_required (ps_log s) o) ltac:(lia)) as (_ & _ & _ & _ & B1 & B2 & B0).
  assert (Hlog : ps_log s' = bumped (ps_log s) n off (op_required (ps_log s) o)).
  { destruct Hcase as [(_ & Hlt & _) | (_ & _ & Hlog)]; [lia|exact Hlog]. }
  unfold tripped_words. rewrite (p_active m s n off Hinv), (p_tail_off m s n off Hinv). rewrite S1, S2.
  unfold geom_of at 1. cbn [g_tlen].
  assert (E : (off <? l_tlen (ps_log s)) = false) by lia. rewrite E.
  unfold pub_obs, o_dump. cbn [fst snd]. rewrite !d_part_delta by assumption.
  rewrite Hlog, B0, B1, B2. rewrite E.
  rewrite !words_eqb_nil_same. reflexivity. Qed.

(* every offer / claim / bulk offer: the bytes part of the per-step predicate *)
Lemma trip_changes s n off req s' : pub_inv n off s -> 0 < req ->
  (ps_log s' = rotated (bumped (ps_log s) n off req) n \/ ps_log s' = bumped (ps_log s) n off req) -> s' <> s.
Proof. intros Hinv Hreq Hlog Heq. subst s'. pose proof (mod3_range n) as M0. destruct Hlog as [Hlog | Hlog].
  - pose proof (f_equal l_count Hlog) as Hcnt.
    destruct (rotated_fields (bumped (ps_log s) n off req) n) as (Rc & _). rewrite Rc in Hcnt.
    pose proof (pi_count _ _ _ Hinv). lia.
  - pose proof (f_equal (fun x => tail x (n mod 3)) Hlog) as Hc. cbn beta in Hc.
    rewrite tail_bumped in Hc by assumption. rewrite Z.eqb_refl in Hc. rewrite (pi_tail _ _ _ Hinv) in Hc. lia. Qed.

Theorem oracle_words_shared m rv s n off o s0 r0 n0 off0 :
  pub_inv n off s -> content_inv (ps_log s) n off -> mtu_aligned (ps_log s) -> op_ok (ps_log s) o -> is_append o = true ->
  words_append (geom_of (ps_log s) n0 off0) (kind_of o) (op_len o)
               (pub_obs m s0 s r0) (pub_obs m s (fst (pub_step m rv s o)) (snd (pub_step m rv s o))) = true.
Proof. intros Hinv Hc Hal Hok Ha.
  assert (Hsame : forall e, (e <> AdminAction) ->
            words_append (geom_of (ps_log s) n0 off0) (kind_of o) (op_len o) (pub_obs m s0 s r0) (pub_obs m s s (Err e)) = true).
  { intros e He. unfold words_append. rewrite c_res.
    unfold pub_obs at 2 3 4 5. unfold o_dump. cbn [fst snd]. rewrite !tails_delta. rewrite list3_eqb_refl.
    destruct e; try apply no_words_same. exfalso. apply He. reflexivity. }
  destruct (pub_step_cases m rv s n off o Hinv Hok Ha) as [(len & _ & _ & E) | T].
  { rewrite E. cbn [fst snd]. apply Hsame. discriminate. }
  destruct (pub_step m rv s o) as [s' r] eqn:Es. cbn [fst snd].
  inversion T; subst.
  - apply Hsame. discriminate.
  - apply Hsame. unfold status_of. destruct (_ <=? _); [discriminate|]. destruct (l_connected _); discriminate.
  - apply Hsame. discriminate.
  - eapply oracle_words_accept; eassumption.
  - (* rotation *)
    match goal with H : op_too_long _ _ = false |- _ => rename H into Htl end.
    assert (Hreq := required_ok s n off o Hinv Hok Ha Htl).
    assert (Hne : s' <> s) by (eapply trip_changes; [exact Hinv| |left; eassumption]; lia).
    pose proof (oracle_words_trip2 m rv s n off o s0 r0 n0 off0 AdminAction Hinv Hc Hok Ha) as Htw.
    rewrite Es in Htw. cbn [fst snd] in Htw. specialize (Htw eq_refl Hne).
    unfold words_append. rewrite c_res. exact Htw.
  - (* last term *)
    match goal with H : op_too_long _ _ = false |- _ => rename H into Htl end.
    match goal with H : ps_log s' = bumped _ _ _ _ |- _ => rename H into Hlog end.
    assert (Hreq := required_ok s n off o Hinv Hok Ha Htl).
    assert (Hne : s' <> s) by (eapply trip_changes; [exact Hinv| |right; eassumption]; lia).
    pose proof (oracle_words_trip2 m rv s n off o s0 r0 n0 off0 MaxPositionExceeded Hinv Hc Hok Ha) as Htw.
    rewrite Es in Htw. cbn [fst snd] in Htw. specialize (Htw eq_refl Hne).
    unfold words_append. rewrite c_res. pose proof (mod3_range n) as M0.
    change (snd (fst (o_dump (pub_obs m s0 s r0)))) with [l_t0 (ps_log s); l_t1 (ps_log s); l_t2 (ps_log s)].
    change (snd (fst (o_dump (pub_obs m s s' (Err MaxPositionExceeded))))) with [l_t0 (ps_log s'); l_t1 (ps_log s'); l_t2 (ps_log s')].
    rewrite (tails_differ (ps_log s) (ps_log s') (n mod 3) M0); [exact Htw|].
    rewrite Hlog. rewrite tail_bumped by assumption. rewrite Z.eqb_refl. rewrite (pi_tail _ _ _ Hinv). lia.
Qed.

(* the complete per-step predicate on every offer / claim / bulk offer *)
Theorem oracle_step_shared m rv s n off o s0 r0 n0 off0 :
  pub_inv n off s -> content_inv (ps_log s) n off -> mtu_aligned (ps_log s) -> op_ok (ps_log s) o -> is_append o = true ->
  holds_append (geom_of (ps_log s) n0 off0) (env_of s) (kind_of o) (op_len o)
               (pub_obs m s0 s r0) (pub_obs m s (fst (pub_step m rv s o)) (snd (pub_step m rv s o))) = true.
Proof. intros Hinv Hc Hal Hok Ha. unfold holds_append.
  rewrite (oracle_flow_shared m rv s n off o s0 r0 n0 off0 Hinv Hok Ha).
  rewrite (oracle_words_shared m rv s n off o s0 r0 n0 off0 Hinv Hc Hal Hok Ha). reflexivity. Qed.

(* ---- the content invariant over histories, under the cleaning contract ---- *)
Lemma term_update_span t off g : (forall e, entry_span (g e) = entry_span e) ->
  term_end (term_update t off g) = term_end t /\ (spans_nonneg t -> spans_nonneg (term_update t off g)).
Proof. intros Hg. destruct (term_update_cases t off g) as [-> | (p & e & s & Ht & _ & ->)]; [auto|].
  subst t. rewrite !term_end_app. cbn [term_end]. rewrite Hg. split; [reflexivity|].
  intros H. apply Forall_app in H. destruct H as [Hp Hes]. inversion Hes; subst.
  apply Forall_app. split; [assumption|]. constructor; [rewrite Hg; assumption|assumption]. Qed.

Lemma commit_entry_span body e : entry_span (commit_entry body e) = entry_span e.
Proof. destruct e; reflexivity. Qed.
Lemma abort_entry_span e : entry_span (abort_entry e) = entry_span e.
Proof. destruct e; reflexivity. Qed.

(* set_part with any index, read at a proper index *)
Lemma part_set_part_any l i t j : 0 <= j < 3 ->
  part (set_part l i t) j = part l j \/ (part (set_part l i t) j = t /\ part l i = part l j).
Proof. intros Hj. assert (Hc : j = 0 \/ j = 1 \/ j = 2) by lia. unfold part, set_part. cbn [l_p0 l_p1 l_p2].
  destruct Hc as [-> | [-> | ->]]; cbn [Z.eqb]; destruct (i =? 0) eqn:E0; destruct (i =? 1) eqn:E1; cbn [orb]; auto; lia. Qed.

Lemma claim_apply_content n off s g : pub_inv n off s -> content_inv (ps_log s) n off ->
  (forall e, entry_span (g e) = entry_span e) -> content_inv (ps_log (fst (claim_apply s g))) n off.
Proof. intros Hinv (H32 & Hend & Hsp) Hg. unfold claim_apply. destruct (ps_claim s) as [[[i o0] fl]|]; cbn [fst ps_log]; [|repeat split; assumption].
  pose proof (mod3_range n) as M0.
  change (l_tlen (set_part (ps_log s) i (term_update (part (ps_log s) i) o0 g))) with (l_tlen (ps_log s)).
  unfold content_inv. change (l_tlen (set_part (ps_log s) i (term_update (part (ps_log s) i) o0 g))) with (l_tlen (ps_log s)).
  destruct (part_set_part_any (ps_log s) i (term_update (part (ps_log s) i) o0 g) (n mod 3) M0) as [-> | [-> Hp]]; [repeat split; assumption|].
  rewrite Hp. destruct (term_update_span (part (ps_log s) (n mod 3)) o0 g Hg) as [T1 T2]. rewrite T1. repeat split; auto. Qed.

Lemma next_index_inv n off s : pub_inv n off s -> next_index (ps_log s) = (n + 1) mod 3.
Proof. intros Hinv. unfold next_index. rewrite (pi_count _ _ _ Hinv). rewrite index_by_term_count_nonneg by (apply (pi_n _ _ _ Hinv)).
  apply Zplus_mod_idemp_l. Qed.

Lemma env_step_content n off s o : pub_inv n off s -> content_inv (ps_log s) n off -> is_append o = false ->
  content_inv (ps_log (fst (env_step s o))) n off.
Proof. intros Hinv Hc Hna. destruct o; try discriminate; cbn [env_step].
  - unfold pub_commit. destruct (ps_claim s) as [[[i o0] fl]|] eqn:Ecl; [|exact Hc].
    destruct (fl - HDR <? zlen body); [exact Hc|]. apply claim_apply_content; auto. apply commit_entry_span.
  - apply claim_apply_content; auto. apply abort_entry_span.
  - exact Hc.
  - exact Hc.
  - exact Hc.
  - cbn [fst with_log ps_log]. rewrite (next_index_inv n off s Hinv).
    pose proof (mod3_range n) as M0. pose proof (mod3_range (n + 1)) as M1. pose proof (mod3_distinct n) as (D1 & _).
    destruct Hc as (H32 & Hend & Hsp). unfold content_inv. rewrite part_set_part_other by auto. repeat split; assumption. Qed.

Lemma required_aligned s n off o : pub_inv n off s -> mtu_aligned (ps_log s) -> op_ok (ps_log s) o -> is_append o = true ->
  op_required (ps_log s) o mod 32 = 0.
Proof. intros Hinv Hal Hok Ha. pose proof (legal_mpl _ (pi_legal _ _ _ Hinv)) as (Hm1 & _).
  apply required_spec_aligned; [|assumption|apply mpl_aligned; assumption].
  destruct o; try discriminate; cbn [op_len op_ok] in *; try lia; [apply zlen_nonneg|apply total_nonneg]. Qed.

Theorem content_step m rv s n off o :
  pub_inv n off s -> content_inv (ps_log s) n off -> mtu_aligned (ps_log s) -> op_ok (ps_log s) o ->
  (snd (pub_step m rv s o) = Err AdminAction -> part (ps_log s) (next_index (ps_log s)) = []) ->
  exists n' off', pub_inv n' off' (fst (pub_step m rv s o)) /\ content_inv (ps_log (fst (pub_step m rv s o))) n' off' /\
                  same_geom (ps_log s) (ps_log (fst (pub_step m rv s o))).
Proof. intros Hinv Hc Hal Hok Hclean. destruct (is_append o) eqn:Ea.
  2:{ destruct (env_step_inv n off s o Hinv Hok Ea) as [H1 H2].
      assert (E : pub_step m rv s o = env_step s o) by (destruct o; try discriminate; reflexivity).
      rewrite E. exists n, off. split; [assumption|]. split; [apply env_step_content; assumption|assumption]. }
  pose proof (mod3_range n) as M0. pose proof (mod3_range (n+1)) as M1. pose proof (mod3_range (n+2)) as M2.
  pose proof (mod3_distinct n) as (D1 & D2 & D3). pose proof (pi_n _ _ _ Hinv) as Hn.
  pose proof (inv_off_bound s n off Hinv) as [Hob Htlen]. pose proof (legal_tlen32 _ (pi_legal _ _ _ Hinv)) as Ht32.
  assert (Hstay : fst (pub_step m rv s o) = s -> exists n' off', pub_inv n' off' (fst (pub_step m rv s o)) /\
             content_inv (ps_log (fst (pub_step m rv s o))) n' off' /\ same_geom (ps_log s) (ps_log (fst (pub_step m rv s o)))).
  { intros ->. exists n, off. split; [assumption|]. split; [assumption|apply same_geom_refl]. }
  destruct (pub_step_cases m rv s n off o Hinv Hok Ea) as [(len & _ & _ & E) | T].
  { apply Hstay. rewrite E. reflexivity. }
  destruct (pub_step m rv s o) as [s' r] eqn:Es. cbn [fst snd] in *.
  pose proof Hc as (H32 & Hend & Hsp).
  inversion T; subst; try (apply Hstay; reflexivity).
  - (* accepted *)
    match goal with H : op_too_long _ _ = false |- _ => rename H into Htl end.
    assert (Hreq := required_ok s n off o Hinv Hok Ea Htl).
    destruct (try_result_inv s n off _ _ _ s' _ Hinv Hreq T) as (Hg & _ & _ & Hinv').
    destruct (pub_step_wrote m rv s n off o s' _ Hinv Hal Hok Ea Es) as (es & W1 & W2 & W3 & Hfit).
    pose proof (required_aligned s n off o Hinv Hal Hok Ea) as Hr32.
    exists n, (off + op_required (ps_log s) o). split; [exact Hinv'|]. split; [|exact Hg].
    unfold content_inv. rewrite W3. rewrite part_set_part_same by assumption.
    change (l_tlen (set_part _ _ _)) with (l_tlen (ps_log s)).
    assert (Hend' : term_end (part (ps_log s) (n mod 3)) = off) by (rewrite Hend; lia).
    rewrite (term_put_at _ off es Hend' Hsp). rewrite term_end_app, Hend', W2. split; [|split].
    + rewrite Z.add_mod by lia. rewrite H32, Hr32. reflexivity.
    + lia.
    + apply spans_nonneg_app; [assumption|apply wf_spans; assumption].
  - (* rotation *)
    match goal with H : op_too_long _ _ = false |- _ => rename H into Htl end.
    match goal with H : ps_log s' = rotated _ _ |- _ => rename H into Hlog end.
    assert (Hreq := required_ok s n off o Hinv Hok Ea Htl).
    destruct (try_result_inv s n off _ _ _ s' _ Hinv Hreq T) as (Hg & _ & _ & Hinv').
    exists (n + 1), 0. split; [exact Hinv'|]. split; [|exact Hg].
    destruct (bumped_spec (ps_log s) n off (op_required (ps_log s) o) ltac:(lia)) as (_ & _ & _ & _ & B1 & _).
    specialize (Hclean eq_refl). rewrite (next_index_inv n off s Hinv) in Hclean.
    unfold content_inv. rewrite Hlog. change (part (rotated ?x n) ?i) with (part x i). rewrite B1, Hclean.
    cbn [term_end]. split; [reflexivity|]. split; [|constructor].
    change (l_tlen (rotated ?x n)) with (l_tlen x). destruct (bumped_fields (ps_log s) n off (op_required (ps_log s) o)) as (_ & _ & _ & (_ & G2 & _)).
    rewrite <- G2. lia.
  - (* last term *)
    match goal with H : op_too_long _ _ = false |- _ => rename H into Htl end.
    match goal with H : ps_log s' = bumped _ _ _ _ |- _ => rename H into Hlog end.
    assert (Hreq := required_ok s n off o Hinv Hok Ea Htl).
    destruct (try_result_inv s n off _ _ _ s' _ Hinv Hreq T) as (Hg & _ & _ & [Hsame | (_ & Hinv')]).
    { apply Hstay. exact Hsame. }
    pose proof (required_aligned s n off o Hinv Hal Hok Ea) as Hr32.
    exists n, (off + op_required (ps_log s) o). split; [exact Hinv'|]. split; [|exact Hg].
    destruct (bumped_spec (ps_log s) n off (op_required (ps_log s) o) ltac:(lia)) as (_ & _ & _ & _ & _ & _ & B0).
    destruct Hg as (_ & G2 & _). unfold content_inv. rewrite <- G2. rewrite Hlog, B0.
    split; [rewrite Z.add_mod by lia; rewrite H32, Hr32; reflexivity|].
    destruct (off <? l_tlen (ps_log s)) eqn:Eoff.
    + assert (Hend' : term_end (part (ps_log s) (n mod 3)) = off) by (rewrite Hend; lia).
      rewrite (term_put_at _ off _ Hend' Hsp). rewrite term_end_app, Hend'. cbn [term_end entry_span data_frame f_len].
      rewrite FA_eq. rewrite align_exact by (rewrite Zminus_mod, Ht32, H32; reflexivity). split; [lia|].
      apply spans_nonneg_app; [assumption|]. constructor; [|constructor]. cbn [entry_span data_frame f_len]. rewrite FA_eq.
      rewrite align_exact by (rewrite Zminus_mod, Ht32, H32; reflexivity). lia.
    + split; [lia|assumption].
Qed.

(* ---- whole histories ---- *)
Definition oop_of (o : op) : oop :=
  match o with
  | Offer msg => OAppend KOffer (zlen msg)
  | Claim len => OAppend KClaim len
  | Bulk bufs => OAppend KBulk (total bufs)
  | Commit _ => OCommit
  | Abort => OAbort
  | SetLimit v => OLimit v
  | SetConnected b => OConn b
  | Close => OClose
  | Clean => OClean
  end.

(* the driver's cleaning contract, on the run: whenever the log rotates, the partition it rotates into is empty *)
Fixpoint clean_before_reuse (m : mode) (rv : Z -> Z -> list Z -> Z) (s : pubstate) (ops : list op) : Prop :=
  match ops with
  | [] => True
  | o :: r => (snd (pub_step m rv s o) = Err AdminAction -> part (ps_log s) (next_index (ps_log s)) = []) /\
              clean_before_reuse m rv (fst (pub_step m rv s o)) r
  end.

Lemma geom_of_same a b n0 off0 : same_geom a b -> geom_of b n0 off0 = geom_of a n0 off0.
Proof. intros (G1 & G2 & G3 & G4 & G5). unfold geom_of. rewrite G1, G2, G3, G4, G5. reflexivity. Qed.

Lemma out_eqb_position m s n off : pub_inv n off s -> out_eqb (pub_position m s) (pub_position m s) = true.
Proof. intros Hinv. destruct (ps_closed s) eqn:Ec.
  - unfold pub_position. rewrite Ec. reflexivity.
  - rewrite (pub_position_spec m s n off Hinv Ec). apply out_eqb_ok. Qed.

Lemma position_same_meta m s s' : same_meta (ps_log s) (ps_log s') -> ps_closed s' = ps_closed s -> pub_position m s' = pub_position m s.
Proof. intros Hm Hc. unfold pub_position. rewrite Hc. destruct (ps_closed s); [reflexivity|].
  destruct Hm as (M0 & M1 & M2 & Mc & _ & _ & (G1 & G2 & _)).
  unfold bits_of, tail. rewrite <- M0, <- M1, <- M2, <- Mc, <- G1, <- G2. reflexivity. Qed.

Lemma words_diff_nil_r a : Forall (fun w => snd w = 0) (words_diff a []).
Proof. induction a as [|[o v] a IH]; [constructor|]. cbn [words_diff]. constructor; [reflexivity|exact IH]. Qed.

Lemma no_words_same_parts a b : l_p0 a = l_p0 b -> l_p1 a = l_p1 b -> l_p2 a = l_p2 b -> no_words (log_delta a b) = true.
Proof. intros H0 H1 H2. unfold no_words, log_delta. cbn [snd forallb]. rewrite H0, H1, H2. rewrite !words_diff_same. reflexivity. Qed.

(* operations that are not offers satisfy holds_other *)
Lemma oracle_other_shared m s n off o s0 r0 n0 off0 :
  pub_inv n off s -> op_ok (ps_log s) o -> is_append o = false ->
  holds_other (geom_of (ps_log s) n0 off0) (env_of s) (oop_of o)
              (pub_obs m s0 s r0) (pub_obs m s (fst (env_step s o)) (snd (env_step s o))) = true.
Proof. intros Hinv Hok Hna. pose proof (out_eqb_position m s n off Hinv) as Hpp.
  pose proof (mod3_range n) as M0. pose proof (mod3_range (n+1)) as M1. pose proof (mod3_range (n+2)) as M2.
  pose proof (mod3_distinct n) as (D1 & D2 & D3). destruct (mod3_succ n) as [S1 S2].
  assert (Hmeta : forall l2 c cl, same_meta (ps_log s) l2 -> c = ps_closed s -> forall r,
            (d_count (o_dump (pub_obs m s (mkPub l2 c cl) r)) =? d_count (o_dump (pub_obs m s0 s r0))) &&
            list_eqb Z.eqb (snd (fst (o_dump (pub_obs m s0 s r0)))) (snd (fst (o_dump (pub_obs m s (mkPub l2 c cl) r)))) &&
            out_eqb (o_pos (pub_obs m s0 s r0)) (o_pos (pub_obs m s (mkPub l2 c cl) r)) = true).
  { intros l2 c cl Hm -> r. unfold pub_obs, o_dump, o_pos. cbn [fst snd]. rewrite !d_count_delta, !tails_delta.
    rewrite (position_same_meta m s (mkPub l2 (ps_closed s) cl) Hm eq_refl). rewrite Hpp.
    destruct Hm as (T0 & T1 & T2 & Tc & _). cbn [ps_log]. rewrite <- T0, <- T1, <- T2, <- Tc. rewrite Z.eqb_refl, list3_eqb_refl. reflexivity. }
  destruct o; try discriminate; cbn [env_step oop_of holds_other].
  - (* Commit *) unfold pub_commit, claim_apply. destruct (ps_claim s) as [[[i o0] fl]|] eqn:Ecl; cbn [fst snd].
    + destruct (fl - HDR <? zlen body); cbn [fst snd].
      * destruct s as [l c cl]. apply (Hmeta l c cl); [repeat split|reflexivity].
      * apply Hmeta; [apply same_meta_set_part|reflexivity].
    + destruct s as [l c cl]. apply (Hmeta l c cl); [repeat split|reflexivity].
  - (* Abort *) unfold claim_apply. destruct (ps_claim s) as [[[i o0] fl]|] eqn:Ecl; cbn [fst snd].
    + apply Hmeta; [apply same_meta_set_part|reflexivity].
    + destruct s as [l c cl]. apply (Hmeta l c cl); [repeat split|reflexivity].
  - (* SetLimit *) cbn [fst snd]. unfold with_log, dump_eqb.
    assert (Hnw : no_words (o_dump (pub_obs m s (mkPub (set_limit (ps_log s) v) (ps_closed s) (ps_claim s)) (Ok 0))) = true).
    { unfold pub_obs, o_dump. cbn [fst snd ps_log]. apply no_words_same_parts; reflexivity. }
    rewrite Hnw. unfold pub_obs, o_dump, o_pos, o_res. cbn [fst snd ps_log]. rewrite !d_count_delta, !tails_delta.
    cbn [set_limit l_count l_t0 l_t1 l_t2]. rewrite Z.eqb_refl, list3_eqb_refl.
    change (pub_position m (mkPub (set_limit (ps_log s) v) (ps_closed s) (ps_claim s))) with (pub_position m s). rewrite Hpp. reflexivity.
  - (* SetConnected *) cbn [fst snd]. unfold with_log, dump_eqb.
    assert (Hnw : no_words (o_dump (pub_obs m s (mkPub (set_connected (ps_log s) b) (ps_closed s) (ps_claim s)) (Ok 0))) = true).
    { unfold pub_obs, o_dump. cbn [fst snd ps_log]. apply no_words_same_parts; reflexivity. }
    rewrite Hnw. unfold pub_obs, o_dump, o_pos, o_res. cbn [fst snd ps_log]. rewrite !d_count_delta, !tails_delta.
    cbn [set_connected l_count l_t0 l_t1 l_t2]. rewrite Z.eqb_refl, list3_eqb_refl.
    change (pub_position m (mkPub (set_connected (ps_log s) b) (ps_closed s) (ps_claim s))) with (pub_position m s). rewrite Hpp. reflexivity.
  - (* Close *) cbn [fst snd]. unfold dump_eqb.
    assert (Hnw : no_words (o_dump (pub_obs m s (mkPub (ps_log s) true (ps_claim s)) (Ok 0))) = true).
    { unfold pub_obs, o_dump. cbn [fst snd ps_log]. apply no_words_same_parts; reflexivity. }
    rewrite Hnw. unfold pub_obs, o_dump, o_pos. cbn [fst snd ps_log]. rewrite !d_count_delta, !tails_delta.
    rewrite Z.eqb_refl, list3_eqb_refl. reflexivity.
  - (* Clean *) cbn [fst snd]. unfold with_log. rewrite (p_active m s n off Hinv). rewrite S1, S2.
    rewrite (next_index_inv n off s Hinv).
    unfold pub_obs, o_dump, o_pos. cbn [fst snd ps_log]. rewrite !d_count_delta, !tails_delta. rewrite !d_part_delta by assumption.
    cbn [set_part l_count l_t0 l_t1 l_t2]. rewrite Z.eqb_refl, list3_eqb_refl.
    change (pub_position m (mkPub (set_part (ps_log s) ((n + 1) mod 3) []) (ps_closed s) (ps_claim s))) with (pub_position m s). rewrite Hpp.
    rewrite part_set_part_same by assumption. rewrite !part_set_part_other by auto. rewrite !words_eqb_nil_same.
    cbn [andb]. rewrite !Bool.andb_true_r. apply forallb_forall. intros w Hw.
    pose proof (words_diff_nil_r (render_term (part (ps_log s) ((n + 1) mod 3)))) as Hz. rewrite Forall_forall in Hz.
    change (render_term []) with (@nil (Z * Z)) in Hw. specialize (Hz w Hw). lia.
Qed.

(* the environment the oracle tracks is the model's *)
Lemma env_after_step m rv s n off o : pub_inv n off s -> op_ok (ps_log s) o ->
  env_after (env_of s) (oop_of o) = env_of (fst (pub_step m rv s o)).
Proof. intros Hinv Hok. destruct (is_append o) eqn:Ea.
  - assert (E : env_after (env_of s) (oop_of o) = env_of s) by (destruct o; try discriminate; reflexivity). rewrite E.
    destruct (pub_step_cases m rv s n off o Hinv Hok Ea) as [(len & _ & _ & E2) | T]; [rewrite E2; reflexivity|].
    destruct (pub_step m rv s o) as [s' r] eqn:Es. cbn [fst].
    destruct (op_too_long (ps_log s) o) eqn:Etl.
    { inversion T; subst; try discriminate; reflexivity. }
    assert (Hreq := required_ok s n off o Hinv Hok Ea Etl).
    destruct (try_result_inv s n off _ _ _ s' r Hinv Hreq T) as (_ & Hl & Hcn & _).
    assert (Hcl : ps_closed s' = ps_closed s) by (inversion T; subst; congruence).
    unfold env_of. rewrite Hl, Hcn, Hcl. reflexivity.
  - assert (E : pub_step m rv s o = env_step s o) by (destruct o; try discriminate; reflexivity). rewrite E.
    destruct o; try discriminate; cbn [env_step oop_of env_after]; try reflexivity.
    + unfold pub_commit, claim_apply. destruct (ps_claim s) as [[[i o0] fl]|]; [|reflexivity]. destruct (fl - HDR <? zlen body); reflexivity.
    + unfold claim_apply. destruct (ps_claim s) as [[[i o0] fl]|]; reflexivity.
Qed.

Theorem oracle_history_from m rv ops : forall s n off s0 r0 n0 off0,
  pub_inv n off s -> content_inv (ps_log s) n off -> mtu_aligned (ps_log s) -> hist_ok (ps_log s) ops ->
  clean_before_reuse m rv s ops ->
  holds_from (geom_of (ps_log s) n0 off0) (env_of s) (pub_obs m s0 s r0) (map oop_of ops) (pub_trace m rv s ops) = true.
Proof. induction ops as [|o r IH]; intros s n off s0 r0 n0 off0 Hinv Hc Hal Hok Hcl; [reflexivity|].
  inversion Hok as [|? ? Ho Hr]; subst. destruct Hcl as [Hcl1 Hcl2].
  cbn [map pub_trace]. destruct (pub_step m rv s o) as [s' res] eqn:Es. cbn [holds_from].
  destruct (content_step m rv s n off o Hinv Hc Hal Ho) as (n' & off' & Hinv' & Hc' & Hg').
  { rewrite Es. exact Hcl1. }
  rewrite Es in Hinv', Hc', Hg'. try rewrite Es in Hcl2. cbn [fst] in *.
  pose proof (env_after_step m rv s n off o Hinv Ho) as Henv. rewrite Es in Henv. cbn [fst] in Henv.
  assert (Hstep : holds_step (geom_of (ps_log s) n0 off0) (env_of s) (oop_of o) (pub_obs m s0 s r0) (pub_obs m s s' res) = true).
  { destruct (is_append o) eqn:Ea.
    - pose proof (oracle_step_shared m rv s n off o s0 r0 n0 off0 Hinv Hc Hal Ho Ea) as H. rewrite Es in H. cbn [fst snd] in H.
      destruct o; try discriminate; exact H.
    - pose proof (oracle_other_shared m s n off o s0 r0 n0 off0 Hinv Ho Ea) as H.
      assert (E : pub_step m rv s o = env_step s o) by (destruct o; try discriminate; reflexivity).
      rewrite <- E, Es in H. cbn [fst snd] in H. destruct o; try discriminate; exact H. }
  rewrite Hstep. cbn [andb]. rewrite Henv. rewrite <- (geom_of_same _ _ n0 off0 Hg').
  apply (IH s' n' off'); auto.
  - destruct Hg' as (_ & _ & G3 & _). unfold mtu_aligned. rewrite <- G3. exact Hal.
  - eapply Forall_impl; [|exact Hr]. intros a. apply op_ok_same. destruct Hg' as (_ & H & _). exact H.
Qed.

(* ---- from the hand-over state ---- *)
Definition handover_aligned (h : handover) : Prop := h_mtu h mod 32 = 0 /\ h_off0 h mod 32 = 0.
Definition geom_of_handover (h : handover) : geom :=
  mkGeom (h_tlen h) (h_mtu h) (h_init h) (h_n0 h) (h_off0 h) (h_session h) (h_stream h).

Lemma handover_content h : handover_ok h -> handover_aligned h ->
  content_inv (handover_log h) (h_n0 h) (h_off0 h) /\ mtu_aligned (handover_log h).
Proof. intros (Hg & Hn & Ho) (Hm32 & Ho32). split; [|exact Hm32].
  pose proof (mod3_range (h_n0 h)) as M0. unfold content_inv. split; [exact Ho32|].
  assert (Hp : part (handover_log h) (h_n0 h mod 3) = if 0 <? h_off0 h then [Unknown (h_off0 h)] else []).
  { unfold handover_log, handed_over. cbv zeta. assert (Hc : h_n0 h mod 3 = 0 \/ h_n0 h mod 3 = 1 \/ h_n0 h mod 3 = 2) by lia.
    destruct Hc as [-> | [-> | ->]]; reflexivity. }
  rewrite Hp. change (l_tlen (handover_log h)) with (h_tlen h).
  destruct (0 <? h_off0 h) eqn:E; cbn [term_end entry_span]; (split; [lia|]); repeat constructor. cbn [entry_span]. lia. Qed.

Lemma handover_obs0 m h : handover_ok h ->
  obs0 (geom_of_handover h) = pub_obs m (pub_init (handover_log h)) (pub_init (handover_log h)) (Ok 0).
Proof. intros (Hg & Hn & Ho).
  pose proof (handed_over_inv (h_init h) (h_tlen h) (h_mtu h) (h_session h) (h_stream h) (h_n0 h) (h_off0 h) Hg Hn Ho) as Hinv.
  pose proof (pub_position_spec m _ _ _ Hinv eq_refl) as Hpos. fold (handover_log h) in Hpos.
  unfold obs0, pub_obs, geom_of_handover. cbn [g_init g_tlen g_mtu g_session g_stream g_n0 g_off0]. fold (handover_log h).
  rewrite Hpos. unfold spec_pos. cbn [ps_log pub_init].
  change (l_tlen (handover_log h)) with (h_tlen h). rewrite Z.min_l by lia.
  unfold log_delta. rewrite !words_diff_same. reflexivity. Qed.

(* the complete oracle - flow and bytes of every operation - is true on the trace of every history of the shared publication
   that keeps the cleaning contract, from every aligned hand-over point *)
Theorem oracle_history_shared m rv h ops :
  handover_ok h -> handover_aligned h -> hist_ok (handover_log h) ops ->
  clean_before_reuse m rv (pub_init (handover_log h)) ops ->
  holds_history (geom_of_handover h) (map oop_of ops) (pub_trace m rv (pub_init (handover_log h)) ops) = true.
Proof. intros Hh Hal Hok Hcl. unfold holds_history. rewrite (handover_obs0 m h Hh).
  destruct (handover_content h Hh Hal) as [Hc Hma]. destruct Hh as (Hg & Hn & Ho).
  pose proof (handed_over_inv (h_init h) (h_tlen h) (h_mtu h) (h_session h) (h_stream h) (h_n0 h) (h_off0 h) Hg Hn Ho) as Hinv.
  apply (oracle_history_from m rv ops (pub_init (handover_log h)) (h_n0 h) (h_off0 h)); assumption. Qed.

(* a syntactic form of the cleaning contract: no offer / claim / bulk offer before the partition the log would rotate into has
   been cleaned since the previous one (what the history generator does: a Clean after every append) *)
Fixpoint cleaned_between (pending : bool) (ops : list op) : Prop :=
  match ops with
  | [] => True
  | o :: r => if is_append o then pending = false /\ cleaned_between true r
              else match o with Clean => cleaned_between false r | _ => cleaned_between pending r end
  end.

Lemma next_index_range l : 0 <= next_index l < 3.
Proof. unfold next_index. apply Z.mod_pos_bound. lia. Qed.

Lemma env_step_next_empty s o : is_append o = false -> part (ps_log s) (next_index (ps_log s)) = [] ->
  part (ps_log (fst (env_step s o))) (next_index (ps_log (fst (env_step s o)))) = [].
Proof. intros Hna HJ. pose proof (next_index_range (ps_log s)) as Hr.
  assert (Hupd : forall i o0 g, part (set_part (ps_log s) i (term_update (part (ps_log s) i) o0 g)) (next_index (ps_log s)) = []).
  { intros i o0 g. destruct (part_set_part_any (ps_log s) i (term_update (part (ps_log s) i) o0 g) (next_index (ps_log s)) Hr) as [-> | [-> Hp]]; [exact HJ|].
    rewrite Hp, HJ. reflexivity. }
  destruct o; try discriminate; cbn [env_step].
  - unfold pub_commit, claim_apply. destruct (ps_claim s) as [[[i o0] fl]|]; [|exact HJ].
    destruct (fl - HDR <? zlen body); [exact HJ|]. cbn [fst ps_log]. apply Hupd.
  - unfold claim_apply. destruct (ps_claim s) as [[[i o0] fl]|]; [|exact HJ]. cbn [fst ps_log]. apply Hupd.
  - exact HJ.
  - exact HJ.
  - exact HJ.
  - cbn [fst with_log ps_log]. change (next_index (set_part (ps_log s) (next_index (ps_log s)) [])) with (next_index (ps_log s)).
    apply part_set_part_same. exact Hr. Qed.

Lemma env_step_not_admin s o : is_append o = false -> snd (env_step s o) <> Err AdminAction.
Proof. intros Hna. destruct o; try discriminate; cbn [env_step snd]; try discriminate.
  - unfold pub_commit, claim_apply. destruct (ps_claim s) as [[[i o0] fl]|]; [|discriminate]. destruct (fl - HDR <? zlen body); discriminate.
  - unfold claim_apply. destruct (ps_claim s) as [[[i o0] fl]|]; discriminate. Qed.

Theorem cleaned_between_ok m rv ops : forall s n off pending,
  pub_inv n off s -> hist_ok (ps_log s) ops ->
  (pending = false -> part (ps_log s) (next_index (ps_log s)) = []) ->
  cleaned_between pending ops -> clean_before_reuse m rv s ops.
Proof. induction ops as [|o r IH]; intros s n off pending Hinv Hok HJ Hcb; [exact I|].
  inversion Hok as [|? ? Ho Hr]; subst. cbn [clean_before_reuse cleaned_between] in *.
  destruct (pub_step_inv m rv s n off o Hinv Ho) as (n' & off' & Hinv' & Hg').
  assert (Hok' : hist_ok (ps_log (fst (pub_step m rv s o))) r).
  { eapply Forall_impl; [|exact Hr]. intros a. apply op_ok_same. destruct Hg' as (_ & H & _). exact H. }
  destruct (is_append o) eqn:Ea.
  - destruct Hcb as [Hp Hcb]. split; [intros _; apply HJ; exact Hp|].
    apply (IH _ n' off' true Hinv' Hok'); [discriminate|exact Hcb].
  - assert (E : pub_step m rv s o = env_step s o) by (destruct o; try discriminate; reflexivity).
    split; [rewrite E; intros H; exfalso; exact (env_step_not_admin s o Ea H)|].
    destruct o; try discriminate; try (apply (IH _ n' off' pending Hinv' Hok'); [|exact Hcb]; intros Hp; rewrite E; apply env_step_next_empty; [reflexivity|apply HJ; exact Hp]).
    (* Clean *)
    apply (IH _ n' off' false Hinv' Hok'); [|exact Hcb]. intros _. rewrite E. cbn [env_step fst with_log ps_log].
    change (next_index (set_part (ps_log s) (next_index (ps_log s)) [])) with (next_index (ps_log s)).
    apply part_set_part_same. apply next_index_range. Qed.

Lemma handover_next_empty h : handover_ok h -> part (handover_log h) (next_index (handover_log h)) = [].
Proof. intros (Hg & Hn & Ho).
  pose proof (handed_over_inv (h_init h) (h_tlen h) (h_mtu h) (h_session h) (h_stream h) (h_n0 h) (h_off0 h) Hg Hn Ho) as Hinv.
  pose proof (next_index_inv _ _ _ Hinv) as Hni. cbn [ps_log pub_init] in Hni. fold (handover_log h) in Hni. rewrite Hni.
  pose proof (mod3_range (h_n0 h)) as M0. pose proof (mod3_range (h_n0 h + 1)) as M1. pose proof (mod3_distinct (h_n0 h)) as (D1 & _).
  unfold handover_log, handed_over. cbv zeta.
  assert (Hc : (h_n0 h + 1) mod 3 = 0 \/ (h_n0 h + 1) mod 3 = 1 \/ (h_n0 h + 1) mod 3 = 2) by lia.
  assert (Hc0 : h_n0 h mod 3 = 0 \/ h_n0 h mod 3 = 1 \/ h_n0 h mod 3 = 2) by lia.
  destruct Hc as [E | [E | E]]; destruct Hc0 as [E0 | [E0 | E0]]; rewrite E, E0 in *; try (exfalso; lia); reflexivity. Qed.

(* the complete oracle on every history that cleans between appends *)
Theorem oracle_history_cleaned m rv h ops :
  handover_ok h -> handover_aligned h -> hist_ok (handover_log h) ops -> cleaned_between false ops ->
  holds_history (geom_of_handover h) (map oop_of ops) (pub_trace m rv (pub_init (handover_log h)) ops) = true.
Proof. intros Hh Hal Hok Hcb. apply oracle_history_shared; auto.
  pose proof Hh as (Hg & Hn & Ho).
  pose proof (handed_over_inv (h_init h) (h_tlen h) (h_mtu h) (h_session h) (h_stream h) (h_n0 h) (h_off0 h) Hg Hn Ho) as Hinv.
  apply (cleaned_between_ok m rv ops _ (h_n0 h) (h_off0 h) false Hinv Hok); [|exact Hcb].
  intros _. apply handover_next_empty. exact Hh. Qed.

(* ---- states reachable under the cleaning contract from an aligned hand-over point ---- *)
Theorem content_run m rv ops : forall s n off,
  pub_inv n off s -> content_inv (ps_log s) n off -> mtu_aligned (ps_log s) -> hist_ok (ps_log s) ops ->
  clean_before_reuse m rv s ops ->
  exists n' off', pub_inv n' off' (pub_run m rv s ops) /\ content_inv (ps_log (pub_run m rv s ops)) n' off' /\
                  mtu_aligned (ps_log (pub_run m rv s ops)).
Proof. induction ops as [|o r IH]; intros s n off Hinv Hc Hal Hok Hcl; [exists n, off; auto|].
  inversion Hok as [|? ? Ho Hr]; subst. destruct Hcl as [Hcl1 Hcl2]. cbn [pub_run].
  destruct (content_step m rv s n off o Hinv Hc Hal Ho Hcl1) as (n' & off' & Hinv' & Hc' & Hg').
  apply (IH _ n' off'); auto.
  - destruct Hg' as (_ & _ & G3 & _). unfold mtu_aligned. rewrite <- G3. exact Hal.
  - eapply Forall_impl; [|exact Hr]. intros a. apply op_ok_same. destruct Hg' as (_ & H & _). exact H. Qed.

Definition creachable (m : mode) (rv : Z -> Z -> list Z -> Z) (s : pubstate) : Prop :=
  exists h ops, handover_ok h /\ handover_aligned h /\ hist_ok (handover_log h) ops /\
                clean_before_reuse m rv (pub_init (handover_log h)) ops /\ s = pub_run m rv (pub_init (handover_log h)) ops.

Lemma creachable_inv m rv s : creachable m rv s ->
  exists n off, pub_inv n off s /\ content_inv (ps_log s) n off /\ mtu_aligned (ps_log s).
Proof. intros (h & ops & Hh & Hal & Hok & Hcl & ->). destruct (handover_content h Hh Hal) as [Hc Hma].
  destruct Hh as (Hg & Hn & Ho).
  pose proof (handed_over_inv (h_init h) (h_tlen h) (h_mtu h) (h_session h) (h_stream h) (h_n0 h) (h_off0 h) Hg Hn Ho) as Hinv.
  apply (content_run m rv ops _ (h_n0 h) (h_off0 h)); assumption. Qed.

Lemma creachable_reachable m rv s : creachable m rv s -> reachable m rv s.
Proof. intros (h & ops & Hh & _ & Hok & _ & ->). exists h, ops. auto. Qed.

(* accepted: the oracle's `appended_words` with the tail offset and the required length *)
Lemma accept_appended_words m rv s n off o s0 r0 s' p :
  pub_inv n off s -> content_inv (ps_log s) n off -> mtu_aligned (ps_log s) -> op_ok (ps_log s) o -> is_append o = true ->
  pub_step m rv s o = (s', Ok p) ->
  appended_words (o_dump (pub_obs m s0 s r0)) (o_dump (pub_obs m s s' (Ok p))) off (op_required (ps_log s) o) = true.
Proof. intros Hinv Hc Hal Hok Ha Hs.
  destruct (pub_step_wrote m rv s n off o s' p Hinv Hal Hok Ha Hs) as (es & W1 & W2 & W3 & Hfit).
  pose proof (mod3_range n) as M0. pose proof (mod3_range (n+1)) as M1. pose proof (mod3_range (n+2)) as M2.
  pose proof (mod3_distinct n) as (D1 & D2 & D3). destruct (mod3_succ n) as [S1 S2].
  unfold appended_words. rewrite (p_active m s n off Hinv). rewrite S1, S2.
  unfold pub_obs, o_dump. cbn [fst snd]. rewrite !d_part_delta by assumption.
  rewrite W3. rewrite part_set_part_same by assumption. rewrite !part_set_part_other by auto. rewrite !part_set_tail.
  rewrite !words_eqb_nil_same. rewrite !Bool.andb_true_r.
  destruct Hc as (Hoff32 & Hend & Hsp). pose proof (pi_n _ _ _ Hinv) as Hn.
  pose proof (term_end_nonneg es (wf_spans es W1)) as Hes. rewrite W2 in Hes.
  assert (Hend' : term_end (part (ps_log s) (n mod 3)) = off) by (rewrite Hend; lia).
  destruct (appended_render _ off es Hend' Hsp W1) as [E1 E2]. rewrite E1. rewrite <- W2.
  apply offs_in_forallb. exact E2. Qed.

Lemma creachable_cleaned m rv h ops :
  handover_ok h -> handover_aligned h -> hist_ok (handover_log h) ops -> cleaned_between false ops ->
  creachable m rv (pub_run m rv (pub_init (handover_log h)) ops).
Proof. intros Hh Hal Hok Hcb. exists h, ops. split; [exact Hh|]. split; [exact Hal|]. split; [exact Hok|]. split; [|reflexivity].
  pose proof Hh as (Hg & Hn & Ho).
  pose proof (handed_over_inv (h_init h) (h_tlen h) (h_mtu h) (h_session h) (h_stream h) (h_n0 h) (h_off0 h) Hg Hn Ho) as Hinv.
  apply (cleaned_between_ok m rv ops _ (h_n0 h) (h_off0 h) false Hinv Hok); [|exact Hcb].
  intros _. apply handover_next_empty. exact Hh. Qed.
