(* AppInv is an invariant of the whole system of C02: any number of publisher threads and environment
   threads, every interleaving of admissible steps. *)
Require Import V.Base.MachineInt.
Require Import V.Generated.GenConsts.
Require Import V.Model.LogBase.
Require Import V.Model.Descriptor.
Require Import V.Proofs.DescriptorProofs.
Require Import V.Model.Sched.
Require Import V.Model.AppenderThreads.
Require Import V.Proofs.TailArith.
Require Import V.Proofs.FragArith.
Require Import V.Proofs.AppenderInv.
Require Import V.Proofs.AppenderLemmas.
Require Import V.Proofs.AppenderFrame.
Require Import V.Proofs.AppenderSteps.
Require Import V.Proofs.AppenderFaa.
Require Import V.Proofs.AppenderRotate.
From Coq Require Import ZifyBool.
Open Scope Z_scope.

Section System.
  Variable c : cfg.
  Hypothesis W : wf_cfg c.

  Lemma cur_slot_w s gh P t l : AppInv c s gh P -> P t = Some l -> writing (p_pc l) = true ->
    sh_mem s (r_idx l) (p_foff l) = stage c l.
  Proof. intros I HP Hw. pose proof (iv_thr c s gh P I t l HP) as HT. pose proof (iv_A c s gh P I) as A.
    assert (A1 : after_count (p_pc l) = true) by (destruct (p_pc l); try discriminate; reflexivity).
    destruct (idx_of_count c W s gh t l A HT A1) as (-> & _).
    destruct (wr_clauses c s gh t l HT Hw) as (_ & _ & _ & _ & _ & (_ & done & _ & _ & Hc & _)). exact Hc. Qed.

  Lemma cur_slot_p s gh P t l : AppInv c s gh P -> P t = Some l -> padding (p_pc l) = true ->
    sh_mem s (r_idx l) (f_off l) = stage c l.
  Proof. intros I HP Hw. pose proof (iv_thr c s gh P I t l HP) as HT. pose proof (iv_A c s gh P I) as A.
    assert (A1 : after_count (p_pc l) = true) by (destruct (p_pc l); try discriminate; reflexivity).
    destruct (idx_of_count c W s gh t l A HT A1) as (-> & _).
    destruct (pad_clauses c s gh t l HT Hw) as (_ & _ & _ & _ & _ & Hc). exact Hc. Qed.

  Theorem pub_step_inv s gh P t l s' l' e :
    AppInv c s gh P -> P t = Some l -> adm_pub c s P l -> pstep c t s l = Some (s', l', e) ->
    AppInv c s' (gstep_pub c t s l gh) (pupd P t l').
  Proof. intros I HP Hadm Hstep. unfold pstep in Hstep. unfold gstep_pub.
    pose proof (iv_thr c s gh P I t l HP) as HT.
    destruct (p_pc l) eqn:Hpc; try discriminate Hstep; inversion Hstep; subst s' l' e; clear Hstep.
    - apply step_PReadLimit; assumption.
    - apply step_PReadCount; assumption.
    - apply step_PReadTail; assumption.
    - apply step_PBackPressure; assumption.
    - apply (step_PFaa c W s gh P t l I HP Hpc Hadm).
    - (* PNegLen *)
      assert (Hw : writing (p_pc l) = true) by (rewrite Hpc; reflexivity).
      rewrite (cur_slot_w s gh P t l I HP Hw). unfold stage. rewrite Hpc.
      apply (step_write_data c W s gh P t l PHdr); auto; try reflexivity. intros; discriminate.
    - (* PHdr *)
      assert (Hw : writing (p_pc l) = true) by (rewrite Hpc; reflexivity).
      rewrite (cur_slot_w s gh P t l I HP Hw). unfold stage. rewrite Hpc.
      apply (step_write_data c W s gh P t l PBody); auto; try reflexivity. intros; discriminate.
    - (* PBody *)
      assert (Hw : writing (p_pc l) = true) by (rewrite Hpc; reflexivity).
      rewrite (cur_slot_w s gh P t l I HP Hw). unfold stage. rewrite Hpc.
      destruct (is_fragmented c (mlen l)) eqn:Efr.
      + apply (step_write_data c W s gh P t l PFlags); auto; try reflexivity.
      + apply (step_write_data c W s gh P t l PResv); auto; try reflexivity; try (intros; discriminate).
        unfold stage. cbn [pl_pc p_pc]. unfold st4. change (zlen (cur_msg (pl_pc l PResv))) with (mlen l). rewrite Efr. reflexivity.
    - (* PFlags *)
      assert (Hw : writing (p_pc l) = true) by (rewrite Hpc; reflexivity).
      rewrite (cur_slot_w s gh P t l I HP Hw). unfold stage. rewrite Hpc.
      destruct HT as (_ & _ & _ & _ & _ & _ & _ & _ & H9). specialize (H9 Hpc).
      apply (step_write_data c W s gh P t l PResv); auto; try reflexivity; try (intros; discriminate).
      unfold stage. cbn [pl_pc p_pc]. unfold st4. change (zlen (cur_msg (pl_pc l PResv))) with (mlen l). rewrite H9. reflexivity.
    - (* PResv *)
      assert (Hw : writing (p_pc l) = true) by (rewrite Hpc; reflexivity).
      rewrite (cur_slot_w s gh P t l I HP Hw). unfold stage. rewrite Hpc.
      apply (step_write_data c W s gh P t l PPosLen); auto; try reflexivity. intros; discriminate.
    - apply (step_PPosLen c W s gh P t l I HP Hpc).
    - (* ENegLen *)
      assert (Hw : padding (p_pc l) = true) by (rewrite Hpc; reflexivity).
      rewrite (cur_slot_p s gh P t l I HP Hw). unfold stage. rewrite Hpc.
      apply (step_write_pad c W s gh P t l EHdr); auto; try reflexivity. intros; discriminate.
    - (* EHdr *)
      assert (Hw : padding (p_pc l) = true) by (rewrite Hpc; reflexivity).
      rewrite (cur_slot_p s gh P t l I HP Hw). unfold stage. rewrite Hpc.
      apply (step_write_pad c W s gh P t l EType); auto; try reflexivity. intros; discriminate.
    - (* EType *)
      assert (Hw : padding (p_pc l) = true) by (rewrite Hpc; reflexivity).
      rewrite (cur_slot_p s gh P t l I HP Hw). unfold stage. rewrite Hpc.
      apply (step_write_pad c W s gh P t l EPosLen); auto; try reflexivity. intros; discriminate.
    - (* EPosLen *)
      assert (Hw : padding (p_pc l) = true) by (rewrite Hpc; reflexivity).
      rewrite (cur_slot_p s gh P t l I HP Hw). unfold stage. rewrite Hpc.
      destruct (pad_clauses c s gh t l HT Hw) as (C1 & (o & Hraw & Ho & _) & _).
      rewrite (after_eol_rot c W l (p_count l) o); [| pose proof (wf_n0 c W); pose proof (iv_count c s gh (iv_A c s gh P I)); lia | assumption | assumption].
      apply (step_write_pad c W s gh P t l RReadNext); auto; try (intros; discriminate).
    - apply step_RReadNext; assumption.
    - (* RCasTail *)
      destruct (sh_tail s (next_index l) =? p_next l) eqn:Ecas.
      + apply Z.eqb_eq in Ecas. pose proof (castail_inv c W s gh P t l I HP Hpc Hadm Ecas) as I'.
        set (s1 := with_tail s (next_index l) (raw_tail_of_term (next_tid l))) in *.
        pose proof (iv_thr c s1 gh P I' t l HP) as HT'.
        apply (step_local c s1 gh P t l); auto.
        replace (pl_pc l RCasCount) with (pl_next l RCasCount (p_next l)) by (destruct l; reflexivity).
        apply thr_rot; auto; try (intros; discriminate); [rewrite Hpc; reflexivity|].
        intros _. right.
        destruct (castail_facts c W s gh P t l I HP Hpc Hadm Ecas) as (Hg & Hq & Hqr & _).
        rewrite Hg. rewrite (castail_tg c W s gh P t l I HP Hpc Hadm Ecas) by assumption. rewrite Z.eqb_refl. reflexivity.
      + apply step_RCasTail_fail; assumption.
    - (* RCasCount *)
      destruct (sh_count s =? p_count l) eqn:Ecas.
      + apply Z.eqb_eq in Ecas. pose proof (cascount_inv c s gh P t l I HP Hpc Hadm Ecas) as I'.
        apply step_RCasCount_fail; assumption.
      + apply step_RCasCount_fail; assumption. Qed.

  Theorem env_step_inv s gh P op :
    AppInv c s gh P -> adm_env c s P op ->
    AppInv c (match op with SetLimit v => with_limit s v | Clean p => with_mem s (mclean (sh_mem s) p) end)
           (gstep_env c s op gh) P.
  Proof. intros I Hadm. destruct op as [v | p].
    - apply setlimit_inv; assumption.
    - apply (clean_inv c s gh P I p Hadm). Qed.
End System.
