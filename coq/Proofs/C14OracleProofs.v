Require Import V.Base.MachineInt V.Model.WireBytes V.Model.WireCodes V.Model.WireEvents.
Require Import V.Proofs.WireBytesProofs V.Proofs.WireCodesProofs V.Proofs.WireEventsProofs V.Oracle.C14Oracle.
From Coq Require Import ZifyBool.
Open Scope Z_scope.

Lemma callback_eqb_refl a : callback_eqb a a = true.
Proof. unfold callback_eqb. destruct (callback_eq_dec a a); congruence. Qed.

Lemma oracle_event_model m own e :
  wf_event e = true ->
  holds_event own e (visible_o own (adapter_receive m (protocol_code (event_cmd e)) (encode_event_spec e))) = true.
Proof. intros W. unfold holds_event.
  destruct (Zlength (encode_event_spec e) <=? SCRATCH_CAPACITY) eqn:E.
  - rewrite receive_encode_event by (try assumption; lia). cbn [visible_o]. apply callback_eqb_refl.
  - rewrite receive_oversize by lia. reflexivity. Qed.

Lemma oracle_code_model c : holds_code c (to_id c, from_id (to_id c)) = true.
Proof. unfold holds_code. rewrite codes_roundtrip, codes_protocol, Z.eqb_refl.
  cbn [andb]. apply cmd_eqb_eq. reflexivity. Qed.

Lemma oracle_fromid_model id : holds_fromid id (from_id id) = true.
Proof. unfold holds_fromid. destruct (from_id id) eqn:E.
  - apply from_id_sound in E. subst. apply Z.eqb_refl.
  - unfold from_id in E. destruct (find _ _); discriminate.
  - apply negb_true_iff. apply not_true_is_false. intros H. apply existsb_exists in H.
    destruct H as (c & _ & Hc). apply Z.eqb_eq in Hc. subst. rewrite from_id_protocol in E. discriminate.
  - unfold from_id in E. destruct (find _ _); discriminate.
  - unfold from_id in E. destruct (find _ _); discriminate. Qed.
