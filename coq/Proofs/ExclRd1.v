(* C03, subscriber with poll flavours: frame boundaries of a laid sequence of frames. *)
Require Import V.Base.MachineInt.
Require Import V.Generated.GenConsts.
Require Import V.Model.LogBase.
Require Import V.Model.Descriptor.
Require Import V.Model.Sched.
Require Import V.Model.AppenderThreads.
Require Import V.Model.ReaderThreads.
Require Import V.Model.ExclThreads.
Require Import V.Model.PollThreads.
Require Import V.Model.ClaimThreads.
Require Import V.Proofs.TailArith.
Require Import V.Proofs.FragArith.
Require Import V.Proofs.ExclDefs V.Proofs.ExclPub1 V.Proofs.ExclPub2 V.Proofs.ExclPub3.
From Coq Require Import ZifyBool.
Open Scope Z_scope.

(* frame boundaries of a laid sequence of frames: its start and the end of every frame *)
Fixpoint isbnd (b : Z) (fr : list (Z * slot)) (o : Z) : Prop :=
  o = b \/ match fr with [] => False | (x, sl) :: r => isbnd (x + align (s_len sl) FA) r o end.

Lemma isbnd_start b fr : isbnd b fr b.
Proof. destruct fr; left; reflexivity. Qed.

Lemma isbnd_app b fr ext o : isbnd b fr o -> isbnd b (fr ++ ext) o.
Proof. revert b. induction fr as [|[x sl] r IH]; intros b H; cbn [isbnd app] in *.
  - destruct H as [-> | []]. apply isbnd_start.
  - destruct H as [-> | H]; [left; reflexivity | right; apply IH; assumption]. Qed.

Lemma isbnd_range c b fr h o : laid c b fr h -> isbnd b fr o -> b <= o <= h.
Proof. induction 1 as [x | x sl r e Hl Hr IH]; cbn [isbnd]; intros H.
  - destruct H as [-> | []]. lia.
  - pose proof (align_pos (s_len sl) ltac:(lia)) as (A & _). rewrite FA_32 in *.
    destruct (laid_bounds c _ _ _ Hr) as (B & _). destruct H as [-> | H]; [lia|]. specialize (IH H). lia. Qed.

Lemma isbnd_end c b fr h : laid c b fr h -> isbnd b fr h.
Proof. induction 1; cbn [isbnd]; [left; reflexivity | right; assumption]. Qed.

(* the frame that starts at a boundary ends at a boundary *)
Lemma isbnd_next c b fr h o sl : laid c b fr h -> isbnd b fr o -> lookup o fr = Some sl -> isbnd b fr (o + align (s_len sl) FA).
Proof. induction 1 as [x | x s0 r e Hl Hr IH]; cbn [isbnd lookup]; intros H Hk; [discriminate|].
  pose proof (align_pos (s_len s0) ltac:(lia)) as (A & _). rewrite FA_32 in *.
  destruct H as [-> | H].
  - rewrite Z.eqb_refl in Hk. inversion Hk; subst. right. apply isbnd_start.
  - pose proof (isbnd_range c _ _ _ _ Hr H). replace (x =? o) with false in Hk by lia. right. apply IH; assumption. Qed.

(* a boundary below the end is the start of a frame *)
Lemma isbnd_frame c b fr h o : laid c b fr h -> isbnd b fr o -> o < h -> exists sl, lookup o fr = Some sl.
Proof. induction 1 as [x | x s0 r e Hl Hr IH]; cbn [isbnd lookup]; intros H Hlt.
  - destruct H as [-> | []]. lia.
  - pose proof (align_pos (s_len s0) ltac:(lia)) as (A & _). rewrite FA_32 in *.
    destruct H as [-> | H]; [rewrite Z.eqb_refl; eauto|].
    pose proof (isbnd_range c _ _ _ _ Hr H). replace (x =? o) with false by lia. apply IH; assumption. Qed.

(* a boundary is never strictly inside a frame *)
Lemma isbnd_outside c b fr h o x sl : laid c b fr h -> isbnd b fr o -> In (x, sl) fr -> ~ (x < o < x + align (s_len sl) FA).
Proof. induction 1 as [y | y s0 r e Hl Hr IH]; cbn [isbnd]; intros H Hin; [destruct Hin|].
  pose proof (align_pos (s_len s0) ltac:(lia)) as (A & _). rewrite FA_32 in *.
  destruct (laid_bounds c _ _ _ Hr) as (B1 & B2).
  destruct Hin as [Heq | Hin].
  - inversion Heq; subst. destruct H as [-> | H]; [lia|]. pose proof (isbnd_range c _ _ _ _ Hr H). lia.
  - destruct (B2 _ _ Hin) as (C1 & C2 & C3). destruct H as [-> | H]; [lia | apply IH; assumption]. Qed.

(* the start of every frame is a boundary *)
Lemma isbnd_of_frame c b fr h x sl : laid c b fr h -> In (x, sl) fr -> isbnd b fr x.
Proof. induction 1 as [y | y s0 r e Hl Hr IH]; intros Hin; [destruct Hin|]. cbn [isbnd].
  destruct Hin as [Heq | Hin]; [inversion Heq; subst; left; reflexivity | right; apply IH; assumption]. Qed.

(* frames between two boundaries: every byte belongs to one *)
Lemma isbnd_cover c b fr h lo hi2 z : laid c b fr h -> isbnd b fr lo -> isbnd b fr hi2 -> lo <= z < hi2 ->
  exists x sl, In (x, sl) fr /\ lo <= x /\ x <= z < x + align (s_len sl) FA /\ x + align (s_len sl) FA <= hi2.
Proof. intros L. revert lo. induction L as [y | y s0 r e Hl Hr IH]; cbn [isbnd]; intros lo H1 H2 Hz.
  - destruct H1 as [-> | []]. destruct H2 as [-> | []]. lia.
  - pose proof (align_pos (s_len s0) ltac:(lia)) as (A & _). rewrite FA_32 in *.
    destruct H2 as [-> | H2].
    + destruct H1 as [-> | H1]; [lia|]. pose proof (isbnd_range c _ _ _ _ Hr H1). lia.
    + pose proof (isbnd_range c _ _ _ _ Hr H2) as R2.
      destruct H1 as [-> | H1].
      * destruct (Z_lt_ge_dec z (y + align (s_len s0) 32)) as [Hlt | Hge].
        -- exists y, s0. split; [left; reflexivity|]. lia.
        -- destruct (IH _ (isbnd_start _ _) H2 ltac:(lia)) as (x & sl & X1 & X2 & X3 & X4).
           exists x, sl. split; [right; assumption|]. lia.
      * destruct (IH _ H1 H2 Hz) as (x & sl & X1 & X2 & X3 & X4). exists x, sl. split; [right; assumption | lia]. Qed.

Lemma lookup_app_some o fr ext sl : lookup o fr = Some sl -> lookup o (fr ++ ext) = Some sl.
Proof. induction fr as [|[a b] fr IH]; cbn [lookup app]; [discriminate|]. destruct (a =? o); auto. Qed.

(* two frames of a laid sequence are the same frame or do not overlap *)
Lemma laid_disj c b l h o sl o' sl' : laid c b l h -> In (o, sl) l -> In (o', sl') l ->
  (o = o' /\ sl = sl') \/ o + align (s_len sl) FA <= o' \/ o' + align (s_len sl') FA <= o.
Proof. induction 1 as [x | x s0 r e Hl Hr IH]; intros H1 H2; [destruct H1|].
  destruct (laid_bounds c _ _ _ Hr) as (_ & B).
  destruct H1 as [E1 | H1]; destruct H2 as [E2 | H2].
  - inversion E1; inversion E2; subst. left. split; reflexivity.
  - inversion E1; subst. destruct (B _ _ H2) as (B1 & _). right; left. assumption.
  - inversion E2; subst. destruct (B _ _ H1) as (B1 & _). right; right. assumption.
  - apply IH; assumption. Qed.
