(* Runs of the agent model: the initial configuration satisfies XInv; a checked replay of a concrete schedule
   (dead producers take no step, positions stay in the window, the agent's padding store is not part of it)
   ends in a configuration that satisfies XInv - a way to exhibit reachable configurations with unblock in the
   middle of its scan while survivors are inside write. *)
Require Import V.Base.MachineInt.
Require Import V.Generated.GenConsts.
Require Import V.Model.LogBase.
Require Import V.Model.Ring.
Require Import V.Model.RingThreads.
Require Import V.Model.RingAgent.
Require Import V.Spec.Fifo.
Require Import V.Proofs.RingArith.
Require Import V.Proofs.RingSeq.
Require Import V.Proofs.RingRender.
Require Import V.Proofs.RingSeqRun.
Require Import V.Proofs.RingConc.
Require Import V.Proofs.RingConcThm.
Require Import V.Proofs.RingUnblock.
Require Import V.Proofs.RingSweep.
Require Import V.Proofs.RingQuiet.
Require Import V.Proofs.RingAgentInv.
From Coq Require Import ZifyBool Lia.
Open Scope Z_scope.

Lemma xinv_start dead R ops progs :
  wf R -> Forall (Forall wreq_ok) progs -> r_tail R + 2 * r_cap R <= two62 ->
  XInv (r_hc R) dead (xstart R ops progs).
Proof. intros W Hok Hw. split.
  - unfold cfg_of, xstart. cbn [ag_ring ag_agent ag_prods].
    destruct (cs_of_at ops O []) as [E | (l & E)]; unfold astart; rewrite E.
    + exact (inv_start R [] progs W Hok Hw).
    + exact (inv_start R [l] progs W Hok Hw).
  - apply agent_ok_at. Qed.

Definition deadb (dl : list nat) (i : nat) : bool := existsb (Nat.eqb i) dl.
Definition at_put (x : aconfig) : bool :=
  match a_mode (ag_agent x) with AUnblocking (UPut _ _) => true | _ => false end.

Fixpoint xreplay (dl : list nat) (m : mode) (x : aconfig) (sched : list nat) : option aconfig :=
  match sched with
  | [] => Some x
  | t :: r =>
      if (match t with O => at_put x | S i => deadb dl i end) then None
      else match xstep m x t with
           | Some (x', _) =>
               if r_tail (ag_ring x') + 2 * r_cap (ag_ring x') <=? two62 then xreplay dl m x' r else None
           | None => None
           end
  end.

Lemma deadb_false dl i : deadb dl i = false -> ~ In i dl.
Proof. unfold deadb. intros H Hin. assert (X : existsb (Nat.eqb i) dl = true); [| congruence].
  apply existsb_exists. exists i. split; [exact Hin | apply Nat.eqb_refl]. Qed.

Lemma xreplay_inv lo dl m : forall sched x x', XInv lo (fun i => In i dl) x -> xreplay dl m x sched = Some x' ->
  XInv lo (fun i => In i dl) x'.
Proof. induction sched as [| t r IH]; intros x x' HX H; cbn [xreplay] in H.
  - inversion H; subst. exact HX.
  - destruct (match t with O => at_put x | S i => deadb dl i end) eqn:G; [discriminate |].
    destruct (xstep m x t) as [[x1 e] |] eqn:E; [| discriminate].
    destruct (r_tail (ag_ring x1) + 2 * r_cap (ag_ring x1) <=? two62) eqn:W; [| discriminate].
    apply (IH x1 x'); [| exact H].
    destruct (xstep_inv lo (fun i => In i dl) m x t x1 e HX E) as [OK | (h & L & sw & sf & pd & Em & Et & _)].
    + intros i Ei. subst t. apply deadb_false. exact G.
    + unfold in_xwindow. lia.
    + intros h L Em Et. subst t. unfold at_put in G. rewrite Em in G. discriminate.
    + exact OK.
    + subst t. unfold at_put in G. rewrite Em in G. discriminate. Qed.

(* the set of dead producers may change whenever unblock is not in the middle of its scan *)
Lemma xinv_dead_change lo d1 d2 x : XInv lo d1 x ->
  match a_mode (ag_agent x) with AUnblocking (UScan _ _ _) | AUnblocking (UBack _ _ _) | AUnblocking (UPut _ _) => False | _ => True end ->
  XInv lo d2 x.
Proof. intros (HI & HA) Hm. split; [exact HI |]. unfold agent_ok in *.
  destruct (a_mode (ag_agent x)) as [| | cs | u]; auto. destruct u; try contradiction; exact HA. Qed.

(* configurations reachable by any schedule of the live threads up to (not including) a store of a padding header *)
Inductive xreach (dead : nat -> Prop) (m : mode) (x0 : aconfig) : aconfig -> Prop :=
| xreach_refl : xreach dead m x0 x0
| xreach_step x tid x' e : xreach dead m x0 x -> xstep m x tid = Some (x', e) ->
    (forall i, tid = S i -> ~ dead i) -> in_xwindow x' -> (tid = O -> at_put x = false) -> xreach dead m x0 x'.

Theorem xreach_inv lo dead m x0 x : XInv lo dead x0 -> xreach dead m x0 x -> XInv lo dead x.
Proof. intros H0 Hr. induction Hr as [| x tid x' e Hr IH Hs Hl Hw Hp]; [exact H0 |].
  destruct (xstep_inv lo dead m x tid x' e IH Hs Hl Hw) as [OK | (h & L & sw & sf & pd & Em & Et & _)].
  - intros h L Em Et. specialize (Hp Et). unfold at_put in Hp. rewrite Em in Hp. discriminate.
  - exact OK.
  - specialize (Hp Et). unfold at_put in Hp. rewrite Em in Hp. discriminate. Qed.
