(* C07, unblock under the scheduler: part (1) of the trace oracle of Oracle/C07UOracle.v - `confirm_ok`, "the padding
   store is justified by what this unblock() call itself read" - is true of the model's unblock in every interleaving:
   whatever the other threads do to the ring between two accesses of the call (the ring is arbitrary at every step
   below), the (offset, value) pairs of its length-word reads have the shape confirm_ok demands when the call reaches
   its store. *)
Require Import V.Base.MachineInt.
Require Import V.Generated.GenConsts.
Require Import V.Model.LogBase.
Require Import V.Model.Ring.
Require Import V.Model.RingThreads.
Require Import V.Model.RingAgent.
Require Import V.Spec.Fifo.
Require Import V.Oracle.C06Oracle.
Require Import V.Oracle.C07Oracle.
Require Import V.Oracle.C07UOracle.
Require Import V.Proofs.RingArith.
From Coq Require Import ZifyBool Lia.
Open Scope Z_scope.

(* n entries (o, 0), (o + d, 0), .. *)
Fixpoint zlist (o d : Z) (n : nat) : list (Z * Z) :=
  match n with O => [] | S k => (o, 0) :: zlist (o + d) d k end.

Lemma zero_run_zlist o d n r : zero_run (zlist o d n ++ r) o d n = Some r.
Proof. revert o. induction n as [| k IH]; intros o; [cbn [zlist app]; destruct r; reflexivity |].
  change (zlist o d (S k) ++ r) with ((o, 0) :: (zlist (o + d) d k ++ r)). cbn [zero_run].
  rewrite !Z.eqb_refl. cbn [andb]. apply IH. Qed.

Lemma zlist_snoc o d n : zlist o d (S n) = zlist o d n ++ [(o + d * Z.of_nat n, 0)].
Proof. revert o. induction n as [| k IH]; intros o.
  - cbn [zlist app]. replace (o + d * Z.of_nat 0) with o by lia. reflexivity.
  - change (zlist o d (S (S k))) with ((o, 0) :: zlist (o + d) d (S k)). rewrite IH. cbn [zlist app]. f_equal. f_equal. f_equal. f_equal. lia. Qed.

Lemma zlist_length o d n : length (zlist o d n) = n.
Proof. revert o. induction n; intros; cbn [zlist length]; auto. Qed.

(* the reads of the call so far (newest first), by program counter; ci = consumer index the call computed *)
Definition reads_inv (ci : Z) (u : upc) (rs : list (Z * Z)) : Prop :=
  match u with
  | UReadLen _ _ => rs = []
  | UScan _ _ i => exists k, i = ci + 8 * Z.of_nat (S k) /\ rs = zlist (i - 8) (-8) (S k)
  | UBack _ hit j => exists n m nz, hit = ci + 8 * Z.of_nat (S n) /\ j = hit - 8 * Z.of_nat (S m) /\ (m <= n)%nat /\ nz <> 0 /\
                     rs = zlist (j + 8) 8 m ++ (hit, nz) :: zlist (hit - 8) (-8) (S n)
  | UPut _ L => (exists v, rs = [(ci, v)] /\ v < 0 /\ L = wrap32 (- v)) \/
                (exists n nz, L = 8 * Z.of_nat (S n) /\ nz <> 0 /\
                   rs = zlist ci 8 (S n) ++ (ci + L, nz) :: zlist (ci + L - 8) (-8) (S n))
  | _ => True
  end.

Definition read_of (e : event) : Z * Z := let '(tid, k, off, len, v, v2, before) := e in (off, before).

Definition pc_head (u : upc) : option Z :=
  match u with UReadLen h _ | UScan h _ _ | UBack h _ _ | UPut h _ => Some h | _ => None end.

(* one access of the call, on an arbitrary ring of the capacity the call started with *)
Lemma reads_step cp ci R u R' u' e rs : cap_ok cp -> r_cap R = cp ->
  (exists h, pc_head u = Some h /\ h mod cp = ci) ->
  match u with UReadLen _ _ | UScan _ _ _ | UBack _ _ _ => True | _ => False end ->
  reads_inv ci u rs -> ustep R u = (R', inl u', e) ->
  reads_inv ci u' (read_of e :: rs) /\ pc_head u' = pc_head u.
Proof.
  intros Hc Ecp (h0 & Eh0 & Eci). subst cp. destruct u as [| h | h tl | h limit i | h hit j | h L]; try contradiction; intros _ Hr E;
    cbn [pc_head] in Eh0; inversion Eh0; subst h0; subst ci; cbn [ustep] in E.
  - (* the length word at the consumer index *)
    cbn [reads_inv] in Hr. subst rs. rewrite !mask_idx_mod in E by exact Hc.
    destruct (word_at (render R) (h mod r_cap R) <? 0) eqn:N.
    + inversion E as [[E1 E2 E3]]; subst R' u' e. cbn [reads_inv read_of ev pc_head]. split; [| reflexivity]. left. eexists. split; [reflexivity |]. split; [lia | reflexivity].
    + destruct (word_at (render R) (h mod r_cap R) =? 0) eqn:Z0; inversion E as [[E1 E2 E3]]; subst R' u' e. cbn [reads_inv read_of ev pc_head]. split; [| reflexivity].
      exists O. rewrite AL_eq. split; [lia |]. cbn [zlist]. replace (h mod r_cap R + 8 - 8) with (h mod r_cap R) by lia.
      replace (word_at (render R) (h mod r_cap R)) with 0 by lia. reflexivity.
  - (* forward scan *)
    cbn [reads_inv] in Hr. destruct Hr as (k & Ei & ->). rewrite AL_eq in E.
    destruct (word_at (render R) i =? 0) eqn:Z0.
    + destruct (i + 8 >=? limit); inversion E as [[E1 E2 E3]]; subst R' u' e. cbn [reads_inv read_of ev pc_head]. split; [| reflexivity].
      exists (S k). split; [lia |].
      replace (i + 8 - 8) with i by lia. replace (word_at (render R) i) with 0 by lia.
      change (zlist i (-8) (S (S k))) with ((i, 0) :: zlist (i + -8) (-8) (S k)). replace (i + -8) with (i - 8) by lia. reflexivity.
    + inversion E as [[E1 E2 E3]]; subst R' u' e. cbn [reads_inv read_of ev pc_head]. split; [| reflexivity].
      exists k, O, (word_at (render R) i). split; [exact Ei |]. split; [lia |]. split; [lia |]. split; [lia |]. reflexivity.
  - (* backward scan *)
    cbn [reads_inv] in Hr. destruct Hr as (n & m & nz & Eh & Ej & Hmn & Hnz & ->). rewrite AL_eq in E. rewrite mask_idx_mod in E by exact Hc.
    destruct (word_at (render R) j =? 0) eqn:Z0; [| inversion E].
    destruct (j - 8 >=? h mod r_cap R) eqn:G; inversion E as [[E1 E2 E3]]; subst R' u' e; cbn [reads_inv read_of ev pc_head]; (split; [| reflexivity]).
    + exists n, (S m), nz. split; [exact Eh |]. split; [lia |]. split; [lia |]. split; [exact Hnz |].
      replace (word_at (render R) j) with 0 by lia. replace (j - 8 + 8) with j by lia.
      change (zlist j 8 (S m)) with ((j, 0) :: zlist (j + 8) 8 m). reflexivity.
    + right. assert (m = n) by lia. subst m. exists n, nz.
      assert (Ej0 : j = h mod r_cap R) by lia.
      split; [lia |]. split; [exact Hnz |].
      replace (word_at (render R) j) with 0 by lia. rewrite Ej0.
      replace (h mod r_cap R + (hit - h mod r_cap R)) with hit by lia.
      change (zlist (h mod r_cap R) 8 (S n)) with ((h mod r_cap R, 0) :: zlist (h mod r_cap R + 8) 8 n). reflexivity.
Qed.

(* at the store the reads satisfy the oracle *)
Lemma reads_confirm ci L rs : 0 <= ci -> reads_inv ci (UPut 0 L) rs -> confirm_ok rs ci L = true.
Proof. intros Hci [(v & -> & Hv & ->) | (n & nz & -> & Hnz & ->)]; unfold confirm_ok.
  - cbn [rev app length]. rewrite Z.eqb_refl. replace (v <? 0) with true by lia. rewrite Z.eqb_refl. reflexivity.
  - set (L := 8 * Z.of_nat (S n)).
    assert (Erev : exists tl, rev (zlist ci 8 (S n) ++ (ci + L, nz) :: zlist (ci + L - 8) (-8) (S n)) = (ci, 0) :: tl).
    { rewrite rev_app_distr. cbn [rev]. rewrite zlist_snoc. rewrite rev_app_distr. cbn [rev app].
      replace (ci + L - 8 + -8 * Z.of_nat n) with ci by (unfold L; lia). eexists. reflexivity. }
    destruct Erev as (tl & ->). rewrite Z.eqb_refl. cbn [Z.ltb Z.compare Z.eqb andb].
    replace (0 <? L) with true by (unfold L; lia).
    replace (L mod 8 =? 0) with true by (unfold L; rewrite Z.mul_comm, Z_mod_mult; reflexivity).
    replace (Z.to_nat (L / 8)) with (S n) by (unfold L; rewrite Z.mul_comm, Z_div_mult by lia; lia).
    cbn [andb]. rewrite zero_run_zlist. rewrite Z.eqb_refl. replace (nz =? 0) with false by lia. cbn [negb andb].
    rewrite <- (app_nil_r (zlist (ci + L - 8) (-8) (S n))). rewrite zero_run_zlist. reflexivity.
Qed.
