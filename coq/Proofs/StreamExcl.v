(* C01, part 5b: the ExclusivePublication (constructor as repaired by fixes/C04-excl-new.diff) satisfies `flavour_ok`
   with the C04 invariant `xpub_inv` plus "the publication's own offset is the offset": the case analysis of one
   offer / claim is `xpub_step_cases` (C04), refined here with the exact content written. *)
Require Import V.Base.MachineInt.
Require Import V.Generated.GenConsts.
Require Import V.Model.Descriptor.
Require Import V.Model.LogBase.
Require Import V.Model.Appender.
Require Import V.Model.ExclAppender.
Require Import V.Model.Publication.
Require Import V.Model.ExclPublication.
Require Import V.Model.Reader.
Require Import V.Model.StreamSys.
Require Import V.Spec.Stream.
Require Import V.Proofs.DescriptorProofs.
Require Import V.Proofs.AppenderProofs.
Require Import V.Proofs.BulkProofs.
Require Import V.Proofs.PublicationProofs.
Require Import V.Proofs.C04Proofs.
Require Import V.Proofs.ExclPublicationProofs.
Require Import V.Proofs.ReaderProofs.
Require Import V.Proofs.StreamFrames.
Require Import V.Proofs.StreamRefine.
Require Import V.Proofs.StreamShared.
From Coq Require Import ZifyBool.
Open Scope Z_scope.

Definition xinv (n off : Z) (x : xpub) : Prop := xpub_inv n x /\ x_off x = off.

(* an accepted offer / claim returns the log exactly as the appender left it *)
Lemma xpub_try_ok m x len act x' p : xpub_try m x len act = (x', Ok p) ->
  exists a, act (xlog x) = Ok a /\
    x' = mkX (mkPub (a_log a) (ps_closed (x_pub x)) (match a_claim a with Some c => Some c | None => ps_claim (x_pub x) end))
             (a_result a) (x_tid x) (x_idx x) (x_begin x).
Proof. unfold xpub_try. intros H.
  destruct (ps_closed (x_pub x)) eqn:Ec; [discriminate|].
  destruct ((x_idx x <? 0) || (2 <? x_idx x)); [discriminate|].
  destruct (add64 m _ _) as [position| | | |]; try discriminate.
  destruct (position <? l_limit (ps_log (x_pub x))).
  - unfold xlog. destruct (act _) as [a|e| | |]; try discriminate.
    exists a. split; [reflexivity|]. unfold xpub_new_position in H.
    destruct (0 <? a_result a).
    + destruct (add64 m _ _) as [np| | | |]; inversion H. rewrite ?Ec. reflexivity.
    + destruct (add64 m _ _) as [e| | | |]; try (inversion H; fail).
      destruct (max_possible_position (a_log a) <=? e); [inversion H|].
      destruct (next_partition_index m (x_idx x)); inversion H.
  - destruct (back_pressure_status m _ _ _); discriminate. Qed.

Lemma xbumped_parts l n tid off req : 0 <= n ->
  part (xbumped l (n mod 3) tid off req) (n mod 3) =
    (if off <? l_tlen l then term_put (part l (n mod 3)) off (padding_entries l off tid) else part l (n mod 3)) /\
  (forall j, 0 <= j < 3 -> j <> n mod 3 -> part (xbumped l (n mod 3) tid off req) j = part l j).
Proof. intros Hn. pose proof (mod3_range n) as Hm. unfold xbumped, put_padding, put_raw_tail.
  change (l_tlen (set_tail l (n mod 3) (excl_raw_tail tid (off + req)))) with (l_tlen l).
  destruct (off <? l_tlen l).
  - split.
    + rewrite part_set_part_same by assumption. reflexivity.
    + intros j Hj Hne. rewrite part_set_part_other by auto. reflexivity.
  - split; [reflexivity|]. intros; reflexivity. Qed.

Lemma xinv_pub n x p : xpub_inv n x -> l_count (ps_log p) = l_count (xlog x) -> same_geom (xlog x) (ps_log p) ->
  xpub_inv n (x_with_pub x p).
Proof. intros [Hleg Hn Hidx Htid Hbeg Hoff Hc] Hcnt Hg. pose proof Hg as (G1 & G2 & G3 & G4 & G5).
  constructor; unfold xlog in *; cbn [x_with_pub x_pub x_idx x_tid x_begin x_off]; rewrite <- ?G1, <- ?G2; auto.
  - eapply legal_same; eassumption.
  - congruence. Qed.

Section Excl.
Variables (m : mode) (rv : Z -> Z -> list Z -> Z).

Lemma excl_offer n off x msg : xinv n off x -> off <= l_tlen (xlog x) ->
  zlen msg <= 1073741824 -> l_mtu (xlog x) mod 32 = 0 ->
  append_effect exclusive xinv x n off (offer_laid (xlog x) msg) (xpub_step m rv x (Offer msg)).
Proof. intros [Hinv Hxo] Hofft Hlen Hm32.
  pose proof Hinv as [Hleg Hn Hidx Htid Hbeg Hoff Hcount].
  pose proof (legal_mpl _ Hleg) as (Hm1 & Hm2 & Hm3 & Hm4). pose proof (legal_tlen _ Hleg) as [Htl _].
  pose proof (mod3_range n) as Hm3r. pose proof (zlen_nonneg msg) as H0.
  assert (Hok : C04Proofs.op_ok (xlog x) (Offer msg)) by exact Hlen.
  destruct (xpub_step_cases m rv x n Hinv (Offer msg) Hok eq_refl) as [(len & Hd & _) | T]; [discriminate|].
  cbn [xpub_step] in *.
  destruct (xpub_offer m rv x msg) as [x' r] eqn:Eres.
  assert (Hreq : 0 < op_required (xlog x) (Offer msg) <= l_tlen (xlog x) / 2 \/ op_too_long (xlog x) (Offer msg) = true).
  { destruct (op_too_long (xlog x) (Offer msg)) eqn:Etl; [right; reflexivity|left].
    unfold op_required, op_len. cbn [op_too_long op_len] in Etl. apply required_half_term; auto. right. lia. }
  inversion T as [Hc | Hc Hl | Hc Hl Htoo | t' cl Htoo Hc Hl Hfit | Htoo Hc Hl Hfit Hn' | Htoo Hc Hl Hfit Hn']; subst x' r.
  - apply AE_refuse. reflexivity.
  - apply AE_refuse. apply status_refusal.
  - apply AE_refuse. reflexivity.
  - (* accepted *)
    destruct Hreq as [Hreq | Hreq]; [|congruence].
    destruct (xtry_result_inv x n _ _ _ _ _ Hinv Hreq T) as (Hsg & Hl' & _ & Hinv').
    unfold xpub_offer in Eres. apply xpub_try_ok in Eres. destruct Eres as (a & Hact & Hx').
    unfold op_required, op_len, required_spec, xspec_pos in *. cbn [op_too_long op_len] in Htoo.
    rewrite Hxo, Hidx, Htid, Hbeg in *.
    destruct (zlen msg <=? max_payload_length (xlog x)) eqn:E1.
    + unfold unfrag_required_spec in *. rewrite HDR_eq, FA_eq in *.
      rewrite (eta_unfrag_exact m rv (xlog x) (n mod 3) _ off Hleg ltac:(lia) msg ltac:(lia) Hfit) in Hact.
      injection Hact as Ha; subst a. cbn [a_log a_claim a_result] in Hx'.
      pose proof (f_equal (fun y => ps_claim (x_pub y)) Hx') as Hxc. cbn [x_pub ps_claim] in Hxc.
      apply (f_equal (fun y => ps_log (x_pub y))) in Hx'. cbn [x_pub ps_log] in Hx'. rename Hx' into Hx1.
      eapply AE_accept with (es := map Committed [_]) (cl := None); unfold plog, xlog in *; cbn [fl_pub exclusive x_pub ps_log ps_claim ps_closed] in *;
        try eassumption; try lia.
      * split; [reflexivity|]. eexists. split; [reflexivity|]. apply unfrag_frame_spec. lia.
      * rewrite Hx1. rewrite part_set_part_same by assumption. reflexivity.
      * intros j Hj Hne. rewrite Hx1. rewrite part_set_part_other by auto. reflexivity.
      * split; [exact Hinv'|]. reflexivity.
    + assert (E2 : (max_message_length (xlog x) <? zlen msg) = false) by lia. rewrite E2 in Hact.
      rewrite (eta_frag_exact m rv (xlog x) (n mod 3) _ off Hleg ltac:(lia) msg ltac:(lia) Hfit) in Hact.
      set (X := frag_loop _ _ _ _ _ _ _ _ _ _) in Hact.
      injection Hact as Ha; subst a. cbn [a_log a_claim a_result] in Hx'.
      pose proof (f_equal (fun y => ps_claim (x_pub y)) Hx') as Hxc. cbn [x_pub ps_claim] in Hxc.
      apply (f_equal (fun y => ps_log (x_pub y))) in Hx'. cbn [x_pub ps_log] in Hx'. rename Hx' into Hx1.
      assert (Hmpl32 : max_payload_length (xlog x) mod 32 = 0).
      { unfold max_payload_length. rewrite HDR_eq. rewrite Zminus_mod, Hm32. reflexivity. }
      destruct (frag_frames_spec (put_raw_tail (xlog x) (n mod 3) (wrap32 (l_init (xlog x) + n)) (off + frag_required_spec (zlen msg) (max_payload_length (xlog x))))
                  rv (wrap32 (l_init (xlog x) + n)) (max_payload_length (xlog x)) msg off ltac:(lia) Hmpl32 ltac:(lia)) as (fs & Hfs & Hspec).
      eapply AE_accept with (es := map Committed fs) (cl := None); unfold plog, xlog in *; cbn [fl_pub exclusive x_pub ps_log ps_claim ps_closed] in *;
        try eassumption; try lia.
      * split; [reflexivity|]. exists fs. split; [reflexivity|]. exact Hspec.
      * rewrite Hx1. rewrite part_set_part_same by assumption. unfold X. rewrite Hfs. reflexivity.
      * intros j Hj Hne. rewrite Hx1. rewrite part_set_part_other by auto. reflexivity.
      * split; [exact Hinv'|]. reflexivity.
  - (* end of term *)
    destruct Hreq as [Hreq | Hreq]; [|congruence].
    destruct (xtry_result_inv x n _ _ _ _ _ Hinv Hreq T) as (Hsg & Hl' & _ & Hinv').
    rewrite Hxo, Hidx, Htid in *.
    destruct (xbumped_parts (xlog x) n (wrap32 (l_init (xlog x) + n)) off (op_required (xlog x) (Offer msg)) ltac:(lia)) as (B3 & B4).
    eapply AE_trip with (req := op_required (xlog x) (Offer msg)); unfold plog, xspec_pos in *; cbn [fl_pub exclusive x_pub ps_log ps_claim ps_closed] in *;
      rewrite ?Hbeg, ?Hxo in *; try eassumption; try lia.
    + reflexivity.
    + split; [exact Hinv'|reflexivity].
  - (* the very last term *)
    destruct Hreq as [Hreq | Hreq]; [|congruence].
    destruct (xtry_result_inv x n _ _ _ _ _ Hinv Hreq T) as (Hsg & Hl' & _ & Hdisj).
    match type of T with xtry_result _ _ _ _ _ (?x', _) =>
      assert (Hinv' : xpub_inv n x') by (destruct Hdisj as [Hsm | (_ & A & _)]; [rewrite Hsm; exact Hinv|exact A]) end.
    rewrite Hxo, Hidx, Htid in *.
    destruct (xbumped_parts (xlog x) n (wrap32 (l_init (xlog x) + n)) off (op_required (xlog x) (Offer msg)) ltac:(lia)) as (B3 & B4).
    eapply AE_last with (req := op_required (xlog x) (Offer msg)); unfold plog, xspec_pos in *; cbn [fl_pub exclusive x_pub ps_log ps_claim ps_closed] in *;
      rewrite ?Hbeg, ?Hxo in *; try eassumption; try lia.
    + reflexivity.
    + split; [exact Hinv'|reflexivity]. Qed.
Lemma excl_claim n off x len : xinv n off x -> off <= l_tlen (xlog x) ->
  0 <= len <= 1073741824 ->
  append_effect exclusive xinv x n off (claim_laid (xlog x) n off len) (xpub_step m rv x (Claim len)).
Proof. intros [Hinv Hxo] Hofft Hlen.
  pose proof Hinv as [Hleg Hn Hidx Htid Hbeg Hoff Hcount].
  pose proof (legal_mpl _ Hleg) as (Hm1 & Hm2 & Hm3 & Hm4). pose proof (legal_tlen _ Hleg) as [Htl _].
  pose proof (mod3_range n) as Hm3r.
  assert (Hok : C04Proofs.op_ok (xlog x) (Claim len)) by exact Hlen.
  destruct (xpub_step_cases m rv x n Hinv (Claim len) Hok eq_refl) as [(len' & Hd & Hlong & Hst) | T].
  { rewrite Hst. apply AE_refuse. reflexivity. }
  cbn [xpub_step] in *.
  destruct (xpub_claim m x len) as [x' r] eqn:Eres.
  assert (Hreq : 0 < op_required (xlog x) (Claim len) <= l_tlen (xlog x) / 2 \/ op_too_long (xlog x) (Claim len) = true).
  { destruct (op_too_long (xlog x) (Claim len)) eqn:Etl; [right; reflexivity|left].
    unfold op_required, op_len. cbn [op_too_long] in Etl. apply required_half_term; auto; lia. }
  inversion T as [Hc | Hc Hl | Hc Hl Htoo | t' cl Htoo Hc Hl Hfit | Htoo Hc Hl Hfit Hn' | Htoo Hc Hl Hfit Hn']; subst x' r.
  - apply AE_refuse. reflexivity.
  - apply AE_refuse. apply status_refusal.
  - apply AE_refuse. reflexivity.
  - (* accepted *)
    destruct Hreq as [Hreq | Hreq]; [|congruence].
    destruct (xtry_result_inv x n _ _ _ _ _ Hinv Hreq T) as (Hsg & Hl' & _ & Hinv').
    cbn [op_too_long] in Htoo.
    unfold xpub_claim in Eres. unfold xlog in Htoo. unfold xlog in Eres. rewrite Htoo in Eres. fold (xlog x) in Eres, Htoo.
    apply xpub_try_ok in Eres. destruct Eres as (a & Hact & Hx').
    unfold op_required, op_len, required_spec, xspec_pos in *.
    rewrite Hxo, Hidx, Htid, Hbeg in *.
    assert (E1 : (len <=? max_payload_length (xlog x)) = true) by lia. rewrite E1 in *.
    unfold unfrag_required_spec in *. rewrite HDR_eq, FA_eq in *.
    rewrite (eta_claim_exact m (xlog x) (n mod 3) _ off Hleg ltac:(lia) len ltac:(lia) Hfit) in Hact.
    injection Hact as Ha; subst a. cbn [a_log a_claim a_result] in Hx'.
    pose proof (f_equal (fun y => ps_claim (x_pub y)) Hx') as Hxc. cbn [x_pub ps_claim] in Hxc.
    apply (f_equal (fun y => ps_log (x_pub y))) in Hx'. cbn [x_pub ps_log] in Hx'. rename Hx' into Hx1.
    set (fr := data_frame (xlog x) off (len + 32) (wrap32 (l_init (xlog x) + n)) F_UNFRAG T_DATA 0 []).
    eapply AE_accept with (es := [Claimed fr]) (cl := Some (n mod 3, off, len + 32)) (req := align (len + 32) 32);
      unfold plog, xlog in *; cbn [fl_pub exclusive x_pub ps_log ps_claim ps_closed] in *; try eassumption; try lia.
    + exists fr. split; [reflexivity|]. split; [reflexivity|]. split; [unfold span; rewrite FA_32; reflexivity|].
      cbn [f_len f_type f_flags f_session data_frame fr]. repeat split; lia.
    + rewrite Hx1. rewrite part_set_part_same by assumption. reflexivity.
    + intros j Hj Hne. rewrite Hx1. rewrite part_set_part_other by auto. reflexivity.
    + split; [exact Hinv'|]. reflexivity.
  - (* end of term *)
    destruct Hreq as [Hreq | Hreq]; [|congruence].
    destruct (xtry_result_inv x n _ _ _ _ _ Hinv Hreq T) as (Hsg & Hl' & _ & Hinv').
    rewrite Hxo, Hidx, Htid in *.
    destruct (xbumped_parts (xlog x) n (wrap32 (l_init (xlog x) + n)) off (op_required (xlog x) (Claim len)) ltac:(lia)) as (B3 & B4).
    eapply AE_trip with (req := op_required (xlog x) (Claim len)); unfold plog, xspec_pos in *; cbn [fl_pub exclusive x_pub ps_log ps_claim ps_closed] in *;
      rewrite ?Hbeg, ?Hxo in *; try eassumption; try lia.
    + reflexivity.
    + split; [exact Hinv'|reflexivity].
  - (* the very last term *)
    destruct Hreq as [Hreq | Hreq]; [|congruence].
    destruct (xtry_result_inv x n _ _ _ _ _ Hinv Hreq T) as (Hsg & Hl' & _ & Hdisj).
    match type of T with xtry_result _ _ _ _ _ (?x', _) =>
      assert (Hinv' : xpub_inv n x') by (destruct Hdisj as [Hsm | (_ & A & _)]; [rewrite Hsm; exact Hinv|exact A]) end.
    rewrite Hxo, Hidx, Htid in *.
    destruct (xbumped_parts (xlog x) n (wrap32 (l_init (xlog x) + n)) off (op_required (xlog x) (Claim len)) ltac:(lia)) as (B3 & B4).
    eapply AE_last with (req := op_required (xlog x) (Claim len)); unfold plog, xspec_pos in *; cbn [fl_pub exclusive x_pub ps_log ps_claim ps_closed] in *;
      rewrite ?Hbeg, ?Hxo in *; try eassumption; try lia.
    + reflexivity.
    + split; [exact Hinv'|reflexivity]. Qed.
End Excl.

Theorem exclusive_flavour_ok : flavour_ok exclusive xinv.
Proof. constructor.
  - intros n off x [[Hleg Hn Hidx Htid Hbeg Hoff Hc] Hxo]. unfold plog. cbn [fl_pub exclusive]. fold (xlog x). repeat split; try assumption; lia.
  - intros m0 n off x [Hinv Hxo] Hofft. unfold plog in *. cbn [fl_pub exclusive fl_position] in *. fold (xlog x) in *.
    destruct (ps_closed (x_pub x)) eqn:Ec.
    + unfold xpub_position. rewrite Ec. reflexivity.
    + rewrite (xpub_position_spec m0 x n Hinv Ec). unfold xspec_pos. rewrite (xi_begin _ _ Hinv), Hxo. reflexivity.
  - intros m0 rv0 n off x o [Hinv Hxo] Hna Hok. unfold plog in *. cbn [fl_pub exclusive fl_step] in *. fold (xlog x) in *.
    assert (E : xpub_step m0 rv0 x o = (x_with_pub x (fst (env_step (x_pub x) o)), snd (env_step (x_pub x) o))).
    { destruct o; try discriminate; cbn [xpub_step]; destruct (env_step (x_pub x) _); reflexivity. }
    rewrite E. cbn [fst snd x_with_pub x_pub]. split; [reflexivity|]. split; [reflexivity|].
    destruct (env_step_log (x_pub x) o) as [Hc Hg]. split; [|exact Hxo].
    apply xinv_pub; [exact Hinv|exact Hc|exact Hg].
  - intros n off x i [Hinv Hxo]. unfold plog. cbn [fl_pub exclusive fl_with_pub x_with_pub x_pub]. split; [reflexivity|].
    split; [|exact Hxo]. apply xinv_pub; [exact Hinv|reflexivity|apply same_geom_set_part].
  - intros m0 rv0 n off x msg. unfold plog. cbn [fl_pub exclusive fl_step]. apply excl_offer.
  - intros m0 rv0 n off x len. unfold plog. cbn [fl_pub exclusive fl_step]. apply excl_claim. Qed.
