(* Channel endpoint errors (ErrorResponse with error code 4, on_channel_endpoint_error_response) on the conductor model:
   which registrations the error ends, what is reported, what a lookup answers afterwards (properties C09 / C10). *)
Require Import V.Base.MachineInt.
Require Import V.Generated.GenConsts.
Require Import V.Model.Conductor.
Require Import V.Proofs.ConductorBase.
Require Import V.Proofs.ConductorInv.
Require Import V.Proofs.ConductorProofs.
Require Import V.Proofs.ConductorClose.
From Coq Require Import ZifyBool.
Open Scope Z_scope.

(* ---- the adapter's dispatch ---- *)
Lemma ev_error_chan corr : ev_error corr GenConsts.ERROR_CODE_CHANNEL_ENDPOINT_ERROR = EvChanError corr.
Proof. reflexivity. Qed.
Lemma ev_error_other corr code : code <> GenConsts.ERROR_CODE_CHANNEL_ENDPOINT_ERROR -> ev_error corr code = EvError corr code.
Proof. intros H. unfold ev_error. destruct (code =? ERROR_CODE_CHANNEL_ENDPOINT_ERROR) eqn:E; [lia|reflexivity]. Qed.

(* ---- the registrations after the error ---- *)
Lemma chan_error_lookup k r x s : inv s ->
  lookup r (getm k (fst (fst (on_chan_error x s)))) =
  match k with
  | KSub | KPub | KXPub => match lookup r (getm k s) with Some e => if chan_removed k x (r, e) then None else Some e | None => None end
  | _ => lookup r (getm k s)
  end.
Proof. intros I. rewrite on_chan_error_state, getm_set_orphans, getm_chan_maps.
  destruct k; try reflexivity; apply lookup_chan_keep; apply (inv_map_ok s _ I). Qed.

(* a registration whose handle is alive and sits on that channel status indicator: forgotten, later lookups say NotFound;
   the user keeps the handle, closed (a subscription without images) *)
Lemma chan_error_ends c k r x s e o :
  inv s -> closed s = false -> (k = KSub \/ k = KPub \/ k = KXPub) ->
  lookup r (getm k s) = Some e -> e_obj e = Some o -> chan_id k o = wrap32 x ->
  let s' := fst (fst (on_chan_error x s)) in
  lookup r (getm k s') = None /\ do_find c k r s' = (s', (Err NotFound, [], [])) /\
  In (CbErr (EChannelEndpoint x)) (snd (fst (on_chan_error x s))) /\
  (o_user o = true -> exists o', user_obj k r s' = Some o' /\ o_closed o' = true /\ o_h o' = o_h o /\ (k = KSub -> o_images o' = [])).
Proof. intros I Hc Hk Hl Ho Hid. cbn zeta.
  destruct (inv_lookup s k r e I Hl) as [_ [_ Hopen]]. specialize (Hopen o Ho).
  assert (Hh : chan_hit k x e = Some o) by (unfold chan_hit; rewrite Ho, Hid, Z.eqb_refl; reflexivity).
  assert (Hr : chan_removed k x (r, e) = true) by (unfold chan_removed; cbn [snd]; rewrite Hh, Hopen; destruct k; reflexivity).
  assert (Hn : lookup r (getm k (fst (fst (on_chan_error x s)))) = None).
  { rewrite chan_error_lookup by auto. destruct Hk as [ -> | [ -> | -> ] ]; rewrite Hl, Hr; reflexivity. }
  assert (Hin : In (r, e) (getm k s)).
  { clear - Hl. induction (getm k s) as [|[k2 e2] m IH]; cbn in *; [discriminate|].
    destruct (k2 =? r) eqn:E; [inversion Hl; subst; left; f_equal; lia|right; auto]. }
  split; [exact Hn|]. split; [|split].
  - apply find_unknown; [exact Hc|exact Hn].
  - unfold on_chan_error. cbn [fst snd]. assert (Hcb : In (CbErr (EChannelEndpoint x)) (chan_cbs k x (getm k s))).
    { unfold chan_cbs. apply in_flat_map. exists (r, e). split; [exact Hin|]. cbn [fst snd]. rewrite Hh. left. reflexivity. }
    destruct Hk as [ -> | [ -> | -> ] ]; cbn [getm] in Hcb; apply in_or_app; [left; exact Hcb|right|right]; apply in_or_app; [left|right]; exact Hcb.
  - intros Hu. exists (chan_closed_obj k r o).
    assert (Horph : In (k, r, chan_closed_obj k r o) (chan_orphans k x (getm k s))).
    { unfold chan_orphans. apply in_flat_map. exists (r, e). split; [exact Hin|]. cbn [fst snd]. rewrite Hh, Hr, Hu. cbn. left. reflexivity. }
    assert (Hall : In (k, r, chan_closed_obj k r o) (orphans (fst (fst (on_chan_error x s))))).
    { rewrite on_chan_error_state. cbn [orphans set_orphans]. apply in_or_app. right.
      destruct Hk as [ -> | [ -> | -> ] ]; cbn [getm] in Horph; [apply in_or_app; left|apply in_or_app; right; apply in_or_app; left|apply in_or_app; right; apply in_or_app; right]; exact Horph. }
    (* it is the only orphan with that kind and id: an orphan's registration is gone, this one was there until now *)
    assert (Hfind : find_orphan k r (orphans (fst (fst (on_chan_error x s)))) = Some (chan_closed_obj k r o)).
    { rewrite on_chan_error_state. cbn [orphans set_orphans].
      assert (Hold : forall l2, find_orphan k r (orphans s ++ l2) = find_orphan k r l2).
      { intros l2. pose proof I as (_ & _ & _ & I4 & _). induction (orphans s) as [|[[k2 r2] o2] l IH]; cbn; auto.
        inversion I4; subst. destruct (kind_eqb k2 k && (r2 =? r)) eqn:E; [|auto].
        exfalso. apply andb_prop in E. destruct E as [E1 E2]. apply kind_eqb_eq in E1. subst. assert (r2 = r) by lia. subst.
        destruct H1 as [P1 _]. cbn [fst snd] in P1. congruence. }
      rewrite Hold.
      assert (Hone : forall k' m l2,
                find_orphan k r (chan_orphans k' x m ++ l2) =
                match find_orphan k r (chan_orphans k' x m) with Some v => Some v | None => find_orphan k r l2 end).
      { intros k' m l2. induction (chan_orphans k' x m) as [|[[k2 r2] o2] l IH]; cbn; auto. destruct (kind_eqb k2 k && (r2 =? r)); auto. }
      assert (Hother : forall k' m, k' <> k -> find_orphan k r (chan_orphans k' x m) = None).
      { intros k' m Hne. destruct (find_orphan k r (chan_orphans k' x m)) eqn:E; auto. apply find_orphan_in in E.
        apply chan_orphans_in in E. destruct E as (r1 & e1 & o1 & _ & _ & Heq). inversion Heq; subst. congruence. }
      assert (Hmine : find_orphan k r (chan_orphans k x (getm k s)) = Some (chan_closed_obj k r o)).
      { pose proof (proj1 (inv_map_ok s k I)) as N. clear - N Hin Hh Hr Hu. unfold chan_orphans.
        induction (getm k s) as [|[k2 e2] m IH]; cbn in *; [tauto|]. inversion N; subst. destruct Hin as [Hin|Hin].
        - inversion Hin; subst. rewrite Hh, Hr, Hu. cbn. rewrite kind_eqb_refl, Z.eqb_refl. reflexivity.
        - assert (k2 <> r). { intros ->. apply H1. apply in_map_iff. exists (r, e). auto. }
          destruct (chan_hit k x e2) as [o2|]; [|apply IH; auto].
          destruct (chan_removed k x (k2, e2) && (o_user o2 || negb (kind_eqb k KSub))); cbn; [|apply IH; auto].
          rewrite kind_eqb_refl. replace (k2 =? r) with false by lia. cbn. apply IH; auto. }
      destruct Hk as [ -> | [ -> | -> ] ]; cbn [getm] in Hmine.
      - rewrite Hone. rewrite Hmine. reflexivity.
      - rewrite Hone. rewrite Hother by congruence. rewrite Hone. rewrite Hmine. reflexivity.
      - rewrite Hone. rewrite Hother by congruence. rewrite Hone. rewrite Hother by congruence. exact Hmine. }
    unfold user_obj. rewrite Hn, Hfind. split; [reflexivity|]. split; [apply chan_closed_obj_closed|]. split.
    + unfold chan_closed_obj, close_sub_obj. destruct k; try reflexivity. rewrite Hopen. reflexivity.
    + intros ->. unfold chan_closed_obj, close_sub_obj. rewrite Hopen. reflexivity. Qed.

(* every other registration - no live handle (Awaiting, Errored, a publication never looked up, a dropped handle), a handle on
   another channel status indicator, a counter, a destination - is exactly as it was *)
Lemma chan_error_others k r x s :
  inv s ->
  (match lookup r (getm k s) with
   | Some e => match k with KSub | KPub | KXPub => chan_hit k x e = None | _ => True end
   | None => True end) ->
  lookup r (getm k (fst (fst (on_chan_error x s)))) = lookup r (getm k s).
Proof. intros I H. rewrite chan_error_lookup by auto. destruct (lookup r (getm k s)) as [e|]; [|destruct k; reflexivity].
  destruct k; try reflexivity; unfold chan_removed; cbn [snd]; rewrite H; reflexivity. Qed.

(* nothing but the three maps and the list of closed handles changes; no command is written (the event runs inside a duty
   cycle, which writes none); a closed client is not touched at all *)
Lemma chan_error_scalars x s :
  let s' := fst (fst (on_chan_error x s)) in
  next_corr s' = next_corr s /\ client_id s' = client_id s /\ next_h s' = next_h s /\ closed s' = closed s /\
  driver_active s' = driver_active s /\ close_sent s' = close_sent s /\ now s' = now s /\ ctrs s' = ctrs s /\ dests s' = dests s.
Proof. cbn zeta. repeat split; reflexivity. Qed.

Lemma chan_error_closed x s : inv s -> closed s = true ->
  snd (fst (on_chan_error x s)) = [] /\ (forall k, getm k (fst (fst (on_chan_error x s))) = getm k s) /\
  orphans (fst (fst (on_chan_error x s))) = orphans s.
Proof. intros (_ & _ & I3 & _) Hc.
  pose proof (I3 Hc KSub ltac:(congruence)) as E1. pose proof (I3 Hc KPub ltac:(congruence)) as E2. pose proof (I3 Hc KXPub ltac:(congruence)) as E3.
  cbn [getm] in E1, E2, E3. unfold on_chan_error. rewrite E1, E2, E3. cbn [fst snd chan_cbs chan_orphans chan_keep flat_map filter app].
  split; [reflexivity|]. split; [|apply app_nil_r]. intros k. destruct k; cbn; congruence. Qed.

(* ---- how often the error handler is called: once per resource marked; the images of a subscription marked are each reported once ---- *)
Definition n_chan_err (x : Z) (cbs : list cb) : nat :=
  length (filter (fun c => match c with CbErr (EChannelEndpoint y) => y =? x | _ => false end) cbs).
Definition n_hit (k : kind) (x : Z) (m : amap) : nat :=
  length (filter (fun p => match chan_hit k x (snd p) with Some _ => true | None => false end) m).

Lemma n_chan_err_app x a b : n_chan_err x (a ++ b) = (n_chan_err x a + n_chan_err x b)%nat.
Proof. unfold n_chan_err. rewrite filter_app, app_length. reflexivity. Qed.

Lemma chan_cbs_count n k x m : (k = KSub -> map_ok n m) -> n_chan_err x (chan_cbs k x m) = n_hit k x m.
Proof. intros Hok. unfold chan_cbs, n_hit. induction m as [|[r e] m IH]; cbn [flat_map filter length fst snd]; [reflexivity|].
  assert (Hok' : k = KSub -> map_ok n m).
  { intros Hk. destruct (Hok Hk) as [N F]. inversion N; subst. inversion F; subst. split; auto. }
  rewrite n_chan_err_app, (IH Hok'). destruct (chan_hit k x e) as [o|] eqn:Eh; [|reflexivity].
  cbn [length]. f_equal. unfold n_chan_err. cbn [filter]. rewrite Z.eqb_refl. cbn [length]. f_equal.
  destruct k; try reflexivity. unfold close_sub_obj. destruct (o_closed o); [reflexivity|]. cbn [snd].
  induction (o_images o); cbn; auto. Qed.

Lemma chan_error_handler_calls x s : inv s ->
  n_chan_err x (snd (fst (on_chan_error x s))) = (n_hit KSub x (subs s) + n_hit KPub x (pubs s) + n_hit KXPub x (xpubs s))%nat.
Proof. intros I. unfold on_chan_error. cbn [fst snd]. rewrite !n_chan_err_app.
  rewrite (chan_cbs_count (next_corr s) KSub) by (intros _; apply (inv_map_ok s KSub I)).
  rewrite (chan_cbs_count 0 KPub), (chan_cbs_count 0 KXPub) by congruence. lia. Qed.

Lemma chan_error_images x s r img : inv s ->
  n_unavail_img r img (snd (fst (on_chan_error x s))) =
  match lookup r (subs s) with
  | Some e => match chan_hit KSub x e with Some o => count_z img (o_images o) | None => 0%nat end
  | None => 0%nat
  end.
Proof. intros I. unfold on_chan_error. cbn [fst snd]. unfold n_unavail_img. rewrite !filter_app, !app_length.
  assert (Hp : forall k m, k <> KSub -> length (filter (is_unavail_img r img) (chan_cbs k x m)) = 0%nat).
  { intros k m Hk. rewrite filter_none; [reflexivity|]. intros c Hc. apply chan_cbs_pub_shape in Hc; auto. subst. reflexivity. }
  rewrite (Hp KPub), (Hp KXPub) by congruence. rewrite !Nat.add_0_r.
  pose proof (inv_map_ok s KSub I) as Hok. cbn [getm] in Hok. revert Hok. generalize (next_corr s) as n.
  induction (subs s) as [|[k e] m IH]; intros n [N F]; cbn [chan_cbs flat_map lookup fst snd]; [reflexivity|].
  inversion N; subst. inversion F; subst. cbn in H3. destruct H3 as [_ [_ Hop]].
  unfold chan_cbs in IH. rewrite filter_app, app_length, (IH n) by (split; auto).
  destruct (k =? r) eqn:E.
  - assert (k = r) by lia. subst k. assert (Hl : lookup r m = None) by (apply lookup_none_keys; exact H1). rewrite Hl.
    destruct (chan_hit KSub x e) as [o|] eqn:Eh; [|reflexivity]. apply chan_hit_some in Eh. destruct Eh as [Eo _].
    cbn [filter is_unavail_img]. rewrite sub_cbs_count by (apply Hop; exact Eo). rewrite Z.eqb_refl. lia.
  - destruct (chan_hit KSub x e) as [o|] eqn:Eh; [|reflexivity]. apply chan_hit_some in Eh. destruct Eh as [Eo _].
    cbn [filter is_unavail_img]. rewrite sub_cbs_count by (apply Hop; exact Eo). rewrite E. reflexivity. Qed.

(* =================================================================================================== *)
(* the same handle while it is held, channel endpoint errors included: the lookup answers that handle, *)
(* Closed, or - once an error has ended the registration - NotFound, for good                          *)
(* =================================================================================================== *)
(* no operation brings back a registration id below the correlation counter *)
Definition grows (s s' : st) : Prop :=
  next_corr s <= next_corr s' /\ forall k r, In r (keys (getm k s')) -> In r (keys (getm k s)) \/ next_corr s <= r.

Lemma grows_refl s : grows s s. Proof. split; [lia|auto]. Qed.
Lemma grows_trans a b c : grows a b -> grows b c -> grows a c.
Proof. intros [A1 A2] [B1 B2]. split; [lia|]. intros k r H. destruct (B2 k r H) as [H1|H1]; [|right; lia]. apply A2; auto. Qed.
Lemma grows_same s s' : (forall k, getm k s' = getm k s) -> next_corr s <= next_corr s' -> grows s s'.
Proof. intros H Hn. split; auto. intros k r Hin. rewrite H in Hin. auto. Qed.
Lemma grows_setm_sub k m s : (forall r, In r (keys m) -> In r (keys (getm k s))) -> grows s (setm k m s).
Proof. intros H. split; [rewrite setm_next_corr; lia|]. intros k' r Hin. rewrite getm_setm in Hin.
  destruct (kind_eqb k' k) eqn:E; auto. apply kind_eqb_eq in E. subst. auto. Qed.
Lemma grows_upd k r f s : grows s (setm k (upd r f (getm k s)) s).
Proof. apply grows_setm_sub. intros r'. rewrite keys_upd. auto. Qed.
Lemma grows_remove k r s : grows s (setm k (remove r (getm k s)) s).
Proof. apply grows_setm_sub. intros r'. apply keys_remove_incl. Qed.

Lemma do_add_grows k a1 a2 a3 s : grows s (fst (do_add k a1 a2 a3 s)).
Proof. unfold do_add. repeat dmatch; cbn [fst]; try apply grows_refl.
  - apply grows_same; [intros; apply getm_set_next_corr|cbn; lia].
  - split; [rewrite setm_next_corr; cbn; lia|]. intros k' r Hin. rewrite getm_setm in Hin.
    destruct (kind_eqb k' k) eqn:E; rewrite getm_set_next_corr in Hin; auto. apply kind_eqb_eq in E. subst.
    apply keys_ins in Hin. destruct Hin as [->|Hin]; [right; lia|auto]. Qed.

Lemma do_find_grows c k r s : grows s (fst (do_find c k r s)).
Proof. unfold do_find.
  assert (H : forall f, grows s (setm k (upd r f (getm k (set_next_h (next_h s + 1) s))) (set_next_h (next_h s + 1) s))).
  { intros f. eapply grows_trans; [apply (grows_same s (set_next_h (next_h s + 1) s)); [intros; apply getm_set_next_h|cbn; lia]|]. apply grows_upd. }
  repeat dmatch; cbn [fst]; try apply grows_refl; try apply H; apply grows_remove. Qed.

Lemma do_release_grows k r imgs s : grows s (fst (do_release k r imgs s)).
Proof. unfold do_release. dmatch; [|apply grows_refl].
  assert (H0 : grows s (set_next_corr (next_corr s + 1) s)) by (apply grows_same; [intros; apply getm_set_next_corr|cbn; lia]).
  destruct (ring_full s); [destruct k|]; cbn [fst]; (eapply grows_trans; [exact H0|]); try apply grows_remove; apply grows_upd. Qed.

Lemma do_drop_grows k r s : grows s (fst (do_drop k r s)).
Proof. rewrite do_drop_eq.
  assert (Hd : forall o, grows s (fst (dtor_user k r o s))).
  { intros o. unfold dtor_user. destruct k; try apply do_release_grows; destruct (o_closed o); try apply grows_refl; apply do_release_grows. }
  assert (Hx : forall o, grows s (set_orphans (remove_orphan k r (orphans (fst (dtor_user k r o s)))) (fst (dtor_user k r o s)))).
  { intros o. eapply grows_trans; [apply Hd|]. apply grows_same; [intros; apply getm_set_orphans|cbn; lia]. }
  destruct k; try apply grows_refl; destruct (user_obj _ r s); try apply grows_refl; apply Hx. Qed.

Lemma close_all_grows s : grows s (fst (fst (close_all s))).
Proof. unfold close_all. destruct (closed s); [apply grows_refl|].
  destruct (close_subs (subs s)), (close_ctrs (ctrs s)). cbn [fst]. split; [cbn; lia|].
  intros k r Hin. destruct k; cbn in Hin; try tauto. Qed.
Lemma close_all_grows' s s1 cbs hang : close_all s = (s1, cbs, hang) -> grows s s1.
Proof. intros H. pose proof (close_all_grows s) as X. rewrite H in X. exact X. Qed.

Lemma on_chan_error_grows x s : grows s (fst (fst (on_chan_error x s))).
Proof. rewrite on_chan_error_state. split; [cbn; lia|]. intros k r Hin. rewrite getm_set_orphans, getm_chan_maps in Hin.
  left. destruct k; auto; unfold chan_keep, keys in *; apply in_map_iff in Hin; destruct Hin as (p & <- & Hp); apply filter_In in Hp; apply in_map; tauto. Qed.

Lemma on_event_grows ev s : grows s (fst (fst (on_event ev s))).
Proof. destruct ev; cbn [on_event]; repeat dmatch; cbn [fst]; try apply grows_refl; try apply grows_upd.
  - unfold on_error. repeat dmatch; try apply grows_refl; apply grows_upd.
  - eapply close_all_grows'; eauto.
  - apply on_chan_error_grows. Qed.

Lemma grows_scalar s s' : (forall k, getm k s' = getm k s) -> next_corr s' = next_corr s -> grows s s'.
Proof. intros H Hn. apply grows_same; auto. lia. Qed.

Lemma heartbeat_check_grows c s : grows s (fst (fst (fst (heartbeat_check c s)))).
Proof. unfold heartbeat_check.
  assert (H1 : grows s (fst (fst (hc_service c (now s) s)))).
  { unfold hc_service. dmatch; [|apply grows_refl]. destruct (close_all s) as [[s1 cbs] hang] eqn:E. cbn [fst]. eapply close_all_grows'; eauto. }
  destruct (hc_service c (now s) s) as [[s1 cbs1] hang1]. cbn [fst] in H1.
  assert (H3 : grows (set_t_work (now s) s1) (fst (fst (fst (hc_keepalive c (now s) (set_t_work (now s) s1)))))).
  { unfold hc_keepalive. dmatch; [|apply grows_refl].
    assert (Hd : grows (set_t_work (now s) s1) (fst (hc_driver c (now s) (set_t_work (now s) s1)))).
    { unfold hc_driver. dmatch; [|apply grows_refl]. apply grows_scalar; [intros k; destruct k|]; reflexivity. }
    destruct (hc_driver c (now s) (set_t_work (now s) s1)) as [s' cbs']. cbn [fst] in Hd.
    assert (Hh : grows s' (fst (fst (hc_heartbeat s')))).
    { unfold hc_heartbeat. destruct (hb_bound s'); destruct (hb_env s' =? 1); try apply grows_refl.
      - destruct (close_all s') as [[sx cx] hx] eqn:E. cbn [fst]. eapply close_all_grows'; eauto.
      - apply grows_scalar; [intros k; destruct k|]; reflexivity. }
    destruct (hc_heartbeat s') as [[s'' cbs''] hang'']. cbn [fst] in *.
    eapply grows_trans; [exact Hd|]. eapply grows_trans; [exact Hh|]. apply grows_scalar; [intros k; destruct k|]; reflexivity. }
  destruct (hc_keepalive c (now s) (set_t_work (now s) s1)) as [[[s3 cbs3] hang3] r3]. cbn [fst] in H3.
  assert (H4 : grows s3 (fst (hc_resources (now s) s3))).
  { unfold hc_resources. dmatch; [|apply grows_refl]. apply grows_scalar; [intros k; destruct k|]; reflexivity. }
  destruct (hc_resources (now s) s3) as [s4 r4]. cbn [fst] in *.
  eapply grows_trans; [exact H1|]. eapply grows_trans; [|eapply grows_trans; [exact H3|exact H4]].
  apply grows_scalar; [intros k; destruct k|]; reflexivity. Qed.

Lemma step_grows c s o : grows s (fst (step c s o)).
Proof. destruct o; cbn [step].
  - apply do_add_grows.
  - apply do_find_grows.
  - apply do_drop_grows.
  - rewrite do_peek_state. apply grows_refl.
  - unfold do_close. pose proof (close_all_grows s) as H. destruct (close_all s) as [[s1 cbs] hang]. cbn [fst] in H.
    destruct hang; [exact H|]. destruct (close_sent s1); [exact H|]. cbn [fst]. eapply grows_trans; [exact H|].
    apply grows_same; [intros k; destruct k; reflexivity|cbn; lia].
  - cbn [fst]. apply grows_scalar; [intros k; destruct k|]; reflexivity.
  - cbn [fst]. apply grows_scalar; [intros k; destruct k|]; reflexivity.
  - cbn [fst]. apply grows_scalar; [intros k; destruct k|]; reflexivity.
  - cbn [fst]. apply grows_scalar; [intros k; destruct k|]; reflexivity.
  - unfold do_work. destruct b; try apply grows_refl.
    + cbn. pose proof (heartbeat_check_grows c s) as H. destruct (heartbeat_check c s) as [[[s2 cbs2] hang2] r]. destruct hang2; exact H.
    + pose proof (on_event_grows e s) as H1. destruct (on_event e s) as [[s1 cbs1] hang1]. cbn [fst] in H1. destruct hang1; [exact H1|].
      pose proof (heartbeat_check_grows c s1) as H. destruct (heartbeat_check c s1) as [[[s2 cbs2] hang2] r]. cbn [fst] in H.
      destruct hang2; cbn [fst]; eapply grows_trans; eauto.
  - unfold do_close_handle. destruct k; try apply grows_refl; destruct (user_obj _ r s); cbn [fst]; try apply grows_refl;
      (apply grows_scalar; [intros kk; destruct kk|]; reflexivity). Qed.

(* the registration (k, r) is gone: no entry, and the id is below the counter (it will not be handed out again) *)
Definition gone (k : kind) (r : Z) (s : st) : Prop := lookup r (getm k s) = None /\ r < next_corr s.

Lemma gone_stays c s o k r : gone k r s -> gone k r (fst (step c s o)).
Proof. intros [Hl Hn]. destruct (step_grows c s o) as [G1 G2]. split; [|lia].
  apply lookup_none_keys. intros Hin. destruct (G2 k r Hin) as [H|H]; [|lia]. apply lookup_none_keys in Hl. auto. Qed.

(* a channel endpoint error leaves a held handle registered, or ends its registration *)
Lemma chan_op_held c x s k r h : inv s -> held k r h s ->
  let s' := fst (step c s (DoWork (BEvent (EvChanError x)))) in held k r h s' \/ closed s' = true \/ gone k r s'.
Proof. intros I (o & Ho & Hu & Hh). cbn zeta. cbn [step]. unfold do_work. cbn [on_event].
  unfold hobj in Ho. destruct (lookup r (getm k s)) as [e|] eqn:El; [|discriminate].
  destruct (inv_lookup s k r e I El) as [Hr _].
  pose proof (chan_error_lookup k r x s I) as Hl. pose proof (on_chan_error_inv x s I) as I1.
  pose proof (on_chan_error_no_hang x s) as Y1.
  assert (Hnc1 : next_corr (fst (fst (on_chan_error x s))) = next_corr s) by reflexivity.
  destruct (on_chan_error x s) as [[s1 cbs1] h1]. cbn [fst snd] in *. subst h1.
  pose proof (heartbeat_check_stable c s1) as [S1 _]. pose proof (heartbeat_check_grows c s1) as G.
  pose proof (heartbeat_check_no_hang c s1) as Y.
  destruct (heartbeat_check c s1) as [[[s2 cbs2] h2] rr]. cbn [fst snd] in *. subst h2. cbn [fst].
  assert (Hcase : held k r h s1 \/ gone k r s1).
  { rewrite El in Hl. destruct k; try (left; exists o; unfold hobj; rewrite Hl; auto; fail);
      (destruct (chan_removed _ x (r, e)); [right; split; [exact Hl|lia]|left; exists o; unfold hobj; rewrite Hl; auto]). }
  destruct Hcase as [Hheld|Hg].
  - destruct (S1 k r) as [K|Hc]; [left; eapply keeps_held; eauto|right; left; exact Hc].
  - right. right. destruct Hg as [Hl1 Hn1]. destruct G as [G1 G2]. split; [|lia].
    apply lookup_none_keys. intros Hin. destruct (G2 k r Hin) as [H|H]; [|lia]. apply lookup_none_keys in Hl1. auto. Qed.

Lemma find_same_while_held_chan c k r h : k <> KDest -> forall ops s,
  inv s -> (held k r h s \/ closed s = true \/ gone k r s) -> ~ In (DropHandle k r) ops ->
  Forall (fun p => fst p = Find k r ->
                   snd p = (Ok [h], [], []) \/ snd p = (Err Closed, [], []) \/ snd p = (Err NotFound, [], []))
         (combine ops (snd (run c s ops))).
Proof. intros Hk. induction ops as [|o ops IH]; intros s I Hh Hnd; cbn; [constructor|].
  assert (Hne : o <> DropHandle k r) by (intros ->; apply Hnd; left; reflexivity).
  pose proof (step_inv c s o I) as I1.
  assert (Hh1 : held k r h (fst (step c s o)) \/ closed (fst (step c s o)) = true \/ gone k r (fst (step c s o))).
  { destruct Hh as [Hh|[Hc|Hg]].
    - destruct (chan_op o) eqn:Ech.
      + destruct o; try discriminate. destruct b; try discriminate. destruct e; try discriminate. apply chan_op_held; auto.
      + destruct (step_stable c s o k r I Hne Ech) as [[K|Hc] _]; [left; eapply keeps_held; eauto|right; left; exact Hc].
    - right. left. apply step_closed_mono; auto.
    - right. right. apply gone_stays. exact Hg. }
  destruct (step c s o) as [s1 x] eqn:Es. cbn [fst] in *.
  specialize (IH s1 I1 Hh1 (fun H => Hnd (or_intror H))). destruct (run c s1 ops) as [s2 xs]. cbn [snd] in *.
  constructor; auto. cbn. intros ->. cbn [step] in Es.
  destruct (closed s) eqn:Ec.
  - rewrite find_closed in Es by auto. inversion Es. auto.
  - destruct Hh as [Hh|[Hc|[Hg _]]]; [|congruence|].
    + rewrite (find_held c k r h s Hk Ec Hh) in Es. inversion Es. auto.
    + rewrite (find_unknown c k r s Ec Hg) in Es. inversion Es. auto. Qed.

(* ---- exclusive publications: the ready answer (the lemmas for publications / subscriptions are in ConductorProofs) ---- *)
Lemma ready_answer_xpub id stream session limit chstat s e :
  lookup id (xpubs s) = Some e -> e_status e = Awaiting ->
  exists s', on_event (EvXPubReady id stream session limit chstat) s = (s', [CbNewXPub id stream session (e_a1 e)], false) /\
    lookup id (xpubs s') = Some (set_ready session limit chstat (-1) (e_obj e) e).
Proof. intros He Hs. cbn [on_event]. rewrite He. unfold is_awaiting. rewrite Hs. eexists. split; [reflexivity|].
  cbn [xpubs setm]. rewrite lookup_upd_same, He. reflexivity. Qed.
Lemma ready_answer_not_awaiting_xpub id stream session limit chstat s e :
  lookup id (xpubs s) = Some e -> e_status e <> Awaiting -> on_event (EvXPubReady id stream session limit chstat) s = (s, [], false).
Proof. intros He Hs. cbn [on_event]. rewrite He. unfold is_awaiting. destruct (e_status e); [congruence| | |]; reflexivity. Qed.

(* ---- the user's own close() on a publication handle: only the handle's flag ---- *)
Lemma close_handle_spec k r s :
  let s' := fst (do_close_handle k r s) in
  (forall k', getm k' s' = getm k' s) /\ orphans s' = orphans s /\ next_corr s' = next_corr s /\ next_h s' = next_h s /\ closed s' = closed s /\
  snd (fst (snd (do_close_handle k r s))) = [] /\ snd (snd (do_close_handle k r s)) = [] /\
  (forall k2 r2 h, held k2 r2 h s -> held k2 r2 h s').
Proof. cbn zeta. unfold do_close_handle. destruct k; try (repeat split; auto; fail);
  (destruct (user_obj _ r s); cbn [fst snd]; repeat split; auto; intros k'; destruct k'; reflexivity). Qed.
