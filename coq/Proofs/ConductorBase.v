(* Basic facts about the association lists, the state setters and close_all of Model/Conductor.v. *)
Require Import V.Base.MachineInt.
Require Import V.Generated.GenConsts.
Require Import V.Model.Conductor.
From Coq Require Import ZifyBool.
Open Scope Z_scope.

(* ---- association lists ---- *)
Lemma lookup_remove_same id m : lookup id (remove id m) = None.
Proof. induction m as [|[k e] m IH]; cbn; auto.
  destruct (k =? id) eqn:E; cbn; auto. rewrite E. auto. Qed.

Lemma lookup_remove_other id id' m : id' <> id -> lookup id' (remove id m) = lookup id' m.
Proof. intros H. induction m as [|[k e] m IH]; cbn; auto.
  destruct (k =? id) eqn:E; cbn.
  - destruct (k =? id') eqn:E'; auto. lia.
  - destruct (k =? id'); auto. Qed.

Lemma lookup_app id m1 m2 :
  lookup id (m1 ++ m2) = match lookup id m1 with Some e => Some e | None => lookup id m2 end.
Proof. induction m1 as [|[k e] m IH]; cbn; auto. destruct (k =? id); auto. Qed.

Lemma lookup_ins_same id e m : lookup id (ins id e m) = Some e.
Proof. unfold ins. rewrite lookup_app, lookup_remove_same. cbn. rewrite Z.eqb_refl. auto. Qed.

Lemma lookup_ins_other id id' e m : id' <> id -> lookup id' (ins id e m) = lookup id' m.
Proof. intros H. unfold ins. rewrite lookup_app, lookup_remove_other by auto.
  destruct (lookup id' m); auto. cbn. destruct (id =? id') eqn:E; auto. lia. Qed.

Lemma lookup_upd_same id f m : lookup id (upd id f m) = option_map f (lookup id m).
Proof. induction m as [|[k e] m IH]; cbn; auto.
  destruct (k =? id) eqn:E; cbn; rewrite E; auto. Qed.

Lemma lookup_upd_other id id' f m : id' <> id -> lookup id' (upd id f m) = lookup id' m.
Proof. intros H. induction m as [|[k e] m IH]; cbn; auto.
  destruct (k =? id) eqn:E; cbn.
  - destruct (k =? id') eqn:E'; auto. lia.
  - destruct (k =? id'); auto. Qed.

Lemma keys_upd id f m : keys (upd id f m) = keys m.
Proof. unfold keys, upd. rewrite map_map. apply map_ext. intros [k e]; cbn. destruct (k =? id); auto. Qed.

Lemma keys_remove_incl id m x : In x (keys (remove id m)) -> In x (keys m).
Proof. unfold keys, remove. intros H. apply in_map_iff in H. destruct H as (p & <- & Hp).
  apply filter_In in Hp. apply in_map. tauto. Qed.

Lemma keys_ins id e m x : In x (keys (ins id e m)) -> x = id \/ In x (keys m).
Proof. unfold ins, keys. rewrite map_app. intros H. apply in_app_or in H. destruct H as [H|H].
  - right. apply keys_remove_incl in H. exact H.
  - cbn in H. destruct H as [H|[]]. auto. Qed.

Lemma lookup_none_keys id m : lookup id m = None <-> ~ In id (keys m).
Proof. induction m as [|[k e] m IH]; cbn.
  - tauto.
  - destruct (k =? id) eqn:E.
    + split; [discriminate|]. intros H. exfalso. apply H. left. lia.
    + rewrite IH. split; intros H; [intros [H1|H1]; [lia|tauto] | tauto]. Qed.

Lemma lookup_some_keys id m e : lookup id m = Some e -> In id (keys m).
Proof. intros H. destruct (in_dec Z.eq_dec id (keys m)) as [i|n]; auto.
  apply lookup_none_keys in n. congruence. Qed.

(* ---- kinds ---- *)
Lemma kind_eqb_refl k : kind_eqb k k = true.
Proof. destruct k; reflexivity. Qed.
Lemma kind_eqb_eq a b : kind_eqb a b = true <-> a = b.
Proof. destruct a, b; cbn; split; intros; congruence. Qed.
Lemma kind_eqb_neq a b : kind_eqb a b = false <-> a <> b.
Proof. destruct a, b; cbn; split; intros; congruence. Qed.

(* ---- getm / setm ---- *)
Lemma getm_setm_same k m s : getm k (setm k m s) = m.
Proof. destruct k; reflexivity. Qed.
Lemma getm_setm_other k k' m s : k' <> k -> getm k' (setm k m s) = getm k' s.
Proof. destruct k, k'; intros; try reflexivity; congruence. Qed.
Lemma getm_setm k k' m s : getm k' (setm k m s) = if kind_eqb k' k then m else getm k' s.
Proof. destruct k, k'; reflexivity. Qed.

Ltac st_fields := intros; repeat match goal with k : kind |- _ => destruct k end; reflexivity.

Lemma setm_orphans k m s : orphans (setm k m s) = orphans s. Proof. st_fields. Qed.
Lemma setm_next_corr k m s : next_corr (setm k m s) = next_corr s. Proof. st_fields. Qed.
Lemma setm_client_id k m s : client_id (setm k m s) = client_id s. Proof. st_fields. Qed.
Lemma setm_next_h k m s : next_h (setm k m s) = next_h s. Proof. st_fields. Qed.
Lemma setm_closed k m s : closed (setm k m s) = closed s. Proof. st_fields. Qed.
Lemma setm_driver_active k m s : driver_active (setm k m s) = driver_active s. Proof. st_fields. Qed.
Lemma setm_close_sent k m s : close_sent (setm k m s) = close_sent s. Proof. st_fields. Qed.
Lemma setm_now k m s : now (setm k m s) = now s. Proof. st_fields. Qed.
Lemma setm_t_work k m s : t_work (setm k m s) = t_work s. Proof. st_fields. Qed.
Lemma setm_t_keep k m s : t_keep (setm k m s) = t_keep s. Proof. st_fields. Qed.
Lemma setm_t_res k m s : t_res (setm k m s) = t_res s. Proof. st_fields. Qed.
Lemma setm_driver_hb k m s : driver_hb (setm k m s) = driver_hb s. Proof. st_fields. Qed.
Lemma setm_hb_env k m s : hb_env (setm k m s) = hb_env s. Proof. st_fields. Qed.
Lemma setm_hb_bound k m s : hb_bound (setm k m s) = hb_bound s. Proof. st_fields. Qed.

Lemma getm_set_next_corr k v s : getm k (set_next_corr v s) = getm k s. Proof. st_fields. Qed.
Lemma getm_set_next_h k v s : getm k (set_next_h v s) = getm k s. Proof. st_fields. Qed.
Lemma getm_set_orphans k v s : getm k (set_orphans v s) = getm k s. Proof. st_fields. Qed.
Lemma getm_set_close_sent k v s : getm k (set_close_sent v s) = getm k s. Proof. st_fields. Qed.
Lemma getm_set_now k v s : getm k (set_now v s) = getm k s. Proof. st_fields. Qed.
Lemma getm_set_t_work k v s : getm k (set_t_work v s) = getm k s. Proof. st_fields. Qed.
Lemma getm_set_t_keep k v s : getm k (set_t_keep v s) = getm k s. Proof. st_fields. Qed.
Lemma getm_set_t_res k v s : getm k (set_t_res v s) = getm k s. Proof. st_fields. Qed.
Lemma getm_set_driver_hb k v s : getm k (set_driver_hb v s) = getm k s. Proof. st_fields. Qed.
Lemma getm_set_hb_env k v s : getm k (set_hb_env v s) = getm k s. Proof. st_fields. Qed.
Lemma getm_set_hb_bound k v s : getm k (set_hb_bound v s) = getm k s. Proof. st_fields. Qed.
Lemma getm_set_driver_active k v s : getm k (set_driver_active v s) = getm k s. Proof. st_fields. Qed.

Global Hint Rewrite getm_setm_same setm_orphans setm_next_corr setm_client_id setm_next_h setm_closed
  setm_driver_active setm_close_sent setm_now setm_t_work setm_t_keep setm_t_res setm_driver_hb setm_hb_env setm_hb_bound
  getm_set_next_corr getm_set_next_h getm_set_orphans getm_set_close_sent getm_set_now getm_set_t_work getm_set_t_keep
  getm_set_t_res getm_set_driver_hb getm_set_hb_env getm_set_hb_bound getm_set_driver_active : st.

(* ---- close_all ---- *)
Lemma close_sub_obj_closed r o : o_closed (fst (close_sub_obj r o)) = true.
Proof. unfold close_sub_obj. destruct (o_closed o) eqn:E; cbn; auto. Qed.

Lemma close_subs_closed m r o : In (r, o) (fst (close_subs m)) -> o_closed o = true.
Proof. unfold close_subs. cbn. rewrite map_map. intros H. apply in_map_iff in H.
  destruct H as ([r' o'] & Heq & _). cbn in Heq. inversion Heq; subst. apply close_sub_obj_closed. Qed.

Lemma close_ctrs_closed m r o : In (r, o) (fst (close_ctrs m)) -> o_closed o = true.
Proof. unfold close_ctrs. cbn. intros H. apply in_map_iff in H.
  destruct H as ([r' o'] & Heq & _). cbn in Heq. inversion Heq; subst. reflexivity. Qed.

Lemma dropped_in l o : In o (dropped l) -> exists r, In (r, o) l.
Proof. unfold dropped. intros H. apply in_map_iff in H. destruct H as ([r o'] & Heq & Hf). cbn in Heq. subst.
  apply filter_In in Hf. exists r. tauto. Qed.

Lemma close_all_no_hang s : snd (close_all s) = false.
Proof. unfold close_all. destruct (closed s); [reflexivity|].
  destruct (close_subs (subs s)) as [sl scbs] eqn:Es. destruct (close_ctrs (ctrs s)) as [cl ccbs] eqn:Ec. cbn [snd].
  apply Bool.not_true_is_false. intros H. apply existsb_exists in H. destruct H as (o & Hin & Hd).
  unfold dtor_locked in Hd. apply Bool.negb_true_iff in Hd.
  apply in_app_or in Hin. destruct Hin as [Hin|Hin]; apply dropped_in in Hin; destruct Hin as (r & Hin).
  - pose proof (close_subs_closed (subs s) r o) as Hc. rewrite Es in Hc. cbn in Hc. specialize (Hc Hin). congruence.
  - pose proof (close_ctrs_closed (ctrs s) r o) as Hc. rewrite Ec in Hc. cbn in Hc. specialize (Hc Hin). congruence. Qed.

Lemma close_all_closed s : closed (fst (fst (close_all s))) = true.
Proof. unfold close_all. destruct (closed s) eqn:E; [exact E|].
  destruct (close_subs (subs s)), (close_ctrs (ctrs s)). reflexivity. Qed.

Lemma close_all_when_closed s : closed s = true -> close_all s = (s, [], false).
Proof. intros H. unfold close_all. rewrite H. reflexivity. Qed.

Lemma close_all_maps s k : k <> KDest -> closed s = false -> getm k (fst (fst (close_all s))) = [].
Proof. intros Hk Hc. unfold close_all. rewrite Hc.
  destruct (close_subs (subs s)), (close_ctrs (ctrs s)). destruct k; try reflexivity. congruence. Qed.

Lemma close_all_dests s : dests (fst (fst (close_all s))) = dests s.
Proof. unfold close_all. destruct (closed s); [reflexivity|]. destruct (close_subs (subs s)), (close_ctrs (ctrs s)). reflexivity. Qed.

Lemma close_all_scalars s :
  let s' := fst (fst (close_all s)) in
  next_corr s' = next_corr s /\ client_id s' = client_id s /\ next_h s' = next_h s /\ driver_active s' = driver_active s /\
  close_sent s' = close_sent s /\ now s' = now s /\ t_work s' = t_work s /\ t_keep s' = t_keep s /\ t_res s' = t_res s /\
  driver_hb s' = driver_hb s /\ hb_env s' = hb_env s /\ hb_bound s' = hb_bound s.
Proof. unfold close_all. destruct (closed s).
  - cbn. repeat split.
  - destruct (close_subs (subs s)), (close_ctrs (ctrs s)). cbn. repeat split. Qed.
