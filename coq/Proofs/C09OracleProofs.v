(* The C09 oracle is true on the model's own observations, for every history: a simulation between the
   specification automaton of Oracle/C09Oracle.v and the conductor model. *)
Require Import V.Base.MachineInt.
Require Import V.Generated.GenConsts.
Require Import V.Model.Conductor.
Require Import V.Proofs.ConductorBase.
Require Import V.Proofs.ConductorInv.
Require Import V.Proofs.ConductorProofs.
Require Import V.Proofs.ConductorClose.
Require Import V.Oracle.C09Oracle.
From Coq Require Import ZifyBool.
Open Scope Z_scope.

(* ---- the registration list of the automaton ---- *)
Lemma rlookup_app k r l k' r' x :
  rlookup k r (l ++ [(k', r', x)]) =
    match rlookup k r l with Some y => Some y | None => if kind_eqb k' k && (r' =? r) then Some x else None end.
Proof. induction l as [|[[k2 r2] y] l IH]; cbn; auto. destruct (kind_eqb k2 k && (r2 =? r)); auto. Qed.

Lemma rlookup_rset_same k r x l : rlookup k r l <> None -> rlookup k r (rset k r x l) = Some x.
Proof. induction l as [|[[k2 r2] y] l IH]; cbn; [congruence|].
  destruct (kind_eqb k2 k && (r2 =? r)) eqn:E; cbn; rewrite E; auto. Qed.

Lemma rlookup_rset_other k r x l k' r' : k' <> k \/ r' <> r -> rlookup k' r' (rset k r x l) = rlookup k' r' l.
Proof. intros Hne. induction l as [|[[k2 r2] y] l IH]; cbn; auto.
  destruct (kind_eqb k2 k && (r2 =? r)) eqn:E; cbn.
  - apply andb_prop in E. destruct E as [E1 E2]. apply kind_eqb_eq in E1. subst k2. assert (r2 = r) by lia. subst r2.
    destruct (kind_eqb k k' && (r =? r')) eqn:E'; auto. apply andb_prop in E'. destruct E' as [E3 E4].
    apply kind_eqb_eq in E3. subst. destruct Hne; [congruence|lia].
  - destruct (kind_eqb k2 k' && (r2 =? r')); auto. Qed.

Lemma rlookup_rerror k r' r code l :
  rlookup k r' (rerror r code l) = if r' =? r then option_map (err_tr code) (rlookup k r' l) else rlookup k r' l.
Proof. induction l as [|[[k2 r2] y] l IH]; cbn; [destruct (r' =? r); reflexivity|].
  destruct (r2 =? r) eqn:E; cbn.
  - destruct (kind_eqb k2 k && (r2 =? r')) eqn:E2.
    + replace (r' =? r) with true by lia. cbn. reflexivity.
    + exact IH.
  - destruct (kind_eqb k2 k && (r2 =? r')) eqn:E2; auto. replace (r' =? r) with false by lia. reflexivity. Qed.

Definition reg_ids (l : list (kind * Z * life)) : list Z := map (fun x => snd (fst x)) l.

Lemma rlookup_some_id k r l x : rlookup k r l = Some x -> In r (reg_ids l).
Proof. induction l as [|[[k2 r2] y] l IH]; cbn; [discriminate|].
  destruct (kind_eqb k2 k && (r2 =? r)) eqn:E; auto. intros _. left. lia. Qed.

Lemma reg_ids_rset k r x l : reg_ids (rset k r x l) = reg_ids l.
Proof. unfold reg_ids, rset. rewrite map_map. apply map_ext. intros [[k2 r2] y]. cbn. destruct (kind_eqb k2 k && (r2 =? r)); reflexivity. Qed.
Lemma reg_ids_rerror r code l : reg_ids (rerror r code l) = reg_ids l.
Proof. unfold reg_ids, rerror. rewrite map_map. apply map_ext. intros [[k2 r2] y]. cbn. destruct (r2 =? r); reflexivity. Qed.

(* at most one kind per id *)
Definition uniq (l : list (kind * Z * life)) : Prop :=
  forall k1 k2 r, rlookup k1 r l <> None -> rlookup k2 r l <> None -> k1 = k2.

Lemma rlookup_rset_none k r x l k' r' : rlookup k' r' (rset k r x l) = None <-> rlookup k' r' l = None.
Proof. induction l as [|[[k2 r2] y] l IH]; cbn; [tauto|].
  destruct (kind_eqb k2 k && (r2 =? r)) eqn:E; cbn; destruct (kind_eqb k2 k' && (r2 =? r')); try tauto; split; discriminate. Qed.
Lemma rlookup_rerror_none r code l k' r' : rlookup k' r' (rerror r code l) = None <-> rlookup k' r' l = None.
Proof. rewrite rlookup_rerror. destruct (r' =? r); [|tauto]. destruct (rlookup k' r' l); cbn; split; congruence. Qed.

Lemma uniq_rset k r x l : uniq l -> uniq (rset k r x l).
Proof. intros U k1 k2 r' H1 H2. apply (U k1 k2 r'); rewrite <- (rlookup_rset_none k r x); auto. Qed.
Lemma uniq_rerror r code l : uniq l -> uniq (rerror r code l).
Proof. intros U k1 k2 r' H1 H2. apply (U k1 k2 r'); rewrite <- (rlookup_rerror_none r code); auto. Qed.

(* ---- the simulation relation ---- *)
Definition rel_entry (k : kind) (x : life) (oe : option entry) : Prop :=
  match x with
  | LAwait t0 a1 a2 =>
      exists e, oe = Some e /\ e_status e = Awaiting /\ e_obj e = None /\ e_treg e = t0 /\ e_a1 e = a1 /\ e_a2 e = a2
  | LReady None d1 d2 d3 =>
      exists e, oe = Some e /\
        match k with
        | KPub => e_status e = Registered /\ e_obj e = None /\ e_d1 e = d1 /\ e_d3 e = d2 /\ e_d4 e = d3
        | KXPub => e_status e = Registered /\ e_obj e = None /\ e_d1 e = d1 /\ e_d3 e = d2 /\ d3 = 0
        | KDest => e_status e = Registered
        | _ => exists o, e_obj e = Some o /\ o_user o = false /\ o_d1 o = d1 /\ o_d2 o = d2 /\ o_d3 o = d3
        end
  | LReady (Some h) d1 d2 d3 =>
      k <> KDest /\ exists e o, oe = Some e /\ e_obj e = Some o /\ o_user o = true /\ o_h o = h /\
                                o_d1 o = d1 /\ o_d2 o = d2 /\ o_d3 o = d3
  | LErr code => exists e, oe = Some e /\ e_status e = Errored /\ e_code e = code /\ e_obj e = None
  | LGone => oe = None
  | LAny => match oe with Some e => e_status e <> Awaiting | None => True end
  end.

Definition pt (k : kind) (ox : option life) (oe : option entry) : Prop :=
  match ox with Some x => rel_entry k x oe | None => oe = None end.

Record Rel (c0 : Z) (q : ost) (s : st) : Prop := mkRel {
  R_client : client_id s = c0;
  R_now : q_now q = now s;
  R_closed : q_closed q = closed s;
  R_corr : q_max q < next_corr s;
  R_h : q_hmax q <= next_h s;
  R_cs : q_close_sent q = close_sent s;
  R_ids : Forall (fun r => r <= q_max q) (reg_ids (q_regs q));
  R_uniq : uniq (q_regs q);
  R_pt : closed s = false -> forall k r, pt k (rlookup k r (q_regs q)) (lookup r (getm k s))
}.

Lemma rel_init c0 now0 : Rel c0 (oinit c0 now0) (init c0 now0).
Proof. constructor; cbn; try reflexivity; try lia.
  - constructor.
  - intros k1 k2 r H. cbn in H. congruence.
  - intros _ k r. destruct k; reflexivity. Qed.

Lemma list_eqb_refl l : list_eqb l l = true.
Proof. unfold list_eqb. rewrite Z.eqb_refl. cbn. induction l; cbn; auto. rewrite Z.eqb_refl. auto. Qed.
Lemma cmd_eqb_refl c : cmd_eqb c c = true.
Proof. destruct c. cbn. rewrite !Z.eqb_refl, list_eqb_refl. reflexivity. Qed.

Lemma ids_fresh q r k : Forall (fun r => r <= q_max q) (reg_ids (q_regs q)) -> q_max q < r -> rlookup k r (q_regs q) = None.
Proof. intros F H. destruct (rlookup k r (q_regs q)) eqn:E; auto. apply rlookup_some_id in E.
  rewrite Forall_forall in F. specialize (F _ E). lia. Qed.

Lemma rel_next_corr c0 q s : Rel c0 q s -> Rel c0 q (set_next_corr (next_corr s + 1) s).
Proof. intros R. destruct R. constructor; cbn; auto. lia. Qed.

(* ---- add ---- *)
Lemma sim_add c0 tdrv c q s k a1 a2 a3 :
  c_tdrv c = tdrv -> inv s -> Rel c0 q s ->
  exists q', c09_step c0 tdrv (ring_full s) q (Add k a1 a2 a3) (snd (do_add k a1 a2 a3 s)) = Next q' /\ Rel c0 q' (fst (do_add k a1 a2 a3 s)).
Proof. intros Hc I R. destruct (do_add k a1 a2 a3 s) as [s' [[r cbs] cmds]] eqn:E. cbn [fst snd].
  pose proof (add_result k a1 a2 a3 s) as Hr. rewrite E in Hr. cbn in Hr.
  destruct Hr as [Hr|Hr].
  - subst r. destruct (add_accepted _ _ _ _ _ _ _ _ _ E) as (_ & -> & -> & Hl & Hn & Ha & Hcl & Hfr).
    destruct R. cbn [c09_step]. rewrite R_client0.
    replace (q_max q <? next_corr s) with true by lia. cbn [existsb negb andb]. rewrite cmd_eqb_refl.
    assert (Hs' : s' = setm k (ins (next_corr s) (new_entry (now s) a1 a2 a3) (getm k (set_next_corr (next_corr s + 1) s))) (set_next_corr (next_corr s + 1) s)).
    { unfold do_add in E. rewrite Ha, Hcl in E. cbn [negb] in E. destruct (add_illegal k a1 a2 a3); [discriminate|].
      destruct (ring_full s); [discriminate|]. inversion E. reflexivity. }
    subst s'. eexists. split; [reflexivity|].
    constructor; cbn [set_qmax set_regs q_now q_closed q_regs q_max q_hmax q_close_sent]; rewrite ?setm_client_id, ?setm_now, ?setm_closed, ?setm_next_corr, ?setm_next_h, ?setm_close_sent; cbn [client_id now closed next_corr next_h close_sent set_next_corr]; auto; try lia.
    + unfold reg_ids. rewrite map_app. apply Forall_app. split; [|constructor; [cbn; lia|constructor]].
      eapply Forall_impl; [|exact R_ids0]. cbn. intros. lia.
    + intros k1 k2 r' H1 H2. rewrite rlookup_app in H1, H2.
      destruct (rlookup k1 r' (q_regs q)) eqn:E1; destruct (rlookup k2 r' (q_regs q)) eqn:E2.
      * apply (R_uniq0 k1 k2 r'); congruence.
      * destruct (kind_eqb k k2 && (next_corr s =? r')) eqn:E3; [|congruence]. apply andb_prop in E3. destruct E3 as [_ E3].
        apply rlookup_some_id in E1. rewrite Forall_forall in R_ids0. specialize (R_ids0 _ E1). lia.
      * destruct (kind_eqb k k1 && (next_corr s =? r')) eqn:E3; [|congruence]. apply andb_prop in E3. destruct E3 as [_ E3].
        apply rlookup_some_id in E2. rewrite Forall_forall in R_ids0. specialize (R_ids0 _ E2). lia.
      * destruct (kind_eqb k k1 && (next_corr s =? r')) eqn:E3; [|congruence]. destruct (kind_eqb k k2 && (next_corr s =? r')) eqn:E4; [|congruence].
        apply andb_prop in E3, E4. destruct E3 as [E3 _], E4 as [E4 _]. apply kind_eqb_eq in E3, E4. congruence.
    + intros Hc' k' r'. rewrite rlookup_app.
      destruct (kind_eqb k k' && (next_corr s =? r')) eqn:E3.
      * apply andb_prop in E3. destruct E3 as [E3 E4]. apply kind_eqb_eq in E3. subst k'. assert (r' = next_corr s) by lia. subst r'.
        rewrite (ids_fresh q (next_corr s) k R_ids0) by lia. rewrite Hl. cbn. rewrite R_now0. eexists. repeat split; reflexivity.
      * rewrite Hfr.
        -- specialize (R_pt0 Hcl k' r'). destruct (rlookup k' r' (q_regs q)); exact R_pt0.
        -- destruct (kind_eqb k k') eqn:E5; [right|left; apply kind_eqb_neq in E5; congruence]. cbn in E3. lia.
  - assert (Hx : exists e, r = Err e) by (destruct Hr as [Hr|[Hr|[Hr|Hr]]]; subst r; eauto). destruct Hx as (e & He). subst r.
    destruct (add_rejected _ _ _ _ _ _ _ _ _ E) as (Hs' & -> & ->). cbn [fst snd c09_step]. exists q. split.
    + (* the refusal has its reason *)
      destruct (add_refused_why _ _ _ _ _ _ _ _ _ E) as [[-> _]|[[-> Hx]|[[-> Hx]|[-> Hx]]]]; try reflexivity.
      * rewrite (R_closed _ _ _ R), Hx. reflexivity.
      * rewrite Hx. reflexivity.
      * rewrite Hx. reflexivity.
    + destruct Hs' as [->|(_ & _ & ->)]; auto. apply rel_next_corr. exact R. Qed.

(* re-establishing the relation after a step that only touches the registration (k, r) *)
Lemma rel_frame c0 q s q' s' k r :
  Rel c0 q s ->
  client_id s' = client_id s -> q_now q' = now s' -> q_closed q' = closed s' -> q_max q' < next_corr s' ->
  q_hmax q' <= next_h s' -> q_close_sent q' = close_sent s' -> q_max q <= q_max q' ->
  reg_ids (q_regs q') = reg_ids (q_regs q) -> uniq (q_regs q') -> (closed s' = false -> closed s = false) ->
  (forall k' r', k' <> k \/ r' <> r ->
     rlookup k' r' (q_regs q') = rlookup k' r' (q_regs q) /\ lookup r' (getm k' s') = lookup r' (getm k' s)) ->
  (closed s' = false -> pt k (rlookup k r (q_regs q')) (lookup r (getm k s'))) ->
  Rel c0 q' s'.
Proof. intros R H1 H2 H3 H4 H5 H6 H7 H8 H9 H10 H11 H12. destruct R. constructor; auto.
  - congruence.
  - rewrite H8. eapply Forall_impl; [|exact R_ids0]. cbn. intros. lia.
  - intros Hc k' r'. destruct (kind_eqb k' k) eqn:E; [destruct (Z.eq_dec r' r)|].
    + apply kind_eqb_eq in E. subst. auto.
    + destruct (H11 k' r') as [A B]; auto. rewrite A, B. apply R_pt0. auto.
    + apply kind_eqb_neq in E. destruct (H11 k' r') as [A B]; auto. rewrite A, B. apply R_pt0. auto. Qed.

Definition find_framed (k : kind) (r : Z) (s s' : st) : Prop :=
  client_id s' = client_id s /\ now s' = now s /\ closed s' = closed s /\ next_corr s' = next_corr s /\
  close_sent s' = close_sent s /\ next_h s <= next_h s' /\
  (forall k' r', k' <> k \/ r' <> r -> lookup r' (getm k' s') = lookup r' (getm k' s)).

Lemma do_find_frame c k r s : find_framed k r s (fst (do_find c k r s)).
Proof. unfold do_find.
  assert (Hu : forall f, find_framed k r s (setm k (upd r f (getm k (set_next_h (next_h s + 1) s))) (set_next_h (next_h s + 1) s))).
  { intros f. unfold find_framed. rewrite setm_client_id, setm_now, setm_closed, setm_next_corr, setm_close_sent, setm_next_h.
    cbn. repeat split; auto; try lia. intros k' r' Hne. rewrite getm_setm. destruct (kind_eqb k' k) eqn:E; rewrite getm_set_next_h; auto.
    apply kind_eqb_eq in E. subst. apply lookup_upd_other. destruct Hne; congruence. }
  assert (Hr : find_framed k r s (setm k (remove r (getm k s)) s)).
  { unfold find_framed. rewrite setm_client_id, setm_now, setm_closed, setm_next_corr, setm_close_sent, setm_next_h.
    repeat split; auto; try lia. intros k' r' Hne. rewrite getm_setm. destruct (kind_eqb k' k) eqn:E; auto.
    apply kind_eqb_eq in E. subst. apply lookup_remove_other. destruct Hne; congruence. }
  assert (Hs : find_framed k r s s) by (unfold find_framed; repeat split; auto; lia).
  repeat dmatch; cbn [fst]; try exact Hs; try apply Hu; try exact Hr. Qed.

Lemma rel_same_step c0 q s s' :
  Rel c0 q s -> client_id s' = client_id s -> now s' = now s -> closed s' = closed s -> next_corr s' = next_corr s ->
  next_h s <= next_h s' -> close_sent s' = close_sent s -> (forall k r, lookup r (getm k s') = lookup r (getm k s)) -> Rel c0 q s'.
Proof. intros R H1 H2 H3 H4 H5 H6 H7. destruct R. constructor; auto; try congruence; try lia.
  intros Hc k r. rewrite H7. apply R_pt0. congruence. Qed.

Lemma do_find_status c k r s e' :
  lookup r (getm k (fst (do_find c k r s))) = Some e' -> exists e, lookup r (getm k s) = Some e /\ e_status e' = e_status e.
Proof. unfold do_find. destruct (closed s); [cbn; eauto|].
  destruct (lookup r (getm k s)) as [e|] eqn:He; [|cbn; rewrite He; discriminate].
  assert (Hu : forall o, lookup r (getm k (setm k (upd r (set_obj o) (getm k (set_next_h (next_h s + 1) s))) (set_next_h (next_h s + 1) s))) = Some e' ->
               exists e0, Some e = Some e0 /\ e_status e' = e_status e0).
  { intros o H. rewrite getm_setm_same, getm_set_next_h, lookup_upd_same, He in H. cbn in H. inversion H; subst. eauto. }
  assert (Hr : lookup r (getm k (setm k (remove r (getm k s)) s)) = Some e' -> exists e0, Some e = Some e0 /\ e_status e' = e_status e0).
  { rewrite getm_setm_same, lookup_remove_same. discriminate. }
  assert (Hs : lookup r (getm k s) = Some e' -> exists e0, Some e = Some e0 /\ e_status e' = e_status e0).
  { rewrite He. intros H. inversion H; subst. eauto. }
  destruct k; destruct (e_obj e) as [o|]; try destruct (o_user o); destruct (e_status e); try destruct (timed_out c s e); cbn [fst];
    try exact Hs; try apply Hu; try exact Hr. Qed.

Lemma sim_find c0 tdrv full c q s k r :
  c_tdrv c = tdrv -> inv s -> Rel c0 q s ->
  exists q', c09_step c0 tdrv full q (Find k r) (snd (do_find c k r s)) = Next q' /\ Rel c0 q' (fst (do_find c k r s)).
Proof. intros Hc I R. pose proof (do_find_frame c k r s) as F.
  destruct F as (F1 & F2 & F3 & F4 & F5 & F6 & F7).
  destruct (closed s) eqn:Ecl.
  { rewrite find_closed in * by auto. cbn. destruct R. rewrite R_closed0, Ecl. cbn. exists q. split; auto. constructor; auto. }
  pose proof (R_pt _ _ _ R Ecl k r) as P.
  assert (Hqc : q_closed q = false) by (rewrite (R_closed _ _ _ R); exact Ecl).
  destruct (rlookup k r (q_regs q)) as [x|] eqn:Ex; cbn [pt] in P.
  2:{ rewrite find_unknown in * by auto. cbn. rewrite Hqc, Ex. cbn. exists q. split; auto. }
  destruct x as [t0 a1 a2|[h|] d1 d2 d3|code| |]; cbn [rel_entry] in P.
  - (* LAwait *) destruct P as (e & He & Hs & Ho & Ht & _).
    rewrite (find_awaiting c k r s e Ecl He Hs Ho) in *. cbn [fst snd]. cbn [c09_step]. rewrite Hqc, Ex.
    rewrite (R_now _ _ _ R), Ht, Hc. destruct (t0 + tdrv <? now s); cbn.
    + exists q. split; auto.
    + destruct k; cbn; exists q; split; auto.
  - (* LReady (Some h) *) destruct P as (Hk & e & o & He & Ho & Hu & Hh & _).
    assert (Hheld : held k r h s) by (exists o; unfold hobj; rewrite He; auto).
    rewrite (find_held c k r h s Hk Ecl Hheld) in *. cbn. rewrite Hqc, Ex. cbn. rewrite Z.eqb_refl. exists q. split; auto.
  - (* LReady None *) destruct P as (e & He & P).
    destruct (kind_eqb k KDest) eqn:Ek.
    + apply kind_eqb_eq in Ek. subst k. cbn [getm] in He. rewrite (find_dest_registered c r s e Ecl He P) in *. cbn. rewrite Hqc, Ex. cbn. exists q. split; auto.
    + apply kind_eqb_neq in Ek.
      assert (Hsh : match e_obj e with Some o => o_user o = false | None => e_status e = Registered /\ (k = KPub \/ k = KXPub) end).
      { destruct k; try congruence.
        - destruct P as (P1 & P2 & _). rewrite P2. auto.
        - destruct P as (P1 & P2 & _). rewrite P2. auto.
        - destruct P as (o & -> & Hu & _). exact Hu.
        - destruct P as (o & -> & Hu & _). exact Hu. }
      destruct (find_first c k r s e Ek Ecl He Hsh) as (s' & Hf & (o' & Ho' & Hu' & Hh' & Hfo) & Hnh & Hfr). rewrite Hf in *. cbn [fst snd] in *.
      set (q' := mkO (q_now q) false (rset k r (LReady (Some (next_h s)) d1 d2 d3) (q_regs q)) (q_max q) (next_h s + 1) (q_close_sent q)).
      assert (Hstep : c09_step c0 tdrv full q (Find k r) (Ok [next_h s], [], []) = Next q').
      { cbn [c09_step]. rewrite Hqc, Ex. replace (res_ok1 (Ok [next_h s])) with (Some (next_h s)) by reflexivity.
        replace (q_hmax q <=? next_h s) with true by (pose proof (R_h _ _ _ R); lia). destruct k; try congruence; reflexivity. }
      exists q'. split; [exact Hstep|].
      apply (rel_frame c0 q s q' s' k r R); subst q'; cbn [q_now q_closed q_regs q_max q_hmax q_close_sent].
      * exact F1.
      * rewrite (R_now _ _ _ R). auto.
      * congruence.
      * rewrite F4. apply (R_corr _ _ _ R).
      * lia.
      * rewrite (R_cs _ _ _ R). auto.
      * lia.
      * apply reg_ids_rset.
      * apply uniq_rset. apply (R_uniq _ _ _ R).
      * congruence.
      * intros k' r' Hne. split; [apply rlookup_rset_other; auto|apply Hfr; auto].
      * intros _. rewrite rlookup_rset_same by congruence. cbn [pt rel_entry]. split; auto.
        unfold hobj in Ho'. destruct (lookup r (getm k s')) as [e'|] eqn:He'; [|discriminate]. exists e', o'.
        unfold first_obj in Hfo.
        destruct k; try congruence.
        -- destruct P as (P1 & P2 & P3 & P4 & P5). rewrite P2 in Hfo. intuition congruence.
        -- destruct P as (P1 & P2 & P3 & P4 & P5). rewrite P2 in Hfo. intuition congruence.
        -- destruct P as (o & P1 & P2 & P3 & P4 & P5). rewrite P1 in Hfo. intuition congruence.
        -- destruct P as (o & P1 & P2 & P3 & P4 & P5). rewrite P1 in Hfo. intuition congruence.
  - (* LErr *) destruct P as (e & He & Hs & Hcode & Ho).
    destruct (kind_eqb k KDest) eqn:Ek.
    + apply kind_eqb_eq in Ek. subst k. cbn [getm] in He. rewrite (find_dest_errored c r s e Ecl He Hs) in *. cbn [fst snd c09_step].
      rewrite Hqc, Ex, Hcode. cbn. rewrite Z.eqb_refl. exists q. split; auto.
    + apply kind_eqb_neq in Ek. destruct (find_errored c k r s e Ek Ecl He Hs Ho) as (s' & Hf & Hn & _). rewrite Hf in *. cbn [fst snd] in *.
      set (q' := set_regs (rset k r LGone (q_regs q)) q).
      assert (Hstep : c09_step c0 tdrv full q (Find k r) (Err (Registration (e_code e)), [], []) = Next q').
      { cbn [c09_step]. rewrite Hqc, Ex, Hcode. cbn [res_is]. rewrite Z.eqb_refl. destruct k; try congruence; reflexivity. }
      exists q'. split; [exact Hstep|].
      apply (rel_frame c0 q s q' s' k r R); subst q'; cbn [set_regs q_now q_closed q_regs q_max q_hmax q_close_sent].
      * exact F1.
      * rewrite (R_now _ _ _ R). auto.
      * rewrite (R_closed _ _ _ R). congruence.
      * rewrite F4. apply (R_corr _ _ _ R).
      * pose proof (R_h _ _ _ R). lia.
      * rewrite (R_cs _ _ _ R). auto.
      * lia.
      * apply reg_ids_rset.
      * apply uniq_rset. apply (R_uniq _ _ _ R).
      * congruence.
      * intros k' r' Hne. split; [apply rlookup_rset_other; auto|apply F7; auto].
      * intros _. rewrite rlookup_rset_same by congruence. cbn [pt rel_entry]. exact Hn.
  - (* LGone *) rewrite find_unknown in * by auto. cbn. rewrite Hqc, Ex. cbn. exists q. split; auto.
  - (* LAny *) exists q. split.
    + destruct (do_find c k r s) as [s' [[res cbs] cmds]] eqn:Ef. cbn [snd].
      assert (Hcm : cmds = [] /\ fine res).
      { pose proof (step_cmds c s (Find k r)) as H1. pose proof (step_total c s (Find k r)) as H2. cbn [step] in H1, H2. rewrite Ef in H1, H2. cbn in H1, H2.
        destruct H1 as [_ [[-> _]|(ty & args & -> & Hn)]]; [auto|]. exfalso. cbn in F4, Hn. lia. }
      destruct Hcm as [-> Hfine]. cbn [c09_step]. rewrite Hqc, Ex. destruct res; cbn in Hfine; try tauto; reflexivity.
    + apply (rel_frame c0 q s q (fst (do_find c k r s)) k r R).
      * exact F1.
      * rewrite (R_now _ _ _ R). auto.
      * rewrite (R_closed _ _ _ R). congruence.
      * rewrite F4. apply (R_corr _ _ _ R).
      * pose proof (R_h _ _ _ R). lia.
      * rewrite (R_cs _ _ _ R). auto.
      * lia.
      * reflexivity.
      * apply (R_uniq _ _ _ R).
      * congruence.
      * intros k' r' Hne. split; [reflexivity|apply F7; auto].
      * intros _. rewrite Ex. cbn [pt rel_entry].
        (* whatever the lookup did to an unspecified registration, it did not make it Awaiting again *)
        destruct (lookup r (getm k (fst (do_find c k r s)))) as [e'|] eqn:He'; auto.
        destruct (do_find_status c k r s e' He') as (e & He & Hst). rewrite He in P. congruence. Qed.

(* ---- drop ---- *)
Definition drop_framed (k : kind) (r : Z) (s s' : st) : Prop :=
  client_id s' = client_id s /\ now s' = now s /\ closed s' = closed s /\ close_sent s' = close_sent s /\ next_h s' = next_h s /\
  (forall k' r', k' <> k \/ r' <> r -> lookup r' (getm k' s') = lookup r' (getm k' s)) /\
  (lookup r (getm k s') = None \/ lookup r (getm k s') = lookup r (getm k s) \/
   exists e', lookup r (getm k s') = Some e' /\ e_status e' = Dropped).

Lemma do_release_framed k r imgs s : drop_framed k r s (fst (do_release k r imgs s)).
Proof. unfold do_release. destruct (lookup r (getm k s)) as [e0|] eqn:E; [|unfold drop_framed; repeat split; auto].
  assert (Hrem : drop_framed k r s (setm k (remove r (getm k (set_next_corr (next_corr s + 1) s))) (set_next_corr (next_corr s + 1) s))).
  { unfold drop_framed. rewrite setm_client_id, setm_now, setm_closed, setm_close_sent, setm_next_h. repeat split; auto.
    + intros k' r' Hne. rewrite getm_setm. destruct (kind_eqb k' k) eqn:Ek; rewrite getm_set_next_corr; auto.
      apply kind_eqb_eq in Ek. subst. apply lookup_remove_other. destruct Hne; congruence.
    + left. rewrite getm_setm_same. apply lookup_remove_same. }
  assert (Hupd : drop_framed k r s (setm k (upd r (fun e => set_obj None (set_status Dropped e)) (getm k (set_next_corr (next_corr s + 1) s))) (set_next_corr (next_corr s + 1) s))).
  { unfold drop_framed. rewrite setm_client_id, setm_now, setm_closed, setm_close_sent, setm_next_h. repeat split; auto.
    + intros k' r' Hne. rewrite getm_setm. destruct (kind_eqb k' k) eqn:Ek; rewrite getm_set_next_corr; auto.
      apply kind_eqb_eq in Ek. subst. apply lookup_upd_other. destruct Hne; congruence.
    + right. right. rewrite getm_setm_same, getm_set_next_corr, lookup_upd_same, E. cbn. eauto. }
  destruct (ring_full s); [destruct k|]; cbn [fst]; try exact Hrem; exact Hupd. Qed.

Lemma drop_framed_refl k r s : drop_framed k r s s.
Proof. unfold drop_framed. repeat split; auto. Qed.

Lemma do_drop_framed k r s : drop_framed k r s (fst (do_drop k r s)).
Proof. rewrite do_drop_eq.
  assert (Hd : forall o, drop_framed k r s (fst (dtor_user k r o s))).
  { intros o. unfold dtor_user. destruct k; try apply do_release_framed; destruct (o_closed o); try apply drop_framed_refl; apply do_release_framed. }
  assert (Hx : forall o, drop_framed k r s (set_orphans (remove_orphan k r (orphans (fst (dtor_user k r o s)))) (fst (dtor_user k r o s)))).
  { intros o. specialize (Hd o). unfold drop_framed in *. cbn [client_id now closed close_sent next_h set_orphans].
    destruct Hd as (A & B & C & D & E & F & G). repeat split; auto. }
  destruct k; try apply drop_framed_refl; destruct (user_obj _ r s); try apply drop_framed_refl; apply Hx. Qed.

(* dropping when the registration has no handle in the user's hands: nothing happens, or - the handle was closed and its
   registration forgotten by the conductor (channel endpoint error) - the closed handle goes away without a command *)
Lemma find_orphan_in' k r l o : find_orphan k r l = Some o -> In (k, r, o) l.
Proof. induction l as [|[[k' r'] o'] l IH]; cbn; [discriminate|].
  destruct (kind_eqb k' k && (r' =? r)) eqn:E.
  - intros H. inversion H; subst. left. apply andb_prop in E. destruct E as [E1 E2]. apply kind_eqb_eq in E1. subst.
    f_equal. f_equal. lia.
  - intros H. right. auto. Qed.

Lemma do_drop_nouser k r s :
  inv s -> closed s = false ->
  (match lookup r (getm k s) with Some e => match e_obj e with Some o => o_user o = false | None => True end | None => True end) ->
  do_drop k r s = (s, (Ok [0], [], [])) \/ exists l cbs, do_drop k r s = (set_orphans l s, (Ok [1], cbs, [])).
Proof. intros I Hc H. rewrite do_drop_eq. destruct (kind_eqb k KDest) eqn:Ekd.
  { apply kind_eqb_eq in Ekd. subst. left. reflexivity. }
  apply kind_eqb_neq in Ekd.
  assert (Hu : user_obj k r s = find_orphan k r (orphans s)).
  { unfold user_obj. destruct (lookup r (getm k s)) as [e|]; [|reflexivity]. destruct (e_obj e) as [o|]; [|reflexivity]. rewrite H. reflexivity. }
  rewrite Hu. destruct (find_orphan k r (orphans s)) as [o|] eqn:Eo; [|left; destruct k; reflexivity].
  right. apply find_orphan_in' in Eo. destruct (inv_orphan s k r o I Eo) as [Hl _].
  destruct I as (_ & _ & _ & _ & I5). rewrite Forall_forall in I5. destruct (I5 _ Eo) as [Hcl _]. cbn [snd] in Hcl.
  assert (Hrel : do_release k r [] s = (s, (inactive_cb s, []))) by (unfold do_release; rewrite Hl; reflexivity).
  destruct k; try congruence; unfold dtor_user; rewrite ?Hcl, ?Hrel; cbn [fst snd]; eauto. Qed.

Lemma rel_set_orphans c0 q s l : Rel c0 q s -> Rel c0 q (set_orphans l s).
Proof. intros R. destruct R. constructor; auto. Qed.

Lemma do_drop_none k r s : user_obj k r s = None -> do_drop k r s = (s, (Ok [0], [], [])).
Proof. intros H. rewrite do_drop_eq, H. destruct k; reflexivity. Qed.

Lemma do_drop_closed k r s : inv s -> closed s = true ->
  snd (snd (do_drop k r s)) = [] /\ next_corr (fst (do_drop k r s)) = next_corr s /\ fine (fst (fst (snd (do_drop k r s)))).
Proof. intros I Hc. pose proof (step_total (mkCfg 0 0) s (DropHandle k r)) as Ht. cbn [step] in Ht.
  split; [|split; [|exact Ht]]; rewrite do_drop_eq; destruct k; try reflexivity; destruct (user_obj _ r s) as [o|]; try reflexivity; cbn [fst snd];
  destruct I as (_ & _ & I3 & _);
  unfold dtor_user; try destruct (o_closed o); try reflexivity; unfold do_release;
  match goal with |- context [lookup r (getm ?kk s)] => rewrite (I3 Hc kk) by congruence end; reflexivity. Qed.

Lemma fold_max_nil a : fold_left Z.max (@nil Z) a = a. Proof. reflexivity. Qed.

Lemma sim_drop c0 tdrv q s k r :
  inv s -> Rel c0 q s ->
  exists q', c09_step c0 tdrv (ring_full s) q (DropHandle k r) (snd (do_drop k r s)) = Next q' /\ Rel c0 q' (fst (do_drop k r s)).
Proof. intros I R. pose proof (do_drop_framed k r s) as (F1 & F2 & F3 & F4 & F5 & F6 & F7).
  destruct (closed s) eqn:Ecl.
  { destruct (do_drop_closed k r s I Ecl) as (Hcm & Hn & Hfine).
    destruct (do_drop k r s) as [s' [[res cbs] cmds]] eqn:Ed. cbn [fst snd] in *. subst cmds.
    assert (Hqc : q_closed q = true) by (rewrite (R_closed _ _ _ R); exact Ecl).
    cbn [c09_step]. rewrite Hqc. cbn [map fold_left].
    assert (Hrel : forall l, reg_ids l = reg_ids (q_regs q) -> uniq l -> Rel c0 (set_regs l (set_qmax (q_max q) q)) s').
    { intros l Hl Hu. destruct R. constructor; cbn [set_regs set_qmax q_now q_closed q_regs q_max q_hmax q_close_sent].
      - congruence.
      - congruence.
      - congruence.
      - congruence.
      - lia.
      - congruence.
      - rewrite Hl. exact R_ids0.
      - exact Hu.
      - intros Hc'. congruence. }
    destruct res; cbn in Hfine; try tauto;
      (destruct (rlookup k r (q_regs q)) as [[| [h|] | | |]|]; eexists; (split; [reflexivity|]);
       try (apply (Hrel (q_regs q)); [reflexivity|apply (R_uniq _ _ _ R)]);
       apply Hrel; [apply reg_ids_rset|apply uniq_rset; apply (R_uniq _ _ _ R)]). }
  assert (Hqc : q_closed q = false) by (rewrite (R_closed _ _ _ R); exact Ecl).
  pose proof (R_pt _ _ _ R Ecl k r) as P.
  (* an unspecified registration: whatever the destructor does is accepted, the ids stay in step *)
  assert (Hany : rlookup k r (q_regs q) = Some LAny ->
                 exists q', c09_step c0 tdrv (ring_full s) q (DropHandle k r) (snd (do_drop k r s)) = Next q' /\ Rel c0 q' (fst (do_drop k r s))).
  { intros Ex. pose proof (step_cmds (mkCfg 0 0) s (DropHandle k r)) as Hcm. pose proof (step_total (mkCfg 0 0) s (DropHandle k r)) as Hfine.
    cbn [step] in Hcm, Hfine. destruct (do_drop k r s) as [s' [[res cbs] cmds]] eqn:Ed. cbn [fst snd] in *.
    destruct Hcm as [_ Hcm].
    assert (Hq : exists m, fold_left Z.max (map cmd_corr cmds) (q_max q) = m /\ m < next_corr s' /\ q_max q <= m).
    { pose proof (R_corr _ _ _ R) as Hc. destruct Hcm as [[-> Hn]|(ty & args & -> & Hn)]; cbn [map fold_left cmd_corr].
      - exists (q_max q). repeat split; lia.
      - exists (next_corr s). repeat split; lia. }
    destruct Hq as (m & Hm & Hnc & Hle).
    eexists. split.
    - cbn [c09_step]. rewrite Hqc, Ex. destruct res; cbn in Hfine; try tauto; reflexivity.
    - rewrite Hm. apply (rel_frame c0 q s _ s' k r R); cbn [set_qmax set_regs q_now q_closed q_regs q_max q_hmax q_close_sent].
      + exact F1.
      + rewrite (R_now _ _ _ R). auto.
      + rewrite (R_closed _ _ _ R). congruence.
      + exact Hnc.
      + pose proof (R_h _ _ _ R). lia.
      + rewrite (R_cs _ _ _ R). auto.
      + exact Hle.
      + apply reg_ids_rset.
      + apply uniq_rset. apply (R_uniq _ _ _ R).
      + congruence.
      + intros k' r' Hne. split; [apply rlookup_rset_other; auto|apply F6; auto].
      + intros _. rewrite rlookup_rset_same by congruence. cbn [pt rel_entry]. rewrite Ex in P. cbn in P.
        destruct F7 as [F7|[F7|(e' & F7 & Hdr)]]; rewrite F7; auto. congruence. }
  assert (Hnone : (do_drop k r s = (s, (Ok [0], [], [])) \/ exists l cbs, do_drop k r s = (set_orphans l s, (Ok [1], cbs, []))) ->
                  exists q', c09_step c0 tdrv (ring_full s) q (DropHandle k r) (snd (do_drop k r s)) = Next q' /\ Rel c0 q' (fst (do_drop k r s))).
  { intros H. destruct (rlookup k r (q_regs q)) as [[| [h|] | | |]|] eqn:Ex; try (apply Hany; reflexivity);
      try (destruct H as [H|(l & cbs & H)]; rewrite H; cbn [fst snd c09_step]; rewrite Hqc, Ex; exists q;
           (split; [reflexivity|]); [exact R|apply rel_set_orphans; exact R]).
    (* LReady (Some h): the handle is held, so the drop does release it *)
    exfalso. cbn in P. destruct P as (Hk & e & o & He & Ho & Hu & Hh & _).
    assert (Hheld : held k r h s) by (exists o; unfold hobj; rewrite He; auto).
    destruct (ring_full s) eqn:Erf.
    - destruct (release_held_refused k r h s Hk I Hheld Erf) as (s' & cbs & Hd & Hnc & _). rewrite Hd in H.
      destruct H as [H|(l & cbs' & H)]; inversion H; subst; cbn in Hnc; lia.
    - destruct (release_held k r h s Hk I Hheld Erf) as (s' & cbs & Hd & _). rewrite Hd in H.
      destruct H as [H|(l & cbs' & H)]; inversion H. }
  assert (Huser : (match lookup r (getm k s) with Some e => match e_obj e with Some o => o_user o = false | None => True end | None => True end) ->
                  (do_drop k r s = (s, (Ok [0], [], [])) \/ exists l cbs, do_drop k r s = (set_orphans l s, (Ok [1], cbs, [])))).
  { intros H. apply do_drop_nouser; auto. }
  destruct (kind_eqb k KDest) eqn:Ekd.
  { apply kind_eqb_eq in Ekd. subst k. apply Hnone. left. reflexivity. }
  apply kind_eqb_neq in Ekd.
  destruct (rlookup k r (q_regs q)) as [x|] eqn:Ex; cbn [pt] in P.
  2:{ apply Hnone, Huser. rewrite P. exact Logic.I. }
  destruct x as [t0 a1 a2|[h|] d1 d2 d3|code| |]; cbn [rel_entry] in P.
  - destruct P as (e & He & _ & Ho & _). apply Hnone, Huser. rewrite He, Ho. exact Logic.I.
  - (* held *) destruct P as (Hk & e & o & He & Ho & Hu & Hh & _).
    assert (Hheld : held k r h s) by (exists o; unfold hobj; rewrite He; auto).
    destruct (ring_full s) eqn:Erf.
    { (* the Remove command is refused *)
      destruct (release_held_refused k r h s Hk I Hheld Erf) as (s' & cbs & Hd & Hnc & Hfr & Hent). rewrite Hd in *. cbn [fst snd] in *.
      eexists. split; [cbn [c09_step]; rewrite Hqc, Ex; reflexivity|].
      apply (rel_frame c0 q s _ s' k r R); cbn [set_qmax set_regs q_now q_closed q_regs q_max q_hmax q_close_sent].
      * exact F1.
      * rewrite (R_now _ _ _ R). auto.
      * rewrite (R_closed _ _ _ R). congruence.
      * pose proof (R_corr _ _ _ R). lia.
      * pose proof (R_h _ _ _ R). lia.
      * rewrite (R_cs _ _ _ R). auto.
      * lia.
      * apply reg_ids_rset.
      * apply uniq_rset. apply (R_uniq _ _ _ R).
      * congruence.
      * intros k' r' Hne. split; [apply rlookup_rset_other; auto|apply Hfr; auto].
      * intros _. rewrite rlookup_rset_same by congruence. destruct k; try congruence; cbn [pt rel_entry]; try exact Hent;
          destruct Hent as (e' & -> & Hst & _); congruence. }
    destruct (release_held k r h s Hk I Hheld Erf) as (s' & cbs & Hd & Hn & Hnc & Hfr). rewrite Hd in *. cbn [fst snd] in *.
    eexists. split.
    + cbn [c09_step]. rewrite Hqc, Ex. rewrite (R_client _ _ _ R). rewrite !Z.eqb_refl.
      replace (q_max q <? next_corr s) with true by (pose proof (R_corr _ _ _ R); lia). cbn [andb]. reflexivity.
    + apply (rel_frame c0 q s _ s' k r R); cbn [set_qmax set_regs q_now q_closed q_regs q_max q_hmax q_close_sent].
      * exact F1.
      * rewrite (R_now _ _ _ R). auto.
      * rewrite (R_closed _ _ _ R). congruence.
      * lia.
      * pose proof (R_h _ _ _ R). lia.
      * rewrite (R_cs _ _ _ R). auto.
      * pose proof (R_corr _ _ _ R). lia.
      * apply reg_ids_rset.
      * apply uniq_rset. apply (R_uniq _ _ _ R).
      * congruence.
      * intros k' r' Hne. split; [apply rlookup_rset_other; auto|apply Hfr; auto].
      * intros _. rewrite rlookup_rset_same by congruence. exact Hn.
  - destruct P as (e & He & P). apply Hnone, Huser. rewrite He.
    destruct k; try congruence; try (destruct P as (_ & Ho & _); rewrite Ho; exact Logic.I); destruct P as (o & Ho & Hu & _); rewrite Ho; exact Hu.
  - destruct P as (e & He & _ & _ & Ho). apply Hnone, Huser. rewrite He, Ho. exact Logic.I.
  - apply Hnone, Huser. rewrite P. exact Logic.I.
  - apply Hany. reflexivity.
Qed.

(* ---- peek, close, clock ---- *)
Lemma sim_peek c0 tdrv full q s k r :
  inv s -> Rel c0 q s ->
  exists q', c09_step c0 tdrv full q (Peek k r) (snd (do_peek k r s)) = Next q' /\ Rel c0 q' (fst (do_peek k r s)).
Proof. intros I R. rewrite do_peek_state. exists q. split; [|exact R].
  unfold do_peek. destruct (closed s) eqn:Ecl.
  { assert (Hqc : q_closed q = true) by (rewrite (R_closed _ _ _ R); exact Ecl).
    destruct (user_obj k r s); cbn [snd c09_step]; rewrite Hqc; reflexivity. }
  assert (Hqc : q_closed q = false) by (rewrite (R_closed _ _ _ R); exact Ecl).
  pose proof (R_pt _ _ _ R Ecl k r) as P.
  destruct (rlookup k r (q_regs q)) as [[| [h|] | | |]|] eqn:Ex;
    try (destruct (user_obj k r s); cbn [snd c09_step]; rewrite Hqc, Ex; reflexivity).
  cbn in P. destruct P as (Hk & e & o & He & Ho & Hu & Hh & H1 & H2 & H3).
  unfold user_obj. rewrite He, Ho, Hu. cbn [snd c09_step]. rewrite Hqc, Ex, Hh, H1, H2, H3, !Z.eqb_refl. reflexivity. Qed.

Lemma sim_close c0 tdrv q s :
  inv s -> Rel c0 q s ->
  exists q', c09_step c0 tdrv (ring_full s) q Close (snd (do_close s)) = Next q' /\ Rel c0 q' (fst (do_close s)).
Proof. intros I R. unfold do_close.
  pose proof (close_all_scalars s) as Hsc. pose proof (close_all_closed s) as Hcl. pose proof (close_all_no_hang s) as Hh.
  pose proof (close_all_ring s) as Hrf.
  destruct (close_all s) as [[s1 cbs] hang]. cbn [fst snd] in *. subst hang.
  destruct Hsc as (S1 & S2 & S3 & S4 & S5 & S6 & _).
  destruct R. destruct (close_sent s1) eqn:Ecs; cbn [fst snd c09_step].
  - replace (q_close_sent q) with true by congruence. eexists. split; [reflexivity|].
    constructor; cbn [set_qclosed q_now q_closed q_regs q_max q_hmax q_close_sent]; try congruence; try lia; auto.
  - replace (q_close_sent q) with false by congruence. rewrite Hrf. destruct (ring_full s).
    + eexists. split; [reflexivity|].
      constructor; cbn [q_now q_closed q_regs q_max q_hmax q_close_sent]; cbn; try congruence; try lia; auto.
    + rewrite S2, R_client0, !Z.eqb_refl.
      replace (q_max q <? next_corr s1) with true by lia. cbn [andb]. eexists. split; [reflexivity|].
      constructor; cbn [q_now q_closed q_regs q_max q_hmax q_close_sent]; cbn; try congruence; try lia; auto.
      eapply Forall_impl; [|exact R_ids0]. cbn. intros. lia. Qed.

Lemma sim_tick c0 q s d : Rel c0 q s -> Rel c0 (mkO (q_now q + d) (q_closed q) (q_regs q) (q_max q) (q_hmax q) (q_close_sent q)) (set_now (now s + d) s).
Proof. intros R. destruct R. constructor; cbn; auto; try congruence. Qed.

(* ---- the relation without the closed flag ---- *)
Record RelC (c0 : Z) (q : ost) (s : st) : Prop := mkRelC {
  C_client : client_id s = c0;
  C_now : q_now q = now s;
  C_corr : q_max q < next_corr s;
  C_h : q_hmax q <= next_h s;
  C_cs : q_close_sent q = close_sent s;
  C_ids : Forall (fun r => r <= q_max q) (reg_ids (q_regs q));
  C_uniq : uniq (q_regs q);
  C_pt : closed s = false -> forall k r, pt k (rlookup k r (q_regs q)) (lookup r (getm k s))
}.

Lemma rel_to_c c0 q s : Rel c0 q s -> RelC c0 q s.
Proof. intros R. destruct R. constructor; auto. Qed.
Lemma c_to_rel c0 q s : RelC c0 q s -> q_closed q = closed s -> Rel c0 q s.
Proof. intros R H. destruct R. constructor; auto. Qed.
Lemma relc_qclosed c0 q s b : RelC c0 q s -> RelC c0 (set_qclosed b q) s.
Proof. intros R. destruct R. constructor; auto. Qed.

Lemma relc_closed_state c0 q s s' :
  RelC c0 q s -> closed s' = true -> client_id s' = client_id s -> now s' = now s -> next_corr s' = next_corr s ->
  next_h s <= next_h s' -> close_sent s' = close_sent s -> RelC c0 q s'.
Proof. intros R H1 H2 H3 H4 H5 H6. destruct R. constructor; auto; try congruence; try lia. Qed.

Lemma relc_same_maps c0 q s s' :
  RelC c0 q s -> client_id s' = client_id s -> now s' = now s -> next_corr s' = next_corr s ->
  next_h s <= next_h s' -> close_sent s' = close_sent s -> (closed s' = false -> closed s = false) ->
  (closed s' = false -> forall k r, lookup r (getm k s') = lookup r (getm k s)) -> RelC c0 q s'.
Proof. intros R H2 H3 H4 H5 H6 H7 H8. destruct R. constructor; auto; try congruence; try lia.
  intros Hc k r. rewrite H8 by auto. apply C_pt0. auto. Qed.

(* updating the entry (k, r): the automaton's registration (k, r) may change too, everything else is untouched *)
Lemma relc_frame c0 q s regs' s' k r :
  RelC c0 q s ->
  client_id s' = client_id s -> now s' = now s -> next_corr s' = next_corr s -> next_h s <= next_h s' -> close_sent s' = close_sent s ->
  reg_ids regs' = reg_ids (q_regs q) -> uniq regs' -> (closed s' = false -> closed s = false) ->
  (forall k' r', k' <> k \/ r' <> r -> rlookup k' r' regs' = rlookup k' r' (q_regs q) /\ lookup r' (getm k' s') = lookup r' (getm k' s)) ->
  (closed s' = false -> pt k (rlookup k r regs') (lookup r (getm k s'))) ->
  RelC c0 (set_regs regs' q) s'.
Proof. intros R H1 H2 H3 H4 H5 H6 H7 H8 H9 H10. destruct R.
  constructor; cbn [set_regs q_now q_closed q_regs q_max q_hmax q_close_sent]; auto; try congruence; try lia.
  intros Hc k' r'. destruct (kind_eqb k' k) eqn:E; [destruct (Z.eq_dec r' r)|].
  - apply kind_eqb_eq in E. subst. auto.
  - destruct (H9 k' r') as [A B]; auto. rewrite A, B. apply C_pt0. auto.
  - apply kind_eqb_neq in E. destruct (H9 k' r') as [A B]; auto. rewrite A, B. apply C_pt0. auto. Qed.

(* ---- driver events ---- *)
Definition new_cbs (cbs : list cb) : list cb := filter is_new_cb cbs.
Definition aw (oe : option entry) : bool := match oe with Some e => is_awaiting e | None => false end.
Definition is_lawait (ox : option life) : bool := match ox with Some (LAwait _ _ _) => true | _ => false end.

Lemma not_awaiting_obj e o : entry_ok e -> e_obj e = Some o -> is_awaiting e = false.
Proof. intros [A _] H. unfold is_awaiting. destruct (e_status e) eqn:E; auto. rewrite A in H by auto. discriminate. Qed.

Lemma pt_awaiting k ox oe : (forall e, oe = Some e -> entry_ok e) -> pt k ox oe -> aw oe = is_lawait ox.
Proof. intros Hok P. destruct ox as [[t a1 a2|[h|] d1 d2 d3|code| |]|]; cbn in *.
  - destruct P as (e & -> & Hs & _). cbn. unfold is_awaiting. rewrite Hs. reflexivity.
  - destruct P as (_ & e & o & -> & Ho & _). cbn. eapply not_awaiting_obj; eauto.
  - destruct P as (e & -> & P). cbn. destruct k.
    + destruct P as (Hs & _). unfold is_awaiting. rewrite Hs. reflexivity.
    + destruct P as (Hs & _). unfold is_awaiting. rewrite Hs. reflexivity.
    + destruct P as (o & Ho & _). eapply not_awaiting_obj; eauto.
    + destruct P as (o & Ho & _). eapply not_awaiting_obj; eauto.
    + unfold is_awaiting. rewrite P. reflexivity.
  - destruct P as (e & -> & Hs & _). cbn. unfold is_awaiting. rewrite Hs. reflexivity.
  - subst. reflexivity.
  - destruct oe as [e|]; cbn; auto. unfold is_awaiting. destruct (e_status e); congruence.
  - subst. reflexivity. Qed.

Lemma relc_set_same_regs c0 q s : RelC c0 q s -> RelC c0 (set_regs (q_regs q) q) s.
Proof. intros R. destruct R. constructor; auto. Qed.

Lemma inv_entry_ok s k r : inv s -> forall e, lookup r (getm k s) = Some e -> entry_ok e.
Proof. intros I e H. apply (inv_lookup s k r e I H). Qed.

Lemma sim_ready c0 q s k r d1 d2 d3 f :
  inv s -> RelC c0 q s -> closed s = false ->
  (forall e t a1 a2, lookup r (getm k s) = Some e -> rel_entry k (LAwait t a1 a2) (Some e) -> rel_entry k (LReady None d1 d2 d3) (Some (f e))) ->
  aw (lookup r (getm k s)) = is_lawait (rlookup k r (q_regs q)) /\
  RelC c0 (set_regs (if is_lawait (rlookup k r (q_regs q)) then rset k r (LReady None d1 d2 d3) (q_regs q) else q_regs q) q)
          (if aw (lookup r (getm k s)) then setm k (upd r f (getm k s)) s else s).
Proof. intros I R Hc Hf. pose proof (C_pt _ _ _ R Hc k r) as P.
  pose proof (pt_awaiting k _ _ (inv_entry_ok s k r I) P) as Ha. split; [exact Ha|]. rewrite Ha.
  destruct (rlookup k r (q_regs q)) as [[t a1 a2|[h|] ? ? ?|code| |]|] eqn:Ex; cbn [is_lawait]; try (apply relc_set_same_regs; exact R).
  cbn in P. destruct P as (e & He & P).
  apply (relc_frame c0 q s _ _ k r R); rewrite ?setm_client_id, ?setm_now, ?setm_next_corr, ?setm_next_h, ?setm_close_sent, ?setm_closed; auto; try lia.
  - apply reg_ids_rset.
  - apply uniq_rset. apply (C_uniq _ _ _ R).
  - intros k' r' Hne. split; [apply rlookup_rset_other; auto|].
    rewrite getm_setm. destruct (kind_eqb k' k) eqn:E; auto. apply kind_eqb_eq in E. subst. apply lookup_upd_other. destruct Hne; congruence.
  - intros _. rewrite rlookup_rset_same by congruence. rewrite getm_setm_same, lookup_upd_same, He. cbn [option_map pt].
    apply (Hf e t a1 a2 He). cbn. exists e. auto. Qed.

Lemma on_event_next_h ev s : next_h (fst (fst (on_event ev s))) = next_h s.
Proof. destruct ev; cbn [on_event]; repeat dmatch; cbn [fst]; rewrite ?setm_next_h; auto.
  - unfold on_error. repeat dmatch; rewrite ?setm_next_h; auto.
  - pose proof (close_all_scalars s) as X. rewrite Heqp in X. cbn in X. tauto. Qed.

(* updating an entry's object in a way the life-cycle does not see (images) *)
Lemma relc_upd_invisible c0 q s k r f e :
  RelC c0 q s -> lookup r (getm k s) = Some e -> (forall x, rel_entry k x (Some e) -> rel_entry k x (Some (f e))) ->
  RelC c0 q (setm k (upd r f (getm k s)) s).
Proof. intros R He Hf. destruct R. constructor; rewrite ?setm_client_id, ?setm_now, ?setm_next_corr, ?setm_next_h, ?setm_close_sent, ?setm_closed; auto.
  intros Hc k' r'. rewrite getm_setm. destruct (kind_eqb k' k) eqn:E; [|apply C_pt0; auto].
  apply kind_eqb_eq in E. subst. destruct (Z.eq_dec r' r) as [->|Hne].
  - rewrite lookup_upd_same, He. cbn. specialize (C_pt0 Hc k r). rewrite He in C_pt0.
    destruct (rlookup k r (q_regs q)); cbn in *; [apply Hf; exact C_pt0|discriminate].
  - rewrite lookup_upd_other by auto. apply C_pt0; auto. Qed.

Lemma rel_entry_images k x e o l :
  e_obj e = Some o -> rel_entry k x (Some e) -> rel_entry k x (Some (set_obj (Some (obj_images l o)) e)).
Proof. intros Ho H. destruct x as [t a1 a2|[h|] d1 d2 d3|code| |]; cbn in *.
  - destruct H as (e0 & H0 & _ & Hn & _). inversion H0; subst. congruence.
  - destruct H as (Hk & e0 & o0 & H0 & Ho0 & H). inversion H0; subst. rewrite Ho in Ho0. inversion Ho0; subst.
    split; auto. eexists. eexists. split; [reflexivity|]. cbn. tauto.
  - destruct H as (e0 & H0 & H). inversion H0; subst. eexists. split; [reflexivity|]. destruct k; cbn; try tauto.
    + destruct H as (_ & Hn & _). congruence.
    + destruct H as (_ & Hn & _). congruence.
    + destruct H as (o0 & Ho0 & H). rewrite Ho in Ho0. inversion Ho0; subst. eexists. split; [reflexivity|]. cbn. tauto.
    + destruct H as (o0 & Ho0 & H). rewrite Ho in Ho0. inversion Ho0; subst. eexists. split; [reflexivity|]. cbn. tauto.
  - destruct H as (e0 & H0 & _ & _ & Hn). inversion H0; subst. congruence.
  - discriminate.
  - exact H. Qed.

Lemma on_error_spec corr code s :
  (forall k1 k2, lookup corr (getm k1 s) <> None -> lookup corr (getm k2 s) <> None -> k1 = k2) ->
  forall k, lookup corr (getm k (on_error corr code s)) = option_map (set_error code) (lookup corr (getm k s)).
Proof. intros U k.
  assert (H : forall K e, lookup corr (getm K s) = Some e ->
            lookup corr (getm k (setm K (upd corr (set_error code) (getm K s)) s)) = option_map (set_error code) (lookup corr (getm k s))).
  { intros K e He. rewrite getm_setm. destruct (kind_eqb k K) eqn:E.
    - apply kind_eqb_eq in E. subst. apply lookup_upd_same.
    - destruct (lookup corr (getm k s)) eqn:E2; auto. exfalso. apply kind_eqb_neq in E. apply E. apply U; congruence. }
  unfold on_error.
  destruct (lookup corr (subs s)) eqn:E1. { apply (H KSub e E1). }
  destruct (lookup corr (pubs s)) eqn:E2. { apply (H KPub e E2). }
  destruct (lookup corr (xpubs s)) eqn:E3. { apply (H KXPub e E3). }
  destruct (lookup corr (ctrs s)) eqn:E4. { apply (H KCtr e E4). }
  destruct (lookup corr (dests s)) eqn:E5. { apply (H KDest e E5). }
  destruct k; cbn [getm]; rewrite ?E1, ?E2, ?E3, ?E4, ?E5; reflexivity. Qed.

Lemma on_error_scalars corr code s :
  client_id (on_error corr code s) = client_id s /\ now (on_error corr code s) = now s /\ next_corr (on_error corr code s) = next_corr s /\
  next_h (on_error corr code s) = next_h s /\ close_sent (on_error corr code s) = close_sent s /\ closed (on_error corr code s) = closed s.
Proof. unfold on_error. repeat dmatch; rewrite ?setm_client_id, ?setm_now, ?setm_next_corr, ?setm_next_h, ?setm_close_sent, ?setm_closed; tauto. Qed.

Lemma set_error_na code e : e_status (set_error code e) <> Awaiting.
Proof. unfold set_error. destruct (e_status e) eqn:E; cbn; congruence. Qed.

Lemma sim_error c0 q s corr code :
  inv s -> RelC c0 q s -> closed s = false -> RelC c0 (set_regs (rerror corr code (q_regs q)) q) (on_error corr code s).
Proof. intros I R Hc. destruct (on_error_scalars corr code s) as (S1 & S2 & S3 & S4 & S5 & S6).
  assert (U : forall k1 k2, lookup corr (getm k1 s) <> None -> lookup corr (getm k2 s) <> None -> k1 = k2).
  { intros k1 k2 H1 H2. apply (C_uniq _ _ _ R k1 k2 corr).
    - pose proof (C_pt _ _ _ R Hc k1 corr) as P. destruct (rlookup k1 corr (q_regs q)); [congruence|]. cbn in P. congruence.
    - pose proof (C_pt _ _ _ R Hc k2 corr) as P. destruct (rlookup k2 corr (q_regs q)); [congruence|]. cbn in P. congruence. }
  pose proof (on_error_spec corr code s U) as Hs.
  destruct R. constructor; cbn [set_regs q_now q_closed q_regs q_max q_hmax q_close_sent]; try congruence; try lia.
  - rewrite reg_ids_rerror. exact C_ids0.
  - apply uniq_rerror. exact C_uniq0.
  - intros _ k r. rewrite rlookup_rerror. destruct (r =? corr) eqn:E.
    + assert (r = corr) by lia. subst r. rewrite Hs. specialize (C_pt0 Hc k corr).
      destruct (rlookup k corr (q_regs q)) as [x|]; cbn [option_map pt] in *.
      * destruct x as [t a1 a2|[h|] d1 d2 d3|cd| |]; cbn [err_tr rel_entry] in *.
        -- destruct C_pt0 as (e & -> & Hst & Ho & _). cbn [option_map]. rewrite set_error_live by congruence.
           eexists. split; [reflexivity|]. cbn. auto.
        -- destruct C_pt0 as (_ & e & o & -> & _). cbn [option_map]. apply set_error_na.
        -- destruct C_pt0 as (e & -> & _). cbn [option_map]. apply set_error_na.
        -- destruct C_pt0 as (e & -> & _). cbn [option_map]. apply set_error_na.
        -- rewrite C_pt0. reflexivity.
        -- destruct (lookup corr (getm k s)); cbn [option_map]; auto. apply set_error_na.
      * rewrite C_pt0. reflexivity.
    + rewrite on_error_other by lia. apply C_pt0. auto. Qed.

(* ---- channel endpoint error ---- *)
Lemma rlookup_rchan k r x l : rlookup k r (rchan x l) = option_map (chan_tr k x) (rlookup k r l).
Proof. induction l as [|[[k2 r2] y] l IH]; cbn; auto.
  destruct (kind_eqb k2 k && (r2 =? r)) eqn:E; auto. cbn. apply andb_prop in E. destruct E as [E _]. apply kind_eqb_eq in E. subst. reflexivity. Qed.
Lemma reg_ids_rchan x l : reg_ids (rchan x l) = reg_ids l.
Proof. unfold reg_ids, rchan. rewrite map_map. apply map_ext. intros [[k2 r2] y]. reflexivity. Qed.
Lemma uniq_rchan x l : uniq l -> uniq (rchan x l).
Proof. intros U k1 k2 r H1 H2. rewrite rlookup_rchan in H1, H2. apply (U k1 k2 r).
  - destruct (rlookup k1 r l); [congruence|]. cbn in H1. congruence.
  - destruct (rlookup k2 r l); [congruence|]. cbn in H2. congruence. Qed.

Lemma lookup_on_chan_error k r x s : inv s ->
  lookup r (getm k (fst (fst (on_chan_error x s)))) =
  match k with
  | KSub | KPub | KXPub => match lookup r (getm k s) with Some e => if chan_removed k x (r, e) then None else Some e | None => None end
  | _ => lookup r (getm k s)
  end.
Proof. intros I. rewrite on_chan_error_state, getm_set_orphans, getm_chan_maps.
  destruct k; try reflexivity; apply lookup_chan_keep; apply (inv_map_ok s _ I). Qed.

Lemma chan_cbs_new k x m : new_cbs (chan_cbs k x m) = [].
Proof. unfold new_cbs. apply filter_none. intros c Hc. apply chan_cbs_shape in Hc. destruct Hc as [->|(r & i & ->)]; reflexivity. Qed.

Lemma sim_chan c0 q s x :
  inv s -> RelC c0 q s -> closed s = false ->
  RelC c0 (set_regs (rchan x (q_regs q)) q) (fst (fst (on_chan_error x s))) /\ new_cbs (snd (fst (on_chan_error x s))) = [].
Proof. intros I R Hc. split.
  2:{ unfold on_chan_error. cbn [fst snd]. unfold new_cbs. rewrite !filter_app. fold (new_cbs (chan_cbs KSub x (subs s))).
      fold (new_cbs (chan_cbs KPub x (pubs s))). fold (new_cbs (chan_cbs KXPub x (xpubs s))). rewrite !chan_cbs_new. reflexivity. }
  pose proof (fun k r => lookup_on_chan_error k r x s I) as Hl.
  destruct R. constructor; cbn [set_regs q_now q_closed q_regs q_max q_hmax q_close_sent]; auto.
  - rewrite reg_ids_rchan. exact C_ids0.
  - apply uniq_rchan. exact C_uniq0.
  - intros _ k r. rewrite rlookup_rchan, Hl. specialize (C_pt0 Hc k r).
    destruct (rlookup k r (q_regs q)) as [y|]; cbn [option_map pt] in *.
    2:{ rewrite C_pt0. destruct k; reflexivity. }
    destruct (lookup r (getm k s)) as [e|] eqn:He.
    2:{ destruct y as [t a1 a2|[h|] d1 d2 d3|cd| |]; cbn [rel_entry] in C_pt0;
        try (destruct C_pt0 as (e & He' & _); discriminate); try (destruct C_pt0 as (_ & e & o & He' & _); discriminate).
        - cbn [chan_tr]. destruct k; exact C_pt0.
        - cbn [chan_tr]. destruct k; exact Logic.I. }
    destruct (inv_lookup s k r e I He) as [_ [_ Hopen]].
    destruct y as [t a1 a2|[h|] d1 d2 d3|cd| |]; cbn [rel_entry chan_tr] in *.
    + (* Awaiting: no handle *) destruct C_pt0 as (e0 & H0 & Hst & Ho & Hrest). inversion H0; subst e0.
      assert (Hr : chan_removed k x (r, e) = false) by (unfold chan_removed, chan_hit; cbn [snd]; rewrite Ho; reflexivity).
      destruct k; rewrite ?Hr; exists e; auto.
    + (* held *) destruct C_pt0 as (Hk & e0 & o & H0 & Ho & Hu & Hh & H1 & H2 & H3). inversion H0; subst e0.
      specialize (Hopen o Ho).
      assert (Hr : chan_removed k x (r, e) = (chan_id k o =? wrap32 x)).
      { unfold chan_removed, chan_hit. cbn [snd]. rewrite Ho. destruct (chan_id k o =? wrap32 x); [|reflexivity]. rewrite Hopen. destruct k; reflexivity. }
      destruct k; try congruence; rewrite ?Hr; cbn [chan_id]; rewrite ?H1, ?H2;
        try match goal with |- context [?a =? ?b] => destruct (a =? b) end; cbn [pt rel_entry]; auto;
        (split; [congruence|]); exists e, o; auto 10.
    + (* ready, no handle in the user's hands *) destruct C_pt0 as (e0 & H0 & P). inversion H0; subst e0.
      destruct k.
      * destruct P as (Hst & Ho & P). assert (Hr : chan_removed KPub x (r, e) = false) by (unfold chan_removed, chan_hit; cbn [snd]; rewrite Ho; reflexivity).
        rewrite Hr. exists e. auto.
      * destruct P as (Hst & Ho & P). assert (Hr : chan_removed KXPub x (r, e) = false) by (unfold chan_removed, chan_hit; cbn [snd]; rewrite Ho; reflexivity).
        rewrite Hr. exists e. auto.
      * destruct P as (o & Ho & Hu & H1 & H2 & H3). specialize (Hopen o Ho).
        assert (Hr : chan_removed KSub x (r, e) = (d1 =? wrap32 x)).
        { unfold chan_removed, chan_hit. cbn [snd chan_id]. rewrite Ho, H1. destruct (d1 =? wrap32 x); [|reflexivity]. rewrite Hopen. reflexivity. }
        rewrite Hr. destruct (d1 =? wrap32 x); cbn [pt rel_entry]; auto. exists e. split; auto. exists o. auto.
      * exists e. split; auto.
      * exists e. split; auto.
    + (* errored: no handle *) destruct C_pt0 as (e0 & H0 & Hst & Hcd & Ho). inversion H0; subst e0.
      assert (Hr : chan_removed k x (r, e) = false) by (unfold chan_removed, chan_hit; cbn [snd]; rewrite Ho; reflexivity).
      destruct k; rewrite ?Hr; exists e; auto.
    + discriminate.
    + destruct k; try exact C_pt0; destruct (chan_removed _ x (r, e)); auto. Qed.

Lemma sim_event c0 q s ev :
  inv s -> RelC c0 q s -> closed s = false ->
  RelC c0 (set_regs (fst (ready_step ev q)) q) (fst (fst (on_event ev s))) /\
  new_cbs (snd (fst (on_event ev s))) = match snd (ready_step ev q) with Some c => [c] | None => [] end.
Proof. intros I R Hc. destruct ev; cbn [on_event ready_step].
  - (* EvPubReady *)
    pose proof (C_pt _ _ _ R Hc KPub corr) as P. cbn [getm] in P.
    destruct (lookup corr (pubs s)) as [e|] eqn:He.
    + destruct (sim_ready c0 q s KPub corr session chstat orig (set_ready session limit chstat orig (e_obj e)) I R Hc) as [Ha HR].
      { intros e0 t a1 a2 He0 Hrel. cbn [getm] in He0. rewrite He in He0. inversion He0; subst e0.
        cbn in Hrel. destruct Hrel as (e1 & H1 & _ & Ho & _). inversion H1; subst e1. cbn. eexists. split; [reflexivity|]. cbn. rewrite Ho. auto. }
      cbn [getm] in Ha, HR. rewrite He in Ha, HR. cbn [aw] in Ha, HR.
      destruct (rlookup KPub corr (q_regs q)) as [[t a1 a2|[h|] ? ? ?|code| |]|] eqn:Ex; cbn [is_lawait] in Ha, HR; rewrite Ha in *; cbn [fst snd];
        try (split; [exact HR|reflexivity]).
      cbn in P. destruct P as (e1 & H1 & _ & _ & _ & Ha1 & _). inversion H1; subst e1. rewrite Ha1. split; [exact HR|reflexivity].
    + destruct (rlookup KPub corr (q_regs q)) as [[t a1 a2|[h|] ? ? ?|code| |]|] eqn:Ex; cbn [fst snd]; try (split; [apply relc_set_same_regs; exact R|reflexivity]).
      cbn in P. destruct P as (e1 & H1 & _). discriminate.
  - (* EvXPubReady *)
    pose proof (C_pt _ _ _ R Hc KXPub id) as P. cbn [getm] in P.
    destruct (lookup id (xpubs s)) as [e|] eqn:He.
    + destruct (sim_ready c0 q s KXPub id session chstat 0 (set_ready session limit chstat (-1) (e_obj e)) I R Hc) as [Ha HR].
      { intros e0 t a1 a2 He0 Hrel. cbn [getm] in He0. rewrite He in He0. inversion He0; subst e0.
        cbn in Hrel. destruct Hrel as (e1 & H1 & _ & Ho & _). inversion H1; subst e1. cbn. eexists. split; [reflexivity|]. cbn. rewrite Ho. auto. }
      cbn [getm] in Ha, HR. rewrite He in Ha, HR. cbn [aw] in Ha, HR.
      destruct (rlookup KXPub id (q_regs q)) as [[t a1 a2|[h|] ? ? ?|code| |]|] eqn:Ex; cbn [is_lawait] in Ha, HR; rewrite Ha in *; cbn [fst snd];
        try (split; [exact HR|reflexivity]).
      cbn in P. destruct P as (e1 & H1 & _ & _ & _ & Ha1 & _). inversion H1; subst e1. rewrite Ha1. split; [exact HR|reflexivity].
    + destruct (rlookup KXPub id (q_regs q)) as [[t a1 a2|[h|] ? ? ?|code| |]|] eqn:Ex; cbn [fst snd]; try (split; [apply relc_set_same_regs; exact R|reflexivity]).
      cbn in P. destruct P as (e1 & H1 & _). discriminate.
  - (* EvSubReady *)
    pose proof (C_pt _ _ _ R Hc KSub corr) as P. cbn [getm] in P.
    destruct (lookup corr (subs s)) as [e|] eqn:He.
    + destruct (sim_ready c0 q s KSub corr chstat 0 0
                 (set_ready (e_d1 e) (e_d2 e) (e_d3 e) (e_d4 e) (Some (mkObj false (-1) false [] chstat 0 0))) I R Hc) as [Ha HR].
      { intros e0 t a1 a2 He0 Hrel. cbn. eexists. split; [reflexivity|]. cbn. eexists. split; [reflexivity|]. cbn. auto. }
      cbn [getm] in Ha, HR. rewrite He in Ha, HR. cbn [aw] in Ha, HR.
      destruct (rlookup KSub corr (q_regs q)) as [[t a1 a2|[h|] ? ? ?|code| |]|] eqn:Ex; cbn [is_lawait] in Ha, HR; rewrite Ha in *; cbn [fst snd];
        try (split; [exact HR|reflexivity]).
      cbn in P. destruct P as (e1 & H1 & _ & _ & _ & Ha1 & Ha2). inversion H1; subst e1. rewrite Ha1, Ha2. split; [exact HR|reflexivity].
    + destruct (rlookup KSub corr (q_regs q)) as [[t a1 a2|[h|] ? ? ?|code| |]|] eqn:Ex; cbn [fst snd]; try (split; [apply relc_set_same_regs; exact R|reflexivity]).
      cbn in P. destruct P as (e1 & H1 & _). discriminate.
  - (* EvOpSuccess *)
    pose proof (C_pt _ _ _ R Hc KDest corr) as P. cbn [getm] in P.
    destruct (lookup corr (dests s)) as [e|] eqn:He.
    + destruct (sim_ready c0 q s KDest corr 0 0 0 (set_status Registered) I R Hc) as [Ha HR].
      { intros e0 t a1 a2 He0 Hrel. cbn. eexists. split; [reflexivity|]. reflexivity. }
      cbn [getm] in Ha, HR. rewrite He in Ha, HR. cbn [aw] in Ha, HR.
      destruct (rlookup KDest corr (q_regs q)) as [[t a1 a2|[h|] ? ? ?|code| |]|] eqn:Ex; cbn [is_lawait] in Ha, HR; rewrite Ha in *; cbn [fst snd];
        split; try exact HR; reflexivity.
    + destruct (rlookup KDest corr (q_regs q)) as [[t a1 a2|[h|] ? ? ?|code| |]|] eqn:Ex; cbn [fst snd]; try (split; [apply relc_set_same_regs; exact R|reflexivity]).
      cbn in P. destruct P as (e1 & H1 & _). discriminate.
  - (* EvError *) cbn [fst snd]. split; [apply sim_error; auto|reflexivity].
  - (* EvAvailImage *) cbn [fst snd]. destruct (lookup subreg (subs s)) as [e|] eqn:He; [|split; [apply relc_set_same_regs; exact R|reflexivity]].
    destruct (e_obj e) as [o|] eqn:Eo; [|split; [apply relc_set_same_regs; exact R|reflexivity]]. cbn [fst snd]. split; [|reflexivity].
    apply relc_set_same_regs. apply (relc_upd_invisible c0 q s KSub subreg _ e R He). intros x Hx. apply rel_entry_images; auto.
  - (* EvUnavailImage *) cbn [fst snd]. destruct (lookup subreg (subs s)) as [e|] eqn:He; [|split; [apply relc_set_same_regs; exact R|reflexivity]].
    destruct (e_obj e) as [o|] eqn:Eo; [|split; [apply relc_set_same_regs; exact R|reflexivity]].
    destruct (remove_first corr (o_images o)); [|split; [apply relc_set_same_regs; exact R|reflexivity]]. cbn [fst snd]. split; [|reflexivity].
    apply relc_set_same_regs. apply (relc_upd_invisible c0 q s KSub subreg _ e R He). intros x Hx. apply rel_entry_images; auto.
  - (* EvCounterReady *)
    pose proof (C_pt _ _ _ R Hc KCtr corr) as P. cbn [getm] in P.
    destruct (lookup corr (ctrs s)) as [e|] eqn:He.
    + destruct (sim_ready c0 q s KCtr corr cid 0 0
                 (set_ready cid (e_d2 e) (e_d3 e) (e_d4 e) (Some (mkObj false (-1) false [] cid 0 0))) I R Hc) as [Ha HR].
      { intros e0 t a1 a2 He0 Hrel. cbn. eexists. split; [reflexivity|]. cbn. eexists. split; [reflexivity|]. cbn. auto. }
      cbn [getm] in Ha, HR. rewrite He in Ha, HR. cbn [aw] in Ha, HR.
      destruct (rlookup KCtr corr (q_regs q)) as [[t a1 a2|[h|] ? ? ?|code| |]|] eqn:Ex; cbn [is_lawait] in Ha, HR; rewrite Ha in *; cbn [fst snd];
        split; try exact HR; reflexivity.
    + destruct (rlookup KCtr corr (q_regs q)) as [[t a1 a2|[h|] ? ? ?|code| |]|] eqn:Ex; cbn [fst snd]; try (split; [apply relc_set_same_regs; exact R|reflexivity]).
      cbn in P. destruct P as (e1 & H1 & _). discriminate.
  - (* EvUnavailCounter *) cbn [fst snd]. split; [apply relc_set_same_regs; exact R|reflexivity].
  - (* EvClientTimeout *) cbn [fst snd]. rewrite Hc. cbn [negb]. rewrite Bool.andb_true_r.
    destruct (cid =? client_id s); [|cbn; split; [apply relc_set_same_regs; exact R|reflexivity]].
    pose proof (close_all_scalars s) as Hsc. pose proof (close_all_closed s) as Hcl.
    assert (Hn : new_cbs (snd (fst (close_all s))) = []).
    { unfold close_all. rewrite Hc. destruct (close_subs (subs s)) as [sl scbs] eqn:Es. destruct (close_ctrs (ctrs s)) as [cl ccbs] eqn:Ect. cbn [fst snd].
      unfold new_cbs. apply filter_none. intros x Hx. apply in_app_or in Hx. destruct Hx as [Hx|Hx].
      - pose proof (close_subs_cbs (subs s)) as Hs. rewrite Es in Hs. cbn in Hs. subst scbs. apply sub_cbs_shape in Hx. destruct Hx as (r' & i & ->). reflexivity.
      - apply in_app_or in Hx. destruct Hx as [Hx|[<-|[]]]; [|reflexivity].
        assert (Hcc : ccbs = snd (close_ctrs (ctrs s))) by (rewrite Ect; reflexivity). subst ccbs. apply ctr_cbs_shape in Hx. destruct Hx as (r' & i & ->). reflexivity. }
    destruct (close_all s) as [[s1 cbs] hang]. cbn [fst snd] in *. destruct Hsc as (S1 & S2 & S3 & _ & S5 & S6 & _). split.
    + apply relc_set_same_regs. apply (relc_closed_state c0 q s s1 R Hcl); auto; lia.
    + unfold new_cbs in *. rewrite filter_app, Hn. reflexivity.
  - (* EvChanError *) cbn [fst snd]. apply sim_chan; auto. Qed.

Lemma sim_event_closed c0 q s ev :
  inv s -> RelC c0 q s -> closed s = true ->
  RelC c0 q (fst (fst (on_event ev s))) /\ new_cbs (snd (fst (on_event ev s))) = [].
Proof. intros I R Hc. split.
  - apply (relc_closed_state c0 q s _ R).
    + apply on_event_closed_mono; auto.
    + apply on_event_ids.
    + apply on_event_timers.
    + apply on_event_ids.
    + rewrite on_event_next_h. lia.
    + apply on_event_cs.
  - destruct I as (_ & _ & I3 & _). specialize (I3 Hc).
    pose proof (I3 KPub ltac:(congruence)) as Ep. pose proof (I3 KXPub ltac:(congruence)) as Ex.
    pose proof (I3 KSub ltac:(congruence)) as Es. pose proof (I3 KCtr ltac:(congruence)) as Ec. cbn [getm] in *.
    destruct ev; cbn [on_event]; rewrite ?Ep, ?Ex, ?Es, ?Ec; cbn [lookup fst snd]; try reflexivity.
    + repeat dmatch; reflexivity.
    + rewrite Hc. rewrite Bool.andb_false_r. reflexivity.
    + unfold on_chan_error. cbn [fst snd]. rewrite Ep, Ex, Es. reflexivity.
Qed.

(* ---- the timer part of a duty cycle: registrations untouched unless it closes the client, no on_new_* callback ---- *)
Definition quiet (s s' : st) (cbs : list cb) : Prop :=
  client_id s' = client_id s /\ now s' = now s /\ next_corr s' = next_corr s /\ next_h s' = next_h s /\ close_sent s' = close_sent s /\
  (closed s = true -> closed s' = true) /\ (closed s' = false -> forall k, getm k s' = getm k s) /\ new_cbs cbs = [].

Lemma quiet_refl s : quiet s s [].
Proof. unfold quiet. repeat split; auto. Qed.

Lemma quiet_trans a b c l1 l2 : quiet a b l1 -> quiet b c l2 -> quiet a c (l1 ++ l2).
Proof. intros (A1 & A2 & A3 & A4 & A5 & A6 & A7 & A8) (B1 & B2 & B3 & B4 & B5 & B6 & B7 & B8). unfold quiet.
  repeat split; try congruence; auto.
  - intros Hc k. rewrite B7 by auto. apply A7. destruct (closed b) eqn:E; auto. rewrite B6 in Hc; auto.
  - unfold new_cbs in *. rewrite filter_app, A8, B8. reflexivity. Qed.

Lemma quiet_scalar s s' : (forall k, getm k s' = getm k s) -> client_id s' = client_id s -> now s' = now s -> next_corr s' = next_corr s ->
  next_h s' = next_h s -> close_sent s' = close_sent s -> closed s' = closed s -> quiet s s' [].
Proof. intros. unfold quiet. repeat split; auto; congruence. Qed.

Lemma close_all_new_cbs s : new_cbs (snd (fst (close_all s))) = [].
Proof. unfold close_all. destruct (closed s); [reflexivity|].
  destruct (close_subs (subs s)) as [sl scbs] eqn:Es. destruct (close_ctrs (ctrs s)) as [cl ccbs] eqn:Ect. cbn [fst snd].
  unfold new_cbs. apply filter_none. intros x Hx. apply in_app_or in Hx. destruct Hx as [Hx|Hx].
  - pose proof (close_subs_cbs (subs s)) as Hs. rewrite Es in Hs. cbn in Hs. subst scbs. apply sub_cbs_shape in Hx. destruct Hx as (r' & i & ->). reflexivity.
  - apply in_app_or in Hx. destruct Hx as [Hx|[<-|[]]]; [|reflexivity].
    assert (Hcc : ccbs = snd (close_ctrs (ctrs s))) by (rewrite Ect; reflexivity). subst ccbs. apply ctr_cbs_shape in Hx. destruct Hx as (r' & i & ->). reflexivity. Qed.

Lemma close_all_quiet s s1 cbs hang e : close_all s = (s1, cbs, hang) -> quiet s s1 (cbs ++ [CbErr e]).
Proof. intros H. pose proof (close_all_scalars s) as Hsc. pose proof (close_all_closed s) as Hcl. pose proof (close_all_new_cbs s) as Hn.
  rewrite H in *. cbn [fst snd] in *. destruct Hsc as (S1 & S2 & S3 & _ & S5 & S6 & _). unfold quiet. repeat split; auto.
  - intros Hc. congruence.
  - unfold new_cbs in *. rewrite filter_app, Hn. reflexivity. Qed.

Lemma hc_service_quiet c t s : quiet s (fst (fst (hc_service c t s))) (snd (fst (hc_service c t s))).
Proof. unfold hc_service. dmatch; [|apply quiet_refl]. destruct (close_all s) as [[s1 cbs] hang] eqn:E. cbn [fst snd]. eapply close_all_quiet; eauto. Qed.
Lemma hc_driver_quiet c t s : quiet s (fst (hc_driver c t s)) (snd (hc_driver c t s)).
Proof. unfold hc_driver. dmatch; [|apply quiet_refl]. cbn [fst snd]. unfold quiet. repeat split; auto. Qed.
Lemma hc_heartbeat_quiet s : quiet s (fst (fst (hc_heartbeat s))) (snd (fst (hc_heartbeat s))).
Proof. unfold hc_heartbeat. destruct (hb_bound s); destruct (hb_env s =? 1); try apply quiet_refl.
  - destruct (close_all s) as [[s1 cbs] hang] eqn:E. cbn [fst snd]. eapply close_all_quiet; eauto.
  - cbn [fst snd]. apply quiet_scalar; auto; try (intros k; destruct k; reflexivity). Qed.
Lemma hc_keepalive_quiet c t s : quiet s (fst (fst (fst (hc_keepalive c t s)))) (snd (fst (fst (hc_keepalive c t s)))).
Proof. unfold hc_keepalive. dmatch; [|apply quiet_refl].
  pose proof (hc_driver_quiet c t s) as H1. destruct (hc_driver c t s) as [s' cbs']. cbn [fst snd] in H1.
  pose proof (hc_heartbeat_quiet s') as H2. destruct (hc_heartbeat s') as [[s'' cbs''] hang'']. cbn [fst snd] in *.
  assert (H3 : quiet s'' (set_t_keep t s'') []) by (apply quiet_scalar; auto; try (intros k; destruct k; reflexivity)).
  pose proof (quiet_trans _ _ _ _ _ (quiet_trans _ _ _ _ _ H1 H2) H3) as H. rewrite app_nil_r in H. exact H. Qed.

Lemma heartbeat_check_quiet c s : quiet s (fst (fst (fst (heartbeat_check c s)))) (snd (fst (fst (heartbeat_check c s)))).
Proof. unfold heartbeat_check.
  pose proof (hc_service_quiet c (now s) s) as H1. destruct (hc_service c (now s) s) as [[s1 cbs1] hang1]. cbn [fst snd] in H1.
  assert (H2 : quiet s1 (set_t_work (now s) s1) []) by (apply quiet_scalar; auto; try (intros k; destruct k; reflexivity)).
  pose proof (hc_keepalive_quiet c (now s) (set_t_work (now s) s1)) as H3.
  destruct (hc_keepalive c (now s) (set_t_work (now s) s1)) as [[[s3 cbs3] hang3] r3]. cbn [fst snd] in H3.
  assert (H4 : quiet s3 (fst (hc_resources (now s) s3)) []).
  { unfold hc_resources. dmatch; [|apply quiet_refl]. cbn [fst]. apply quiet_scalar; auto; try (intros k; destruct k; reflexivity). }
  destruct (hc_resources (now s) s3) as [s4 r4]. cbn [fst snd] in *.
  pose proof (quiet_trans _ _ _ _ _ (quiet_trans _ _ _ _ _ (quiet_trans _ _ _ _ _ H1 H2) H3) H4) as H. rewrite !app_nil_r in H. exact H. Qed.

Lemma relc_quiet c0 q s s' cbs : RelC c0 q s -> quiet s s' cbs -> RelC c0 q s'.
Proof. intros R (A1 & A2 & A3 & A4 & A5 & A6 & A7 & _).
  assert (B1 : closed s' = false -> closed s = false).
  { intros Hc. destruct (closed s) eqn:E; auto. rewrite A6 in Hc; auto. }
  assert (B2 : closed s' = false -> forall k r, lookup r (getm k s') = lookup r (getm k s)).
  { intros Hc k r. rewrite A7; auto. }
  apply (relc_same_maps c0 q s s' R A1 A2 A3 ltac:(lia) A5 B1 B2). Qed.

(* ---- a duty cycle ---- *)
Lemma relc_ext c0 q q' s :
  RelC c0 q s -> q_now q' = q_now q -> q_regs q' = q_regs q -> q_max q' = q_max q -> q_hmax q' = q_hmax q ->
  q_close_sent q' = q_close_sent q -> RelC c0 q' s.
Proof. intros R H1 H2 H3 H4 H5. destruct R. constructor; rewrite ?H1, ?H2, ?H3, ?H4, ?H5; auto. Qed.

Lemma existsb_filter_nil {A} (f : A -> bool) l : filter f l = [] -> existsb f l = false.
Proof. induction l as [|a l IH]; cbn; auto. destruct (f a); [discriminate|auto]. Qed.

Lemma is_close_cb_eq c : is_close_cb c = is_close c. Proof. destruct c; reflexivity. Qed.

Lemma existsb_close cbs : existsb is_close_cb cbs = negb (Nat.eqb (n_close cbs) 0).
Proof. unfold n_close. induction cbs as [|a l IH]; cbn; auto. rewrite is_close_cb_eq. destruct (is_close a); cbn; auto. Qed.

Definition qc (cbs : list cb) (q : ost) : ost := if existsb is_close_cb cbs then set_qclosed true q else q.

Lemma qc_closed q s s' cbs :
  q_closed q = closed s -> n_close cbs = delta s s' -> (closed s = true -> closed s' = true) -> q_closed (qc cbs q) = closed s'.
Proof. intros H1 H2 H3. unfold qc. rewrite existsb_close, H2. unfold delta.
  destruct (closed s) eqn:E1; cbn.
  - rewrite H1. symmetry. auto.
  - destruct (closed s') eqn:E2; cbn; congruence. Qed.

Lemma qc_fields cbs q : q_now (qc cbs q) = q_now q /\ q_regs (qc cbs q) = q_regs q /\ q_max (qc cbs q) = q_max q /\
  q_hmax (qc cbs q) = q_hmax q /\ q_close_sent (qc cbs q) = q_close_sent q.
Proof. unfold qc. destruct (existsb is_close_cb cbs); cbn; auto. Qed.

Lemma cb_eqb_refl_new c : is_new_cb c = true -> cb_eqb c c = true.
Proof. destruct c; cbn; intros H; try discriminate; rewrite !Z.eqb_refl; reflexivity. Qed.

Lemma sim_dowork c0 tdrv full c q s b :
  inv s -> Rel c0 q s ->
  exists q', c09_step c0 tdrv full q (DoWork b) (snd (do_work c b s)) = Next q' /\ Rel c0 q' (fst (do_work c b s)).
Proof. intros I R.
  pose proof (step_close_count c s (DoWork b) I) as Hcount. pose proof (step_closed_mono c s (DoWork b) I) as Hmono. cbn [step] in Hcount, Hmono.
  destruct b.
  - (* nothing on the broadcast *)
    unfold do_work in *. pose proof (heartbeat_check_quiet c s) as Hq. pose proof (heartbeat_check_no_hang c s) as Hh.
    destruct (heartbeat_check c s) as [[[s2 cbs2] hang2] r]. cbn [fst snd] in *. subst hang2. cbn [fst snd app] in *.
    exists (qc cbs2 q). split.
    + cbn [c09_step]. destruct Hq as (_ & _ & _ & _ & _ & _ & _ & Hn). rewrite (existsb_filter_nil _ _ Hn). reflexivity.
    + apply c_to_rel.
      * destruct (qc_fields cbs2 q) as (A1 & A2 & A3 & A4 & A5). eapply relc_ext; [eapply relc_quiet; [apply rel_to_c; exact R|exact Hq]|..]; auto.
      * apply (qc_closed q s s2 cbs2 (R_closed _ _ _ R) Hcount Hmono).
  - (* lapped *) cbn. exists q. split; auto.
  - (* oversize *) cbn. exists q. split; auto.
  - (* an event *)
    unfold do_work in *.
    pose proof (on_event_inv e s I) as I1. pose proof (on_event_no_hang e s) as Hh1.
    destruct (closed s) eqn:Ecl.
    + (* closed client *)
      destruct (sim_event_closed c0 q s e I (rel_to_c _ _ _ R) Ecl) as [RC1 Hn1].
      destruct (on_event e s) as [[s1 cbs1] hang1]. cbn [fst snd] in *. subst hang1.
      pose proof (heartbeat_check_quiet c s1) as Hq. pose proof (heartbeat_check_no_hang c s1) as Hh.
      destruct (heartbeat_check c s1) as [[[s2 cbs2] hang2] r]. cbn [fst snd] in *. subst hang2. cbn [fst snd] in *.
      exists (qc (cbs1 ++ cbs2) q). split.
      * cbn [c09_step]. rewrite (R_closed _ _ _ R), Ecl.
        assert (Hn : new_cbs (cbs1 ++ cbs2) = []).
        { destruct Hq as (_ & _ & _ & _ & _ & _ & _ & Hn). unfold new_cbs in *. rewrite filter_app, Hn1, Hn. reflexivity. }
        rewrite (existsb_filter_nil _ _ Hn). reflexivity.
      * apply c_to_rel.
        -- destruct (qc_fields (cbs1 ++ cbs2) q) as (A1 & A2 & A3 & A4 & A5). eapply relc_ext; [eapply relc_quiet; [exact RC1|exact Hq]|..]; auto.
        -- apply (qc_closed q s s2 (cbs1 ++ cbs2) (R_closed _ _ _ R) Hcount). intros _. apply Hmono. reflexivity.
    + (* open client *)
      destruct (sim_event c0 q s e I (rel_to_c _ _ _ R) Ecl) as [RC1 Hn1].
      destruct (on_event e s) as [[s1 cbs1] hang1]. cbn [fst snd] in *. subst hang1.
      pose proof (heartbeat_check_quiet c s1) as Hq. pose proof (heartbeat_check_no_hang c s1) as Hh.
      destruct (heartbeat_check c s1) as [[[s2 cbs2] hang2] r]. cbn [fst snd] in *. subst hang2. cbn [fst snd] in *.
      assert (Hn : new_cbs (cbs1 ++ cbs2) = match snd (ready_step e q) with Some c' => [c'] | None => [] end).
      { destruct Hq as (_ & _ & _ & _ & _ & _ & _ & Hn). unfold new_cbs in *. rewrite filter_app, Hn1, Hn. apply app_nil_r. }
      destruct (ready_step e q) as [regs' oc] eqn:Ers. cbn [fst snd] in *.
      exists (set_regs regs' (qc (cbs1 ++ cbs2) q)). split.
      * cbn [c09_step]. rewrite (R_closed _ _ _ R), Ecl, Ers. fold (qc (cbs1 ++ cbs2) q).
        destruct oc as [c'|].
        -- assert (Hin : In c' (cbs1 ++ cbs2) /\ is_new_cb c' = true).
           { assert (Hx : In c' (new_cbs (cbs1 ++ cbs2))) by (rewrite Hn; left; reflexivity). unfold new_cbs in Hx. apply filter_In in Hx. exact Hx. }
           assert (He : existsb (cb_eqb c') (cbs1 ++ cbs2) = true).
           { apply existsb_exists. exists c'. split; [tauto|]. apply cb_eqb_refl_new. tauto. }
           rewrite He. unfold new_cbs in Hn. rewrite Hn. reflexivity.
        -- rewrite (existsb_filter_nil _ _ Hn). reflexivity.
      * apply c_to_rel.
        -- destruct (qc_fields (cbs1 ++ cbs2) q) as (A1 & A2 & A3 & A4 & A5).
           eapply relc_ext; [eapply relc_quiet; [exact RC1|exact Hq]|..]; cbn [set_regs q_now q_regs q_max q_hmax q_close_sent]; auto.
        -- cbn [set_regs q_closed]. apply (qc_closed q s s2 (cbs1 ++ cbs2) (R_closed _ _ _ R) Hcount). intros Hx. congruence. Qed.

(* ---- every operation, every history ---- *)
Lemma sim_step c0 tdrv tis q s o :
  inv s -> Rel c0 q s ->
  exists q', c09_step c0 tdrv (ring_full s) q o (snd (step (mkCfg tdrv tis) s o)) = Next q' /\ Rel c0 q' (fst (step (mkCfg tdrv tis) s o)).
Proof. intros I R. destruct o; cbn [step].
  - apply (sim_add c0 tdrv (mkCfg tdrv tis)); auto.
  - apply (sim_find c0 tdrv (ring_full s) (mkCfg tdrv tis)); auto.
  - apply sim_drop; auto.
  - apply sim_peek; auto.
  - apply sim_close; auto.
  - cbn [fst snd c09_step]. eexists. split; [reflexivity|]. apply sim_tick. exact R.
  - cbn [fst snd c09_step]. exists q. split; [reflexivity|]. destruct R. constructor; auto.
  - cbn [fst snd c09_step]. exists q. split; [reflexivity|]. destruct R. constructor; auto.
  - cbn [fst snd c09_step]. exists q. split; [reflexivity|]. destruct R. constructor; auto.
  - apply sim_dowork; auto.
  - (* CloseHandle: the conductor is not involved *)
    unfold do_close_handle. destruct k; try (cbn [fst snd c09_step]; exists q; split; [reflexivity|exact R]);
      (destruct (user_obj _ r s); cbn [fst snd c09_step]; exists q; (split; [reflexivity|]); [destruct R; constructor; auto|exact R]). Qed.

Lemma oracle_run c0 tdrv tis ops : forall q s,
  inv s -> Rel c0 q s -> c09_run c0 tdrv (ring_full s) q ops (snd (run (mkCfg tdrv tis) s ops)) = true.
Proof. induction ops as [|o ops IH]; intros q s I R; cbn; auto.
  destruct (sim_step c0 tdrv tis q s o I R) as (q' & Hs & R'). pose proof (step_inv (mkCfg tdrv tis) s o I) as I'.
  pose proof (step_ring_full (mkCfg tdrv tis) s o) as Hrf.
  destruct (step (mkCfg tdrv tis) s o) as [s1 x]. cbn [fst snd] in *.
  specialize (IH q' s1 I' R'). destruct (run (mkCfg tdrv tis) s1 ops) as [s2 xs]. cbn [snd] in *. rewrite Hs. rewrite <- Hrf. exact IH. Qed.

(* the predicate used to judge the implementation holds on the model's own observations, for every history *)
Theorem c09_oracle_model c0 now0 tdrv tis ops : holds_c09 c0 now0 tdrv tis ops (run_obs c0 now0 tdrv tis ops) = true.
Proof. unfold holds_c09, run_obs. apply (oracle_run c0 tdrv tis ops (oinit c0 now0) (init c0 now0)); [apply init_inv|apply rel_init]. Qed.
