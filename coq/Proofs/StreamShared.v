(* C01, part 5a: the shared Publication satisfies `flavour_ok` with the C04 invariant `pub_inv`:
   the case analysis of one offer / claim is `pub_step_cases` (C04), refined here with the exact content written. *)
Require Import V.Base.MachineInt.
Require Import V.Generated.GenConsts.
Require Import V.Model.Descriptor.
Require Import V.Model.LogBase.
Require Import V.Model.Appender.
Require Import V.Model.Publication.
Require Import V.Model.Reader.
Require Import V.Model.StreamSys.
Require Import V.Spec.Stream.
Require Import V.Proofs.DescriptorProofs.
Require Import V.Proofs.AppenderProofs.
Require Import V.Proofs.BulkProofs.
Require Import V.Proofs.PublicationProofs.
Require Import V.Proofs.C04Proofs.
Require Import V.Proofs.ReaderProofs.
Require Import V.Proofs.StreamFrames.
Require Import V.Proofs.StreamRefine.
From Coq Require Import ZifyBool.
Open Scope Z_scope.

(* an accepted offer / claim returns the log exactly as the appender left it *)
Lemma pub_try_ok m s len act s' p : pub_try m s len act = (s', Ok p) ->
  let l := ps_log s in
  let idx := index_by_term_count (l_count l) in
  exists a, act l idx (term_id_of (tail l idx)) = Ok a /\
    s' = mkPub (a_log a) (ps_closed s) (match a_claim a with Some c => Some c | None => ps_claim s end).
Proof. cbv zeta. unfold pub_try. intros H.
  destruct (ps_closed s); [discriminate|].
  destruct (index_by_term_count (l_count (ps_log s)) <? 0); [discriminate|].
  destruct (add64 m _ _) as [position| | | |]; try discriminate.
  destruct (negb _); [discriminate|].
  destruct (position <? l_limit (ps_log s)).
  - destruct (act _ _ _) as [a|e| | |]; try discriminate.
    + exists a. split; [reflexivity|]. unfold pub_new_position in H.
      destruct (0 <? a_result a).
      * destruct (_ <- sub64 m _ _ ;; _) as [np| | | |]; try (inversion H; fail).
        -- destruct (0 <=? np); inversion H. reflexivity.
      * destruct (add64 m _ _) as [v| | | |]; try (inversion H; fail).
        destruct (max_possible_position (a_log a) <? v); [inversion H|].
        destruct (rotate_log m _ _ _); inversion H.
    + destruct e; discriminate.
  - destruct (back_pressure_status m _ _ _); discriminate. Qed.

Lemma part_rotated l n j : part (rotated l n) j = part l j. Proof. reflexivity. Qed.
Lemma padding_entries_set_tail l i v off tid : padding_entries (set_tail l i v) off tid = padding_entries l off tid.
Proof. reflexivity. Qed.

Lemma bumped_parts l n off req : 0 <= n ->
  same_geom l (bumped l n off req) /\ l_limit (bumped l n off req) = l_limit l /\
  part (bumped l n off req) (n mod 3) =
    (if off <? l_tlen l then term_put (part l (n mod 3)) off (padding_entries l off (wrap32 (l_init l + n))) else part l (n mod 3)) /\
  (forall j, 0 <= j < 3 -> j <> n mod 3 -> part (bumped l n off req) j = part l j).
Proof. intros Hn. pose proof (mod3_range n) as Hm. unfold bumped, put_padding.
  change (l_tlen (set_tail l (n mod 3) (wrap32 (l_init l + n) * two32 + (off + req)))) with (l_tlen l).
  destruct (off <? l_tlen l).
  - split; [repeat split|]. split; [reflexivity|]. split.
    + rewrite part_set_part_same by assumption. reflexivity.
    + intros j Hj Hne. rewrite part_set_part_other by auto. reflexivity.
  - split; [repeat split|]. split; [reflexivity|]. split; [reflexivity|]. intros; reflexivity. Qed.

(* the invariant seen from the stream: the offset that counts is min(tail offset, term length) - in the very last term
   the shared tail counter keeps growing on every failed offer (pub_inv allows up to 2 * term length there) *)
Definition spinv (n moff : Z) (s : pubstate) : Prop :=
  exists off, pub_inv n off s /\ moff = Z.min off (l_tlen (ps_log s)).

Section Shared.
Variables (m : mode) (rv : Z -> Z -> list Z -> Z).

Lemma status_refusal l pos len : refusal (status_of l pos len) = true.
Proof. unfold status_of. destruct (_ <=? _); [reflexivity|]. destruct (l_connected l); reflexivity. Qed.

Lemma shared_offer n moff s msg : spinv n moff s -> moff <= l_tlen (ps_log s) ->
  zlen msg <= 1073741824 -> l_mtu (ps_log s) mod 32 = 0 ->
  append_effect shared spinv s n moff (offer_laid (ps_log s) msg) (pub_step m rv s (Offer msg)).
Proof. intros (off & Hinv & Hmo) _ Hlen Hm32.
  pose proof Hinv as [Hleg Hn Hcount Hoff Htail Hnext Hthird Hlim].
  pose proof (legal_mpl _ Hleg) as (Hm1 & Hm2 & Hm3 & Hm4). pose proof (legal_tlen _ Hleg) as [Htl _].
  pose proof (mod3_range n) as Hm3r. pose proof (inv_tid_i32 s n) as Htid. pose proof (zlen_nonneg msg) as H0.
  pose proof (pub_offer_cases m rv s n off Hinv msg Hlen) as T. cbn [pub_step].
  destruct (pub_offer m rv s msg) as [s' r] eqn:Eres.
  inversion T as [Hc | Hc Hl | Hc Hl Htoo | s2 t' Htoo Hc Hl Hfit Hlog Hc' | s2 Htoo Hc Hl Hfit Hn' Hlog Hc' Hclm | s2 Htoo Hc Hl Hfit Hn' Hlog Hc' Hclm]; subst s' r.
  - apply AE_refuse. reflexivity.
  - apply AE_refuse. apply status_refusal.
  - apply AE_refuse. reflexivity.
  - (* accepted *)
    assert (Hreq : 0 < op_required (ps_log s) (Offer msg) <= l_tlen (ps_log s) / 2).
    { apply (required_ok s n off); auto. }
    destruct (try_result_inv s n off _ _ _ _ _ Hinv Hreq T) as (Hsg & Hl' & _ & Hinv').
    assert (Em : moff = off) by lia. rewrite Em in *. clear Em.
    unfold pub_offer in Eres. apply pub_try_ok in Eres. cbv zeta in Eres. destruct Eres as (a & Hact & Hs2).
    rewrite Hcount, index_by_term_count_nonneg in Hact by assumption. rewrite Htail in Hact.
    rewrite raw_tid in Hact by (auto; unfold two32; lia).
    unfold op_required, op_len, required_spec in *. cbn [op_too_long op_len] in Htoo.
    destruct (zlen msg <=? max_payload_length (ps_log s)) eqn:E1.
    + unfold unfrag_required_spec in *. rewrite HDR_eq, FA_eq in *.
      rewrite (ta_unfrag_exact m rv (ps_log s) (n mod 3) _ off Hleg Hm3r Htid ltac:(lia) Htail msg ltac:(lia) Hfit) in Hact.
      injection Hact as Ha; subst a. cbn [a_log a_claim] in Hs2. subst s2.
      eapply AE_accept with (es := map Committed [_]) (cl := None); cbn [fl_pub shared plog ps_log ps_claim ps_closed]; try eassumption; try lia; try (eexists; split; [exact Hinv'|cbn [ps_log l_tlen set_part set_tail]; lia]).
      * split; [reflexivity|]. eexists. split; [reflexivity|]. apply unfrag_frame_spec. lia.
      * rewrite part_set_part_same by assumption. reflexivity.
      * intros j Hj Hne. rewrite part_set_part_other by auto. reflexivity.
      * reflexivity.
    + assert (E2 : (max_message_length (ps_log s) <? zlen msg) = false) by lia. rewrite E2 in Hact.
      rewrite (ta_frag_exact m rv (ps_log s) (n mod 3) _ off Hleg Hm3r Htid ltac:(lia) Htail msg ltac:(lia) Hfit) in Hact.
      set (X := frag_loop _ _ _ _ _ _ _ _ _ _) in Hact.
      injection Hact as Ha; subst a. cbn [a_log a_claim] in Hs2. subst s2.
      assert (Hmpl32 : max_payload_length (ps_log s) mod 32 = 0).
      { unfold max_payload_length. rewrite HDR_eq. rewrite Zminus_mod, Hm32. reflexivity. }
      destruct (frag_frames_spec (set_tail (ps_log s) (n mod 3) (wrap32 (l_init (ps_log s) + n) * two32 + (off + frag_required_spec (zlen msg) (max_payload_length (ps_log s)))))
                  rv (wrap32 (l_init (ps_log s) + n)) (max_payload_length (ps_log s)) msg off ltac:(lia) Hmpl32 ltac:(lia)) as (fs & Hfs & Hspec).
      eapply AE_accept with (es := map Committed fs) (cl := None); cbn [fl_pub shared plog ps_log ps_claim ps_closed]; try eassumption; try lia; try (eexists; split; [exact Hinv'|cbn [ps_log l_tlen set_part set_tail]; lia]).
      * split; [reflexivity|]. exists fs. split; [reflexivity|]. exact Hspec.
      * rewrite part_set_part_same by assumption. unfold X. rewrite Hfs. reflexivity.
      * intros j Hj Hne. rewrite part_set_part_other by auto. reflexivity.
      * reflexivity.
  - (* end of term *)
    assert (Hreq : 0 < op_required (ps_log s) (Offer msg) <= l_tlen (ps_log s) / 2).
    { apply (required_ok s n off); auto. }
    destruct (try_result_inv s n off _ _ _ _ _ Hinv Hreq T) as (Hsg & Hl' & _ & Hinv').
    assert (Em : moff = off) by (destruct Hoff as [_ [Ho|Ho]]; lia). rewrite Em in *. clear Em.
    destruct (bumped_parts (ps_log s) n off (op_required (ps_log s) (Offer msg)) ltac:(lia)) as (B1 & B2 & B3 & B4).
    eapply AE_trip with (req := op_required (ps_log s) (Offer msg)); unfold plog; cbn [fl_pub shared]; try eassumption; try lia; try (exists 0; split; [exact Hinv'|destruct Hsg as (_ & G2 & _); rewrite <- G2; lia]).
    + rewrite Hlog, part_rotated. exact B3.
    + intros j Hj Hne. rewrite Hlog, part_rotated. apply B4; assumption.
  - (* the very last term *)
    assert (Hreq : 0 < op_required (ps_log s) (Offer msg) <= l_tlen (ps_log s) / 2).
    { apply (required_ok s n off); auto. }
    destruct (try_result_inv s n off _ _ _ _ _ Hinv Hreq T) as (Hsg & Hl' & _ & Hdisj).
    assert (Hinv' : pub_inv n (off + op_required (ps_log s) (Offer msg)) s2).
    { destruct Hdisj as [Hsm | (_ & A)]; [|exact A]. exfalso. rewrite Hsm in Hlog.
      apply (f_equal (fun l => tail l (n mod 3))) in Hlog. rewrite tail_bumped, Z.eqb_refl, Htail in Hlog by assumption. lia. }
    destruct (bumped_parts (ps_log s) n off (op_required (ps_log s) (Offer msg)) ltac:(lia)) as (B1 & B2 & B3 & B4).
    eapply AE_last with (req := op_required (ps_log s) (Offer msg)); unfold plog; cbn [fl_pub shared]; try eassumption; try lia.
    + rewrite Hlog, B3. destruct (Z_lt_le_dec off (l_tlen (ps_log s))) as [Hlt | Hge].
      * assert (Em : moff = off) by lia. rewrite Em. reflexivity.
      * assert (Em : moff = l_tlen (ps_log s)) by lia. rewrite Em, Z.ltb_irrefl.
        assert (E : (off <? l_tlen (ps_log s)) = false) by lia. rewrite E. reflexivity.
    + intros j Hj Hne. rewrite Hlog. apply B4; assumption.
    + exists (off + op_required (ps_log s) (Offer msg)). split; [exact Hinv'|]. destruct Hsg as (_ & G2 & _). rewrite <- G2. lia. Qed.

Lemma shared_claim n moff s len : spinv n moff s -> moff <= l_tlen (ps_log s) ->
  0 <= len <= 1073741824 ->
  append_effect shared spinv s n moff (claim_laid (ps_log s) n moff len) (pub_step m rv s (Claim len)).
Proof. intros (off & Hinv & Hmo) _ Hlen.
  pose proof Hinv as [Hleg Hn Hcount Hoff Htail Hnext Hthird Hlim].
  pose proof (legal_mpl _ Hleg) as (Hm1 & Hm2 & Hm3 & Hm4). pose proof (legal_tlen _ Hleg) as [Htl _].
  pose proof (mod3_range n) as Hm3r. pose proof (inv_tid_i32 s n) as Htid.
  pose proof (pub_claim_cases m s n off Hinv len Hlen) as T. cbn [pub_step].
  destruct (max_payload_length (ps_log s) <? len) eqn:Emp.
  { rewrite T. apply AE_refuse. reflexivity. }
  destruct (pub_claim m s len) as [s' r] eqn:Eres.
  inversion T as [Hc | Hc Hl | Hc Hl Htoo | s2 t' Htoo Hc Hl Hfit Hlog Hc' | s2 Htoo Hc Hl Hfit Hn' Hlog Hc' Hclm | s2 Htoo Hc Hl Hfit Hn' Hlog Hc' Hclm]; subst s' r.
  - apply AE_refuse. reflexivity.
  - apply AE_refuse. apply status_refusal.
  - discriminate.
  - (* accepted *)
    assert (Hreq : 0 < op_required (ps_log s) (Claim len) <= l_tlen (ps_log s) / 2).
    { apply (required_ok s n off); auto. }
    destruct (try_result_inv s n off _ _ _ _ _ Hinv Hreq T) as (Hsg & Hl' & _ & Hinv').
    assert (Em : moff = off) by lia. rewrite Em in *. clear Em.
    unfold pub_claim in Eres. rewrite Emp in Eres. apply pub_try_ok in Eres. cbv zeta in Eres. destruct Eres as (a & Hact & Hs2).
    rewrite Hcount, index_by_term_count_nonneg in Hact by assumption. rewrite Htail in Hact.
    rewrite raw_tid in Hact by (auto; unfold two32; lia).
    unfold op_required, op_len, required_spec in *.
    assert (E1 : (len <=? max_payload_length (ps_log s)) = true) by lia. rewrite E1 in *.
    unfold unfrag_required_spec in *. rewrite HDR_eq, FA_eq in *.
    rewrite (ta_claim_exact m (ps_log s) (n mod 3) _ off Hleg Hm3r Htid ltac:(lia) Htail len ltac:(lia) Hfit) in Hact.
    injection Hact as Ha; subst a. cbn [a_log a_claim] in Hs2. subst s2.
    set (fr := data_frame (ps_log s) off (len + 32) (wrap32 (l_init (ps_log s) + n)) F_UNFRAG T_DATA 0 []).
    eapply AE_accept with (es := [Claimed fr]) (cl := Some (n mod 3, off, len + 32)) (req := align (len + 32) 32);
      unfold plog; cbn [fl_pub shared ps_log ps_claim ps_closed]; try eassumption; try lia; try (eexists; split; [exact Hinv'|cbn [ps_log l_tlen set_part set_tail]; lia]).
    + exists fr. split; [reflexivity|]. split; [reflexivity|]. split; [unfold span; rewrite FA_32; reflexivity|].
      cbn [f_len f_type f_flags f_session data_frame fr]. repeat split; lia.
    + rewrite part_set_part_same by assumption. reflexivity.
    + intros j Hj Hne. rewrite part_set_part_other by auto. reflexivity.
    + reflexivity.
  - (* end of term *)
    assert (Hreq : 0 < op_required (ps_log s) (Claim len) <= l_tlen (ps_log s) / 2).
    { apply (required_ok s n off); auto. }
    destruct (try_result_inv s n off _ _ _ _ _ Hinv Hreq T) as (Hsg & Hl' & _ & Hinv').
    assert (Em : moff = off) by (destruct Hoff as [_ [Ho|Ho]]; lia). rewrite Em in *. clear Em.
    destruct (bumped_parts (ps_log s) n off (op_required (ps_log s) (Claim len)) ltac:(lia)) as (B1 & B2 & B3 & B4).
    eapply AE_trip with (req := op_required (ps_log s) (Claim len)); unfold plog; cbn [fl_pub shared]; try eassumption; try lia; try (exists 0; split; [exact Hinv'|destruct Hsg as (_ & G2 & _); rewrite <- G2; lia]).
    + rewrite Hlog, part_rotated. exact B3.
    + intros j Hj Hne. rewrite Hlog, part_rotated. apply B4; assumption.
  - (* the very last term *)
    assert (Hreq : 0 < op_required (ps_log s) (Claim len) <= l_tlen (ps_log s) / 2).
    { apply (required_ok s n off); auto. }
    destruct (try_result_inv s n off _ _ _ _ _ Hinv Hreq T) as (Hsg & Hl' & _ & Hdisj).
    assert (Hinv' : pub_inv n (off + op_required (ps_log s) (Claim len)) s2).
    { destruct Hdisj as [Hsm | (_ & A)]; [|exact A]. exfalso. rewrite Hsm in Hlog.
      apply (f_equal (fun l => tail l (n mod 3))) in Hlog. rewrite tail_bumped, Z.eqb_refl, Htail in Hlog by assumption. lia. }
    destruct (bumped_parts (ps_log s) n off (op_required (ps_log s) (Claim len)) ltac:(lia)) as (B1 & B2 & B3 & B4).
    eapply AE_last with (req := op_required (ps_log s) (Claim len)); unfold plog; cbn [fl_pub shared]; try eassumption; try lia.
    + rewrite Hlog, B3. destruct (Z_lt_le_dec off (l_tlen (ps_log s))) as [Hlt | Hge].
      * assert (Em : moff = off) by lia. rewrite Em. reflexivity.
      * assert (Em : moff = l_tlen (ps_log s)) by lia. rewrite Em, Z.ltb_irrefl.
        assert (E : (off <? l_tlen (ps_log s)) = false) by lia. rewrite E. reflexivity.
    + intros j Hj Hne. rewrite Hlog. apply B4; assumption.
    + exists (off + op_required (ps_log s) (Claim len)). split; [exact Hinv'|]. destruct Hsg as (_ & G2 & _). rewrite <- G2. lia. Qed.

End Shared.

Theorem shared_flavour_ok : flavour_ok shared spinv.
Proof. constructor.
  - intros n moff p (off & [Hleg Hn Hcount Hoff Htail Hnext Hthird Hlim] & Hmo). unfold plog. cbn [fl_pub shared].
    pose proof (legal_tlen _ Hleg) as [Htl _]. repeat split; try assumption; lia.
  - intros m0 n moff p (off & Hinv & Hmo) Hofft. unfold plog in *. cbn [fl_pub shared fl_position] in *.
    destruct (ps_closed p) eqn:Ec.
    + unfold pub_position. rewrite Ec. reflexivity.
    + rewrite (pub_position_spec m0 p n off Hinv Ec). unfold spec_pos. rewrite Hmo. reflexivity.
  - intros m0 rv0 n moff p o (off & Hinv & Hmo) Hna Hok. unfold plog in *. cbn [fl_pub shared fl_step] in *.
    assert (E : pub_step m0 rv0 p o = env_step p o) by (destruct o; try discriminate; reflexivity).
    rewrite E. split; [reflexivity|]. split; [reflexivity|].
    destruct (env_step_inv n off p o Hinv Hok Hna) as [Hinv' (_ & G2 & _)].
    exists off. split; [exact Hinv'|]. rewrite Hmo. f_equal. exact G2.
  - intros n moff p i (off & Hinv & Hmo). unfold plog. cbn [fl_pub shared fl_with_pub]. split; [reflexivity|].
    exists off. split; [|exact Hmo]. eapply inv_same_meta; [eassumption|apply same_meta_set_part].
  - intros m0 rv0 n off p msg. unfold plog. cbn [fl_pub shared fl_step]. apply shared_offer.
  - intros m0 rv0 n off p len. unfold plog. cbn [fl_pub shared fl_step]. apply shared_claim. Qed.
