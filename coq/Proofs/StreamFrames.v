(* C01, part 1: the frames a publisher lays down and the items of the abstract stream they stand for.
   - `item_of`: a committed frame as a stream item (padding frames and aborted claims are `Pad`);
   - the fragment loop of both appenders produces exactly the items `msg_items` prescribes for the message,
     occupying exactly the required length (frag_span_required of BulkProofs);
   - the exact result of every append flavour of both appenders when the message fits. *)
Require Import V.Base.MachineInt.
Require Import V.Generated.GenConsts.
Require Import V.Model.Descriptor.
Require Import V.Model.LogBase.
Require Import V.Model.Appender.
Require Import V.Model.ExclAppender.
Require Import V.Model.Reader.
Require Import V.Model.Assembler.
Require Import V.Spec.Stream.
Require Import V.Proofs.DescriptorProofs.
Require Import V.Proofs.AppenderProofs.
Require Import V.Proofs.BulkProofs.
Require Import V.Proofs.ReaderProofs.
From Coq Require Import ZifyBool.
Open Scope Z_scope.

Lemma blen_zlen (b : list Z) : blen b = zlen b. Proof. reflexivity. Qed.

(* ---- frames as items ---- *)
Definition item_of (f : frame) : item := if is_pad f then Pad (span f) else Frag (f_flags f) (f_body f).
Definition items_of (fs : list frame) : stream := map item_of fs.

Record frame_ok (ses : Z) (f : frame) : Prop := mkFrameOk {
  fo_len : 32 <= f_len f;
  fo_ses : f_session f = ses;
  fo_body : is_pad f = false -> f_len f = 32 + blen (f_body f)
}.

Lemma frames_ok_pos ses fs : Forall (frame_ok ses) fs -> frames_pos fs.
Proof. intros H. eapply Forall_impl; [|exact H]. intros f [A _ _]. cbn. lia. Qed.

Lemma item_len_of ses f : frame_ok ses f -> item_len (item_of f) = span f.
Proof. intros [A B C]. unfold item_of. destruct (is_pad f) eqn:E; cbn [item_len]; [reflexivity|].
  unfold span. rewrite FA_32, (C eq_refl). reflexivity. Qed.

Lemma span_of_items ses fs : Forall (frame_ok ses) fs -> span_of (items_of fs) = span_sum fs.
Proof. induction 1 as [|f r Hf Hr IH]; cbn [items_of map span_of span_sum]; [reflexivity|].
  rewrite (item_len_of ses f Hf). unfold items_of in IH. rewrite IH. reflexivity. Qed.

Lemma span_of_app a b : span_of (a ++ b) = span_of a + span_of b.
Proof. induction a as [|i a IH]; cbn [app span_of]; lia. Qed.

Lemma frags_app a b : frags (a ++ b) = frags a ++ frags b.
Proof. induction a as [|[f p|n] a IH]; cbn [app frags]; [reflexivity| |assumption]. rewrite IH. reflexivity. Qed.

Lemma items_of_app a b : items_of (a ++ b) = items_of a ++ items_of b.
Proof. apply map_app. Qed.

(* what the assembler reads of the data frames handed over = the fragments of the items *)
Definition fl_pl (x : frag) : Z * list Z := (fr_flags x, fr_payload x).
Definition frag_of (d : dlv) : frag := mkFrag (f_session (snd d)) (f_flags (snd d)) (f_body (snd d)).

Lemma frags_data_of off fs :
  map fl_pl (map frag_of (data_of (place off fs))) = frags (items_of fs).
Proof. revert off. induction fs as [|f r IH]; intros off; [reflexivity|].
  cbn [place]. unfold data_of in *. cbn [filter snd items_of map]. unfold item_of at 1.
  destruct (is_pad f) eqn:E; cbn [negb frags map].
  - apply IH.
  - unfold fl_pl at 1, frag_of at 1. cbn [snd fr_flags fr_payload]. f_equal. apply IH. Qed.

Lemma data_of_sessions ses off fs : Forall (frame_ok ses) fs ->
  Forall (fun x => fr_session x = ses) (map frag_of (data_of (place off fs))).
Proof. intros H. revert off. induction H as [|f r Hf Hr IH]; intros off; [constructor|].
  cbn [place]. unfold data_of in *. cbn [filter snd]. destruct (is_pad f); cbn [negb map].
  - apply IH.
  - constructor; [|apply IH]. unfold frag_of. cbn [snd fr_session]. apply (fo_ses _ _ Hf). Qed.

Lemma skipn_skipn_add {A} : forall y x (l : list A), skipn x (skipn y l) = skipn (y + x) l.
Proof. induction y; intros x l; [reflexivity|]. destruct l; cbn [Nat.add skipn]; [destruct x; reflexivity|]. apply IHy. Qed.

(* ---- chunks ---- *)
Lemma chunks_fuel mpl : 0 < mpl -> forall f1 f2 m, (length m <= f1)%nat -> (length m <= f2)%nat ->
  chunks f1 mpl m = chunks f2 mpl m.
Proof. intros Hm. induction f1 as [|f1 IH]; intros f2 m H1 H2.
  - assert (length m = 0)%nat by lia. destruct f2; cbn [chunks]; [reflexivity|].
    assert (E : (blen m <=? mpl) = true) by (unfold blen; lia). rewrite E. reflexivity.
  - destruct f2 as [|f2]; cbn [chunks].
    + assert (E : (blen m <=? mpl) = true) by (unfold blen; lia). rewrite E. reflexivity.
    + destruct (blen m <=? mpl) eqn:E; [reflexivity|]. f_equal. unfold blen in E.
      apply IH; rewrite skipn_length; lia. Qed.

Lemma chunks_of_small mpl m : blen m <= mpl -> chunks_of mpl m = [m].
Proof. intros H. unfold chunks_of. destruct (length m) eqn:E; cbn [chunks]; [reflexivity|].
  assert (E2 : (blen m <=? mpl) = true) by lia. rewrite E2. reflexivity. Qed.

Lemma chunks_of_big mpl m : 0 < mpl -> mpl < blen m ->
  chunks_of mpl m = firstn (Z.to_nat mpl) m :: chunks_of mpl (skipn (Z.to_nat mpl) m).
Proof. intros Hm H. unfold chunks_of. unfold blen in H. destruct (length m) as [|k] eqn:E; [lia|]. cbn [chunks].
  assert (E2 : (blen m <=? mpl) = false) by (unfold blen; lia). rewrite E2. f_equal.
  apply chunks_fuel; [assumption| |lia]. rewrite skipn_length. lia. Qed.

Lemma chunks_nonempty f mpl m : chunks f mpl m <> [].
Proof. destruct f; cbn [chunks]; [discriminate|]. destruct (blen m <=? mpl); discriminate. Qed.

Lemma concat_chunks mpl : 0 <= mpl -> forall f m, concat (chunks f mpl m) = m.
Proof. intros Hm. induction f as [|f IH]; intros m; cbn [chunks concat]; [apply app_nil_r|].
  destruct (blen m <=? mpl); cbn [concat]; [apply app_nil_r|]. rewrite IH. apply firstn_skipn. Qed.

(* flags of the fragment loop entered with `flags` *)
Definition loop_flags (flags : Z) (cs : list (list Z)) : list (Z * list Z) :=
  match cs with
  | [] => []
  | [c] => [(Z.lor flags F_END, c)]
  | c :: r => (flags, c) :: middle_end r
  end.

Lemma loop_flags_0 r : r <> [] -> loop_flags 0 r = middle_end r.
Proof. destruct r as [|c [|c2 r2]]; [contradiction|reflexivity|reflexivity]. Qed.

Lemma frags_flag_rest cs : frags (flag_rest cs) = middle_end cs.
Proof. induction cs as [|c r IH]; [reflexivity|]. destruct r as [|c2 r2]; [reflexivity|].
  change (flag_rest (c :: c2 :: r2)) with (Frag 0 c :: flag_rest (c2 :: r2)).
  change (middle_end (c :: c2 :: r2)) with ((0, c) :: middle_end (c2 :: r2)). cbn [frags]. rewrite IH. reflexivity. Qed.

Lemma frags_flag_chunks cs : frags (flag_chunks cs) = fragments_of cs.
Proof. destruct cs as [|c [|c2 r2]]; [reflexivity|reflexivity|].
  change (flag_chunks (c :: c2 :: r2)) with (Frag F_BEGIN c :: flag_rest (c2 :: r2)). cbn [frags fragments_of].
  rewrite frags_flag_rest. reflexivity. Qed.

(* items whose fragments are given, all data *)
Definition fb (f : frame) : Z * list Z := (f_flags f, f_body f).

Lemma items_of_data fs : Forall (fun f => is_pad f = false) fs ->
  items_of fs = map (fun x => Frag (fst x) (snd x)) (map fb fs).
Proof. induction 1 as [|f r Hf Hr IH]; [reflexivity|]. cbn [items_of map]. unfold item_of at 1. rewrite Hf.
  unfold items_of in IH. rewrite IH. reflexivity. Qed.

Lemma flag_rest_map cs : flag_rest cs = map (fun x => Frag (fst x) (snd x)) (middle_end cs).
Proof. induction cs as [|c r IH]; [reflexivity|]. destruct r as [|c2 r2]; [reflexivity|].
  change (flag_rest (c :: c2 :: r2)) with (Frag 0 c :: flag_rest (c2 :: r2)).
  change (middle_end (c :: c2 :: r2)) with ((0, c) :: middle_end (c2 :: r2)). cbn [map fst snd]. rewrite IH. reflexivity. Qed.

Lemma flag_chunks_map cs : flag_chunks cs = map (fun x => Frag (fst x) (snd x)) (fragments_of cs).
Proof. destruct cs as [|c [|c2 r2]]; [reflexivity|reflexivity|].
  change (flag_chunks (c :: c2 :: r2)) with (Frag F_BEGIN c :: flag_rest (c2 :: r2)). cbn [fragments_of map fst snd].
  rewrite flag_rest_map. reflexivity. Qed.

(* ---- the fragment loop ---- *)
Lemma data_frame_ok l off flen tid flags rv body : 32 <= flen -> flen = 32 + blen body ->
  frame_ok (l_session l) (data_frame l off flen tid flags T_DATA rv body) /\
  is_pad (data_frame l off flen tid flags T_DATA rv body) = false.
Proof. intros H1 H2. split; [|reflexivity]. constructor; cbn; auto. Qed.

Lemma frag_loop_frames l rv tid mpl len msg : 0 < mpl -> zlen msg = len ->
  forall fuel remaining flags off, 0 < remaining <= len -> (Z.to_nat (remaining / mpl) < fuel)%nat ->
  exists fs, frag_loop fuel l rv tid mpl len msg flags remaining off = map Committed fs /\
    Forall (frame_ok (l_session l)) fs /\ Forall (fun f => is_pad f = false) fs /\
    span_sum fs = frag_span fuel mpl remaining /\
    map fb fs = loop_flags flags (chunks_of mpl (skipn (Z.to_nat (len - remaining)) msg)).
Proof. intros Hm Hlen. induction fuel as [|fuel IH]; intros remaining flags off Hr Hf; [lia|].
  set (rest := skipn (Z.to_nat (len - remaining)) msg).
  assert (Hrest : blen rest = remaining).
  { unfold rest, blen. rewrite skipn_length. unfold zlen in Hlen. lia. }
  cbn [frag_loop frag_span]. rewrite HDR_eq, FA_eq.
  destruct (Z.le_gt_cases remaining mpl) as [Hle | Hgt].
  - rewrite Z.min_l by assumption. replace (remaining - remaining) with 0 by ring. cbn [Z.leb Z.compare].
    assert (E : (remaining <=? mpl) = true) by lia. rewrite E.
    assert (Hbody : slice msg (len - remaining) remaining = rest).
    { unfold slice. fold rest. apply firstn_all2. unfold blen in Hrest. lia. }
    rewrite Hbody. eexists [_]. split; [reflexivity|].
    destruct (data_frame_ok l off (remaining + 32) tid (Z.lor flags F_END) (rv off (remaining + 32) rest) rest) as [Hok Hnp]; [lia|lia|].
    split; [constructor; [exact Hok|constructor]|]. split; [constructor; [exact Hnp|constructor]|].
    split; [cbn [span_sum]; unfold span; rewrite FA_32; cbn [f_len data_frame]; lia|].
    rewrite chunks_of_small by lia. reflexivity.
  - rewrite Z.min_r by lia. assert (E : (remaining <=? mpl) = false) by lia. rewrite E.
    assert (E2 : (remaining - mpl <=? 0) = false) by lia. rewrite E2.
    assert (Hd : (remaining - mpl) / mpl = remaining / mpl - 1).
    { replace (remaining - mpl) with (remaining + (-1) * mpl) by ring. rewrite Z.div_add by lia. ring. }
    assert (Hq : 1 <= remaining / mpl) by (apply Z.div_le_lower_bound; lia).
    destruct (IH (remaining - mpl) 0 (off + align (mpl + 32) 32)) as (fs & Hfs & Hok & Hnp & Hsp & Hfb); [lia|rewrite Hd; lia|].
    assert (Hbody : slice msg (len - remaining) mpl = firstn (Z.to_nat mpl) rest) by reflexivity.
    rewrite Hbody, Hfs.
    destruct (data_frame_ok l off (mpl + 32) tid flags (rv off (mpl + 32) (firstn (Z.to_nat mpl) rest)) (firstn (Z.to_nat mpl) rest)) as [Hok1 Hnp1]; [lia| |].
    { unfold blen. rewrite firstn_length. unfold blen in Hrest. lia. }
    eexists (_ :: fs). split; [reflexivity|].
    split; [constructor; assumption|]. split; [constructor; assumption|].
    split; [cbn [span_sum]; unfold span at 1; rewrite FA_32; cbn [f_len data_frame]; lia|].
    cbn [map]. rewrite Hfb. rewrite (chunks_of_big mpl rest) by lia.
    assert (Hsk : skipn (Z.to_nat (len - (remaining - mpl))) msg = skipn (Z.to_nat mpl) rest).
    { unfold rest. rewrite skipn_skipn_add. f_equal. lia. }
    rewrite Hsk. set (cs := chunks_of mpl (skipn (Z.to_nat mpl) rest)).
    assert (Hne : cs <> []) by apply chunks_nonempty.
    rewrite (loop_flags_0 cs Hne). destruct cs as [|c r]; [contradiction|]. reflexivity. Qed.

(* the frames of one accepted offer *)
Definition offer_frames_spec (l : log) (mpl : Z) (msg : list Z) (req : Z) (fs : list frame) : Prop :=
  Forall (frame_ok (l_session l)) fs /\ span_sum fs = req /\ items_of fs = msg_items mpl msg.

Lemma unfrag_frame_spec l off tid rv mpl msg : zlen msg <= mpl ->
  offer_frames_spec l mpl msg (align (zlen msg + 32) 32) [data_frame l off (zlen msg + 32) tid F_UNFRAG T_DATA rv msg].
Proof. intros H. pose proof (zlen_nonneg msg).
  destruct (data_frame_ok l off (zlen msg + 32) tid F_UNFRAG rv msg) as [Hok Hnp]; [lia|unfold blen, zlen in *; lia|].
  split; [constructor; [exact Hok|constructor]|]. split.
  - cbn [span_sum]. unfold span. rewrite FA_32. cbn [f_len data_frame]. lia.
  - unfold msg_items. rewrite chunks_of_small by (unfold blen, zlen in *; lia). reflexivity. Qed.

Lemma frag_frames_spec l rv tid mpl msg off : 0 < mpl -> mpl mod 32 = 0 -> mpl < zlen msg ->
  exists fs, frag_loop (frag_fuel (zlen msg) mpl) l rv tid mpl (zlen msg) msg F_BEGIN (zlen msg) off = map Committed fs /\
    offer_frames_spec l mpl msg (frag_required_spec (zlen msg) mpl) fs.
Proof. intros Hm Hm32 Hlen.
  assert (Hq : 0 <= zlen msg / mpl) by (apply Z.div_pos; lia).
  destruct (frag_loop_frames l rv tid mpl (zlen msg) msg Hm eq_refl (frag_fuel (zlen msg) mpl) (zlen msg) F_BEGIN off)
    as (fs & Hfs & Hok & Hnp & Hsp & Hfb); [lia|unfold frag_fuel; lia|].
  exists fs. split; [exact Hfs|]. split; [exact Hok|]. split.
  - rewrite Hsp. apply frag_span_required; [assumption|assumption|lia|unfold frag_fuel; lia].
  - rewrite (items_of_data fs Hnp), Hfb. rewrite Z.sub_diag. cbn [Z.to_nat skipn].
    unfold msg_items. rewrite flag_chunks_map. f_equal. Qed.

(* ---- exact results of the append flavours when the message fits ---- *)
Section SharedExact.
Variables (m : mode) (rv : Z -> Z -> list Z -> Z) (l : log) (idx tid off : Z).
Hypothesis Hl : legal l.
Hypothesis Hi : 0 <= idx < 3.
Hypothesis Ht : in_i32 tid = true.
Hypothesis Ho : 0 <= off < 2147483648.
Hypothesis Htail : tail l idx = tid * two32 + off.

Local Notation l1 req := (set_tail l idx (tid * two32 + (off + req))).

Lemma ta_unfrag_exact msg : zlen msg <= max_payload_length l -> off + align (zlen msg + 32) 32 <= l_tlen l ->
  ta_append_unfragmented m rv l idx msg tid =
  Ok (mkAppended (set_part (l1 (align (zlen msg + 32) 32)) idx
                    (term_put (part l idx) off [Committed (data_frame l off (zlen msg + 32) tid F_UNFRAG T_DATA (rv off (zlen msg + 32) msg) msg)]))
                 (off + align (zlen msg + 32) 32) None).
Proof. intros Hlen Hfit. pose proof (zlen_nonneg msg) as H0.
  pose proof (legal_mpl l Hl) as (Hm1 & Hm2 & Hm3 & Hm4). pose proof (legal_tlen l Hl) as [Htl _].
  assert (Hd : l_tlen l / 8 <= l_tlen l) by (apply Z.div_le_upper_bound; lia).
  unfold ta_append_unfragmented. rewrite unfrag_lengths_ok by lia. cbn [bind].
  pose proof (align_bounds (zlen msg + 32) ltac:(lia)) as [Ha _].
  rewrite (tail_claim_ok l idx tid off) by (auto; unfold two32; lia). cbn [bind c_off c_log c_tid].
  assert (E2 : (l_tlen l <? off + align (zlen msg + 32) 32) = false) by lia. rewrite E2.
  rewrite wrap32_small by lia. reflexivity. Qed.

Lemma ta_frag_exact msg : max_payload_length l < zlen msg <= max_message_length l ->
  off + frag_required_spec (zlen msg) (max_payload_length l) <= l_tlen l ->
  ta_append_fragmented m rv l idx msg (max_payload_length l) tid =
  Ok (mkAppended (set_part (l1 (frag_required_spec (zlen msg) (max_payload_length l))) idx
                    (term_put (part l idx) off
                       (frag_loop (frag_fuel (zlen msg) (max_payload_length l)) (l1 (frag_required_spec (zlen msg) (max_payload_length l))) rv tid
                                  (max_payload_length l) (zlen msg) msg F_BEGIN (zlen msg) off)))
                 (off + frag_required_spec (zlen msg) (max_payload_length l)) None).
Proof. intros Hlen Hfit.
  pose proof (legal_mpl l Hl) as (Hm1 & Hm2 & Hm3 & Hm4). pose proof (legal_tlen l Hl) as [Htl _].
  assert (Hd : l_tlen l / 8 <= l_tlen l) by (apply Z.div_le_upper_bound; lia).
  unfold ta_append_fragmented. rewrite frag_required_ok by lia. cbn [bind].
  pose proof (frag_required_bounds (zlen msg) (max_payload_length l) Hm1 ltac:(lia)) as Hb.
  rewrite (tail_claim_ok l idx tid off) by (auto; unfold two32; lia). cbn [bind c_off c_log c_tid].
  assert (E2 : (l_tlen l <? off + frag_required_spec (zlen msg) (max_payload_length l)) = false) by lia. rewrite E2.
  rewrite wrap32_small by lia. reflexivity. Qed.

Lemma ta_claim_exact len : 0 <= len <= max_payload_length l -> off + align (len + 32) 32 <= l_tlen l ->
  ta_claim m l idx len tid =
  Ok (mkAppended (set_part (l1 (align (len + 32) 32)) idx
                    (term_put (part l idx) off [Claimed (data_frame l off (len + 32) tid F_UNFRAG T_DATA 0 [])]))
                 (off + align (len + 32) 32) (Some (idx, off, len + 32))).
Proof. intros Hlen Hfit.
  pose proof (legal_mpl l Hl) as (Hm1 & Hm2 & Hm3 & Hm4). pose proof (legal_tlen l Hl) as [Htl _].
  assert (Hd : l_tlen l / 8 <= l_tlen l) by (apply Z.div_le_upper_bound; lia).
  unfold ta_claim. rewrite unfrag_lengths_ok by lia. cbn [bind].
  pose proof (align_bounds (len + 32) ltac:(lia)) as [Ha _].
  rewrite (tail_claim_ok l idx tid off) by (auto; unfold two32; lia). cbn [bind c_off c_log c_tid].
  assert (E2 : (l_tlen l <? off + align (len + 32) 32) = false) by lia. rewrite E2.
  change (l_tlen (set_tail l idx (tid * two32 + (off + align (len + 32) 32)))) with (l_tlen l).
  assert (E3 : (off + (len + 32) <=? l_tlen l) = true) by lia. rewrite E3.
  rewrite wrap32_small by lia. reflexivity. Qed.
End SharedExact.

Section ExclExact.
Variables (m : mode) (rv : Z -> Z -> list Z -> Z) (l : log) (idx tid off : Z).
Hypothesis Hl : legal l.
Hypothesis Ho : 0 <= off <= l_tlen l.

Local Notation l1 req := (put_raw_tail l idx tid (off + req)).

Lemma eta_unfrag_exact msg : zlen msg <= max_payload_length l -> off + align (zlen msg + 32) 32 <= l_tlen l ->
  eta_append_unfragmented m rv l idx tid off msg =
  Ok (mkAppended (set_part (l1 (align (zlen msg + 32) 32)) idx
                    (term_put (part l idx) off [Committed (data_frame l off (zlen msg + 32) tid F_UNFRAG T_DATA (rv off (zlen msg + 32) msg) msg)]))
                 (off + align (zlen msg + 32) 32) None).
Proof. intros Hlen Hfit. pose proof (zlen_nonneg msg) as H0.
  pose proof (legal_mpl l Hl) as (Hm1 & Hm2 & Hm3 & Hm4). pose proof (legal_tlen l Hl) as [Htl _].
  assert (Hd : l_tlen l / 8 <= l_tlen l) by (apply Z.div_le_upper_bound; lia).
  unfold eta_append_unfragmented. rewrite unfrag_lengths_ok by lia. cbn [bind].
  pose proof (align_bounds (zlen msg + 32) ltac:(lia)) as [Ha _].
  rewrite add32_ok by (unfold in_i32, two31; lia). cbn [bind].
  assert (E2 : (l_tlen l <? off + align (zlen msg + 32) 32) = false) by lia. rewrite E2. reflexivity. Qed.

Lemma eta_frag_exact msg : max_payload_length l < zlen msg <= max_message_length l ->
  off + frag_required_spec (zlen msg) (max_payload_length l) <= l_tlen l ->
  eta_append_fragmented m rv l idx tid off msg (max_payload_length l) =
  Ok (mkAppended (set_part (l1 (frag_required_spec (zlen msg) (max_payload_length l))) idx
                    (term_put (part l idx) off
                       (frag_loop (frag_fuel (zlen msg) (max_payload_length l)) (l1 (frag_required_spec (zlen msg) (max_payload_length l))) rv tid
                                  (max_payload_length l) (zlen msg) msg F_BEGIN (zlen msg) off)))
                 (off + frag_required_spec (zlen msg) (max_payload_length l)) None).
Proof. intros Hlen Hfit.
  pose proof (legal_mpl l Hl) as (Hm1 & Hm2 & Hm3 & Hm4). pose proof (legal_tlen l Hl) as [Htl _].
  assert (Hd : l_tlen l / 8 <= l_tlen l) by (apply Z.div_le_upper_bound; lia).
  unfold eta_append_fragmented. rewrite frag_required_ok by lia. cbn [bind].
  pose proof (frag_required_bounds (zlen msg) (max_payload_length l) Hm1 ltac:(lia)) as Hb.
  rewrite add32_ok by (unfold in_i32, two31; lia). cbn [bind].
  assert (E2 : (l_tlen l <? off + frag_required_spec (zlen msg) (max_payload_length l)) = false) by lia. rewrite E2.
  reflexivity. Qed.

Lemma eta_claim_exact len : 0 <= len <= max_payload_length l -> off + align (len + 32) 32 <= l_tlen l ->
  eta_claim m l idx tid off len =
  Ok (mkAppended (set_part (l1 (align (len + 32) 32)) idx
                    (term_put (part l idx) off [Claimed (data_frame l off (len + 32) tid F_UNFRAG T_DATA 0 [])]))
                 (off + align (len + 32) 32) (Some (idx, off, len + 32))).
Proof. intros Hlen Hfit.
  pose proof (legal_mpl l Hl) as (Hm1 & Hm2 & Hm3 & Hm4). pose proof (legal_tlen l Hl) as [Htl _].
  assert (Hd : l_tlen l / 8 <= l_tlen l) by (apply Z.div_le_upper_bound; lia).
  unfold eta_claim. rewrite unfrag_lengths_ok by lia. cbn [bind].
  pose proof (align_bounds (len + 32) ltac:(lia)) as [Ha _].
  rewrite add32_ok by (unfold in_i32, two31; lia). cbn [bind].
  assert (E2 : (l_tlen l <? off + align (len + 32) 32) = false) by lia. rewrite E2.
  assert (E3 : (off + (len + 32) <=? l_tlen l) = true) by lia. rewrite E3. reflexivity. Qed.
End ExclExact.
