(* The shared Publication: invariant of every history from a handed-over log, and the exact case analysis of
   one offer / claim / bulk offer (`try_result`), from which the C04 statements follow. *)
Require Import V.Base.MachineInt.
Require Import V.Generated.GenConsts.
Require Import V.Model.Descriptor.
Require Import V.Model.LogBase.
Require Import V.Model.Appender.
Require Import V.Model.Publication.
Require Import V.Proofs.DescriptorProofs.
Require Import V.Proofs.AppenderProofs.
From Coq Require Import ZifyBool.
Open Scope Z_scope.

(* the publication limit the environment may set: at most half a term (the largest term window) beyond the end of
   the position space *)
Definition limit_ok (l : log) (v : Z) : Prop := v <= l_tlen l * two31 + l_tlen l / 2.

(* state at term count n with offset off in the active tail counter *)
Record pub_inv (n off : Z) (s : pubstate) : Prop := mkInv {
  pi_legal : legal (ps_log s);
  pi_n : 0 <= n < two31;
  pi_count : l_count (ps_log s) = n;
  pi_off : 0 <= off /\ (off <= l_tlen (ps_log s) \/ (n = two31 - 1 /\ off < 2 * l_tlen (ps_log s)));
  pi_tail : tail (ps_log s) (n mod 3) = wrap32 (l_init (ps_log s) + n) * two32 + off;
  pi_next : term_id_of (tail (ps_log s) ((n + 1) mod 3)) = wrap32 (l_init (ps_log s) + n + 1 - 3);
  pi_third : term_id_of (tail (ps_log s) ((n + 2) mod 3)) = wrap32 (l_init (ps_log s) + n + 2 - 3);
  pi_limit : limit_ok (ps_log s) (l_limit (ps_log s))
}.

Definition spec_pos (l : log) (n off : Z) : Z := n * l_tlen l + Z.min off (l_tlen l).

(* the refusal back_pressure_status chooses *)
Definition status_of (l : log) (position len : Z) : err :=
  if l_tlen l * two31 <=? position + len then MaxPositionExceeded
  else if l_connected l then BackPressured else NotConnected.

(* the log after the end-of-term trip in term n: tail bumped, padding frame, and (unless it is the last term) rotation *)
Definition bumped (l : log) (n off req : Z) : log :=
  put_padding (set_tail l (n mod 3) (wrap32 (l_init l + n) * two32 + (off + req))) (n mod 3) off (wrap32 (l_init l + n)).
Definition rotated (l : log) (n : Z) : log :=
  set_count (set_tail l ((n + 1) mod 3) (wrap32 (l_init l + n + 1) * two32)) (n + 1).

Inductive try_result (s : pubstate) (n off req len : Z) (toolong : bool) : pubstate * outcome Z -> Prop :=
| TR_closed : ps_closed s = true -> try_result s n off req len toolong (s, Err Closed)
| TR_refused : ps_closed s = false -> l_limit (ps_log s) <= n * l_tlen (ps_log s) + off ->
    try_result s n off req len toolong (s, Err (status_of (ps_log s) (n * l_tlen (ps_log s) + off) len))
| TR_toolong : ps_closed s = false -> n * l_tlen (ps_log s) + off < l_limit (ps_log s) -> toolong = true ->
    try_result s n off req len toolong (s, Err TooLong)
| TR_accept s' t' : toolong = false -> ps_closed s = false -> n * l_tlen (ps_log s) + off < l_limit (ps_log s) ->
    off + req <= l_tlen (ps_log s) ->
    ps_log s' = set_part (set_tail (ps_log s) (n mod 3) (wrap32 (l_init (ps_log s) + n) * two32 + (off + req))) (n mod 3) t' ->
    ps_closed s' = false ->
    try_result s n off req len toolong (s', Ok (n * l_tlen (ps_log s) + off + req))
| TR_trip s' : toolong = false -> ps_closed s = false -> n * l_tlen (ps_log s) + off < l_limit (ps_log s) ->
    l_tlen (ps_log s) < off + req -> n < two31 - 1 ->
    ps_log s' = rotated (bumped (ps_log s) n off req) n -> ps_closed s' = false -> ps_claim s' = ps_claim s ->
    try_result s n off req len toolong (s', Err AdminAction)
| TR_last s' : toolong = false -> ps_closed s = false -> n * l_tlen (ps_log s) + off < l_limit (ps_log s) ->
    l_tlen (ps_log s) < off + req -> two31 - 1 <= n ->
    ps_log s' = bumped (ps_log s) n off req -> ps_closed s' = false -> ps_claim s' = ps_claim s ->
    try_result s n off req len toolong (s', Err MaxPositionExceeded).

Lemma mod3_range n : 0 <= n mod 3 < 3. Proof. apply Z.mod_pos_bound. lia. Qed.
Lemma mod3_distinct n : n mod 3 <> (n + 1) mod 3 /\ n mod 3 <> (n + 2) mod 3 /\ (n + 1) mod 3 <> (n + 2) mod 3.
Proof. pose proof (Z.div_mod n 3 ltac:(lia)). pose proof (Z.div_mod (n+1) 3 ltac:(lia)). pose proof (Z.div_mod (n+2) 3 ltac:(lia)).
  pose proof (mod3_range n). pose proof (mod3_range (n+1)). pose proof (mod3_range (n+2)). lia. Qed.

Lemma index_by_term_count_nonneg n : 0 <= n < two31 -> index_by_term_count n = n mod 3.
Proof. intros H. unfold index_by_term_count, PARTITION_COUNT, GenConsts.PARTITION_COUNT. rewrite rem3_nonneg by lia.
  pose proof (mod3_range n). apply wrap32_id. unfold in_i32, two31. lia. Qed.

Lemma meta_get_tail l i : get_tail (meta_of l) i = tail l i.
Proof. reflexivity. Qed.

(* rotation of a consistent log, as a log *)
Lemma rotate_log_rotated m l n :
  legal l -> 0 <= n < two31 - 1 -> l_count l = n ->
  term_id_of (tail l (n mod 3)) = wrap32 (l_init l + n) ->
  term_id_of (tail l ((n + 1) mod 3)) = wrap32 (l_init l + n + 1 - 3) ->
  exists s', rotate_log m (meta_of l) n (wrap32 (l_init l + n)) = Ok s' /\ with_meta l s' = rotated l n.
Proof. intros Hl Hn Hc Ha Hx.
  destruct (rotate_log_spec m (l_init l) n (meta_of l) (legal_init l Hl) Hn) as (s' & Hr & Hcount & Htail & Hoth).
  { unfold meta_consistent. rewrite !meta_get_tail. cbn [count meta_of]. auto. }
  exists s'. split; [exact Hr|].
  pose proof (mod3_range (n + 1)) as Hm.
  assert (H0 : tail0 s' = get_tail s' 0) by reflexivity.
  assert (H1 : tail1 s' = get_tail s' 1) by reflexivity.
  assert (H2 : tail2 s' = get_tail s' 2) by reflexivity.
  unfold with_meta, rotated, set_count, set_tail. cbn [l_p0 l_p1 l_p2 l_t0 l_t1 l_t2 l_count l_init l_tlen l_mtu l_session l_stream l_limit l_connected].
  rewrite Hcount, H0, H1, H2. unfold raw_tail_of_term in Htail.
  assert (Hcase : (n + 1) mod 3 = 0 \/ (n + 1) mod 3 = 1 \/ (n + 1) mod 3 = 2) by lia.
  destruct Hcase as [E | [E | E]]; rewrite E in *; cbn [Z.eqb orb].
  - rewrite Htail. rewrite (Hoth 1) by lia. rewrite (Hoth 2) by lia. reflexivity.
  - rewrite Htail. rewrite (Hoth 0) by lia. rewrite (Hoth 2) by lia. reflexivity.
  - rewrite Htail. rewrite (Hoth 0) by lia. rewrite (Hoth 1) by lia. reflexivity.
Qed.

Section Try.
Variables (m : mode) (s : pubstate) (n off : Z).
Hypothesis Hinv : pub_inv n off s.
Local Notation l := (ps_log s).
Local Notation tid := (wrap32 (l_init (ps_log s) + n)).

Lemma inv_tid_i32 : in_i32 tid = true. Proof. apply wrap32_range. Qed.

Lemma inv_off_bound : 0 <= off < 2147483648 /\ 1024 <= l_tlen l <= 1073741824.
Proof. destruct Hinv. pose proof (legal_tlen _ pi_legal0) as [Htl _]. lia. Qed.

Lemma inv_begin : compute_term_begin_position tid (bits_of l) (l_init l) = n * l_tlen l.
Proof. destruct Hinv. destruct (legal_bits _ pi_legal0) as (bits & Hb & Ht & Hbo).
  rewrite Hbo. rewrite compute_term_begin_position_spec; try lia; [|apply legal_init; assumption].
  unfold spec_position. rewrite Ht. ring. Qed.

Lemma inv_maxpos : max_possible_position l = l_tlen l * two31.
Proof. destruct Hinv. apply legal_maxpos. assumption. Qed.

Lemma pub_try_cases len act req :
  0 <= len < two31 -> 0 < req <= l_tlen l / 2 ->
  act l (n mod 3) tid = Err TooLong \/ act_spec l (n mod 3) tid off req (act l (n mod 3) tid) ->
  (act l (n mod 3) tid = Err TooLong -> try_result s n off req len true (pub_try m s len act)) /\
  (act_spec l (n mod 3) tid off req (act l (n mod 3) tid) -> try_result s n off req len false (pub_try m s len act)).
Proof.
  intros Hlen Hreq Hact.
  pose proof Hinv as Hinv'. destruct Hinv' as [Hleg Hn Hcount Hoff Htail Hnext Hthird Hlim].
  pose proof inv_off_bound as [Hob Htl]. pose proof inv_tid_i32 as Htid. pose proof (mod3_range n) as Hm3.
  assert (Hhalf : l_tlen l / 2 * 2 <= l_tlen l).
  { pose proof (Z.div_mod (l_tlen l) 2 ltac:(lia)). pose proof (Z.mod_pos_bound (l_tlen l) 2 ltac:(lia)). lia. }
  assert (Hpre : forall k : pubstate * outcome Z -> Prop,
     (ps_closed s = true -> k (s, Err Closed)) ->
     (ps_closed s = false -> l_limit l <= n * l_tlen l + off -> k (s, Err (status_of l (n * l_tlen l + off) len))) ->
     (ps_closed s = false -> n * l_tlen l + off < l_limit l ->
        k (match act l (n mod 3) tid with
           | Ok a => let '(l2, r) := pub_new_position m (a_log a) n (wrap32 off) tid (n * l_tlen l + off) (a_result a) in
                     (mkPub l2 (ps_closed s) (match a_claim a with Some c => Some c | None => ps_claim s end), r)
           | Err TooLong => (s, Err TooLong)
           | Err _ => (s, Panic) | Panic => (s, Panic) | Hang => (s, Hang) | Crash => (s, Crash) end)) ->
     k (pub_try m s len act)).
  { intros k Kc Kr Ka. unfold pub_try. destruct (ps_closed s) eqn:Ec; [apply Kc; reflexivity|].
    rewrite Hcount. rewrite index_by_term_count_nonneg by assumption.
    assert (E0 : (n mod 3 <? 0) = false) by lia. rewrite E0.
    rewrite Htail. rewrite raw_mod by (unfold two32; lia). rewrite raw_tid by (auto; unfold two32; lia).
    rewrite inv_begin. rewrite add64_ok by (unfold in_i64, two63, two31 in *; nia).
    rewrite term_count_recovered by (auto; apply legal_init; assumption). rewrite Z.eqb_refl. cbn [negb].
    destruct (n * l_tlen l + off <? l_limit l) eqn:El.
    - apply Ka; [reflexivity | lia].
    - unfold back_pressure_status. rewrite add64_ok by (unfold in_i64, two63, two31 in *; nia). cbn [bind].
      rewrite inv_maxpos.
      assert (Hs : forall e, e = status_of l (n * l_tlen l + off) len -> k (s, Err e)) by (intros e ->; apply Kr; [reflexivity|lia]).
      unfold status_of in Hs.
      destruct (l_tlen l * two31 <=? n * l_tlen l + off + len); [apply Hs; reflexivity|].
      destruct (l_connected l); apply Hs; reflexivity. }
  split.
  - intros HE. apply Hpre.
    + intros Hc. apply TR_closed. assumption.
    + intros Hc Hl2. apply TR_refused; assumption.
    + intros Hc Hl2. rewrite HE. apply TR_toolong; auto.
  - intros (a & Ha & Hspec). apply Hpre.
    + apply TR_closed.
    + apply TR_refused.
    + intros Hc Hl2. rewrite Ha. cbv zeta in Hspec.
      rewrite wrap32_small by lia.
      destruct (off + req <=? l_tlen l) eqn:Efit.
      * destruct Hspec as (Hres & t' & Hlog).
        unfold pub_new_position. rewrite Hres.
        assert (E1 : (0 <? off + req) = true) by lia. rewrite E1.
        rewrite sub64_ok by (unfold in_i64, two63, two31 in *; nia). cbn [bind].
        rewrite add64_ok by (unfold in_i64, two63, two31 in *; nia).
        assert (E2 : (0 <=? n * l_tlen l + off - off + (off + req)) = true) by nia. rewrite E2.
        replace (n * l_tlen l + off - off + (off + req)) with (n * l_tlen l + off + req) by ring.
        eapply TR_accept with (t' := t'); try assumption; try lia; cbn [ps_log ps_closed]; auto.
      * destruct Hspec as (Hres & Hlog & Hclaim).
        unfold pub_new_position. rewrite Hres. unfold TERM_APPENDER_FAILED, GenConsts.TERM_APPENDER_FAILED.
        cbn [Z.ltb Z.compare].
        rewrite add64_ok by (unfold in_i64, two63, two31 in *; nia).
        assert (Hmp : max_possible_position (a_log a) = l_tlen l * two31).
        { rewrite Hlog. rewrite legal_maxpos.
          - destruct (same_geom_put_padding (set_tail l (n mod 3) (tid * two32 + (off + req))) (n mod 3) off tid) as (_ & H & _).
            rewrite <- H. reflexivity.
          - eapply legal_same; [|exact Hleg]. eapply same_geom_trans; [apply same_geom_set_tail|apply same_geom_put_padding]. }
        rewrite Hmp. rewrite Hclaim.
        assert (Hbump : a_log a = bumped l n off req) by (rewrite Hlog; reflexivity).
        destruct (Z.eq_dec n (two31 - 1)) as [Elast | Enl].
        -- assert (E3 : (l_tlen l * two31 <? n * l_tlen l + off + off) = true) by (unfold two31 in *; nia).
           rewrite E3. apply TR_last; try assumption; try lia; cbn [ps_log ps_closed ps_claim]; auto.
        -- assert (E3 : (l_tlen l * two31 <? n * l_tlen l + off + off) = false) by (unfold two31 in *; nia).
           rewrite E3.
           destruct (rotate_log_rotated m (a_log a) n) as (s' & Hrot & Hwm).
           ++ eapply legal_same; [|exact Hleg]. rewrite Hlog.
              eapply same_geom_trans; [apply same_geom_set_tail|apply same_geom_put_padding].
           ++ unfold two31 in *; lia.
           ++ rewrite Hlog. destruct (same_meta_put_padding (set_tail l (n mod 3) (tid * two32 + (off + req))) (n mod 3) off tid) as (_ & _ & _ & H & _).
              rewrite <- H. exact Hcount.
           ++ rewrite Hlog. rewrite <- (same_meta_tail _ _ _ (same_meta_put_padding _ _ _ _)).
              rewrite tail_set_tail_same by assumption.
              assert (Hi : l_init (put_padding (set_tail l (n mod 3) (tid * two32 + (off + req))) (n mod 3) off tid) = l_init l).
              { destruct (same_geom_put_padding (set_tail l (n mod 3) (tid * two32 + (off + req))) (n mod 3) off tid) as (H & _). rewrite <- H. reflexivity. }
              rewrite Hi. apply raw_tid; [assumption|unfold two32; lia].
           ++ rewrite Hlog. rewrite <- (same_meta_tail _ _ _ (same_meta_put_padding _ _ _ _)).
              assert (Hi : l_init (put_padding (set_tail l (n mod 3) (tid * two32 + (off + req))) (n mod 3) off tid) = l_init l).
              { destruct (same_geom_put_padding (set_tail l (n mod 3) (tid * two32 + (off + req))) (n mod 3) off tid) as (H & _). rewrite <- H. reflexivity. }
              rewrite Hi. rewrite tail_set_tail_other; [exact Hnext|assumption|apply mod3_range|apply mod3_distinct].
           ++ assert (Hi : l_init (a_log a) = l_init l).
              { rewrite Hlog. destruct (same_geom_put_padding (set_tail l (n mod 3) (tid * two32 + (off + req))) (n mod 3) off tid) as (H & _). rewrite <- H. reflexivity. }
              rewrite Hi in Hrot. rewrite Hrot.
              apply TR_trip; try assumption; try lia; cbn [ps_log ps_closed ps_claim]; auto.
              rewrite Hwm, Hbump. reflexivity.
Qed.
End Try.
