(* C10: what closing does - callbacks exactly once, everything closed, closed for good. *)
Require Import V.Base.MachineInt.
Require Import V.Generated.GenConsts.
Require Import V.Model.Conductor.
Require Import V.Proofs.ConductorBase.
Require Import V.Proofs.ConductorInv.
Require Import V.Proofs.ConductorProofs.
From Coq Require Import ZifyBool.
Open Scope Z_scope.

Definition is_close (c : cb) : bool := match c with CbClose => true | _ => false end.
Definition is_unavail_img (r img : Z) (c : cb) : bool :=
  match c with CbUnavailImg r' i' _ => (r' =? r) && (i' =? img) | _ => false end.
Definition is_unavail_ctr (r : Z) (c : cb) : bool := match c with CbUnavailCtr r' _ => r' =? r | _ => false end.

Definition n_close (cbs : list cb) : nat := length (filter is_close cbs).
Definition n_unavail_img (r img : Z) (cbs : list cb) : nat := length (filter (is_unavail_img r img) cbs).
Definition n_unavail_ctr (r : Z) (cbs : list cb) : nat := length (filter (is_unavail_ctr r) cbs).
Definition count_z (x : Z) (l : list Z) : nat := length (filter (Z.eqb x) l).

Lemma filter_none {A} (f : A -> bool) l : (forall x, In x l -> f x = false) -> filter f l = [].
Proof. induction l as [|a l IH]; cbn; intros H; auto. rewrite (H a) by auto. apply IH. intros. apply H. auto. Qed.

Lemma sub_cbs_count r img k o :
  o_closed o = false ->
  length (filter (is_unavail_img r img) (snd (close_sub_obj k o))) = if k =? r then count_z img (o_images o) else 0%nat.
Proof. intros Ho. unfold close_sub_obj. rewrite Ho. cbn [snd]. unfold count_z.
  induction (o_images o) as [|i l IH]; cbn; [destruct (k =? r); reflexivity|].
  destruct (k =? r) eqn:E; cbn [andb].
  - rewrite (Z.eqb_sym i img). destruct (img =? i); cbn [length]; rewrite IH; reflexivity.
  - exact IH. Qed.

Definition sub_close_cbs (m : amap) : list cb := flat_map (fun p => snd (close_sub_obj (fst p) (snd p))) (objs_of m).

Lemma close_subs_cbs m : snd (close_subs m) = sub_close_cbs m.
Proof. unfold close_subs, sub_close_cbs. cbn [snd]. induction (objs_of m) as [|p l IH]; cbn; auto. rewrite IH. reflexivity. Qed.

Lemma sub_cbs_count_map r img m n :
  map_ok n m ->
  length (filter (is_unavail_img r img) (sub_close_cbs m)) =
    match lookup r m with Some e => match e_obj e with Some o => count_z img (o_images o) | None => 0%nat end | None => 0%nat end.
Proof. unfold sub_close_cbs. induction m as [|[k e] m IH]; intros [Hnd F]; cbn; auto.
  inversion Hnd; subst. inversion F; subst. cbn in H3. destruct H3 as [_ [_ Hop]].
  assert (Hm : map_ok n m) by (split; auto). specialize (IH Hm).
  unfold objs_of in *. cbn [flat_map fst snd]. rewrite flat_map_app, filter_app, app_length, IH. clear IH.
  destruct (k =? r) eqn:E.
  - assert (k = r) by lia. subst k.
    assert (Hl : lookup r m = None) by (apply lookup_none_keys; exact H1). rewrite Hl.
    destruct (e_obj e) as [o|] eqn:Eo; cbn [flat_map app fst snd]; [|reflexivity].
    rewrite app_nil_r, sub_cbs_count by auto. rewrite Z.eqb_refl. lia.
  - destruct (e_obj e) as [o|] eqn:Eo; cbn [flat_map app fst snd]; [|reflexivity].
    rewrite app_nil_r, sub_cbs_count by auto. rewrite E. reflexivity. Qed.

Lemma ctr_cbs_count_map r m n :
  map_ok n m ->
  length (filter (is_unavail_ctr r) (snd (close_ctrs m))) =
    match lookup r m with Some e => match e_obj e with Some _ => 1%nat | None => 0%nat end | None => 0%nat end.
Proof. unfold close_ctrs. cbn [snd]. induction m as [|[k e] m IH]; intros [Hnd F]; cbn; auto.
  inversion Hnd; subst. inversion F; subst.
  assert (Hm : map_ok n m) by (split; auto). specialize (IH Hm).
  unfold objs_of in *. cbn [flat_map fst snd]. rewrite map_app, filter_app, app_length, IH. clear IH.
  destruct (k =? r) eqn:E.
  - assert (k = r) by lia. subst k.
    assert (Hl : lookup r m = None) by (apply lookup_none_keys; exact H1). rewrite Hl.
    destruct (e_obj e) as [o|] eqn:Eo; cbn; [|reflexivity]. rewrite Z.eqb_refl. reflexivity.
  - destruct (e_obj e) as [o|] eqn:Eo; cbn; [|reflexivity]. rewrite E. reflexivity. Qed.

Lemma sub_cbs_shape m x : In x (sub_close_cbs m) -> exists r i, x = CbUnavailImg r i 1.
Proof. unfold sub_close_cbs. intros H. apply in_flat_map in H. destruct H as ([k o] & _ & Hx). cbn in Hx.
  unfold close_sub_obj in Hx. destruct (o_closed o); cbn in Hx; [tauto|]. apply in_map_iff in Hx. destruct Hx as (i & <- & _). eauto. Qed.
Lemma ctr_cbs_shape m x : In x (snd (close_ctrs m)) -> exists r i, x = CbUnavailCtr r i.
Proof. unfold close_ctrs. cbn. intros H. apply in_map_iff in H. destruct H as (p & <- & _). eauto. Qed.

(* closing an open client: the close handler once; for every image of every subscription exactly one unavailable
   callback; for every counter handle alive exactly one unavailable callback *)
Lemma close_all_callbacks s : inv s -> closed s = false ->
  let cbs := snd (fst (close_all s)) in
  n_close cbs = 1%nat /\
  (forall r img, n_unavail_img r img cbs = match hobj KSub r s with Some o => count_z img (o_images o) | None => 0%nat end) /\
  (forall r, n_unavail_ctr r cbs = match hobj KCtr r s with Some _ => 1%nat | None => 0%nat end).
Proof. intros I Hc. unfold close_all. rewrite Hc.
  pose proof (close_subs_cbs (subs s)) as Hs. destruct (close_subs (subs s)) as [sl scbs]. cbn [snd] in Hs. subst scbs.
  destruct (close_ctrs (ctrs s)) as [cl ccbs] eqn:Ec. cbn [fst snd].
  assert (Hcc : ccbs = snd (close_ctrs (ctrs s))) by (rewrite Ec; reflexivity).
  unfold n_close, n_unavail_img, n_unavail_ctr. repeat split.
  - rewrite !filter_app, !app_length.
    rewrite (filter_none is_close (sub_close_cbs (subs s))), (filter_none is_close ccbs); [reflexivity| |].
    + intros x Hx. subst ccbs. apply ctr_cbs_shape in Hx. destruct Hx as (r & i & ->). reflexivity.
    + intros x Hx. apply sub_cbs_shape in Hx. destruct Hx as (r & i & ->). reflexivity.
  - intros r img. rewrite !filter_app, !app_length.
    rewrite (filter_none (is_unavail_img r img) ccbs).
    + cbn [filter length]. rewrite (sub_cbs_count_map r img (subs s) (next_corr s) (inv_map_ok s KSub I)).
      unfold hobj. cbn [getm is_unavail_img length]. destruct (lookup r (subs s)) as [e|]; [destruct (e_obj e)|]; lia.
    + intros x Hx. subst ccbs. apply ctr_cbs_shape in Hx. destruct Hx as (r' & i & ->). reflexivity.
  - intros r. rewrite !filter_app, !app_length.
    rewrite (filter_none (is_unavail_ctr r) (sub_close_cbs (subs s))).
    + cbn [filter length]. subst ccbs. rewrite (ctr_cbs_count_map r (ctrs s) (next_corr s) (inv_map_ok s KCtr I)).
      unfold hobj. cbn [getm is_unavail_ctr length]. destruct (lookup r (ctrs s)) as [e|]; [destruct (e_obj e)|]; lia.
    + intros x Hx. apply sub_cbs_shape in Hx. destruct Hx as (r' & i & ->). reflexivity. Qed.

Lemma close_all_closed_none s : closed s = true -> snd (fst (close_all s)) = [].
Proof. intros H. rewrite close_all_when_closed by auto. reflexivity. Qed.

(* after closing nothing is registered any more and every handle the user still holds is closed, a held
   subscription has no images left *)
Lemma find_orphan_in k r l o : find_orphan k r l = Some o -> In (k, r, o) l.
Proof. induction l as [|[[k' r'] o'] l IH]; cbn; [discriminate|].
  destruct (kind_eqb k' k && (r' =? r)) eqn:E.
  - intros H. inversion H; subst. left. apply andb_prop in E. destruct E as [E1 E2]. apply kind_eqb_eq in E1. subst.
    f_equal. f_equal. lia.
  - intros H. right. auto. Qed.

Lemma closed_handles s k r o : k <> KDest -> inv s -> closed s = true -> user_obj k r s = Some o ->
  o_closed o = true /\ (k = KSub -> o_images o = []).
Proof. intros Hk (I1 & I2 & I3 & I4 & I5) Hc Hu.
  assert (Ho : find_orphan k r (orphans s) = Some o).
  { unfold user_obj in Hu. rewrite (I3 Hc k Hk) in Hu. exact Hu. }
  apply find_orphan_in in Ho. rewrite Forall_forall in I5. destruct (I5 _ Ho) as [A B]. cbn in *. auto. Qed.

(* ---- closed is for good; the close handler fires once in the whole history ---- *)
Lemma step_closed_mono c s o : inv s -> closed s = true -> closed (fst (step c s o)) = true.
Proof. intros I Hc.
  destruct (chan_op o) eqn:Ech.
  { destruct o; try discriminate. cbn [step]. apply do_work_closed_mono. exact Hc. }
  assert (H : exists k r, o <> DropHandle k r).
  { destruct o; try (exists KPub, 0; congruence). exists k, (r + 1). intros H. inversion H. lia. }
  destruct H as (k & r & Hne). destruct (step_stable c s o k r I Hne Ech) as [_ B]. auto. Qed.

Lemma closed_api_refused c s : closed s = true ->
  (forall k a1 a2 a3, do_add k a1 a2 a3 s = (s, (Err Closed, [], [])) \/ do_add k a1 a2 a3 s = (s, (Err DriverInactive, [], []))) /\
  (forall k r, do_find c k r s = (s, (Err Closed, [], []))).
Proof. intros Hc. split.
  - intros. unfold do_add. rewrite Hc. destruct (negb (driver_active s)); cbn; auto.
  - intros. apply find_closed. auto. Qed.

Definition delta (s s' : st) : nat := if closed s then 0%nat else if closed s' then 1%nat else 0%nat.

Lemma delta_trans a b c : (closed a = true -> closed b = true) -> (closed b = true -> closed c = true) ->
  (delta a b + delta b c = delta a c)%nat.
Proof. unfold delta. destruct (closed a), (closed b), (closed c); intros H1 H2; auto;
  try (specialize (H1 eq_refl); discriminate); try (specialize (H2 eq_refl); discriminate). Qed.

Lemma close_all_delta s : inv s -> n_close (snd (fst (close_all s))) = delta s (fst (fst (close_all s))).
Proof. intros I. unfold delta. destruct (closed s) eqn:Hc.
  - rewrite close_all_closed_none by auto. reflexivity.
  - rewrite close_all_closed. destruct (close_all_callbacks s I Hc) as [A _]. exact A. Qed.

Lemma n_close_app a b : n_close (a ++ b) = (n_close a + n_close b)%nat.
Proof. unfold n_close. rewrite filter_app, app_length. reflexivity. Qed.

Lemma delta_same s s' : closed s' = closed s -> delta s s' = 0%nat.
Proof. unfold delta. intros ->. destruct (closed s); reflexivity. Qed.

Lemma close_all_delta' s s1 cbs hang : inv s -> close_all s = (s1, cbs, hang) -> n_close cbs = delta s s1.
Proof. intros I H. pose proof (close_all_delta s I) as X. rewrite H in X. exact X. Qed.

(* callbacks of a channel endpoint error: the error handler and unavailable-image callbacks only *)
Lemma chan_cbs_shape k x m c : In c (chan_cbs k x m) -> c = CbErr (EChannelEndpoint x) \/ exists r i, c = CbUnavailImg r i 1.
Proof. unfold chan_cbs. intros H. apply in_flat_map in H. destruct H as ([r e] & _ & Hx). cbn [fst snd] in Hx.
  destruct (chan_hit k x e) as [o|]; [|destruct Hx]. destruct Hx as [<-|Hx]; [left; reflexivity|]. right.
  destruct k; try destruct Hx. unfold close_sub_obj in Hx. destruct (o_closed o); cbn in Hx; [tauto|].
  apply in_map_iff in Hx. destruct Hx as (i & <- & _). eauto. Qed.

Lemma chan_cbs_pub_shape k x m c : k <> KSub -> In c (chan_cbs k x m) -> c = CbErr (EChannelEndpoint x).
Proof. unfold chan_cbs. intros Hk H. apply in_flat_map in H. destruct H as ([r e] & _ & Hx). cbn [fst snd] in Hx.
  destruct (chan_hit k x e) as [o|]; [|destruct Hx]. destruct k; try congruence; destruct Hx as [<-|[]]; reflexivity. Qed.

Lemma on_chan_error_cbs_shape x s c : In c (snd (fst (on_chan_error x s))) -> c = CbErr (EChannelEndpoint x) \/ exists r i, c = CbUnavailImg r i 1.
Proof. unfold on_chan_error. cbn [fst snd]. intros H. apply in_app_or in H. destruct H as [H|H]; [eapply chan_cbs_shape; eauto|].
  apply in_app_or in H. destruct H as [H|H]; eapply chan_cbs_shape; eauto. Qed.

Lemma on_chan_error_no_close x s : n_close (snd (fst (on_chan_error x s))) = 0%nat.
Proof. unfold n_close. rewrite filter_none; [reflexivity|]. intros c Hc. apply on_chan_error_cbs_shape in Hc.
  destruct Hc as [->|(r & i & ->)]; reflexivity. Qed.

Lemma on_chan_error_closed x s : closed (fst (fst (on_chan_error x s))) = closed s.
Proof. reflexivity. Qed.

Lemma on_event_close_count ev s : inv s -> n_close (snd (fst (on_event ev s))) = delta s (fst (fst (on_event ev s))).
Proof. intros I. destruct ev; cbn [on_event];
  try (repeat dmatch; cbn [fst snd]; rewrite delta_same by (rewrite ?setm_closed; reflexivity); reflexivity).
  - cbn [fst snd]. rewrite delta_same; [reflexivity|]. unfold on_error. repeat dmatch; rewrite ?setm_closed; reflexivity.
  - destruct ((cid =? client_id s) && negb (closed s)); [|cbn; rewrite delta_same; reflexivity].
    destruct (close_all s) as [[s1 cbs] hang] eqn:E. cbn [fst snd]. rewrite n_close_app. cbn. rewrite (close_all_delta' _ _ _ _ I E). lia.
  - rewrite on_chan_error_no_close, delta_same; [reflexivity|apply on_chan_error_closed]. Qed.

Lemma hc_service_close_count c t s : inv s -> n_close (snd (fst (hc_service c t s))) = delta s (fst (fst (hc_service c t s))).
Proof. intros I. unfold hc_service. dmatch; [|cbn; rewrite delta_same; reflexivity].
  destruct (close_all s) as [[s1 cbs] hang] eqn:E. cbn [fst snd]. rewrite n_close_app. cbn. rewrite (close_all_delta' _ _ _ _ I E). lia. Qed.

Lemma hc_heartbeat_close_count s : inv s -> n_close (snd (fst (hc_heartbeat s))) = delta s (fst (fst (hc_heartbeat s))).
Proof. intros I. unfold hc_heartbeat. destruct (hb_bound s); destruct (hb_env s =? 1); try (cbn; rewrite delta_same; reflexivity).
  destruct (close_all s) as [[s1 cbs] hang] eqn:E. cbn [fst snd]. rewrite n_close_app. cbn. rewrite (close_all_delta' _ _ _ _ I E). lia. Qed.

Lemma hc_keepalive_close_count c t s : inv s ->
  n_close (snd (fst (fst (hc_keepalive c t s)))) = delta s (fst (fst (fst (hc_keepalive c t s)))).
Proof. intros I. unfold hc_keepalive. dmatch; [|cbn; rewrite delta_same; reflexivity].
  pose proof (hc_driver_inv c t s I) as I1.
  assert (D : n_close (snd (hc_driver c t s)) = 0%nat /\ closed (fst (hc_driver c t s)) = closed s) by (unfold hc_driver; dmatch; split; reflexivity).
  destruct (hc_driver c t s) as [s' cbs']. cbn [fst snd] in *. destruct D as [D1 D2].
  pose proof (hc_heartbeat_close_count s' I1) as H. destruct (hc_heartbeat s') as [[s'' cbs''] hang'']. cbn [fst snd] in *.
  rewrite n_close_app, D1, H. unfold delta. cbn. rewrite D2. reflexivity. Qed.

Lemma heartbeat_check_close_count c s : inv s ->
  n_close (snd (fst (fst (heartbeat_check c s)))) = delta s (fst (fst (fst (heartbeat_check c s)))).
Proof. intros I. unfold heartbeat_check.
  pose proof (hc_service_close_count c (now s) s I) as H1. pose proof (hc_service_inv c (now s) s I) as I1.
  pose proof (hc_service_stable c (now s) s) as [_ M1].
  destruct (hc_service c (now s) s) as [[s1 cbs1] hang1]. cbn [fst snd] in *.
  assert (I2 : inv (set_t_work (now s) s1)) by exact I1.
  pose proof (hc_keepalive_close_count c (now s) _ I2) as H3. pose proof (hc_keepalive_stable c (now s) (set_t_work (now s) s1)) as [_ M3].
  destruct (hc_keepalive c (now s) (set_t_work (now s) s1)) as [[[s3 cbs3] hang3] r3]. cbn [fst snd] in *.
  assert (R : closed (fst (hc_resources (now s) s3)) = closed s3) by (unfold hc_resources; dmatch; reflexivity).
  destruct (hc_resources (now s) s3) as [s4 r4]. cbn [fst snd] in *.
  rewrite n_close_app, H1, H3. unfold delta in *. cbn in *. rewrite R.
  destruct (closed s), (closed s1), (closed s3); auto; try (specialize (M1 eq_refl); discriminate); try (specialize (M3 eq_refl); discriminate). Qed.

Lemma do_release_cbs_no_close k r imgs s : n_close (fst (snd (do_release k r imgs s))) = 0%nat.
Proof. assert (Hi : n_close (inactive_cb s) = 0%nat) by (unfold inactive_cb; destruct (driver_active s); reflexivity).
  assert (Hm : n_close (map (fun img => CbUnavailImg r img 1) imgs) = 0%nat).
  { unfold n_close. rewrite filter_none; auto. intros x Hx. apply in_map_iff in Hx. destruct Hx as (i & <- & _). reflexivity. }
  unfold do_release. dmatch; [|exact Hi]. destruct (ring_full s); [destruct k|]; cbn [fst snd]; rewrite ?n_close_app, ?Hi, ?Hm; reflexivity. Qed.

(* the number of close-handler calls of one operation: one when this operation closes the client, else none *)
Lemma step_close_count c s o : inv s -> n_close (snd (fst (snd (step c s o)))) = delta s (fst (step c s o)).
Proof. intros I. destruct o; cbn [step].
  - unfold do_add. repeat dmatch; cbn [fst snd]; rewrite delta_same; rewrite ?setm_closed; reflexivity.
  - unfold do_find. repeat dmatch; cbn [fst snd]; rewrite delta_same; rewrite ?setm_closed; reflexivity.
  - rewrite do_drop_eq. destruct k; try (cbn; rewrite delta_same; reflexivity);
    (destruct (user_obj _ r s) as [o|]; [|cbn; rewrite delta_same; reflexivity]); cbn [fst snd];
    (rewrite delta_same; [|change (closed (set_orphans ?a ?b)) with (closed b); apply dtor_user_closed]);
    unfold dtor_user; try destruct (o_closed o); try reflexivity; apply do_release_cbs_no_close.
  - unfold do_peek. dmatch; cbn; rewrite delta_same; reflexivity.
  - unfold do_close. destruct (close_all s) as [[s1 cbs] hang] eqn:E. pose proof (close_all_delta' _ _ _ _ I E) as H.
    apply close_all_no_hang' in E. subst. destruct (close_sent s1); cbn [fst snd]; rewrite H; reflexivity.
  - cbn. rewrite delta_same; reflexivity.
  - cbn. rewrite delta_same; reflexivity.
  - cbn. rewrite delta_same; reflexivity.
  - cbn. rewrite delta_same; reflexivity.
  - unfold do_work. destruct b; try (cbn; rewrite delta_same; reflexivity).
    + cbn. pose proof (heartbeat_check_close_count c s I) as H. pose proof (heartbeat_check_no_hang c s) as Hh.
      destruct (heartbeat_check c s) as [[[s2 cbs2] hang2] r]. cbn in *. subst. exact H.
    + pose proof (on_event_close_count e s I) as H1. pose proof (on_event_inv e s I) as I1. pose proof (on_event_no_hang e s) as Hh1.
      pose proof (on_event_closed_mono e s) as M1.
      destruct (on_event e s) as [[s1 cbs1] hang1]. cbn [fst snd] in *. subst.
      pose proof (heartbeat_check_close_count c s1 I1) as H. pose proof (heartbeat_check_no_hang c s1) as Hh.
      pose proof (heartbeat_check_stable c s1) as [_ M2].
      destruct (heartbeat_check c s1) as [[[s2 cbs2] hang2] r]. cbn [fst snd] in *. subst.
      cbn [fst snd]. rewrite n_close_app, H1, H. apply delta_trans; auto.
  - unfold do_close_handle. repeat dmatch; cbn [fst snd]; rewrite delta_same; reflexivity. Qed.

Definition all_cbs (xs : list out) : list cb := flat_map (fun x : out => snd (fst x)) xs.

(* over any history the close handler fires exactly once if the client ends up closed, never otherwise, and never
   again once the client is closed *)
Lemma close_handler_once c ops : forall s, inv s ->
  n_close (all_cbs (snd (run c s ops))) = delta s (fst (run c s ops)) /\
  (closed s = true -> closed (fst (run c s ops)) = true).
Proof. induction ops as [|o ops IH]; intros s I; cbn.
  - split; auto. unfold delta. destruct (closed s); reflexivity.
  - pose proof (step_close_count c s o I) as H. pose proof (step_inv c s o I) as I1. pose proof (step_closed_mono c s o I) as M.
    destruct (step c s o) as [s1 [[r cbs] cmds]]. cbn [fst snd] in *.
    destruct (IH s1 I1) as [A B]. destruct (run c s1 ops) as [s2 xs]. cbn [fst snd] in *.
    unfold all_cbs in *. cbn [flat_map fst snd]. rewrite n_close_app, H, A. split; [apply delta_trans; auto|auto]. Qed.
