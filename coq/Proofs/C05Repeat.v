(* C05_repeat: repeated polls while the log keeps growing.
   A term partition holds a prefix `pre` (nobody reads it), then the frames of `stream`, of which the first v are
   committed so far, then `tail` (a claimed frame or nothing: its length word is not positive).  A position "on frame
   boundary a" of the stream stays on a frame boundary under every poll flavour, and what the polls consume is the
   stream's data frames between the boundaries - once each, in order. *)
Require Import V.Base.MachineInt.
Require Import V.Generated.GenConsts.
Require Import V.Model.LogBase.
Require Import V.Model.Descriptor.
Require Import V.Model.Reader.
Require Import V.Model.Image.
Require Import V.Oracle.C05Cases.
Require Import V.Oracle.C05Oracle.
Require Import V.Proofs.DescriptorProofs.
Require Import V.Proofs.ReaderProofs.
Require Import V.Proofs.ImageProofs.
Require Import V.Proofs.C05OracleProofs.
Require Import V.Proofs.C05Readable.
From Coq Require Import ZifyBool.
Open Scope Z_scope.

Record shows (bits init n : Z) (l : log) (pre : term) (stream : list frame) (tail : term) (v : nat) : Prop := {
  sh_tl : l_tlen l = 2 ^ bits;
  sh_init : l_init l = init;
  sh_bits : 16 <= bits <= 30;
  sh_i32 : in_i32 init = true;
  sh_n : 0 <= n < two31;
  sh_part : part l (n mod 3) = pre ++ map Committed (firstn v stream) ++ tail;
  sh_pre : entries_pos pre;
  sh_pre_al : term_end pre mod 32 = 0;
  sh_tail : avail tail = [];
  sh_stream : wf_frames (wrap32 (init + n)) (2 ^ bits) (term_end pre) stream = true;
  sh_v : (v <= length stream)%nat
}.

Definition boundary_off (pre : term) (stream : list frame) (a : nat) : Z := term_end pre + span_sum (firstn a stream).
Definition boundary (bits n : Z) (pre : term) (stream : list frame) (a : nat) : Z :=
  n * 2 ^ bits + boundary_off pre stream a.
(* the data frames of the stream between boundaries a and a' *)
Definition between (pre : term) (stream : list frame) (a a' : nat) : list dlv :=
  data_of (place (boundary_off pre stream a) (firstn (a' - a) (skipn a stream))).

Lemma firstn_add {A} : forall a k (l : list A), firstn (a + k) l = firstn a l ++ firstn k (skipn a l).
Proof. induction a; intros k l; [reflexivity|]. destruct l; cbn [Nat.add firstn skipn app].
  - destruct k; reflexivity.
  - f_equal. apply IHa. Qed.

Lemma skipn_skipn' {A} : forall y x (l : list A), skipn x (skipn y l) = skipn (y + x) l.
Proof. induction y; intros x l; [reflexivity|]. destruct l; cbn [Nat.add skipn]; [destruct x; reflexivity|]. apply IHy. Qed.

Lemma term_end_app a b : term_end (a ++ b) = term_end a + term_end b.
Proof. induction a; cbn [app term_end]; lia. Qed.

Lemma term_end_committed fs : term_end (map Committed fs) = span_sum fs.
Proof. induction fs; cbn [map term_end span_sum entry_span]; [reflexivity|]. unfold span. lia. Qed.

Lemma entries_pos_app a b : entries_pos a -> entries_pos b -> entries_pos (a ++ b).
Proof. unfold entries_pos. intros. apply Forall_app. auto. Qed.

Lemma entries_pos_committed fs : frames_pos fs -> entries_pos (map Committed fs).
Proof. induction 1; cbn [map]; constructor; auto. cbn [entry_span]. pose proof (span_bounds x H). unfold span in *. lia. Qed.

Lemma span_sum_mod32 fs : frames_pos fs -> span_sum fs mod 32 = 0.
Proof. induction 1; cbn [span_sum]; [reflexivity|]. pose proof (span_bounds x H) as (_ & _ & Hm).
  rewrite Z.add_mod, Hm, IHForall by lia. reflexivity. Qed.

Lemma wf_frames_app tid cap : forall a b off,
  wf_frames tid cap off (a ++ b) = wf_frames tid cap off a && wf_frames tid cap (off + span_sum a) b.
Proof. induction a as [|f r IH]; intros b off; cbn [app wf_frames span_sum].
  - rewrite Z.add_0_r. reflexivity.
  - rewrite IH. replace (off + span f + span_sum r) with (off + (span f + span_sum r)) by lia.
    rewrite !andb_assoc. reflexivity. Qed.

Lemma wf_frames_seg tid cap off stream a j : wf_frames tid cap off stream = true ->
  wf_frames tid cap (off + span_sum (firstn a stream)) (firstn j (skipn a stream)) = true.
Proof. intros H. rewrite <- (firstn_skipn a stream) in H at 1. rewrite wf_frames_app in H. apply andb_prop in H as [_ H].
  rewrite <- (firstn_skipn j (skipn a stream)) in H. rewrite wf_frames_app in H. apply andb_prop in H as [H _]. exact H. Qed.

(* what a reader sees at boundary a when v frames are committed *)
Lemma view_at pre stream tail v a : entries_pos pre -> frames_pos stream -> avail tail = [] -> (a <= v)%nat ->
  view (pre ++ map Committed (firstn v stream) ++ tail) (boundary_off pre stream a)
  = firstn (v - a) (skipn a stream).
Proof. intros Hpre Hs Ht Hav. unfold view, boundary_off.
  replace v with (a + (v - a))%nat at 1 by lia. rewrite firstn_add, map_app, <- app_assoc, app_assoc.
  replace (term_end pre + span_sum (firstn a stream)) with (term_end (pre ++ map Committed (firstn a stream)))
    by (rewrite term_end_app, term_end_committed; reflexivity).
  rewrite seek_app_end.
  - rewrite avail_committed_app, Ht, app_nil_r; [reflexivity|]. apply frames_pos_firstn, frames_pos_skipn. assumption.
  - apply entries_pos_app; [assumption|]. apply entries_pos_committed, frames_pos_firstn. assumption. Qed.

Lemma shows_ctx bits init n l pre stream tail v a :
  shows bits init n l pre stream tail v -> (a <= v)%nat -> boundary_off pre stream a < 2 ^ bits ->
  ctx bits init (boundary bits n pre stream a) l (firstn (v - a) (skipn a stream))
  /\ boundary bits n pre stream a / 2 ^ bits = n /\ boundary bits n pre stream a mod 2 ^ bits = boundary_off pre stream a.
Proof. intros [Htl Hi Hb Hii Hn Hpart Hpre Hal Htail Hwf Hv] Hav Hin.
  pose proof (wf_frames_pos _ _ _ _ Hwf) as Hsp.
  assert (H2 : 0 < 2 ^ bits) by (apply pow2_pos; lia).
  assert (Hte : 0 <= term_end pre).
  { clear -Hpre. induction Hpre; cbn [term_end]; lia. }
  pose proof (span_sum_nonneg _ (frames_pos_firstn a stream Hsp)) as Hss.
  assert (Hoff : 0 <= boundary_off pre stream a < 2 ^ bits) by (unfold boundary_off in *; lia).
  assert (Hdiv : boundary bits n pre stream a / 2 ^ bits = n).
  { unfold boundary. symmetry. apply Z.div_unique with (boundary_off pre stream a); lia. }
  assert (Hmod : boundary bits n pre stream a mod 2 ^ bits = boundary_off pre stream a).
  { unfold boundary. symmetry. apply Z.mod_unique with n; lia. }
  split; [|split; assumption]. constructor; try assumption.
  - unfold wf_call. rewrite Hdiv, Hmod, FA_32.
    assert (Ha32 : boundary_off pre stream a mod 32 = 0).
    { unfold boundary_off. rewrite Z.add_mod, Hal, (span_sum_mod32 _ (frames_pos_firstn a stream Hsp)) by lia. reflexivity. }
    rewrite Ha32, Hii. unfold boundary_off. rewrite (wf_frames_seg _ _ _ _ a (v - a) Hwf).
    assert (0 <= boundary bits n pre stream a) by (unfold boundary; nia).
    assert (E : (16 <=? bits) && (bits <=? 30) && true && (0 <=? boundary bits n pre stream a) && (n <? two31) && (0 =? 0) = true) by lia.
    rewrite E. reflexivity.
  - rewrite Hdiv, Hmod, Hpart. symmetry. apply view_at; assumption. Qed.

Theorem repeat_step bits init n l im pre stream tail v a limit fl :
  shows bits init n l pre stream tail v -> (a <= v)%nat -> boundary_off pre stream a < 2 ^ bits ->
  im_pos im = boundary bits n pre stream a -> im_closed im = false ->
  exists ret ds ws im' a', run_poll l im limit fl = Ok (ret, ds, ws, im') /\
    (a <= a' <= v)%nat /\ im_pos im' = boundary bits n pre stream a' /\ im_closed im' = false /\
    exists ab, ds = between pre stream a a' ++ ab /\ ret = Ok (Z.of_nat (length (between pre stream a a'))).
Proof. intros Hsh Hav Hin Hpos Hcl.
  destruct (shows_ctx _ _ _ _ _ _ _ _ a Hsh Hav Hin) as (Hctx & Hdiv & Hmod). rewrite <- Hpos in Hctx, Hdiv, Hmod.
  set (fs := firstn (v - a) (skipn a stream)) in *.
  destruct (poll_run bits init l im fs Hctx Hcl limit fl) as (k & ab & Hk & Ha & He).
  pose proof (advance bits init l im fs Hctx Hcl limit fl _ _ _ _ He) as (k' & ab' & Hk' & Hp' & Hr' & Hd' & _ & _).
  pose proof (sh_v _ _ _ _ _ _ _ _ Hsh) as Hv.
  assert (Hlen : length fs = (v - a)%nat).
  { unfold fs. rewrite firstn_length, skipn_length. lia. }
  assert (Hfk : firstn k' fs = firstn k' (skipn a stream)).
  { unfold fs. rewrite firstn_firstn. f_equal. lia. }
  do 4 eexists. exists (a + k')%nat. split; [exact He|]. split; [lia|]. split.
  - rewrite Hp', Hpos. unfold boundary, boundary_off, consumed. rewrite Hfk, firstn_add, span_sum_app. lia.
  - split; [exact Hcl|]. exists (aborted (im_pos im mod 2 ^ bits) fs k' ab').
    assert (Hb : frags (im_pos im mod 2 ^ bits) fs k' = between pre stream a (a + k')).
    { unfold frags, between, consumed. rewrite Hmod, Hfk. replace (a + k' - a)%nat with k' by lia. reflexivity. }
    rewrite <- Hb. split; [exact Hd'|]. inversion Hr'. reflexivity. Qed.

Theorem between_app pre stream a b c : (a <= b <= c)%nat ->
  between pre stream a b ++ between pre stream b c = between pre stream a c.
Proof. intros H. unfold between, boundary_off.
  replace (c - a)%nat with ((b - a) + (c - b))%nat by lia. rewrite (firstn_add (b - a) (c - b)), place_app, data_of_app.
  rewrite skipn_skipn'. replace (a + (b - a))%nat with b by lia.
  assert (E : span_sum (firstn b stream) = span_sum (firstn a stream) + span_sum (firstn (b - a) (skipn a stream))).
  { rewrite <- span_sum_app, <- firstn_add. f_equal. f_equal. lia. }
  rewrite E. f_equal. f_equal. f_equal. lia. Qed.

Lemma between_nil pre stream a : between pre stream a a = [].
Proof. unfold between. rewrite Nat.sub_diag. reflexivity. Qed.

(* a run of polls: each step has its own snapshot of the log (v frames visible), flavour, limit and script;
   the fragments *consumed* by a poll are the first `ret` fragments handed over (an aborted one is not consumed) *)
Definition pstep := (log * term * nat * Z * flavour)%type.

Fixpoint run_polls (steps : list pstep) (im : image) : option (list dlv * image) :=
  match steps with
  | [] => Some ([], im)
  | (l, _, _, limit, fl) :: r =>
      match run_poll l im limit fl with
      | Ok (Ok c, ds, _, im') =>
          match run_polls r im' with
          | Some (cs, im'') => Some (firstn (Z.to_nat c) ds ++ cs, im'')
          | None => None
          end
      | _ => None
      end
  end.

(* every snapshot shows at least the frames already consumed, and the position stays inside the term *)
Fixpoint polls_ok (bits init n : Z) (pre : term) (stream : list frame) (steps : list pstep) (a : nat) : Prop :=
  match steps with
  | [] => True
  | (l, tail, v, _, _) :: r =>
      shows bits init n l pre stream tail v /\ (a <= v)%nat /\ boundary_off pre stream a < 2 ^ bits /\
      forall a', (a <= a' <= v)%nat -> polls_ok bits init n pre stream r a'
  end.

Lemma firstn_app_exact {A} (x y : list A) : firstn (length x) (x ++ y) = x.
Proof. rewrite firstn_app, Nat.sub_diag, firstn_all. cbn [firstn]. apply app_nil_r. Qed.

Theorem repeat_polls bits init n pre stream : forall steps im a,
  polls_ok bits init n pre stream steps a -> im_pos im = boundary bits n pre stream a -> im_closed im = false ->
  exists cs im' a', run_polls steps im = Some (cs, im') /\ (a <= a')%nat /\
    im_pos im' = boundary bits n pre stream a' /\ cs = between pre stream a a'.
Proof. induction steps as [|[[[[l tail] v] limit] fl] r IH]; intros im a Hok Hpos Hcl.
  - exists [], im, a. cbn [run_polls]. rewrite between_nil. repeat split; auto.
  - cbn [polls_ok] in Hok. destruct Hok as (Hsh & Hav & Hin & Hrest).
    destruct (repeat_step _ _ _ _ _ _ _ _ _ _ limit fl Hsh Hav Hin Hpos Hcl)
      as (ret & ds & ws & im1 & a1 & He & Ha1 & Hp1 & Hc1 & ab & Hds & Hret).
    destruct (IH im1 a1 (Hrest a1 Ha1) Hp1 Hc1) as (cs & im2 & a2 & Hr & Ha2 & Hp2 & Hcs).
    exists (between pre stream a a1 ++ cs), im2, a2. cbn [run_polls]. rewrite He, Hret, Hr, Hds, Nat2Z.id, firstn_app_exact.
    split; [reflexivity|]. split; [lia|]. split; [assumption|]. rewrite Hcs. apply between_app. lia. Qed.
