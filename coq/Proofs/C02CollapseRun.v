(* Collapse, assembled: any number of admissible steps of ONE publisher machine running alone on the log the driver
   hands over (that is: every schedule of the system in which only this thread is a publisher), run until the thread is
   done, gives the results and the log of the sequential Publication model (Model/Publication.v, Appender.v) folded over the
   same message list with the same retry loop. *)
Require Import V.Base.MachineInt.
Require Import V.Generated.GenConsts.
Require Import V.Model.LogBase.
Require Import V.Model.Descriptor.
Require Import V.Proofs.DescriptorProofs.
Require Import V.Model.Sched.
Require Import V.Model.AppenderThreads.
Require Import V.Model.Appender.
Require Import V.Model.Publication.
Require Import V.Proofs.TailArith.
Require Import V.Proofs.FragArith.
Require Import V.Proofs.AppenderInv.
Require Import V.Proofs.AppenderLemmas.
Require Import V.Proofs.C02Proofs.
Require Import V.Proofs.C02Render.
Require Import V.Proofs.C02SeqTerm.
Require Import V.Proofs.C02Solo.
Require Import V.Proofs.C02Collapse.
From Coq Require Import ZifyBool.
Open Scope Z_scope.

(* admissible steps of thread t, nobody else moving *)
Inductive ssteps (c : cfg) (t : nat) : shared -> plocal -> shared -> plocal -> Prop :=
| ssteps_refl s l : ssteps c t s l s l
| ssteps_cons s l s1 l1 e s2 l2 :
    adm_pub c s (P1 t l) l -> pstep c t s l = Some (s1, l1, e) -> ssteps c t s1 l1 s2 l2 -> ssteps c t s l s2 l2.

Section Run.
  Variable c : cfg.
  Hypothesis W : wf_cfg c.
  Variable t : nat.

  (* a step that records no result does not end the thread *)
  Lemma start_pc todo b res : p_pc (p_start todo b res) = PDone \/ p_pc (p_start todo b res) = PReadLimit.
  Proof. unfold p_start. destruct todo; destruct b; auto. Qed.

  Lemma finish_pc r l : p_pc (finish r l) = PDone \/ p_pc (finish r l) = PReadLimit.
  Proof. apply start_pc. Qed.

  Lemma pstep_not_done s l s1 l1 e : pstep c t s l = Some (s1, l1, e) -> p_res l1 = p_res l -> p_pc l1 <> PDone.
  Proof. intros Hs Hr. unfold pstep in Hs.
    assert (F : forall r l0, p_res l0 = p_res l -> l1 = finish r l0 -> False).
    { intros r l0 E ->. apply (res_finish_ne r l l0 E). exact Hr. }
    destruct (p_pc l) eqn:Hpc; try discriminate Hs; inversion Hs; subst s1 l1 e; clear Hs;
      unfold after_read_tail, after_faa, after_eol, after_commit, p_panic in *;
      repeat match goal with |- context [if ?b then _ else _] => destruct b end;
      try (cbn; discriminate);
      try (exfalso; eapply F; [|reflexivity]; reflexivity).
    all: try (exfalso; cbn [p_res] in Hr; apply (f_equal (@length _)) in Hr; rewrite app_length in Hr; cbn in Hr; lia). Qed.

  (* the steps up to the end of the current attempt, then the rest *)
  Lemma ssteps_first_att s l s2 l2 : ssteps c t s l s2 l2 -> p_pc l2 = PDone -> p_pc l <> PDone ->
    exists s1 l1, att c t s l s1 l1 /\ ssteps c t s1 l1 s2 l2.
  Proof. induction 1 as [s l | s l s1 l1 e s2 l2 Ha Hs Hr IH]; intros Hd Hn; [contradiction|].
    destruct (list_eq_dec (fun a b : outcome Z => ltac:(decide equality; try apply Z.eq_dec; decide equality; apply Z.eq_dec) : {a = b} + {a <> b})
                          (p_res l1) (p_res l)) as [E | E].
    - destruct (IH Hd (pstep_not_done _ _ _ _ _ Hs E)) as (s1' & l1' & A & R). exists s1', l1'. split; [eapply att_step; eauto | assumption].
    - exists s1, l1. split; [eapply att_last; eauto | assumption]. Qed.

  Fixpoint nsteps (n : nat) (s : shared) (l : plocal) (s2 : shared) (l2 : plocal) : Prop :=
    match n with
    | O => s2 = s /\ l2 = l
    | S k => exists s1 l1 e, adm_pub c s (P1 t l) l /\ pstep c t s l = Some (s1, l1, e) /\ nsteps k s1 l1 s2 l2
    end.

  Lemma ssteps_n s l s2 l2 : ssteps c t s l s2 l2 -> exists n, nsteps n s l s2 l2.
  Proof. induction 1 as [s l | s l s1 l1 e s2 l2 Ha Hs Hr (n & IH)]; [exists O; split; reflexivity|].
    exists (S n). cbn. eauto 8. Qed.

  Lemma n_ssteps n : forall s l s2 l2, nsteps n s l s2 l2 -> ssteps c t s l s2 l2.
  Proof. induction n as [|k IH]; intros s l s2 l2 H; cbn in H.
    - destruct H as (-> & ->). constructor.
    - destruct H as (s1 & l1 & e & Ha & Hs & Hr). eapply ssteps_cons; eauto. Qed.

  (* an attempt takes at least one step: the rest is shorter *)
  Lemma nsteps_first_att n : forall s l s2 l2, nsteps n s l s2 l2 -> p_pc l2 = PDone -> p_pc l <> PDone ->
    exists s1 l1 k, att c t s l s1 l1 /\ nsteps k s1 l1 s2 l2 /\ (k < n)%nat.
  Proof. induction n as [|n IH]; intros s l s2 l2 H Hd Hn; cbn in H.
    - destruct H as (-> & ->). contradiction.
    - destruct H as (s1 & l1 & e & Ha & Hs & Hr).
      destruct (list_eq_dec (fun a b : outcome Z => ltac:(decide equality; try apply Z.eq_dec; decide equality; apply Z.eq_dec) : {a = b} + {a <> b})
                            (p_res l1) (p_res l)) as [E | E].
      + destruct (IH _ _ _ _ Hr Hd (pstep_not_done _ _ _ _ _ Hs E)) as (s1' & l1' & k & A & R & Hk).
        exists s1', l1', k. split; [eapply att_step; eauto|]. split; [assumption | lia].
      + exists s1, l1, n. split; [eapply att_last; eauto|]. split; [assumption | lia]. Qed.

  Lemma att_end_pc s l s1 l1 : att c t s l s1 l1 -> p_pc l1 = PDone \/ p_pc l1 = PReadLimit \/ p_pc l1 = PPanicked.
  Proof. induction 1 as [s l s1 l1 e Ha Hs Hne | ]; [|assumption].
    unfold pstep in Hs. destruct (p_pc l) eqn:Hpc; try discriminate Hs; inversion Hs; subst s1 l1 e; clear Hs;
      unfold after_read_tail, after_faa, after_eol, after_commit, p_panic in *;
      repeat match goal with |- context [if ?b then _ else _] => destruct b end;
      try (match goal with |- context [finish ?r ?l0] => destruct (finish_pc r l0) as [X | X]; rewrite X; auto end);
      try (exfalso; apply Hne; reflexivity); auto. Qed.

  (* every complete solo run is a sequence of attempts *)
  Theorem ssteps_runs : forall s l s2 l2, ssteps c t s l s2 l2 -> p_pc l2 = PDone -> p_pc l = PDone \/ p_pc l = PReadLimit ->
    runs c t s l s2 l2.
  Proof. intros s l s2 l2 H Hd Hstart. destruct (ssteps_n _ _ _ _ H) as (n & Hn). clear H.
    revert s l Hn Hstart. induction n as [n IH] using lt_wf_ind. intros s l Hn Hstart.
    destruct Hstart as [Hp | Hp].
    - (* already done: no step is possible *)
      destruct n as [|k]; cbn in Hn.
      + destruct Hn as (-> & ->). apply runs_done. assumption.
      + destruct Hn as (s1 & l1 & e & _ & Hs & _). unfold pstep in Hs. rewrite Hp in Hs. discriminate.
    - destruct (nsteps_first_att n s l s2 l2 Hn Hd ltac:(rewrite Hp; discriminate)) as (s1 & l1 & k & A & R & Hk).
      apply (runs_att c t s l s1 l1 s2 l2 Hp A).
      destruct (att_end_pc _ _ _ _ A) as [X | [X | X]].
      + apply (IH k Hk s1 l1 R). auto.
      + apply (IH k Hk s1 l1 R). auto.
      + (* a panicked thread never reaches PDone *)
        exfalso. clear -R X Hd. destruct k as [|k]; cbn in R.
        * destruct R as (_ & ->). congruence.
        * destruct R as (? & ? & ? & _ & Hs & _). unfold pstep in Hs. rewrite X in Hs. discriminate. Qed.

  (* ---- the log the driver hands over ---- *)
  Definition init_log (limit : Z) : log :=
    set_limit (handed_over (c_init c) (TL c) (c_mtu c) (c_sess c) (c_strm c) (c_n0 c) (c_off0 c)) limit.

  Lemma init_SI limit : SI c (init_shared c limit).
  Proof. destruct (init_tails c limit) as (T0 & T1 & T2). cbv zeta in *.
    pose proof (wf_n0 c W) as Hn0. pose proof (wf_off0 c W) as (Ho0 & Hom). destruct (TL_bounds c W) as (TB & _).
    assert (R0 : 0 <= c_off0 c < two32) by (unfold two32; lia). assert (R1 : 0 <= 0 < two32) by (unfold two32; lia).
    constructor; change (sh_count (init_shared c limit)) with (c_n0 c).
    - unfold GB in *. lia.
    - exists (c_off0 c). auto.
    - rewrite T1. apply term_id_mk_raw. assumption.
    - rewrite T2. apply term_id_mk_raw. assumption.
    - intros p o _ _. reflexivity. Qed.

  Lemma init_sim limit : sim c (init_shared c limit) (init_log limit).
  Proof. destruct (TL_bounds c W) as (TB & _).
    assert (Hz : forall p, render_mem c (sh_mem (init_shared c limit)) p = []).
    { intros p. unfold render_mem. apply render_part_zero. intros j _. reflexivity. }
    assert (Hr : forall p, render_term (part (init_log limit) p) = []).
    { intros p. unfold init_log, handed_over, part, set_limit. cbn [l_p0 l_p1 l_p2].
      destruct (p =? 0); [|destruct (p =? 1)]; match goal with |- context [if ?b then _ else _] => destruct b end; reflexivity. }
    constructor.
    - repeat split.
    - reflexivity.
    - intros p Hp. unfold init_log, handed_over, tail, set_limit, init_shared, raw_of. cbn [l_t0 l_t1 l_t2 sh_tail].
      assert (E : p = 0 \/ p = 1 \/ p = 2) by lia. destruct E as [-> | [-> | ->]]; cbn [Z.eqb];
        repeat match goal with |- context [if ?b then _ else _] => destruct b eqn:? end; first [reflexivity | exfalso; lia].
    - reflexivity.
    - reflexivity.
    - intros p Hp. rewrite Hr, Hz. split; [reflexivity | apply put_ok_empty; apply Hr]. Qed.

  (* ---- any number of steps of the machine alone, to completion = the sequential model over the message list ---- *)
  Theorem collapse_solo (Wmtu : c_mtu c <= 268435456) (m : mode) msgs budget limit s' l' :
    (forall msg, In msg msgs -> FragArith.zlen msg < two31) ->
    ssteps c t (init_shared c limit) (p_start msgs budget []) s' l' -> p_pc l' = PDone ->
    exists lg', seq_thread m (init_log limit) None msgs budget [] = (lg', p_res l') /\ sim c s' lg'.
  Proof. intros Hm H Hd.
    pose proof (ssteps_runs _ _ _ _ H Hd (start_pc msgs budget [])) as R.
    destruct (collapse_runs c W Wmtu m t None budget msgs [] _ (init_log limit) s' l' (init_SI limit) (init_sim limit) Hm R) as (lg' & E & M & _).
    exists lg'. auto. Qed.

  (* corresponding logs have the same dump (what the correspondence checks of C01 / C04 compare) *)
  Lemma sim_dump s lg : sim c s lg ->
    log_dump lg = (sh_count s, [sh_tail s 0; sh_tail s 1; sh_tail s 2],
                   [render_mem c (sh_mem s) 0; render_mem c (sh_mem s) 1; render_mem c (sh_mem s) 2]).
  Proof. intros [G Mc Mt Ml Mcn Mp]. unfold log_dump. rewrite Mc.
    change (l_t0 lg) with (tail lg 0). change (l_t1 lg) with (tail lg 1). change (l_t2 lg) with (tail lg 2).
    change (l_p0 lg) with (part lg 0). change (l_p1 lg) with (part lg 1). change (l_p2 lg) with (part lg 2).
    rewrite !Mt by lia. destruct (Mp 0 ltac:(lia)) as (-> & _). destruct (Mp 1 ltac:(lia)) as (-> & _). destruct (Mp 2 ltac:(lia)) as (-> & _).
    reflexivity. Qed.

  (* ---- the scheduler: a system in which thread t is the only publisher ---- *)
  Lemma adm_pub_ext s P P' l : (forall t', P t' = P' t') -> adm_pub c s P l -> adm_pub c s P' l.
  Proof. intros E. unfold adm_pub. destruct (p_pc l); try (intros H; exact H). intros H Hs. destruct (H Hs) as (H1 & H2). split; [assumption|].
    intros t' l' HP Hc. apply (H2 t' l'); [rewrite E; assumption | assumption]. Qed.

  Definition only_pub (th : nat -> thread) (l : plocal) : Prop := th t = TPub l /\ forall t', t' <> t -> th t' = TIdle.

  Lemma only_pub_P1 th l : only_pub th l -> forall t', pubs th t' = P1 t l t'.
  Proof. intros (H1 & H2) t'. unfold pubs, P1. destruct (Nat.eqb t' t) eqn:E.
    - apply Nat.eqb_eq in E. subst. rewrite H1. reflexivity.
    - apply Nat.eqb_neq in E. rewrite (H2 t' E). reflexivity. Qed.

  Theorem run_sched_ssteps stop : forall sched s th g tr l, only_pub th l ->
    adm_sched c stop sched (s, th, g, tr) ->
    let '(s', th', g', tr') := run_sched (tstep c) stop sched (s, th, g, tr) in
    exists l', only_pub th' l' /\ ssteps c t s l s' l'.
  Proof. induction sched as [|t0 rest IH]; intros s th g tr l Ho Ha; cbn [run_sched adm_sched] in *.
    - exists l. split; [assumption | constructor].
    - unfold grant in *. destruct (stopped stop g t0); [apply IH; assumption|].
      unfold step_cfg in *. cbn [fst snd] in *.
      destruct (tstep c t0 s (th t0)) as [[[s1 x1] e1]|] eqn:Es; [|apply IH; assumption].
      destruct Ha as (Ha1 & Ha2). destruct Ho as (Ho1 & Ho2).
      destruct (Nat.eq_dec t0 t) as [-> | Hne]; [|rewrite (Ho2 t0 Hne) in Es; discriminate].
      unfold tstep in Es. rewrite Ho1 in Es. destruct (pstep c t s l) as [[[s1' l1] e1']|] eqn:Ep; [|discriminate]. inversion Es; subst s1' x1 e1'.
      assert (Ho' : only_pub (upd_thread th t (TPub l1)) l1).
      { split; [unfold upd_thread; rewrite Nat.eqb_refl; reflexivity|]. intros t' Hn. unfold upd_thread.
        replace (Nat.eqb t' t) with false by (symmetry; apply Nat.eqb_neq; assumption). apply Ho2. assumption. }
      specialize (IH s1 (upd_thread th t (TPub l1)) (bump g t) (e1 :: tr) l1 Ho' Ha2).
      destruct (run_sched (tstep c) stop rest (s1, upd_thread th t (TPub l1), bump g t, e1 :: tr)) as [[[s' th'] g'] tr'].
      destruct IH as (l' & Ho'' & Hss). exists l'. split; [assumption|].
      eapply ssteps_cons; [|exact Ep|exact Hss].
      unfold sys_adm in Ha1. rewrite Ho1 in Ha1. eapply adm_pub_ext; [|exact Ha1]. apply only_pub_P1. split; assumption. Qed.
End Run.
