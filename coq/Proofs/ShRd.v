(* C03, shared publishers: a step of the Image::poll subscriber follows the frame discipline and keeps the coupling. *)
Require Import V.Base.MachineInt.
Require Import V.Generated.GenConsts.
Require Import V.Generated.GenOrdering.
Require Import V.Model.LogBase.
Require Import V.Model.Descriptor.
Require Import V.Proofs.DescriptorProofs.
Require Import V.Model.Sched.
Require Import V.Model.AppenderThreads.
Require Import V.Model.ReaderThreads.
Require Import V.Oracle.C03Oracle.
Require Import V.Proofs.OrderingProofs.
Require Import V.Proofs.TailArith.
Require Import V.Proofs.FragArith.
Require Import V.Proofs.AppenderInv.
Require Import V.Proofs.AppenderLemmas.
Require Import V.Proofs.AppenderFrame.
Require Import V.Proofs.AppenderSteps.
Require Import V.Proofs.AppenderSystem.
Require Import V.Proofs.C02Proofs.
Require Import V.Proofs.C02Quiescent.
Require Import V.Proofs.ReaderInv.
Require Import V.Proofs.C03Proofs.
Require Import V.Proofs.ReaderHb.
Require Import V.Proofs.RaceFold V.Proofs.RaceDisc V.Proofs.RaceFree.
Require Import V.Proofs.ExclDefs V.Proofs.ExclPub1 V.Proofs.ExclEv.
Require Import V.Proofs.ShGeom V.Proofs.ShEv V.Proofs.ShCoupl V.Proofs.ShPub.
From Coq Require Import ZifyBool.
Open Scope Z_scope.

Section SRd.
  Variable c : cfg.
  Hypothesis W : wf_cfg c.

  Notation role_ok := (role_ok cls term_region).

  Lemma nof_finish l : on_frame (r_pc (r_finish l)) = false.
  Proof. unfold r_finish, r_start. cbn. destruct (pred (r_polls l)); reflexivity. Qed.
  Lemma nof_end l : on_frame (r_pc (r_end l)) = false.
  Proof. unfold r_end. destruct (_ <? _); [reflexivity | apply nof_finish]. Qed.
  Lemma nof_loop l : on_frame (r_pc (r_loop c l)) = false.
  Proof. unfold r_loop. destruct (_ && _); [reflexivity | apply nof_end]. Qed.

  Definition rfacts (s : shared) (l l' : rlocal) (e : event) : Prop :=
    match r_pc l with
    | RLen => e_acc e = GetVolatile /\ e_reg e = ReaderThreads.r_idx c l /\ e_off e = r_off l /\ e_len e = 4 /\
              ((0 < s_len (sh_mem s (ReaderThreads.r_idx c l) (r_off l)) /\ r_pc l' = RType /\ r_pos l' = r_pos l /\ r_foff l' = r_off l) \/
               (s_len (sh_mem s (ReaderThreads.r_idx c l) (r_off l)) <= 0 /\ on_frame (r_pc l') = false))
    | RType => e_acc e = Get /\ e_reg e = ReaderThreads.r_idx c l /\ e_off e = r_foff l + 6 /\ e_len e = 2 /\
               (on_frame (r_pc l') = true -> r_pos l' = r_pos l /\ r_foff l' = r_foff l)
    | RFlags => e_acc e = Get /\ e_reg e = ReaderThreads.r_idx c l /\ e_off e = r_foff l + 5 /\ e_len e = 1 /\
                (on_frame (r_pc l') = true -> r_pos l' = r_pos l /\ r_foff l' = r_foff l)
    | RBody => e_acc e = RegionRead /\ e_reg e = ReaderThreads.r_idx c l /\ e_off e = r_foff l + 32 /\ e_len e = r_flen l - 32 /\
               on_frame (r_pc l') = false
    | _ => term_region (e_reg e) = false /\ on_frame (r_pc l') = false
    end.

  Lemma rstep_event t s l s' l' e : rstep c t s l = Some (s', l', e) ->
    e_tid e = t /\ narrow e = e /\ sh_mem s' = sh_mem s /\ rfacts s l l' e.
  Proof. intros Hstep. unfold rfacts, rstep in *.
    destruct (r_pc l) eqn:Hpc; try discriminate Hstep; inversion Hstep; subst s' l' e; clear Hstep;
      (split; [reflexivity|]); (split; [reflexivity|]); (split; [reflexivity|]).
    - split; [reflexivity | apply nof_loop].
    - repeat (split; [reflexivity|]). destruct (s_len (sh_mem s (ReaderThreads.r_idx c l) (r_off l)) <=? 0) eqn:E.
      + right. split; [lia | apply nof_end].
      + left. split; [lia|]. cbn. auto.
    - repeat (split; [reflexivity|]). destruct (_ =? T_PAD); [rewrite nof_loop; discriminate | cbn; auto].
    - repeat (split; [reflexivity|]). cbn. auto.
    - repeat (split; [reflexivity|]). apply nof_loop.
    - split; [reflexivity | apply nof_finish]. Qed.
End SRd.
