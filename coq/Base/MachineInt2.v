(* Machine-integer operators needed by source translators (K1) that Base/MachineInt.v does not have:
   shifts with Rust's check of the shift amount, i32 shifts, division / remainder with their
   unconditional panics, and the type tags used in generated signatures.  Definitions only;
   the normalising lemmas are in Proofs/SrcNorm.v. *)
Require Import V.Base.MachineInt.
Open Scope Z_scope.

(* integer types a translated signature can mention (Index = i32) *)
Inductive ity := I32 | I64.

Definition in_ity (t : ity) (z : Z) : bool :=
  match t with I32 => in_i32 z | I64 => in_i64 z end.

(* `a << n` / `a >> n`: rustc checks only the shift amount.  With overflow checks on (Debug) an
   amount outside 0 .. width-1 panics; without (Release) the amount is masked to its low bits. *)
Definition shamt (m : mode) (w n : Z) : outcome Z :=
  if (0 <=? n) && (n <? w) then Ok n
  else match m with Debug => Panic | Release => Ok (n mod w) end.

Definition shl32 (a n : Z) : Z := wrap32 (a * 2 ^ n).
Definition shr32 (a n : Z) : Z := a / 2 ^ n.          (* arithmetic shift right *)

Definition cshl64 (m : mode) (a n : Z) : outcome Z := k <- shamt m 64 n ;; Ok (shl64 a k).
Definition cshr64 (m : mode) (a n : Z) : outcome Z := k <- shamt m 64 n ;; Ok (shr64 a k).
Definition cshl32 (m : mode) (a n : Z) : outcome Z := k <- shamt m 32 n ;; Ok (shl32 a k).
Definition cshr32 (m : mode) (a n : Z) : outcome Z := k <- shamt m 32 n ;; Ok (shr32 a k).

(* `/` and `%` on signed integers truncate towards zero and panic in every build on a zero divisor
   and on MIN / -1 (MIN % -1). *)
Definition div32 (a b : Z) : outcome Z :=
  if b =? 0 then Panic else if (a =? - two31) && (b =? -1) then Panic else Ok (Z.quot a b).
Definition rem32 (a b : Z) : outcome Z :=
  if b =? 0 then Panic else if (a =? - two31) && (b =? -1) then Panic else Ok (rem_t a b).
Definition div64 (a b : Z) : outcome Z :=
  if b =? 0 then Panic else if (a =? - two63) && (b =? -1) then Panic else Ok (Z.quot a b).
Definition rem64 (a b : Z) : outcome Z :=
  if b =? 0 then Panic else if (a =? - two63) && (b =? -1) then Panic else Ok (rem_t a b).

(* unary minus is a checked subtraction from zero (only MIN overflows) *)
Definition neg32 (m : mode) (a : Z) : outcome Z := sub32 m 0 a.
Definition neg64 (m : mode) (a : Z) : outcome Z := sub64 m 0 a.

(* `&`, `|`, `^`, `!` on i32 / i64 are Z.land, Z.lor, Z.lxor, Z.lnot: Coq's bitwise operations on Z are
   two's complement of unbounded width, and on operands inside the type they give the result of the
   fixed-width operation (which is again inside the type). *)
