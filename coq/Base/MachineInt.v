(* Machine integers, build modes and outcomes shared by every model.
   Definitions only (plus a few characterising lemmas at the end). *)
From Coq Require Export ZArith List Bool Lia.
From Coq Require Import ZifyBool.
Export ListNotations.
Open Scope Z_scope.

Inductive mode := Debug | Release.

(* Error classes the harness maps AeronError values to. *)
Inductive err :=
| BackPressured | NotConnected | AdminAction | MaxPositionExceeded | Closed
| TooLong | InsufficientCapacity | UnableToKeepUp | NoResponse | NotReady
| DriverInactive | NotFound | Registration (code : Z) | UnknownCode (c : Z)
| IllegalArg | IllegalState | OtherErr.


Inductive outcome (A : Type) :=
| Ok (a : A) | Err (e : err) | Panic | Hang | Crash.
Arguments Ok {A} a. Arguments Err {A} e. Arguments Panic {A}.
Arguments Hang {A}. Arguments Crash {A}.

Definition bind {A B} (x : outcome A) (f : A -> outcome B) : outcome B :=
  match x with
  | Ok a => f a | Err e => Err e | Panic => Panic | Hang => Hang | Crash => Crash
  end.
Notation "x <- e ;; k" := (bind e (fun x => k)) (at level 61, e at next level, right associativity).

Definition is_ok {A} (x : outcome A) : bool := match x with Ok _ => true | _ => false end.

Definition two31 : Z := 2147483648.
Definition two32 : Z := 4294967296.
Definition two63 : Z := 9223372036854775808.
Definition two64 : Z := 18446744073709551616.

Definition wrap32 (z : Z) : Z := (z + two31) mod two32 - two31.
Definition wrap64 (z : Z) : Z := (z + two63) mod two64 - two63.
Definition wrapu32 (z : Z) : Z := z mod two32.
Definition wrapu64 (z : Z) : Z := z mod two64.

Definition in_i32 (z : Z) : bool := (- two31 <=? z) && (z <? two31).
Definition in_i64 (z : Z) : bool := (- two63 <=? z) && (z <? two63).
Definition in_u64 (z : Z) : bool := (0 <=? z) && (z <? two64).

Definition chk32 (m : mode) (z : Z) : outcome Z :=
  if in_i32 z then Ok z else match m with Debug => Panic | Release => Ok (wrap32 z) end.
Definition chk64 (m : mode) (z : Z) : outcome Z :=
  if in_i64 z then Ok z else match m with Debug => Panic | Release => Ok (wrap64 z) end.
Definition chku64 (m : mode) (z : Z) : outcome Z :=
  if in_u64 z then Ok z else match m with Debug => Panic | Release => Ok (wrapu64 z) end.

(* Rust's checked-by-default operators on i32 / i64 / u64. *)
Definition add32 m a b := chk32 m (a + b).
Definition sub32 m a b := chk32 m (a - b).
Definition mul32 m a b := chk32 m (a * b).
Definition add64 m a b := chk64 m (a + b).
Definition sub64 m a b := chk64 m (a - b).
Definition mul64 m a b := chk64 m (a * b).
Definition addu64 m a b := chku64 m (a + b).
Definition subu64 m a b := chku64 m (a - b).

(* i64 << n with 0 <= n < 64: Rust never checks the value, only the shift amount. *)
Definition shl64 (a n : Z) : Z := wrap64 (a * 2 ^ n).
(* arithmetic shift right *)
Definition shr64 (a n : Z) : Z := a / 2 ^ n.
(* Rust `%` on signed integers truncates towards zero. *)
Definition rem_t (a b : Z) : Z := Z.rem a b.

Definition align (v a : Z) : Z := ((v + (a - 1)) / a) * a.   (* a a power of two, v >= 0 *)

Lemma wrap32_id z : in_i32 z = true -> wrap32 z = z.
Proof. unfold in_i32, wrap32, two31, two32. intros H.
  rewrite Z.mod_small; lia. Qed.
Lemma wrap64_id z : in_i64 z = true -> wrap64 z = z.
Proof. unfold in_i64, wrap64, two63, two64. intros H.
  rewrite Z.mod_small; lia. Qed.
Lemma wrap32_range z : in_i32 (wrap32 z) = true.
Proof. unfold in_i32, wrap32, two31, two32.
  pose proof (Z.mod_pos_bound (z + 2147483648) 4294967296 ltac:(lia)). lia. Qed.
Lemma wrap64_range z : in_i64 (wrap64 z) = true.
Proof. unfold in_i64, wrap64, two63, two64.
  pose proof (Z.mod_pos_bound (z + 9223372036854775808) 18446744073709551616 ltac:(lia)). lia. Qed.
Lemma wrap32_eqm z : exists k, wrap32 z = z + k * two32.
Proof. unfold wrap32, two31, two32. exists (- ((z + 2147483648) / 4294967296)).
  pose proof (Z.div_mod (z + 2147483648) 4294967296 ltac:(lia)). lia. Qed.
Lemma wrap64_eqm z : exists k, wrap64 z = z + k * two64.
Proof. unfold wrap64, two63, two64. exists (- ((z + 9223372036854775808) / 18446744073709551616)).
  pose proof (Z.div_mod (z + 9223372036854775808) 18446744073709551616 ltac:(lia)). lia. Qed.
