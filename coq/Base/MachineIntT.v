(* Width-generic machine integers and result shapes for the general source translator
   (tools/props/src_translate.py, K1).  Base/MachineInt.v + MachineInt2.v keep the i32 / i64 operators the
   generated text uses for those two types; everything here is for the other integer types a translated
   function can mention (u8 u16 u32 u64 usize isize i8 i16), for the casts between all of them, for the
   saturating / clamp / trailing_zeros methods, and for functions that return `Result<_, _>`, an error value
   or a struct literal.  Definitions only; the normalising lemmas are in Proofs/SrcNormT.v. *)
From Coq Require Import String.
Require Import V.Base.MachineInt V.Base.MachineInt2.
Open Scope Z_scope.

(* integer types (usize = u64, isize = i64: the crate is checked on a 64-bit target) *)
Inductive sty := TI8 | TI16 | TI32 | TI64 | TU8 | TU16 | TU32 | TU64 | TBool.

Definition bitsT (t : sty) : Z :=
  match t with TI8 | TU8 => 8 | TI16 | TU16 => 16 | TI32 | TU32 => 32 | TI64 | TU64 => 64 | TBool => 1 end.
Definition signedT (t : sty) : bool :=
  match t with TI8 | TI16 | TI32 | TI64 => true | _ => false end.
Definition loT (t : sty) : Z := if signedT t then - 2 ^ (bitsT t - 1) else 0.
Definition hiT (t : sty) : Z := if signedT t then 2 ^ (bitsT t - 1) else 2 ^ bitsT t.      (* exclusive *)

Definition inT (t : sty) (z : Z) : bool := (loT t <=? z) && (z <? hiT t).
Definition wrapT (t : sty) (z : Z) : Z := (z - loT t) mod 2 ^ bitsT t + loT t.

Definition chkT (m : mode) (t : sty) (z : Z) : outcome Z :=
  if inT t z then Ok z else match m with Debug => Panic | Release => Ok (wrapT t z) end.

(* checked-by-default operators *)
Definition addT m t a b := chkT m t (a + b).
Definition subT m t a b := chkT m t (a - b).
Definition mulT m t a b := chkT m t (a * b).
Definition negT m t a := chkT m t (- a).

(* `/` `%`: truncation towards zero; panic on 0 and on MIN / -1 *)
Definition divT (t : sty) (a b : Z) : outcome Z :=
  if b =? 0 then Panic else if signedT t && (a =? loT t) && (b =? -1) then Panic else Ok (Z.quot a b).
Definition remT (t : sty) (a b : Z) : outcome Z :=
  if b =? 0 then Panic else if signedT t && (a =? loT t) && (b =? -1) then Panic else Ok (Z.rem a b).

(* shifts: only the amount is checked; the value is wrapped into the type; `>>` is arithmetic on signed and
   logical on unsigned types, which is the same floor division on a value inside the type *)
Definition shlT (m : mode) (t : sty) (a n : Z) : outcome Z := k <- shamt m (bitsT t) n ;; Ok (wrapT t (a * 2 ^ k)).
Definition shrT (m : mode) (t : sty) (a n : Z) : outcome Z := k <- shamt m (bitsT t) n ;; Ok (a / 2 ^ k).

(* `e as T` between integer types: the value is reduced modulo 2^bits into the target type *)
Definition castT (t : sty) (z : Z) : Z := wrapT t z.
(* `!x` on an unsigned type *)
Definition notT (t : sty) (z : Z) : Z := wrapT t (Z.lnot z).

(* saturating_add / saturating_sub / clamp *)
Definition satT (t : sty) (z : Z) : Z := Z.max (loT t) (Z.min (hiT t - 1) z).
(* Ord::clamp(self, min, max) panics when min > max *)
Definition clampT (x lo hi : Z) : outcome Z := if hi <? lo then Panic else Ok (Z.max lo (Z.min hi x)).

(* {integer}::trailing_zeros: the number of the lowest set bit, the width for 0 *)
Fixpoint tz_pos (p : positive) : Z := match p with xO q => 1 + tz_pos q | _ => 0 end.
Definition tzT (t : sty) (z : Z) : Z :=
  match z with Z0 => bitsT t | Zpos p => tz_pos p | Zneg p => tz_pos p end.

Definition b2z (b : bool) : Z := if b then 1 else 0.

(* ---- results of translated functions that do not return a plain integer / boolean ----
   ROk v          Ok(v); Ok(()) is ROk 0
   RErr n args    Err(E::Variant { .. }) / Err(E::Variant(..)) / an error value returned as such; n is the
                  last two path segments ("AeronError::AdminAction"), args the numeric payload (fields of a
                  struct variant in the order of their names, `file!()` / `line!()` fields dropped)
   RStruct fs     Ok(Self { f: e, .. }) / Self { .. }: the numeric fields by name, sorted by name
   RDo n args k   an effect on state the function does not own (a call of a function that writes a buffer, an
                  assignment to a field of self), then k *)
Inductive sres :=
| ROk (v : Z)
| RErr (name : string) (args : list Z)
| RStruct (fields : list (string * Z))
| RDo (name : string) (args : list Z) (k : sres).

Definition do_ (name : string) (args : list Z) (k : outcome sres) : outcome sres :=
  match k with Ok r => Ok (RDo name args r) | Err e => Err e | Panic => Panic | Hang => Hang | Crash => Crash end.

(* `e?` on a translated function: continue with the value, return the error as it is *)
Fixpoint qbind (r : sres) (k : Z -> outcome sres) : outcome sres :=
  match r with ROk v => k v | RDo n a r' => do_ n a (qbind r' k) | other => Ok other end.

(* result part of a generated signature row *)
Inductive rsig := RInt (t : sty) | RRes.

(* the value an sres carries when it is ROk, after any effects *)
Fixpoint sres_effects (r : sres) : list (string * list Z) :=
  match r with RDo n a k => (n, a) :: sres_effects k | _ => [] end.
Fixpoint sres_final (r : sres) : sres :=
  match r with RDo _ _ k => sres_final k | other => other end.
