(* Property C10 - the conductor survives faults. Statements only; proofs are in Proofs/Conductor*.v. *)
Require Import V.Base.MachineInt V.Generated.GenConsts V.Model.Conductor V.Oracle.C09Oracle V.Oracle.C10Oracle.
Open Scope Z_scope.

Example C10_placeholder_example :
  holds_c10 0 1000 10000 5000 [Add KSub 3 7 0; DoWork (BEvent (EvSubReady 1 5)); Close; Find KSub 1]
    (run_obs 0 1000 10000 5000 [Add KSub 3 7 0; DoWork (BEvent (EvSubReady 1 5)); Close; Find KSub 1]) = true.
Proof. vm_compute. reflexivity. Qed.
