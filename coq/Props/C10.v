(* Property C10 - the conductor survives faults: no panic, no hang, errors reported, orderly close.
   Statements only; proofs are in Proofs/Conductor*.v. The model (Model/Conductor.v) describes the conductor with the
   repairs of fixes/C10-*.diff and fixes/C09-*.diff; a destructor the conductor runs under its own mutex is modelled by
   `dtor_locked` (Hang when it would lock the mutex again). *)
Require Import V.Base.MachineInt.
Require Import V.Generated.GenConsts.
Require Import V.Model.Conductor.
Require Import V.Proofs.ConductorBase.
Require Import V.Proofs.ConductorInv.
Require Import V.Proofs.ConductorProofs.
Require Import V.Proofs.ConductorClose.
Require Import V.Oracle.C09Oracle.
Require Import V.Oracle.C10Oracle.
Require Import V.Proofs.C09OracleProofs.
Require Import V.Proofs.C10OracleProofs.
Require Import V.Proofs.C10ImagesProofs.
Require Import V.Proofs.C10CountersProofs.
Require Import V.Proofs.ConductorChan.
Require Import V.Proofs.C10ChanProofs.
Require Import V.Model.ConductorReent.
Require Import V.Proofs.ConductorReentProofs.
Open Scope Z_scope.

(* ---- C10_total: whatever the state and the operation - any driver event with any field values, an overrun or
   oversize broadcast, any clock - the outcome is Ok or Err, never Panic, Hang or Crash ---- *)
Theorem C10_total : forall c s o, fine (fst (fst (snd (step c s o)))).
Proof. exact step_total. Qed.
Print Assumptions C10_total.

Theorem C10_total_history : forall c ops s, Forall (fun x : out => fine (fst (fst x))) (snd (run c s ops)).
Proof. intros. apply run_total. Qed.
Print Assumptions C10_total_history.

(* the destructors the conductor runs while its mutex is held never lock it again *)
Theorem C10_close_never_relocks : forall s, snd (close_all s) = false.
Proof. exact close_all_no_hang. Qed.
Print Assumptions C10_close_never_relocks.
(* the same for the cached subscriptions a channel endpoint error makes it drop (they were closed just before) *)
Theorem C10_chan_error_never_relocks : forall x s, snd (on_event (EvChanError x) s) = false.
Proof. exact on_chan_error_no_hang. Qed.
Print Assumptions C10_chan_error_never_relocks.

(* ---- C10_reported ---- *)
(* an overrun / an oversize message makes the duty cycle return an error, and it does nothing else *)
Theorem C10_lapped_reported : forall c s, step c s (DoWork BLapped) = (s, (Err UnableToKeepUp, [], [])).
Proof. exact lapped_no_effect. Qed.
Print Assumptions C10_lapped_reported.
Theorem C10_oversize_reported : forall c s, step c s (DoWork BOversize) = (s, (Err OtherErr, [], [])).
Proof. exact oversize_no_effect. Qed.
Print Assumptions C10_oversize_reported.

(* a duty cycle later than the inter-service time-out after the previous one tells the error handler and closes *)
Theorem C10_stall_reported : forall c b s,
  b <> BLapped -> b <> BOversize -> t_work s + c_tis c < now s ->
  let '(s', (r, cbs, _)) := do_work c b s in In (CbErr EServiceTimeout) cbs /\ closed s' = true.
Proof. exact stall_reported. Qed.
Print Assumptions C10_stall_reported.

(* the driver's client-time-out event for this client, while open *)
Theorem C10_client_timeout_reported : forall s,
  closed s = false ->
  let '(s', cbs, _) := on_event (EvClientTimeout (client_id s)) s in In (CbErr EClientTimeout) cbs /\ closed s' = true.
Proof. exact client_timeout_reported. Qed.
Print Assumptions C10_client_timeout_reported.

Theorem C10_client_timeout_foreign_ignored : forall cid s, cid <> client_id s -> on_event (EvClientTimeout cid) s = (s, [], false).
Proof. exact client_timeout_foreign. Qed.
Print Assumptions C10_client_timeout_foreign_ignored.

(* a silent driver is reported by the keep-alive check and add_* calls are refused from then on *)
Theorem C10_driver_silent_reported : forall c s,
  t_keep s + KEEPALIVE_TIMEOUT_MS < now s -> 0 <= driver_hb s -> driver_hb s + c_tdrv c < now s ->
  In (CbErr EWasInactive) (snd (fst (fst (heartbeat_check c s)))) /\ driver_active (fst (fst (fst (heartbeat_check c s)))) = false.
Proof. exact driver_silent_reported. Qed.
Print Assumptions C10_driver_silent_reported.

Theorem C10_inactive_add_refused : forall k a1 a2 a3 s,
  driver_active s = false -> do_add k a1 a2 a3 s = (s, (Err DriverInactive, [], [])).
Proof. exact inactive_add_refused. Qed.
Print Assumptions C10_inactive_add_refused.

(* the client's heartbeat counter is gone: reported, and the client closes *)
Theorem C10_heartbeat_lost_reported : forall c s,
  t_keep s + KEEPALIVE_TIMEOUT_MS < now s -> hb_bound s = true -> hb_env s <> 1 ->
  In (CbErr EHeartbeatLost) (snd (fst (fst (heartbeat_check c s)))) /\ closed (fst (fst (fst (heartbeat_check c s)))) = true.
Proof. exact heartbeat_lost_reported. Qed.
Print Assumptions C10_heartbeat_lost_reported.

(* ---- C10_continue: a fault that does not close the client leaves the state it found (C10_lapped_reported says
   s' = s), so every later event is processed exactly as in the run without the fault; an error answer for one
   registration leaves all others as they were (C09_event_isolation). Stated for whole histories: ---- *)
Theorem C10_continue : forall c s ops,
  snd (run c (fst (step c s (DoWork BLapped))) ops) = snd (run c s ops) /\
  snd (run c (fst (step c s (DoWork BOversize))) ops) = snd (run c s ops).
Proof. intros. rewrite lapped_no_effect, oversize_no_effect. split; reflexivity. Qed.
Print Assumptions C10_continue.

(* ---- C10_close ---- *)
(* closing an open client: the close handler once; one unavailable callback per image of every subscription handle;
   one unavailable callback per counter handle alive *)
Theorem C10_close_callbacks : forall s, inv s -> closed s = false ->
  let cbs := snd (fst (close_all s)) in
  n_close cbs = 1%nat /\
  (forall r img, n_unavail_img r img cbs = match hobj KSub r s with Some o => count_z img (o_images o) | None => 0%nat end) /\
  (forall r, n_unavail_ctr r cbs = match hobj KCtr r s with Some _ => 1%nat | None => 0%nat end).
Proof. exact close_all_callbacks. Qed.
Print Assumptions C10_close_callbacks.

(* closed: nothing registered any more; closed for good *)
Theorem C10_closed_state : forall s,
  closed (fst (fst (close_all s))) = true /\
  (forall k, k <> KDest -> closed s = false -> getm k (fst (fst (close_all s))) = []).
Proof. intros. split; [apply close_all_closed|]. intros. apply close_all_maps; auto. Qed.
Print Assumptions C10_closed_state.

Theorem C10_closed_for_good : forall c s o, inv s -> closed s = true -> closed (fst (step c s o)) = true.
Proof. exact step_closed_mono. Qed.
Print Assumptions C10_closed_for_good.

(* every handle the user still holds after the close is closed; a held subscription has no images left *)
Theorem C10_closed_handles : forall s k r o, k <> KDest -> inv s -> closed s = true -> user_obj k r s = Some o ->
  o_closed o = true /\ (k = KSub -> o_images o = []).
Proof. exact closed_handles. Qed.
Print Assumptions C10_closed_handles.

(* later API calls report that the client is closed (add_* checks the driver first) *)
Theorem C10_closed_api : forall c s, closed s = true ->
  (forall k a1 a2 a3, do_add k a1 a2 a3 s = (s, (Err Closed, [], [])) \/ do_add k a1 a2 a3 s = (s, (Err DriverInactive, [], []))) /\
  (forall k r, do_find c k r s = (s, (Err Closed, [], []))).
Proof. exact closed_api_refused. Qed.
Print Assumptions C10_closed_api.

(* the close handler fires exactly once in a history that ends closed, never in one that does not, never again after
   the client is closed (repeated time-outs, close after time-out, ...) *)
Theorem C10_close_handler_once : forall c ops s, inv s ->
  n_close (all_cbs (snd (run c s ops))) = delta s (fst (run c s ops)) /\
  (closed s = true -> closed (fst (run c s ops)) = true).
Proof. intros. apply close_handler_once. auto. Qed.
Print Assumptions C10_close_handler_once.

(* ---- channel endpoint errors (ErrorResponse with error code 4) ---- *)
(* the error handler is called with ChannelEndpointException(id) exactly once for every live resource on that channel status
   indicator (subscriptions from their ready answer on, publications / exclusive publications that are held), ... *)
Theorem C10_chan_error_reported : forall x s, inv s ->
  n_chan_err x (snd (fst (on_event (EvChanError x) s))) = (n_hit KSub x (subs s) + n_hit KPub x (pubs s) + n_hit KXPub x (xpubs s))%nat.
Proof. exact chan_error_handler_calls. Qed.
Print Assumptions C10_chan_error_reported.
(* ... by that duty cycle, with that id, and by no other operation *)
Theorem C10_chan_error_only_there : forall c s o y,
  In (CbErr (EChannelEndpoint y)) (snd (fst (snd (step c s o)))) -> o = DoWork (BEvent (EvChanError y)).
Proof. exact step_chan_errs. Qed.
Print Assumptions C10_chan_error_only_there.
(* every image of a subscription the error ends gets exactly one unavailable callback, no other image gets one *)
Theorem C10_chan_error_images : forall x s r img, inv s ->
  n_unavail_img r img (snd (fst (on_event (EvChanError x) s))) =
  match lookup r (subs s) with
  | Some e => match chan_hit KSub x e with Some o => count_z img (o_images o) | None => 0%nat end
  | None => 0%nat
  end.
Proof. exact chan_error_images. Qed.
Print Assumptions C10_chan_error_images.
(* a closed client is not touched: no callback, no registration (there is none), no handle changes *)
Theorem C10_chan_error_closed : forall x s, inv s -> closed s = true ->
  snd (fst (on_event (EvChanError x) s)) = [] /\ (forall k, getm k (fst (fst (on_event (EvChanError x) s))) = getm k s) /\
  orphans (fst (fst (on_event (EvChanError x) s))) = orphans s.
Proof. exact chan_error_closed. Qed.
Print Assumptions C10_chan_error_closed.

(* ---- re-entrant calls: a user callback that calls the client (Model/ConductorReent.v) ----
   FINDING class=reentrant-call-deadlock (KNOWN_FINDINGS.txt): every route from user code to the conductor locks
   Arc<Mutex<ClientConductor>>, user callbacks run with that mutex held by their own thread, std's Mutex is not re-entrant: the
   call never returns and the conductor thread is lost. `is_in_callback` / `ensure_not_reentrant` ("client cannot be invoked
   within callback") are never reached - and would only report through the error handler and go on. C10_total above is the
   statement for callbacks that do not call the client; the three theorems below delimit the class exactly. *)
(* the witness: whatever the state and the operation, if the operation fires a user callback while the callbacks call the
   client, it hangs (and nothing of it is observable) *)
Theorem C10_reentrant_call_deadlocks : forall c x o,
  r_script x <> 0 -> fires (snd (fst (snd (step c (r_s x) o)))) = true -> rstep c x (ROp o) = (x, (Hang, [], [])).
Proof. exact reent_deadlock. Qed.
Print Assumptions C10_reentrant_call_deadlocks.
(* outside that class every operation answers Ok or Err, scripted callbacks or not *)
Theorem C10_total_unless_reentrant : forall c x o,
  fine (fst (fst (snd (rstep c x o)))) \/
  (exists o', o = ROp o' /\ r_script x <> 0 /\ fires (snd (fst (snd (step c (r_s x) o')))) = true /\ snd (rstep c x o) = (Hang, [], [])).
Proof. exact reent_total_or_deadlock. Qed.
Print Assumptions C10_total_unless_reentrant.
(* an operation whose callbacks only record, or that fires no callback, is the operation of the plain model: the conductor
   state is exactly what it would be without scripts *)
Theorem C10_scripted_is_plain : forall c x o,
  r_script x = 0 \/ fires (snd (fst (snd (step c (r_s x) o)))) = false ->
  rstep c x (ROp o) = (mkR (fst (step c (r_s x) o)) (r_script x), snd (step c (r_s x) o)) /\
  fine (fst (fst (snd (rstep c x (ROp o))))).
Proof. exact reent_plain. Qed.
Print Assumptions C10_scripted_is_plain.
(* the oracles judge scripted histories as the plain ones: true on the model's observations of every history that does not
   dead-lock, false on every observation with a hang *)
Theorem C10_oracle_model_scripted : forall c0 now0 tdrv tis ops,
  Forall (fun o => match o with ROp o' => tick_ok o' | RScript _ => True end) ops ->
  forallb (fun y => negb (is_hang y)) (rrun_obs c0 now0 tdrv tis ops) = true ->
  holds_c10 c0 now0 tdrv tis (map plain ops) (rrun_obs c0 now0 tdrv tis ops) = true /\
  holds_c09 c0 now0 tdrv tis (map plain ops) (rrun_obs c0 now0 tdrv tis ops) = true.
Proof. exact oracles_reent. Qed.
Print Assumptions C10_oracle_model_scripted.
Theorem C10_oracle_rejects_deadlock : forall c0 now0 tdrv tis ops outs,
  existsb is_hang outs = true -> holds_c10 c0 now0 tdrv tis ops outs = false.
Proof. exact c10_rejects_deadlock. Qed.
Print Assumptions C10_oracle_rejects_deadlock.

Example C10_reentrant_witness :
  (* a subscription-ready answer fires on_new_subscription, which calls add_publication: dead-lock *)
  rrun_obs 0 1000000 10000 5000 [ROp (SetDriverHb 1000000); ROp (Add KSub 4 9 0); RScript 1; ROp (Find KSub 1); ROp (DoWork BNone);
                                 ROp (DoWork (BEvent (EvSubReady 1 6))); ROp (Find KSub 1)] =
    [(Ok [], [], []); (Ok [1], [], [Cmd 4 0 1 [-1; 4; 9]]); (Ok [], [], []); (Err NotReady, [], []); (Ok [0], [], []); (Hang, [], [])]
  (* the same history with callbacks that only record goes on *)
  /\ map (fun x : out => fst (fst x))
       (rrun_obs 0 1000000 10000 5000 [ROp (SetDriverHb 1000000); ROp (Add KSub 4 9 0); RScript 0; ROp (DoWork (BEvent (EvSubReady 1 6))); ROp (Find KSub 1)]) =
     [Ok []; Ok [1]; Ok []; Ok [1]; Ok [0]].
Proof. split; vm_compute; reflexivity. Qed.

(* ---- the oracle on the model ---- *)
(* the four judges of Oracle/C10Oracle.v are true on the model's own observations, for every history whose clock does
   not run backwards (tick_ok: every Tick d has 0 <= d) *)
Theorem C10_oracle_model : forall c0 now0 tdrv tis ops,
  Forall tick_ok ops -> holds_c10 c0 now0 tdrv tis ops (run_obs c0 now0 tdrv tis ops) = true.
Proof. intros. unfold holds_c10. rewrite c10_core_model by assumption. rewrite c10_imgs_model, c10_ctrs_model, c10_chan_model. reflexivity. Qed.
Print Assumptions C10_oracle_model.

(* ---- the hypotheses are satisfiable: a history with faults, every kind of resource and a close ---- *)
Definition ex_faults : list op :=
  [SetDriverHb 1000000; SetHbCounter 1; Add KPub 1 1 0; Add KSub 2 2 0; Add KCtr 3 4 5;
   DoWork BLapped; DoWork (BEvent (EvPubReady 1 1 1 5 3 4)); DoWork BOversize; DoWork (BEvent (EvSubReady 2 6));
   DoWork (BEvent (EvCounterReady 3 9)); Find KPub 1; Find KSub 2;
   DoWork (BEvent (EvAvailImage 50 1 2 2)); DoWork (BEvent (EvAvailImage 51 1 3 2)); DoWork (BEvent (EvUnavailImage 50 2));
   DoWork (BEvent (EvError 77 3)); DoWork (BEvent (EvClientTimeout 99));
   Tick 5001; SetDriverHb 1005001; DoWork BNone; Tick 5001; DoWork BNone; Close;
   Peek KPub 1; Peek KSub 2; Find KPub 1; Add KPub 1 1 0; DropHandle KSub 2].

Example C10_example_run :
  map (fun x : out => fst (fst x)) (run_obs 0 1000000 10000 5000 ex_faults) =
  [Ok []; Ok []; Ok [1]; Ok [2]; Ok [3]; Err UnableToKeepUp; Ok [1]; Err OtherErr; Ok [1]; Ok [1]; Ok [0]; Ok [1];
   Ok [1]; Ok [1]; Ok [1]; Ok [1]; Ok [1]; Ok []; Ok []; Ok [1]; Ok []; Ok [1]; Ok [0];
   Ok [0; 1; 0; 5; 4; 1]; Ok [1; 1; 0; 6; 0; 0]; Err Closed; Err Closed; Ok [1]]
  /\ nth 19 (map (fun x : out => snd (fst x)) (run_obs 0 1000000 10000 5000 ex_faults)) [] =
     [CbUnavailImg 2 51 1; CbUnavailCtr 3 9; CbClose; CbErr EServiceTimeout]
  /\ nth 21 (map (fun x : out => snd (fst x)) (run_obs 0 1000000 10000 5000 ex_faults)) [] =
     [CbErr EServiceTimeout]
  /\ n_close (all_cbs (run_obs 0 1000000 10000 5000 ex_faults)) = 1%nat
  /\ holds_c10 0 1000000 10000 5000 ex_faults (run_obs 0 1000000 10000 5000 ex_faults) = true
  /\ Forall tick_ok ex_faults.
Proof. repeat split; try (vm_compute; reflexivity). repeat constructor; cbn; lia. Qed.

(* a channel endpoint error on status indicator 6 with two subscriptions (one cached with an image, one held with two) and a held
   publication on it, another publication on 7: three error-handler calls, three unavailable-image callbacks, no hang *)
Definition ex_chan10 : list op :=
  [SetDriverHb 1000000; Add KSub 1 1 0; Add KSub 2 2 0; Add KPub 3 3 0; Add KPub 4 4 0;
   DoWork (BEvent (EvSubReady 1 6)); DoWork (BEvent (EvSubReady 2 6)); DoWork (BEvent (EvPubReady 3 3 3 5 3 6)); DoWork (BEvent (EvPubReady 4 4 4 5 3 7));
   Find KSub 2; Find KPub 3; Find KPub 4;
   DoWork (BEvent (EvAvailImage 50 1 2 1)); DoWork (BEvent (EvAvailImage 51 1 2 2)); DoWork (BEvent (EvAvailImage 52 1 2 2));
   DoWork (BEvent (ev_error 6 4)); Peek KSub 2; Peek KPub 3; Peek KPub 4; Find KSub 1; Find KSub 2; Find KPub 3; Find KPub 4;
   DoWork (BEvent (EvAvailImage 53 1 2 2)); DoWork (BEvent (ev_error 6 4)); Close].

Example C10_example_chan :
  nth 15 (run_obs 0 1000000 10000 5000 ex_chan10) (Panic, [], []) =
    (Ok [1], [CbErr (EChannelEndpoint 6); CbUnavailImg 1 50 1; CbErr (EChannelEndpoint 6); CbUnavailImg 2 51 1; CbUnavailImg 2 52 1;
              CbErr (EChannelEndpoint 6)], [])
  /\ map (fun x : out => fst (fst x)) (skipn 16 (run_obs 0 1000000 10000 5000 ex_chan10)) =
     [Ok [0; 1; 0; 6; 0; 0]; Ok [1; 1; 0; 5; 6; 3]; Ok [2; 0; 0; 5; 7; 4]; Err NotFound; Err NotFound; Err NotFound; Ok [2]; Ok [1]; Ok [1]; Ok [0]]
  /\ map (fun x : out => snd (fst x)) (skipn 23 (run_obs 0 1000000 10000 5000 ex_chan10)) = [[]; []; [CbClose]]
  /\ holds_c10 0 1000000 10000 5000 ex_chan10 (run_obs 0 1000000 10000 5000 ex_chan10) = true
  /\ holds_c09 0 1000000 10000 5000 ex_chan10 (run_obs 0 1000000 10000 5000 ex_chan10) = true.
Proof. repeat split; vm_compute; reflexivity. Qed.

(* the oracle is not vacuous: it rejects the observations of the unrepaired implementation *)
Example C10_oracle_rejects_faulty_observations :
  (* the duty cycle after an overrun panics *)
  holds_c10 0 1000000 10000 5000 [DoWork BLapped; DoWork BNone] [(Err UnableToKeepUp, [], []); (Panic, [], [])] = false
  (* closing with a cached subscription hangs *)
  /\ holds_c10 0 1000000 10000 5000 [Add KSub 4 9 0; DoWork (BEvent (EvSubReady 1 6)); Close]
       [(Ok [1], [], [Cmd 4 0 1 [-1; 4; 9]]); (Ok [1], [CbNewSub 1 9 4], []); (Hang, [], [])] = false
  (* the close handler fires on every stalled duty cycle *)
  /\ holds_c10 0 1000000 10000 5000 [Tick 5001; DoWork BNone; Tick 5001; DoWork BNone]
       [(Ok [], [], []); (Ok [1], [CbClose; CbErr EServiceTimeout], []); (Ok [], [], []); (Ok [1], [CbClose; CbErr EServiceTimeout; CbErr EWasInactive], [])] = false
  (* a channel endpoint error on the channel of a ready subscription is not told to the error handler *)
  /\ holds_c10 0 1000000 10000 5000 [Add KSub 4 9 0; DoWork (BEvent (EvSubReady 1 6)); DoWork (BEvent (EvChanError 6))]
       [(Ok [1], [], [Cmd 4 0 1 [-1; 4; 9]]); (Ok [1], [CbNewSub 1 9 4], []); (Ok [1], [], [])] = false
  (* ... or is told although nothing sits on that channel, or by another operation *)
  /\ holds_c10 0 1000000 10000 5000 [Add KSub 4 9 0; DoWork (BEvent (EvSubReady 1 6)); DoWork (BEvent (EvChanError 7))]
       [(Ok [1], [], [Cmd 4 0 1 [-1; 4; 9]]); (Ok [1], [CbNewSub 1 9 4], []); (Ok [1], [CbErr (EChannelEndpoint 7)], [])] = false
  /\ holds_c10 0 1000000 10000 5000 [DoWork BNone] [(Ok [0], [CbErr (EChannelEndpoint 7)], [])] = false.
Proof. repeat split; vm_compute; reflexivity. Qed.
