(* Property C07, K1 source tie (see Props/C06Src.v for the reading of `src_rb_*`).  Statements only; proofs in
   Proofs/GenSrcRingProofs.v.  The parts of ManyToOneRingBuffer::unblock and of the padding header it writes that are
   arithmetic: the consumer / producer indices, the scan limit (inside the data area: the capacity, never the
   trailer), and the header word of the padding record. *)
Require Import V.Base.MachineInt V.Base.MachineInt2 V.Base.MachineIntT V.Generated.GenConsts
               V.Model.LogBase V.Model.Ring V.Proofs.RingArith
               V.Generated.GenSrcRing V.Proofs.GenSrcRingProofs.
Open Scope Z_scope.

Theorem C07_src_unblock_indices : forall m cp hd tl, in_i32 (cp - 1) = true ->
  (k <- src_rb_claim_mask m cp ;; src_rb_unblock_consumer_index m hd k) = Ok (mask_idx cp hd) /\
  (k <- src_rb_claim_mask m cp ;; src_rb_unblock_producer_index m tl k) = Ok (mask_idx cp tl).
Proof. exact src_rb_unblock_indices_eq. Qed.
Print Assumptions C07_src_unblock_indices.

(* the scan limit is the producer index when it is ahead, else the data capacity (Ring.unblock, not unblock_before_fix) *)
Theorem C07_src_unblock_limit : forall m st pi ci,
  src_rb_unblock_limit m (r_cap st) pi ci = Ok (if pi >? ci then pi else r_cap st).
Proof. intros. apply src_rb_unblock_limit_eq. Qed.
Print Assumptions C07_src_unblock_limit.

(* the padding record written over a dead claim carries the Padding type and the given length *)
Theorem C07_src_padding_header : forall m len, in_i32 len = true ->
  src_rb_make_header m len PAD = Ok (make_header len PAD) /\
  (h <- src_rb_make_header m len PAD ;; src_rb_record_length m h) = Ok len /\
  (h <- src_rb_make_header m len PAD ;; src_rb_message_type_id m h) = Ok PAD.
Proof. intros m len H. split; [apply src_rb_make_header_eq|]. apply header_roundtrip; [assumption|reflexivity]. Qed.
Print Assumptions C07_src_padding_header.

Example C07_src_example :
  in_i32 (1024 - 1) = true /\ src_rb_unblock_limit Debug 1024 8 64 = Ok 1024 /\ src_rb_unblock_limit Debug 1024 64 8 = Ok 64.
Proof. repeat split. Qed.
