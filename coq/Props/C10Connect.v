(* C10, the code around the conductor: connect loop, CnC file descriptor, AgentInvoker, AgentRunner. *)
From Coq Require Import ZArith List Bool Lia.
Require Import V.Base.MachineInt V.Generated.GenConsts V.Model.Connect V.Model.CncLayout V.Model.Agent V.Oracle.C10CncOracle.
Import ListNotations.
Open Scope Z_scope.

Theorem C10_cnc_k1_layout :
  CNC_OFF_VERSION = 0 /\ CNC_SZ_VERSION = 4 /\ CNC_OFF_TO_DRIVER_LEN = 4 /\ CNC_META_DATA_FIELDS_END = 48 /\ CNC_META_DATA_LENGTH = 128.
Proof. repeat split; reflexivity. Qed.
Print Assumptions C10_cnc_k1_layout.
