(* C10 - the code around the conductor: the connect / retry loop of Aeron::map_cnc_file, the CnC file descriptor,
   AgentInvoker and the loop of AgentRunner.  Models: Model/Connect.v, Model/CncLayout.v, Model/Agent.v;
   proofs: Proofs/ConnectProofs.v, C10ConnOracleProofs.v, CncLayoutProofs.v, AgentProofs.v. *)
From Coq Require Import ZArith List Bool Lia.
Require Import V.Base.MachineInt V.Generated.GenConsts V.Model.Connect V.Model.CncLayout V.Model.Agent V.Oracle.C10CncOracle.
Require Import V.Proofs.ConnectProofs V.Proofs.C10ConnOracleProofs V.Proofs.CncLayoutProofs V.Proofs.AgentProofs.
Import ListNotations.
Open Scope Z_scope.

(* ---------------------------------------------------------------------------------------------------------- *)
(* K1: constants and meta-data field positions of the CnC file as the compiled crate has them (probed through the
   public readers by harness/vconsts, because MetaDataDefn is private) *)
Theorem C10_cnc_k1_layout :
  CNC_OFF_VERSION = 0 /\ CNC_SZ_VERSION = 4 /\
  CNC_OFF_TO_DRIVER_LEN = 4 /\ CNC_SZ_TO_DRIVER_LEN = 4 /\ CNC_OFF_TO_CLIENTS_LEN = 8 /\ CNC_SZ_TO_CLIENTS_LEN = 4 /\
  CNC_OFF_COUNTER_METADATA_LEN = 12 /\ CNC_SZ_COUNTER_METADATA_LEN = 4 /\ CNC_OFF_COUNTER_VALUES_LEN = 16 /\ CNC_SZ_COUNTER_VALUES_LEN = 4 /\
  CNC_OFF_ERROR_LOG_LEN = 20 /\ CNC_SZ_ERROR_LOG_LEN = 4 /\
  CNC_OFF_CLIENT_LIVENESS_TIMEOUT = 24 /\ CNC_SZ_CLIENT_LIVENESS_TIMEOUT = 8 /\
  CNC_OFF_START_TIMESTAMP = 32 /\ CNC_SZ_START_TIMESTAMP = 8 /\ CNC_OFF_PID = 40 /\ CNC_SZ_PID = 8 /\
  CNC_META_DATA_FIELDS_END = 48 /\ CNC_META_DATA_LENGTH = align CNC_META_DATA_FIELDS_END (2 * CACHE_LINE_LENGTH) /\
  RB_CONSUMER_HEARTBEAT_OFFSET + 8 <= RB_TRAILER_LENGTH.
Proof. repeat split; vm_compute; congruence. Qed.
Print Assumptions C10_cnc_k1_layout.

(* ---------------------------------------------------------------------------------------------------------- *)
(* The connect loop, for every environment (every answer of every file / version / heartbeat / clock observation),
   debug and release build.  `arith_ok`: 0 <= timeout <= every clock value < 2^64 and start + timeout < 2^64 (the
   source's u64 arithmetic is exact); `settled e T N`: from clock call N on every answer is past start + timeout. *)

(* returns after at most 6 N observations, having called the clock at most N + 1 times - never loops for ever *)
Theorem C10_connect_returns : forall m T e N fuel,
  arith_ok e T -> settled e T N -> (6 * N <= fuel)%nat ->
  fst (connect fuel m T e) <> RHang /\ (snd (connect fuel m T e) <= S N)%nat.
Proof. exact connect_terminates. Qed.
Print Assumptions C10_connect_returns.

(* the same for a clock that does not run backwards and passes the deadline at call N *)
Theorem C10_connect_returns_monotone_clock : forall m T e N fuel,
  arith_ok e T -> nondecr e -> e_clock e N > e_clock e 0%nat + T -> (6 * N <= fuel)%nat ->
  fst (connect fuel m T e) <> RHang /\ (snd (connect fuel m T e) <= S N)%nat.
Proof. exact connect_returns_monotone. Qed.
Print Assumptions C10_connect_returns_monotone_clock.

(* Ok only if: a non-empty file was mapped, its version word was non-zero with the right major, a non-zero heartbeat
   was seen, and the heartbeat read by the freshness test was not older than the time-out at the clock value of
   that test *)
Theorem C10_connect_ok_means : forall m T e fuel n v h1 t h2, arith_ok e T ->
  fst (connect fuel m T e) = ROk n v h1 t h2 ->
  let K := snd (connect fuel m T e) in
  (2 <= K)%nat
  /\ t = e_clock e (K - 1) /\ h2 = s_hb (e_snap e K 0%nat) /\ (wrapu64 h2 <? t - T) = false
  /\ h1 <> 0 /\ (exists j, h1 = s_hb (e_snap e (K - 1) j))
  /\ v <> 0 /\ version_ok v = true /\ (exists k j, (1 <= k <= K - 1)%nat /\ s_ver (e_snap e k j) = v)
  /\ (exists k j n0, (1 <= k <= K - 1)%nat /\ s_file (e_snap e k j) = FSize n0 /\ n0 <> 0 /\ n = wrap32 n0).
Proof. exact connect_ok_means. Qed.
Print Assumptions C10_connect_ok_means.

(* CncNotCreated / CncCreatedButNotInitialised / NoHeartbeatDetected only past the deadline, and only when the last
   thing seen was an empty file / a zero version word / a zero or stale heartbeat *)
Theorem C10_connect_timeout_means : forall m T e fuel er w t, arith_ok e T ->
  fst (connect fuel m T e) = RErr er w t -> er = ENotCreated \/ er = ENotInitialised \/ er = ENoHeartbeat ->
  let K := snd (connect fuel m T e) in
  (2 <= K)%nat /\ t = e_clock e (K - 1) /\ t > e_clock e 0%nat + T
  /\ match er with
     | ENotCreated => exists j, s_file (e_snap e (K - 1) j) = FSize 0
     | ENotInitialised => exists j, s_ver (e_snap e (K - 1) j) = 0
     | _ => (w = 0 /\ exists j, s_hb (e_snap e (K - 1) j) = 0) \/ (w = s_hb (e_snap e K 0%nat) /\ (wrapu64 w <? t - T) = true)
     end.
Proof. exact connect_timeout_means. Qed.
Print Assumptions C10_connect_timeout_means.

(* CncVersionDoesntMatch only for a non-zero version word with another major; the file-system error only when the
   file is absent (or there is nothing to map) *)
Theorem C10_connect_immediate_error_means : forall m T e fuel er w t, arith_ok e T ->
  fst (connect fuel m T e) = RErr er w t -> er = EVersion \/ er = EMapFile ->
  let K := snd (connect fuel m T e) in
  (1 <= K)%nat /\
  match er with
  | EVersion => w <> 0 /\ version_ok w = false /\ exists j, s_ver (e_snap e K j) = w
  | _ => exists j, s_file (e_snap e K j) = FMissing \/ s_file (e_snap e K j) = FSize 0
  end.
Proof. exact connect_immediate_error_means. Qed.
Print Assumptions C10_connect_immediate_error_means.

(* no panic (bounds_check, the `expect` on the ring capacity, arithmetic) and no read outside the mapping when every
   generation of the file is absent, empty, or at least as long as the meta data plus the to-driver region it
   announces, with a power-of-two ring capacity *)
Theorem C10_connect_no_panic : forall m T e lo fuel,
  arith_ok e T -> env_wf e lo -> fst (connect fuel m T e) <> RPanic /\ fst (connect fuel m T e) <> RUndef.
Proof. exact connect_total. Qed.
Print Assumptions C10_connect_no_panic.

(* a CnC file left by a dead driver (usable, heartbeat stale against every clock value) is answered with
   NoHeartbeatDetected within the bound - the client does not hang on it; a live driver is found *)
Theorem C10_connect_dead_driver : forall m T e N lo fuel,
  arith_ok e T -> settled e T N -> env_wf e lo -> all_dead e T -> (6 * N <= fuel)%nat ->
  exists w t, fst (connect fuel m T e) = RErr ENoHeartbeat w t /\ (snd (connect fuel m T e) <= S N)%nat.
Proof. exact connect_dead_driver. Qed.
Print Assumptions C10_connect_dead_driver.

Theorem C10_connect_live_driver : forall m T e N lo fuel,
  arith_ok e T -> settled e T N -> env_wf e lo -> all_alive e T -> (6 * N <= fuel)%nat ->
  exists n v h1 t h2, fst (connect fuel m T e) = ROk n v h1 t h2.
Proof. exact connect_live_driver. Qed.
Print Assumptions C10_connect_live_driver.

(* a driver that is alive when the client arrives is found at the first attempt: two clock calls *)
Theorem C10_connect_alive_at_once : forall m T e lo fuel,
  arith_ok e T -> env_wf e lo ->
  (forall j, usable (e_snap e 1%nat j) /\ s_hb (e_snap e 1%nat j) <> 0) ->
  (wrapu64 (s_hb (e_snap e 2%nat 0%nat)) <? e_clock e 1%nat - T) = false ->
  (6 <= fuel)%nat ->
  exists n v h1 t h2, connect fuel m T e = (ROk n v h1 t h2, 2%nat).
Proof. exact connect_alive_at_once. Qed.
Print Assumptions C10_connect_alive_at_once.

(* the decidable statement used on the implementation's observations is true on the model's, for every script *)
Theorem C10_connect_oracle_model : forall m T c0 sc, holds_conn T c0 sc (connect_script m T c0 sc) = true.
Proof. exact holds_conn_model. Qed.
Print Assumptions C10_connect_oracle_model.

(* the hypotheses are satisfiable: a dead driver's file, a clock stepping past the deadline *)
Definition dead_script : list (snap * Z) :=
  map (fun i => (mkSnap (FSize 4096) 16 1792 995000, 1000000 + 40 * i)) [1; 2; 3; 4; 5].
Example C10_connect_example_dead :
  script_wf 100 1000000 dead_script = true
  /\ connect_script Debug 100 1000000 dead_script = (KErr ENoHeartbeat, 4)
  /\ connect_script Release 100 1000000 dead_script = (KErr ENoHeartbeat, 4)
  /\ holds_conn 100 1000000 dead_script (KErr ENoHeartbeat, 4) = true
  /\ holds_conn 100 1000000 dead_script (KHang, 22) = false           (* what the start-time-reread change produces *)
  /\ holds_conn 100 1000000 dead_script (KErr ENoHeartbeat, 9) = false.
Proof. vm_compute. repeat split; reflexivity. Qed.

Example C10_connect_hyps_satisfiable :
  let e := env_of_script 1000000 dead_script in
  arith_ok e 100 /\ settled e 100 3 /\ env_wf e 4096 /\ all_dead e 100 /\ nondecr e.
Proof.
  assert (Hwf : script_wf 100 1000000 dead_script = true) by (vm_compute; reflexivity).
  cbn zeta. split; [apply script_arith_ok; exact Hwf |].
  split; [exact (proj1 (script_settled _ _ _ Hwf)) |].
  split; [exact (script_env_wf _ _ _ Hwf) |].
  split.
  - intros k j k2 Hk. rewrite snap_j.
    assert (Hs : snp 1000000 dead_script k = mkSnap (FSize 4096) 16 1792 995000).
    { destruct k as [|[|[|[|[|[|k]]]]]]; try lia; reflexivity. }
    rewrite Hs. split.
    { split; [exists 4096; split; [reflexivity | lia] |]. split; [cbn; lia | vm_compute; reflexivity]. }
    generalize (clock_in 1000000 dead_script k2). generalize (e_clock (env_of_script 1000000 dead_script) k2).
    intros t Hin. cbn in Hin. destruct Hin as [<-|[<-|[<-|[<-|[<-|[<-|[]]]]]]]; vm_compute; reflexivity.
  - intros i j Hij.
    assert (Hc : forall k, e_clock (env_of_script 1000000 dead_script) k = 1000000 + 40 * Z.of_nat (Nat.min k 5)).
    { intros k. destruct k as [|[|[|[|[|[|k]]]]]]; try reflexivity. }
    rewrite !Hc. lia.
Qed.

(* the two exactness assumptions are needed *)
Example C10_connect_tiny_clock_debug_panics :
  connect_script Debug 100 50 [(mkSnap (FSize 4096) 16 1792 5, 60); (mkSnap (FSize 4096) 16 1792 5, 400)] = (KPanic, 2).
Proof. exact tiny_clock_debug_panics. Qed.

(* ---------------------------------------------------------------------------------------------------------- *)
(* CnC file descriptor *)

(* for all non-negative lengths whose sum (with the aligned meta data) fits an Index, on a file that holds the meta
   data: the five regions are exactly the consecutive ones, debug and release build *)
Theorem C10_cnc_regions : forall m flen c, lay_pre flen c = true ->
  regions m (wrap32 flen) c =
    let M := CncLayout.META in
    [Ok (M, m_td c); Ok (M + m_td c, m_tc c); Ok (M + m_td c + m_tc c, m_cm c);
     Ok (M + m_td c + m_tc c + m_cm c, m_cv c); Ok (M + m_td c + m_tc c + m_cm c + m_cv c, m_el c)].
Proof. exact regions_ok. Qed.
Print Assumptions C10_cnc_regions.

(* consecutive regions of non-negative lengths: each starts at or after `from` (the aligned meta data), an earlier one
   ends where or before a later one starts (pairwise disjoint), all end inside from + sum of the lengths *)
Theorem C10_cnc_regions_geometry : forall rs ls from,
  consecutive from rs ls = true -> (forall x, In x ls -> 0 <= x) ->
  forall i j oi ci oj cj, (i < j)%nat ->
    nth_error rs i = Some (Ok (oi, ci)) -> nth_error rs j = Some (Ok (oj, cj)) ->
    from <= oi /\ 0 <= ci /\ oi + ci <= oj /\ 0 <= cj /\ oj + cj <= from + zsum ls.
Proof. exact consecutive_geometry. Qed.
Print Assumptions C10_cnc_regions_geometry.

Theorem C10_cnc_oracle_model : forall m flen c, holds_lay flen c (layout m flen c) = true.
Proof. exact holds_lay_model. Qed.
Print Assumptions C10_cnc_oracle_model.

Example C10_cnc_example :
  let c := mkMeta 16 1792 1152 4096 1024 1024 5000000000 1760000000000 4242 in
  lay_pre 9216 c = true
  /\ layout Debug 9216 c = ([Ok (128, 1792); Ok (1920, 1152); Ok (3072, 4096); Ok (7168, 1024); Ok (8192, 1024)],
                            Ok (16, 5000000000, 1760000000000, 4242, 128, 9216)).
Proof. vm_compute. split; reflexivity. Qed.

(* outside the precondition nothing is checked by the code: a negative length puts the next region over the meta
   data; a sum beyond Index::MAX panics in a debug build and wraps to a negative offset in a release build *)
Example C10_cnc_negative_length_overlaps :
  regions Release 4096 (mkMeta 16 (-5) 1152 4096 1024 1024 1 2 3)
  = [Ok (128, -5); Ok (123, 1152); Ok (1275, 4096); Ok (5371, 1024); Ok (6395, 1024)].
Proof. vm_compute. reflexivity. Qed.
Example C10_cnc_overflow :
  nth 2 (regions Debug 4096 (mkMeta 16 2147483000 1152 4096 1024 1024 1 2 3)) (Err OtherErr) = Panic
  /\ nth 2 (regions Release 4096 (mkMeta 16 2147483000 1152 4096 1024 1024 1 2 3)) (Err OtherErr) = Ok (-2147483016, 4096).
Proof. vm_compute. split; reflexivity. Qed.

(* ---------------------------------------------------------------------------------------------------------- *)
(* AgentInvoker, over all call sequences and all agent scripts *)

Theorem C10_invoker_on_start_at_most_once : forall c ops s,
  (count_ev GStart (inv_events c s ops) <= (if i_started s then 0 else 1))%nat.
Proof. exact inv_start_at_most_once. Qed.
Print Assumptions C10_invoker_on_start_at_most_once.

Theorem C10_invoker_on_close_at_most_once : forall c ops s,
  (count_ev GClose (inv_events c s ops) <= (if i_closed s then 0 else 1))%nat.
Proof. exact inv_close_at_most_once. Qed.
Print Assumptions C10_invoker_on_close_at_most_once.

(* invoke before a successful start or after close does nothing and returns 0 *)
Theorem C10_invoker_not_running_noop : forall c s, i_running s = false -> inv_step c s IInvoke = (s, 0, []).
Proof. exact invoke_not_running. Qed.
Print Assumptions C10_invoker_not_running_noop.

(* a do_work error goes to the exception handler, invoke returns 0 and the agent keeps running *)
Theorem C10_invoker_error_keeps_running : forall c s r, i_running s = true -> i_work s = WErr :: r ->
  inv_step c s IInvoke = (mkInv (i_started s) true (i_closed s) r, 0, [GWork; GErr]).
Proof. exact invoke_error_keeps_running. Qed.
Print Assumptions C10_invoker_error_keeps_running.

(* after on_close nothing but its own error report happens, for every sequence in which start is not called for the
   first time after a close (Aeron::new / Drop never do; see C10_invoker_start_after_close_runs) *)
Theorem C10_invoker_quiet_after_close : forall c ops s, tidy s ->
  no_start_after_close ops (i_closed s) = true -> quiet_after_close (inv_events c s ops) = true.
Proof. exact inv_quiet_after_close. Qed.
Print Assumptions C10_invoker_quiet_after_close.

(* orderly close of the invoker: the first close() of a not yet closed invoker runs on_close in that very call - started or
   not, running or not - and a failed on_start closes the agent in the same call *)
Theorem C10_invoker_close_runs_on_close : forall c w ops, holds_inv_close ops (inv_obs c w ops) = true.
Proof. exact holds_inv_close_model. Qed.
Print Assumptions C10_invoker_close_runs_on_close.

Theorem C10_invoker_oracle_model : forall c w ops, holds_inv ops (inv_obs c w ops) = true.
Proof. exact holds_inv_model. Qed.
Print Assumptions C10_invoker_oracle_model.

Example C10_invoker_example :
  inv_obs (mkCfg false false) [WOk 3; WErr; WOk 0] [IInvoke; IStart; IQuery; IInvoke; IInvoke; IInvoke; IClose; IInvoke; IClose; IQuery]
  = [(Ok 0, []); (Ok 0, [GStart]); (Ok 6, []); (Ok 3, [GWork]); (Ok 0, [GWork; GErr]); (Ok 0, [GWork]);
     (Ok 0, [GClose]); (Ok 0, []); (Ok 0, []); (Ok 5, [])]
  /\ tidy (inv_init [WOk 3]) /\ no_start_after_close [IStart; IInvoke; IClose; IInvoke] false = true.
Proof. split; [reflexivity |]. split; [intros H; discriminate | reflexivity]. Qed.

(* as in Agrona: a first start() after close() runs an agent whose on_close has already run *)
Example C10_invoker_start_after_close_runs :
  inv_obs (mkCfg false false) [WOk 3] [IClose; IStart; IInvoke; IQuery]
  = [(Ok 0, [GClose]); (Ok 0, [GStart]); (Ok 3, [GWork]); (Ok 7, [])].
Proof. exact inv_start_after_close_runs. Qed.

(* ---------------------------------------------------------------------------------------------------------- *)
(* AgentRunner::run, over all scripts of do_work results and of signals on the stop channel *)

(* the loop ends (Ok), on_start is the first call, on_close is called exactly once and is the last call of the agent,
   every do_work is followed by idle_opt (Ok) or by the exception handler (Err) - an error does not end the loop *)
Theorem C10_runner_oracle_model : forall c pre w, holds_runner c pre w (runner_obs c pre w) = true.
Proof. exact holds_runner_model. Qed.
Print Assumptions C10_runner_oracle_model.

Theorem C10_runner_stop_honoured : forall fuel q w extra, run_loop (S fuel) (true :: q) w extra = (Ok tt, []).
Proof. exact runner_stop_honoured. Qed.
Print Assumptions C10_runner_stop_honoured.

Theorem C10_runner_error_goes_on : forall fuel q sig w extra, loop_head q <> None ->
  exists q1 o ev, loop_head q = Some q1 /\ run_loop fuel (q1 ++ sig) w extra = (o, ev)
                  /\ run_loop (S fuel) q ((WErr, sig) :: w) extra = (o, GWork :: GErr :: ev).
Proof. exact runner_error_goes_on. Qed.
Print Assumptions C10_runner_error_goes_on.

Theorem C10_runner_thread_oracle_model : forall s w, holds_thr s w (thr_obs s w) = true.
Proof. exact holds_thr_model. Qed.
Print Assumptions C10_runner_thread_oracle_model.

Example C10_runner_example :
  runner_obs (mkCfg true true) [false] [(WOk 1, []); (WErr, [false]); (WOk 0, [true]); (WOk 9, [])]
  = (Ok 0, [GStart; GErr; GWork; GIdle 1; GWork; GErr; GWork; GIdle 0; GClose; GErr])
  /\ runner_pre [false] [(WOk 1, []); (WErr, [false]); (WOk 0, [true]); (WOk 9, [])] = true.
Proof. vm_compute. split; reflexivity. Qed.
