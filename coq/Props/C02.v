(* Property C02 - concurrent publishers never overlap, lose or reorder each other's messages.
   Statements only; proofs are in Proofs/ (AppenderInv.v defines the invariant AppInv, the admissibility
   conditions and the ghost claim lists; C02Proofs.v the system and reachability). *)
Require Import V.Base.MachineInt.
Require Import V.Generated.GenConsts.
Require Import V.Model.LogBase.
Require Import V.Model.Descriptor.
Require Import V.Model.Sched.
Require Import V.Model.AppenderThreads.
Require Import V.Oracle.C02Oracle.
Require Import V.Proofs.TailArith.
Require Import V.Proofs.FragArith.
Require Import V.Proofs.AppenderInv.
Require Import V.Proofs.AppenderInv2.
Require Import V.Proofs.C02Proofs.
Require Import V.Proofs.C02Quiescent.
Require Import V.Proofs.AppenderMsgs.
Require Import V.Proofs.C02OracleProofs.
Require Import V.Proofs.C02Words.
Require Import V.Proofs.C02Trace.
Require Import V.Proofs.C02OracleFull.
Require Import V.Proofs.C02OracleRun.
Require Import V.Model.Appender.
Require Import V.Model.Publication.
Require Import V.Proofs.C02SeqTerm.
Require Import V.Proofs.C02Solo.
Require Import V.Proofs.C02Collapse.
Require Import V.Proofs.C02CollapseRun.
Require Import V.Oracle.C02SoloOracle.
Require Import V.Proofs.C02SoloOracleProofs.
Require Import V.Proofs.C02Example.
Open Scope Z_scope.

(* The invariant holds in every configuration reachable by ANY number of publisher (and environment) threads
   under EVERY interleaving of admissible steps. A step is admissible (AppenderInv.adm_pub / adm_env) unless
     - it is a get_and_add that finds another term id in the tail than the one the thread had read from it
       (known class stalled3: the log rotated a multiple of three times in between), or the 32-bit offset field
       of the raw tail would overflow;
     - it is the CAS that rotates the log into a partition which is not clean or in which a publisher still
       holds an unfinished claim, or a driver-side zeroing of a partition that is not full or still has such a
       claim (media driver contract, DESIGN 4.5);
     - it would take the term count beyond 2^30. *)
Theorem C02_invariant : forall c, wf_cfg c ->
  forall s th gh, reach c s th gh -> AppInv c s gh (pubs th).
Proof. exact reach_inv. Qed.
Print Assumptions C02_invariant.

(* second layer (AppenderInv2.AppInv2): nobody panics, every accepted offer has a claim, every refusal is a retry or
   back-pressure answer, a rotation in progress / a tripped active term always has a thread that will complete the
   rotation, no claim exists beyond the active term, positions of one publisher increase in offer order *)
Theorem C02_invariant2 : forall c, wf_cfg c ->
  forall s th gh, reach c s th gh -> AppInv2 c s gh (pubs th).
Proof. exact reach_inv2. Qed.
Print Assumptions C02_invariant2.

(* the same for the executable run over a schedule with crash points, as evaluated in the correspondence check *)
Theorem C02_invariant_run : forall c, wf_cfg c ->
  forall stop sched limit th, (forall t, init_thread (th t)) ->
  adm_sched c stop sched (init_shared c limit, th, (fun _ => O), []) ->
  let '(s, th', g, tr) := run_sched (tstep c) stop sched (init_shared c limit, th, (fun _ => O), []) in
  exists gh, AppInv c s gh (pubs th').
Proof. exact run_sched_inv. Qed.
Print Assumptions C02_invariant_run.

(* ranges obtained by get_and_add on one tail are pairwise disjoint (they are laid back to back: AppInv.iv_chain) *)
Theorem C02_claims_disjoint : forall c, wf_cfg c -> forall s gh P p e e',
  AppInv c s gh P -> 0 <= p < 3 -> c_n0 c <= tg c s p ->
  In e (g_claims gh (tg c s p)) -> In e' (g_claims gh (tg c s p)) ->
  e = e' \/ e_b e <= e_a e' \/ e_b e' <= e_a e.
Proof. intros c _. exact (claims_disjoint c). Qed.
Print Assumptions C02_claims_disjoint.

(* at most one claim starts inside a term and ends beyond it: exactly one publisher pads *)
Theorem C02_single_padder : forall c, wf_cfg c -> forall s gh P p e e',
  AppInv c s gh P -> 0 <= p < 3 -> c_n0 c <= tg c s p ->
  In e (g_claims gh (tg c s p)) -> In e' (g_claims gh (tg c s p)) ->
  e_a e < TL c < e_b e -> e_a e' < TL c < e_b e' -> e = e'.
Proof. intros c _. exact (single_padder c). Qed.
Print Assumptions C02_single_padder.

(* no publisher step ever changes a committed frame *)
Theorem C02_committed_never_change : forall c, wf_cfg c -> forall s gh P t l s' l' ev p o,
  AppInv c s gh P -> P t = Some l -> pstep c t s l = Some (s', l', ev) ->
  0 < s_len (sh_mem s p o) -> sh_mem s' p o = sh_mem s p o.
Proof. exact committed_never_change. Qed.
Print Assumptions C02_committed_never_change.

(* at quiescence every live partition is a gap-free sequence of well-formed committed frames from its base to
   min(tail, term length) - the data frames of the accepted messages in claim order, one padding frame iff a
   claim straddled the term end - and zero from there on *)
Theorem C02_quiescent_tiles : forall c, wf_cfg c -> forall s gh P p,
  AppInv c s gh P -> quiescent P -> 0 <= p < 3 ->
  c_n0 c <= tg c s p -> g_cleaned gh (tg c s p) = false ->
  tiles c (sh_mem s p) (tid_of c (tg c s p)) (base c (tg c s p)) (Z.min (toff s p) (TL c)) /\
  (forall o, Z.min (toff s p) (TL c) <= o -> sh_mem s p o = zslot).
Proof. exact quiescent_tiles. Qed.
Print Assumptions C02_quiescent_tiles.

(* what a publisher is told about a claim: the position at the end of its own message when the message was
   written (claim inside the term), AdminAction (retry) when the claim tripped the term end *)
Theorem C02_claim_result : forall c, wf_cfg c -> forall s gh P g e,
  AppInv c s gh P -> In e (g_claims gh g) ->
  exists l, P (e_t e) = Some l /\
    ((e_j e < length (p_res l))%nat ->
       nth (e_j e) (p_res l) Panic = (if e_b e <=? TL c then Ok (g * TL c + e_b e) else Err AdminAction)).
Proof. intros c W. exact (claim_result c). Qed.
Print Assumptions C02_claim_result.

(* an accepted offer has its own claim inside a term; the returned position is the end of the caller's own message *)
Theorem C02_accepted_has_claim : forall c, wf_cfg c -> forall s gh P t l j pos,
  AppInv c s gh P -> AppInv2 c s gh P -> P t = Some l -> nth_error (p_res l) j = Some (Ok pos) ->
  exists g e, In e (g_claims gh g) /\ e_t e = t /\ e_j e = j /\ e_b e <= TL c /\ pos = g * TL c + e_b e.
Proof. intros c _. exact (accepted_has_claim c). Qed.
Print Assumptions C02_accepted_has_claim.

(* which message: the j-th attempt of publisher t, if accepted, wrote its own claim, and that claim carries message number
   (accepted offers before attempt j) of the list `orig t` the publisher was started with - each publisher's messages
   appear in its offer order, none skipped, none repeated (reachm = reach from publishers started with `orig`) *)
Theorem C02_accepted_message : forall c, wf_cfg c -> forall orig s th gh t l j pos,
  reachm c orig s th gh -> th t = TPub l -> nth_error (p_res l) j = Some (Ok pos) ->
  exists g e, In e (g_claims gh g) /\ e_t e = t /\ e_j e = j /\ e_b e <= TL c /\ pos = g * TL c + e_b e /\
    e_msg e = nth (count_ok (firstn j (p_res l))) (orig t) [].
Proof. exact accepted_message. Qed.
Print Assumptions C02_accepted_message.

(* each publisher's accepted positions increase in its offer order; positions of different claims are distinct *)
Theorem C02_positions_increasing : forall c, wf_cfg c -> forall s gh P t l j j' pos pos',
  AppInv c s gh P -> AppInv2 c s gh P -> P t = Some l -> (j < j')%nat ->
  nth_error (p_res l) j = Some (Ok pos) -> nth_error (p_res l) j' = Some (Ok pos') -> pos < pos'.
Proof. intros c _. exact (positions_increasing c). Qed.
Print Assumptions C02_positions_increasing.

Theorem C02_positions_distinct : forall c, wf_cfg c -> forall s gh P g g' e e',
  AppInv c s gh P -> In e (g_claims gh g) -> In e' (g_claims gh g') -> e_b e <= TL c -> e_b e' <= TL c ->
  g * TL c + e_b e = g' * TL c + e_b e' -> g = g' /\ e = e'.
Proof. exact positions_distinct. Qed.
Print Assumptions C02_positions_distinct.

(* every answer is a position, AdminAction (retry), back pressure / not connected, or an argument error; no panic *)
Theorem C02_answers : forall c s gh P t l r,
  AppInv2 c s gh P -> P t = Some l -> (In r (p_res l) -> res_okP r) /\ p_pc l <> PPanicked.
Proof. exact answers_ok. Qed.
Print Assumptions C02_answers.

(* at quiescence: not mid-rotation, the active term is not tripped, the filled (tripped) generations are exactly those
   below the active term count - every filled term was rotated exactly once - and nothing was claimed beyond *)
Theorem C02_quiescent_rotation : forall c, wf_cfg c -> forall s gh P,
  AppInv c s gh P -> AppInv2 c s gh P -> quiescent P ->
  tg c s ((sh_count s + 1) mod 3) = sh_count s - 2 /\
  toff s (sh_count s mod 3) <= TL c /\
  (forall g, c_n0 c <= g -> (tripped c gh g <-> g < sh_count s)) /\
  (forall g, sh_count s < g -> g_claims gh g = []).
Proof. exact quiescent_rotation. Qed.
Print Assumptions C02_quiescent_rotation.

(* THE ORACLE ON THE MODEL.  The whole decidable predicate holds_C02 that judges the implementation's observations - results
   part AND log part: the walk over the rendered words of every partition, coverage of every dumped word by a walked frame,
   padding only at a term end, reassembled data messages = accepted offers of that generation (same end positions, same bytes,
   nothing else), all positions distinct, count / tails (each filled term rotated exactly once) - is `true` on the observation
   (trace, per-thread results, dump) of EVERY quiescent configuration the thread model can reach:
   any number of threads, any message lists of bytes, every interleaving of admissible steps.
   reacht = reachm (publishers started with the lists `orig`) carrying the trace of the events of the steps taken
   (the oracle reads the trace to know which partitions the driver zeroed after the last rotation into them).
   The proof goes through the render / decode round trip between the slot-level state and the word dump
   (Proofs/C02Words, C02Render, C02Frames, C02GenFrames), C02_accepted_message and the ghost claim lists. *)
Theorem C02_oracle : forall c, wf_cfg c -> forall orig s th gh tr n stop g offers,
  (forall t m, In m (orig t) -> Forall byte m) ->
  reacht c orig s th gh tr -> all_done th -> length offers = n ->
  (forall t l, th t = TPub l -> (t < n)%nat /\ nth t offers [] = orig t) ->
  holds_C02 c offers
    (map ev_tuple tr, map (fun t => thread_obs stop g t (th t)) (seq 0 n), dump c s, @nil (Z * Z * Z * Z * list Z)) = true.
Proof. intros c W orig s th gh tr n stop g offers OB R D Hlen Hpub.
  exact (oracle_full c W orig OB s th gh tr R D n stop g offers Hlen Hpub). Qed.
Print Assumptions C02_oracle.

(* the same for the EXECUTABLE run of the model that the correspondence check evaluates for every case (AppenderThreads.run_case =
   Sched.run: the schedule, then every thread drained in thread-id order): when every step it takes is admissible
   (C02OracleRun.adm_sched_t / adm_drain: sys_adm at every granted step) and all threads end done, holds_C02 is true on run_case's
   own observation *)
Theorem C02_oracle_run : forall c, wf_cfg c -> forall limit ths sched stops orig offers,
  (forall t m, In m (orig t) -> Forall byte m) ->
  (forall t, match threads_of ths t with TPub l => exists b, l = p_start (orig t) b [] | _ => True end) ->
  length offers = length ths ->
  (forall t l, threads_of ths t = TPub l -> nth t offers [] = orig t) ->
  let r0 := (init_shared c limit, threads_of ths, (fun _ : nat => O), @nil event) in
  adm_sched_t c (stop_of stops) sched r0 ->
  adm_drain c (stop_of stops) (Z.to_nat 20000) (seq 0 (length ths)) (run_sched (tstep c) (stop_of stops) sched r0) ->
  (let '(s, th, g, tr) := run (tstep c) (length ths) (Z.to_nat 20000) (stop_of stops) sched (init_shared c limit, threads_of ths) in all_done th) ->
  holds_C02 c offers (run_case c limit ths sched stops) = true.
Proof. exact oracle_run. Qed.
Print Assumptions C02_oracle_run.

(* every reacht configuration is a reach configuration: all theorems above apply to it *)
Theorem C02_reacht_reach : forall c orig s th gh tr, reacht c orig s th gh tr -> reach c s th gh.
Proof. intros c orig s th gh tr R. exact (reachm_reach c orig s th gh (reacht_reachm c orig s th gh tr R)). Qed.
Print Assumptions C02_reacht_reach.

(* the former partial statement (results part only, for `reach`): kept under its name; for reacht it is a consequence of C02_oracle *)
Theorem C02_oracle_results_partial : forall c, wf_cfg c -> forall s th gh n stop g offers,
  reach c s th gh -> all_done th -> length offers = n ->
  holds_results offers (map (fun t => thread_obs stop g t (th t)) (seq 0 n)) = true.
Proof. exact oracle_results_model. Qed.
Print Assumptions C02_oracle_results_partial.

Corollary C02_oracle_results : forall c, wf_cfg c -> forall orig s th gh tr n stop g offers,
  (forall t m, In m (orig t) -> Forall byte m) ->
  reacht c orig s th gh tr -> all_done th -> length offers = n ->
  (forall t l, th t = TPub l -> (t < n)%nat /\ nth t offers [] = orig t) ->
  holds_results offers (map (fun t => thread_obs stop g t (th t)) (seq 0 n)) = true.
Proof. intros c W orig s th gh tr n stop g offers OB R D Hlen Hpub.
  pose proof (C02_oracle c W orig s th gh tr n stop g offers OB R D Hlen Hpub) as H. unfold holds_C02 in H. cbv beta iota zeta in H.
  do 12 (apply andb_prop in H; destruct H as (H & _)). exact H. Qed.
Print Assumptions C02_oracle_results.

(* the known class is inhabited: publisher 0 parked between the tail read and its get_and_add while publisher 1
   fills three terms panics and the property's predicate fails on that run *)
Definition stalled3_cfg := mkCfg 5 10 256 11 22 0 0.
Definition stalled3_msgs := map (fun k => payload k 96) [2;3;4;5;6;7;8;9;10;11;12;13;14;15;16;17;18;19;20;21;22;23;24;25;99].
Definition stalled3_run :=
  run_case stalled3_cfg 10240 [pub 1 [payload 1 40]; pub 27 stalled3_msgs] ([0;0;0] ++ repeat 1 400)%nat [].

Theorem C02_stalled3_witness :
  KnownClass_stalled3 (fst (fst (fst stalled3_run))) = true /\
  holds_C02 stalled3_cfg [[payload 1 40]; stalled3_msgs] stalled3_run = false /\
  nth 0 (snd (fst (fst stalled3_run))) (Done, []) = (Panicked, [Panic]).
Proof. vm_compute. repeat split; reflexivity. Qed.
Print Assumptions C02_stalled3_witness.

(* the hypotheses are satisfiable: a legal geometry, an initial configuration with three publishers, and a
   reachable configuration after two of them have read the limit *)
Example C02_example_cfg : wf_cfg (mkCfg 2147483646 10 256 11 22 1 960).
Proof. constructor; cbn; try (vm_compute; intuition congruence). Qed.

Example C02_example_reach :
  let c := mkCfg 2147483646 10 256 11 22 1 960 in
  let th := threads_of [pub 3 [payload 1 40]; pub 3 [payload 2 100]; pub 2 [payload 3 0]] in
  exists s th' gh, reach c s th' gh /\ (exists l, th' 1%nat = TPub l /\ p_pc l = PReadCount).
Proof. intros c th.
  assert (R0 : reach c (init_shared c 4096) th ghost0).
  { apply reach_init. intros t.
    destruct t as [|t]; [exists [payload 1 40], 3%nat; reflexivity|].
    destruct t as [|t]; [exists [payload 2 100], 3%nat; reflexivity|].
    destruct t as [|t]; [exists [payload 3 0], 2%nat; reflexivity|].
    unfold th, threads_of. cbn [nth]. destruct t; exact I. }
  pose proof (reach_step c _ th ghost0 0%nat _ _ _ R0 I eq_refl) as R1.
  pose proof (reach_step c _ _ _ 1%nat _ _ _ R1 I eq_refl) as R2.
  eexists. eexists. eexists. split; [exact R2|]. eexists. split; reflexivity. Qed.

(* the hypotheses of C02_oracle are satisfiable by a non-trivial run: two publishers, interleaved, both messages accepted,
   everybody done (Proofs/C02Example.v: an executable run whose steps are checked admissible) - and on it the oracle is true *)
Example C02_example_oracle : exists s th gh tr,
  reacht ex_cfg ex_orig s th gh tr /\ all_done th /\
  (exists l0 l1, th 0%nat = TPub l0 /\ th 1%nat = TPub l1 /\ p_res l0 = [Ok 1344] /\ p_res l1 = [Ok 1248]) /\
  holds_C02 ex_cfg ex_offers
    (map ev_tuple tr, map (fun t => thread_obs (fun _ => None) (fun _ => O) t (th t)) (seq 0 2), dump ex_cfg s, @nil (Z * Z * Z * Z * list Z)) = true.
Proof. destruct ex_reach as (s & th & gh & tr & R & D & Hpub & Hres). exists s, th, gh, tr.
  repeat (split; [assumption|]).
  apply (C02_oracle ex_cfg ex_wf ex_orig s th gh tr 2%nat _ _ ex_offers ex_bytes R D eq_refl Hpub). Qed.

(* ---------------------------------------------------------------------------------------------------------------------
   COLLAPSE: one publisher machine running alone IS the sequential Publication model of C01 / C04.

   sim c s lg  (Proofs/C02Collapse.v): the sequential log `lg` (Model/LogBase.v: structured terms) and the shared state `s` of the
   thread model carry the same geometry, count, raw tails, limit, is-connected flag, and every partition has the same dump
   (render_term = render_mem), with nothing rendered that an append at the tail would cut.
   att c t s l s' l': thread t takes admissible steps, nobody else moves, until its current attempt records a result.
   ssteps: any number of admissible steps of thread t alone.  rv0: the reserved-value supplier returning 0 (offer's default).
   Geometry: wf_cfg and MTU <= 2^28 (the i32 arithmetic of the length computations of term_appender.rs is then exact in
   both build modes, so the statement holds for Debug and Release alike). *)

(* one attempt of the machine = one call of Publication.pub_offer on a corresponding log: same result, corresponding logs *)
Theorem C02_collapse_attempt : forall c, wf_cfg c -> c_mtu c <= 268435456 -> forall m t s lg cl l s' l',
  SI c s -> sim c s lg -> p_pc l = PReadLimit -> mlen l < two31 -> att c t s l s' l' ->
  exists lg' r, pub_offer m rv0 (mkPub lg false cl) (cur_msg l) = (mkPub lg' false cl, r) /\ l' = finish r l /\ sim c s' lg' /\ SI c s'.
Proof. exact collapse_attempt. Qed.
Print Assumptions C02_collapse_attempt.

(* the whole thread body, for every message list and every budget: every complete run of the machine alone from the log the
   driver hands over gives exactly the results of the sequential model folded over the list with the same retry loop, and a
   corresponding log (hence the same dump: count, raw tails, every non-zero word of the three partitions) *)
Theorem C02_collapse : forall c, wf_cfg c -> c_mtu c <= 268435456 -> forall m t msgs budget limit s' l',
  (forall msg, In msg msgs -> FragArith.zlen msg < two31) ->
  ssteps c t (init_shared c limit) (p_start msgs budget []) s' l' -> p_pc l' = PDone ->
  exists lg', seq_thread m (init_log c limit) None msgs budget [] = (lg', p_res l') /\ sim c s' lg' /\
    log_dump lg' = (sh_count s', [sh_tail s' 0; sh_tail s' 1; sh_tail s' 2],
                    [render_mem c (sh_mem s') 0; render_mem c (sh_mem s') 1; render_mem c (sh_mem s') 2]).
Proof. intros c W Wm m t msgs budget limit s' l' Hm H Hd.
  destruct (collapse_solo c W t Wm m msgs budget limit s' l' Hm H Hd) as (lg' & E & M).
  exists lg'. split; [assumption|]. split; [assumption|]. apply sim_dump. assumption. Qed.
Print Assumptions C02_collapse.

(* the same through the scheduler: in a system whose only publisher is thread t, EVERY schedule and crash points whose steps
   are admissible is a run of that machine alone; if it ends with the thread done, results and log are the sequential ones *)
Theorem C02_collapse_sched : forall c, wf_cfg c -> c_mtu c <= 268435456 -> forall m t msgs budget limit stop sched th,
  (forall msg, In msg msgs -> FragArith.zlen msg < two31) ->
  only_pub t th (p_start msgs budget []) ->
  adm_sched c stop sched (init_shared c limit, th, (fun _ => O), []) ->
  let '(s', th', g', tr') := run_sched (tstep c) stop sched (init_shared c limit, th, (fun _ => O), []) in
  forall l', th' t = TPub l' -> p_pc l' = PDone ->
  exists lg', seq_thread m (init_log c limit) None msgs budget [] = (lg', p_res l') /\ sim c s' lg'.
Proof. intros c W Wm m t msgs budget limit stop sched th Hm Ho Ha.
  pose proof (run_sched_ssteps c t stop sched _ th (fun _ => O) [] _ Ho Ha) as H.
  destruct (run_sched (tstep c) stop sched (init_shared c limit, th, fun _ : nat => 0%nat, [])) as [[[s' th'] g'] tr'].
  destruct H as (l1 & (Ho1 & _) & Hss). intros l' Hl' Hd. rewrite Ho1 in Hl'. inversion Hl'; subst l1.
  exact (collapse_solo c W t Wm m msgs budget limit s' l' Hm Hss Hd). Qed.
Print Assumptions C02_collapse_sched.

(* satisfiable: one publisher alone offers three messages (the second is fragmented), all accepted; the sequential model
   returns the same three positions *)
Example C02_example_collapse : exists s' l' lg',
  ssteps ex_solo_cfg 0 (init_shared ex_solo_cfg 4096) (p_start ex_solo_msgs 5 []) s' l' /\ p_pc l' = PDone /\
  seq_thread Debug (init_log ex_solo_cfg 4096) None ex_solo_msgs 5 [] = (lg', [Ok 1184; Ok 1376; Ok 1408]) /\ sim ex_solo_cfg s' lg'.
Proof. destruct ex_solo as (s' & l' & H & Hd & Hr).
  destruct (C02_collapse ex_solo_cfg ex_solo_wf ltac:(vm_compute; discriminate) Debug 0%nat ex_solo_msgs 5%nat 4096 s' l') as (lg' & E & M & _); try assumption.
  { intros msg Hin. unfold ex_solo_msgs in Hin. repeat (destruct Hin as [<- | Hin]; [vm_compute; reflexivity|]). destruct Hin. }
  exists s', l', lg'. rewrite Hr in E. auto. Qed.

(* the collapse check evaluated on single-publisher cases (Oracle/C02SoloOracle.v: the implementation's results and dump equal
   those of the SEQUENTIAL model folded over the message list) is true on every complete solo run of the thread model *)
Theorem C02_solo_oracle : forall c, wf_cfg c -> c_mtu c <= 268435456 -> forall m t msgs budget limit s' l' trt,
  (forall msg, In msg msgs -> FragArith.zlen msg < two31) ->
  ssteps c t (init_shared c limit) (p_start msgs budget []) s' l' -> p_pc l' = PDone ->
  solo_ok m c msgs budget limit (trt, [(Done, p_res l')], dump c s', @nil (Z * Z * Z * Z * list Z)) = true.
Proof. exact solo_oracle_model. Qed.
Print Assumptions C02_solo_oracle.
