(* Property C02 - concurrent publishers never overlap, lose or reorder each other's messages.
   Statements only; proofs are in Proofs/. *)
Require Import V.Base.MachineInt V.Generated.GenConsts V.Model.LogBase V.Model.Descriptor V.Model.Sched
               V.Model.AppenderThreads V.Oracle.C02Oracle.
Open Scope Z_scope.

(* the known class is inhabited: publisher 0 parked between the tail read and its get_and_add while publisher 1
   fills three terms panics and the property's predicate fails on that run *)
Definition stalled3_cfg := mkCfg 5 10 256 11 22 0 0.
Definition stalled3_msgs := map (fun k => payload k 96) [2;3;4;5;6;7;8;9;10;11;12;13;14;15;16;17;18;19;20;21;22;23;24;25;99].
Definition stalled3_run :=
  run_case stalled3_cfg 10240 [pub 1 [payload 1 40]; pub 27 stalled3_msgs] ([0;0;0] ++ repeat 1 400)%nat [].

Theorem C02_stalled3_witness :
  KnownClass_stalled3 (fst (fst stalled3_run)) = true /\
  holds_C02 stalled3_cfg [[payload 1 40]; stalled3_msgs] stalled3_run = false /\
  nth 0 (snd (fst stalled3_run)) (Done, []) = (Panicked, [Panic]).
Proof. vm_compute. repeat split; reflexivity. Qed.
Print Assumptions C02_stalled3_witness.
