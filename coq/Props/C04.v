(* Property C04 - flow control and limits: nothing is appended at or beyond the publication limit.
   Statements only; proofs are in Proofs/C04Statements.v (and the files it rests on).

   `reachable m rv s`  : s is the state of a shared Publication after some history of offers, claims (+ commit / abort),
                         bulk offers, limit / connection-flag updates, closes and partition cleanings, started on a log
                         a driver handed over (any legal geometry, any initial term id, any term count below 2^31, any tail
                         offset in the term); lengths fit an i32, the limit stays within half a term of the end of the
                         position space (`limit_ok`).
   `xreachable m rv x` : the same for an ExclusivePublication constructed (as repaired) on such a log.
   m : Debug / Release arithmetic, rv : any reserved-value supplier. *)
Require Import V.Base.MachineInt.
Require Import V.Generated.GenConsts.
Require Import V.Model.Descriptor.
Require Import V.Model.LogBase.
Require Import V.Model.Appender.
Require Import V.Model.ExclAppender.
Require Import V.Model.Publication.
Require Import V.Model.ExclPublication.
Require Import V.Proofs.AppenderProofs.
Require Import V.Proofs.PublicationProofs.
Require Import V.Proofs.BulkProofs.
Require Import V.Proofs.C04Proofs.
Require Import V.Proofs.ExclPublicationProofs.
Require Import V.Proofs.C04Statements.
Require Import V.Oracle.C04Oracle.
Require Import V.Proofs.C04OracleProofs.
Require Import V.Proofs.C04XOracleProofs.
Require Import V.Proofs.RenderWords.
Require Import V.Proofs.C04Bytes.
Require Import V.Proofs.C04XBytes.
Require Import V.Model.PubGetters.
Require Import V.Proofs.C04Getters.
Require Import V.Proofs.C04LimitContract.
Require Import V.Proofs.C04Claims.
Require Import V.Proofs.C04XClaims.
Open Scope Z_scope.

(* every reachable state satisfies the invariant the other statements are proved from *)
Theorem C04_invariant : forall m rv s, reachable m rv s -> exists n off, pub_inv n off s.
Proof. exact reachable_inv. Qed.
Print Assumptions C04_invariant.

Theorem C04_invariant_exclusive : forall m rv x, xreachable m rv x -> exists n, xpub_inv n x.
Proof. exact xreachable_inv. Qed.
Print Assumptions C04_invariant_exclusive.

(* accepted only if the position before is strictly below the limit (and the publication open, the length legal);
   the returned value is position-before + bytes needed, it is what position() reports afterwards, and it never
   exceeds term_length * 2^31 *)
Theorem C04_accept : forall m rv s, reachable m rv s -> forall o s' p,
  op_ok (ps_log s) o -> is_append o = true -> pub_step m rv s o = (s', Ok p) ->
  exists b, pub_position m s = Ok b /\ b < l_limit (ps_log s) /\ ps_closed s = false /\ op_too_long (ps_log s) o = false /\
            p = b + op_required (ps_log s) o /\ pub_position m s' = Ok p /\ 0 <= p <= l_tlen (ps_log s) * two31.
Proof. exact c04_accept. Qed.
Print Assumptions C04_accept.

Theorem C04_accept_exclusive : forall m rv x, xreachable m rv x -> forall o x' p,
  op_ok (xlog x) o -> is_xappend o = true -> xpub_step m rv x o = (x', Ok p) ->
  exists b, xpub_position m x = Ok b /\ b < l_limit (xlog x) /\ ps_closed (x_pub x) = false /\ op_too_long (xlog x) o = false /\
            p = b + op_required (xlog x) o /\ xpub_position m x' = Ok p /\ 0 <= p <= l_tlen (xlog x) * two31.
Proof. exact c04x_accept. Qed.
Print Assumptions C04_accept_exclusive.

(* a refusal - back-pressured, not connected, closed, too long - leaves the whole state (log bytes, tails, term count,
   claim, position) exactly as it was *)
Theorem C04_refuse_pure : forall m rv s, reachable m rv s -> forall o s' e,
  op_ok (ps_log s) o -> is_append o = true -> pub_step m rv s o = (s', Err e) ->
  (e = BackPressured \/ e = NotConnected \/ e = Closed \/ e = TooLong) -> s' = s.
Proof. exact c04_refuse_pure. Qed.
Print Assumptions C04_refuse_pure.

Theorem C04_refuse_pure_exclusive : forall m rv x, xreachable m rv x -> forall o x' e,
  op_ok (xlog x) o -> is_xappend o = true -> xpub_step m rv x o = (x', Err e) ->
  (e = BackPressured \/ e = NotConnected \/ e = Closed \/ e = TooLong) -> x' = x.
Proof. exact c04x_refuse_pure. Qed.
Print Assumptions C04_refuse_pure_exclusive.

(* at or beyond the limit every offer / claim is refused with the prescribed status - max-position-exceeded iff
   position + length reaches the end of the position space, else back-pressured iff connected, else not-connected
   (an over-long claim: too-long) - and the state does not change *)
Theorem C04_refuse_at_limit : forall m rv s, reachable m rv s -> forall o b,
  op_ok (ps_log s) o -> is_append o = true -> ps_closed s = false ->
  pub_position m s = Ok b -> l_limit (ps_log s) <= b ->
  pub_step m rv s o =
    (s, Err (match o with
             | Claim len => if max_payload_length (ps_log s) <? len then TooLong else status_of (ps_log s) b len
             | _ => status_of (ps_log s) b (op_len o) end)).
Proof. exact c04_refuse_at_limit. Qed.
Print Assumptions C04_refuse_at_limit.

Theorem C04_refuse_at_limit_exclusive : forall m rv x, xreachable m rv x -> forall o b,
  op_ok (xlog x) o -> is_xappend o = true -> ps_closed (x_pub x) = false ->
  xpub_position m x = Ok b -> l_limit (xlog x) <= b ->
  xpub_step m rv x o =
    (x, Err (match o with
             | Claim len => if max_payload_length (xlog x) <? len then TooLong else status_of (xlog x) b len
             | _ => status_of (xlog x) b (op_len o) end)).
Proof. exact c04x_refuse_at_limit. Qed.
Print Assumptions C04_refuse_at_limit_exclusive.

(* a closed publication rejects every offer and claim, state unchanged *)
Theorem C04_closed : forall m rv s, reachable m rv s -> forall o,
  op_ok (ps_log s) o -> is_append o = true -> ps_closed s = true ->
  pub_step m rv s o = (s, Err Closed) \/
  (exists len, o = Claim len /\ max_payload_length (ps_log s) < len /\ pub_step m rv s o = (s, Err TooLong)).
Proof. exact c04_closed. Qed.
Print Assumptions C04_closed.

Theorem C04_closed_exclusive : forall m rv x, xreachable m rv x -> forall o,
  op_ok (xlog x) o -> is_xappend o = true -> ps_closed (x_pub x) = true ->
  xpub_step m rv x o = (x, Err Closed) \/
  (exists len, o = Claim len /\ max_payload_length (xlog x) < len /\ xpub_step m rv x o = (x, Err TooLong)).
Proof. exact c04x_closed. Qed.
Print Assumptions C04_closed_exclusive.

(* a message longer than the maximum message length (a claim longer than the MTU payload) is rejected, state unchanged *)
Theorem C04_too_long : forall m rv s, reachable m rv s -> forall o,
  op_ok (ps_log s) o -> is_append o = true -> op_too_long (ps_log s) o = true -> exists e, pub_step m rv s o = (s, Err e).
Proof. exact c04_too_long. Qed.
Print Assumptions C04_too_long.

Theorem C04_too_long_exclusive : forall m rv x, xreachable m rv x -> forall o,
  op_ok (xlog x) o -> is_xappend o = true -> op_too_long (xlog x) o = true -> exists e, xpub_step m rv x o = (x, Err e).
Proof. exact c04x_too_long. Qed.
Print Assumptions C04_too_long_exclusive.

(* the stream never advances past term_length * 2^31 *)
Theorem C04_max : forall m rv s, reachable m rv s -> ps_closed s = false ->
  exists p, pub_position m s = Ok p /\ 0 <= p <= l_tlen (ps_log s) * two31.
Proof. exact c04_max. Qed.
Print Assumptions C04_max.

Theorem C04_max_exclusive : forall m rv x, xreachable m rv x -> ps_closed (x_pub x) = false ->
  exists p, xpub_position m x = Ok p /\ 0 <= p <= l_tlen (xlog x) * two31.
Proof. exact c04x_max. Qed.
Print Assumptions C04_max_exclusive.

(* the only non-Ok results that change anything are the end-of-term trips: the position was below the limit, the message did
   not fit into the rest of the term; the log gets the bumped tail and one padding frame (`bumped`, described by
   `C04_trip_effect`), and - unless it is the very last term, where the answer is MaxPositionExceeded - one rotation *)
Theorem C04_trip : forall m rv s, reachable m rv s -> forall o s' e,
  op_ok (ps_log s) o -> is_append o = true -> pub_step m rv s o = (s', Err e) -> s' <> s ->
  exists n off, pub_inv n off s /\ ps_closed s = false /\ ps_closed s' = false /\ ps_claim s' = ps_claim s /\
    n * l_tlen (ps_log s) + off < l_limit (ps_log s) /\ l_tlen (ps_log s) < off + op_required (ps_log s) o /\
    ((e = AdminAction /\ n < two31 - 1 /\ ps_log s' = rotated (bumped (ps_log s) n off (op_required (ps_log s) o)) n) \/
     (e = MaxPositionExceeded /\ n = two31 - 1 /\ ps_log s' = bumped (ps_log s) n off (op_required (ps_log s) o))).
Proof. exact c04_trip. Qed.
Print Assumptions C04_trip.

Theorem C04_trip_effect : forall l n off req, 0 <= n ->
  tail (bumped l n off req) (n mod 3) = wrap32 (l_init l + n) * two32 + (off + req) /\
  tail (bumped l n off req) ((n + 1) mod 3) = tail l ((n + 1) mod 3) /\
  tail (bumped l n off req) ((n + 2) mod 3) = tail l ((n + 2) mod 3) /\
  l_count (bumped l n off req) = l_count l /\
  part (bumped l n off req) ((n + 1) mod 3) = part l ((n + 1) mod 3) /\
  part (bumped l n off req) ((n + 2) mod 3) = part l ((n + 2) mod 3) /\
  part (bumped l n off req) (n mod 3) =
    (if off <? l_tlen l
     then term_put (part l (n mod 3)) off
            [Committed (data_frame l off (l_tlen l - off) (wrap32 (l_init l + n)) F_UNFRAG T_PAD 0 [])]
     else part l (n mod 3)).
Proof. exact bumped_spec. Qed.
Print Assumptions C04_trip_effect.

Theorem C04_trip_exclusive : forall m rv x, xreachable m rv x -> forall o x' e,
  op_ok (xlog x) o -> is_xappend o = true -> xpub_step m rv x o = (x', Err e) -> x' <> x ->
  exists n, xpub_inv n x /\ ps_closed (x_pub x) = false /\ xspec_pos x < l_limit (xlog x) /\
    l_tlen (xlog x) < x_off x + op_required (xlog x) o /\
    ((e = AdminAction /\ n < two31 - 1 /\
      xlog x' = rotated (xbumped (xlog x) (x_idx x) (x_tid x) (x_off x) (op_required (xlog x) o)) n /\
      xspec_pos x' = (n + 1) * l_tlen (xlog x)) \/
     (e = MaxPositionExceeded /\ n = two31 - 1 /\
      xlog x' = xbumped (xlog x) (x_idx x) (x_tid x) (x_off x) (op_required (xlog x) o) /\ xspec_pos x' = l_tlen (xlog x) * two31)).
Proof. exact c04x_trip. Qed.
Print Assumptions C04_trip_exclusive.

(* on the whole domain every offer / claim / bulk offer answers with a position or one of the six documented errors:
   no panic (in particular no arithmetic overflow in the debug build), no other error *)
Theorem C04_total : forall m rv s, reachable m rv s -> forall o, op_ok (ps_log s) o -> is_append o = true ->
  match snd (pub_step m rv s o) with
  | Ok _ | Err BackPressured | Err NotConnected | Err AdminAction | Err MaxPositionExceeded | Err Closed | Err TooLong => True
  | _ => False
  end.
Proof. exact c04_total. Qed.
Print Assumptions C04_total.

Theorem C04_total_exclusive : forall m rv x, xreachable m rv x -> forall o, op_ok (xlog x) o -> is_xappend o = true ->
  match snd (xpub_step m rv x o) with
  | Ok _ | Err BackPressured | Err NotConnected | Err AdminAction | Err MaxPositionExceeded | Err Closed | Err TooLong => True
  | _ => False
  end.
Proof. exact c04x_total. Qed.
Print Assumptions C04_total_exclusive.

(* the constructor the repository had before fixes/C04-excl-new.diff does not put the publication into a state satisfying the
   invariant: on a log handed over at term count 2 it reports position 0 instead of 8192 and its first offer is written to
   partition 0 (the real tail, in partition 2, does not move) *)
Theorem C04_exclusive_new_asis_refuted :
  let l := handed_over 0 4096 512 11 22 2 0 in
  exists x, xpub_new_asis l = Ok x /\ xpub_position Debug x = Ok 0 /\ x_idx x = 0 /\
    (exists x1, xpub_new l = Ok x1 /\ xpub_position Debug x1 = Ok 8192 /\ x_idx x1 = 2) /\
    let x' := fst (xpub_step Debug harness_rv (fst (xpub_step Debug harness_rv x (SetLimit 100000))) (Offer [1; 2; 3])) in
    tail (xlog x') 2 = tail l 2 /\ tail (xlog x') 0 <> tail l 0 /\ part (xlog x') 0 <> [].
Proof. exact xpub_new_asis_wrong. Qed.
Print Assumptions C04_exclusive_new_asis_refuted.

(* ---- the oracle (Oracle/C04Oracle.v), which judges the implementation's observations, on the model's own observations ----
   flow part (results, positions, term count, tail counters): true for every offer / claim / bulk offer from every state
   satisfying the invariant, whatever the previous observation's result r0 was *)
Theorem C04_oracle_flow : forall m rv s n off o s0 r0 n0 off0,
  pub_inv n off s -> op_ok (ps_log s) o -> is_append o = true ->
  flow_append (geom_of (ps_log s) n0 off0) (env_of s) (kind_of o) (op_len o)
              (pub_obs m s0 s r0) (pub_obs m s (fst (pub_step m rv s o)) (snd (pub_step m rv s o))) = true.
Proof. exact oracle_flow_shared. Qed.
Print Assumptions C04_oracle_flow.

(* the same for the exclusive publication, from every reachable state *)
Theorem C04_oracle_flow_exclusive : forall m rv x o x0 r0 n0 off0,
  xreachable m rv x -> op_ok (xlog x) o -> is_xappend o = true ->
  flow_append (geom_of (xlog x) n0 off0) (env_of (x_pub x)) (kind_of o) (op_len o)
              (xpub_obs m x0 x r0) (xpub_obs m x (fst (xpub_step m rv x o)) (snd (xpub_step m rv x o))) = true.
Proof. exact oracle_flow_exclusive_reachable. Qed.
Print Assumptions C04_oracle_flow_exclusive.

(* the complete per-step predicate (flow and bytes) on every refusal *)
Theorem C04_oracle_refusal : forall m rv s n off o s0 r0 n0 off0 e,
  pub_inv n off s -> op_ok (ps_log s) o -> is_append o = true ->
  snd (pub_step m rv s o) = Err e -> (e = BackPressured \/ e = NotConnected \/ e = Closed \/ e = TooLong) ->
  holds_append (geom_of (ps_log s) n0 off0) (env_of s) (kind_of o) (op_len o)
               (pub_obs m s0 s r0) (pub_obs m s (fst (pub_step m rv s o)) (snd (pub_step m rv s o))) = true.
Proof. exact oracle_step_refusal. Qed.
Print Assumptions C04_oracle_refusal.

(* bytes part on the end-of-term trip: the changed words are exactly those of one padding frame (none when the term was
   exactly full) and nothing in the other partitions.
   Partial: it assumes the active partition's content ends where its tail counter says (`content_ok`: true at hand-over, see the
   example below, and kept as long as the driver cleans a partition before the log rotates into it); the bytes part for
   accepted appends (`appended_words`: every changed word inside [tail, tail + required)), the bytes part for the exclusive publication,
   and the composition over whole histories
     forall ops, clean_before_reuse ops -> holds_history g (map oop_of ops) (pub_trace m rv (pub_init (handover_log h)) ops) = true
   are not proved; those predicates are evaluated on the implementation's observations and compared with the model on every run. *)
Theorem C04_oracle_trip_words_partial : forall m rv s n off o s0 r0 n0 off0 e,
  pub_inv n off s -> content_ok (ps_log s) n off -> op_ok (ps_log s) o -> is_append o = true ->
  snd (pub_step m rv s o) = Err e -> fst (pub_step m rv s o) <> s ->
  tripped_words (geom_of (ps_log s) n0 off0) (o_dump (pub_obs m s0 s r0))
                (o_dump (pub_obs m s (fst (pub_step m rv s o)) (snd (pub_step m rv s o)))) = true.
Proof. exact oracle_words_trip. Qed.
Print Assumptions C04_oracle_trip_words_partial.

(* ---- the bytes part, completed (round 3) ----
   `content_inv l n off`: the active partition's content ends where the tail counter says (at the end of the term once the
   counter lies beyond it), the tail offset is a multiple of the frame alignment; `mtu_aligned`: the MTU is a multiple of 32
   (what the driver guarantees; without it the full fragments of a fragmented message are padded and occupy more than
   `required`).  Both hold at every aligned hand-over point and are kept by every history under the cleaning contract
   (`C04_content_step`).

   The complete per-step predicate `holds_append` = flow + bytes, for EVERY offer / claim / bulk offer (accepted: unfragmented,
   fragmented, claim, vectored; refused; tripped): every changed word of an accepted append lies in [tail, tail + required) of the
   active partition, the other partitions are untouched *)
Theorem C04_oracle_append : forall m rv s n off o s0 r0 n0 off0,
  pub_inv n off s -> content_inv (ps_log s) n off -> mtu_aligned (ps_log s) -> op_ok (ps_log s) o -> is_append o = true ->
  holds_append (geom_of (ps_log s) n0 off0) (env_of s) (kind_of o) (op_len o)
               (pub_obs m s0 s r0) (pub_obs m s (fst (pub_step m rv s o)) (snd (pub_step m rv s o))) = true.
Proof. exact oracle_step_shared. Qed.
Print Assumptions C04_oracle_append.

(* what an accepted append writes: well-formed frames (header + payload inside the frame) laid from the tail offset on,
   occupying exactly the required bytes; the tail counter advanced by as much *)
Theorem C04_accept_frames : forall m rv s n off o s' p,
  pub_inv n off s -> mtu_aligned (ps_log s) -> op_ok (ps_log s) o -> is_append o = true -> pub_step m rv s o = (s', Ok p) ->
  exists es, Forall entry_wf es /\ term_end es = op_required (ps_log s) o /\
    ps_log s' = set_part (set_tail (ps_log s) (n mod 3) (wrap32 (l_init (ps_log s) + n) * two32 + (off + op_required (ps_log s) o)))
                         (n mod 3) (term_put (part (ps_log s) (n mod 3)) off es) /\
    off + op_required (ps_log s) o <= l_tlen (ps_log s).
Proof. exact pub_step_wrote. Qed.
Print Assumptions C04_accept_frames.

(* one step keeps the invariants, provided the partition the log rotates into has been cleaned *)
Theorem C04_content_step : forall m rv s n off o,
  pub_inv n off s -> content_inv (ps_log s) n off -> mtu_aligned (ps_log s) -> op_ok (ps_log s) o ->
  (snd (pub_step m rv s o) = Err AdminAction -> part (ps_log s) (next_index (ps_log s)) = []) ->
  exists n' off', pub_inv n' off' (fst (pub_step m rv s o)) /\ content_inv (ps_log (fst (pub_step m rv s o))) n' off' /\
                  same_geom (ps_log s) (ps_log (fst (pub_step m rv s o))).
Proof. exact content_step. Qed.
Print Assumptions C04_content_step.

(* the composition over whole histories: the complete oracle (every operation: flow, bytes, environment operations) is true on
   the model's trace of every history from every aligned hand-over point, under the cleaning contract stated on the run ... *)
Theorem C04_oracle_history : forall m rv h ops,
  handover_ok h -> handover_aligned h -> hist_ok (handover_log h) ops ->
  clean_before_reuse m rv (pub_init (handover_log h)) ops ->
  holds_history (geom_of_handover h) (map oop_of ops) (pub_trace m rv (pub_init (handover_log h)) ops) = true.
Proof. exact oracle_history_shared. Qed.
Print Assumptions C04_oracle_history.

(* ... and under its syntactic form (a Clean between any two appends - what the history generator emits) *)
Theorem C04_oracle_history_cleaned : forall m rv h ops,
  handover_ok h -> handover_aligned h -> hist_ok (handover_log h) ops -> cleaned_between false ops ->
  holds_history (geom_of_handover h) (map oop_of ops) (pub_trace m rv (pub_init (handover_log h)) ops) = true.
Proof. exact oracle_history_cleaned. Qed.
Print Assumptions C04_oracle_history_cleaned.

(* ---- the same for the exclusive publication ----
   `xall n x`: the invariant (`xpub_inv`), the tail counter's shape incl. the last term (`xtail2`), the content of the active
   partition ends at the publication's own offset (`xcontent_inv`), MTU a multiple of 32; kept by every step under the cleaning
   contract (`C04_invariants_step_exclusive`) *)
Theorem C04_oracle_append_exclusive : forall m rv x n o x0 r0 n0 off0,
  xall n x -> op_ok (xlog x) o -> is_xappend o = true ->
  holds_append (geom_of (xlog x) n0 off0) (env_of (x_pub x)) (kind_of o) (op_len o)
               (xpub_obs m x0 x r0) (xpub_obs m x (fst (xpub_step m rv x o)) (snd (xpub_step m rv x o))) = true.
Proof. exact xoracle_step. Qed.
Print Assumptions C04_oracle_append_exclusive.

Theorem C04_invariants_step_exclusive : forall m rv x n o, xall n x -> op_ok (xlog x) o ->
  (snd (xpub_step m rv x o) = Err AdminAction -> part (xlog x) (next_index (xlog x)) = []) ->
  exists n', xall n' (fst (xpub_step m rv x o)) /\ same_geom (xlog x) (xlog (fst (xpub_step m rv x o))).
Proof. exact xall_step. Qed.
Print Assumptions C04_invariants_step_exclusive.

Theorem C04_accept_frames_exclusive : forall m rv x n o x' p,
  xpub_inv n x -> mtu_aligned (xlog x) -> op_ok (xlog x) o -> is_xappend o = true -> xpub_step m rv x o = (x', Ok p) ->
  exists es, Forall entry_wf es /\ term_end es = op_required (xlog x) o /\
    xlog x' = set_part (put_raw_tail (xlog x) (x_idx x) (x_tid x) (x_off x + op_required (xlog x) o)) (x_idx x)
                       (term_put (part (xlog x) (x_idx x)) (x_off x) es) /\
    x_off x + op_required (xlog x) o <= l_tlen (xlog x).
Proof. exact xpub_step_wrote. Qed.
Print Assumptions C04_accept_frames_exclusive.

Theorem C04_oracle_history_exclusive : forall m rv h ops x0,
  handover_ok h -> handover_aligned h -> hist_ok (handover_log h) ops -> xpub_new (handover_log h) = Ok x0 ->
  xclean_before_reuse m rv x0 ops ->
  holds_history (geom_of_handover h) (map xoop_of ops) (xpub_trace m rv x0 ops) = true.
Proof. exact xoracle_history. Qed.
Print Assumptions C04_oracle_history_exclusive.

Theorem C04_oracle_history_exclusive_cleaned : forall m rv h ops x0,
  handover_ok h -> handover_aligned h -> hist_ok (handover_log h) ops -> xpub_new (handover_log h) = Ok x0 ->
  cleaned_between false ops ->
  holds_history (geom_of_handover h) (map xoop_of ops) (xpub_trace m rv x0 ops) = true.
Proof. exact xoracle_history_cleaned. Qed.
Print Assumptions C04_oracle_history_exclusive_cleaned.

(* ---- the getters that expose the flow-control state (round 3): is_closed, is_connected, publication_limit(),
   available_window(), position(), the geometry fixed at construction, the exclusive publication's term_id / term_offset ----
   available_window() of an open publication is limit - position (computed in i64: `sub64`); it is <= 0 exactly when the
   position has reached the limit ... *)
Theorem C04_window : forall m s n off w, pub_inv n off s -> ps_closed s = false ->
  in_i64 (l_limit (ps_log s) - spec_pos (ps_log s) n off) = true ->
  pub_window m s = Ok w -> (w <= 0 <-> l_limit (ps_log s) <= spec_pos (ps_log s) n off).
Proof. exact window_flow. Qed.
Print Assumptions C04_window.

(* ... and then every offer / claim / bulk offer is refused and changes nothing *)
Theorem C04_window_refuses : forall m rv s n off w o, pub_inv n off s -> ps_closed s = false ->
  in_i64 (l_limit (ps_log s) - spec_pos (ps_log s) n off) = true ->
  pub_window m s = Ok w -> w <= 0 -> op_ok (ps_log s) o -> is_append o = true ->
  fst (pub_step m rv s o) = s /\ exists e, snd (pub_step m rv s o) = Err e /\ e <> AdminAction.
Proof. exact window_refuses. Qed.
Print Assumptions C04_window_refuses.

(* the getters' oracle (`holds_gets`: flags and limit as the environment set them, window = limit - position, position inside the
   position space and never going back, no advance while the window is <= 0, Closed from every Result getter of a closed
   publication, the construction-time geometry) is true on the model for every history - no cleaning contract needed *)
Theorem C04_oracle_getters : forall m rv h ops, handover_ok h -> hist_ok (handover_log h) ops ->
  holds_gets (geom_of_handover h) false (map oop_of ops)
             (pub_statics (handover_log h), pub_getters m (pub_init (handover_log h)) :: pub_gets_trace m rv (pub_init (handover_log h)) ops) = true.
Proof. exact oracle_gets_shared. Qed.
Print Assumptions C04_oracle_getters.

Theorem C04_oracle_getters_exclusive : forall m rv h ops x0,
  handover_ok h -> hist_ok (handover_log h) ops -> xpub_new (handover_log h) = Ok x0 ->
  holds_gets (geom_of_handover h) true (map xoop_of ops)
             (pub_statics (xlog x0), xpub_getters m x0 :: xpub_gets_trace m rv x0 ops) = true.
Proof. exact oracle_gets_exclusive. Qed.
Print Assumptions C04_oracle_getters_exclusive.

(* ---- claim + commit (round 3): the oracle's claim rule ----
   `holds_history2` = `holds_history` and: commit() / abort() change words of the frame handed out by the last accepted try_claim
   only (nothing when no claim was accepted).  One step: *)
Theorem C04_oracle_commit_words : forall m s o cl r0,
  (o = Abort \/ exists body, o = Commit body) -> all_spans (ps_log s) -> claim_in_place s -> claim_rel cl (ps_claim s) ->
  claim_words cl (o_dump (pub_obs m s (fst (env_step s o)) r0)) = true.
Proof. exact oracle_claim_words. Qed.
Print Assumptions C04_oracle_commit_words.

(* which claim the publication's BufferClaim holds after a step *)
Theorem C04_claim_after_accept : forall m rv s n off len s' p, pub_inv n off s -> op_ok (ps_log s) (Claim len) ->
  pub_step m rv s (Claim len) = (s', Ok p) -> ps_claim s' = Some (n mod 3, off, len + 32).
Proof. exact step_claim_new. Qed.
Print Assumptions C04_claim_after_accept.

Theorem C04_claim_kept : forall m rv s n off o s' r, pub_inv n off s -> op_ok (ps_log s) o ->
  pub_step m rv s o = (s', r) -> (forall len p, o = Claim len -> r <> Ok p) -> ps_claim s' = ps_claim s.
Proof. exact step_claim_same. Qed.
Print Assumptions C04_claim_kept.

(* whole histories of the shared publication: the cleaning contract, and commits / aborts made while the claimed frame is still the
   one in the log (`commits_in_place`: a BufferClaim is not used after its partition has been cleaned and reused) *)
Theorem C04_oracle_history2 : forall m rv h ops,
  handover_ok h -> handover_aligned h -> hist_ok (handover_log h) ops ->
  clean_before_reuse m rv (pub_init (handover_log h)) ops -> commits_in_place m rv (pub_init (handover_log h)) ops ->
  holds_history2 (geom_of_handover h) (map oop_of ops) (pub_trace m rv (pub_init (handover_log h)) ops) = true.
Proof. exact oracle_history2_shared. Qed.
Print Assumptions C04_oracle_history2.

(* the same for the exclusive publication *)
Theorem C04_claim_after_accept_exclusive : forall m rv x n len x' p, xpub_inv n x -> op_ok (xlog x) (Claim len) ->
  xpub_step m rv x (Claim len) = (x', Ok p) -> ps_claim (x_pub x') = Some (x_idx x, x_off x, len + 32).
Proof. exact xstep_claim_new. Qed.
Print Assumptions C04_claim_after_accept_exclusive.

Theorem C04_oracle_history2_exclusive : forall m rv h ops x0,
  handover_ok h -> handover_aligned h -> hist_ok (handover_log h) ops -> xpub_new (handover_log h) = Ok x0 ->
  xclean_before_reuse m rv x0 ops -> xcommits_in_place m rv x0 ops ->
  holds_history2 (geom_of_handover h) (map xoop_of ops) (xpub_trace m rv x0 ops) = true.
Proof. exact xoracle_history2. Qed.
Print Assumptions C04_oracle_history2_exclusive.

(* ---- the limit contract (`limit_ok`: limit <= TL*2^31 + TL/2), examined (round 3) ----
   Negative limits, limits below the position, i64::MIN: always inside the contract (it is an upper bound only).
   The exclusive publication does not need the contract at all: `xreachable_any` = histories whose SetLimit operations carry any
   value whatsoever; every statement above holds for them *)
Theorem C04_exclusive_any_limit_invariant : forall m rv x, xreachable_any m rv x -> exists n, xpub_inv n x /\ xtail_ok n x.
Proof. exact xreachable_any_inv. Qed.
Print Assumptions C04_exclusive_any_limit_invariant.

Theorem C04_exclusive_any_limit_accept : forall m rv x, xreachable_any m rv x -> forall o x' p,
  op_ok (xlog x) o -> is_xappend o = true -> xpub_step m rv x o = (x', Ok p) ->
  exists b, xpub_position m x = Ok b /\ b < l_limit (xlog x) /\ ps_closed (x_pub x) = false /\ op_too_long (xlog x) o = false /\
            p = b + op_required (xlog x) o /\ xpub_position m x' = Ok p /\ 0 <= p <= l_tlen (xlog x) * two31.
Proof. exact c04x_any_accept. Qed.
Print Assumptions C04_exclusive_any_limit_accept.

Theorem C04_exclusive_any_limit_refuse_pure : forall m rv x, xreachable_any m rv x -> forall o x' e,
  op_ok (xlog x) o -> is_xappend o = true -> xpub_step m rv x o = (x', Err e) ->
  (e = BackPressured \/ e = NotConnected \/ e = Closed \/ e = TooLong) -> x' = x.
Proof. exact c04x_any_refuse_pure. Qed.
Print Assumptions C04_exclusive_any_limit_refuse_pure.

Theorem C04_exclusive_any_limit_refuse_at_limit : forall m rv x, xreachable_any m rv x -> forall o b,
  op_ok (xlog x) o -> is_xappend o = true -> ps_closed (x_pub x) = false ->
  xpub_position m x = Ok b -> l_limit (xlog x) <= b ->
  xpub_step m rv x o =
    (x, Err (match o with
             | Claim len => if max_payload_length (xlog x) <? len then TooLong else status_of (xlog x) b len
             | _ => status_of (xlog x) b (op_len o) end)).
Proof. exact c04x_any_refuse_at_limit. Qed.
Print Assumptions C04_exclusive_any_limit_refuse_at_limit.

Theorem C04_exclusive_any_limit_max : forall m rv x, xreachable_any m rv x -> ps_closed (x_pub x) = false ->
  exists p, xpub_position m x = Ok p /\ 0 <= p <= l_tlen (xlog x) * two31.
Proof. exact c04x_any_max. Qed.
Print Assumptions C04_exclusive_any_limit_max.

Theorem C04_exclusive_any_limit_total : forall m rv x, xreachable_any m rv x -> forall o, op_ok (xlog x) o -> is_xappend o = true ->
  match snd (xpub_step m rv x o) with
  | Ok _ | Err BackPressured | Err NotConnected | Err AdminAction | Err MaxPositionExceeded | Err Closed | Err TooLong => True
  | _ => False
  end.
Proof. exact c04x_any_total. Qed.
Print Assumptions C04_exclusive_any_limit_total.

Theorem C04_exclusive_any_limit_trip : forall m rv x, xreachable_any m rv x -> forall o x' e,
  op_ok (xlog x) o -> is_xappend o = true -> xpub_step m rv x o = (x', Err e) -> x' <> x ->
  exists n, xpub_inv n x /\ ps_closed (x_pub x) = false /\ xspec_pos x < l_limit (xlog x) /\
    l_tlen (xlog x) < x_off x + op_required (xlog x) o /\
    ((e = AdminAction /\ n < two31 - 1 /\
      xlog x' = rotated (xbumped (xlog x) (x_idx x) (x_tid x) (x_off x) (op_required (xlog x) o)) n) \/
     (e = MaxPositionExceeded /\ n = two31 - 1 /\
      xlog x' = xbumped (xlog x) (x_idx x) (x_tid x) (x_off x) (op_required (xlog x) o))).
Proof. exact c04x_any_trip. Qed.
Print Assumptions C04_exclusive_any_limit_trip.

Theorem C04_exclusive_any_limit_oracle_flow : forall m rv x, xreachable_any m rv x -> forall o x0 r0 n0 off0,
  op_ok (xlog x) o -> is_xappend o = true ->
  flow_append (geom_of (xlog x) n0 off0) (env_of (x_pub x)) (kind_of o) (op_len o)
              (xpub_obs m x0 x r0) (xpub_obs m x (fst (xpub_step m rv x o)) (snd (xpub_step m rv x o))) = true.
Proof. exact c04x_any_oracle_flow. Qed.
Print Assumptions C04_exclusive_any_limit_oracle_flow.

(* The shared publication needs it.  With the limit far beyond the end of the position space every claim made after the last
   term is full is refused with MaxPositionExceeded but still bumps the shared tail counter (fetch-add comes first, as in the
   upstream clients); a history that is legal in every respect except the contract - hand-over at the end of the last term of a
   1 KiB-term log, limit := 2^62, then 67108832 claims of zero bytes - brings the 32-bit offset to 2^31, and the next claim of zero
   bytes panics in the debug build (term count + 1 overflows) and, in the release build, rotates the log out of the last term,
   reports AdminAction and leaves the active term count at -2^31.  So `limit_ok` cannot be dropped from C04_total / C04_trip /
   C04_max for the shared publication; it is what the driver guarantees (limit = consumer position + term window <= TL/2). *)
Theorem C04_limit_contract_needed :
  (exists bits, 10 <= bits <= 30 /\ 1024 = 2 ^ bits) /\
  (exists k, Z.of_nat k = 67108832 /\
     let ops := SetLimit WLIMIT :: repeat (Claim 0) k in
     Forall op_ok_any ops /\
     pub_run Debug harness_rv (pub_init wl0) ops = wstate 67108832 /\
     pub_run Release harness_rv (pub_init wl0) ops = wstate 67108832) /\
  snd (pub_step Debug harness_rv (wstate 67108832) (Claim 0)) = Panic /\
  snd (pub_step Release harness_rv (wstate 67108832) (Claim 0)) = Err AdminAction /\
  l_count (ps_log (fst (pub_step Release harness_rv (wstate 67108832) (Claim 0)))) = - two31.
Proof. exact limit_contract_needed. Qed.
Print Assumptions C04_limit_contract_needed.

(* non-vacuity: a history that trips at the end of a term, rotates, fragments a message, claims and commits *)
Example C04_history_example :
  let h := mkHandover 7 1024 96 11 22 4 960 in
  let ops := [SetLimit 100000; SetConnected true; Offer (payload 1 100); Clean; Offer (payload 2 100); Clean; Claim 8; Clean;
              Commit (payload 3 8); Bulk [firstn 10 (payload 4 30); []; skipn 10 (payload 4 30)]] in
  handover_ok h /\ handover_aligned h /\ hist_ok (handover_log h) ops /\ cleaned_between false ops /\
  commits_in_place Debug harness_rv (pub_init (handover_log h)) ops /\
  map (fun x => fst (fst x)) (pub_trace Debug harness_rv (pub_init (handover_log h)) ops) =
    [Ok 0; Ok 0; Err AdminAction; Ok 0; Ok 5312; Ok 0; Ok 5376; Ok 0; Ok 0; Ok 5440].
Proof.
  cbv zeta. split; [|split; [|split; [|split; [|split]]]].
  - unfold handover_ok, geometry_ok. cbn [h_init h_tlen h_mtu h_n0 h_off0].
    split; [split; [exists 10; split; [lia|reflexivity]|]|]; vm_compute; repeat split; discriminate.
  - split; reflexivity.
  - unfold hist_ok. repeat (constructor; [vm_compute; try exact I; repeat split; discriminate|]). constructor.
  - vm_compute. repeat split.
  - vm_compute. repeat (split; [exact I|]). split; [|split; exact I].
    eexists. split; [first [left; reflexivity | right; reflexivity]|]. split; [reflexivity|discriminate].
  - vm_compute. reflexivity.
Qed.

Example C04_history_example_exclusive :
  let h := mkHandover 2147483647 1024 96 11 22 (two31 - 1) 960 in
  let ops := [SetLimit (1024 * two31 + 100); Offer (payload 1 100); Clean; Claim 8; Clean; Commit (payload 3 8); Offer (payload 2 8)] in
  handover_ok h /\ handover_aligned h /\ hist_ok (handover_log h) ops /\ cleaned_between false ops /\
  exists x0, xpub_new (handover_log h) = Ok x0 /\
    map (fun x => fst (fst x)) (xpub_trace Debug harness_rv x0 ops) =
      [Ok 0; Err MaxPositionExceeded; Ok 0; Err MaxPositionExceeded; Ok 0; Panic; Err MaxPositionExceeded].
Proof.
  cbv zeta. split; [|split; [|split; [|split]]].
  - unfold handover_ok, geometry_ok. cbn [h_init h_tlen h_mtu h_n0 h_off0].
    split; [split; [exists 10; split; [lia|reflexivity]|]|]; vm_compute; repeat split; discriminate.
  - split; reflexivity.
  - unfold hist_ok. repeat (constructor; [vm_compute; try exact I; repeat split; discriminate|]). constructor.
  - vm_compute. repeat split.
  - eexists. split; [reflexivity|]. vm_compute. reflexivity.
Qed.

(* ---- the hypotheses are satisfiable: a log handed over 64 bytes before the end of the very last term, initial term id
   i32::MAX (so every term id has wrapped), a limit just beyond the end of the position space ---- *)
Example C04_last_term_example :
  let h := mkHandover 2147483647 65536 4096 11 22 (two31 - 1) 65472 in
  let ops := [SetLimit (65536 * two31 + 100); SetConnected true] in
  let s := pub_run Debug harness_rv (pub_init (handover_log h)) ops in
  handover_ok h /\ hist_ok (handover_log h) (ops ++ [Offer (payload 1 100); Claim 8]) /\
  content_ok (ps_log s) (two31 - 1) 65472 /\
  pub_position Debug s = Ok (65536 * two31 - 64) /\
  snd (pub_step Debug harness_rv s (Offer (payload 1 100))) = Err MaxPositionExceeded /\
  pub_position Debug (fst (pub_step Debug harness_rv s (Offer (payload 1 100)))) = Ok (65536 * two31) /\
  snd (pub_step Debug harness_rv s (Claim 8)) = Ok (65536 * two31) /\
  snd (pub_step Debug harness_rv (fst (env_step s (SetLimit (65536 * two31 - 64)))) (Claim 64)) = Err MaxPositionExceeded /\
  snd (pub_step Debug harness_rv (fst (env_step s (SetLimit (65536 * two31 - 64)))) (Claim 0)) = Err BackPressured.
Proof.
  cbv zeta. split; [|split; [|split]].
  - unfold handover_ok, geometry_ok. cbn [h_init h_tlen h_mtu h_n0 h_off0].
    split; [split; [exists 16; split; [lia|reflexivity]|]|]; vm_compute; repeat split; discriminate.
  - unfold hist_ok. repeat (constructor; [vm_compute; try exact I; repeat split; discriminate|]). constructor.
  - split; [vm_compute; reflexivity|]. unfold spans_nonneg. vm_compute. repeat constructor; discriminate.
  - repeat split; vm_compute; reflexivity.
Qed.
