Require Import V.Base.MachineInt V.Model.LogBase V.Model.Publication V.Oracle.C04Oracle.
Theorem C04_placeholder : True. Proof. exact I. Qed.
