(* Property C01 - Stream fidelity: every accepted message is delivered once, intact, in order.
   Statements only; proofs are in Proofs/StreamFrames.v, StreamLog.v, StreamHist.v, StreamRefine.v, StreamShared.v,
   StreamExcl.v, C01Theorems.v.

   The composed system (Model/StreamSys.v): a publisher (shared Publication or ExclusivePublication), an Image over the SAME
   log and the FragmentAssembler behind the image's handler; `sys_step` applies the existing step function of the component
   an operation addresses.  The abstract machine (Spec/Stream.v) is fed with what is visible of every operation
   (`sys_events`): `sp_acc` = the accepted messages with the positions their offers returned, `sp_del` = what the
   reassembled-message handler received, `sp_stream` = the append-only stream, `sp_ok` = every returned position was the
   stream position just after the message.  `contract` = the environment contract along the history
   (limit_within_window - never beyond subscriber position + term length nor beyond the end of the position space + half a
   term -, clean_before_reuse, the driver never zeroes a partition in use, one BufferClaim used properly); the last term of
   the position space (term count 2^31 - 1) is included.  `handover_ok` = legal geometry (term length 2^10..2^30, MTU a multiple of 32 in
   64..min(term/8, 16 MiB), any i32 initial term id), any term count, any 32-aligned tail offset. *)
Require Import V.Base.MachineInt.
Require Import V.Generated.GenConsts.
Require Import V.Model.LogBase.
Require Import V.Model.Appender.
Require Import V.Model.Publication.
Require Import V.Model.ExclPublication.
Require Import V.Model.Image.
Require Import V.Model.StreamSys.
Require Import V.Spec.Stream.
Require Import V.Proofs.C04Proofs.
Require Import V.Proofs.StreamRefine.
Require Import V.Proofs.StreamExcl.
Require Import V.Proofs.C01Theorems.
Require Import V.Proofs.StreamSpecProofs.
Require Import V.Oracle.C01Oracle.
Require Import V.Proofs.C01OracleTop.
Open Scope Z_scope.

(* (1) delivered is a prefix of accepted - same bytes, same order, nothing twice, nothing else;
   (3) every accepted offer returned the stream position just after its message (sp_ok), a multiple of 32, and the
       returned positions increase strictly.  For every history, debug and release arithmetic, every reserved-value supplier. *)
Theorem C01_fidelity : forall init tlen mtu ses str n0 off0 m rv,
  handover_ok init tlen mtu n0 off0 ->
  forall ops, contract shared m rv (sys0_shared init tlen mtu ses str n0 off0) ops = true ->
  let sp := spec_run (sgeom_of tlen mtu n0 off0) spec0 (sys_events shared m rv (sys0_shared init tlen mtu ses str n0 off0) ops) in
  is_prefix (sp_del sp) (map fst (sp_acc sp)) /\
  sp_ok sp = true /\ Forall (fun mp => snd mp mod 32 = 0) (sp_acc sp) /\ increasing (map snd (sp_acc sp)).
Proof. exact shared_fidelity. Qed.
Print Assumptions C01_fidelity.

(* (2) in the abstract machine an operation that was refused (AdminAction, BackPressured, NotConnected,
   MaxPositionExceeded, TooLong, Closed, or anything that is not Ok) and an aborted claim accept nothing, deliver nothing
   and add no fragment to the stream (at most padding) - and by (1) nothing but accepted messages is ever delivered *)
Theorem C01_refused_contributes_nothing : forall g sp e,
  match e with
  | EvOffer _ (Ok _) _ | EvClaim _ (Ok _) _ | EvCommit _ | EvPoll _ => False
  | _ => True
  end ->
  sp_acc (spec_step g sp e) = sp_acc sp /\ sp_del (spec_step g sp e) = sp_del sp /\
  frags (sp_stream (spec_step g sp e)) = frags (sp_stream sp).
Proof. exact spec_refused. Qed.
Print Assumptions C01_refused_contributes_nothing.

(* (4) the history ends with a poll of positive fragment limit that leaves the subscriber position where it was, and
   no claim is open: delivered = accepted, subscriber position = publisher position = end of the stream *)
Theorem C01_drained : forall init tlen mtu ses str n0 off0 m rv,
  handover_ok init tlen mtu n0 off0 ->
  forall ops limit,
  let s0 := sys0_shared init tlen mtu ses str n0 off0 in
  contract shared m rv s0 (ops ++ [SPoll limit]) = true -> 0 < limit ->
  let s1 := sys_run shared m rv s0 ops in
  let s2 := sys_run shared m rv s0 (ops ++ [SPoll limit]) in
  im_pos (sy_img s2) = im_pos (sy_img s1) -> sy_open s1 = false ->
  let sp := spec_run (sgeom_of tlen mtu n0 off0) spec0 (sys_events shared m rv s0 (ops ++ [SPoll limit])) in
  sp_del sp = map fst (sp_acc sp) /\
  pub_position m (sy_pub s2) = (if ps_closed (sy_pub s2) then Err Closed else Ok (im_pos (sy_img s2))) /\
  im_pos (sy_img s2) = pos_after (sg_p0 (sgeom_of tlen mtu n0 off0)) (sp_stream sp).
Proof. exact shared_drained. Qed.
Print Assumptions C01_drained.

(* ---- the specification itself: whatever events the abstract machine is fed, its accepted messages are exactly the
   messages contained in its stream (BEGIN .. END runs, UNFRAGMENTED singletons, padding skipped), in order ---- *)
Theorem C01_spec_accepted_are_the_stream_messages : forall g evs, 0 <= sg_mpl g ->
  messages (sp_stream (spec_run g spec0 evs)) = map fst (sp_acc (spec_run g spec0 evs)).
Proof. exact spec_accepted_are_the_messages. Qed.
Print Assumptions C01_spec_accepted_are_the_stream_messages.

(* ---- the same for the ExclusivePublication (constructor as repaired by fixes/C04-excl-new.diff) ---- *)
Theorem C01_exclusive_starts : forall init tlen mtu ses str n0 off0, handover_ok init tlen mtu n0 off0 ->
  exists s0, sys0_exclusive init tlen mtu ses str n0 off0 = Ok s0.
Proof. exact exclusive_starts. Qed.
Print Assumptions C01_exclusive_starts.

Theorem C01_fidelity_exclusive : forall init tlen mtu ses str n0 off0 m rv,
  handover_ok init tlen mtu n0 off0 ->
  forall s0, sys0_exclusive init tlen mtu ses str n0 off0 = Ok s0 ->
  forall ops, contract exclusive m rv s0 ops = true ->
  let sp := spec_run (sgeom_of tlen mtu n0 off0) spec0 (sys_events exclusive m rv s0 ops) in
  is_prefix (sp_del sp) (map fst (sp_acc sp)) /\
  sp_ok sp = true /\ Forall (fun mp => snd mp mod 32 = 0) (sp_acc sp) /\ increasing (map snd (sp_acc sp)).
Proof. exact exclusive_fidelity. Qed.
Print Assumptions C01_fidelity_exclusive.

Theorem C01_drained_exclusive : forall init tlen mtu ses str n0 off0 m rv,
  handover_ok init tlen mtu n0 off0 ->
  forall s0, sys0_exclusive init tlen mtu ses str n0 off0 = Ok s0 ->
  forall ops limit,
  contract exclusive m rv s0 (ops ++ [SPoll limit]) = true -> 0 < limit ->
  let s1 := sys_run exclusive m rv s0 ops in
  let s2 := sys_run exclusive m rv s0 (ops ++ [SPoll limit]) in
  im_pos (sy_img s2) = im_pos (sy_img s1) -> sy_open s1 = false ->
  let sp := spec_run (sgeom_of tlen mtu n0 off0) spec0 (sys_events exclusive m rv s0 (ops ++ [SPoll limit])) in
  sp_del sp = map fst (sp_acc sp) /\
  xpub_position m (sy_pub s2) = (if ps_closed (x_pub (sy_pub s2)) then Err Closed else Ok (im_pos (sy_img s2))) /\
  im_pos (sy_img s2) = pos_after (sg_p0 (sgeom_of tlen mtu n0 off0)) (sp_stream sp).
Proof. exact exclusive_drained. Qed.
Print Assumptions C01_drained_exclusive.

(* ---- the oracle (Oracle/C01Oracle.v, computed from the observations alone) is true on the model's own observations,
   for every history that keeps the contract, both flavours ---- *)
Theorem C01_oracle_model : forall init tlen mtu ses str n0 off0 m rv ops,
  handover_ok init tlen mtu n0 off0 ->
  contract shared m rv (sys0_shared init tlen mtu ses str n0 off0) ops = true ->
  holds_c01 (mkC01Geom tlen mtu init n0 off0 ses) ops (sys_observe shared m rv (sys0_shared init tlen mtu ses str n0 off0) ops) = true.
Proof. exact shared_oracle_model. Qed.
Print Assumptions C01_oracle_model.

Theorem C01_oracle_model_exclusive : forall init tlen mtu ses str n0 off0 m rv s0 ops,
  handover_ok init tlen mtu n0 off0 ->
  sys0_exclusive init tlen mtu ses str n0 off0 = Ok s0 ->
  contract exclusive m rv s0 ops = true ->
  holds_c01 (mkC01Geom tlen mtu init n0 off0 ses) ops (sys_observe exclusive m rv s0 ops) = true.
Proof. exact exclusive_oracle_model. Qed.
Print Assumptions C01_oracle_model_exclusive.

(* ---- non-vacuity: a 1 KiB-term log handed over at term count 2, 192 bytes before the end of the term, initial term id
   i32::MAX (the next term id wraps): a 2-fragment message, a message that does not fit (AdminAction, padding, rotation),
   a 3-fragment message in the next term, the driver's cleaning, polls with limits 1 and 10 until drained ---- *)
Definition ex_ops : list sop :=
  [SSetLimit 3904; SSetConnected true; SOffer 1 40; SPoll 10; SOffer 2 100; SOffer 3 70; SPoll 1; SPoll 10; SPoll 10;
   SClean 1; SClaim 8; SPoll 10; SCommit 4; SPoll 10; SPoll 10].

Example C01_handover_example : handover_ok 2147483647 1024 64 2 832.
Proof. unfold handover_ok, geometry_ok. repeat split; try (exists 10; repeat split); try discriminate; try reflexivity. Qed.

Example C01_contract_example :
  contract shared Debug harness_rv (sys0_shared 2147483647 1024 64 11 22 2 832) ex_ops = true /\
  (exists s0, sys0_exclusive 2147483647 1024 64 11 22 2 832 = Ok s0 /\ contract exclusive Release harness_rv s0 ex_ops = true).
Proof. split; [vm_compute; reflexivity|]. eexists. split; [reflexivity|]. vm_compute. reflexivity. Qed.

(* what the theorems say about it: three messages accepted at 3008, 3264 (after the term end at 3072) and 3328,
   all three delivered, subscriber position = publisher position = 3328 *)
Example C01_run_example :
  let s0 := sys0_shared 2147483647 1024 64 11 22 2 832 in
  let sp := spec_run (sgeom_of 1024 64 2 832) spec0 (sys_events shared Debug harness_rv s0 ex_ops) in
  map snd (sp_acc sp) = [3008; 3264; 3328] /\ sp_del sp = map fst (sp_acc sp) /\
  map (fun b => Z.of_nat (length b)) (sp_del sp) = [40; 70; 8] /\
  pos_after 2880 (sp_stream sp) = 3328 /\
  im_pos (sy_img (sys_run shared Debug harness_rv s0 ex_ops)) = 3328.
Proof. vm_compute. repeat split; reflexivity. Qed.

(* the 64 KiB / MTU 4096 history of the design: term count 2, a 3-fragment message across the term end *)
Example C01_contract_example_64k :
  handover_ok 5 65536 4096 2 57344 /\
  contract shared Release harness_rv (sys0_shared 5 65536 4096 11 22 2 57344)
    [SSetLimit (2 * 65536 + 57344 + 65536); SOffer 1 8000; SOffer 2 8192; SPoll 10; SOffer 2 8192; SPoll 2; SPoll 10; SPoll 10] = true.
Proof. split; [|vm_compute; reflexivity].
  unfold handover_ok, geometry_ok. repeat split; try (exists 16; repeat split); try discriminate; try reflexivity. Qed.

(* ---- the last term of the position space (term count 2^31 - 1) is inside the theorems.
   ExclusivePublication (with fixes/C01-excl-last-term.diff), hand-over 64 bytes before the end of the last term, limit at the
   largest value the contract allows there (end of the position space + half a term): offer 1 (100 bytes) does not fit -
   MaxPositionExceeded, padding to the term end, the publication reports the end of the position space and the abstract
   stream is padded up to it; the subscriber consumes the padding; offer 2 (8 bytes) is refused too (before the fix it was
   ACCEPTED over the padding and never delivered: corpus/C01/last-term-exclusive-overwrite.json).  The contract holds,
   nothing accepted, nothing delivered, both positions at the end of the position space, the oracle holds. ---- *)
Example C01_last_term_exclusive_example :
  exists s0, sys0_exclusive 0 1024 64 11 22 2147483647 960 = Ok s0 /\
  let ops := [SSetLimit 2199023256064; SSetConnected true; SOffer 1 100; SPoll 10; SOffer 2 8; SPoll 10; SPoll 10] in
  let sp := spec_run (sgeom_of 1024 64 2147483647 960) spec0 (sys_events exclusive Release harness_rv s0 ops) in
  contract exclusive Release harness_rv s0 ops = true /\
  map fst (map snd (sys_trace exclusive Release harness_rv s0 ops)) =
    [(Ok 0, []); (Ok 0, []); (Err MaxPositionExceeded, []); (Ok 0, []); (Err MaxPositionExceeded, []); (Ok 0, []); (Ok 0, [])] /\
  sp_stream sp = [Pad 64] /\ sp_acc sp = [] /\ sp_del sp = [] /\
  im_pos (sy_img (sys_run exclusive Release harness_rv s0 ops)) = 2199023255552 /\
  xpub_position Release (sy_pub (sys_run exclusive Release harness_rv s0 ops)) = Ok 2199023255552 /\
  holds_c01 (mkC01Geom 1024 64 0 2147483647 960 11) ops (sys_observe exclusive Release harness_rv s0 ops) = true.
Proof. eexists. split; [reflexivity|]. vm_compute. repeat split; reflexivity. Qed.

(* the same hand-over point with the shared publication: the failed offer bumps the tail counter beyond the term length
   (pub_inv allows that in the last term), position() reports the end of the position space, the contract holds *)
Example C01_last_term_shared_example :
  let s0 := sys0_shared 0 1024 64 11 22 2147483647 960 in
  let ops := [SSetLimit 2199023256064; SSetConnected true; SOffer 1 100; SPoll 10; SOffer 2 8; SOffer 3 8; SPoll 10; SPoll 10] in
  let sp := spec_run (sgeom_of 1024 64 2147483647 960) spec0 (sys_events shared Debug harness_rv s0 ops) in
  contract shared Debug harness_rv s0 ops = true /\
  sp_stream sp = [Pad 64] /\ sp_acc sp = [] /\ sp_del sp = [] /\
  im_pos (sy_img (sys_run shared Debug harness_rv s0 ops)) = 2199023255552 /\
  pub_position Debug (sy_pub (sys_run shared Debug harness_rv s0 ops)) = Ok 2199023255552 /\
  holds_c01 (mkC01Geom 1024 64 0 2147483647 960 11) ops (sys_observe shared Debug harness_rv s0 ops) = true.
Proof. vm_compute. repeat split; reflexivity. Qed.
