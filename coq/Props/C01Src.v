(* Property C01, K1 source tie.  Stream fidelity rests on the publisher-side decision functions (C04) and the
   subscriber-side position arithmetic (C05); this file restates, for the model of C01 (Model/StreamSys.v runs
   Model/Publication.v, Model/ExclPublication.v and Model/Image.v), the ties its histories go through:
   a new position is reported exactly when Publication::new_position of the source reports it, and the image advances
   by exactly the offset distance the source computes.  Proofs: Proofs/GenSrcPubProofs.v, Proofs/GenSrcImageProofs.v. *)
Require Import V.Base.MachineInt V.Base.MachineInt2 V.Base.MachineIntT V.Generated.GenConsts
               V.Model.Descriptor V.Model.LogBase V.Model.Appender V.Model.Publication V.Model.ExclPublication V.Model.Image
               V.Generated.GenSrcPub V.Generated.GenSrcImage V.Proofs.GenSrcPubProofs V.Proofs.GenSrcImageProofs.
Open Scope Z_scope.

Theorem C01_src_pub_new_position : forall m l term_count term_offset tid position resulting,
  run_pub_o m l (src_pub_new_position m (max_possible_position l) term_count term_offset tid position resulting)
  = pub_new_position m l term_count term_offset tid position resulting.
Proof. exact src_pub_new_position_eq. Qed.
Print Assumptions C01_src_pub_new_position.

Theorem C01_src_xpub_new_position : forall m x l claim resulting,
  match src_xpub_new_position m (x_begin x) (max_possible_position l) (x_idx x) (x_tid x) (l_init l) (x_off x)
          (l_tlen l) resulting with
  | Ok s => run_xpub (x_entry x l claim) s = xpub_new_position m x l claim resulting
  | _ => snd (xpub_new_position m x l claim resulting) = Panic
  end.
Proof. exact src_xpub_new_position_eq. Qed.
Print Assumptions C01_src_xpub_new_position.

Theorem C01_src_image_position : forall m pos o off, in_i32 (o - off) = true -> in_i64 (pos + (o - off)) = true ->
  src_img_poll_new_position m o pos off = Ok (pos + (o - off)).
Proof. exact src_img_poll_new_position_eq. Qed.
Print Assumptions C01_src_image_position.

Example C01_src_example : src_img_poll_new_position Debug 96 (5 * 65536 + 32) 32 = Ok (5 * 65536 + 96).
Proof. reflexivity. Qed.
