(* Property C05 - Image polling accounts for exactly the frames it delivers, in every poll variant.
   Statements only; proofs are in Proofs/ReaderProofs.v, ImageProofs.v, C05OracleProofs.v, C05Readable.v, C05Repeat.v,
   C05RepeatTerms.v.

   Reading guide.  `ctx bits init pos l fs` = the log `l` has term length 2^bits and initial term id `init`,
   `pos` is a non-negative position in term n = pos / 2^bits (n < 2^31) at a 32-aligned offset, and
   `fs` is what a reader sees there (`view` of partition n mod 3 at that offset: the committed frames up to
   the first non-positive length word), every frame of `fs` being at least a header long, carrying term
   id init+n and lying inside the term.  `run_poll l im limit fl` is Image::poll / bounded_poll /
   controlled_poll / bounded_controlled_poll according to `fl` (bound and handler script inside `fl`).
   A call's result is (return value, fragments handed to the handler, values written to the subscriber
   position counter, image afterwards).  `consumed fs k` = the first k frames, `frags off fs k` the data
   frames among them with their offsets, `aborted off fs k ab` the fragment answered Abort (if ab). *)
Require Import V.Base.MachineInt.
Require Import V.Generated.GenConsts.
Require Import V.Model.LogBase.
Require Import V.Model.Descriptor.
Require Import V.Model.Reader.
Require Import V.Model.Image.
Require Import V.Oracle.C05Cases.
Require Import V.Oracle.C05Oracle.
Require Import V.Proofs.ReaderProofs.
Require Import V.Proofs.ImageProofs.
Require Import V.Proofs.C05OracleProofs.
Require Import V.Proofs.C05Readable.
Require Import V.Proofs.C05Repeat.
Require Import V.Proofs.C05RepeatTerms.
Open Scope Z_scope.

(* new_pos - old_pos = sum of the aligned lengths of the first k visible frames; the data frames among them are
   exactly the fragments consumed (each once, in order, then the aborted one if any); never backwards; never past the
   visible (committed) frames, hence never past the first uncommitted frame, nor past the end of the term *)
Theorem C05_advance : forall (bits init : Z) (l : log) (im : image) (fs : list frame),
  ctx bits init (im_pos im) l fs -> im_closed im = false ->
  forall (limit : Z) (fl : flavour) (ret : outcome Z) (ds : list dlv) (ws : list Z) (im' : image),
  run_poll l im limit fl = Ok (ret, ds, ws, im') ->
  exists (k : nat) (ab : bool),
    (k <= length fs)%nat /\
    im_pos im' = im_pos im + span_sum (consumed fs k) /\
    ret = Ok (Z.of_nat (length (frags (im_pos im mod 2 ^ bits) fs k))) /\
    ds = frags (im_pos im mod 2 ^ bits) fs k ++ aborted (im_pos im mod 2 ^ bits) fs k ab /\
    im_pos im <= im_pos im' <= im_pos im + span_sum fs /\
    im_pos im mod 2 ^ bits + span_sum fs <= 2 ^ bits.
Proof. exact advance. Qed.
Print Assumptions C05_advance.

(* at most fragment_limit fragments are handed to the handler (none for a limit <= 0) *)
Theorem C05_limit : forall (bits init : Z) (l : log) (im : image) (fs : list frame),
  ctx bits init (im_pos im) l fs -> im_closed im = false ->
  forall (limit : Z) (fl : flavour) (ret : outcome Z) (ds : list dlv) (ws : list Z) (im' : image),
  run_poll l im limit fl = Ok (ret, ds, ws, im') -> Z.of_nat (length ds) <= Z.max 0 limit.
Proof. exact limit_respected. Qed.
Print Assumptions C05_limit.

(* every fragment handed over starts strictly below the position bound, for every bound (any integer) *)
Theorem C05_bound : forall (bits init : Z) (l : log) (im : image) (fs : list frame),
  ctx bits init (im_pos im) l fs -> im_closed im = false ->
  forall (limit : Z) (fl : flavour) (B : Z) (ret : outcome Z) (ds : list dlv) (ws : list Z) (im' : image),
  fl_bound fl = Some B -> run_poll l im limit fl = Ok (ret, ds, ws, im') ->
  forall (o : Z) (f : frame), In (o, f) ds -> im_pos im - im_pos im mod 2 ^ bits + o < B.
Proof. exact bound_respected. Qed.
Print Assumptions C05_bound.

(* what the handler reads of a fragment at offset o: (o + 32, frame_length - 32, flags,
   Header::position() = Ok (position just after the frame), session id, payload) *)
Theorem C05_args : forall (bits init : Z) (l : log) (im : image) (fs : list frame),
  ctx bits init (im_pos im) l fs -> im_closed im = false ->
  forall (m : mode) (limit : Z) (fl : flavour) (ret : outcome Z) (ds : list dlv) (ws : list Z) (im' : image),
  run_poll l im limit fl = Ok (ret, ds, ws, im') ->
  forall d : dlv, In d ds -> frag_obs m l d = exp_frag (im_pos im - im_pos im mod 2 ^ bits) d.
Proof. exact args_right. Qed.
Print Assumptions C05_args.

(* Abort / Break / Commit, and the discipline of the counter writes *)
Theorem C05_actions : forall (bits init : Z) (l : log) (im : image) (fs : list frame),
  ctx bits init (im_pos im) l fs -> im_closed im = false ->
  forall (limit : Z) (fl : flavour) (ret : outcome Z) (ds : list dlv) (ws : list Z) (im' : image),
  run_poll l im limit fl = Ok (ret, ds, ws, im') ->
  let sc := fl_script fl in
  let off := im_pos im mod 2 ^ bits in
  let base := im_pos im - off in
  exists (k : nat) (ab : bool),
    ds = frags off fs k ++ aborted off fs k ab /\
    (forall i : nat, (i < length (frags off fs k))%nat -> is_abort (nth i sc Continue) = false) /\
    (ab = true ->
       is_abort (nth (length (frags off fs k)) sc Continue) = true /\
       exists f : frame, aborted off fs k ab = [(reached off fs k, f)] /\ im_pos im' = base + reached off fs k) /\
    (forall i : nat, (i < length (frags off fs k))%nat -> is_break (nth i sc Continue) = true ->
       S i = length (frags off fs k) /\ ab = false /\
       exists (o : Z) (f : frame), nth_error (frags off fs k) i = Some (o, f) /\ im_pos im' = base + o + span f) /\
    (forall (i : nat) (o : Z) (f : frame), nth_error (frags off fs k) i = Some (o, f) ->
       is_commit (nth i sc Continue) = true -> In (base + o + span f) ws) /\
    nondecr (im_pos im) ws = true /\ im_pos im' = last ws (im_pos im).
Proof. exact actions. Qed.
Print Assumptions C05_actions.

(* controlled_peek never writes the counter and leaves the image as it was *)
Theorem C05_peek_pure : forall l im ip lp sc ret ds ws im',
  image_controlled_peek l im ip lp sc = Ok (ret, ds, ws, im') -> ws = [] /\ im' = im.
Proof. exact peek_pure. Qed.
Print Assumptions C05_peek_pure.

(* from a valid initial position it scans an admissible run (fragments below the limit position, Abort not consumed,
   nothing after Break) and returns the end of the last scanned frame that completes a message or is padding *)
Theorem C05_peek : forall bits init l im fs ip lp sc,
  ctx bits init ip l fs -> im_closed im = false -> valid_new_position (2 ^ bits) (im_pos im) ip = true ->
  let off := ip mod 2 ^ bits in let base := ip - off in
  exists k ab, (k <= length fs)%nat /\ padm (below (Some lp) base) fs sc off k ab = true /\
    image_controlled_peek l im ip lp sc
    = Ok (Ok (last_complete base fs off k ip), frags off fs k ++ aborted off fs k ab, [], im).
Proof. exact peek_run. Qed.
Print Assumptions C05_peek.

Theorem C05_peek_invalid : forall bits l im ip lp sc,
  l_tlen l = 2 ^ bits -> 0 <= bits -> im_closed im = false -> valid_new_position (2 ^ bits) (im_pos im) ip = false ->
  image_controlled_peek l im ip lp sc = Ok (Err IllegalArg, [], [], im).
Proof. exact peek_invalid. Qed.
Print Assumptions C05_peek_invalid.

(* block_poll returns new - old, hands over one block of whole frames starting at the old position:
   a single padding frame, or data frames only of total length <= block_length_limit *)
Theorem C05_block : forall m bits init l im fs blimit,
  ctx bits init (im_pos im) l fs -> im_closed im = false -> in_i32 (im_pos im mod 2 ^ bits + blimit) = true ->
  exists k ds ws im', (k <= length fs)%nat /\ badm blimit fs k = true /\
    image_block_poll m l im blimit = Ok (Ok (span_sum (consumed fs k)), ds, ws, im') /\
    im_pos im' = im_pos im + span_sum (consumed fs k) /\
    (0 < span_sum (consumed fs k) -> exists f, nth_error fs 0 = Some f /\ ds = [(im_pos im mod 2 ^ bits, f)]
                                              /\ ws = [im_pos im + span_sum (consumed fs k)]) /\
    (span_sum (consumed fs k) = 0 -> ds = [] /\ ws = []).
Proof. exact block_run. Qed.
Print Assumptions C05_block.

(* ... for EVERY block length limit that is an i32 (block_poll's parameter type), i32::MAX included: since fix
   C05-block-poll-limit the sum term_offset + block_length_limit saturates instead of overflowing (before, limits with
   offset + limit >= 2^31 made a debug build panic and a release build return 0 for ever, and had to be excluded above) *)
Theorem C05_block_all : forall m bits init l im fs blimit,
  ctx bits init (im_pos im) l fs -> im_closed im = false -> in_i32 blimit = true ->
  exists k ds ws im', (k <= length fs)%nat /\ badm blimit fs k = true /\
    image_block_poll m l im blimit = Ok (Ok (span_sum (consumed fs k)), ds, ws, im') /\
    im_pos im' = im_pos im + span_sum (consumed fs k) /\
    (0 < span_sum (consumed fs k) -> exists f, nth_error fs 0 = Some f /\ ds = [(im_pos im mod 2 ^ bits, f)]
                                              /\ ws = [im_pos im + span_sum (consumed fs k)]) /\
    (span_sum (consumed fs k) = 0 -> ds = [] /\ ws = []).
Proof. intros m bits init l im fs blimit Hc Hcl Hb. apply (block_run_all m bits init l im fs blimit Hc Hcl). right. exact Hb. Qed.
Print Assumptions C05_block_all.

(* with "no limit" (any limit of at least a term length, i32::MAX included) a block_poll hands over everything visible up to
   the first padding frame: a visible data frame at the position is never left behind *)
Theorem C05_block_progress : forall m bits init l im f r blimit,
  ctx bits init (im_pos im) l (f :: r) -> im_closed im = false -> in_i32 blimit = true -> 2 ^ bits <= blimit ->
  exists ret ds ws im', image_block_poll m l im blimit = Ok (ret, ds, ws, im') /\ im_pos im + span f <= im_pos im'.
Proof. exact block_progress. Qed.
Print Assumptions C05_block_progress.

(* a closed image does nothing *)
Theorem C05_closed : forall m l im, im_closed im = true ->
  (forall limit, image_poll l im limit = Ok (Ok 0, [], [], im)) /\
  (forall B limit, image_bounded_poll l im B limit = Ok (Ok 0, [], [], im)) /\
  (forall limit sc, image_controlled_poll l im limit sc = Ok (Ok 0, [], [], im)) /\
  (forall B limit sc, image_bounded_controlled_poll l im B limit sc = Ok (Ok 0, [], [], im)) /\
  (forall ip lp sc, image_controlled_peek l im ip lp sc = Ok (Ok ip, [], [], im)) /\
  (forall bl, image_block_poll m l im bl = Ok (Ok 0, [], [], im)) /\
  (forall p, image_set_position l im p = (Ok 0, [], [], im)) /\
  image_position im = im_final im.
Proof. exact closed_polls. Qed.
Print Assumptions C05_closed.

Theorem C05_set_position : forall bits l im p, l_tlen l = 2 ^ bits -> 0 <= bits -> im_closed im = false ->
  image_set_position l im p =
  if valid_new_position (2 ^ bits) (im_pos im) p then (Ok 0, [], [p], set_pos im p) else (Err IllegalArg, [], [], im).
Proof. exact set_position_spec. Qed.
Print Assumptions C05_set_position.

(* plain poll with a sufficient limit consumes everything visible (the progress fact C01 builds on) *)
Theorem C05_poll_all : forall cap limit fs off n,
  frames_pos fs -> off + span_sum fs <= cap ->
  n + Z.of_nat (length (data_of (place off fs))) < limit ->
  read_loop cap limit fs off n
  = (off + span_sum fs, n + Z.of_nat (length (data_of (place off fs))), data_of (place off fs)).
Proof. exact read_loop_all. Qed.
Print Assumptions C05_poll_all.

(* C05_repeat, one step: while the publisher appends to a term (more frames of `stream` become visible), a position on a
   frame boundary of the stream stays on a frame boundary after any poll, and the fragments consumed are exactly the
   data frames of the stream between the two boundaries *)
Theorem C05_repeat_step : forall bits init n l im pre stream tail v a limit fl,
  shows bits init n l pre stream tail v -> (a <= v)%nat -> boundary_off pre stream a < 2 ^ bits ->
  im_pos im = boundary bits n pre stream a -> im_closed im = false ->
  exists ret ds ws im' a', run_poll l im limit fl = Ok (ret, ds, ws, im') /\
    (a <= a' <= v)%nat /\ im_pos im' = boundary bits n pre stream a' /\ im_closed im' = false /\
    exists ab, ds = between pre stream a a' ++ ab /\ ret = Ok (Z.of_nat (length (between pre stream a a'))).
Proof. exact repeat_step. Qed.
Print Assumptions C05_repeat_step.

(* ... composed over any number of polls of any flavours with any limits and scripts, the log growing in between:
   the fragments consumed altogether are the data frames between the first and the last position, once each, in order *)
Theorem C05_repeat : forall bits init n pre stream steps im a,
  polls_ok bits init n pre stream steps a -> im_pos im = boundary bits n pre stream a -> im_closed im = false ->
  exists cs im' a', run_polls steps im = Some (cs, im') /\ (a <= a')%nat /\
    im_pos im' = boundary bits n pre stream a' /\ cs = between pre stream a a'.
Proof. exact repeat_polls. Qed.
Print Assumptions C05_repeat.

(* C05_repeat ACROSS TERM ENDS.  A multi-term stream: `terms` = the frame streams of the consecutive terms n0, n0+1, ...
   (the first one after a prefix pre0 nobody reads; every term except possibly the last one is full: its frames end exactly at
   the term length - terms_full).  A location (j, a) = frame boundary a of term j; lpos = its stream position; norm moves
   the end of a full term to the start of the next one (same position: lpos_norm); gidx = index in the global frame sequence
   G (all terms concatenated, each frame with its in-term offset); between_t g g' = the data frames of G between two global
   boundaries.  polls_ok_t: every poll's snapshot of the log shows the term the subscriber stands in (partition
   (n0 + j) mod 3, selected as C17 prescribes - inside `shows`) with at least the frames consumed so far.
   Then over any number of polls of any flavours, limits, bounds and handler scripts, with the log growing and the
   subscriber crossing any number of term ends (partition switches), the fragments consumed altogether are exactly the data
   frames of the whole stream between the first and the last position, once each, in order; and positions are
   n0 * 2^bits + |pre0| + the aligned lengths of the frames before (gpos). *)
Theorem C05_repeat_terms : forall bits init n0 pre0 terms, terms_full bits pre0 terms -> forall steps im x,
  polls_ok_t bits init n0 pre0 terms steps x -> im_pos im = lpos bits n0 pre0 terms x -> im_closed im = false ->
  exists cs im' x', run_polls steps im = Some (cs, im') /\ (gidx terms x <= gidx terms x')%nat /\
    im_pos im' = lpos bits n0 pre0 terms x' /\ im_closed im' = false /\ (valid terms x -> valid terms x') /\
    cs = between_t pre0 terms (gidx terms x) (gidx terms x').
Proof. exact repeat_polls_terms. Qed.
Print Assumptions C05_repeat_terms.

Theorem C05_repeat_global : forall bits init n0 pre0 terms, terms_full bits pre0 terms -> forall steps im x,
  valid terms x -> polls_ok_t bits init n0 pre0 terms steps x -> im_pos im = gpos bits n0 pre0 terms (gidx terms x) ->
  im_closed im = false ->
  exists cs im' g', run_polls steps im = Some (cs, im') /\ (gidx terms x <= g' <= length (concat terms))%nat /\
    im_pos im' = gpos bits n0 pre0 terms g' /\ cs = between_t pre0 terms (gidx terms x) g'.
Proof. exact repeat_polls_global. Qed.
Print Assumptions C05_repeat_global.

(* the end of a full term and the start of the next one are the same position; positions in closed form *)
Theorem C05_term_end_position : forall bits n0 pre0 terms x, terms_full bits pre0 terms ->
  lpos bits n0 pre0 terms (norm terms x) = lpos bits n0 pre0 terms x /\ gidx terms (norm terms x) = gidx terms x /\
  (valid terms x -> lpos bits n0 pre0 terms x = gpos bits n0 pre0 terms (gidx terms x)).
Proof. intros bits n0 pre0 terms x Hf. split; [apply lpos_norm; exact Hf|]. split; [apply gidx_norm|]. intros Hv. apply lpos_global; assumption. Qed.
Print Assumptions C05_term_end_position.

Theorem C05_between_terms_app : forall pre0 terms g1 g2 g3, (g1 <= g2 <= g3)%nat ->
  between_t pre0 terms g1 g2 ++ between_t pre0 terms g2 g3 = between_t pre0 terms g1 g3.
Proof. exact between_t_app. Qed.
Print Assumptions C05_between_terms_app.

(* the boundaries of two successive polls concatenate: no frame is skipped or delivered twice *)
Theorem C05_between_app : forall pre stream a b c, (a <= b <= c)%nat ->
  between pre stream a b ++ between pre stream b c = between pre stream a c.
Proof. exact between_app. Qed.
Print Assumptions C05_between_app.

(* ---- the oracle is true on the model, for every call and every history ---- *)
Theorem C05_oracle_step : forall m bits init session st ms o,
  16 <= bits <= 30 -> rel session st ms -> op_ok o ->
  let '(ob, ms') := step m bits init session ms o in
  judge_op bits init session st o ob = true /\ rel session (onext st o ob) ms'.
Proof. exact step_judged. Qed.
Print Assumptions C05_oracle_step.

Theorem C05_oracle_history : forall m bits init session pos0 segs ops,
  16 <= bits <= 30 -> Forall op_ok ops ->
  holds_case bits init session pos0 segs ops (run_case m bits init session pos0 segs ops) = true.
Proof. exact case_judged. Qed.
Print Assumptions C05_oracle_history.

(* ---- non-vacuity ---- *)
Definition ex_segs : list sseg :=
  [(2, 65536 - 576, 5, false,
    [(1, 192, 100, 1, 0); (0, 0, 64, 0, 0); (1, 128, 96, 3, 0); (1, 64, 33, 4, 0); (0, 0, 224, 0, 0)]);
   (3, 0, 1, true, [(1, 192, 40, 7, 0); (1, 192, 50, 8, 0)])].

(* the hypotheses of the theorems hold for a term that ends with padding, at term count 2 of a log whose term id wraps *)
Example C05_ctx_example :
  let segs := map (build_seg 2147483647 9) ex_segs in
  let pos := 2 * 65536 + 65536 - 576 in
  ctx 16 2147483647 pos (mk_log 16 2147483647 9 segs) (frames_at 16 segs pos) /\ length (frames_at 16 segs pos) = 5%nat.
Proof. cbv zeta. split; [apply ctx_of_case; vm_compute; reflexivity|vm_compute; reflexivity]. Qed.

(* a history on it: controlled poll with Commit then Abort, redelivery, bounded poll stopping at the bound, the
   padding skipped to the end of the term, then the first frame of the next term; the claimed frame is not delivered *)
Example C05_run_example :
  run_case Debug 16 2147483647 9 (2 * 65536 + 65536 - 576) ex_segs
    [CControlled 10 [Commit; Abort]; CBounded (true, 96) 10; CPoll 10; CPoll 10; CPosition]
  = [(Ok 1, [(64992, 68, 192, Ok 196160, 9, 76629); (65184, 64, 128, Ok 196320, 9, 555744)], [196160; 196224], 196224);
     (Ok 1, [(65184, 64, 128, Ok 196320, 9, 555744)], [196320], 196320);
     (Ok 1, [(65280, 1, 64, Ok 196384, 9, 343)], [196608], 196608);
     (Ok 1, [(32, 8, 192, Ok 196672, 9, 574298)], [196672], 196672);
     (Ok 196672, [], [], 196672)].
Proof. vm_compute. reflexivity. Qed.

(* the hypotheses of C05_repeat hold for three polls on the same term while two more frames are committed *)
Definition ex_stream : list frame :=
  mk_frames 2147483647 9 2 (65536 - 576)
    [(1, 192, 100, 1, 0); (0, 0, 64, 0, 0); (1, 128, 96, 3, 0); (1, 64, 33, 4, 0); (0, 0, 224, 0, 0)].
Definition ex_log (v : Z) : log := mk_log 16 2147483647 9 [(2, 65536 - 576, v, false, ex_stream)].

Lemma ex_shows v : (v <= 5)%nat -> shows 16 2147483647 2 (ex_log (Z.of_nat v)) [Unknown (65536 - 576)] ex_stream [] v.
Proof. intros Hv.
  do 6 (destruct v as [|v];
    [constructor; [reflexivity|reflexivity|lia|reflexivity|unfold two31; lia|vm_compute; reflexivity
                  |constructor; [cbn; lia|constructor]|reflexivity|reflexivity|vm_compute; reflexivity|cbn; lia]|]).
  lia. Qed.

Example C05_repeat_example :
  polls_ok 16 2147483647 2 [Unknown (65536 - 576)] ex_stream
    [(ex_log 3, [], 3%nat, 1, FControlled [Abort]); (ex_log 3, [], 3%nat, 10, FPoll);
     (ex_log 5, [], 5%nat, 10, FBounded 196400)] 0
  /\ run_polls [(ex_log 3, [], 3%nat, 1, FControlled [Abort]); (ex_log 3, [], 3%nat, 10, FPoll);
                (ex_log 5, [], 5%nat, 10, FBounded 196400)] (mkImage (2 * 65536 + 65536 - 576) false 0 9)
     = Some (between [Unknown (65536 - 576)] ex_stream 0 5, mkImage 196608 false 0 9).
Proof. split; [|vm_compute; reflexivity].
  assert (Hin : forall a, (a <= 3)%nat -> boundary_off [Unknown (65536 - 576)] ex_stream a < 2 ^ 16).
  { intros a Ha. do 4 (destruct a as [|a]; [vm_compute; reflexivity|]). lia. }
  cbn [polls_ok]. split; [apply (ex_shows 3); lia|]. split; [lia|]. split; [apply Hin; lia|].
  intros a1 H1. split; [apply (ex_shows 3); lia|]. split; [lia|]. split; [apply Hin; lia|].
  intros a2 H2. split; [apply (ex_shows 5); lia|]. split; [lia|]. split; [apply Hin; lia|].
  intros; exact I. Qed.

(* C05_repeat_terms is not vacuous: five polls (plain with limit 1, bounded, plain over the end-of-term padding, controlled
   with Commit, plain) starting 576 bytes before the end of term 2 (term id wrapped) and ending 128 bytes into term 3 *)
Example C05_repeat_terms_ex :
  terms_full 16 tx_pre tx_terms /\
  polls_ok_t 16 2147483647 2 tx_pre tx_terms tx_polls (0%nat, 0%nat) /\
  lpos 16 2 tx_pre tx_terms (0%nat, 0%nat) = 2 * 65536 + 65536 - 576 /\
  run_polls tx_polls (mkImage (2 * 65536 + 65536 - 576) false 0 9)
    = Some (between_t tx_pre tx_terms 0 7, mkImage (3 * 65536 + 128) false 0 9) /\
  map (fun k => option_map (fun r => im_pos (snd r)) (run_polls (firstn k tx_polls) (mkImage (2 * 65536 + 65536 - 576) false 0 9)))
      [1; 2; 3; 4; 5]%nat
    = [Some 196160; Some 196320; Some 196608; Some 196672; Some 196736] /\
  map fst (between_t tx_pre tx_terms 0 7) = [64960; 65152; 65248; 0; 64] /\
  gidx tx_terms (1%nat, 2%nat) = 7%nat /\ lpos 16 2 tx_pre tx_terms (1%nat, 2%nat) = 3 * 65536 + 128.
Proof. exact C05_repeat_terms_example. Qed.

(* block_poll with "no limit" in the middle of a term: the whole run of data frames up to the padding (the defect repaired by
   C05-block-poll-limit: a debug build panicked here, a release build returned 0 for ever) *)
Example C05_block_max_example :
  run_case Debug 16 2147483647 9 (2 * 65536 + 65536 - 576) ex_segs [CBlock 2147483647; CBlock 2147483647; CBlock 2147483647]
  = run_case Release 16 2147483647 9 (2 * 65536 + 65536 - 576) ex_segs [CBlock 2147483647; CBlock 2147483647; CBlock 2147483647]
  /\ map (fun ob : cobs => let '(r, _, _, p) := ob in (r, p))
        (run_case Debug 16 2147483647 9 (2 * 65536 + 65536 - 576) ex_segs [CBlock 2147483647; CBlock 2147483647; CBlock 2147483647])
     = [(Ok 128, 196160); (Ok 64, 196224); (Ok 160, 196384)].
Proof. split; vm_compute; reflexivity. Qed.
