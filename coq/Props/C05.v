Require Import V.Base.MachineInt V.Model.Reader V.Model.Image V.Oracle.C05Cases V.Oracle.C05Oracle.
Open Scope Z_scope.
Theorem C05_stub : True. Proof. exact I. Qed.
Print Assumptions C05_stub.
