(* Property C08 - statements; proofs in Proofs/*.v (work in progress). *)
Require Import V.Base.MachineInt V.Model.LogBase V.Model.Broadcast V.Model.BroadcastShow V.Spec.Lossy V.Oracle.C08Oracle.
Open Scope Z_scope.

Example C08_smoke :
  holds_seq 64 0 [] [Transmit 3841 (payload 1 5); Receive; Receive]
    (map show_obs (run_history Debug W64 64 0 [] [Transmit 3841 (payload 1 5); Receive; Receive])) = true.
Proof. vm_compute. reflexivity. Qed.
