(* Property C08 - driver-event broadcast: events arrive in order, intact; any loss is reported.
   Statements only; proofs in Proofs/BroadcastMem.v, BroadcastInv.v, BroadcastRefine.v, LossyProofs.v,
   C08Proofs.v (sequential part) and Proofs/BroadcastThreadsProofs.v (concurrent part).

   Vocabulary.  run_history m w cap c0 pre h: the byte-level model (Model/Broadcast.v) of
   BroadcastTransmitter + CopyBroadcastReceiver over one buffer of capacity cap whose three trailer
   counters start at c0; `pre` are transmits made before the receiver is created, `h` the history of
   Transmit / Receive / Dump afterwards.  w = W64 is the repaired do_validate (fixes/C08-validate-i64.diff),
   w = W32 the code as found; hv = true is the copying receiver that validates the two header words before using
   them (fixes/C08-copy-receiver-validate-header.diff), hv = false the code as found (no difference sequentially).  spec_history: the lossy channel of Spec/Lossy.v (positions only).
   hist_ok cap w c0 pre h: 0 <= c0, c0 a multiple of 8, message types are i32 values and
   c0 + 2*cap*(number of operations) < lim cap w, where lim = 2^62 for W64 and 2^31 - cap for W32. *)
From Coq Require Import String.
Require Import V.Base.MachineInt.
Require Import V.Generated.GenConsts.
Require Import V.Model.LogBase.
Require Import V.Model.Broadcast.
Require Import V.Model.BroadcastShow.
Require Import V.Spec.Lossy.
Require Import V.Spec.LossyJump.
Require Import V.Oracle.C08Oracle.
Require Import V.Proofs.BroadcastMem.
Require Import V.Proofs.BroadcastInv.
Require Import V.Proofs.BroadcastRefine.
Require Import V.Proofs.LossyProofs.
Require Import V.Proofs.C08Proofs.
Require Import V.Model.BroadcastThreads.
Require Import V.Proofs.BroadcastThreadsProofs.
Open Scope Z_scope.

(* K1: the layout constants the model uses are the ones the compiler produced *)
Example C08_layout :
  intent_idx 1024 = 1024 /\ tail_idx 1024 = 1032 /\ latest_idx 1024 = 1040 /\ buf_len 1024 = 1152 /\
  HL = 8 /\ RA = 8 /\ PADDING = -1 /\ max_msg 1024 = BC_MAX_MSG_1024.
Proof. repeat split; reflexivity. Qed.

(* K1: the event codes from_command_id accepts (known_type) cover every discriminant the compiler assigned
   (ResponseOnUnavailableCounter is accepted under its protocol code 0xF09 whatever its discriminant is) *)
Example C08_known_types :
  forallb known_type
    [CMD_Padding; CMD_AddPublication; CMD_RemovePublication; CMD_AddExclusivePublication; CMD_AddSubscription;
     CMD_RemoveSubscription; CMD_ClientKeepAlive; CMD_AddDestination; CMD_RemoveDestination; CMD_AddCounter;
     CMD_RemoveCounter; CMD_ClientClose; CMD_AddRcvDestination; CMD_RemoveRcvDestination; CMD_TerminateDriver;
     CMD_ResponseOnError; CMD_ResponseOnAvailableImage; CMD_ResponseOnPublicationReady; CMD_ResponseOnOperationSuccess;
     CMD_ResponseOnUnavailableImage; CMD_ResponseOnExclusivePublicationReady; CMD_ResponseOnSubscriptionReady;
     CMD_ResponseOnCounterReady; 3849; CMD_ResponseOnClientTimeout] = true /\
  forallb (fun t => negb (known_type t)) [0; 15; 100; 101; 3840; 3851; -2] = true.
Proof. split; reflexivity. Qed.

(* The model refines the lossy channel on every history: same results, same lapped counts, same errors. *)
Theorem C08_refines : forall cap k m hv c0 pre h,
  cap = 2 ^ k -> 5 <= k <= 30 -> hist_ok cap W64 c0 pre h ->
  map erase (run_history m W64 hv cap c0 pre h) = spec_history cap c0 pre h.
Proof. intros cap k m hv c0 pre h Hc Hk (A & B & C & D & E). now apply (history_refines cap k Hc Hk). Qed.
Print Assumptions C08_refines.

(* delivered is a subsequence of transmitted: same types, same bytes, same order *)
Theorem C08_order : forall cap k m hv c0 pre h,
  cap = 2 ^ k -> 5 <= k <= 30 -> hist_ok cap W64 c0 pre h ->
  subseq (delivered (run_history m W64 hv cap c0 pre h)) (transmitted_pre cap pre ++ transmitted cap h).
Proof. intros cap k m hv c0 pre h Hc Hk. exact (model_order cap k Hc Hk m W64 hv c0 pre h). Qed.
Print Assumptions C08_order.

(* while the backlog (tail-intent - next_record) is below cap at every Receive: no error, no panic,
   and delivered ++ (what is still outstanding at the end) = (what was outstanding at the start) ++ transmitted *)
Theorem C08_complete : forall cap k m hv c0 pre h,
  cap = 2 ^ k -> 5 <= k <= 30 -> hist_ok cap W64 c0 pre h ->
  never_lapped cap (spec_init cap c0 pre) h ->
  Forall deliverable (transmitted_pre cap pre) -> Forall deliverable (transmitted cap h) ->
  let s0 := spec_init cap c0 pre in
  let sf := spec_final cap s0 h in
  Forall clean (run_history m W64 hv cap c0 pre h) /\
  delivered (run_history m W64 hv cap c0 pre h) ++ pending (s_ch sf) (s_next (s_rx sf))
    = pending (s_ch s0) (s_next (s_rx s0)) ++ transmitted cap h /\
  s_lapped (s_rx sf) = 0.
Proof. intros cap k m hv c0 pre h Hc Hk. exact (model_complete cap k Hc Hk m W64 hv c0 pre h). Qed.
Print Assumptions C08_complete.

Theorem C08_complete_from_start : forall cap k m hv c0 h,
  cap = 2 ^ k -> 5 <= k <= 30 -> hist_ok cap W64 c0 [] h ->
  never_lapped cap (spec_init cap c0 []) h -> Forall deliverable (transmitted cap h) ->
  let sf := spec_final cap (spec_init cap c0 []) h in
  Forall clean (run_history m W64 hv cap c0 [] h) /\
  delivered (run_history m W64 hv cap c0 [] h) ++ pending (s_ch sf) (s_next (s_rx sf)) = transmitted cap h.
Proof. intros cap k m hv c0 h Hc Hk. exact (model_complete_from_start cap k Hc Hk m W64 hv c0 h). Qed.
Print Assumptions C08_complete_from_start.

(* a Receive that returns 0 messages means nothing transmitted so far is outstanding *)
Theorem C08_drained : forall cap ch r r',
  sinv ch -> s_next r <= c_tail ch ->
  spec_receive cap ch r = Some (r', RNone) -> pending ch (s_next r) = [].
Proof. exact spec_drained. Qed.
Print Assumptions C08_drained.

(* lapped: the first Receive after the lap returns UnableToKeepUp (lapped count + 1) and delivers
   nothing; every later delivery is an event transmitted after that Receive *)
Theorem C08_overrun : forall cap k m hv c0 pre h1 h2,
  cap = 2 ^ k -> 5 <= k <= 30 -> hist_ok cap W64 c0 pre (h1 ++ Receive :: h2) ->
  let s0 := spec_init cap c0 pre in
  let s1 := spec_final cap s0 h1 in
  Forall (fun o => o <> OPanic) (spec_run cap s0 h1) ->
  cap <= backlog (s_ch s1) (s_rx s1) ->
  let os := run_history m W64 hv cap c0 pre (h1 ++ Receive :: h2) in
  nth_error os (length h1) = Some (Rx (s_lapped (s_rx s1) + 1) (RErr UnableToKeepUp)) /\
  subseq (delivered (skipn (S (length h1)) os)) (transmitted cap h2).
Proof. intros cap k m hv c0 pre h1 h2 Hc Hk. exact (model_overrun cap k Hc Hk m W64 hv c0 pre h1 h2). Qed.
Print Assumptions C08_overrun.

(* C08_wide: none of the above depends on c0 < 2^31 - they are stated for every c0 with
   c0 + 2*cap*ops < 2^62.  The code as found (W32) satisfies them only below 2^31 - cap ... *)
Theorem C08_narrow_i32 : forall cap k m hv c0 pre h,
  cap = 2 ^ k -> 5 <= k <= 30 -> hist_ok cap W32 c0 pre h ->
  map erase (run_history m W32 hv cap c0 pre h) = spec_history cap c0 pre h.
Proof. intros cap k m hv c0 pre h Hc Hk (A & B & C & D & E). now apply (history_refines cap k Hc Hk). Qed.
Print Assumptions C08_narrow_i32.

(* ... and violates them beyond (witnesses; each was replayed on the implementation):
   debug build: the first Receive panics (i32 overflow in `cursor + self.capacity`);
   release build: a receiver 16 bytes behind is told it was lapped and loses the message;
   release build: a receiver that really was lapped (144 >= 64 bytes behind) is not told and
   is handed message 9 before messages 6, 7, 8 *)
Definition t8 (k : Z) : op := Transmit 3841 (payload k 8).
Example C08_wide_refuted_i32 :
  run_history Debug W32 false 32 2147483616 [] [Transmit 7 (payload 745 4); Receive] = [TxOk; OPanic] /\
  run_history Release W32 false 64 2147483584 [] [Transmit 3841 (payload 1 5); Receive]
    = [TxOk; Rx 1 (RErr UnableToKeepUp)] /\
  delivered (run_history Release W32 false 64 2147483520 []
     [t8 1; t8 2; t8 3; t8 4; t8 5; t8 6; t8 7; t8 8; t8 9; Receive; Receive; Receive; Receive])
    = [(3841, payload 9 8); (3841, payload 6 8); (3841, payload 7 8); (3841, payload 8 8)].
Proof. repeat split; vm_compute; reflexivity. Qed.

(* the same three histories on the repaired code *)
Example C08_wide_repaired :
  run_history Debug W64 true 32 2147483616 [] [Transmit 7 (payload 745 4); Receive]
    = [TxOk; Rx 0 (RMsg 7 (payload 745 4))] /\
  run_history Release W64 true 64 2147483584 [] [Transmit 3841 (payload 1 5); Receive]
    = [TxOk; Rx 0 (RMsg 3841 (payload 1 5))] /\
  run_history Release W64 true 64 2147483520 []
     [t8 1; t8 2; t8 3; t8 4; t8 5; t8 6; t8 7; t8 8; t8 9; Receive; Receive]
    = [TxOk; TxOk; TxOk; TxOk; TxOk; TxOk; TxOk; TxOk; TxOk; Rx 1 (RErr UnableToKeepUp); Rx 1 RNone].
Proof. repeat split; vm_compute; reflexivity. Qed.

(* the oracle applied to the model's own observations is true on every history *)
Theorem C08_oracle_seq : forall cap k m hv c0 pre h,
  cap = 2 ^ k -> 5 <= k <= 30 -> hist_ok cap W64 c0 pre h ->
  holds_seq cap c0 pre h (map show_obs (run_history m W64 hv cap c0 pre h)) = true.
Proof. intros cap k m hv c0 pre h Hc Hk. exact (oracle_seq_model cap k Hc Hk m W64 hv c0 pre h). Qed.
Print Assumptions C08_oracle_seq.

(* ---------------------------------------------------------------- concurrent part
   One transmitter thread || one copying receiver thread (Model/BroadcastThreads.v), every interleaving of
   their shared-memory accesses (a schedule is any list of thread ids; the receiver never writes the buffer).

   Transmitter side of the seqlock: whatever the transmitter is in the middle of, the tail counter is the
   end of the completed records, the tail-intent counter is not below it, and every completed record at
   position p with  intent <= p + cap  is intact in memory - i.e. any overwrite of a record is preceded by
   an intent > p + cap. *)
Theorem C08_seqlock_writer : forall cap k c0 mm t ch,
  cap = 2 ^ k -> 5 <= k <= 30 -> tinv cap c0 mm t ch ->
  get64 mm (tail_idx cap) = c_tail ch /\ c_tail ch <= get64 mm (intent_idx cap) /\
  (forall e, In e (c_log ch) -> get64 mm (intent_idx cap) <= e_pos e + cap -> intact cap mm e).
Proof. intros cap k c0 mm t ch Hc Hk. exact (tinv_facts cap k Hc Hk c0 mm t ch). Qed.
Print Assumptions C08_seqlock_writer.

(* ... this holds initially and is kept by every step of the transmitter machine; the completed records only
   grow (next_ch appends the record when the tail is published) and the intent never decreases *)
Theorem C08_seqlock_writer_step : forall cap k c0 mm t ch t' mm' ev,
  cap = 2 ^ k -> 5 <= k <= 30 -> tinv cap c0 mm t ch -> tx_step cap mm t = Some (t', mm', ev) ->
  tinv cap c0 mm' t' (next_ch cap ch t) /\ (exists es, c_log (next_ch cap ch t) = c_log ch ++ es) /\
  get64 mm (intent_idx cap) <= get64 mm' (intent_idx cap).
Proof. intros cap k c0 mm t ch t' mm' ev Hc Hk. exact (tinv_step cap k Hc Hk c0 mm t ch t' mm' ev). Qed.
Print Assumptions C08_seqlock_writer_step.

(* collapse: the transmitter machine run through one message is BroadcastTransmitter::transmit of Model/Broadcast.v *)
Theorem C08_collapse_transmit : forall cap k mm0 ty bs m,
  cap = 2 ^ k -> 5 <= k <= 30 ->
  0 <= get64 mm0 (tail_idx cap) /\ get64 mm0 (tail_idx cap) mod 8 = 0 /\ get64 mm0 (tail_idx cap) + 2 * cap < 2 ^ 62 ->
  Z.of_nat (length bs) <= cap / 8 -> in_i32 ty = true -> (ty <? 1) = false ->
  transmit m cap mm0 ty bs = Ok (tx_final cap mm0 ty bs) /\
  forall pc rest done, tx_pc_ok cap mm0 bs pc ->
    match tx_step cap (tx_mem_at cap mm0 ty bs pc) {| t_pc := pc; t_todo := (ty, bs) :: rest; t_done := done |} with
    | Some (t', mm', _) =>
        match pc with
        | TTail _ _ => t' = {| t_pc := TIdle; t_todo := rest; t_done := done + 1 |} /\ mm' = tx_final cap mm0 ty bs
        | _ => t_todo t' = (ty, bs) :: rest /\ t_done t' = done /\ pc_rank pc < pc_rank (t_pc t') /\
               tx_pc_ok cap mm0 bs (t_pc t') /\ mm' = tx_mem_at cap mm0 ty bs (t_pc t')
        end
    | None => False
    end.
Proof.
  intros cap k mm0 ty bs m Hc Hk HT Hl Hty Hty1. split.
  - exact (transmit_eq cap k Hc Hk mm0 ty bs HT Hl Hty m Hty1).
  - exact (tx_step_at cap k Hc Hk mm0 ty bs Hty).
Qed.
Print Assumptions C08_collapse_transmit.

(* C08_seqlock, as far as it is proved (full statement: for every schedule, every message handed to the
   handler is byte-identical to one transmitted message, in transmission order, and a skipped message is
   preceded by an UnableToKeepUp report):
   for EVERY schedule, if every receive_next so far left the receiver's cursor on a record of the stream
   (ghost flag g_ok, checked at the moment receive_next commits its fields), then every message handed to
   the handler is byte-identical - type and bytes - to one of the transmitted messages, never a mixture:
   the header words and the bytes were read from a record that the final validate proves was not
   overwritten before the last of these reads.  The first component says the ghost-instrumented run is
   the model's run_schedule.
   Missing: (1) receive_next itself uses a length word read after its only validate (Agrona's algorithm):
   a receiver lapped between that validate and the read computes cursor / next_record from stale bytes,
   so g_ok is an assumption, not a consequence (class `lap-inside-receive-next`, see docs/reports/C08.md);
   (2) order and loss-reporting for concurrent runs are checked by the oracle on every explored schedule
   but proved only for sequential histories (C08_order, C08_overrun). *)
Theorem C08_seqlock_partial : forall cap k m hv c0 pre msgs nrecv sched,
  cap = 2 ^ k -> 5 <= k <= 30 -> conc_ok cap c0 pre msgs ->
  let g := grun cap m hv W64 (ginit cap c0 pre msgs nrecv) sched in
  g_s g = run_schedule m W64 hv cap (init_cstate cap c0 pre msgs nrecv) sched /\
  (g_ok g = true ->
   Forall (fun res => match res with RMsg ty bs => In (ty, bs) (transmitted_pre cap pre ++ msgs) | _ => True end)
          (r_out (c_rx (g_s g)))).
Proof. intros cap k m hv c0 pre msgs nrecv sched Hc Hk. exact (seqlock_delivery cap k Hc Hk m hv W64 ltac:(discriminate) c0 pre msgs nrecv sched). Qed.
Print Assumptions C08_seqlock_partial.

(* non-vacuity: a schedule in which the receiver is pre-empted inside its first receive while the transmitter
   laps it; every commit was genuine, the receive reports UnableToKeepUp (repaired code) *)
Example C08_seqlock_example :
  let pre := [(3847, payload 900 0)] in
  let msgs := [(5, payload 10 4); (1, payload 11 4); (3844, payload 12 0); (3845, payload 13 4)] in
  let sched := [1; 1; 0; 0; 0; 0; 0; 0; 0; 0; 0; 0; 0; 0; 0; 0; 0; 0; 0; 0; 0; 0; 0; 0; 0; 0; 0; 0; 0; 0; 0; 0; 1; 1; 1; 1; 1; 1; 1; 1; 1; 1; 1; 1; 1; 1; 1; 1] in
  let g := grun 32 Debug true W64 (ginit 32 1099511627792 pre msgs 3) sched in
  g_ok g = true /\ rev (r_out (c_rx (g_s g))) = [RErr UnableToKeepUp; RErr UnableToKeepUp; RNone] /\
  r_end (c_rx (g_s g)) = RLive.
Proof. vm_compute. repeat split. Qed.

(* witness of the excluded class (KNOWN_FINDINGS.txt, class lap-inside-receive-next; replayed on the implementation
   with both fixes applied): the transmitter is stopped between publishing the tail-intent and updating `latest`;
   the lapped receiver jumps to the stale latest record and reads a length word that is already a payload byte.
   g_ok is false, and an "event" that was never transmitted (114 bytes of headers and trailer counters) is delivered. *)
Example C08_lap_inside_receive_next_witness :
  let pre := [(3847, payload 900 4)] in
  let msgs := [(1, payload 10 1); (2, payload 11 1); (3843, payload 12 1)] in
  let sched := [0; 0; 0; 0; 0; 0; 0; 1; 1; 1; 1] ++ repeat 0 40%nat ++ repeat 1 40%nat in
  let g := grun 32 Release true W64 (ginit 32 1099511627784 pre msgs 2) sched in
  conc_ok 32 1099511627784 pre msgs /\ g_ok g = false /\
  match r_out (c_rx (g_s g)) with
  | [RMsg 3847 bs; RErr UnableToKeepUp] => length bs = 114%nat /\ ~ In (3847, bs) (pre ++ msgs)
  | _ => False
  end.
Proof.
  cbn zeta. split; [|split].
  - unfold conc_ok, msg_ok. cbn [fst snd length]. repeat split; try (repeat constructor; reflexivity); try reflexivity; try lia.
  - vm_compute. reflexivity.
  - vm_compute. split; [reflexivity|]. intros [H|[H|[H|[H|[]]]]]; discriminate H.
Qed.

(* lag jumps (Spec/LossyJump.v) are a harness device; without jumps the jump-aware runs and oracle are the plain ones *)
Theorem C08_jump_free : forall m w hv cap c0 pre h,
  jrun_history m w hv cap c0 pre (map JOp h) = run_history m w hv cap c0 pre h /\
  sjrun_history cap c0 pre (map JOp h) = spec_history cap c0 pre h.
Proof. intros. split; [apply jrun_plain|apply sjrun_plain]. Qed.
Print Assumptions C08_jump_free.

(* a receiver that slept through 2^32 + 8 bytes is told so (the distance must not be truncated either) *)
Example C08_jump_example :
  jrun_history Release W64 true 64 0 [] [JOp (Transmit 3841 (payload 1 5)); JOp Receive; JJump 4294967304 3842 (payload 2 3); JOp Receive; JOp Receive]
    = [TxOk; Rx 0 (RMsg 3841 (payload 1 5)); TxOk; Rx 1 (RErr UnableToKeepUp); Rx 1 RNone] /\
  holds_jseq 64 0 [] [JOp (Transmit 3841 (payload 1 5)); JOp Receive; JJump 4294967304 3842 (payload 2 3); JOp Receive; JOp Receive]
    (map show_obs [TxOk; Rx 0 (RMsg 3841 (payload 1 5)); TxOk; Rx 1 (RErr UnableToKeepUp); Rx 1 RNone]) = true.
Proof. split; vm_compute; reflexivity. Qed.

(* the hex rendering used to transport observations loses nothing *)
Theorem C08_hex_injective : forall a b, bytes_ok a -> bytes_ok b -> hex a = hex b -> a = b.
Proof. exact hex_inj. Qed.
Print Assumptions C08_hex_injective.

(* ---- non-vacuity ---- *)
(* a history starting beyond 2^31 and one starting at 2^40 satisfy the hypotheses; the second one laps *)
Example C08_hist_ok_example :
  hist_ok 64 W64 2147483584 [(3842, payload 7 3)] [Transmit 3841 (payload 1 5); Receive; Receive; Dump] /\
  hist_ok 64 W64 1099511627776 [] [t8 1; t8 2; t8 3; t8 4; t8 5; Receive; t8 6; Receive; Receive].
Proof.
  unfold hist_ok, lim, t8, op_ok. cbn [fst length].
  repeat split; try (repeat constructor; reflexivity); try reflexivity; try lia.
Qed.

Example C08_never_lapped_example :
  never_lapped 64 (spec_init 64 2147483584 []) [Transmit 3841 (payload 1 5); Receive; t8 2; t8 3; Receive; Receive; Receive] /\
  Forall deliverable (transmitted 64 [Transmit 3841 (payload 1 5); Receive; t8 2; t8 3; Receive; Receive; Receive]) /\
  delivered (run_history Debug W64 true 64 2147483584 [] [Transmit 3841 (payload 1 5); Receive; t8 2; t8 3; Receive; Receive; Receive])
    = [(3841, payload 1 5); (3841, payload 2 8); (3841, payload 3 8)].
Proof.
  split; [|split].
  - vm_compute. repeat split; intros; discriminate.
  - unfold t8. cbn. repeat constructor; vm_compute; intros; discriminate.
  - vm_compute. reflexivity.
Qed.

Example C08_overrun_example :
  let h1 := [t8 1; t8 2; t8 3; t8 4; t8 5] in
  let s1 := spec_final 64 (spec_init 64 1099511627776 []) h1 in
  64 <= backlog (s_ch s1) (s_rx s1) /\
  Forall (fun o => o <> OPanic) (spec_run 64 (spec_init 64 1099511627776 []) h1) /\
  run_history Release W64 true 64 1099511627776 [] (h1 ++ Receive :: [t8 6; Receive; Receive])
    = [TxOk; TxOk; TxOk; TxOk; TxOk; Rx 1 (RErr UnableToKeepUp); TxOk; Rx 1 (RMsg 3841 (payload 6 8)); Rx 1 RNone].
Proof.
  cbn zeta. split; [|split].
  - vm_compute. intros; discriminate.
  - vm_compute. repeat constructor; intros; discriminate.
  - vm_compute. reflexivity.
Qed.
