(* Property C08 - driver-event broadcast: events arrive in order, intact; any loss is reported.
   Statements only; proofs in Proofs/BroadcastMem.v, BroadcastInv.v, BroadcastRefine.v, LossyProofs.v,
   C08Proofs.v (sequential part) and Proofs/BroadcastThreadsProofs.v (concurrent part).

   Vocabulary.  run_history m w cap c0 pre h: the byte-level model (Model/Broadcast.v) of
   BroadcastTransmitter + CopyBroadcastReceiver over one buffer of capacity cap whose three trailer
   counters start at c0; `pre` are transmits made before the receiver is created, `h` the history of
   Transmit / Receive / Dump afterwards.  w = W64 is the repaired do_validate (fixes/C08-validate-i64.diff),
   w = W32 the code as found; hv = true is the copying receiver that validates the two header words before using
   them (fixes/C08-copy-receiver-validate-header.diff), hv = false the code as found (no difference sequentially).  spec_history: the lossy channel of Spec/Lossy.v (positions only).
   hist_ok cap w c0 pre h: 0 <= c0, c0 a multiple of 8, message types are i32 values and
   c0 + 2*cap*(number of operations) < lim cap w, where lim = 2^62 for W64 and 2^31 - cap for W32. *)
From Coq Require Import String.
Require Import V.Base.MachineInt.
Require Import V.Generated.GenConsts.
Require Import V.Generated.GenCommands.
Require Import V.Model.LogBase.
Require Import V.Model.Broadcast.
Require Import V.Model.BroadcastShow.
Require Import V.Spec.Lossy.
Require Import V.Spec.LossyJump.
Require Import V.Oracle.C08Oracle.
Require Import V.Proofs.BroadcastMem.
Require Import V.Proofs.BroadcastInv.
Require Import V.Proofs.BroadcastRefine.
Require Import V.Proofs.LossyProofs.
Require Import V.Proofs.C08Proofs.
Require Import V.Model.BroadcastThreads.
Require Import V.Proofs.BroadcastThreadsProofs.
Require Import V.Proofs.BroadcastOrder.
Require Import V.Proofs.C08JudgeProofs.
Open Scope Z_scope.

(* K1: the layout constants the model uses are the ones the compiler produced *)
Example C08_layout :
  intent_idx 1024 = 1024 /\ tail_idx 1024 = 1032 /\ latest_idx 1024 = 1040 /\ buf_len 1024 = 1152 /\
  HL = 8 /\ RA = 8 /\ PADDING = -1 /\ max_msg 1024 = BC_MAX_MSG_1024.
Proof. repeat split; reflexivity. Qed.

(* K1: the event codes from_command_id accepts (known_type) cover every discriminant the compiler assigned
   (ResponseOnUnavailableCounter is accepted under its protocol code 0xF09 whatever its discriminant is) *)
Example C08_known_types :
  forallb known_type
    [CMD_Padding; CMD_AddPublication; CMD_RemovePublication; CMD_AddExclusivePublication; CMD_AddSubscription;
     CMD_RemoveSubscription; CMD_ClientKeepAlive; CMD_AddDestination; CMD_RemoveDestination; CMD_AddCounter;
     CMD_RemoveCounter; CMD_ClientClose; CMD_AddRcvDestination; CMD_RemoveRcvDestination; CMD_TerminateDriver;
     CMD_ResponseOnError; CMD_ResponseOnAvailableImage; CMD_ResponseOnPublicationReady; CMD_ResponseOnOperationSuccess;
     CMD_ResponseOnUnavailableImage; CMD_ResponseOnExclusivePublicationReady; CMD_ResponseOnSubscriptionReady;
     CMD_ResponseOnCounterReady; 3849; CMD_ResponseOnClientTimeout] = true /\
  forallb (fun t => negb (known_type t)) [0; 15; 100; 101; 3840; 3851; -2] = true.
Proof. split; reflexivity. Qed.

(* K1: known_type (the event codes CopyBroadcastReceiver::receive can turn into an AeronCommand without hitting
   from_command_id's unreachable!()) agrees, on every id of the scanned range -65536 .. 65536, with what the compiled
   from_command_id did (Generated/GenCommands.v, the table property C14 proves the dispatch of DriverListenerAdapter from) *)
Definition known_scan_step (st : Z * bool) : Z * bool :=
  let '(id, ok) := st in
  (id + 1, ok && Bool.eqb (known_type id) (existsb (fun r => fst r =? id) from_id_rows)).
Example C08_known_type_scan :
  Z.iter (from_id_scan_hi - from_id_scan_lo + 1) known_scan_step (from_id_scan_lo, true) = (from_id_scan_hi + 1, true).
Proof. vm_compute. reflexivity. Qed.

(* The model refines the lossy channel on every history: same results, same lapped counts, same errors. *)
Theorem C08_refines : forall cap k m hv c0 pre h,
  cap = 2 ^ k -> 5 <= k <= 30 -> hist_ok cap W64 c0 pre h ->
  map erase (run_history m W64 hv cap c0 pre h) = spec_history cap c0 pre h.
Proof. intros cap k m hv c0 pre h Hc Hk (A & B & C & D & E). now apply (history_refines cap k Hc Hk). Qed.
Print Assumptions C08_refines.

(* delivered is a subsequence of transmitted: same types, same bytes, same order *)
Theorem C08_order : forall cap k m hv c0 pre h,
  cap = 2 ^ k -> 5 <= k <= 30 -> hist_ok cap W64 c0 pre h ->
  subseq (delivered (run_history m W64 hv cap c0 pre h)) (transmitted_pre cap pre ++ transmitted cap h).
Proof. intros cap k m hv c0 pre h Hc Hk. exact (model_order cap k Hc Hk m W64 hv c0 pre h). Qed.
Print Assumptions C08_order.

(* while the backlog (tail-intent - next_record) is below cap at every Receive: no error, no panic,
   and delivered ++ (what is still outstanding at the end) = (what was outstanding at the start) ++ transmitted *)
Theorem C08_complete : forall cap k m hv c0 pre h,
  cap = 2 ^ k -> 5 <= k <= 30 -> hist_ok cap W64 c0 pre h ->
  never_lapped cap (spec_init cap c0 pre) h ->
  Forall deliverable (transmitted_pre cap pre) -> Forall deliverable (transmitted cap h) ->
  let s0 := spec_init cap c0 pre in
  let sf := spec_final cap s0 h in
  Forall clean (run_history m W64 hv cap c0 pre h) /\
  delivered (run_history m W64 hv cap c0 pre h) ++ pending (s_ch sf) (s_next (s_rx sf))
    = pending (s_ch s0) (s_next (s_rx s0)) ++ transmitted cap h /\
  s_lapped (s_rx sf) = 0.
Proof. intros cap k m hv c0 pre h Hc Hk. exact (model_complete cap k Hc Hk m W64 hv c0 pre h). Qed.
Print Assumptions C08_complete.

Theorem C08_complete_from_start : forall cap k m hv c0 h,
  cap = 2 ^ k -> 5 <= k <= 30 -> hist_ok cap W64 c0 [] h ->
  never_lapped cap (spec_init cap c0 []) h -> Forall deliverable (transmitted cap h) ->
  let sf := spec_final cap (spec_init cap c0 []) h in
  Forall clean (run_history m W64 hv cap c0 [] h) /\
  delivered (run_history m W64 hv cap c0 [] h) ++ pending (s_ch sf) (s_next (s_rx sf)) = transmitted cap h.
Proof. intros cap k m hv c0 h Hc Hk. exact (model_complete_from_start cap k Hc Hk m W64 hv c0 h). Qed.
Print Assumptions C08_complete_from_start.

(* a Receive that returns 0 messages means nothing transmitted so far is outstanding *)
Theorem C08_drained : forall cap ch r r',
  sinv ch -> s_next r <= c_tail ch ->
  spec_receive cap ch r = Some (r', RNone) -> pending ch (s_next r) = [].
Proof. exact spec_drained. Qed.
Print Assumptions C08_drained.

(* lapped: the first Receive after the lap returns UnableToKeepUp (lapped count + 1) and delivers
   nothing; every later delivery is an event transmitted after that Receive *)
Theorem C08_overrun : forall cap k m hv c0 pre h1 h2,
  cap = 2 ^ k -> 5 <= k <= 30 -> hist_ok cap W64 c0 pre (h1 ++ Receive :: h2) ->
  let s0 := spec_init cap c0 pre in
  let s1 := spec_final cap s0 h1 in
  Forall (fun o => o <> OPanic) (spec_run cap s0 h1) ->
  cap <= backlog (s_ch s1) (s_rx s1) ->
  let os := run_history m W64 hv cap c0 pre (h1 ++ Receive :: h2) in
  nth_error os (length h1) = Some (Rx (s_lapped (s_rx s1) + 1) (RErr UnableToKeepUp)) /\
  subseq (delivered (skipn (S (length h1)) os)) (transmitted cap h2).
Proof. intros cap k m hv c0 pre h1 h2 Hc Hk. exact (model_overrun cap k Hc Hk m W64 hv c0 pre h1 h2). Qed.
Print Assumptions C08_overrun.

(* C08_wide: none of the above depends on c0 < 2^31 - they are stated for every c0 with
   c0 + 2*cap*ops < 2^62.  The code as found (W32) satisfies them only below 2^31 - cap ... *)
Theorem C08_narrow_i32 : forall cap k m hv c0 pre h,
  cap = 2 ^ k -> 5 <= k <= 30 -> hist_ok cap W32 c0 pre h ->
  map erase (run_history m W32 hv cap c0 pre h) = spec_history cap c0 pre h.
Proof. intros cap k m hv c0 pre h Hc Hk (A & B & C & D & E). now apply (history_refines cap k Hc Hk). Qed.
Print Assumptions C08_narrow_i32.

(* ... and violates them beyond (witnesses; each was replayed on the implementation):
   debug build: the first Receive panics (i32 overflow in `cursor + self.capacity`);
   release build: a receiver 16 bytes behind is told it was lapped and loses the message;
   release build: a receiver that really was lapped (144 >= 64 bytes behind) is not told and
   is handed message 9 before messages 6, 7, 8 *)
Definition t8 (k : Z) : op := Transmit 3841 (payload k 8).
Example C08_wide_refuted_i32 :
  run_history Debug W32 false 32 2147483616 [] [Transmit 7 (payload 745 4); Receive] = [TxOk; OPanic] /\
  run_history Release W32 false 64 2147483584 [] [Transmit 3841 (payload 1 5); Receive]
    = [TxOk; Rx 1 (RErr UnableToKeepUp)] /\
  delivered (run_history Release W32 false 64 2147483520 []
     [t8 1; t8 2; t8 3; t8 4; t8 5; t8 6; t8 7; t8 8; t8 9; Receive; Receive; Receive; Receive])
    = [(3841, payload 9 8); (3841, payload 6 8); (3841, payload 7 8); (3841, payload 8 8)].
Proof. repeat split; vm_compute; reflexivity. Qed.

(* the same three histories on the repaired code *)
Example C08_wide_repaired :
  run_history Debug W64 true 32 2147483616 [] [Transmit 7 (payload 745 4); Receive]
    = [TxOk; Rx 0 (RMsg 7 (payload 745 4))] /\
  run_history Release W64 true 64 2147483584 [] [Transmit 3841 (payload 1 5); Receive]
    = [TxOk; Rx 0 (RMsg 3841 (payload 1 5))] /\
  run_history Release W64 true 64 2147483520 []
     [t8 1; t8 2; t8 3; t8 4; t8 5; t8 6; t8 7; t8 8; t8 9; Receive; Receive]
    = [TxOk; TxOk; TxOk; TxOk; TxOk; TxOk; TxOk; TxOk; TxOk; Rx 1 (RErr UnableToKeepUp); Rx 1 RNone].
Proof. repeat split; vm_compute; reflexivity. Qed.

(* the oracle applied to the model's own observations is true on every history *)
Theorem C08_oracle_seq : forall cap k m hv c0 pre h,
  cap = 2 ^ k -> 5 <= k <= 30 -> hist_ok cap W64 c0 pre h ->
  holds_seq cap c0 pre h (map show_obs (run_history m W64 hv cap c0 pre h)) = true.
Proof. intros cap k m hv c0 pre h Hc Hk. exact (oracle_seq_model cap k Hc Hk m W64 hv c0 pre h). Qed.
Print Assumptions C08_oracle_seq.

(* ---------------------------------------------------------------- concurrent part
   One transmitter thread || one copying receiver thread (Model/BroadcastThreads.v), every interleaving of
   their shared-memory accesses (a schedule is any list of thread ids; the receiver never writes the buffer).

   Transmitter side of the seqlock: whatever the transmitter is in the middle of, the tail counter is the
   end of the completed records, the tail-intent counter is not below it, and every completed record at
   position p with  intent <= p + cap  is intact in memory - i.e. any overwrite of a record is preceded by
   an intent > p + cap. *)
Theorem C08_seqlock_writer : forall cap k c0 mm t ch,
  cap = 2 ^ k -> 5 <= k <= 30 -> tinv cap c0 mm t ch ->
  get64 mm (tail_idx cap) = c_tail ch /\ c_tail ch <= get64 mm (intent_idx cap) /\
  (forall e, In e (c_log ch) -> get64 mm (intent_idx cap) <= e_pos e + cap -> intact cap mm e).
Proof. intros cap k c0 mm t ch Hc Hk. exact (tinv_facts cap k Hc Hk c0 mm t ch). Qed.
Print Assumptions C08_seqlock_writer.

(* ... this holds initially and is kept by every step of the transmitter machine; the completed records only
   grow (next_ch appends the record when the tail is published) and the intent never decreases *)
Theorem C08_seqlock_writer_step : forall cap k c0 mm t ch t' mm' ev,
  cap = 2 ^ k -> 5 <= k <= 30 -> tinv cap c0 mm t ch -> tx_step cap mm t = Some (t', mm', ev) ->
  tinv cap c0 mm' t' (next_ch cap ch t) /\ (exists es, c_log (next_ch cap ch t) = c_log ch ++ es) /\
  get64 mm (intent_idx cap) <= get64 mm' (intent_idx cap).
Proof. intros cap k c0 mm t ch t' mm' ev Hc Hk. exact (tinv_step cap k Hc Hk c0 mm t ch t' mm' ev). Qed.
Print Assumptions C08_seqlock_writer_step.

(* collapse: the transmitter machine run through one message is BroadcastTransmitter::transmit of Model/Broadcast.v *)
Theorem C08_collapse_transmit : forall cap k mm0 ty bs m,
  cap = 2 ^ k -> 5 <= k <= 30 ->
  0 <= get64 mm0 (tail_idx cap) /\ get64 mm0 (tail_idx cap) mod 8 = 0 /\ get64 mm0 (tail_idx cap) + 2 * cap < 2 ^ 62 ->
  Z.of_nat (length bs) <= cap / 8 -> in_i32 ty = true -> (ty <? 1) = false ->
  transmit m cap mm0 ty bs = Ok (tx_final cap mm0 ty bs) /\
  forall pc rest done, tx_pc_ok cap mm0 bs pc ->
    match tx_step cap (tx_mem_at cap mm0 ty bs pc) {| t_pc := pc; t_todo := (ty, bs) :: rest; t_done := done |} with
    | Some (t', mm', _) =>
        match pc with
        | TTail _ _ => t' = {| t_pc := TIdle; t_todo := rest; t_done := done + 1 |} /\ mm' = tx_final cap mm0 ty bs
        | _ => t_todo t' = (ty, bs) :: rest /\ t_done t' = done /\ pc_rank pc < pc_rank (t_pc t') /\
               tx_pc_ok cap mm0 bs (t_pc t') /\ mm' = tx_mem_at cap mm0 ty bs (t_pc t')
        end
    | None => False
    end.
Proof.
  intros cap k mm0 ty bs m Hc Hk HT Hl Hty Hty1. split.
  - exact (transmit_eq cap k Hc Hk mm0 ty bs HT Hl Hty m Hty1).
  - exact (tx_step_at cap k Hc Hk mm0 ty bs Hty).
Qed.
Print Assumptions C08_collapse_transmit.

(* C08_seqlock, as far as it is proved (full statement: for every schedule, every message handed to the
   handler is byte-identical to one transmitted message, in transmission order, and a skipped message is
   preceded by an UnableToKeepUp report):
   for EVERY schedule, if every receive_next so far left the receiver's cursor on a record of the stream
   (ghost flag g_ok, checked at the moment receive_next commits its fields), then every message handed to
   the handler is byte-identical - type and bytes - to one of the transmitted messages, never a mixture:
   the header words and the bytes were read from a record that the final validate proves was not
   overwritten before the last of these reads.  The first component says the ghost-instrumented run is
   the model's run_schedule.
   Missing: (1) receive_next itself uses a length word read after its only validate (Agrona's algorithm):
   a receiver lapped between that validate and the read computes cursor / next_record from stale bytes,
   so g_ok is an assumption, not a consequence (class `lap-inside-receive-next`, see docs/reports/C08.md);
   (2) order and loss-reporting for concurrent runs are checked by the oracle on every explored schedule
   but proved only for sequential histories (C08_order, C08_overrun). *)
Theorem C08_seqlock_partial : forall cap k m hv c0 pre msgs nrecv sched,
  cap = 2 ^ k -> 5 <= k <= 30 -> conc_ok cap c0 pre msgs ->
  let g := grun cap m hv W64 (ginit cap c0 pre msgs nrecv) sched in
  g_s g = run_schedule m W64 hv cap (init_cstate cap c0 pre msgs nrecv) sched /\
  (g_ok g = true ->
   Forall (fun res => match res with RMsg ty bs => In (ty, bs) (transmitted_pre cap pre ++ msgs) | _ => True end)
          (r_out (c_rx (g_s g)))).
Proof. intros cap k m hv c0 pre msgs nrecv sched Hc Hk. exact (seqlock_delivery cap k Hc Hk m hv W64 ltac:(discriminate) c0 pre msgs nrecv sched). Qed.
Print Assumptions C08_seqlock_partial.

(* non-vacuity: a schedule in which the receiver is pre-empted inside its first receive while the transmitter
   laps it; every commit was genuine, the receive reports UnableToKeepUp (repaired code) *)
Example C08_seqlock_example :
  let pre := [(3847, payload 900 0)] in
  let msgs := [(5, payload 10 4); (1, payload 11 4); (3844, payload 12 0); (3845, payload 13 4)] in
  let sched := [1; 1; 0; 0; 0; 0; 0; 0; 0; 0; 0; 0; 0; 0; 0; 0; 0; 0; 0; 0; 0; 0; 0; 0; 0; 0; 0; 0; 0; 0; 0; 0; 1; 1; 1; 1; 1; 1; 1; 1; 1; 1; 1; 1; 1; 1; 1; 1] in
  let g := grun 32 Debug true W64 (ginit 32 1099511627792 pre msgs 3) sched in
  g_ok g = true /\ rev (r_out (c_rx (g_s g))) = [RErr UnableToKeepUp; RErr UnableToKeepUp; RNone] /\
  r_end (c_rx (g_s g)) = RLive.
Proof. vm_compute. repeat split. Qed.

(* witness of the excluded class (KNOWN_FINDINGS.txt, class lap-inside-receive-next; replayed on the implementation
   with both fixes applied): the transmitter is stopped between publishing the tail-intent and updating `latest`;
   the lapped receiver jumps to the stale latest record and reads a length word that is already a payload byte.
   g_ok is false, and an "event" that was never transmitted (114 bytes of headers and trailer counters) is delivered. *)
Example C08_lap_inside_receive_next_witness :
  let pre := [(3847, payload 900 4)] in
  let msgs := [(1, payload 10 1); (2, payload 11 1); (3843, payload 12 1)] in
  let sched := [0; 0; 0; 0; 0; 0; 0; 1; 1; 1; 1] ++ repeat 0 40%nat ++ repeat 1 40%nat in
  let g := grun 32 Release true W64 (ginit 32 1099511627784 pre msgs 2) sched in
  conc_ok 32 1099511627784 pre msgs /\ g_ok g = false /\
  match r_out (c_rx (g_s g)) with
  | [RMsg 3847 bs; RErr UnableToKeepUp] => length bs = 114%nat /\ ~ In (3847, bs) (pre ++ msgs)
  | _ => False
  end.
Proof.
  cbn zeta. split; [|split].
  - unfold conc_ok, msg_ok. cbn [fst snd length]. repeat split; try (repeat constructor; reflexivity); try reflexivity; try lia.
  - vm_compute. reflexivity.
  - vm_compute. split; [reflexivity|]. intros [H|[H|[H|[H|[]]]]]; discriminate H.
Qed.

(* ---------------------------------------------------------------- C08_seqlock in full: interleaved order and loss reporting
   (Proofs/BroadcastOrder.v).  The sequential theorems C08_order / C08_complete / C08_overrun for one transmitter
   thread || one copying receiver thread under EVERY schedule, as one inductive invariant of the two pc-machines.

   `jst all i0 ann i lost` judges the receiver's results so far (newest first; `ann` pairs each result with a message
   number, meaningful for deliveries) against `all`, the messages handed to transmit (those sent before the receiver
   existed first), i0 = the number of the message the receiver joined at (the last one sent before it existed):
     - a delivery `RMsg ty bs` annotated j requires  nth_error all j = Some (ty, bs)  - the event handed to the handler
       IS transmitted message number j, same type, same bytes, never a mixture;
     - i (initially i0) is the number of the first message neither delivered nor skipped yet; a delivery needs i <= j and
       moves i to j + 1: message numbers strictly increase - transmission order, no duplicate;
     - j > i (messages i .. j-1 skipped) is allowed only when `lost`: an error (UnableToKeepUp; or BufferTooSmall for a
       message larger than the scratch buffer) has been returned since the previous delivery (or since the start).
   Class exclusion, exactly the class lap-inside-receive-next of KNOWN_FINDINGS.txt: `h_in g` is set when the
   receive_next of the code as found reads a header word (length / type at its cursor - which after a failed
   validation is the `latest` counter it has just read -, length at offset 0 after a padding record) while
   tail-intent > position of that record + capacity, i.e. the receiver is lapped inside receive_next and computes
   cursor / next_record from overwritten bytes. *)
Theorem C08_interleaved : forall cap k m hv c0 pre msgs nrecv sched,
  cap = 2 ^ k -> 5 <= k <= 30 -> conc_ok cap c0 pre msgs ->
  let g := hrun cap m hv W64 (hinit cap c0 pre msgs nrecv) sched in
  h_s g = run_schedule m W64 hv cap (init_cstate cap c0 pre msgs nrecv) sched /\
  (h_in g = false ->
   exists ann i lost, map fst ann = r_out (c_rx (h_s g)) /\
     jst (transmitted_pre cap pre ++ msgs) (Nat.pred (length (transmitted_pre cap pre))) ann i lost /\
     (* drained (the interleaved C08_drained): the receiver is between two receives, a receive starting now would return 0
        messages (tail counter <= next_record), no loss report is pending: every message whose transmit has completed
        (h_ch g) has been delivered or was skipped with a report *)
     (r_pc (c_rx (h_s g)) = RIdle -> c_tail (h_ch g) <= next_record (r_rx (c_rx (h_s g))) -> lost = false ->
      (length (allmsgs (h_ch g)) <= i)%nat)).
Proof.
  intros cap k m hv c0 pre msgs nrecv sched Hc Hk OK g.
  destruct (interleaved cap k Hc Hk m hv W64 ltac:(discriminate) _ _ c0 pre msgs nrecv sched OK eq_refl eq_refl) as [E J].
  split; [exact E|]. intros Hin. apply J. intros _. exact Hin.
Qed.
Print Assumptions C08_interleaved.

(* the repaired receive_next (fixes/C08-receive-next-revalidate.diff): every schedule, no exclusion *)
Theorem C08_interleaved_repaired : forall cap k m hv c0 pre msgs nrecv sched,
  cap = 2 ^ k -> 5 <= k <= 30 -> conc_ok cap c0 pre msgs ->
  let g := hrun cap m hv W64R (hinit cap c0 pre msgs nrecv) sched in
  h_s g = run_schedule m W64R hv cap (init_cstate cap c0 pre msgs nrecv) sched /\
  exists ann i lost, map fst ann = r_out (c_rx (h_s g)) /\
    jst (transmitted_pre cap pre ++ msgs) (Nat.pred (length (transmitted_pre cap pre))) ann i lost /\
    (r_pc (c_rx (h_s g)) = RIdle -> c_tail (h_ch g) <= next_record (r_rx (c_rx (h_s g))) -> lost = false ->
     (length (allmsgs (h_ch g)) <= i)%nat).
Proof.
  intros cap k m hv c0 pre msgs nrecv sched Hc Hk OK g.
  destruct (interleaved cap k Hc Hk m hv W64R ltac:(discriminate) _ _ c0 pre msgs nrecv sched OK eq_refl eq_refl) as [E J].
  split; [exact E|]. apply J. intros Rv. discriminate Rv.
Qed.
Print Assumptions C08_interleaved_repaired.

(* what the judgement implies: the events handed to the handler (oldest first) are a subsequence of the transmitted
   messages - the interleaved C08_order *)
Theorem C08_interleaved_order : forall all i0 ann i lost,
  jst all i0 ann i lost -> subseq (handed (map fst ann)) all.
Proof. intros all i0 ann i lost J. rewrite <- dels_handed. exact (jst_order all i0 ann i lost J). Qed.
Print Assumptions C08_interleaved_order.

(* the interleaved C08_complete: as long as no error has been returned nothing is skipped - the events handed to the
   handler are exactly the messages number i0 .. i-1, in order *)
Theorem C08_interleaved_complete : forall all i0 ann i lost,
  jst all i0 ann i lost -> (forall e j, ~ In (RErr e, j) ann) ->
  lost = false /\ handed (map fst ann) = firstn (i - i0) (skipn i0 all).
Proof. intros all i0 ann i lost J NE. rewrite <- dels_handed. exact (jst_complete all i0 ann i lost J NE). Qed.
Print Assumptions C08_interleaved_complete.

(* C08_seqlock of DESIGN.md for the repaired code, every schedule: every message handed to the handler is byte-identical
   to one of the transmitted messages.  (C08_seqlock_partial above is the statement for the code as found.) *)
Theorem C08_seqlock : forall cap k m hv c0 pre msgs nrecv sched,
  cap = 2 ^ k -> 5 <= k <= 30 -> conc_ok cap c0 pre msgs ->
  let s := run_schedule m W64R hv cap (init_cstate cap c0 pre msgs nrecv) sched in
  Forall (fun res => match res with RMsg ty bs => In (ty, bs) (transmitted_pre cap pre ++ msgs) | _ => True end)
         (r_out (c_rx s)) /\
  subseq (handed (r_out (c_rx s))) (transmitted_pre cap pre ++ msgs).
Proof.
  intros cap k m hv c0 pre msgs nrecv sched Hc Hk OK s.
  destruct (C08_interleaved_repaired cap k m hv c0 pre msgs nrecv sched Hc Hk OK) as [E (ann & i & lost & Ea & J & _)].
  cbv zeta in E. unfold s. rewrite <- E, <- Ea.
  pose proof (C08_interleaved_order _ _ _ _ _ J) as Sub. split; [|exact Sub].
  apply Forall_forall. intros res Hres. destruct res; auto.
  apply (subseq_In _ _ Sub). apply handed_In. exact Hres.
Qed.
Print Assumptions C08_seqlock.

(* The oracle evaluated on the implementation's observations (C08Oracle.holds_conc = `judge` on the receiver's results,
   sent = the messages as (type, hex), start index = the message the receiver joined at) accepts every result list the
   theorems' judgement accepts, when the messages are pairwise distinct and the only error returned is UnableToKeepUp;
   fq is the oracle's final-quiet switch (last receive began after the transmitter's last access): its clause is the
   `drained` conjunct of C08_interleaved.  So on runs covered by the theorems the oracle raises no alarm. *)
Theorem C08_oracle_conc_accepts : forall all i0 fq ann i lost,
  NoDup (map showm all) ->
  jst all i0 ann i lost -> Forall only_lap (map fst ann) -> quiet_ok all fq ann i lost ->
  judge (map showm all) (Z.of_nat (length (map showm all))) (map show_rres (rev (map fst ann))) (Z.of_nat i0) false fq = true.
Proof. intros all i0 fq ann i lost ND. exact (oracle_accepts_jst all i0 ND fq ann i lost). Qed.
Print Assumptions C08_oracle_conc_accepts.

(* the repaired code is never in the class *)
Theorem C08_repaired_not_in_class : forall cap m hv g sched,
  h_in (hrun cap m hv W64R g sched) = h_in g.
Proof. intros. apply hrun_in_repaired. reflexivity. Qed.
Print Assumptions C08_repaired_not_in_class.

(* non-vacuity, capacity 64, seven 8-byte messages (four records fill the buffer).
   (1) code as found, outside the class: message 1 is delivered, the transmitter then sends five more (a lap) while the
       receiver is between two receives; the next receive reports UnableToKeepUp, the one after it finds nothing, and
       after message 7 has been sent it is delivered: numbers 0 and 6, the gap preceded by the report.
   (2) the receiver is stopped right after the validation inside receive_next while the transmitter laps it: the run is
       in the class (code as found) ...
   (3) ... and on the same schedule the repaired code reports the loss and then delivers message 6 *)
Definition ex_msgs : list (Z * list Z) :=
  [(1, payload 11 8); (2, payload 12 8); (3, payload 13 8); (4, payload 14 8); (5, payload 15 8); (6, payload 16 8); (7, payload 17 8)].
Example C08_interleaved_example :
  let s1 := repeat 0 7%nat ++ repeat 1 9%nat ++ repeat 0 35%nat ++ repeat 1 6%nat ++ repeat 0 7%nat ++ repeat 1 9%nat in
  let s2 := repeat 0 7%nat ++ repeat 1 2%nat ++ repeat 0 35%nat ++ repeat 1 30%nat in
  let g1 := hrun 64 Debug true W64 (hinit 64 1099511627776 [] ex_msgs 4) s1 in
  let g2 := hrun 64 Debug true W64 (hinit 64 1099511627776 [] ex_msgs 4) s2 in
  let g3 := hrun 64 Debug true W64R (hinit 64 1099511627776 [] ex_msgs 4) s2 in
  conc_ok 64 1099511627776 [] ex_msgs /\
  (h_in g1 = false /\
   rev (r_out (c_rx (h_s g1))) = [RMsg 1 (payload 11 8); RErr UnableToKeepUp; RNone; RMsg 7 (payload 17 8)] /\
   jst ex_msgs 0 [(RMsg 7 (payload 17 8), 6%nat); (RNone, 0%nat); (RErr UnableToKeepUp, 0%nat); (RMsg 1 (payload 11 8), 0%nat)] 7 false) /\
  h_in g2 = true /\
  (h_in g3 = false /\ rev (r_out (c_rx (h_s g3))) = [RErr UnableToKeepUp; RMsg 6 (payload 16 8); RNone; RNone]).
Proof.
  cbn zeta. split; [|split; [split; [|split]|split; [|split]]].
  - unfold conc_ok, msg_ok, ex_msgs. cbn [fst snd length]. repeat split; try (repeat constructor; reflexivity); try reflexivity; try lia.
  - vm_compute. reflexivity.
  - vm_compute. reflexivity.
  - eapply j_msg; [eapply j_none; eapply j_err; eapply (j_msg ex_msgs 0 [] 0 false); [constructor|reflexivity|lia|auto]
                  |reflexivity|lia|discriminate].
  - vm_compute. reflexivity.
  - vm_compute. reflexivity.
  - vm_compute. reflexivity.
Qed.

(* lag jumps (Spec/LossyJump.v) are a harness device; without jumps the jump-aware runs and oracle are the plain ones *)
Theorem C08_jump_free : forall m w hv cap c0 pre h,
  jrun_history m w hv cap c0 pre (map JOp h) = run_history m w hv cap c0 pre h /\
  sjrun_history cap c0 pre (map JOp h) = spec_history cap c0 pre h.
Proof. intros. split; [apply jrun_plain|apply sjrun_plain]. Qed.
Print Assumptions C08_jump_free.

(* a receiver that slept through 2^32 + 8 bytes is told so (the distance must not be truncated either) *)
Example C08_jump_example :
  jrun_history Release W64 true 64 0 [] [JOp (Transmit 3841 (payload 1 5)); JOp Receive; JJump 4294967304 3842 (payload 2 3); JOp Receive; JOp Receive]
    = [TxOk; Rx 0 (RMsg 3841 (payload 1 5)); TxOk; Rx 1 (RErr UnableToKeepUp); Rx 1 RNone] /\
  holds_jseq 64 0 [] [JOp (Transmit 3841 (payload 1 5)); JOp Receive; JJump 4294967304 3842 (payload 2 3); JOp Receive; JOp Receive]
    (map show_obs [TxOk; Rx 0 (RMsg 3841 (payload 1 5)); TxOk; Rx 1 (RErr UnableToKeepUp); Rx 1 RNone]) = true.
Proof. split; vm_compute; reflexivity. Qed.

(* the hex rendering used to transport observations loses nothing *)
Theorem C08_hex_injective : forall a b, bytes_ok a -> bytes_ok b -> hex a = hex b -> a = b.
Proof. exact hex_inj. Qed.
Print Assumptions C08_hex_injective.

(* ---- non-vacuity ---- *)
(* a history starting beyond 2^31 and one starting at 2^40 satisfy the hypotheses; the second one laps *)
Example C08_hist_ok_example :
  hist_ok 64 W64 2147483584 [(3842, payload 7 3)] [Transmit 3841 (payload 1 5); Receive; Receive; Dump] /\
  hist_ok 64 W64 1099511627776 [] [t8 1; t8 2; t8 3; t8 4; t8 5; Receive; t8 6; Receive; Receive].
Proof.
  unfold hist_ok, lim, t8, op_ok. cbn [fst length].
  repeat split; try (repeat constructor; reflexivity); try reflexivity; try lia.
Qed.

Example C08_never_lapped_example :
  never_lapped 64 (spec_init 64 2147483584 []) [Transmit 3841 (payload 1 5); Receive; t8 2; t8 3; Receive; Receive; Receive] /\
  Forall deliverable (transmitted 64 [Transmit 3841 (payload 1 5); Receive; t8 2; t8 3; Receive; Receive; Receive]) /\
  delivered (run_history Debug W64 true 64 2147483584 [] [Transmit 3841 (payload 1 5); Receive; t8 2; t8 3; Receive; Receive; Receive])
    = [(3841, payload 1 5); (3841, payload 2 8); (3841, payload 3 8)].
Proof.
  split; [|split].
  - vm_compute. repeat split; intros; discriminate.
  - unfold t8. cbn. repeat constructor; vm_compute; intros; discriminate.
  - vm_compute. reflexivity.
Qed.

Example C08_overrun_example :
  let h1 := [t8 1; t8 2; t8 3; t8 4; t8 5] in
  let s1 := spec_final 64 (spec_init 64 1099511627776 []) h1 in
  64 <= backlog (s_ch s1) (s_rx s1) /\
  Forall (fun o => o <> OPanic) (spec_run 64 (spec_init 64 1099511627776 []) h1) /\
  run_history Release W64 true 64 1099511627776 [] (h1 ++ Receive :: [t8 6; Receive; Receive])
    = [TxOk; TxOk; TxOk; TxOk; TxOk; Rx 1 (RErr UnableToKeepUp); TxOk; Rx 1 (RMsg 3841 (payload 6 8)); Rx 1 RNone].
Proof.
  cbn zeta. split; [|split].
  - vm_compute. intros; discriminate.
  - vm_compute. repeat constructor; intros; discriminate.
  - vm_compute. reflexivity.
Qed.
