(* Property C14 - driver events decode to what the driver sent; type codes are a bijection.
   Statements only; proofs are in Proofs/WireCodesProofs.v, Proofs/WireEventsProofs.v,
   Proofs/C14OracleProofs.v. *)
Require Import V.Base.MachineInt V.Model.WireBytes V.Model.WireCodes V.Model.WireEvents.
Require Import V.Proofs.WireBytesProofs V.Proofs.WireCodesProofs V.Proofs.WireEventsProofs.
Require Import V.Oracle.C14Oracle V.Proofs.C14OracleProofs.
Open Scope Z_scope.

(* ---- the type-code table (finite generated domain; `all_commands` is complete) ---- *)
Theorem C14_all_commands_complete : forall c : cmd, In c all_commands.
Proof. exact all_commands_complete. Qed.
Print Assumptions C14_all_commands_complete.

(* type -> code -> type is the identity for every type *)
Theorem C14_roundtrip : forall c, from_id (to_id c) = Ok c.
Proof. exact codes_roundtrip. Qed.
Print Assumptions C14_roundtrip.

(* the codes are those of the Aeron control protocol *)
Theorem C14_codes : forall c, to_id c = protocol_code c.
Proof. exact codes_protocol. Qed.
Print Assumptions C14_codes.

Theorem C14_injective : forall c1 c2, to_id c1 = to_id c2 -> c1 = c2.
Proof. exact codes_injective. Qed.
Print Assumptions C14_injective.

(* code -> type accepts exactly the protocol's codes, each for its own type: with C14_codes the
   two conversions are mutually inverse bijections between the types and the protocol's code set *)
Theorem C14_from_id_iff : forall id c, from_id id = Ok c <-> id = protocol_code c.
Proof. exact from_id_iff. Qed.
Print Assumptions C14_from_id_iff.

(* ---- events: decode (protocol encoding e) = the callback the protocol demands ---- *)
(* for all i32 / i64 field values and strings of any length and content (no NUL) that fit the
   receiver's 4096-byte record limit; in debug and release builds *)
Theorem C14_decode : forall m e,
  wf_event e = true -> Zlength (encode_event_spec e) <= SCRATCH_CAPACITY ->
  adapter_receive m (protocol_code (event_cmd e)) (encode_event_spec e) = Ok (expected_callback e).
Proof. exact receive_encode_event. Qed.
Print Assumptions C14_decode.

(* the `match` of the adapter alone (dispatch + getters + argument order), any record length *)
Theorem C14_dispatch : forall m e,
  wf_event e = true -> Zlength (encode_event_spec e) <= SCRATCH_CAPACITY ->
  decode_event m (event_cmd e) (encode_event_spec e) = Ok (expected_callback e).
Proof. exact decode_encode_event. Qed.
Print Assumptions C14_dispatch.

(* an event that does not fit the receiver's scratch buffer is refused with an error *)
Theorem C14_oversize : forall m t bs, SCRATCH_CAPACITY < Zlength bs -> adapter_receive m t bs = Err TooLong.
Proof. exact receive_oversize. Qed.
Print Assumptions C14_oversize.

(* the protocol-side encoder puts the fields at the protocol's literal offsets *)
Theorem C14_spec_offsets_publication_ready : forall excl corr reg session stream limit status log,
  let fs := event_fields (EvPublicationReady excl corr reg session stream limit status log) in
  foff fs 0 = 0 /\ foff fs 1 = 8 /\ foff fs 2 = 16 /\ foff fs 3 = 20 /\ foff fs 4 = 24 /\ foff fs 5 = 28 /\ foff fs 6 = 32.
Proof. exact spec_offsets_publication_ready. Qed.
Print Assumptions C14_spec_offsets_publication_ready.

Theorem C14_spec_offsets_available_image : forall corr session stream subreg subpos log src,
  let fs := event_fields (EvAvailableImage corr session stream subreg subpos log src) in
  foff fs 0 = 0 /\ foff fs 1 = 8 /\ foff fs 2 = 12 /\ foff fs 3 = 16 /\ foff fs 4 = 24 /\ foff fs 5 = 28 /\
  foff fs 7 = 28 + 4 + align4 (Zlength log) /\ (foff fs 7) mod 4 = 0.
Proof. exact spec_offsets_available_image. Qed.
Print Assumptions C14_spec_offsets_available_image.

(* ---- the oracle is true on the model's own results over the whole domain ---- *)
Theorem C14_oracle_event : forall m own e,
  wf_event e = true ->
  holds_event own e (visible_o own (adapter_receive m (protocol_code (event_cmd e)) (encode_event_spec e))) = true.
Proof. exact oracle_event_model. Qed.
Print Assumptions C14_oracle_event.

Theorem C14_oracle_code : forall c, holds_code c (to_id c, from_id (to_id c)) = true.
Proof. exact oracle_code_model. Qed.
Print Assumptions C14_oracle_code.

Theorem C14_oracle_fromid : forall id, holds_fromid id (from_id id) = true.
Proof. exact oracle_fromid_model. Qed.
Print Assumptions C14_oracle_fromid.

(* ---- non-vacuity ---- *)
Example C14_example_image :
  let e := EvAvailableImage 9223372036854775807 (-2147483648) 7 (-9223372036854775808) 13
             (pathchars 4 250) (chars 8 61) in
  wf_event e = true /\ Zlength (encode_event_spec e) = 349 /\ Zlength (encode_event_spec e) <= SCRATCH_CAPACITY /\
  get_i32 (encode_event_spec e) 28 = 250 /\ get_i32 (encode_event_spec e) 284 = 61 /\
  adapter_receive Debug 3842 (encode_event_spec e) =
    Ok (OnAvailableImage 9223372036854775807 (-2147483648) 13 (-9223372036854775808) (pathchars 4 250) (chars 8 61)).
Proof. cbv zeta. repeat split; try (vm_compute; reflexivity). vm_compute. intro H. discriminate H. Qed.

Example C14_example_codes :
  to_id ResponseOnUnavailableCounter = 3849 /\ from_id 3849 = Ok ResponseOnUnavailableCounter /\ from_id 249 = Panic
  /\ protocol_code ResponseOnClientTimeout = 3850.
Proof. vm_compute. repeat split. Qed.

Example C14_example_error_endpoint :
  expected_callback (EvError 4294967301 4 (chars 9 12)) = OnChannelEndpointError 4294967301 (chars 9 12) /\
  expected_callback (EvError 5 3 []) = OnErrorResponse 5 3 [] /\
  visible 100 (OnClientTimeout 100) = OnClientTimeout 100 /\ visible 100 (OnClientTimeout 4294967396) = NoCallback.
Proof. vm_compute. repeat split. Qed.

Example C14_example_oversize :
  let e := EvError 1 2 (chars 3 4081) in
  wf_event e = true /\ Zlength (encode_event_spec e) = 4097 /\
  adapter_receive Release (protocol_code (event_cmd e)) (encode_event_spec e) = Err TooLong.
Proof. cbv zeta. repeat split; vm_compute; reflexivity. Qed.
