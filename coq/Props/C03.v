(* Property C03 - a subscriber never observes an uncommitted, torn or half-written frame.
   Statements only; proofs are in Proofs/. *)
Require Import V.Base.MachineInt.
Require Import V.Generated.GenConsts.
Require Import V.Generated.GenOrdering.
Require Import V.Model.LogBase.
Require Import V.Model.Descriptor.
Require Import V.Model.Sched.
Require Import V.Model.AppenderThreads.
Require Import V.Model.ReaderThreads.
Require Import V.Oracle.C03Oracle.
Require Import V.Proofs.OrderingProofs.
Open Scope Z_scope.

(* ---- K1: the ordering class of the accessors, computed from the regenerated fence / atomic-operation table ---- *)
Theorem C03_get_volatile_is_acquire : cls GetVolatile = CAcqR.
Proof. exact get_volatile_is_acquire. Qed.
Print Assumptions C03_get_volatile_is_acquire.

Theorem C03_put_ordered_is_release : cls PutOrdered = CRelW.
Proof. exact put_ordered_is_release. Qed.
Print Assumptions C03_put_ordered_is_release.

Theorem C03_rmw_accessors : cls CompareAndSetI32 = CRmw /\ cls CompareAndSetI64 = CRmw /\ cls GetAndAddI64 = CRmw.
Proof. exact cas_faa_are_rmw. Qed.
Print Assumptions C03_rmw_accessors.

Theorem C03_plain_accessors :
  cls Get = CPlainR /\ cls GetBytes = CPlainR /\ cls RegionRead = CPlainR /\
  cls Put = CPlainW /\ cls PutBytes = CPlainW /\ cls CopyFrom = CPlainW /\ cls SetMemory = CPlainW /\ cls RegionWrite = CPlainW.
Proof. exact plain_accessors. Qed.
Print Assumptions C03_plain_accessors.

Theorem C03_exclusive_tail_accessors : cls ExclRawTail = CPlainR /\ cls ExclPutRawTailOrdered = CRelW.
Proof. exact exclusive_tail_accessors. Qed.
Print Assumptions C03_exclusive_tail_accessors.

Theorem C03_secondary_accessors_consistent :
  forallb (fun x => aclass_eqb (class_of_ops (inline ordering_table 3 (snd x))) (cls (snd (fst x)))) secondary_table = true.
Proof. exact secondary_consistent. Qed.
Print Assumptions C03_secondary_accessors_consistent.

Theorem C03_header_burst_skips_length :
  GenConsts.DFH_FRAME_LENGTH_FIELD_OFFSET + 4 <= burst_lo /\ burst_hi <= GenConsts.DFH_RESERVED_VALUE_FIELD_OFFSET.
Proof. exact header_burst_skips_length. Qed.
Print Assumptions C03_header_burst_skips_length.
