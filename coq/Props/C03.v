(* Property C03 - a subscriber never observes an uncommitted, torn or half-written frame.
   Statements only; proofs are in Proofs/. *)
Require Import V.Base.MachineInt.
Require Import V.Generated.GenConsts.
Require Import V.Generated.GenOrdering.
Require Import V.Model.LogBase.
Require Import V.Model.Descriptor.
Require Import V.Model.Sched.
Require Import V.Model.AppenderThreads.
Require Import V.Model.ReaderThreads.
Require Import V.Oracle.C03Oracle.
Require Import V.Proofs.OrderingProofs.
Require Import V.Proofs.TailArith.
Require Import V.Proofs.FragArith.
Require Import V.Proofs.AppenderInv.
Require Import V.Proofs.C02Quiescent.
Require Import V.Proofs.ReaderInv.
Require Import V.Proofs.C03Proofs.
Require Import V.Proofs.ReaderHb.
Require Import V.Model.ExclThreads.
Require Import V.Model.PollThreads.
Require Import V.Model.ClaimThreads.
Require Import V.Oracle.C03XOracle.
Require Import V.Proofs.RaceDisc.
Require Import V.Proofs.RaceFree.
Require Import V.Proofs.ExclDefs.
Require Import V.Proofs.ExclPub1.
Require Import V.Proofs.ExclRd2.
Require Import V.Proofs.ExclSys.
Require Import V.Proofs.ExclEv.
Require Import V.Proofs.ExclRace.
Require Import V.Proofs.ExclThm.
Require Import V.Proofs.ExclRun.
Require Import V.Proofs.ShCoupl.
Require Import V.Proofs.ShRace.
Open Scope Z_scope.

(* ---- the prefix part: every interleaving of a polling subscriber with ANY number of publishers, ANY of which may be
   stopped for ever at ANY program counter (a stopped thread is one the schedule never picks again; reach3 quantifies
   over all schedules), under the admissibility conditions of C02 plus the consumer side of the driver contract
   (C03Proofs.adm3: the partition ahead of the subscriber is its generation or still clean; no rotation into / zeroing
   of the generation a subscriber is in) ---- *)

Theorem C03_invariant : forall c, wf_cfg c -> forall s th gh, reach3 c s th gh -> Inv3 c s gh th.
Proof. exact reach3_inv. Qed.
Print Assumptions C03_invariant.

(* a frame whose length word the subscriber saw positive is a committed, completely written frame of some claim: length,
   header fields and payload are exactly what the claim's message dictates (efrags) - never uncommitted, torn or half-written *)
Theorem C03_never_torn : forall c, wf_cfg c -> forall s th gh t l,
  reach3 c s th gh -> th t = RRd l -> on_frame (r_pc l) = true ->
  let g := rd_gen c l in let sl := sh_mem s (g mod 3) (r_foff l) in
  s_len sl = r_flen l /\ 0 < r_flen l /\ wf_slot c (tid_of c g) (r_foff l) sl /\
  exists e, In e (g_claims gh g) /\ In (r_foff l, sl) (efrags c g e).
Proof. exact never_torn. Qed.
Print Assumptions C03_never_torn.

(* the fragment handed to the handler is that frame: its offset, its payload length, its flags and its payload bytes *)
Theorem C03_delivered_fragment : forall c, wf_cfg c -> forall s th gh t l s' l' e,
  reach3 c s th gh -> th t = RRd l -> r_pc l = RBody -> rstep c t s l = Some (s', l', e) ->
  let g := rd_gen c l in let sl := sh_mem s (g mod 3) (r_foff l) in
  r_frags l' = r_frags l ++ [(r_foff l, s_len sl - HDR, s_flags sl, pad_to (Z.to_nat (s_len sl - HDR)) (s_body sl))] /\
  exists e0, In e0 (g_claims gh g) /\ In (r_foff l, sl) (efrags c g e0).
Proof. exact delivered_fragment. Qed.
Print Assumptions C03_delivered_fragment.

(* the subscriber position never exceeds the start of the first cell that is not committed: every frame of its
   generation before it is a committed well-formed frame (cursor_ok: tiles from the base of the term to the position);
   the same holds for the cursor inside a poll (Inv3.i3_rd, gen_upto), so frames are consumed in stream order with
   nothing skipped: what was delivered is a prefix of the committed frames *)
Theorem C03_position_behind_commit : forall c, wf_cfg c -> forall s th gh,
  reach3 c s th gh -> cursor_ok c s gh (sh_subpos s).
Proof. exact position_behind_commit. Qed.
Print Assumptions C03_position_behind_commit.

(* committed cells never change (no publisher step writes a slot whose length word is positive) *)
Theorem C03_committed_never_change : forall c, wf_cfg c -> forall s gh P t l s' l' ev p o,
  AppInv c s gh P -> P t = Some l -> pstep c t s l = Some (s', l', ev) ->
  0 < s_len (sh_mem s p o) -> sh_mem s' p o = sh_mem s p o.
Proof. exact committed_never_change. Qed.
Print Assumptions C03_committed_never_change.

(* the executable run over a schedule with crash points stays inside reach3 *)
Theorem C03_run_reach : forall c, wf_cfg c -> forall stop sched r gh,
  rs3_ok c r gh -> adm_sched3 c stop sched r gh -> exists gh', rs3_ok c (run_sched (rtstep c) stop sched r) gh'.
Proof. intros c _. exact (run_sched_reach3 c). Qed.
Print Assumptions C03_run_reach.

(* ---- happens-before race freedom of the frame bytes, on the model with ghost time stamps (Proofs/ReaderHb.v): every step
   gets its index in the interleaving as its time; per frame slot: wlast / wwho = time and thread of the last write of the
   publisher's burst into the slot, lenlast = time of the last write to its length word, wrel / relwho = time and thread of
   the last release write of a positive length; per subscriber: racq = time of its last acquire read of a positive length.
   reach3h is reach3 (all interleavings, crash points) with these stamps, without driver-side zeroing of partitions. ---- *)

(* every plain read the subscriber makes of a frame (type, flags, payload) is happens-before-after every write that produced
   the frame:  last burst write --program order--> release write of +length (same thread: wwho = relwho, wlast < wrel)
   --reads-from--> the subscriber's acquire read (no write to the length word in between: lenlast = wrel; wrel < racq)
   --program order--> the read (racq <= now) *)
Theorem C03_hb_chain : forall c, wf_cfg c -> forall s th gh h t l,
  reach3h c s th gh h -> th t = RRd l -> on_frame (r_pc l) = true ->
  let p := rd_gen c l mod 3 in let o := r_foff l in
  (wlast h p o < wrel h p o)%nat /\ wwho h p o = relwho h p o /\ lenlast h p o = wrel h p o /\
  (wrel h p o < racq h t)%nat /\ (racq h t <= now h)%nat.
Proof. exact hb_chain. Qed.
Print Assumptions C03_hb_chain.

(* any two plain writes to a common byte come from one thread: two publishers are never inside the same frame slot ... *)
Theorem C03_single_writer : forall c, wf_cfg c -> forall s th gh h t1 t2 l1 l2 k1 k2 p o,
  reach3h c s th gh h -> th t1 = RApp (TPub l1) -> th t2 = RApp (TPub l2) -> t1 <> t2 ->
  pub_access l1 = (k1, p, o) -> pub_access l2 = (k2, p, o) -> k1 <> WNone -> k2 <> WNone -> False.
Proof. exact single_writer. Qed.
Print Assumptions C03_single_writer.

(* ... and no publisher writes into a frame the subscriber is reading: a plain read is never followed by a conflicting write *)
Theorem C03_no_write_under_reader : forall c, wf_cfg c -> forall s th gh h t l tw lw k p o,
  reach3h c s th gh h -> th t = RRd l -> on_frame (r_pc l) = true -> th tw = RApp (TPub lw) ->
  pub_access lw = (k, p, o) -> k <> WNone -> (p, o) <> (rd_gen c l mod 3, r_foff l).
Proof. exact no_write_under_reader. Qed.
Print Assumptions C03_no_write_under_reader.

(* ---- K1: the ordering class of the accessors, computed from the regenerated fence / atomic-operation table ---- *)
Theorem C03_get_volatile_is_acquire : cls GetVolatile = CAcqR.
Proof. exact get_volatile_is_acquire. Qed.
Print Assumptions C03_get_volatile_is_acquire.

Theorem C03_put_ordered_is_release : cls PutOrdered = CRelW.
Proof. exact put_ordered_is_release. Qed.
Print Assumptions C03_put_ordered_is_release.

Theorem C03_rmw_accessors : cls CompareAndSetI32 = CRmw /\ cls CompareAndSetI64 = CRmw /\ cls GetAndAddI64 = CRmw.
Proof. exact cas_faa_are_rmw. Qed.
Print Assumptions C03_rmw_accessors.

Theorem C03_plain_accessors :
  cls Get = CPlainR /\ cls GetBytes = CPlainR /\ cls RegionRead = CPlainR /\
  cls Put = CPlainW /\ cls PutBytes = CPlainW /\ cls CopyFrom = CPlainW /\ cls SetMemory = CPlainW /\ cls RegionWrite = CPlainW.
Proof. exact plain_accessors. Qed.
Print Assumptions C03_plain_accessors.

Theorem C03_exclusive_tail_accessors : cls ExclRawTail = CPlainR /\ cls ExclPutRawTailOrdered = CRelW.
Proof. exact exclusive_tail_accessors. Qed.
Print Assumptions C03_exclusive_tail_accessors.

Theorem C03_secondary_accessors_consistent :
  forallb (fun x => aclass_eqb (class_of_ops (inline ordering_table 3 (snd x))) (cls (snd (fst x)))) secondary_table = true.
Proof. exact secondary_consistent. Qed.
Print Assumptions C03_secondary_accessors_consistent.

Theorem C03_header_burst_skips_length :
  GenConsts.DFH_FRAME_LENGTH_FIELD_OFFSET + 4 <= burst_lo /\ burst_hi <= GenConsts.DFH_RESERVED_VALUE_FIELD_OFFSET.
Proof. exact header_burst_skips_length. Qed.
Print Assumptions C03_header_burst_skips_length.

Theorem C03_header_burst_not_empty : (burst_lo <? burst_hi) = true.
Proof. exact burst_nonempty. Qed.
Print Assumptions C03_header_burst_not_empty.

(* ---- soundness of the executable vector-clock race detector (Model/Sched.v: stamp / races / race_free) with respect to the
   frame protocol.  A trace follows the frame discipline (Proofs/RaceDisc.v: disc) when every access to a watched region is
     - the release write of a negative length word that opens a new frame, disjoint from every frame opened before,
     - a plain write of the frame's owner inside its not yet committed frame, off the length word,
     - the release write of the positive length word by the owner (commit),
     - an acquire read of a length word that is not strictly inside a frame, or
     - a plain read all of whose bytes lie in frames the reading thread has acquired committed.
   On every such trace the detector reports no race, whatever the other threads and regions do. ---- *)
Theorem C03_detector_sound : forall cls watch g tr, disc cls watch g tr -> race_free cls watch tr = true.
Proof. exact disc_race_free. Qed.
Print Assumptions C03_detector_sound.

(* ---- the detector on the model of the shared publishers: on the trace of EVERY run of the C03 system (any number of shared
   publishers, any of them stopped for ever at any access, the Image::poll subscriber, limit updates; reach3t = reach3 + the trace,
   without driver-side zeroing and within the generations n0 .. n0+2, i.e. no partition is used twice: ShCoupl.gens_ok) the
   executable vector-clock race detector reports no race on the bytes of the term partitions.  The proof shows that every trace
   follows the frame discipline (ShRace.reach3t_disc: from Inv3 - claims of a generation are pairwise disjoint frames, the committed
   prefix the subscriber has walked never ends inside a frame, a publisher only writes the frame it is inside, uncommitted), with
   the classes of the accessors taken from the regenerated K1 table (put_ordered release, get_volatile acquire, the rest plain) ---- *)
Theorem C03_race_free : forall c, wf_cfg c -> forall s th gh tr,
  reach3t c s th gh tr -> race_free cls term_region (map narrow tr) = true.
Proof. exact race_free_model. Qed.
Print Assumptions C03_race_free.

Theorem C03_run_race_free : forall c, wf_cfg c -> forall stop sched r gh,
  rs3t_ok c r gh -> adm_sched3t c stop sched r gh ->
  let '(s, th, g, tr) := run_sched (rtstep c) stop sched r in race_free cls term_region (map narrow (rev tr)) = true.
Proof. exact run_sched_race_free3. Qed.
Print Assumptions C03_run_race_free.

(* ---- the exclusive publisher and BufferClaim (Model/ExclThreads.v: ExclusivePublication::offer_opt / try_claim over
   ExclusiveTermAppender, the claimant's payload write, set_flags / set_header_type / set_reserved_value, commit, abort) against
   a subscriber polling with ANY of the six flavours - poll, bounded_poll, controlled_poll, bounded_controlled_poll, controlled_peek
   (+ set_position), block_poll (Model/PollThreads.v; the handler answers of the controlled flavours are arbitrary scripts) and environment threads moving the publication limit.
   reachx quantifies over all interleavings; a crashed thread is one that is never scheduled again. Admissible steps
   (ExclSys.admx): the publisher does not rotate into a partition that still holds an older generation and the subscriber does not
   start a poll there (the driver has not cleaned it): the runs covered stay within the generations n0 .. n0+2. ---- *)
Theorem C03_excl_invariant : forall c, wf_cfg c -> forall tp s th gh, reachx c tp s th gh -> XInv c tp s gh th.
Proof. exact reachx_inv. Qed.
Print Assumptions C03_excl_invariant.

(* a frame whose length word the subscriber saw positive is a committed frame: memory holds exactly the frame the publisher's
   item dictated at its commit (offer: header + the fragment's slice of the message; claim: header + payload + whatever the
   setters wrote; abort: the same with type PAD), with a well-formed header - never uncommitted, torn or half-written *)
Theorem C03_excl_never_torn : forall c, wf_cfg c -> forall tp s th gh t l,
  reachx c tp s th gh -> th t = XV l -> von_frame (v_pc l) = true ->
  exists sl, In (v_foff l, sl) (xg_fr gh (v_idx l)) /\ sh_mem s (v_idx l) (v_foff l) = sl /\ s_len sl = v_flen l /\ 0 < v_flen l /\
             xwf_slot c (tid_of c (pgen c (v_idx l))) (v_foff l) sl.
Proof. exact x_never_torn. Qed.
Print Assumptions C03_excl_never_torn.

(* the fragment handed to the handler is that committed frame - offset, payload length, flags, payload bytes - and it is a data
   frame: an aborted claim (committed as padding whatever its claimant wrote, C03_excl_aborted_is_padding) is never delivered *)
Theorem C03_excl_delivered_fragment : forall c, wf_cfg c -> forall tp s th gh t l s' l' e,
  reachx c tp s th gh -> th t = XV l -> v_pc l = VBody -> vstep c t s l = Some (s', l', e) ->
  exists sl, In (v_foff l, sl) (xg_fr gh (v_idx l)) /\ sh_mem s (v_idx l) (v_foff l) = sl /\ s_type sl <> T_PAD /\
    v_frags l' = v_frags l ++ [(v_foff l, s_len sl - HDR, s_flags sl, pad_to (Z.to_nat (s_len sl - HDR)) (s_body sl))].
Proof. exact x_delivered_fragment. Qed.
Print Assumptions C03_excl_delivered_fragment.

Theorem C03_excl_aborted_is_padding : forall c pl n, item_abort (x_item pl) = true -> s_type (set_len (cpre c pl) n) = T_PAD.
Proof. exact aborted_is_padding. Qed.
Print Assumptions C03_excl_aborted_is_padding.

(* the subscriber position is a frame boundary of the committed frames of its generation (with every flavour, also after a
   Commit / Abort answer of a controlled handler): it never passes a frame that is claimed but not committed *)
Theorem C03_excl_position_behind_commit : forall c, wf_cfg c -> forall tp s th gh,
  reachx c tp s th gh -> sub_ok c gh (sh_subpos s).
Proof. exact x_position_behind_commit. Qed.
Print Assumptions C03_excl_position_behind_commit.

(* committed frames never change *)
Theorem C03_excl_committed_never_change : forall c, wf_cfg c -> forall tp s th gh t s' x' e p o sl,
  reachx c tp s th gh -> admx c s th t -> xtstep c t s (th t) = Some (s', x', e) ->
  In (o, sl) (xg_fr gh p) -> In (o, sl) (xg_fr (xgstepx c (th t) gh) p) /\ sh_mem s' p o = sl.
Proof. exact x_committed_kept. Qed.
Print Assumptions C03_excl_committed_never_change.

(* happens-before race freedom, decided by the executable detector: on the trace of EVERY run of this system (all
   interleavings, crash points) the vector-clock detector - the very function the oracle runs on the implementation's traces,
   with the accessor classes computed from the regenerated K1 table - reports no race on the bytes of the term partitions *)
Theorem C03_race_free_excl : forall c, wf_cfg c -> forall tp s th gh tr,
  reachxt c tp s th gh tr -> race_free cls term_region (map narrow tr) = true.
Proof. exact x_race_free. Qed.
Print Assumptions C03_race_free_excl.

(* the executable run over a schedule with crash points stays inside reachxt, so its trace is race free *)
Theorem C03_excl_run_race_free : forall c, wf_cfg c -> forall tp stop sched r gh,
  rsx_ok c tp r gh -> adm_schedx c stop sched r gh ->
  let '(s, th, g, tr) := run_sched (xtstep c) stop sched r in race_free cls term_region (map narrow (rev tr)) = true.
Proof. exact run_sched_race_free. Qed.
Print Assumptions C03_excl_run_race_free.

(* ---- the hypotheses are satisfiable: a legal geometry, one publisher and one subscriber, and the decidable form of the
   property evaluated on a model run in which the subscriber polls while the publisher is inside its append ---- *)
Example C03_example_cfg : wf_cfg (mkCfg 5 10 64 11 22 0 960).
Proof. constructor; cbn; try (vm_compute; intuition congruence). Qed.

Example C03_example_run :
  let c := mkCfg 5 10 64 11 22 0 960 in
  let r := run_case3 c 100000 [rpub 3 [payload 1 40]; reader 6 10]
             [0;0;0;0;0;1;1;0;0;0;0;1;1;1;1;1;1;1;0;0;0;0;0;0;0;0;0;0;0;0;0;0;0;0;0;0;0;0;0;0]%nat [] in
  holds_C03 c [1] r = true /\ length (snd r) = 2%nat.
Proof. vm_compute. split; reflexivity. Qed.

Example C03_example_reach :
  let c := mkCfg 5 10 64 11 22 0 960 in
  let th := rthreads_of [rpub 3 [payload 1 40]; reader 3 10] in
  exists s th' gh h, reach3h c s th' gh h /\ (exists l, th' 1%nat = RRd l /\ r_pc l = RLen).
Proof. intros c th.
  assert (R0 : reach3h c (init_shared c 4096) th ghost0 stamps0).
  { apply reach3h_init.
    - intros t. destruct t as [|t]; [exists [payload 1 40], 3%nat; reflexivity|].
      destruct t as [|t]; [exists 3%nat, 10; reflexivity|]. unfold th, rthreads_of. cbn [nth]. destruct t; exact I.
    - intros t t' l l' H1 H2. destruct t as [|[|t]]; destruct t' as [|[|t']]; try reflexivity; try discriminate;
        unfold th, rthreads_of in *; cbn [nth] in *; try (destruct t; discriminate); try (destruct t'; discriminate). }
  pose proof (reach3h_step c _ th ghost0 stamps0 1%nat _ _ _ R0 I I eq_refl) as R1.
  eexists. eexists. eexists. eexists. split; [exact R1|]. eexists. split; reflexivity. Qed.

(* the exclusive system: the decidable form of the property (holds_C03x: delivered = committed data frames in order, aborted
   claims are padding and never delivered, position rule, race detector) on a model run in which an exclusive publisher offers a
   fragmented message, commits a claim with header setters and aborts a claim with an application header type, while the
   subscriber polls with four flavours (the theorems cover all six) *)
Example C03_example_excl_run :
  let c := mkCfg 5 10 64 11 22 0 0 in
  let r := run_casex c 2048
             [xpub c 6 [XOffer (payload 1 40); XClaim (payload 2 20) [SFlags 7; SType 258; SResv (-5)] false;
                        XClaim (payload 3 8) [SType 65535] true; XClaim (payload 4 0) [] false];
              xv 10 [FBCtrl 3072 [Reader.Continue; Reader.Commit]; FCtrl [Reader.Abort]; FBounded 3072; FPoll]]
             [0;0;0;0;0;0;0;1;1;1;1;1;0;0;0;0;0;0;0;0;0;0;1;1;1;1;1;1;1;1;1;1;1;1;0;0;0;0;0;0;0;0;0;0;0;0;0;0;0;0;0;0;0;0]%nat [] in
  holds_C03x c [1] [(0, [(40, false); (20, false); (8, true); (0, false)])] r = true /\ length (snd r) = 2%nat.
Proof. vm_compute. split; reflexivity. Qed.

Example C03_example_excl_reach :
  let c := mkCfg 5 10 64 11 22 0 960 in
  let th := xthreads_of [xpub c 3 [XOffer (payload 1 40)]; xv 10 [FCtrl [Reader.Commit]]] in
  exists s th' gh tr, reachxt c 0%nat s th' gh tr /\ length tr = 1%nat.
Proof. intros c th.
  assert (R0 : reachxt c 0%nat (init_shared c 4096) th (xg0 c) []).
  { apply (reachxt_init c 0%nat 4096 th [XOffer (payload 1 40)] 3%nat); [reflexivity | |].
    - intros t Hne. destruct t as [|[|t]]; [congruence | exists 10, [FCtrl [Reader.Commit]]; reflexivity|].
      unfold th, xthreads_of. cbn [nth]. destruct t; exact I.
    - intros t t' l l' H1 H2. destruct t as [|[|t]]; destruct t' as [|[|t']]; try reflexivity; try discriminate;
        unfold th, xthreads_of in *; cbn [nth] in *; try (destruct t; discriminate); try (destruct t'; discriminate). }
  pose proof (reachxt_step c 0%nat _ th _ [] 1%nat _ _ _ R0 ltac:(cbn; intros _; vm_compute; discriminate) eq_refl) as R1.
  eexists. eexists. eexists. eexists. split; [exact R1 | reflexivity]. Qed.

Example C03_example_reach_trace :
  let c := mkCfg 5 10 64 11 22 0 960 in
  let th := rthreads_of [rpub 3 [payload 1 40]; reader 3 10] in
  exists s th' gh tr, reach3t c s th' gh tr /\ length tr = 1%nat.
Proof. intros c th.
  assert (R0 : reach3t c (init_shared c 4096) th ghost0 []).
  { apply reach3t_init.
    - intros t. destruct t as [|t]; [exists [payload 1 40], 3%nat; reflexivity|].
      destruct t as [|t]; [exists 3%nat, 10; reflexivity|]. unfold th, rthreads_of. cbn [nth]. destruct t; exact I.
    - intros t t' l l' H1 H2. destruct t as [|[|t]]; destruct t' as [|[|t']]; try reflexivity; try discriminate;
        unfold th, rthreads_of in *; cbn [nth] in *; try (destruct t; discriminate); try (destruct t'; discriminate). }
  assert (G0 : gens_ok c (init_shared c 4096)) by (intros p Hp; assert (p = 0 \/ p = 1 \/ p = 2) as [-> | [-> | ->]] by lia; vm_compute; discriminate).
  pose proof (reach3t_step c _ th ghost0 [] 1%nat _ _ _ R0 I I G0 eq_refl) as R1.
  eexists. eexists. eexists. eexists. split; [exact R1 | reflexivity]. Qed.
