(* Property C15, K1 source tie.  Statements only; proofs are in Proofs/GenSrcCountersProofs.v.
   `src_cnt_*` (Generated/GenSrcCounters.v) are the Gallina reading of the offset arithmetic, the capacity checks,
   the id validation and the cool-down test of src/concurrent/counters.rs as they are in the repository under check
   today (tools/props/src_translate.py, regenerated on every run), each equated with the definition Model/Counters.v
   uses at that place (the model's cres describes the Debug build: an i32 overflow is a panic). *)
Require Import V.Base.MachineInt V.Base.MachineInt2 V.Base.MachineIntT V.Generated.GenConsts
               V.Model.Counters V.Generated.GenSrcCounters V.Proofs.GenSrcCountersProofs.
From Coq Require Import String.
Open Scope Z_scope.

Theorem C15_src_offsets : forall id,
  src_cnt_counter_offset Debug id = out_of (counter_offset id) /\
  src_cnt_metadata_offset Debug id = out_of (metadata_offset id).
Proof. intros. exact (conj (src_cnt_counter_offset_eq id) (src_cnt_metadata_offset_eq id)). Qed.
Print Assumptions C15_src_offsets.

Theorem C15_src_offsets_fit : forall m id, in_i32 (id * ML) = true ->
  src_cnt_counter_offset m id = Ok (id * CL) /\ src_cnt_metadata_offset m id = Ok (id * ML).
Proof. exact src_cnt_offsets_fit. Qed.
Print Assumptions C15_src_offsets_fit.

(* the reader refuses exactly the ids the model's validate refuses (>= against the slot count of both buffers) *)
Theorem C15_src_validate : forall m s id,
  src_cnt_validate_counter_id m (max_counter_id s) id = Ok (res_of_validate id (max_counter_id s) (validate s id)).
Proof. exact src_cnt_validate_counter_id_eq. Qed.
Print Assumptions C15_src_validate.

Theorem C15_src_max_counter_id : forall m s, 0 <= nm s -> 0 <= nv s ->
  src_cnt_max_counter_id m (vcap s) (mcap s) = Ok (max_counter_id s).
Proof. exact src_cnt_max_counter_id_eq. Qed.
Print Assumptions C15_src_max_counter_id.

(* allocation fails with an error, not by writing outside the buffers: the two capacity checks *)
Theorem C15_src_capacity_checks : forall s id off,
  src_cnt_check_counters_capacity Debug (vcap s) id =
    res_of_check "IllegalArgumentError::UnableAllocateCounterBecauseValueBufferFull" (check_counters_capacity s id) /\
  src_cnt_check_meta_data_capacity Debug (mcap s) off =
    res_of_check "IllegalArgumentError::UnableAllocateCounterBecauseMetadataBufferFull" (check_meta_data_capacity s off).
Proof. intros. exact (conj (src_cnt_check_counters_capacity_eq s id) (src_cnt_check_meta_data_capacity_eq s off)). Qed.
Print Assumptions C15_src_capacity_checks.

Theorem C15_src_argument_checks : forall m n,
  src_cnt_label_too_long m n = Ok (n >? MAXLAB) /\ src_cnt_key_too_long m n = Ok (n >? MAXKEY).
Proof. intros. exact (conj (src_cnt_label_too_long_eq m n) (src_cnt_key_too_long_eq m n)). Qed.
Print Assumptions C15_src_argument_checks.

(* free stamps clock() + timeout (u64) at the deadline field; a freed id is reusable once now >= deadline (as i64) *)
Theorem C15_src_cool_down : forall m s off nowv deadline,
  src_cnt_free_deadline m (timeout s) (now s) = addu64 m (now s) (timeout s) /\
  src_cnt_free_deadline_offset m off = add32 m off OFF_DEADLINE /\
  src_cnt_reusable m (wrap64 deadline) nowv = Ok (wrap64 deadline <=? wrap64 nowv).
Proof. intros. exact (conj (src_cnt_free_deadline_eq m s) (conj (src_cnt_free_deadline_offset_eq m off) (src_cnt_reusable_eq m nowv deadline))). Qed.
Print Assumptions C15_src_cool_down.

Example C15_src_example :
  src_cnt_metadata_offset Release 3 = Ok 1536 /\ src_cnt_counter_offset Release 3 = Ok 384 /\
  src_cnt_max_counter_id Debug 512 2048 = Ok 4 /\
  src_cnt_validate_counter_id Debug 4 4 = Ok (RErr "IllegalArgumentError::CounterIdOutOfRange" [4; 4]) /\
  src_cnt_validate_counter_id Debug 4 3 = Ok (ROk 0).
Proof. repeat split. Qed.
