(* Property C11 - liveness timing: heartbeat, driver-death and service timeouts fire on time.
   Statements only; proofs are in Proofs/CondTimersProofs.v.
   Domain: every clock reading, driver heartbeat and timeout below 2^62 (cfg_ok / op_ok / dom_ok);
   histories are arbitrary lists of duty cycles (each with its own clock reading, driver heartbeat,
   counters table and optional ON_ERROR event), add_* and find_* calls.  Nothing below needs the
   clock to be monotone, so in particular everything holds for all non-decreasing clock sequences. *)
Require Import V.Base.MachineInt V.Generated.GenConsts V.Model.CondTimers V.Oracle.C11Oracle
               V.Proofs.CondTimersProofs.
Open Scope Z_scope.

(* in-domain histories never panic and every operation answers *)
Theorem C11_total : forall m c ops s, wf s -> cfg_ok c = true -> forallb op_ok ops = true ->
  ~ In OPanic (run m c s ops) /\ length (run m c s ops) = length ops.
Proof. exact run_no_panic. Qed.
Print Assumptions C11_total.

(* No false death: an operation at which the driver's heartbeat is younger than the driver timeout (or the
   driver has not started: negative heartbeat) never clears driver_active ... *)
Theorem C11_no_false_death : forall m c s o s' ob,
  wf s -> cfg_ok c = true -> op_ok o = true -> hb_young c o ->
  step m c s o = Some (s', ob) -> active s' = active s.
Proof. exact no_false_death_step. Qed.
Print Assumptions C11_no_false_death.

(* ... so over a whole history of such operations the driver is still considered alive *)
Theorem C11_no_false_death_history : forall m c t0 ops,
  dom_ok c t0 ops = true -> Forall (hb_young c) ops ->
  exists s, exec m c (init c t0) ops = Some s /\ active s = true.
Proof. exact no_false_death_run. Qed.
Print Assumptions C11_no_false_death_history.

(* Death: the error handler is told "driver inactive" at a duty cycle exactly when the keep-alive interval has
   elapsed and the heartbeat is older than the driver timeout; driver_active is cleared at that cycle and only so *)
Theorem C11_death : forall m c s now hb ctrs ev s' r log act cl vs,
  wf s -> cfg_ok c = true -> op_ok (Cycle now hb ctrs ev) = true ->
  do_cycle m c s now hb ctrs ev = Some (s', OCycle r log act cl vs) ->
  (In L_DRIVER_INACTIVE log <-> (0 <= hb /\ now > hb + c_td c /\ now > t_keep s + KEEPALIVE_TIMEOUT_MS)) /\
  (active s' = active s && negb (has L_DRIVER_INACTIVE log)) /\ act = b2z (active s').
Proof. exact death_step. Qed.
Print Assumptions C11_death.

(* once dead, dead for ever, and every add_* is refused *)
Theorem C11_dead_refuses : forall m c ops s s',
  wf s -> cfg_ok c = true -> forallb op_ok ops = true -> active s = false ->
  exec m c s ops = Some s' -> active s' = false /\ forall k now, do_add s' k now = (s', Err DriverInactive).
Proof. exact dead_forever. Qed.
Print Assumptions C11_dead_refuses.

(* Detection latency: if every duty cycle later than h + T_d sees the driver heartbeat stuck at h, a client that
   still considers the driver alive after a duty cycle at `now` has now <= max(h + T_d, last keep-alive of the
   start state) + 500; hence with duty cycles at most delta apart the driver is declared dead before
   h + T_d + 500 + delta *)
Theorem C11_death_latency : forall m c h ops now hb ctrs ev s0 s,
  0 <= h -> wf s0 -> cfg_ok c = true -> forallb op_ok (ops ++ [Cycle now hb ctrs ev]) = true ->
  Forall (silent c h) (ops ++ [Cycle now hb ctrs ev]) ->
  exec m c s0 (ops ++ [Cycle now hb ctrs ev]) = Some s -> active s = true ->
  now <= Z.max (h + c_td c) (t_keep s0) + KEEPALIVE_TIMEOUT_MS.
Proof. exact death_latency. Qed.
Print Assumptions C11_death_latency.

(* Heartbeat: the client's heartbeat counter is written exactly at the duty cycles with now > last keep-alive + 500,
   with `now`, into the counter the client holds if it is still active, else into the first active matching one;
   no other cycle writes a counter; after every cycle now <= last keep-alive + 500 *)
Theorem C11_heartbeat : forall m c s now hb ctrs ev s' ob,
  wf s -> cfg_ok c = true -> op_ok (Cycle now hb ctrs ev) = true ->
  do_cycle m c s now hb ctrs ev = Some (s', ob) ->
  t_work s' = now /\ now <= t_keep s' + KEEPALIVE_TIMEOUT_MS /\
  (now > t_keep s + KEEPALIVE_TIMEOUT_MS ->
     t_keep s' = now /\
     match fate_s c s ctrs with
     | Refresh id => hbc s' = Some id /\ vals s' = upd (vals s) (Z.to_nat id) now
     | _ => hbc s' = hbc s /\ vals s' = vals s
     end) /\
  (now <= t_keep s + KEEPALIVE_TIMEOUT_MS -> t_keep s' = t_keep s /\ hbc s' = hbc s /\ vals s' = vals s).
Proof. exact heartbeat_step. Qed.
Print Assumptions C11_heartbeat.

(* ... so while the counter stays allocated at id0 its value is the time of the last keep-alive, which is never
   more than 500 ms behind the last duty cycle: seen at the next cycle it is at most 500 + spacing old *)
Theorem C11_heartbeat_age : forall m c t0 id0 ops s,
  dom_ok c t0 ops = true -> 0 <= id0 < 4 -> Forall (stable c (Some id0)) ops ->
  exec m c (init c t0) ops = Some s ->
  t_work s <= t_keep s + KEEPALIVE_TIMEOUT_MS /\
  (hbc s = None \/ (hbc s = Some id0 /\ nth (Z.to_nat id0) (vals s) 0 = t_keep s)).
Proof. exact heartbeat_age. Qed.
Print Assumptions C11_heartbeat_age.

(* Inter-service timeout: the error handler is told "timeout between service calls" exactly at a cycle whose gap to
   the previous one exceeds the timeout; that cycle closes the client (and, if it was still open, runs the close
   handler: close_all_resources runs once); a client only ever becomes closed by such a gap or by losing its
   heartbeat counter; the close handler runs only at a cycle that turns an open client into a closed one *)
Theorem C11_interservice : forall m c s now hb ctrs ev s' r log act cl vs,
  wf s -> cfg_ok c = true -> op_ok (Cycle now hb ctrs ev) = true ->
  do_cycle m c s now hb ctrs ev = Some (s', OCycle r log act cl vs) ->
  (In L_SERVICE_TIMEOUT log <-> now > t_work s + inter_ms c) /\
  (now > t_work s + inter_ms c -> closed s' = true /\ (closed s = false -> In L_CLOSE log)) /\
  (closed s' = true -> closed s = true \/ now > t_work s + inter_ms c \/ In L_HEARTBEAT_LOST log) /\
  (In L_HEARTBEAT_LOST log <-> now > t_keep s + KEEPALIVE_TIMEOUT_MS /\ fate_s c s ctrs = Lost) /\
  cl = b2z (closed s') /\ (closed s = true -> closed s' = true) /\ (In L_CLOSE log -> closed s = false /\ closed s' = true).
Proof. exact interservice_step. Qed.
Print Assumptions C11_interservice.

(* ... so a history whose duty-cycle gaps never exceed the timeout and whose heartbeat counter does not move
   (absent throughout, or first match at one id throughout) never closes the client *)
Theorem C11_never_closed : forall m c oid ops s s',
  wf s -> cfg_ok c = true -> forallb op_ok ops = true -> Forall (stable c oid) ops ->
  gaps_ok c (t_work s) ops -> open_inv oid s -> exec m c s ops = Some s' -> open_inv oid s'.
Proof. exact never_closed. Qed.
Print Assumptions C11_never_closed.

(* Registration: find_* answers "no response from driver" iff the client is open and the registration is still
   awaiting its answer later than registration time + driver timeout *)
Theorem C11_registration : forall m c s k id now s' r,
  wf s -> cfg_ok c = true -> do_find m c s k id now = Some (s', r) ->
  (r = Err NoResponse <->
   closed s = false /\ exists q, find (reg_is k id) (regs s) = Some q /\ r_status q = Awaiting /\ now > r_time q + c_td c).
Proof. exact find_no_response. Qed.
Print Assumptions C11_registration.

Theorem C11_registration_roundtrip : forall m c s k t id s1 now s2 r,
  wf s -> cfg_ok c = true -> 0 <= t < LIM ->
  do_add s k t = (s1, Ok id) -> do_find m c s1 k id now = Some (s2, r) ->
  (r = Err NoResponse <-> now > t + c_td c) /\
  (now <= t + c_td c -> r = if is_dest k then Ok 0 else Err NotReady).
Proof. exact registration_roundtrip. Qed.
Print Assumptions C11_registration_roundtrip.

(* reachable states are well-formed, so the per-step theorems above apply at every step of every history *)
Theorem C11_reachable_wf : forall m c t0 ops s,
  dom_ok c t0 ops = true -> exec m c (init c t0) ops = Some s -> wf s.
Proof.
  intros m c t0 ops s Hd He. unfold dom_ok in Hd. rewrite !andb_true_iff in Hd. destruct Hd as [[Hc Ht] Ho].
  eapply exec_wf; eauto. apply init_wf. apply in_lim_iff. assumption.
Qed.
Print Assumptions C11_reachable_wf.

(* the oracle (monitor) accepts the model's own observations on every history, in both build modes *)
Theorem C11_oracle_run : forall m c t0 ops, holds_run c t0 ops (run m c (init c t0) ops) = true.
Proof. exact oracle_run_model. Qed.
Print Assumptions C11_oracle_run.

(* ---- the hypotheses are satisfiable / the conclusions are not vacuous ---- *)
Definition ex_cfg : cfg := mkCfg 10000 5000 5000000000 7.
Definition ex_tab : list ctr := [(0, 0, 0); (1, 11, 7); (0, 0, 0); (0, 0, 0)].

(* a driver silent since 1000000 (T_d = 10000): a keep-alive at exactly hb + T_d keeps it alive and add_* works;
   a keep-alive one millisecond later declares it dead, tells the error handler (2), and add_* is refused *)
Definition ex_cfg2 : cfg := mkCfg 10000 5000 1000000000000 7.
Example C11_ex_death :
  dom_ok ex_cfg2 1000000 [Cycle 1009499 1000000 ex_tab None; Cycle 1010000 1000000 ex_tab None; Add KPub 1010000] = true /\
  run Debug ex_cfg2 (init ex_cfg2 1000000)
      [Cycle 1009499 1000000 ex_tab None; Cycle 1010000 1000000 ex_tab None; Add KPub 1010000]
  = [OCycle (Ok 1) [] 1 0 [0; 1009499; 0; 0]; OCycle (Ok 1) [] 1 0 [0; 1010000; 0; 0]; OApi (Ok 8)] /\
  run Debug ex_cfg2 (init ex_cfg2 1000000)
      [Cycle 1009499 1000000 ex_tab None; Cycle 1010001 1000000 ex_tab None; Add KPub 1010001]
  = [OCycle (Ok 1) [] 1 0 [0; 1009499; 0; 0]; OCycle (Ok 1) [2] 0 0 [0; 1010001; 0; 0]; OApi (Err DriverInactive)] /\
  (* expired but the keep-alive interval has not elapsed: not yet *)
  run Debug ex_cfg2 (init ex_cfg2 1000000)
      [Cycle 1009501 1000000 ex_tab None; Cycle 1010001 1000000 ex_tab None; Cycle 1010002 1000000 ex_tab None]
  = [OCycle (Ok 1) [] 1 0 [0; 1009501; 0; 0]; OCycle (Ok 0) [] 1 0 [0; 1009501; 0; 0]; OCycle (Ok 1) [2] 0 0 [0; 1010002; 0; 0]].
Proof. repeat split; vm_compute; reflexivity. Qed.

(* gap of exactly the inter-service timeout: still open; one more: closed at that cycle *)
Example C11_ex_interservice :
  run Release ex_cfg (init ex_cfg 1000) [Cycle 6000 6000 [] None; Find KPub 1 6000]
    = [OCycle (Ok 1) [] 1 0 [0; 0; 0; 0]; OApi (Err NotFound)] /\
  run Release ex_cfg (init ex_cfg 1000) [Cycle 6001 6001 [] None; Find KPub 1 6001]
    = [OCycle (Ok 1) [0; 1] 1 1 [0; 0; 0; 0]; OApi (Err Closed)] /\
  gaps_ok ex_cfg 1000 [Cycle 6000 6000 [] None; Find KPub 1 6000] /\ open_inv None (init ex_cfg 1000) /\
  Forall (stable ex_cfg None) [Cycle 6000 6000 [] None; Find KPub 1 6000].
Proof.
  split; [vm_compute; reflexivity|]. split; [vm_compute; reflexivity|].
  split; [split; [vm_compute; discriminate|exact I]|]. split; [split; [reflexivity|left; reflexivity]|].
  repeat constructor.
Qed.

(* registration timeout at exactly t + T_d: not yet; one later: NoResponse *)
Example C11_ex_registration :
  run Debug ex_cfg (init ex_cfg 500) [Add KSub 500; Find KSub 8 10500; Find KSub 8 10501; Add KDest 500; Find KDest 9 10500; Find KDest 9 10501]
    = [OApi (Ok 8); OApi (Err NotReady); OApi (Err NoResponse); OApi (Ok 9); OApi (Ok 0); OApi (Err NoResponse)] /\
  wf (init ex_cfg 500) /\ cfg_ok ex_cfg = true.
Proof. split; [vm_compute; reflexivity|]. split; [apply init_wf; unfold LIM; lia|reflexivity]. Qed.

(* heartbeat counter: stable at slot 1, silent driver hypothesis, young-heartbeat hypothesis all satisfiable *)
Example C11_ex_hypotheses :
  Forall (stable ex_cfg (Some 1)) [Cycle 1000501 1000000 ex_tab None; Add KPub 1000501] /\
  Forall (silent ex_cfg 1000000) [Cycle 1000501 1000000 ex_tab None; Cycle 1010001 1000000 ex_tab None] /\
  Forall (hb_young ex_cfg) [Cycle 1000501 1000000 ex_tab None; Cycle 1010000 1000000 ex_tab None; Cycle 5 (-1) [] None] /\
  fate_s ex_cfg (init ex_cfg 1000000) ex_tab = Refresh 1 /\
  mon_run ex_cfg (mon_init ex_cfg 1000000) [Cycle 1010501 1000000 ex_tab None]
          [OCycle (Ok 1) [] 1 0 [0; 1010501; 0; 0]] = false.
Proof.
  split; [repeat constructor|]. split; [repeat constructor; cbn; intros; reflexivity|].
  split; [repeat constructor; cbn; lia|]. split; vm_compute; reflexivity.
Qed.
