(* Property C08, K1 source tie.  Statements only; proofs are in Proofs/GenSrcBroadcastProofs.v.
   `src_bc_*` (Generated/GenSrcBroadcast.v) are the Gallina reading of the bodies / named sub-expressions of
   broadcast_buffer_descriptor.rs, broadcast/record_descriptor.rs, broadcast_transmitter.rs and broadcast_receiver.rs
   as they are in the repository under check today (tools/props/src_translate.py, regenerated on every run).
   Each theorem says that the arithmetic or decision Model/Broadcast.v performs at that point is the one the source
   performs: a changed operator, constant, cast, comparison or operand in the source breaks it. *)
Require Import V.Model.Broadcast.
Require Import V.Base.MachineInt V.Base.MachineInt2 V.Base.MachineIntT V.Generated.GenConsts
               V.Generated.GenSrcBits V.Generated.GenSrcBroadcast V.Proofs.GenSrcBroadcastProofs.
From Coq Require Import String.
Open Scope Z_scope.

(* receive_next written with the translated pieces only (the buffer reads stay the model's) is the model's receive_next
   with 64-bit validation: availability test, lap test, record offset, the two next-record sums, the padding test *)
Theorem C08_src_receive_next : forall m cap mm r, receive_next_src m cap mm r = receive_next m W64 cap mm r.
Proof. exact receive_next_src_eq. Qed.
Print Assumptions C08_src_receive_next.

(* ... and receive_next as it is in the repository since fix a146cb8 (read the header words, validate a second time, then use
   them; the fragments above are read from THAT text): assembled with the second do_validate it is the model's version W64R,
   the one the check runs and C08_interleaved_repaired / C08_seqlock are about *)
Theorem C08_src_receive_next_revalidated : forall m cap mm r, receive_next_srcR m cap mm r = receive_next m W64R cap mm r.
Proof. exact receive_next_srcR_eq. Qed.
Print Assumptions C08_src_receive_next_revalidated.

(* do_validate compares stream positions in 64 bits (W64, the repaired code) *)
Theorem C08_src_do_validate : forall m cap mm c,
  src_bc_rx_do_validate m cap (get64 mm (intent_idx cap)) c = do_validate m W64 cap mm c.
Proof. exact src_bc_rx_do_validate_eq. Qed.
Print Assumptions C08_src_do_validate.

(* what receive hands out: message offset and message length of the current record *)
Theorem C08_src_record_view : forall m ro w,
  src_bc_rx_offset m ro = add32 m ro HL /\ src_bc_rx_length m w = sub32 m w HL.
Proof. intros. exact (conj (src_bc_rx_offset_eq m ro) (src_bc_rx_length_eq m w)). Qed.
Print Assumptions C08_src_record_view.

(* the arithmetic prefix of transmit *)
Theorem C08_src_transmit_plan : forall m cap tail len, tx_plan m cap tail len = tx_plan_model m cap tail len.
Proof. exact tx_plan_eq. Qed.
Print Assumptions C08_src_transmit_plan.

(* ... and the three tail values it publishes *)
Theorem C08_src_transmit_tails : forall m nt te tail al,
  src_bc_tx_intent_wrapped m nt te = add64 m nt te /\
  src_bc_tx_tail_after_padding m tail te = add64 m tail te /\
  src_bc_tx_final_tail m tail al = add64 m tail al.
Proof. intros. exact (conj (src_bc_tx_intent_wrapped_eq m nt te) (conj (src_bc_tx_tail_after_padding_eq m tail te) (src_bc_tx_final_tail_eq m tail al))). Qed.
Print Assumptions C08_src_transmit_tails.

(* the two guards of transmit *)
Theorem C08_src_transmit_guards : forall m t maxl len,
  src_bc_check_msg_type_id m t =
    Ok (if t <? 1 then MachineIntT.RErr "BroadcastTransmitError::MessageIdShouldBeGreaterThenZero" [t] else ROk 0) /\
  src_bc_check_message_length m maxl len =
    Ok (if len >? maxl then MachineIntT.RErr "BroadcastTransmitError::EncodedMessageExceedsMaxMsgLength" [len; maxl] else ROk 0).
Proof. intros. exact (conj (src_bc_check_msg_type_id_eq m t) (src_bc_check_message_length_eq m maxl len)). Qed.
Print Assumptions C08_src_transmit_guards.

Theorem C08_src_offsets : forall m o,
  src_bc_length_offset m o = add32 m o 0 /\ src_bc_type_offset m o = add32 m o 4 /\ src_bc_msg_offset m o = add32 m o HL.
Proof. exact src_bc_offsets_eq. Qed.
Print Assumptions C08_src_offsets.

(* the capacity test of both constructors: refused unless is_power_of_two says yes *)
Theorem C08_src_check_capacity : forall m cap b, GenSrcBits.src_is_power_of_two m cap = Ok b ->
  src_bc_check_capacity m cap = Ok (if b then ROk 0 else MachineIntT.RErr "BroadcastTransmitError::NotPowerOfTwo" [cap]).
Proof. exact src_bc_check_capacity_eq. Qed.
Print Assumptions C08_src_check_capacity.

Theorem C08_src_max_message_length : forall m cap, 0 <= cap ->
  src_bc_calculate_max_message_length m cap = Ok (max_msg cap).
Proof. exact src_bc_calculate_max_message_length_eq. Qed.
Print Assumptions C08_src_max_message_length.

(* BroadcastTransmitter::new over a buffer of 2^k + TRAILER_LENGTH bytes puts the three counters where the model has them *)
Theorem C08_src_transmitter_new : forall m cap, (exists k, 3 <= k <= 30 /\ cap = 2 ^ k) ->
  (forall b, GenSrcBits.src_is_power_of_two m cap = Ok b -> b = true) ->
  src_bc_tx_new m (buf_len cap) =
  Ok (RStruct [("capacity", cap); ("latest_counter_index", latest_idx cap); ("mask", cap - 1); ("max_msg_length", max_msg cap);
               ("tail_counter_index", tail_idx cap); ("tail_intent_counter_index", intent_idx cap)]%string).
Proof. exact src_bc_tx_new_spec. Qed.
Print Assumptions C08_src_transmitter_new.

Example C08_src_example :
  src_bc_tx_new Debug (buf_len 1024) =
  Ok (RStruct [("capacity", 1024); ("latest_counter_index", 1040); ("mask", 1023); ("max_msg_length", 128);
               ("tail_counter_index", 1032); ("tail_intent_counter_index", 1024)]%string) /\
  src_bc_rx_do_validate Release 1024 2048 1025 = Ok true /\ src_bc_rx_do_validate Release 1024 2048 1024 = Ok false.
Proof. repeat split. Qed.
