Require Import V.Base.MachineInt V.Model.Ring V.Spec.Fifo V.Oracle.C06Oracle.
Open Scope Z_scope.
Theorem C06_placeholder : True. Proof. exact I. Qed.
Print Assumptions C06_placeholder.
