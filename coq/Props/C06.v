(* Property C06 - command ring: each written command is read exactly once, intact, in order.
   Statements only; proofs are in Proofs/RingSeq.v, RingRender.v, RingSeqRun.v, C06OracleProofs.v
   (sequential part) and Proofs/RingConc*.v (interleavings). *)
Require Import V.Base.MachineInt.
Require Import V.Generated.GenConsts.
Require Import V.Model.LogBase.
Require Import V.Model.Ring.
Require Import V.Spec.Fifo.
Require Import V.Oracle.C06Oracle.
Require Import V.Proofs.RingArith.
Require Import V.Proofs.RingSeq.
Require Import V.Proofs.RingRender.
Require Import V.Proofs.RingSeqRun.
Require Import V.Proofs.C06OracleProofs.
Require Import V.Model.RingThreads.
Require Import V.Proofs.RingConc.
Require Import V.Proofs.RingConcThm.
Require Import V.Proofs.RingLog.
Require Import V.Proofs.RingRefusal.
Require Import V.Proofs.RingTrace.
Require Import V.Proofs.RingClaims.
Require Import V.Proofs.C06ConcOracle.
Open Scope Z_scope.

(* ---------------------------------------------------------------------------------------------
   Sequential part: any capacity 2^k (3 <= k <= 30), any start position, any operation list. *)

(* write: the four outcomes, and what an accepted write appends *)
Theorem C06_write : forall m st typ body,
  wf st -> r_tail st < two62 -> (typ < 1 \/ valid_cmd typ = true) ->
  exists st' r, write m st typ body = (st', r) /\ wf st' /\
    r_cap st' = r_cap st /\ r_head st' = r_head st /\ r_corr st' = r_corr st /\ r_hb st' = r_hb st /\
    let n := Z.of_nat (length body) in
    let cp := r_cap st in
    ( (typ < 1 /\ r = Err IllegalArg /\ st' = st) \/
      (1 <= typ /\ n > cp / 8 /\ r = Err TooLong /\ st' = st) \/
      (1 <= typ /\ n <= cp / 8 /\ no_room cp (r_head st) (r_tail st) n = true /\ r = Err InsufficientCapacity /\
         r_tail st' = r_tail st /\ r_slots st' = r_slots st) \/
      (1 <= typ /\ n <= cp / 8 /\ no_room cp (r_head st) (r_tail st) n = false /\ r = Ok 0 /\
         r_tail st' = r_tail st + rec_bytes n + wrap_pad cp (r_tail st) n /\
         r_slots st' = r_slots st ++ pad_slots (r_tail st) (wrap_pad cp (r_tail st) n) 0 (-1) ++
                       [mkSlot (r_tail st + wrap_pad cp (r_tail st) n) (rec_bytes n) (n + 8) typ body 0 0]) ).
Proof. exact write_spec. Qed.
Print Assumptions C06_write.

(* a write is refused for space iff unconsumed bytes + record + wrap padding exceed the capacity *)
Theorem C06_capacity : forall m st typ body,
  wf st -> r_tail st < two62 -> valid_cmd typ = true -> Z.of_nat (length body) <= r_cap st / 8 ->
  (snd (write m st typ body) = Err InsufficientCapacity <->
   (r_tail st - r_head st) + rec_bytes (Z.of_nat (length body))
     + wrap_pad (r_cap st) (r_tail st) (Z.of_nat (length body)) > r_cap st) /\
  (snd (write m st typ body) = Ok 0 <->
   (r_tail st - r_head st) + rec_bytes (Z.of_nat (length body))
     + wrap_pad (r_cap st) (r_tail st) (Z.of_nat (length body)) <= r_cap st).
Proof. exact capacity_iff. Qed.
Print Assumptions C06_capacity.

(* read: hands out a prefix of the queue (count = length <= limit), leaves the rest, never passes
   the tail, makes progress whenever the ring is not empty *)
Theorem C06_read : forall m st limit,
  wf st -> r_tail st < two62 ->
  exists st' n l, read m st limit = (st', Ok (n, l)) /\ wf st' /\
    r_cap st' = r_cap st /\ r_tail st' = r_tail st /\ r_hc st' = r_hc st /\ r_corr st' = r_corr st /\ r_hb st' = r_hb st /\
    n = Z.of_nat (length l) /\ n <= Z.max 0 limit /\
    abs st = l ++ abs st' /\
    r_head st <= r_head st' <= r_tail st /\
    (1 <= limit -> r_head st <> r_tail st -> r_head st < r_head st') /\
    (exists used, r_slots st = used ++ r_slots st' /\
        Forall (fun s => r_head st <= s_pos s /\ s_pos s + s_span s <= r_head st') used).
Proof. exact read_spec. Qed.
Print Assumptions C06_read.

(* refinement to the FIFO: following the model's outputs, the specification interpreter never
   rejects and ends holding exactly the abstraction of the model's final state *)
Theorem C06_fifo : forall m cp p0 hc0 c0 ops, seq_domain cp p0 hc0 c0 ops ->
  exists s', check_to cp (mkOst [] p0 p0 []) ops (snd (run m (init cp p0 hc0 c0) ops)) = Some s' /\
    o_q s' = abs (fst (run m (init cp p0 hc0 c0) ops)) /\
    o_h s' = r_head (fst (run m (init cp p0 hc0 c0) ops)) /\
    o_t s' = r_tail (fst (run m (init cp p0 hc0 c0) ops)).
Proof. exact fifo_refinement. Qed.
Print Assumptions C06_fifo.

(* head cache <= head <= tail <= head + capacity, after every run (hence after every prefix) *)
Theorem C06_order : forall m cp p0 hc0 c0 ops, seq_domain cp p0 hc0 c0 ops ->
  let st := fst (run m (init cp p0 hc0 c0) ops) in
  r_hc st <= r_head st /\ r_head st <= r_tail st /\ r_tail st <= r_head st + r_cap st.
Proof. exact order_invariant. Qed.
Print Assumptions C06_order.

(* the space a read consumed renders to zero *)
Theorem C06_zero : forall m st limit, wf st -> r_tail st < two62 ->
  let st' := fst (read m st limit) in
  forall q, r_head st <= q < r_head st' -> word_at (render st') (q mod r_cap st) = 0.
Proof. exact read_zero. Qed.
Print Assumptions C06_zero.

(* correlation ids handed out in a run are pairwise distinct *)
Theorem C06_ids : forall m cp p0 hc0 c0 ops, seq_domain cp p0 hc0 c0 ops ->
  NoDup (ids_of (snd (run m (init cp p0 hc0 c0) ops))).
Proof. exact ids_distinct. Qed.
Print Assumptions C06_ids.

(* the structured lookups of the model are lookups in the rendered memory: the words at a slot's
   index are its header *)
Theorem C06_render_coherent : forall st pre s suf, wf st -> r_slots st = pre ++ s :: suf ->
  word_at (render st) (s_pos s mod r_cap st) = s_len s /\
  word_at (render st) (s_pos s mod r_cap st + 4) = s_type s.
Proof. exact header_in_memory. Qed.
Print Assumptions C06_render_coherent.

(* unblock does nothing when no producer died *)
Theorem C06_unblock_idle : forall st, wf st -> unblock st = (st, false).
Proof. exact unblock_seq. Qed.
Print Assumptions C06_unblock_idle.

(* the predicate used to judge the implementation is true of every run of the model *)
Theorem C06_oracle_seq : forall m cp p0 hc0 c0 ops, seq_domain cp p0 hc0 c0 ops ->
  holds_seq cp p0 hc0 c0 ops (snd (run m (init cp p0 hc0 c0) ops)) = true.
Proof. exact oracle_seq_model. Qed.
Print Assumptions C06_oracle_seq.

(* non-vacuity: a ring of 32 bytes started at position 2^32 - 16 (the position crosses 2^32) with a
   stale head cache: a write that needs padding, a refusal, a read that consumes only the padding,
   ids across the i64 wrap *)
Definition ex_ops : list op :=
  [OpWrite 1 []; OpRead 1; OpWrite 2 [1; 2; 3]; OpWrite 3 [4; 5; 6; 7]; OpRead 1; OpNextId; OpRead 5;
   OpNextId; OpUnblock; OpSize; OpDump].

Example C06_example_domain : seq_domain 32 4294967280 4294967248 (two63 - 1) ex_ops.
Proof. unfold seq_domain. split; [exists 5; split; [lia | reflexivity] |].
  repeat split; try (vm_compute; congruence); try reflexivity.
  unfold ex_ops. repeat constructor; cbn; auto; right; reflexivity. Qed.

Example C06_example_run :
  snd (run Debug (init 32 4294967280 4294967248 (two63 - 1)) ex_ops) =
  [OW (Ok 0) 4294967280 4294967288;
   OR (Ok 1) [(1, 0, [])] 4294967288 4294967288;
   OW (Ok 0) 4294967288 4294967312;                       (* 8 bytes of padding + a 16 byte record at index 0 *)
   OW (Err InsufficientCapacity) 4294967288 4294967312;   (* 24 + 16 > 32 *)
   OR (Ok 0) [] 4294967296 4294967312;                    (* only the padding was consumed *)
   OI (Ok 9223372036854775807);
   OR (Ok 1) [(2, 3, [197121])] 4294967312 4294967312;
   OI (Ok (-9223372036854775808));
   OU (Ok 0) 4294967312 4294967312;
   OS (Ok 0);
   OD [(160, 16); (164, 1); (288, -16); (416, 16); (420, 1); (544, 1); (548, -2147483648)]].
Proof. vm_compute. reflexivity. Qed.

(* ---------------------------------------------------------------------------------------------
   Interleavings: any number of producers (a list), one consumer, every schedule, at the granularity
   of the shared-memory accesses the hook reports.  `Inv lo` is the inductive invariant of
   Proofs/RingConc.v: the slots tile [head', tail) inside one capacity; every slot is either committed
   (its positive length was written; it carries exactly a command of its owner's program, or padding)
   or owned by exactly the producer that is between its compare-and-set and its commit, in the state
   that producer's program counter dictates; head cache <= head <= head' <= tail <= head + capacity;
   what the consumer has walked over in the read in progress is committed.
   `reach lo` = reachable by any schedule as long as the tail stays below 2^62 - 2 capacities (positions are
   i64 in the code; lo is any lower bound >= 0 of the head values, e.g. the initial head cache).  Since
   fixes/C06-claim-capacity-i64.diff the capacity checks compare in 64 bits, so a head value of any staleness
   is sound and no window on the positions is needed. *)

Theorem C06_conc_invariant : forall lo m c0 c, Inv lo c0 -> reach lo m c0 c -> Inv lo c.
Proof. exact reach_inv. Qed.
Print Assumptions C06_conc_invariant.

Theorem C06_conc_step : forall lo m cfg tid cfg' e,
  Inv lo cfg -> step m cfg tid = Some (cfg', e) -> in_window lo cfg' -> Inv lo cfg'.
Proof. exact step_inv. Qed.
Print Assumptions C06_conc_step.

Theorem C06_conc_initial : forall R limits progs,
  wf R -> Forall (Forall wreq_ok) progs -> r_tail R + 2 * r_cap R <= two62 ->
  Inv (r_hc R) (start R limits progs).
Proof. exact inv_start. Qed.
Print Assumptions C06_conc_initial.

(* the consumer never passes a producer and the producers never lap the consumer *)
Theorem C06_conc_order : forall lo cfg, Inv lo cfg ->
  let R := g_ring cfg in
  r_hc R <= r_head R /\ r_head R <= r_tail R /\ r_tail R <= r_head R + r_cap R.
Proof. exact inv_order. Qed.
Print Assumptions C06_conc_order.

(* claims of distinct producers (any two different slots) never share a byte of the data area *)
Theorem C06_conc_disjoint : forall lo cfg a b da db, Inv lo cfg ->
  In a (r_slots (g_ring cfg)) -> In b (r_slots (g_ring cfg)) -> a <> b ->
  0 <= da < s_span a -> 0 <= db < s_span b ->
  s_pos a mod r_cap (g_ring cfg) + da <> s_pos b mod r_cap (g_ring cfg) + db.
Proof. exact inv_disjoint. Qed.
Print Assumptions C06_conc_disjoint.

(* a record is visible to the consumer only after its positive length was written *)
Theorem C06_conc_visible : forall lo cfg hd bytes msgs acc, Inv lo cfg ->
  c_pc (g_cons cfg) = CReadHdr hd bytes msgs acc ->
  exists used rest, r_slots (g_ring cfg) = used ++ rest /\ span_sum used = bytes /\
    Forall (fun s => 0 < s_len s) used /\ acc = msgs_of used.
Proof. exact inv_visible. Qed.
Print Assumptions C06_conc_visible.

(* no checked operation of any thread ever leaves its range (no thread panics) *)
Theorem C06_conc_no_panic : forall lo cfg, Inv lo cfg ->
  c_pc (g_cons cfg) <> CPanic /\ (forall i ps, nth_error (g_prods cfg) i = Some ps -> p_pc ps <> PPanic).
Proof. exact inv_no_panic. Qed.
Print Assumptions C06_conc_no_panic.

(* C06_conc: consumed ++ pending is a linearisation of the successful writes.  `log cfg` = the tags
   (producer, number of the write call) of everything delivered so far followed by those of the record
   pieces still in the ring, in position order.  `claimed ps` = the write calls of a producer that obtained
   space (returned Ok, or in flight after the compare-and-set).  For every reachable configuration and every
   producer: the log restricted to that producer is exactly its claimed writes in program order - nothing
   lost, nothing duplicated, order preserved - and everything delivered carries the type and bytes the
   producer's program passed to write (or is a command of the sequential prelude, owner 0). *)
Theorem C06_conc : forall lo m c0 c i ps,
  Inv lo c0 -> LogInv c0 -> reach lo m c0 c -> nth_error (g_prods c) i = Some ps ->
  of_owner (Z.of_nat (S i)) (log c) = map (fun k => (Z.of_nat (S i), k)) (claimed ps) /\
  Sorted.StronglySorted Z.lt (claimed ps) /\ NoDup (of_owner (Z.of_nat (S i)) (log c)).
Proof. intros lo m c0 c i ps H0 L0 Hr Hi. apply log_linear; [eapply reach_log; eassumption | assumption]. Qed.
Print Assumptions C06_conc.

Theorem C06_conc_intact : forall lo m c0 c o k ty b,
  Inv lo c0 -> LogInv c0 -> reach lo m c0 c -> In (o, k, ty, b) (delivered (g_cons c)) ->
  o = 0 \/ exists i ps, o = Z.of_nat (S i) /\ nth_error (g_prods c) i = Some ps /\
                        0 <= k /\ nth_error (p_prog ps) (Z.to_nat k) = Some (ty, b).
Proof. intros lo m c0 c o k ty b H0 L0 Hr Hin. exact (l_intact _ (reach_log _ _ _ _ H0 L0 Hr) o k ty b Hin). Qed.
Print Assumptions C06_conc_intact.

Theorem C06_conc_log_initial : forall R limits progs, wf R -> Forall (Forall wreq_ok) progs -> LogInv (start R limits progs).
Proof. exact loginv_start. Qed.
Print Assumptions C06_conc_log_initial.

(* non-vacuity: two producers and the consumer on a 64-byte ring; producer 1 is pre-empted between its
   compare-and-set and its header while producer 2 claims behind it (with padding) and commits; at the end
   the consumer is in the middle of its second read (it holds producer 2's message, not yet published) and
   producer 1 is in flight on its second write *)
Definition ex_k0 : config := start (init 64 40 40 0) [5; 5] [[(1, payload 0 8); (3, payload 2 0)]; [(2, payload 1 3)]].
Definition ex_sched : list nat :=
  ([1; 1; 1] ++ [2; 2; 2; 2; 2; 2; 2] ++ [1; 1; 1] ++ [0; 0; 0; 0; 0; 0] ++ [1; 1; 1] ++ [0; 0; 0; 0])%nat.
Definition ex_k : config := match replay_ok 40 Debug ex_k0 ex_sched with Some c => c | None => ex_k0 end.
Example C06_conc_example :
  Inv 40 ex_k0 /\ LogInv ex_k0 /\ reach 40 Debug ex_k0 ex_k /\
  log ex_k = [(1, 0); (2, 0); (1, 1)] /\ map untag (delivered (g_cons ex_k)) = [(1, payload 0 8)] /\
  c_pc (g_cons ex_k) = CZero 64 16 1 [(2, 0, 2, payload 1 3)] /\ map p_pc (g_prods ex_k) = [PHdr 80; PDone].
Proof. split; [| split; [| split; [| repeat split; vm_compute; reflexivity]]].
  - change (Inv (r_hc (init 64 40 40 0)) (start (init 64 40 40 0) [5; 5] [[(1, payload 0 8); (3, payload 2 0)]; [(2, payload 1 3)]])).
    apply inv_start.
    + apply wf_init; [exists 6; split; [lia | reflexivity] | lia | reflexivity].
    + repeat (constructor; try (right; reflexivity)).
    + cbn. unfold two62. lia.
  - apply loginv_start.
    + apply wf_init; [exists 6; split; [lia | reflexivity] | lia | reflexivity].
    + repeat (constructor; try (right; reflexivity)).
  - assert (E : replay_ok 40 Debug ex_k0 ex_sched = Some ex_k) by (vm_compute; reflexivity).
    exact (replay_reach _ _ _ _ _ _ E (reach_refl _ _ _)). Qed.

(* "A write is refused for lack of space only when ..." for interleavings.  In every reachable configuration, a
   granted step of a producer that makes its write call return InsufficientCapacity is the re-read of the head
   position after the first capacity check failed on the cached head (PReadHead1), or after the wrap check failed on
   the head held (PReadHead2); the refusal is decided on the head value just read (= the head position now) and the
   tail value tl the caller read at the start of its loop iteration (lo <= tl <= tail now):
     first check: (tl - head) + record > capacity, hence (tail - head) + record > capacity at this very moment;
     wrap check:  the record does not fit behind tl and record > head mod capacity;
   and whenever nobody moved the tail since the caller read it (tail = tl) this is the specification's only reason,
   `no_room`: (tail - head) + record + wrap padding > capacity.  When the caller was overtaken between its two reads the
   wrap check mixes a stale tail with a fresh head and can refuse although the ring has room: C06_conc_refusal_overtaken
   is a reachable configuration in which a 32-byte record is refused by an empty 256-byte ring (confirmed on the
   implementation: harness line in docs/reports/C06.md). *)
Theorem C06_conc_refusal : forall lo m cfg i ps R' ps' e,
  Inv lo cfg -> nth_error (g_prods cfg) i = Some ps ->
  pstep m (g_ring cfg) (Z.of_nat (S i)) ps = (R', ps', Some e) ->
  refused_now ps ps' ->
  let R := g_ring cfg in
  let cp := r_cap R in
  exists typ body tl,
    at_write cp ps typ body /\ R' = R /\
    e = ev (Z.of_nat (S i)) GetVolatile (cp + HEAD_OFF) 8 0 0 (r_head R) /\
    lo <= tl <= r_tail R /\
    let n := Z.of_nat (length body) in
    ((p_pc ps = PReadHead1 tl /\ (tl - r_head R) + rec_bytes n > cp /\ (r_tail R - r_head R) + rec_bytes n > cp) \/
     (p_pc ps = PReadHead2 tl /\ rec_bytes n > cp - tl mod cp /\ rec_bytes n > r_head R mod cp)) /\
    (r_tail R = tl -> no_room cp (r_head R) (r_tail R) n = true).
Proof. exact conc_refusal. Qed.
Print Assumptions C06_conc_refusal.

Example C06_conc_refusal_overtaken :
  reach 8 Debug sp_c0 sp_c /\
  map p_pc (g_prods sp_c) = [PReadHead2 232; PDone] /\ r_head (g_ring sp_c) = 256 /\ r_tail (g_ring sp_c) = 256 /\
  r_slots (g_ring sp_c) = [] /\
  (exists c' e, step Debug sp_c 1 = Some (c', e) /\
     map p_res (g_prods c') = [[Err InsufficientCapacity]; [Ok 0; Ok 0; Ok 0]] /\
     no_room 256 (r_head (g_ring sp_c)) (r_tail (g_ring sp_c)) 24 = false).
Proof. exact spurious_refusal. Qed.

(* ---- the known class refusal-on-stale-tail (KNOWN_FINDINGS.txt) ----
   The property text: "a write is refused for lack of space only when the unconsumed bytes plus the record (and wrap padding)
   really exceed the capacity".  A refusing step is in the known class when it is the head re-read of the wrap check and the
   tail counter has moved since the caller read it (the caller was overtaken).  Outside the class every refusal is justified
   at the very instant it is decided: `no_room` holds of the real head and tail positions. *)
Definition KnownClass_refusal_on_stale_tail (R : ring) (ps : pstate) : Prop :=
  exists tl, p_pc ps = PReadHead2 tl /\ r_tail R <> tl.

Theorem C06_conc_refusal_justified : forall lo m cfg i ps R' ps' e,
  Inv lo cfg -> nth_error (g_prods cfg) i = Some ps ->
  pstep m (g_ring cfg) (Z.of_nat (S i)) ps = (R', ps', Some e) ->
  refused_now ps ps' ->
  ~ KnownClass_refusal_on_stale_tail (g_ring cfg) ps ->
  exists typ body, at_write (r_cap (g_ring cfg)) ps typ body /\
    no_room (r_cap (g_ring cfg)) (r_head (g_ring cfg)) (r_tail (g_ring cfg)) (Z.of_nat (length body)) = true.
Proof. intros lo m cfg i ps R' ps' e HI Hi Hs Href Hk.
  destruct (conc_refusal lo m cfg i ps R' ps' e HI Hi Hs Href) as (typ & body & tl & Aw & _ & _ & Htl & Hcase & Hsame).
  exists typ, body. split; [exact Aw |]. cbn zeta in *.
  destruct Hcase as [(Epc & _ & Hreal) | (Epc & _)].
  - unfold no_room. pose proof (wrap_pad_bounds (r_cap (g_ring cfg)) (r_tail (g_ring cfg)) (Z.of_nat (length body)) (i_cap _ _ HI)). lia.
  - destruct (Z.eq_dec (r_tail (g_ring cfg)) tl) as [E | N]; [exact (Hsame E) |].
    exfalso. apply Hk. exists tl. split; assumption. Qed.
Print Assumptions C06_conc_refusal_justified.

(* the class is inhabited and the property's predicate fails on it: the run of corpus/C06/overtaken-refusal.json.  At the
   refusing step the producer is in the class, the ring is empty (no_room false); on the whole run the core of the oracle
   holds, the refusal clause fails, and the decidable form of the class (what the check evaluates on the implementation's
   observation) is true *)
Definition kn_progs : list (list wreq) := [[(1, payload 0 24)]; [(2, payload 1 0); (3, payload 2 0); (4, payload 3 0)]].
Definition kn_post : list op := [OpRead 2147483647; OpRead 2147483647; OpDump].
Definition kn_obs := run_conc Debug (init 256 232 8 0) [] [2147483647] kn_progs (unrle [(1, 2); (2, 400); (0, 400); (1, 400)]) [-1; -1; -1] kn_post.
Theorem C06_refusal_on_stale_tail_witness :
  (exists ps, nth_error (g_prods sp_c) 0 = Some ps /\ KnownClass_refusal_on_stale_tail (g_ring sp_c) ps /\
     reach 8 Debug sp_c0 sp_c /\
     exists c' e, step Debug sp_c 1 = Some (c', e) /\ map p_res (g_prods c') = [[Err InsufficientCapacity]; [Ok 0; Ok 0; Ok 0]] /\
       no_room 256 (r_head (g_ring sp_c)) (r_tail (g_ring sp_c)) 24 = false) /\
  KnownClass_refusal_on_stale_tail_obs 256 232 [] kn_progs kn_post kn_obs = true /\
  holds_conc_core 256 232 [] kn_progs kn_post kn_obs = true /\
  holds_conc 256 232 [] kn_progs kn_post kn_obs = false.
Proof. split; [| repeat split; vm_compute; reflexivity].
  destruct spurious_refusal as (Hr & Hpc & Hh & Ht & _ & Hstep).
  eexists. split; [vm_compute; reflexivity |]. split; [exists 232; split; [vm_compute; reflexivity | rewrite Ht; discriminate] |].
  split; [exact Hr | exact Hstep]. Qed.
Print Assumptions C06_refusal_on_stale_tail_witness.

(* the trace oracle of the concurrent cases: holds_conc = holds_conc_core && refusals_ok.  The core - positions, claims,
   deliveries - is true of every run of the thread model (the refusal clause: C06_conc_refusal_justified below).  `run_conc` = sequential
   prelude, threads under a schedule (replayed exactly as the harness's scheduler does), sequential epilogue;
   `conc_domain`: the prelude is in the sequential domain, the programs are well-formed and every write of the case
   has its own type id, the epilogue consists of reads and dumps (at least one read), positions stay below 2^62.
   Hypotheses on the run itself: every thread ran to completion (no crash point, schedule + drain long enough) and the
   epilogue drained the ring.  Then positions_ok holds along the whole trace, every claim read off the trace is
   committed, there are as many claims as successful write calls, and what the consumer and the epilogue delivered is
   exactly the prelude's pending commands followed by the committed commands in position order. *)
Theorem C06_oracle_conc : forall m cp p0 hc0 c0 pre limits progs sched stops post,
  conc_domain cp p0 hc0 c0 pre progs post ->
  let obs := run_conc m (init cp p0 hc0 c0) pre limits progs sched stops post in
  forallb finished (snd (fst obs)) = true ->
  (let '(h3, t3) := last_ht p0 (fst (fst (fst obs)) ++ snd obs) in h3 = t3) ->
  holds_conc_core cp p0 pre progs post obs = true.
Proof. exact oracle_conc_model. Qed.
Print Assumptions C06_oracle_conc.

(* the two ingredients that hold for every run, crash points or not: the positions along the trace, and the claims
   read off the trace against the ghost log *)
Theorem C06_conc_positions : forall lo m c tr c', Inv lo c -> steps lo m c tr c' ->
  positions_ok (r_cap (g_ring c)) tr (r_head (g_ring c)) (r_tail (g_ring c)) = true /\
  C07Oracle.trace_ht (r_cap (g_ring c)) tr (r_head (g_ring c)) (r_tail (g_ring c)) = (r_head (g_ring c'), r_tail (g_ring c')) /\
  r_cap (g_ring c') = r_cap (g_ring c).
Proof. exact steps_positions. Qed.
Print Assumptions C06_conc_positions.

Theorem C06_conc_claims : forall lo m c tr c' acc, Inv lo c -> LogInv c -> steps lo m c tr c' -> ClInv c acc ->
  ClInv c' (claims_rev (r_cap (g_ring c)) tr acc) /\ LogInv c' /\ Inv lo c'.
Proof. exact steps_claims. Qed.
Print Assumptions C06_conc_claims.

(* non-vacuity of C06_oracle_conc: two producers and a consumer on a 64-byte ring started at position 40 with one
   command left by the prelude; the run finishes, the epilogue drains, the oracle is true *)
Definition exo_pre : list op := [OpWrite 14 (payload 99 8)].
Definition exo_progs : list (list wreq) := [[(1, payload 0 8); (3, payload 2 0)]; [(2, payload 1 3)]].
Definition exo_post : list op := [OpRead 2147483647; OpRead 2147483647; OpDump].
Definition exo_obs := run_conc Debug (init 64 40 40 0) exo_pre [2; 2147483647] exo_progs
                        (unrle [(1, 3); (2, 7); (0, 4); (1, 5); (2, 400); (0, 400); (1, 400)]) [-1; -1; -1] exo_post.
Example C06_oracle_conc_example :
  conc_domain 64 40 40 0 exo_pre exo_progs exo_post /\
  forallb finished (snd (fst exo_obs)) = true /\
  (let '(h3, t3) := last_ht 40 (fst (fst (fst exo_obs)) ++ snd exo_obs) in h3 = t3) /\
  holds_conc_core 64 40 exo_pre exo_progs exo_post exo_obs = true /\
  holds_conc 64 40 exo_pre exo_progs exo_post exo_obs = true.
Proof. split; [| split; [| split; [| split]]]; try (vm_compute; reflexivity).
  unfold conc_domain. split; [| split; [| split; [| split; [| split]]]].
  - unfold seq_domain. split; [exists 6; split; [lia | reflexivity] |].
    repeat split; try (vm_compute; congruence); try reflexivity. constructor; [right; reflexivity | constructor].
  - repeat (constructor; try (right; reflexivity)).
  - vm_compute. repeat constructor; cbn; intuition discriminate.
  - repeat constructor.
  - reflexivity.
  - vm_compute. discriminate.
Qed.

(* the arithmetic before fixes/C06-claim-capacity-i64.diff: with a head cache stale by 2^32 - 8 bytes and a
   completely full 16-byte ring (tail - head = 16) the truncated difference is 8, so 8 bytes look available;
   in 64 bits the available capacity is negative and the write is refused *)
Example C06_stale_cache_witness :
  avail_before_fix Release 16 (8589934592 + 16) (8589934592 - 4294967296 + 8) = Ok 8 /\
  avail Release 16 (8589934592 + 16) (8589934592 - 4294967296 + 8) = Ok (-4294967288) /\
  snd (run Debug (init 16 8589934592 4294967304 0) [OpWrite 1 []; OpWrite 2 []; OpWrite 3 []]) =
    [OW (Ok 0) 8589934592 8589934600; OW (Ok 0) 8589934592 8589934608; OW (Err InsufficientCapacity) 8589934592 8589934608].
Proof. repeat split; vm_compute; reflexivity. Qed.
