(* placeholder, replaced below *)
Require Import V.Base.MachineInt V.Model.UriTypes V.Model.Uri.
Theorem C19_placeholder : forall s, parse_outcome s <> Panic.
Proof. intros s. unfold parse_outcome. destruct (parse s); discriminate. Qed.
Print Assumptions C19_placeholder.
