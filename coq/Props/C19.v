(* Property C19 - channel URIs: what the builder is told is what the parser reads back.
   Statements only; proofs are in Proofs/UriProofs.v, Proofs/UriBuilderProofs.v, Proofs/C19OracleProofs.v.

   Models: Model/Uri.v (ChannelUri::parse, Display, put/get/remove, add_session_id - as the code is),
           Model/UriBuilder.v (interpreter over the tables K1 reads off channel_uri_string_builder.rs on every run),
   Specification: Model/UriSpec.v (URI grammar, protocol parameter names, legal values, abstract builder,
           and `tables_ok`, the decidable condition on the generated tables). *)
From Coq Require Import Permutation.
Require Import V.Base.MachineInt.
Require Import V.Model.UriTypes.
Require Import V.Generated.GenUriTables.
Require Import V.Model.UriSpec.
Require Import V.Model.Uri.
Require Import V.Model.UriBuilder.
Require Import V.Oracle.C19Oracle.
Require Import V.Proofs.UriProofs.
Require Import V.Proofs.UriBuilderProofs.
Require Import V.Proofs.C19OracleProofs.
Open Scope Z_scope.

(* ---- the parser -------------------------------------------------------------------------------------------- *)

(* every input string is either parsed or rejected with an error: the state machine has no panicking step *)
Theorem C19_total : forall s, (exists u, parse_outcome s = Ok u) \/ (exists e, parse_outcome s = Err e).
Proof. exact parse_total. Qed.
Print Assumptions C19_total.

(* every string of the URI grammar  [aeron-spy:]aeron:<media>[?k=v(|k=v)*]  is accepted and read as exactly its parts,
   a later occurrence of a key replacing an earlier one; keys and values may contain any character except the separators *)
Theorem C19_grammar : forall prefix media kvs,
  grammar_ok prefix media kvs = true ->
  parse (spec_uri prefix media kvs) = POk (mkUri prefix media (last_wins kvs)).
Proof. exact parse_grammar. Qed.
Print Assumptions C19_grammar.

(* whatever is accepted is well formed: prefix "" or aeron-spy, no separator inside media / keys / values, distinct keys *)
Theorem C19_accepted_wf : forall s u, parse s = POk u -> wf_uri u.
Proof. exact parse_wf. Qed.
Print Assumptions C19_accepted_wf.

(* parse - print - parse is the identity, for every order in which the HashMap may hand out the parameters *)
Theorem C19_reparse : forall s u,
  parse s = POk u ->
  forall ord, Permutation ord (u_params u) ->
    parse (display u ord) = POk (mkUri (u_prefix u) (u_media u) ord)
    /\ forall k, lookup k ord = lookup k (u_params u).
Proof. exact reparse. Qed.
Print Assumptions C19_reparse.

(* add_session_id: the result (printed in any order) parses, to the same prefix and media, session-id = the decimal id,
   every other parameter untouched; it fails exactly when the channel does not parse *)
Theorem C19_session_id : forall s sid u',
  add_session_id s sid = POk u' ->
  exists u, parse s = POk u
    /\ u_prefix u' = u_prefix u /\ u_media u' = u_media u
    /\ lookup SESSION_ID_PARAM_NAME (u_params u') = Some (dec sid)
    /\ (forall k, k <> SESSION_ID_PARAM_NAME -> lookup k (u_params u') = lookup k (u_params u))
    /\ forall ord, Permutation ord (u_params u') ->
         parse (display u' ord) = POk (mkUri (u_prefix u) (u_media u) ord)
         /\ forall k, lookup k ord = lookup k (u_params u').
Proof. exact add_session_id_spec. Qed.
Print Assumptions C19_session_id.

Theorem C19_session_id_err : forall s sid e, add_session_id s sid = PErr e <-> parse s = PErr e.
Proof. exact add_session_id_err. Qed.
Print Assumptions C19_session_id_err.

Theorem C19_no_bar_in_decimal : forall z, has_bar (dec z) = false.
Proof. exact no_bar_in_decimal. Qed.
Print Assumptions C19_no_bar_in_decimal.

(* ---- the specification: each setter affects only its own parameter ----------------------------------------- *)

Theorem C19_spec_setter_own_parameter : forall a n x p,
  find_param n = Some p -> legal n x = true ->
  let a' := fst (sstep a (n, x)) in
  snd (sstep a (n, x)) = true
  /\ expected_entry a' p = [(p_name p, render (p_kind p) (sp_tagged a) x)]
  /\ (forall q, In q spec_params -> q <> p -> expected_entry a' q = expected_entry a q)
  /\ sp_prefix a' = sp_prefix a /\ sp_media a' = sp_media a /\ sp_tagged a' = sp_tagged a.
Proof. exact setter_own_parameter. Qed.
Print Assumptions C19_spec_setter_own_parameter.

Theorem C19_spec_rejected_changes_nothing : forall a n x p,
  find_param n = Some p -> legal n x = false -> sstep a (n, x) = (a, false).
Proof. exact rejected_changes_nothing. Qed.
Print Assumptions C19_spec_rejected_changes_nothing.

(* ---- the builder, for every pair of tables that passes tables_ok ---------------------------------------------- *)

(* the early-return checks `tables_ok` asks for say exactly `legal` of the *new* value *)
Theorem C19_checks_are_legal : forall s x n, existsb (check_fires s x) (spec_checks n) = negb (legal n x).
Proof. exact checks_legal. Qed.
Print Assumptions C19_checks_are_legal.

(* any sequence of setter calls (accepted or rejected, any order, any repetition; string arguments without '|'):
   the setters answer as the specification says, and once a media has been accepted build() returns a string that
   parses to exactly the expected prefix, media and parameter map - each parameter under the protocol's name with the
   last accepted value; without a media build() panics (expect) *)
Theorem C19_builder : forall T, tables_ok T = true ->
  forall ops, forallb op_no_bar ops = true ->
  let s := fst (run T empty_state ops) in
  let a := fst (srun s_init ops) in
  snd (run T empty_state ops) = snd (srun s_init ops)
  /\ match sp_media a with
     | None => build T s = Panic
     | Some m => exists b ps, build T s = Ok b
                   /\ parse b = POk (mkUri (expected_prefix a) m ps)
                   /\ Permutation ps (expected_params a)
     end.
Proof. intros T HT. exact (builder_correct T (tables_ok_tok T HT)). Qed.
Print Assumptions C19_builder.

(* ---- oracle = theorem predicate: true on the model's own observations, on the whole domain --------------------- *)

Theorem C19_oracle_parse_any : forall s, let '(r1, d, r2) := parse_obs s in holds_parse_any s r1 d r2 = true.
Proof. exact oracle_parse_any. Qed.
Print Assumptions C19_oracle_parse_any.

Theorem C19_oracle_parse_valid : forall s prefix media kvs,
  let '(r1, d, r2) := parse_obs s in holds_parse_valid s prefix media kvs r1 d r2 = true.
Proof. exact oracle_parse_valid. Qed.
Print Assumptions C19_oracle_parse_valid.

Theorem C19_oracle_sid : forall s sid, let '(r1, d, r2) := sid_obs s sid in holds_sid s sid r1 d r2 = true.
Proof. exact oracle_sid. Qed.
Print Assumptions C19_oracle_sid.

Theorem C19_oracle_api : forall s ops, let '(r1, res, r2) := api_obs s ops in holds_api ops r1 res r2 = true.
Proof. exact oracle_api. Qed.
Print Assumptions C19_oracle_api.

Theorem C19_oracle_builder : forall T ops, tables_ok T = true ->
  let '(oks, b, r) := builder_obs T ops in holds_builder ops oks b r = true.
Proof. exact oracle_builder. Qed.
Print Assumptions C19_oracle_builder.

(* ---- satisfiability of the hypotheses ------------------------------------------------------------------------------ *)

Definition S (s : string) : str := str_of_string s.

Example C19_ex_parse :
  parse (S "aeron-spy:aeron:udp?endpoint=localhost:40123|a?b=c=d|endpoint=x") =
  POk (mkUri (S "aeron-spy") (S "udp") [(S "endpoint", S "x"); (S "a?b", S "c=d")]).
Proof. reflexivity. Qed.

Example C19_ex_reject : parse (S "aeron:udp?a=b|") = PErr ENoMoreInput /\ parse (S "aeron:ipc|sparse=true") = PErr (ECharInMedia 124 9).
Proof. split; reflexivity. Qed.

Example C19_ex_grammar : grammar_ok (S "aeron-spy") (S "") [(S "k", S ""); (S "k", S "=")] = true.
Proof. reflexivity. Qed.

(* a non-identity iteration order *)
Example C19_ex_reparse :
  let u := mkUri [] (S "udp") [(S "a", S "1"); (S "b", S "2")] in
  parse (S "aeron:udp?a=1|b=2") = POk u
  /\ Permutation [(S "b", S "2"); (S "a", S "1")] (u_params u)
  /\ display u [(S "b", S "2"); (S "a", S "1")] = S "aeron:udp?b=2|a=1".
Proof. repeat split; try reflexivity. apply perm_swap. Qed.

Example C19_ex_session_id :
  add_session_id (S "aeron:udp?session-id=1|x=y") (-2147483648)
  = POk (mkUri [] (S "udp") [(S "session-id", S "-2147483648"); (S "x", S "y")]).
Proof. reflexivity. Qed.

Example C19_ex_spec :
  let a := fst (srun s_init [("media", AStr (S "udp")); ("session_id", AInt 7); ("tether", ABool true);
                             ("mtu", AInt 33); ("term_id", AInt 9); ("is_session_tagged", ABool true)]%string) in
  snd (srun s_init [("media", AStr (S "udp")); ("session_id", AInt 7); ("tether", ABool true);
                    ("mtu", AInt 33); ("term_id", AInt 9); ("is_session_tagged", ABool true)]%string) = [true; true; true; false; true; true]
  /\ expected_params a = [(S "term-id", S "9"); (S "session-id", S "tag:7"); (S "tether", S "true")].
Proof. split; reflexivity. Qed.

(* ---- the tables generated from the repository under check --------------------------------------------------------- *)

(* K1: the setter and emit tables read off src/channel_uri_string_builder.rs satisfy the condition
   (each setter validates its new value, assigns its own field only, every field is printed under its protocol name) *)
Theorem C19_tables_ok : tables_ok gen_tables = true.
Proof. vm_compute. reflexivity. Qed.
Print Assumptions C19_tables_ok.

Theorem C19_builder_generated :
  forall ops, forallb op_no_bar ops = true ->
  let s := fst (run gen_tables empty_state ops) in
  let a := fst (srun s_init ops) in
  snd (run gen_tables empty_state ops) = snd (srun s_init ops)
  /\ match sp_media a with
     | None => build gen_tables s = Panic
     | Some m => exists b ps, build gen_tables s = Ok b
                   /\ parse b = POk (mkUri (expected_prefix a) m ps)
                   /\ Permutation ps (expected_params a)
     end.
Proof. exact (C19_builder gen_tables C19_tables_ok). Qed.
Print Assumptions C19_builder_generated.

Example C19_ex_builder :
  builder_obs gen_tables [("prefix", AStr (S "aeron-spy")); ("media", AStr (S "udp")); ("session_id", AInt 7);
                          ("tether", ABool true); ("control_mode", AStr (S "manual")); ("term_id", AInt 9)]%string
  = ([1; 1; 1; 1; 1; 1],
     BOk (S "aeron-spy:aeron:udp?control-mode=manual|term-id=9|session-id=7|tether=true"),
     OOk (S "aeron-spy") (S "udp")
         [(S "control-mode", S "manual"); (S "session-id", S "7"); (S "term-id", S "9"); (S "tether", S "true")]).
Proof. vm_compute. reflexivity. Qed.
