(* Property C19 - channel URIs: what the builder is told is what the parser reads back.
   Statements only; proofs are in Proofs/UriProofs.v, Proofs/UriBuilderProofs.v, Proofs/C19OracleProofs.v.

   Models: Model/Uri.v (ChannelUri::parse, Display, put/get/remove, add_session_id - as the code is; tied to the Rust
           text by K1: Model/UriParserSem.v interprets the syntax trees of parse / fmt / add_session_id that the
           translator writes to Generated/GenUriParser.v on every run, and C19_k1_* say the interpreter on those
           trees *is* this model, for every input),
           Model/UriBuilder.v (interpreter over the tables K1 reads off channel_uri_string_builder.rs on every run),
   Specification: Model/UriSpec.v (URI grammar, protocol parameter names, legal values, abstract builder,
           and `tables_ok`, the decidable condition on the generated tables). *)
From Coq Require Import Permutation.
Require Import V.Base.MachineInt.
Require Import V.Model.UriTypes.
Require Import V.Generated.GenUriTables.
Require Import V.Model.UriSpec.
Require Import V.Model.Uri.
Require Import V.Model.UriBuilder.
Require Import V.Model.UriSplit.
Require Import V.Model.UriParserSem.
Require Import V.Generated.GenUriParser.
Require Import V.Oracle.C19Oracle.
Require Import V.Proofs.UriProofs.
Require Import V.Proofs.UriGrammarProofs.
Require Import V.Proofs.UriParserGenProofs.
Require Import V.Proofs.UriBuilderProofs.
Require Import V.Proofs.C19OracleProofs.
Open Scope Z_scope.

(* ---- the parser -------------------------------------------------------------------------------------------- *)

(* every input string is either parsed or rejected with an error: the state machine has no panicking step *)
Theorem C19_total : forall s, (exists u, parse_outcome s = Ok u) \/ (exists e, parse_outcome s = Err e).
Proof. exact parse_total. Qed.
Print Assumptions C19_total.

(* every string of the URI grammar  [aeron-spy:]aeron:<media>[?k=v(|k=v)*]  is accepted and read as exactly its parts,
   a later occurrence of a key replacing an earlier one; keys and values may contain any character except the separators *)
Theorem C19_grammar : forall prefix media kvs,
  grammar_ok prefix media kvs = true ->
  parse (spec_uri prefix media kvs) = POk (mkUri prefix media (last_wins kvs)).
Proof. exact parse_grammar. Qed.
Print Assumptions C19_grammar.

(* whatever is accepted is well formed: prefix "" or aeron-spy, no separator inside media / keys / values, distinct keys *)
Theorem C19_accepted_wf : forall s u, parse s = POk u -> wf_uri u.
Proof. exact parse_wf. Qed.
Print Assumptions C19_accepted_wf.

(* parse - print - parse is the identity, for every order in which the HashMap may hand out the parameters *)
Theorem C19_reparse : forall s u,
  parse s = POk u ->
  forall ord, Permutation ord (u_params u) ->
    parse (display u ord) = POk (mkUri (u_prefix u) (u_media u) ord)
    /\ forall k, lookup k ord = lookup k (u_params u).
Proof. exact reparse. Qed.
Print Assumptions C19_reparse.

(* add_session_id: the result (printed in any order) parses, to the same prefix and media, session-id = the decimal id,
   every other parameter untouched; it fails exactly when the channel does not parse *)
Theorem C19_session_id : forall s sid u',
  add_session_id s sid = POk u' ->
  exists u, parse s = POk u
    /\ u_prefix u' = u_prefix u /\ u_media u' = u_media u
    /\ lookup SESSION_ID_PARAM_NAME (u_params u') = Some (dec sid)
    /\ (forall k, k <> SESSION_ID_PARAM_NAME -> lookup k (u_params u') = lookup k (u_params u))
    /\ forall ord, Permutation ord (u_params u') ->
         parse (display u' ord) = POk (mkUri (u_prefix u) (u_media u) ord)
         /\ forall k, lookup k ord = lookup k (u_params u').
Proof. exact add_session_id_spec. Qed.
Print Assumptions C19_session_id.

Theorem C19_session_id_err : forall s sid e, add_session_id s sid = PErr e <-> parse s = PErr e.
Proof. exact add_session_id_err. Qed.
Print Assumptions C19_session_id_err.

Theorem C19_no_bar_in_decimal : forall z, has_bar (dec z) = false.
Proof. exact no_bar_in_decimal. Qed.
Print Assumptions C19_no_bar_in_decimal.

(* ---- K1 for the parser side: the model above is the Rust text ------------------------------------------------ *)

(* `gen_parser` is the syntax tree of `ChannelUri::parse` as the translator read it off src/channel_uri.rs on this run
   (state enum, prologue, the per-state `match` on the character, the statements after the loop, the error literals);
   `gparse` is its interpreter. On every string it returns what the hand-written model returns - the same uri or the
   same error with the same payload - and it is never stuck. *)
Theorem C19_k1_parser : forall s, gparse gen_parser s = lift (parse s).
Proof. exact gen_parse_eq. Qed.
Print Assumptions C19_k1_parser.

Theorem C19_k1_parser_accepts : forall s u, gparse gen_parser s = GOk u <-> parse s = POk u.
Proof. exact gen_parse_ok. Qed.
Print Assumptions C19_k1_parser_accepts.

Theorem C19_k1_parser_rejects : forall s e, gparse gen_parser s = GFail e <-> parse s = PErr e.
Proof. exact gen_parse_err. Qed.
Print Assumptions C19_k1_parser_rejects.

Theorem C19_k1_parser_total : forall s, gparse gen_parser s <> GStuck.
Proof. exact gen_parse_not_stuck. Qed.
Print Assumptions C19_k1_parser_total.

(* the three variants of `enum State` are the three states of the model *)
Theorem C19_k1_states : map state_of (gp_states gen_parser) = [Some SMedia; Some SKey; Some SValue].
Proof. exact gen_states. Qed.
Print Assumptions C19_k1_states.

(* an error literal `IllegalStateError::..` is reported in class IllegalState, `IllegalArgumentError::..` in IllegalArg *)
Theorem C19_k1_error_class : forall cur cls variant fields e r,
  eval_gerr cur (GErr cls variant fields) e = Some r ->
  (cls = ILLEGAL_STATE /\ err_class r = IllegalState) \/ (cls = ILLEGAL_ARGUMENT /\ err_class r = IllegalArg).
Proof. exact eval_gerr_class. Qed.
Print Assumptions C19_k1_error_class.

(* `gen_display` is the body of `Display::fmt` (prefix with its ':', AERON_PREFIX, media, '?', key=value| per entry, pop):
   for every prefix, media and iteration order it yields the string of the model's `print` *)
Theorem C19_k1_display : forall prefix media ord, gdisplay gen_display prefix media ord = Some (print prefix media ord).
Proof. exact gen_display_eq. Qed.
Print Assumptions C19_k1_display.

(* add_session_id parses, puts the decimal id under SESSION_ID_PARAM_NAME, prints *)
Theorem C19_k1_session_id : gen_sid = {| sid_key := SESSION_ID_PARAM_NAME; sid_ok := true |}.
Proof. exact gen_sid_eq. Qed.
Print Assumptions C19_k1_session_id.

(* prefix() media() get() get_or_default() put() remove() contains_key() are the one-liners the model assumes *)
Theorem C19_k1_accessors : gen_accessors_ok = true.
Proof. exact gen_accessors. Qed.
Print Assumptions C19_k1_accessors.

(* the round trip on the two translated functions alone: whatever the translated parser accepts, printed by the translated
   fmt in any HashMap order, is accepted again by the translated parser as the same prefix, media and map *)
Theorem C19_k1_roundtrip : forall s u,
  gparse gen_parser s = GOk u ->
  forall ord, Permutation ord (u_params u) ->
    exists x, gdisplay gen_display (u_prefix u) (u_media u) ord = Some x
              /\ gparse gen_parser x = GOk (mkUri (u_prefix u) (u_media u) ord).
Proof. exact (gen_roundtrip_from (fun s u H ord Hp => proj1 (C19_reparse s u H ord Hp))). Qed.
Print Assumptions C19_k1_roundtrip.

(* what the harness observes for `p <s>`, computed from the two translated trees, is the model's observation *)
Theorem C19_k1_observations : forall s, gparse_obs gen_parser gen_display s = parse_obs s.
Proof. exact gen_obs_eq. Qed.
Print Assumptions C19_k1_observations.

(* ---- the parser accepts exactly the grammar; printing what was read gives the input back up to order -------------- *)

(* converse of C19_grammar: an accepted string *is* a string of the grammar, over the prefix and media that were read, and
   the map that was read is its key=value pairs with a later occurrence of a key replacing an earlier one *)
Theorem C19_accepted_in_grammar : forall s u,
  parse s = POk u ->
  exists kvs, grammar_ok (u_prefix u) (u_media u) kvs = true
              /\ s = spec_uri (u_prefix u) (u_media u) kvs
              /\ u_params u = last_wins kvs.
Proof. exact parse_in_grammar. Qed.
Print Assumptions C19_accepted_in_grammar.

Theorem C19_accepts_exactly_grammar : forall s,
  (exists u, parse s = POk u) <-> exists prefix media kvs, grammar_ok prefix media kvs = true /\ s = spec_uri prefix media kvs.
Proof. exact parse_accepts_iff. Qed.
Print Assumptions C19_accepts_exactly_grammar.

(* to_string(parse(s)): in whatever order the HashMap hands out the entries it is the grammar string over the same prefix
   and media whose pairs are a permutation of the (last-wins) pairs of s; when s has no duplicate key, the order in which
   the pairs were written gives s itself *)
Theorem C19_print_of_parse : forall s u,
  parse s = POk u ->
  exists kvs, s = spec_uri (u_prefix u) (u_media u) kvs
    /\ (forall ord, Permutation ord (u_params u) ->
          display u ord = spec_uri (u_prefix u) (u_media u) ord /\ Permutation ord (last_wins kvs))
    /\ (NoDup (keys kvs) -> display u (u_params u) = s).
Proof. exact print_of_parse. Qed.
Print Assumptions C19_print_of_parse.

(* the grammar read backwards (cut at the first '?', at every '|', at the first '=' of each piece) recovers the parts *)
Theorem C19_read_backwards : forall prefix media kvs,
  grammar_ok prefix media kvs = true -> uri_read (spec_uri prefix media kvs) = (uri_head prefix media, kvs).
Proof. exact uri_read_spec. Qed.
Print Assumptions C19_read_backwards.

(* ---- the specification: each setter affects only its own parameter ----------------------------------------- *)

Theorem C19_spec_setter_own_parameter : forall a n x p,
  find_param n = Some p -> legal n x = true ->
  let a' := fst (sstep a (n, x)) in
  snd (sstep a (n, x)) = true
  /\ expected_entry a' p = [(p_name p, render (p_kind p) (sp_tagged a) x)]
  /\ (forall q, In q spec_params -> q <> p -> expected_entry a' q = expected_entry a q)
  /\ sp_prefix a' = sp_prefix a /\ sp_media a' = sp_media a /\ sp_tagged a' = sp_tagged a.
Proof. exact setter_own_parameter. Qed.
Print Assumptions C19_spec_setter_own_parameter.

Theorem C19_spec_rejected_changes_nothing : forall a n x p,
  find_param n = Some p -> legal n x = false -> sstep a (n, x) = (a, false).
Proof. exact rejected_changes_nothing. Qed.
Print Assumptions C19_spec_rejected_changes_nothing.

(* ---- the builder, for every pair of tables that passes tables_ok ---------------------------------------------- *)

(* the early-return checks `tables_ok` asks for say exactly `legal` of the *new* value *)
Theorem C19_checks_are_legal : forall s x n, existsb (check_fires s x) (spec_checks n) = negb (legal n x).
Proof. exact checks_legal. Qed.
Print Assumptions C19_checks_are_legal.

(* any sequence of setter calls (accepted or rejected, any order, any repetition; string arguments without '|'):
   the setters answer as the specification says, and once a media has been accepted build() returns a string that
   parses to exactly the expected prefix, media and parameter map - each parameter under the protocol's name with the
   last accepted value; without a media build() panics (expect) *)
Theorem C19_builder : forall T, tables_ok T = true ->
  forall ops, forallb op_no_bar ops = true ->
  let s := fst (run T empty_state ops) in
  let a := fst (srun s_init ops) in
  snd (run T empty_state ops) = snd (srun s_init ops)
  /\ match sp_media a with
     | None => build T s = Panic
     | Some m => exists b ps, build T s = Ok b
                   /\ parse b = POk (mkUri (expected_prefix a) m ps)
                   /\ Permutation ps (expected_params a)
     end.
Proof. intros T HT. exact (builder_correct T (tables_ok_tok T HT)). Qed.
Print Assumptions C19_builder.

(* ---- oracle = theorem predicate: true on the model's own observations, on the whole domain --------------------- *)

Theorem C19_oracle_parse_any : forall s, let '(r1, d, r2) := parse_obs s in holds_parse_any s r1 d r2 = true.
Proof. exact oracle_parse_any. Qed.
Print Assumptions C19_oracle_parse_any.

Theorem C19_oracle_parse_valid : forall s prefix media kvs,
  let '(r1, d, r2) := parse_obs s in holds_parse_valid s prefix media kvs r1 d r2 = true.
Proof. exact oracle_parse_valid. Qed.
Print Assumptions C19_oracle_parse_valid.

Theorem C19_oracle_sid : forall s sid, let '(r1, d, r2) := sid_obs s sid in holds_sid s sid r1 d r2 = true.
Proof. exact oracle_sid. Qed.
Print Assumptions C19_oracle_sid.

Theorem C19_oracle_api : forall s ops, let '(r1, res, r2) := api_obs s ops in holds_api ops r1 res r2 = true.
Proof. exact oracle_api. Qed.
Print Assumptions C19_oracle_api.

Theorem C19_oracle_builder : forall T ops, tables_ok T = true ->
  let '(oks, b, r) := builder_obs T ops in holds_builder ops oks b r = true.
Proof. exact oracle_builder. Qed.
Print Assumptions C19_oracle_builder.

(* ---- satisfiability of the hypotheses ------------------------------------------------------------------------------ *)

Definition S (s : string) : str := str_of_string s.

Example C19_ex_parse :
  parse (S "aeron-spy:aeron:udp?endpoint=localhost:40123|a?b=c=d|endpoint=x") =
  POk (mkUri (S "aeron-spy") (S "udp") [(S "endpoint", S "x"); (S "a?b", S "c=d")]).
Proof. reflexivity. Qed.

Example C19_ex_reject : parse (S "aeron:udp?a=b|") = PErr ENoMoreInput /\ parse (S "aeron:ipc|sparse=true") = PErr (ECharInMedia 124 9).
Proof. split; reflexivity. Qed.

Example C19_ex_grammar : grammar_ok (S "aeron-spy") (S "") [(S "k", S ""); (S "k", S "=")] = true.
Proof. reflexivity. Qed.

(* the corners of the grammar, on the model and on the translated parser: duplicate key (last wins, first position), empty
   value, '=' '?' ':' inside values (IPv6 endpoint), '?' and ':' inside a key, characters outside ASCII *)
Example C19_ex_corners :
  let s := S "aeron:udp?a=1|a=2|e=|endpoint=[fe80::1]:40123|q=who?|x=a=b=|k?:=v" ++ [233; 8364; 119070; 1114111; 0] in
  let u := mkUri [] (S "udp") [(S "a", S "2"); (S "e", []); (S "endpoint", S "[fe80::1]:40123"); (S "q", S "who?");
                               (S "x", S "a=b="); (S "k?:", S "v" ++ [233; 8364; 119070; 1114111; 0])] in
  parse s = POk u /\ gparse gen_parser s = GOk u
  /\ gdisplay gen_display (u_prefix u) (u_media u) (u_params u)
     = Some (S "aeron:udp?a=2|e=|endpoint=[fe80::1]:40123|q=who?|x=a=b=|k?:=v" ++ [233; 8364; 119070; 1114111; 0]).
Proof. repeat split; vm_compute; reflexivity. Qed.

(* '|' at the end, an empty key, a key without '=', ':' in the media, a multi-byte media: rejected, with the same error and
   index by the model and by the translated parser (the index counts characters, not bytes) *)
Example C19_ex_rejected :
  gparse gen_parser (S "aeron:udp?a=b|") = GFail ENoMoreInput /\ parse (S "aeron:udp?a=b|") = PErr ENoMoreInput
  /\ gparse gen_parser (S "aeron-spy:aeron:udp?a=b|=c") = GFail (EEmptyKey 24)
  /\ gparse gen_parser (S "aeron:udp?a|b=c") = GFail (EInvalidEndOfKey 11)
  /\ gparse gen_parser (S "aeron:" ++ [233; 119070] ++ S ":") = GFail (ECharInMedia 58 8)
  /\ gparse gen_parser (S "aeron:" ++ [119070]) = GFail (EUnknownMedia [119070])
  /\ gparse gen_parser (S "aeron") = GFail EMustStartWithAeron.
Proof. repeat split; vm_compute; reflexivity. Qed.

(* a string with a duplicate key: printing gives it back without the overwritten pair *)
Example C19_ex_print_of_parse :
  let u := mkUri [] (S "udp") [(S "a", S "2"); (S "b", S "")] in
  parse (S "aeron:udp?a=1|b=|a=2") = POk u /\ display u (u_params u) = S "aeron:udp?a=2|b="
  /\ uri_read (S "aeron:udp?a=1|b=|a=2") = (S "aeron:udp", [(S "a", S "1"); (S "b", S ""); (S "a", S "2")]).
Proof. repeat split; reflexivity. Qed.

(* a non-identity iteration order *)
Example C19_ex_reparse :
  let u := mkUri [] (S "udp") [(S "a", S "1"); (S "b", S "2")] in
  parse (S "aeron:udp?a=1|b=2") = POk u
  /\ Permutation [(S "b", S "2"); (S "a", S "1")] (u_params u)
  /\ display u [(S "b", S "2"); (S "a", S "1")] = S "aeron:udp?b=2|a=1".
Proof. repeat split; try reflexivity. apply perm_swap. Qed.

Example C19_ex_session_id :
  add_session_id (S "aeron:udp?session-id=1|x=y") (-2147483648)
  = POk (mkUri [] (S "udp") [(S "session-id", S "-2147483648"); (S "x", S "y")]).
Proof. reflexivity. Qed.

Example C19_ex_spec :
  let a := fst (srun s_init [("media", AStr (S "udp")); ("session_id", AInt 7); ("tether", ABool true);
                             ("mtu", AInt 33); ("term_id", AInt 9); ("is_session_tagged", ABool true)]%string) in
  snd (srun s_init [("media", AStr (S "udp")); ("session_id", AInt 7); ("tether", ABool true);
                    ("mtu", AInt 33); ("term_id", AInt 9); ("is_session_tagged", ABool true)]%string) = [true; true; true; false; true; true]
  /\ expected_params a = [(S "term-id", S "9"); (S "session-id", S "tag:7"); (S "tether", S "true")].
Proof. split; reflexivity. Qed.

(* ---- the tables generated from the repository under check --------------------------------------------------------- *)

(* K1: the setter and emit tables read off src/channel_uri_string_builder.rs satisfy the condition
   (each setter validates its new value, assigns its own field only, every field is printed under its protocol name) *)
Theorem C19_tables_ok : tables_ok gen_tables = true.
Proof. vm_compute. reflexivity. Qed.
Print Assumptions C19_tables_ok.

Theorem C19_builder_generated :
  forall ops, forallb op_no_bar ops = true ->
  let s := fst (run gen_tables empty_state ops) in
  let a := fst (srun s_init ops) in
  snd (run gen_tables empty_state ops) = snd (srun s_init ops)
  /\ match sp_media a with
     | None => build gen_tables s = Panic
     | Some m => exists b ps, build gen_tables s = Ok b
                   /\ parse b = POk (mkUri (expected_prefix a) m ps)
                   /\ Permutation ps (expected_params a)
     end.
Proof. exact (C19_builder gen_tables C19_tables_ok). Qed.
Print Assumptions C19_builder_generated.

Example C19_ex_builder :
  builder_obs gen_tables [("prefix", AStr (S "aeron-spy")); ("media", AStr (S "udp")); ("session_id", AInt 7);
                          ("tether", ABool true); ("control_mode", AStr (S "manual")); ("term_id", AInt 9)]%string
  = ([1; 1; 1; 1; 1; 1],
     BOk (S "aeron-spy:aeron:udp?control-mode=manual|term-id=9|session-id=7|tether=true"),
     OOk (S "aeron-spy") (S "udp")
         [(S "control-mode", S "manual"); (S "session-id", S "7"); (S "term-id", S "9"); (S "tether", S "true")]).
Proof. vm_compute. reflexivity. Qed.
