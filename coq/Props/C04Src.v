(* Property C04, K1 source tie.  Statements only; proofs are in Proofs/GenSrcPubProofs.v.
   `src_pub_*`, `src_xpub_*`, `src_ta_*` (Generated/GenSrcPub.v) are the Gallina reading of the decision functions and of
   the set-up / position arithmetic of src/publication.rs, src/exclusive_publication.rs and term_appender.rs as they are
   in the repository under check today (tools/props/src_translate.py, regenerated on every run).
   A function returning Result / an error value yields an `sres`; run_pub / run_xpub (Proofs/GenSrcPubProofs.v) give the
   effect and error names their meaning in the model's state, and the theorems say that running the translated function
   *is* the model's function.  A changed operator, constant, cast, comparison, operand or error variant breaks them. *)
Require Import V.Base.MachineInt V.Base.MachineInt2 V.Base.MachineIntT V.Generated.GenConsts
               V.Model.Descriptor V.Model.LogBase V.Model.LogDelta V.Model.Appender V.Model.ExclAppender
               V.Model.Publication V.Model.ExclPublication
               V.Generated.GenSrcPub V.Proofs.GenSrcPubProofs.
From Coq Require Import String.
Open Scope Z_scope.

(* Publication::new_position: new position / UnknownCode / MaxPositionExceeded / rotate_log + AdminAction *)
Theorem C04_src_pub_new_position : forall m l term_count term_offset tid position resulting,
  run_pub_o m l (src_pub_new_position m (max_possible_position l) term_count term_offset tid position resulting)
  = pub_new_position m l term_count term_offset tid position resulting.
Proof. exact src_pub_new_position_eq. Qed.
Print Assumptions C04_src_pub_new_position.

(* back_pressure_status: MaxPositionExceeded at the end of the position space, else BackPressured / NotConnected *)
Theorem C04_src_pub_back_pressure_status : forall m l position len,
  (r <- src_pub_back_pressure_status m (max_possible_position l) (l_connected l) position len ;; out_of_sres r)
  = back_pressure_status m l position len.
Proof. exact src_pub_back_pressure_status_eq. Qed.
Print Assumptions C04_src_pub_back_pressure_status.

Theorem C04_src_xpub_back_pressure_status : forall m l position len,
  (r <- src_xpub_back_pressure_status m (max_possible_position l) (l_connected l) position len ;; out_of_sres r)
  = back_pressure_status m l position len.
Proof. exact src_xpub_back_pressure_status_eq. Qed.
Print Assumptions C04_src_xpub_back_pressure_status.

(* the length checks refuse exactly when the model answers TooLong *)
Theorem C04_src_length_checks : forall m maxl len,
  (r <- src_pub_check_max_message_length m maxl len ;; out_of_sres r) = (if maxl <? len then Err TooLong else Ok 0) /\
  (r <- src_pub_check_payload_length m maxl len ;; out_of_sres r) = (if maxl <? len then Err TooLong else Ok 0) /\
  (r <- src_xpub_check_max_message_length m maxl len ;; out_of_sres r) = (if maxl <? len then Err TooLong else Ok 0) /\
  (r <- src_xpub_check_payload_length m maxl len ;; out_of_sres r) = (if maxl <? len then Err TooLong else Ok 0) /\
  src_xpub_offer_too_long m maxl len = Ok (maxl <? len) /\
  src_xpub_offer_unfragmented m maxl len = Ok (len <=? maxl).
Proof. intros. destruct (src_xpub_checks_eq m maxl len) as (A & B & C & D).
  exact (conj (src_pub_check_max_message_length_eq m maxl len) (conj (src_pub_check_payload_length_eq m maxl len)
        (conj A (conj B (conj C D))))). Qed.
Print Assumptions C04_src_length_checks.

(* the geometry both constructors derive from the log: end of the position space, payload bound, message bound, shift *)
Theorem C04_src_geometry : forall m l, in_i32 (l_tlen l) = true ->
  src_pub_max_possible_position m (l_tlen l) = Ok (max_possible_position l) /\
  src_xpub_max_possible_position m (l_tlen l) = Ok (max_possible_position l) /\
  src_pub_max_payload_length m (l_mtu l) = sub32 m (l_mtu l) HDR /\
  src_xpub_max_payload_length m (l_mtu l) = sub32 m (l_mtu l) HDR /\
  src_pub_max_message_length m (l_tlen l) = Ok (Appender.max_message_length l) /\
  src_pub_position_bits_to_shift m (l_tlen l) = Ok (bits_of l) /\
  src_xpub_position_bits_to_shift m (l_tlen l) = Ok (bits_of l).
Proof. intros m l H. destruct (src_xpub_geometry_eq m l H) as (A & B & C).
  exact (conj (src_pub_max_possible_position_eq m l) (conj A (conj (src_pub_max_payload_length_eq m l) (conj B
        (conj (src_pub_max_message_length_eq m l) (conj (src_pub_position_bits_to_shift_eq m l H) C)))))). Qed.
Print Assumptions C04_src_geometry.

(* the limit test of offer_opt / try_claim: position = term begin + tail offset, consistency of the term count,
   strictly below the limit, unfragmented iff it fits the payload bound *)
Theorem C04_src_pub_limit_test : forall m l term_count tid term_offset position limit len raw,
  0 <= bits_of l < 64 ->
  src_pub_offer_term_offset m raw = Ok (raw mod two32) /\
  src_pub_offer_position m (bits_of l) (l_init l) tid term_offset =
    add64 m (compute_term_begin_position tid (bits_of l) (l_init l)) term_offset /\
  src_pub_claim_position m (bits_of l) (l_init l) tid term_offset =
    add64 m (compute_term_begin_position tid (bits_of l) (l_init l)) term_offset /\
  src_pub_offer_term_mismatch m (l_init l) term_count tid = Ok (negb (term_count =? wrap32 (tid - l_init l))) /\
  src_pub_claim_term_mismatch m (l_init l) term_count tid = Ok (negb (term_count =? wrap32 (tid - l_init l))) /\
  src_pub_offer_below_limit m position limit = Ok (position <? limit) /\
  src_pub_claim_below_limit m position limit = Ok (position <? limit) /\
  src_pub_offer_unfragmented m (max_payload_length l) len = Ok (len <=? max_payload_length l) /\
  src_pub_offer_term_offset_arg m term_offset = Ok (wrap32 term_offset).
Proof. intros m l term_count tid term_offset position limit len raw H.
  exact (conj (src_pub_offer_term_offset_eq m raw) (conj (src_pub_offer_position_eq m l tid term_offset H)
        (conj (src_pub_claim_position_eq m l tid term_offset H)
              (src_pub_offer_decisions_eq m l term_count tid position limit len term_offset)))). Qed.
Print Assumptions C04_src_pub_limit_test.

(* ExclusivePublication::new_position with its updates of the publication's own cursor and of the log meta data *)
Theorem C04_src_xpub_new_position : forall m x l claim resulting,
  match src_xpub_new_position m (x_begin x) (max_possible_position l) (x_idx x) (x_tid x) (l_init l) (x_off x)
          (l_tlen l) resulting with
  | Ok s => run_xpub (x_entry x l claim) s = xpub_new_position m x l claim resulting
  | _ => snd (xpub_new_position m x l claim resulting) = Panic
  end.
Proof. exact src_xpub_new_position_eq. Qed.
Print Assumptions C04_src_xpub_new_position.

(* the exclusive publication's own cursor: position = term begin + term offset, accepted strictly below the limit *)
Theorem C04_src_xpub_position : forall m x position limit,
  src_xpub_offer_position m (x_begin x) (x_off x) = add64 m (x_begin x) (x_off x) /\
  src_xpub_position m (x_begin x) (x_off x) = add64 m (x_begin x) (x_off x) /\
  src_xpub_offer_below_limit m position limit = Ok (position <? limit).
Proof. intros. destruct (src_xpub_position_eq m x) as (A & B). exact (conj A (conj B (src_xpub_offer_below_limit_eq m position limit))). Qed.
Print Assumptions C04_src_xpub_position.

(* TermAppender: the space an unfragmented / a fragmented message needs, the end-of-term decision and the padding *)
Theorem C04_src_appender_lengths : forall m len mpl, ~ (len = - two31 /\ mpl = -1) ->
  (fl <- src_ta_frame_length m len ;; al <- src_ta_aligned_length m fl ;; Ok (fl, al)) = unfrag_lengths m len /\
  (nmp <- src_ta_num_max_payloads m len mpl ;; rp <- src_ta_remaining_payload m len mpl ;;
   last <- src_ta_last_frame_length m rp ;; src_ta_required_length m nmp mpl last) = frag_required m len mpl.
Proof. intros m len mpl H. exact (conj (src_ta_unfrag_lengths_eq m len) (src_ta_frag_required_eq m len mpl H)). Qed.
Print Assumptions C04_src_appender_lengths.

Theorem C04_src_appender_end_of_term : forall m raw al tl off,
  src_ta_term_offset m raw = Ok (raw mod two32) /\
  src_ta_resulting_offset m (raw mod two32) al = add64 m (raw mod two32) al /\
  src_ta_trips m al tl = Ok (al >? tl) /\
  src_ta_pads m off tl = Ok (off <? tl) /\ src_ta_padding_length m tl off = sub32 m tl off.
Proof. intros. destruct (src_ta_tail_eq m raw al tl) as (A & B & C). destruct (src_ta_padding_eq m off tl) as (D & E).
  exact (conj A (conj B (conj C (conj D E)))). Qed.
Print Assumptions C04_src_appender_end_of_term.

(* ExclusiveTermAppender: the same lengths, the resulting offset on the publication's own cursor (i32), the end-of-term test
   `term length < resulting offset` of eta_claim and the eta_append functions, and the padding *)
Theorem C04_src_excl_appender : forall m len mpl term_offset required resulting tl, ~ (len = - two31 /\ mpl = -1) ->
  (fl <- src_xta_frame_length m len ;; al <- src_xta_aligned_length m fl ;; r <- src_xta_resulting_offset m term_offset al ;;
   Ok (fl, al, r)) = ('(fl, al) <- unfrag_lengths m len ;; r <- add32 m term_offset al ;; Ok (fl, al, r)) /\
  src_xta_required_length m len mpl = frag_required m len mpl /\
  src_xta_frag_resulting_offset m term_offset required = add32 m term_offset required /\
  src_xta_trips m resulting tl = Ok (tl <? resulting) /\
  src_xta_pads m term_offset tl = Ok (term_offset <? tl) /\
  src_xta_padding_length m tl term_offset = sub32 m tl term_offset.
Proof. intros m len mpl term_offset required resulting tl H.
  exact (conj (src_xta_unfrag_eq m len term_offset) (conj (src_xta_required_length_eq m len mpl H)
        (src_xta_decisions_eq m term_offset required resulting tl))). Qed.
Print Assumptions C04_src_excl_appender.

Example C04_src_example :
  src_pub_new_position Debug (2 ^ 47) 0 0 7 64 128 = Ok (ROk 192) /\
  src_pub_new_position Debug (2 ^ 47) 3 65504 10 (3 * 65536 + 65504) (-1) =
    Ok (RDo "rotate_log" [3; 10] (RErr "AeronError::AdminAction" [])) /\
  src_pub_back_pressure_status Debug (2 ^ 47) false 1024 100 = Ok (RErr "AeronError::NotConnected" []) /\
  src_pub_max_possible_position Debug 65536 = Ok (2 ^ 47).
Proof. repeat split. Qed.
