(* Property C16 - buffer accessors never touch memory outside the wrapped region. Statements only. *)
Require Import V.Base.MachineInt V.Generated.GenBounds V.Model.Buffer V.Proofs.BufferGuard.
Open Scope Z_scope.

Theorem C16_guard : forall m cap idx len,
  in_i32 cap = true -> in_i32 idx = true -> in_i32 len = true ->
  bounds_ok m cap idx len = Ok true -> 0 <= idx /\ 0 <= len /\ idx + len <= cap.
Proof. exact bounds_ok_sound. Qed.
Print Assumptions C16_guard.
